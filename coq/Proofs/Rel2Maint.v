(** * Rel2Maint: work packages L and D of the relation tier (worlds WITH relation components).

    L. The relation-agnostic operations keep the relation invariant [St2]:
       [L_RelInvG_rows] / [L_CacheInvG_rows] / [L_TargetFlagsG_flags] / [L_St2G_rows] (frame: operations that change
       rows, cells, index and pool but no table's label, no archetype, no cache entry), [r2d_place_new] (a new row
       in an active table, any window [St2G D P X]), [L_create_entity_spec2_gen] / [L_create_entity_spec2],
       [L_copy_entity_spec2_partial_obs] / [L_copy_entity_spec2_partial] (the copy has the same components, values
       AND relation targets), [L_write_spec2] / [L_write_cell_spec2_partial].
    D1. Shrink: [D_remove_from_targets], [r2d_free_step], [D_shrink_spec].
    D2. Reset: [r2d_arch_loop], [r2d_reset_St2], [D_reset_spec], [D_reset_spec_match].
    D3 (kernel only): [D_create_entities_spec2] (storage.createEntities into an active table of a relation world),
       [D_new_entities_spec2] (World.NewEntities). [D_new_batch_spec] / [D_remove_entities_spec] are not proved
       (they need package A's table finder resp. a cleanup for a set of dying ids).

    Findings (details at the statements):
    - [St2] alone is NOT preserved by [create_entity]: createEntity clears the target flag of the id it
      hands out, so a lookup key with that id (possible in a state satisfying [St2]: a key whose table list
      is empty may belong to a dead id) would lose its flag. The invariant needs the additional clause
      [r2d_KeysLive] (every lookup key other than 0 is the id of a stored entity), which holds in all
      reachable states checked ([r2d_keys_live_scripts], [r2d_keys_live_fuzz]) and is preserved by all
      operations of this file. Counterexample state (satisfies [St2], not reachable): [r2d_create_refuted].
    - the plan's [L_write_cell_spec2] is false for rows beyond the table length (a non-zero value in the
      zero tail breaks [tbl_ok]): [r2d_write_cell_refuted]; the API only writes through [cell_of], which
      yields a stored row.
    - the plan's [L_copy_entity_spec2] has the same two defects in its [Err] branch as its relation-free
      counterpart (StorageB_sb1: the pool is popped before the index lookup; a callback may panic after
      the copy): proved with the same two extra hypotheses.
    - Reset needs (as in the relation-free tier) that every archetype WITHOUT relation components has its
      table ([reset_fails_without_table] of ResetShrinkProofs shows the necessity); archetypes with relation
      components need nothing. After Reset the target flags of the two reserved ids survive ([firstn 2]). *)
From Ark Require Import Model.Base Model.Mask Model.Pool Model.Util Model.World Model.Run.
From Ark Require Import Proofs.TableProofs Proofs.UtilProofs Proofs.MaskProofs Proofs.WF Proofs.StorageA Proofs.StorageBDefs
  Proofs.StorageB_sb1 Proofs.StorageB_sb2 Proofs.StorageB_sb3 Proofs.StorageC Proofs.RelProofs Proofs.ResetShrinkProofs Proofs.BatchProofs Proofs.ViewProofs
  Proofs.Rel2Defs Proofs.Rel2Struct Proofs.Rel2Remove.
From Ark Require Properties.Common Proofs.Rel2Check.
From RecordUpdate Require Import RecordSet.
Import RecordSetNotations.
From Coq Require Import Lia.

(* ================================================================================================ *)
(** * Vocabulary *)

Definition r2d_tgt_same (s s' : W) : Prop := forall e c, tgt s' e c = tgt s e c.

(** Everything except entity [e] keeps components, values and targets. *)
Definition r2d_others_same2 (s s' : W) (e : ent) : Prop :=
  forall e', e' <> e -> live s' e' = live s e' /\ (forall c, val s' e' c = val s e' c) /\ (forall c, tgt s' e' c = tgt s e' c).

(** What a failing call guarantees in relation worlds (= [rejected2] of the plan, [r2c_rejected]). *)
Definition r2d_rejected2 (s s' : W) : Prop :=
  St2 s' /\ content_same s s' /\ r2d_tgt_same s s' /\ w_pool s' = w_pool s /\ frame_user s s'.

(** The clause missing in [St2]: a lookup key other than 0 is the id of a stored entity. *)
Definition r2d_KeysLive (s : W) : Prop :=
  forall aid a k l, nth_error (w_archs s) aid = Some a -> afind k (a_tgttabs a) = Some l ->
    k = 0 \/ exists g, live s (k, g) = true.

(** Boolean checker for [r2d_KeysLive] (sound under [WF]). *)
Definition r2d_keys_live_b (s : W) : bool :=
  forallb (fun a => forallb (fun kl : nat * list nat =>
     (Nat.eqb (fst kl) 0 || match nth_error (w_index s) (fst kl) with Some (Some _, _) => true | _ => false end)%bool)
     (a_tgttabs a)) (w_archs s).

Lemma r2d_index_live : forall s k tid r, WF s -> nth_error (w_index s) k = Some (Some tid, r) ->
  exists g, live s (k, g) = true.
Proof.
  intros s k tid r HW Hi. destruct (wf_index _ HW k tid r Hi) as (t & Ht & Hr & Hf).
  exists (snd (row_ent t r)). apply (sb3_live_of_row s (k, snd (row_ent t r)) tid r t); [exact Hi|exact Ht|exact Hr|].
  rewrite <- Hf. destruct (row_ent t r); reflexivity.
Qed.

Lemma r2d_live_index : forall s x, live s x = true -> exists tid r, nth_error (w_index s) (fst x) = Some (Some tid, r).
Proof.
  intros s x H. destruct (sb1_live_inv s x H) as (tid & row & t & Hi & _). exists tid, row. exact Hi.
Qed.

Lemma r2d_keys_live_b_sound : forall s, WF s -> r2d_keys_live_b s = true -> r2d_KeysLive s.
Proof.
  intros s HW H aid a k l Ha Hk. pose proof (r2_forallb_nth _ _ _ _ _ H Ha) as H1. cbv beta in H1.
  rewrite forallb_forall in H1. specialize (H1 (k, l) (r2_afind_in _ _ _ _ Hk)). cbn [fst] in H1.
  apply orb_true_iff in H1. destruct H1 as [H1|H1]; [left; apply Nat.eqb_eq; exact H1|right].
  destruct (nth_error (w_index s) k) as [[[tid|] r]|] eqn:Hi; try discriminate.
  apply (r2d_index_live s k tid r HW Hi).
Qed.

Lemma r2d_tgt_same_refl : forall s, r2d_tgt_same s s.
Proof. intros s e c. reflexivity. Qed.

Lemma r2d_rejected2_refl : forall s, St2 s -> r2d_rejected2 s s.
Proof.
  intros s HS. split; [exact HS|]. split; [apply sb1_content_same_refl|]. split; [apply r2d_tgt_same_refl|].
  split; [reflexivity|apply sb1_frame_user_refl].
Qed.

(* ================================================================================================ *)
(** * Package L, part 1: the frame lemma

    An operation that changes rows, cells, the entity index and the pool, but no table's label
    ([t_arch], [t_free], [t_rels], [t_targets]; free tables stay empty), no archetype, not
    [w_relarchs], keeps [RelInvG], provided stored entities stay stored (or are dying). This is the
    plan's statement (it does not even need [t_ids]/[t_kinds]; [r2c_RelInvG_rows] of Rel2Remove is the
    instance with [sb2_meta]). *)
Lemma L_RelInvG_rows : forall D s s', RelInvG D s ->
  w_archs s' = w_archs s -> w_relarchs s' = w_relarchs s ->
  (forall tid t, nth_error (w_tables s) tid = Some t -> exists t', nth_error (w_tables s') tid = Some t' /\
     t_arch t' = t_arch t /\ t_free t' = t_free t /\ t_rels t' = t_rels t /\ t_targets t' = t_targets t /\
     (t_free t = true -> t_len t' = 0)) ->
  length (w_tables s') = length (w_tables s) ->
  (forall x, live s x = true -> live s' x = true \/ D (fst x)) ->
  RelInvG D s'.
Proof.
  intros D s s' HR EA ER Fwd TL HL.
  assert (Rev : forall tid t', nth_error (w_tables s') tid = Some t' ->
            exists t, nth_error (w_tables s) tid = Some t /\
              t_arch t' = t_arch t /\ t_free t' = t_free t /\ t_rels t' = t_rels t /\ t_targets t' = t_targets t /\
              (t_free t = true -> t_len t' = 0)).
  { intros tid t' E. assert (Hlt : tid < length (w_tables s)) by (rewrite <- TL; eapply sa_nth_error_lt; exact E).
    destruct (nth_error (w_tables s) tid) as [t|] eqn:Et; [|apply nth_error_None in Et; lia].
    destruct (Fwd _ _ Et) as (t'' & E'' & F). rewrite E in E''. injection E'' as <-. exists t. split; [reflexivity|exact F]. }
  destruct HR.
  constructor; rewrite ?EA, ?ER.
  - exact ri_nodup.
  - intros aid a tid t' Ha Hin Ht'. destruct (Rev tid t' Ht') as (t & Ht & M1 & M6 & M5 & M4 & _).
    rewrite M6. apply (ri_active aid a tid t Ha Hin Ht).
  - intros aid a tid t' Ha Hin Ht'. destruct (Rev tid t' Ht') as (t & Ht & M1 & M6 & M5 & M4 & Hz).
    destruct (ri_freed aid a tid t Ha Hin Ht) as (Hf & _). rewrite M6. split; [exact Hf|apply Hz; exact Hf].
  - intros tid t' Ht'. destruct (Rev tid t' Ht') as (t & Ht & M1 & M6 & M5 & M4 & _).
    rewrite M1, M6. apply (ri_listed tid t Ht).
  - exact ri_norel.
  - intros tid t' a Ht' Ha. destruct (Rev tid t' Ht') as (t & Ht & M1 & M6 & M5 & M4 & _).
    rewrite M1 in Ha. rewrite M5, M4. apply (ri_shape tid t a Ht Ha).
  - intros tid1 tid2 t1' t2' H1 H2 F1 F2 Ea Et.
    destruct (Rev tid1 t1' H1) as (t1 & Ht1 & A1 & A6 & A5 & A4 & _).
    destruct (Rev tid2 t2' H2) as (t2 & Ht2 & B1 & B6 & B5 & B4 & _).
    apply (ri_unique tid1 tid2 t1 t2 Ht1 Ht2); congruence.
  - intros aid a i m k l Ha Hm Hk. destruct (ri_reltabs aid a i m k l Ha Hm Hk) as (N & Rc & Hall).
    split; [exact N|]. split; [exact Rc|]. intros tid Hin. destruct (Hall tid Hin) as (t & Ht & Hg & Hfr).
    destruct (Fwd tid t Ht) as (t' & Ht' & M1 & M6 & M5 & M4 & _).
    exists t'. split; [exact Ht'|]. rewrite M4, M6. split; [exact Hg|exact Hfr].
  - intros tid t' a i x Ht' Hf Ha Hr Hx. destruct (Rev tid t' Ht') as (t & Ht & M1 & M6 & M5 & M4 & _).
    rewrite M1 in Ha. rewrite M6 in Hf. rewrite M4 in Hx. apply (ri_reltabs_complete tid t a i x Ht Hf Ha Hr Hx).
  - intros aid a k l Ha Hk. destruct (ri_tgttabs aid a k l Ha Hk) as (N & Hall).
    split; [exact N|]. intros tid Hin. destruct (Hall tid Hin) as (t & Ht & Hg & Hfr).
    destruct (Fwd tid t Ht) as (t' & Ht' & M1 & M6 & M5 & M4 & _).
    exists t'. split; [exact Ht'|]. split; [unfold r2_has_target in *; rewrite M4; exact Hg|].
    rewrite M6. exact Hfr.
  - intros tid t' a i x Ht' Hf Ha Hr Hx. destruct (Rev tid t' Ht') as (t & Ht & M1 & M6 & M5 & M4 & _).
    rewrite M1 in Ha. rewrite M6 in Hf. rewrite M4 in Hx. apply (ri_tgttabs_complete tid t a i x Ht Hf Ha Hr Hx).
  - exact ri_keys.
  - exact ri_relarchs.
  - intros tid t' r Ht' Hf Hin. destruct (Rev tid t' Ht') as (t & Ht & M1 & M6 & M5 & M4 & _).
    rewrite M6 in Hf. rewrite M5 in Hin. destruct (ri_targets_ok tid t r Ht Hf Hin) as [Hz|[Hl|Hd]].
    + left. exact Hz.
    + destruct (HL _ Hl) as [Hl'|Hd]; [right; left; exact Hl'|right; right; exact Hd].
    + right. right. exact Hd.
Qed.

(** The filter cache additionally reads [t_ids] (through [tbl_matches]). *)
Lemma L_CacheInvG_rows : forall X s s', CacheInvG X s ->
  w_archs s' = w_archs s -> w_centries s' = w_centries s -> w_cheap s' = w_cheap s -> w_filters s' = w_filters s ->
  (forall tid t, nth_error (w_tables s) tid = Some t -> exists t', nth_error (w_tables s') tid = Some t' /\ sb2_meta t t') ->
  length (w_tables s') = length (w_tables s) ->
  CacheInvG X s'.
Proof.
  intros X s s' HC EA Ec Eh Ef Fwd TL.
  assert (Rev : forall tid t', nth_error (w_tables s') tid = Some t' ->
            exists t, nth_error (w_tables s) tid = Some t /\ sb2_meta t t').
  { intros tid t' E. assert (Hlt : tid < length (w_tables s)) by (rewrite <- TL; eapply sa_nth_error_lt; exact E).
    destruct (nth_error (w_tables s) tid) as [t|] eqn:Et; [|apply nth_error_None in Et; lia].
    destruct (Fwd _ _ Et) as (t'' & E'' & F). rewrite E in E''. injection E'' as <-. exists t. split; [reflexivity|exact F]. }
  destruct HC. constructor; rewrite ?Ec; [exact ci_nodup|].
  intros addr e f Hin He Hf. rewrite Eh in He. rewrite Ef in Hf.
  destruct (ci_entry addr e f Hin He Hf) as (N & M & B & I). split; [exact N|]. split; [exact M|]. split.
  - rewrite TL. exact B.
  - intros tid HX. rewrite (I tid HX). unfold r2_cache_member. rewrite EA. split.
    + intros (t & a & Ht & Hfr & Ha & Hm & Hr). destruct (Fwd tid t Ht) as (t' & Ht' & Mt).
      pose proof Mt as (M1 & M2 & M3 & M4 & M5 & M6).
      exists t', a. rewrite M1, M6, M5, (r2c_tbl_matches_meta t t' _ Mt). repeat split; assumption.
    + intros (t' & a & Ht' & Hfr & Ha & Hm & Hr). destruct (Rev tid t' Ht') as (t & Ht & Mt).
      pose proof Mt as (M1 & M2 & M3 & M4 & M5 & M6).
      rewrite M1 in Ha. rewrite M6 in Hfr. rewrite M5, (r2c_tbl_matches_meta t t' _ Mt) in Hr.
      exists t, a. repeat split; assumption.
Qed.

(** Target flags: only the flags of lookup keys matter. *)
Lemma L_TargetFlagsG_flags : forall P s s', TargetFlagsG P s -> w_archs s' = w_archs s ->
  (forall aid a k l, nth_error (w_archs s) aid = Some a -> afind k (a_tgttabs a) = Some l ->
     nth k (w_istarget s) false = true -> nth k (w_istarget s') false = true) ->
  TargetFlagsG P s'.
Proof.
  intros P s s' H EA HF aid a k l Ha Hk. rewrite EA in Ha.
  destruct (H aid a k l Ha Hk) as [H0|[H1|H2]]; [left; exact H0|right; left; apply (HF aid a k l Ha Hk H1)|right; right; exact H2].
Qed.

(** All three together, given [WF] of the new state. *)
Lemma L_St2G_rows : forall D P X s s', St2G D P X s -> WF s' ->
  w_archs s' = w_archs s -> w_relarchs s' = w_relarchs s ->
  w_centries s' = w_centries s -> w_cheap s' = w_cheap s -> w_filters s' = w_filters s ->
  (forall tid t, nth_error (w_tables s) tid = Some t -> exists t', nth_error (w_tables s') tid = Some t' /\ sb2_meta t t' /\
     (t_free t = true -> t_len t' = 0)) ->
  length (w_tables s') = length (w_tables s) ->
  (forall x, live s x = true -> live s' x = true \/ D (fst x)) ->
  (forall aid a k l, nth_error (w_archs s) aid = Some a -> afind k (a_tgttabs a) = Some l ->
     nth k (w_istarget s) false = true -> nth k (w_istarget s') false = true) ->
  St2G D P X s'.
Proof.
  intros D P X s s' (HW & HR & HT & HC) HW' EA ER Ec Eh Ef Fwd TL HL HF.
  split; [exact HW'|]. split; [|split].
  - apply (L_RelInvG_rows D s s' HR EA ER); [|exact TL|exact HL].
    intros tid t Ht. destruct (Fwd tid t Ht) as (t' & Ht' & (M1 & M2 & M3 & M4 & M5 & M6) & Hz).
    exists t'. split; [exact Ht'|]. repeat split; assumption.
  - apply (L_TargetFlagsG_flags P s s' HT EA HF).
  - apply (L_CacheInvG_rows X s s' HC EA Ec Eh Ef); [|exact TL].
    intros tid t Ht. destruct (Fwd tid t Ht) as (t' & Ht' & M & _). exists t'. split; assumption.
Qed.

(* ================================================================================================ *)
(** * Package L, part 2: placing a new row (createEntity, CopyEntity; reusable for NewEntity with relations)

    [sb1_p_WF] and [sb1_p_others] of StorageB_sb1 are stated for [St] (= [WF] and no relation
    component); their proofs only use [WF]. They are re-proved here for [WF] alone, the second one
    extended by the relation targets. *)

Section r2d_place.
Variables (s : W) (tid : nat) (t t2 : table) (e : ent) (p' : pool)
          (idx' : list (option nat * nat)) (ist' : list bool).
Hypothesis HW : WF s.
Hypothesis Ht : nth_error (w_tables s) tid = Some t.
Hypothesis Hroom : room s.
Hypothesis Hslot : sb1_slot s e p' idx' (Some tid, t_len t).
Hypothesis Hist : length ist' = length idx'.
Hypothesis Hgr : sb1_grown t t2 e.

Let s2 := sb1_st2 s p' (upd tid t2 (w_tables s)) idx' ist'.

Lemma r2d_p_WF : WF s2.
Proof.
  pose proof HW as Hwf.
  pose proof (sb1_p_tab s tid t t2 e p' idx' ist' Ht Hslot) as Htab.
  pose proof (sb1_p_loc_new s tid t t2 e p' idx' ist' Hslot) as Hln.
  pose proof (sb1_p_loc_other s tid t t2 e p' idx' ist' Hslot) as Hlo.
  pose proof (sb1_p_loc_some_ne s tid t e p' idx' Hslot) as Hne.
  fold s2 in Htab, Hln, Hlo.
  destruct Hslot as (He2 & Hi1 & Hi2 & Hil & Hp1 & Hp2 & Hold & (fl' & Hok' & Hfl1 & Hfl2) & Hlen).
  destruct Hgr as (Gok & Glen & Gent & Gcell & Grow & Gids & Gkinds & Garch & Grels & Gtg & Gfree).
  assert (Hkind : kind_of s2 = kind_of s) by (apply sb1_kind_of_eq; reflexivity).
  constructor.
  - apply Forall_nth_error. intros i x Hx. rewrite Htab in Hx.
    destruct (Nat.eqb_spec tid i).
    + inversion Hx; subst; assumption.
    + eapply (proj1 (Forall_nth_error _ _ _) (wf_tables _ Hwf)); eassumption.
  - intros tid' t' Hx. rewrite Htab in Hx. rewrite Hkind.
    change (w_archs s2) with (w_archs s).
    destruct (Nat.eqb_spec tid tid').
    + inversion Hx; subst t'. rewrite Garch, Gids, Gkinds, Gtg. eapply wf_layout; eassumption.
    + eapply wf_layout; eassumption.
  - rewrite Hkind. exact (wf_arch_comps _ Hwf).
  - exact (wf_arch_unique _ Hwf).
  - intros aid a tid' Ha Hin. destruct (wf_arch_tables _ Hwf aid a tid' Ha Hin) as (t0 & Ht0 & Hta).
    rewrite Htab. destruct (Nat.eqb_spec tid tid').
    + subst tid'. exists t2. split; [reflexivity|]. rewrite Ht in Ht0. inversion Ht0; subst t0. congruence.
    + exists t0. split; assumption.
  - exact (wf_arch_norel_table _ Hwf).
  - destruct (wf_arch0 _ Hwf) as (a0 & Ha0 & Hm0 & t0 & Ht0 & Hta0).
    exists a0. split; [exact Ha0|]. split; [exact Hm0|]. rewrite Htab.
    destruct (Nat.eqb_spec tid 0).
    + subst tid. exists t2. split; [reflexivity|]. rewrite Ht in Ht0. inversion Ht0; subst t0. congruence.
    + exists t0. split; assumption.
  - exact (wf_index_lists _ Hwf).
  - split; [exact Hil | exact Hist].
  - intros tid' t' r Hx Hr. rewrite Htab in Hx.
    change (pe (w_pool s2)) with (pe p').
    assert (Hold_row : forall t0 r0, nth_error (w_tables s) tid' = Some t0 -> r0 < t_len t0 ->
              loc s2 (row_ent t0 r0) = Some (tid', r0) /\
              nth_error (pe p') (fst (row_ent t0 r0)) = Some (row_ent t0 r0)).
    { intros t0 r0 Ht0 Hr0. destruct (wf_rows _ Hwf tid' t0 r0 Ht0 Hr0) as (Hl & Hp).
      pose proof (Hne _ _ Hl) as Hn. rewrite Hlo, Hp2 by assumption. split; assumption. }
    destruct (Nat.eqb_spec tid tid').
    + inversion Hx; subst t' tid'. rewrite Glen in Hr.
      destruct (Nat.eq_dec r (t_len t)).
      * subst r. rewrite Gent. split; [apply Hln; reflexivity | exact Hp1].
      * rewrite Grow by lia. apply Hold_row; [assumption|lia].
    + apply Hold_row; assumption.
  - intros id tid' r Hx. change (w_index s2) with idx' in Hx.
    destruct (Nat.eq_dec id (fst e)).
    + subst id. rewrite Hi1 in Hx. inversion Hx; subst tid' r.
      exists t2. rewrite Htab, Nat.eqb_refl. split; [reflexivity|]. split; [lia|]. rewrite Gent. reflexivity.
    + rewrite Hi2 in Hx by assumption.
      destruct (wf_index _ Hwf id tid' r Hx) as (t0 & Ht0 & Hr0 & Hf0).
      rewrite Htab. destruct (Nat.eqb_spec tid tid').
      * subst tid'. rewrite Ht in Ht0. inversion Ht0; subst t0.
        exists t2. split; [reflexivity|]. split; [lia|]. rewrite Grow by assumption. assumption.
      * exists t0. auto.
  - exists fl'. change (w_pool s2) with p'. change (w_index s2) with idx'.
    split; [assumption|]. split.
    + intros i Hi. destruct (Hfl1 i Hi) as (Hn & r & Hr). exists r. rewrite Hi2; assumption.
    + intros i Hi Hnin. destruct (Nat.eq_dec i (fst e)).
      * subst i. eauto.
      * rewrite Hi2 by assumption. apply Hfl2; assumption.
  - change (w_pool s2) with p'. change (w_index s2) with idx'.
    destruct (wf_reserved _ Hwf) as (R0 & R1 & P0 & P1).
    rewrite !Hi2, !Hp2 by lia. auto.
  - change (w_pool s2) with p'. unfold room in Hroom. lia.
  - exact (wf_cache _ Hwf).
Qed.

(** the new entity's targets are those of its table *)
Lemma r2d_p_tgt_new : forall c, tgt s2 e c = tbl_target t c.
Proof.
  intros c. pose proof (sb1_p_live_new s tid t t2 e p' idx' ist' Ht Hslot Hist Hgr) as Hl. fold s2 in Hl.
  pose proof (sb1_p_loc_new s tid t t2 e p' idx' ist' Hslot e eq_refl) as Hloc. fold s2 in Hloc.
  pose proof (sb1_p_tab s tid t t2 e p' idx' ist' Ht Hslot tid) as Htab. fold s2 in Htab. rewrite Nat.eqb_refl in Htab.
  rewrite (r2c_tgt_at s2 e tid (t_len t) t2 Hloc Htab c), Hl.
  destruct Hgr as (_ & _ & _ & _ & _ & Gids & _ & _ & _ & Gtg & _).
  unfold tbl_target, tbl_colidx. rewrite Gids, Gtg. reflexivity.
Qed.

(** everybody else keeps components, values and targets *)
Lemma r2d_p_others : r2d_others_same2 s s2 e.
Proof.
  pose proof (sb1_p_tab s tid t t2 e p' idx' ist' Ht Hslot) as Htab. fold s2 in Htab.
  pose proof (sb1_p_loc_new s tid t t2 e p' idx' ist' Hslot) as Hln. fold s2 in Hln.
  pose proof (sb1_p_loc_other s tid t t2 e p' idx' ist' Hslot) as Hlo. fold s2 in Hlo.
  pose proof (sb1_p_loc_old_none s tid t e p' idx' Hslot) as Hlold.
  destruct Hgr as (Gok & Glen & Gent & Gcell & Grow & Gids & Gk & Ga & Gr & Gtg & Gf).
  intros e' Hne'. destruct (Nat.eq_dec (fst e') (fst e)) as [Hf|Hf].
  - assert (L1 : live s e' = false) by (unfold live; rewrite (Hlold e' Hf); reflexivity).
    assert (L2 : live s2 e' = false).
    { unfold live. rewrite (Hln e' Hf), Htab, Nat.eqb_refl, Gent.
      destruct (ent_eqb e e') eqn:E; [apply sb1_ent_eqb_eq in E; congruence|]. apply andb_false_r. }
    unfold val, tgt. rewrite L1, L2. split; [reflexivity|]. split; reflexivity.
  - assert (L : live s2 e' = live s e' /\ (live s e' = true -> (forall c, value_of s2 e' c = value_of s e' c) /\
                                                             (forall c, target_of s2 e' c = target_of s e' c))).
    { unfold live, value_of, target_of. rewrite (Hlo e' Hf).
      destruct (loc s e') as [[tid' r]|] eqn:El; [|split; [reflexivity|intros _; split; reflexivity]].
      rewrite Htab. destruct (Nat.eqb_spec tid tid').
      - subst tid'. rewrite Ht. rewrite Glen. unfold tbl_target, tbl_colidx. rewrite Gids, Gtg.
        destruct (Nat.ltb_spec r (t_len t)).
        + rewrite Grow by assumption. destruct (Nat.ltb_spec r (S (t_len t))); [|lia].
          split; [reflexivity|]. intros _. split; [|reflexivity]. intros c. destruct (index_of c (t_ids t)); [|reflexivity].
          rewrite Gcell by assumption. reflexivity.
        + split; [|simpl; discriminate]. simpl.
          destruct (Nat.ltb_spec r (S (t_len t))); [|reflexivity]. simpl.
          assert (r = t_len t) by lia. subst r. rewrite Gent.
          destruct (ent_eqb e e') eqn:E; [apply sb1_ent_eqb_eq in E; congruence|reflexivity].
      - split; [reflexivity|intros _; split; reflexivity]. }
    destruct L as [L1 L2]. split; [exact L1|]. unfold val, tgt. rewrite L1.
    destruct (live s e') eqn:E; [|split; reflexivity]. destruct (L2 eq_refl) as (V & T). split; [exact V|exact T].
Qed.
End r2d_place.

(** Placing a new entity in an ACTIVE table [tid]: all of [St2G] is kept if the target flags of the
    lookup keys survive. *)
Lemma r2d_place_new : forall D P X s tid t e p',
  St2G D P X s -> nth_error (w_tables s) tid = Some t -> t_free t = false -> room s ->
  pool_get (w_pool s) = (e, p') ->
  forall t2 ist', sb1_grown t t2 e -> length ist' = length (sb1_idx s e (Some tid, t_len t)) ->
  (forall aid a k l, nth_error (w_archs s) aid = Some a -> afind k (a_tgttabs a) = Some l ->
     nth k (w_istarget s) false = true -> nth k ist' false = true) ->
  let s2 := sb1_st2 s p' (upd tid t2 (w_tables s)) (sb1_idx s e (Some tid, t_len t)) ist' in
  St2G D P X s2 /\ live s e = false /\ live s2 e = true /\ alive s2 e = true /\
  (forall c, val s2 e c = match tbl_colidx t c with Some ci => Some (cell t2 ci (t_len t)) | None => None end) /\
  (forall c, tgt s2 e c = tbl_target t c) /\
  r2d_others_same2 s s2 e /\ side_same s s2 /\ frame_user s s2 /\
  length (pe (w_pool s2)) <= S (length (pe (w_pool s))).
Proof.
  intros D P X s tid t e p' HS Ht Hfree Hroom Hg t2 ist' Hgr Hist HF s2.
  pose proof HS as (HW & HR & HT & HC).
  destruct (sb1_slot_of_get s e p' (Some tid, t_len t) HW Hg) as (Hslot & _).
  pose proof (r2d_p_WF s tid t t2 e p' _ ist' HW Ht Hroom Hslot Hist Hgr) as HW2. fold s2 in HW2.
  pose proof (r2d_p_others s tid t t2 e p' _ ist' Ht Hslot Hist Hgr) as Hoth. fold s2 in Hoth.
  pose proof (sb1_p_live_old s tid t e p' _ Hslot) as Hlo.
  pose proof (sb1_p_tab s tid t t2 e p' _ ist' Ht Hslot) as Htab. fold s2 in Htab.
  split.
  { apply (L_St2G_rows D P X s s2 HS HW2); try reflexivity.
    - intros j tj Hj. rewrite Htab. destruct (Nat.eqb_spec tid j) as [<-|Hne].
      + rewrite Ht in Hj. injection Hj as <-. exists t2. split; [reflexivity|].
        destruct Hgr as (_ & _ & _ & _ & _ & G1 & G2 & G3 & G4 & G5 & G6).
        split; [unfold sb2_meta; repeat split; assumption|]. intros Hc. congruence.
      + exists tj. split; [exact Hj|]. split; [apply sb2_meta_refl|]. intros Hf. apply (r2c_free_len0 D s j tj HR Hj Hf).
    - unfold s2, sb1_st2. cbn. apply upd_length.
    - intros x Hx. left. assert (Hne : x <> e) by (intros ->; congruence).
      destruct (Hoth x Hne) as (L & _). rewrite L. exact Hx.
    - exact HF. }
  split; [exact Hlo|].
  split; [apply (sb1_p_live_new s tid t t2 e p' _ ist' Ht Hslot Hist Hgr)|].
  split; [apply (sb1_p_alive_new s tid t t2 e p' _ ist' Hslot Hgr)|].
  split; [apply (sb1_p_val_new s tid t t2 e p' _ ist' Ht Hslot Hist Hgr)|].
  split; [apply (r2d_p_tgt_new s tid t t2 e p' _ ist' Ht Hslot Hist Hgr)|].
  split; [exact Hoth|]. split; [apply sb1_p_side|]. split; [apply sb1_p_frame|].
  apply (sb1_p_poollen s tid t t2 e p' _ ist' Hslot).
Qed.

(* ================================================================================================ *)
(** * Package L, part 3: createEntity

    (refuted) The plan's statement
      [L_create_entity_spec2 : forall s, St2 s -> room s -> exists e s', create_entity 0 s = Ok e s' /\ St2 s' /\ ...]
    is FALSE for some states satisfying [St2]: [create_entity] clears the target flag of the id it hands
    out; if a lookup still has a key with that id (allowed by [St2] when the key's table list is empty),
    [TargetFlagsG] is lost. Counterexample (a state that is not reachable; see [r2d_create_refuted] at the
    end of the file): the world after [[0]; [2; 1;3; 1; 3;0]; [11;1]; [14;0]; [11;0]] with the key 2 put
    back into the lookups of archetype 1 and its flag set. The strongest true statement needs that the new
    id is not a lookup key ([L_create_entity_spec2_gen]); this follows from the invariant clause
    [r2d_KeysLive], which createEntity preserves ([L_create_entity_spec2]). *)

Lemma r2d_nth_snoc_false : forall (l : list bool) k, nth k (l ++ [false]) false = nth k l false.
Proof.
  intros l k. destruct (Nat.lt_ge_cases k (length l)) as [Hlt|Hge].
  - apply app_nth1. exact Hlt.
  - rewrite (nth_overflow l false Hge). rewrite app_nth2 by exact Hge.
    destruct (k - length l) as [|[|n]]; reflexivity.
Qed.

Lemma r2d_ist_flag : forall s e k, nth k (sb1_ist s e) false = nth k (w_istarget s) false.
Proof.
  intros s e k. unfold sb1_ist. destruct (Nat.eqb (fst e) (length (w_index s))); [apply r2d_nth_snoc_false|reflexivity].
Qed.

(** the id handed out by the pool belongs to no stored entity *)
Lemma r2d_fresh_not_live : forall s e p', WF s -> pool_get (w_pool s) = (e, p') ->
  2 <= fst e /\ forall g, live s (fst e, g) = false.
Proof.
  intros s e p' HW Hg. destruct (sb1_slot_of_get s e p' (None, 0) HW Hg) as (Hslot & _).
  split; [apply Hslot|]. intros g. unfold live, loc. cbn [fst].
  destruct Hslot as (_ & _ & _ & _ & _ & _ & Hold & _).
  destruct (nth_error (w_index s) (fst e)) as [[[tid|] r]|] eqn:E; try reflexivity.
  exfalso. apply (Hold tid r). reflexivity.
Qed.

(** table 0 (the table of the empty archetype) is never free *)
Lemma r2d_table0_active : forall D s, WF s -> RelInvG D s ->
  exists a0 t0, nth_error (w_archs s) 0 = Some a0 /\ a_mask a0 = 0%N /\ a_comps a0 = [] /\
    nth_error (w_tables s) 0 = Some t0 /\ t_arch t0 = 0 /\ t_free t0 = false /\ t_ids t0 = [].
Proof.
  intros D s HW HR. destruct (wf_arch0 _ HW) as (a0 & Ha0 & Hm0 & t0 & Ht0 & Hta0).
  destruct (wf_arch_comps _ HW 0 a0 Ha0) as (C1 & _ & C3 & C4 & _).
  assert (Hc : a_comps a0 = []) by (rewrite C1, Hm0; apply sb1_mk_to_list_0).
  assert (Hn : a_numrel a0 = 0) by (rewrite C4, C3, Hc; reflexivity).
  destruct (ri_norel _ _ HR 0 a0 Ha0 Hn) as (Hfree & _).
  exists a0, t0. split; [exact Ha0|]. split; [exact Hm0|]. split; [exact Hc|]. split; [exact Ht0|]. split; [exact Hta0|].
  split.
  - destruct (ri_listed _ _ HR 0 t0 Ht0) as (a & Ha & Hl). rewrite Hta0, Ha0 in Ha. injection Ha as <-.
    destruct (t_free t0); [|reflexivity]. rewrite Hfree in Hl. destruct Hl.
  - destruct (wf_layout _ HW 0 t0 Ht0) as (a & Ha & Hids & _). rewrite Hta0, Ha0 in Ha. injection Ha as <-.
    rewrite Hids. exact Hc.
Qed.

(** createEntity, general form: any window of the invariant; the new id must not be a lookup key. *)
Lemma L_create_entity_spec2_gen : forall D P X s, St2G D P X s -> room s ->
  (forall aid a, nth_error (w_archs s) aid = Some a -> afind (fst (fst (pool_get (w_pool s)))) (a_tgttabs a) = None) ->
  exists e s', create_entity 0 s = Ok e s' /\ St2G D P X s' /\ e = fst (pool_get (w_pool s)) /\
    live s e = false /\ live s' e = true /\ alive s' e = true /\ (forall c, val s' e c = None) /\ (forall c, tgt s' e c = None) /\
    r2d_others_same2 s s' e /\ side_same s s' /\ frame_user s s' /\ w_archs s' = w_archs s /\
    length (pe (w_pool s')) <= S (length (pe (w_pool s))).
Proof.
  intros D P X s HS Hroom Hkey. pose proof HS as (HW & HR & HT & HC).
  destruct (r2d_table0_active D s HW HR) as (a0 & t0 & Ha0 & Hm0 & Hc0 & Ht0 & Hta0 & Hf0 & Hids0).
  destruct (pool_get (w_pool s)) as [e p'] eqn:Hg. cbn [fst] in Hkey.
  exists e.
  exists (sb1_st2 s p' (upd 0 (snd (tbl_add t0 e)) (w_tables s)) (sb1_idx s e (Some 0, t_len t0))
                  (upd (fst e) false (sb1_ist s e))).
  split.
  { unfold create_entity.
    rewrite (sb1_place_run _ s 0 t0 e p'
               (fun e _ => modify (fun s => s <| w_istarget ::= upd (fst e) false |>) ;;; ret e) Ht0 Hg).
    reflexivity. }
  assert (Hist : length (upd (fst e) false (sb1_ist s e)) = length (sb1_idx s e (Some 0, t_len t0))).
  { rewrite upd_length. apply (sb1_slot_of_get s e p' (Some 0, t_len t0) HW Hg). }
  assert (Htl : t_len t0 < Nat.pow 2 31).
  { pose proof (rows_le_pool s 0 t0 HW Ht0). unfold room in Hroom. lia. }
  assert (Htok : tbl_ok t0).
  { eapply (proj1 (Forall_nth_error _ _ _) (wf_tables _ HW)); eassumption. }
  destruct (sb1_grown_add t0 e Htok Htl) as (Hgr & Hz).
  assert (HF : forall aid a k l, nth_error (w_archs s) aid = Some a -> afind k (a_tgttabs a) = Some l ->
            nth k (w_istarget s) false = true -> nth k (upd (fst e) false (sb1_ist s e)) false = true).
  { intros aid a k l Ha Hk Hfl. rewrite nth_upd. destruct (Nat.eqb_spec (fst e) k) as [Heq|Hne].
    - exfalso. rewrite <- Heq, (Hkey aid a Ha) in Hk. discriminate.
    - cbn [andb]. rewrite r2d_ist_flag. exact Hfl. }
  destruct (r2d_place_new D P X s 0 t0 e p' HS Ht0 Hf0 Hroom Hg _ _ Hgr Hist HF)
    as (P1 & P2 & P3 & P4 & P5 & P6 & P7 & P8 & P9 & P10).
  split; [exact P1|]. split; [reflexivity|]. split; [exact P2|]. split; [exact P3|]. split; [exact P4|].
  split; [intros c; rewrite P5; unfold tbl_colidx; rewrite Hids0; reflexivity|].
  split; [intros c; rewrite P6; unfold tbl_target, tbl_colidx; rewrite Hids0; reflexivity|].
  split; [exact P7|]. split; [exact P8|]. split; [exact P9|]. split; [reflexivity|exact P10].
Qed.

(** [r2d_KeysLive] is kept when the lookups stay and stored entities stay stored. *)
Lemma r2d_KeysLive_mono : forall s s', r2d_KeysLive s -> w_archs s' = w_archs s ->
  (forall x, live s x = true -> live s' x = true) -> r2d_KeysLive s'.
Proof.
  intros s s' HK EA HL aid a k l Ha Hk. rewrite EA in Ha. destruct (HK aid a k l Ha Hk) as [H0|(g & Hg)]; [left; exact H0|].
  right. exists g. apply HL. exact Hg.
Qed.

(** L_create_entity_spec2 (with the invariant clause [r2d_KeysLive]): World.NewEntity without components. *)
Theorem L_create_entity_spec2 : forall s, St2 s -> r2d_KeysLive s -> room s ->
  exists e s', create_entity 0 s = Ok e s' /\ St2 s' /\ r2d_KeysLive s' /\
    live s e = false /\ live s' e = true /\ alive s' e = true /\ (forall c, val s' e c = None) /\ (forall c, tgt s' e c = None) /\
    r2d_others_same2 s s' e /\ side_same s s' /\ frame_user s s'.
Proof.
  intros s HS HK Hroom. pose proof HS as (HW & _).
  assert (Hkey : forall aid a, nth_error (w_archs s) aid = Some a -> afind (fst (fst (pool_get (w_pool s)))) (a_tgttabs a) = None).
  { intros aid a Ha. destruct (pool_get (w_pool s)) as [e p'] eqn:Hg. cbn [fst].
    destruct (r2d_fresh_not_live s e p' HW Hg) as (Hge & Hnl).
    destruct (afind (fst e) (a_tgttabs a)) as [l|] eqn:Hk; [|reflexivity]. exfalso.
    destruct (HK aid a (fst e) l Ha Hk) as [H0|(g & Hl)]; [lia|]. rewrite Hnl in Hl. discriminate. }
  destruct (L_create_entity_spec2_gen r2_none r2_none r2_none s (proj1 (St2_St2G s) HS) Hroom Hkey)
    as (e & s' & E & P1 & _ & P2 & P3 & P4 & P5 & P6 & P7 & P8 & P9 & P10 & _).
  exists e, s'. split; [exact E|]. split; [apply St2_St2G; exact P1|]. split.
  { apply (r2d_KeysLive_mono s s' HK P10). intros x Hx. assert (Hne : x <> e) by (intros ->; congruence).
    destruct (P7 x Hne) as (L & _). rewrite L. exact Hx. }
  repeat (split; [assumption|]). assumption.
Qed.

(* ================================================================================================ *)
(** * Package L, part 4: CopyEntity

    The copy is appended to the table of the original: same components, same values and, since the
    relation targets are a label of the table, the same targets. No table label, archetype, lookup or
    flag of an existing id changes.

    (refuted) The plan's [L_copy_entity_spec2] claims [rejected2] for every failing call. As in the
    relation-free tier (StorageB_sb1: [sb1_copy_entity_spec_counterexample],
    [sb1_copy_entity_obs_counterexample], both machine-checked for every [St] world and valid verbatim
    here because they do not depend on relations) this is false: (1) the pool is popped before the index
    lookup, so a handle that passes the generation check without being stored (e.g. the reserved handle
    (0, max_u32)) leaves a changed pool; (2) a callback can panic after the copy was made. The strongest
    true statements: [L_copy_entity_spec2_partial_obs], [L_copy_entity_spec2_partial]. *)

Definition r2d_copy_post (s : W) (e ne : ent) (s' : W) : Prop :=
  St2 s' /\ is_locked s = false /\ live s e = true /\ ne <> e /\
  live s ne = false /\ live s' ne = true /\ alive s' ne = true /\
  (forall c, val s' ne c = val s e c) /\ (forall c, tgt s' ne c = tgt s e c) /\
  r2d_others_same2 s s' ne /\ frame_user s s' /\ w_archs s' = w_archs s /\
  length (pe (w_pool s')) <= S (length (pe (w_pool s))).

Lemma r2d_copy_post_storage : forall s e ne s3 s4,
  r2d_copy_post s e ne s3 -> storage_same s3 s4 -> r2d_copy_post s e ne s4.
Proof.
  intros s e ne s3 s4 (P1 & P2 & P3 & P4 & P5 & P6 & P7 & P8 & P8' & P9 & P10 & P11 & P12) Hss.
  pose proof (sb3_storage_same_content s3 s4 Hss) as Hcs.
  pose proof (r2c_storage_same_tgt s3 s4 Hss) as Hts.
  pose proof Hss as (S1 & S2 & S3 & S4 & S5 & S6 & S7 & S8 & S9 & S10 & S11 & S12 & S13 & S14 & S15 & S16 & S17 & S18).
  unfold r2d_copy_post.
  split; [apply (r2c_storage_same_St2 s3 s4 Hss P1)|]. split; [assumption|]. split; [assumption|].
  split; [assumption|]. split; [assumption|].
  split; [rewrite (proj1 (Hcs ne)); assumption|].
  split; [unfold alive in *; rewrite S3; assumption|].
  split; [intros c; rewrite (proj2 (Hcs ne)); apply P8|].
  split; [intros c; rewrite (Hts ne c); apply P8'|].
  split.
  { intros e' Hne. destruct (P9 e' Hne) as (L & V & T). destruct (Hcs e') as (L' & V').
    split; [congruence|]. split; [intros c; rewrite V', V; reflexivity|intros c; rewrite (Hts e' c), T; reflexivity]. }
  split; [unfold frame_user in *; intuition congruence|].
  split; [congruence|]. rewrite S3. assumption.
Qed.

Lemma r2d_copy_core : forall s e, St2 s -> room s -> is_locked s = false -> live s e = true ->
  exists ne s3 m hr, r2d_copy_post s e ne s3 /\ side_same s s3 /\
    w_copy_entity e s = match (fire_create_entity_if_has ne m ;;; whenM hr (fire_create_entity_rel_if_has ne m)) s3 with
                        | Ok _ s4 => Ok ne s4 | Err er s4 => Err er s4 end.
Proof.
  intros s e HS Hroom Hul Hlive. pose proof HS as (Hwf & (HR & HT) & HC).
  destruct (live_alive s e Hwf Hlive) as (Hal & _).
  destruct (sb1_live_inv s e Hlive) as (tid & row & t & Hidx & Ht & Hrow & Hrent).
  destruct (pool_get (w_pool s)) as [ne p'] eqn:Hg.
  assert (Htl : t_len t < Nat.pow 2 31).
  { pose proof (rows_le_pool s tid t Hwf Ht). unfold room in Hroom. lia. }
  assert (Htok : tbl_ok t).
  { eapply (proj1 (Forall_nth_error _ _ _) (wf_tables _ Hwf)); eassumption. }
  assert (Hfree : t_free t = false).
  { destruct (t_free t) eqn:Ef; [|reflexivity]. pose proof (r2c_free_len0 _ s tid t HR Ht Ef). lia. }
  destruct (sb1_grown_add t ne Htok Htl) as (Hgr & Hz).
  set (t2 := snd (tbl_add t ne)) in *.
  assert (Htid : tid < length (w_tables s)) by (apply nth_error_Some; congruence).
  destruct (sb1_copy_all_run2 t2 row (t_len t)) with (s := s) (p' := p') (tid := tid)
     (idx' := sb1_idx s ne (Some tid, t_len t)) (ist' := sb1_ist s ne) as (tc & Hcopy & Hinv);
    [assumption | destruct Hgr as (_ & Gl & _); lia | apply Hgr | assumption |].
  destruct (wf_layout _ Hwf tid t Ht) as (a & Ha & _).
  set (s3 := sb1_st2 s p' (upd tid tc (w_tables s)) (sb1_idx s ne (Some tid, t_len t)) (sb1_ist s ne)) in *.
  exists ne, s3, (a_mask a), (arch_has_rels a).
  destruct Hgr as (Gok & Glen & Gent & Gcell & Grow & Gids & Gkinds & Garch & Grels & Gtg & Gfree).
  destruct Hinv as (Iok & Il & Ie & Ii & Ik & Ia & Ir & It & If & Ic1 & Ic2).
  assert (Hgr' : sb1_grown t tc ne).
  { unfold sb1_grown. split; [assumption|]. split; [congruence|].
    split; [unfold row_ent in *; rewrite Ie; assumption|].
    split; [intros ci r Hr; rewrite Ic1 by lia; apply Gcell; assumption|].
    split; [intros r Hr; unfold row_ent in *; rewrite Ie; apply Grow; assumption|].
    repeat split; congruence. }
  destruct (sb1_slot_of_get s ne p' (Some tid, t_len t) Hwf Hg) as (Hslot & Hist).
  assert (HF : forall aid a0 k l, nth_error (w_archs s) aid = Some a0 -> afind k (a_tgttabs a0) = Some l ->
            nth k (w_istarget s) false = true -> nth k (sb1_ist s ne) false = true).
  { intros aid a0 k l _ _ Hfl. rewrite r2d_ist_flag. exact Hfl. }
  destruct (r2d_place_new r2_none r2_none r2_none s tid t ne p' (proj1 (St2_St2G s) HS) Ht Hfree Hroom Hg tc _ Hgr' Hist HF)
    as (P1 & P2 & P3 & P4 & P5 & P6 & P7 & P8 & P9 & P10). fold s3 in P1, P3, P4, P5, P6, P7, P8, P9, P10.
  split; [|split; [exact P8|]].
  - unfold r2d_copy_post.
    split; [apply St2_St2G; exact P1|]. split; [assumption|]. split; [assumption|].
    split; [intros ->; congruence|]. split; [assumption|]. split; [assumption|]. split; [assumption|].
    split.
    { intros c. rewrite P5. unfold val. rewrite Hlive. unfold value_of, loc. rewrite Hidx, Ht.
      destruct (tbl_colidx t c) as [ci|] eqn:Eci; [|reflexivity].
      unfold tbl_colidx in Eci. apply sb1_index_of_some in Eci.
      assert (ci < length (t_ids t)) by (apply nth_error_Some; congruence).
      rewrite Ic2 by (rewrite Gids; assumption). rewrite Gcell by assumption. reflexivity. }
    split.
    { intros c. rewrite P6. unfold tgt. rewrite Hlive. unfold target_of, loc. rewrite Hidx, Ht. reflexivity. }
    split; [exact P7|]. split; [exact P9|]. split; [reflexivity|exact P10].
  - unfold w_copy_entity.
    erewrite sb1_bind_ok by (apply sb1_check_locked_ok; exact Hul).
    rewrite sb1_guard_alive_ok by exact Hal.
    erewrite sb1_bind_ok by (apply sb1_pool_getM_eq; exact Hg).
    erewrite sb1_bind_ok by (apply sb1_get_index_eq; cbn; exact Hidx).
    cbv beta iota.
    rewrite (sb1_place_run2 _ s tid t ne p'
               (fun idx => copy_all tid tid row idx ;;; t <- getT tid ;; a <- getA (t_arch t) ;;
                  fire_create_entity_if_has ne (a_mask a) ;;;
                  whenM (arch_has_rels a) (fire_create_entity_rel_if_has ne (a_mask a)) ;;; ret ne) Ht).
    fold t2. erewrite sb1_bind_ok by exact Hcopy.
    erewrite sb1_bind_ok by (apply sb1_getT_eq; subst s3; unfold sb1_st2; cbn; apply sb1_nth_error_upd_eq; assumption).
    erewrite sb1_bind_ok by (apply sb1_getA_eq; rewrite Ia, Garch; exact Ha).
    fold s3. unfold bind.
    destruct (fire_create_entity_if_has ne (a_mask a) s3) as [u s4|er s4]; [|reflexivity].
    destruct (whenM (arch_has_rels a) (fire_create_entity_rel_if_has ne (a_mask a)) s4); reflexivity.
Qed.

Lemma r2d_copy_tail_sp : forall ne m hr, sa_sp (fire_create_entity_if_has ne m ;;; whenM hr (fire_create_entity_rel_if_has ne m)).
Proof.
  intros ne m hr. apply sa_sp_bind; [exact (fire_create_entity_if_has_storage ne m)|].
  intros _. apply sa_sp_whenM. apply sc_sp_fire_create_rel.
Qed.

Lemma r2d_fire_create_rel_noobs : forall s ne m, has_obs s EvAddRelations = false ->
  fire_create_entity_rel_if_has ne m s = Ok tt s.
Proof. intros s ne m H. unfold fire_create_entity_rel_if_has, bind, get. rewrite H. reflexivity. Qed.

(** General form: after the alive check the call fails only inside a callback (OnCreateEntity, or
    OnAddRelations for an entity of a relation table), after the copy has been made. *)
Theorem L_copy_entity_spec2_partial_obs : forall s e, St2 s -> room s ->
  (alive s e = true -> live s e = true) ->
  match w_copy_entity e s with
  | Ok ne s' => r2d_copy_post s e ne s'
  | Err _ s' => r2d_rejected2 s s' \/
      ((has_obs s EvCreateEntity = true \/ has_obs s EvAddRelations = true) /\ exists ne, r2d_copy_post s e ne s')
  end.
Proof.
  intros s e HS Hroom Hal.
  assert (Hc : is_locked s = true \/ is_locked s = false) by (destruct (is_locked s); auto).
  destruct Hc as [El|El].
  { unfold w_copy_entity. erewrite sb1_bind_err by (apply sb1_check_locked_err; exact El).
    left. apply r2d_rejected2_refl. assumption. }
  destruct (alive s e) eqn:Ea.
  2:{ unfold w_copy_entity. erewrite sb1_bind_ok by (apply sb1_check_locked_ok; exact El).
      rewrite (sb1_guard_alive_err _ s e (fun _ => _) Ea). left. apply r2d_rejected2_refl. assumption. }
  specialize (Hal eq_refl).
  destruct (r2d_copy_core s e HS Hroom El Hal) as (ne & s3 & m & hr & Hpost & Hside & Hrun).
  assert (Hoagg : w_oagg s3 = w_oagg s) by apply Hside.
  rewrite Hrun.
  pose proof (r2d_copy_tail_sp ne m hr s3) as Hss.
  destruct (has_obs s EvCreateEntity) eqn:Ho1.
  { destruct ((fire_create_entity_if_has ne m;;; whenM hr (fire_create_entity_rel_if_has ne m)) s3) as [u s4|er s4]; cbn [state_of] in Hss.
    - exact (r2d_copy_post_storage _ _ _ _ _ Hpost Hss).
    - right. split; [left; reflexivity|]. exists ne. exact (r2d_copy_post_storage _ _ _ _ _ Hpost Hss). }
  destruct (has_obs s EvAddRelations) eqn:Ho2.
  { destruct ((fire_create_entity_if_has ne m;;; whenM hr (fire_create_entity_rel_if_has ne m)) s3) as [u s4|er s4]; cbn [state_of] in Hss.
    - exact (r2d_copy_post_storage _ _ _ _ _ Hpost Hss).
    - right. split; [right; reflexivity|]. exists ne. exact (r2d_copy_post_storage _ _ _ _ _ Hpost Hss). }
  assert (E : (fire_create_entity_if_has ne m;;; whenM hr (fire_create_entity_rel_if_has ne m)) s3 = Ok tt s3).
  { rewrite (sa_bind_ok (sb1_fire_create_noobs s3 ne m ltac:(rewrite (sb1_has_obs_eq s s3 _ Hoagg); exact Ho1))).
    destruct hr; [|reflexivity]. cbn [whenM]. apply r2d_fire_create_rel_noobs. rewrite (sb1_has_obs_eq s s3 _ Hoagg). exact Ho2. }
  rewrite E. exact Hpost.
Qed.

(** L_copy_entity_spec2 for handles issued by the pool, without observers on the two creation events. *)
Theorem L_copy_entity_spec2_partial : forall s e, St2 s -> room s ->
  (alive s e = true -> live s e = true) -> has_obs s EvCreateEntity = false -> has_obs s EvAddRelations = false ->
  match w_copy_entity e s with
  | Ok ne s' => St2 s' /\ is_locked s = false /\ live s e = true /\ ne <> e /\ live s ne = false /\ live s' ne = true /\
                alive s' ne = true /\
                (forall c, val s' ne c = val s e c) /\ (forall c, tgt s' ne c = tgt s e c) /\ r2d_others_same2 s s' ne /\
                frame_user s s' /\ w_archs s' = w_archs s /\ length (pe (w_pool s')) <= S (length (pe (w_pool s)))
  | Err _ s' => r2d_rejected2 s s'
  end.
Proof.
  intros s e HS Hroom Hal Ho1 Ho2. pose proof (L_copy_entity_spec2_partial_obs s e HS Hroom Hal) as H.
  destruct (w_copy_entity e s) as [ne s'|er s']; [exact H|].
  destruct H as [H|[[H|H] _]]; [exact H|congruence|congruence].
Qed.

(** CopyEntity keeps the additional invariant clause. *)
Lemma r2d_copy_post_KeysLive : forall s e ne s', r2d_copy_post s e ne s' -> r2d_KeysLive s -> r2d_KeysLive s'.
Proof.
  intros s e ne s' (P1 & P2 & P3 & P4 & P5 & P6 & P7 & P8 & P8' & P9 & P10 & P11 & P12) HK.
  apply (r2d_KeysLive_mono s s' HK P11). intros x Hx. assert (Hne : x <> ne) by (intros ->; congruence).
  destruct (P9 x Hne) as (L & _). rewrite L. exact Hx.
Qed.

(* ================================================================================================ *)
(** * Package L, part 5: writing a component value

    (refuted) The plan's [L_write_cell_spec2 : forall s tid ci row v, St2 s -> match write_cell tid ci row v s with
    Ok _ s' => St2 s' /\ ... end] is false for [t_len t <= row < t_cap t] and [v <> 0]: the write lands in the
    zero tail of the column and breaks [tbl_ok] (hence [WF]). This is not a defect of the library: the API
    reaches [write_cell] only through [cell_of] (Get/Set on an alive entity), which yields a stored row.
    Proved: [L_write_cell_spec2_partial] (row within the table), [L_write_spec2] (the API form). *)

Lemma r2d_write_post : forall s e c v tid row t ci, St2 s ->
  nth_error (w_index s) (fst e) = Some (Some tid, row) -> nth_error (w_tables s) tid = Some t ->
  row < t_len t -> row_ent t row = e -> tbl_colidx t c = Some ci -> ck_zs (kind_of s c) = false ->
  let s' := s <| w_tables ::= updf tid (fun t => t <| t_cols ::= updf ci (upd row v) |>) |> in
  St2 s' /\ live s' e = true /\
  (forall c', val s' e c' = if Nat.eqb c' c then Some v else val s e c') /\ others_same s s' e /\
  r2d_tgt_same s s' /\ (forall x, live s' x = live s x).
Proof.
  intros s e c v tid row t ci HS Hi Ht Hr He Hc Hz s'.
  pose proof HS as (H & (HR & HT) & HC).
  set (f := fun t : table => t <| t_cols ::= updf ci (upd row v) |>) in *.
  assert (Etab : forall j, nth_error (w_tables s') j =
                           if tid =? j then option_map f (nth_error (w_tables s) j) else nth_error (w_tables s) j).
  { intros j. subst s'. cbn. apply nth_error_updf. }
  assert (Hci : nth_error (t_ids t) ci = Some c) by (apply sb3_index_of_nth; exact Hc).
  assert (Hk : nth_error (t_kinds t) ci = Some (kind_of s c)).
  { destruct (wf_layout _ H _ _ Ht) as (a & _ & _ & L & _). rewrite L. apply map_nth_error. exact Hci. }
  pose proof (Forall_nth_error _ tbl_ok (w_tables s)) as HF. destruct HF as (HF & _).
  pose proof (HF (wf_tables _ H) _ _ Ht) as Ok_t.
  destruct (tbl_ok_elim _ Ok_t) as (O1 & O2 & O3 & O4 & O5).
  assert (Hcol : exists col, nth_error (t_cols t) ci = Some col /\ row < length col).
  { destruct (nth_error (t_cols t) ci) as [col|] eqn:Ecol.
    - exists col. split; auto. destruct (O5 _ _ Ecol) as (L & _). lia.
    - apply nth_error_None in Ecol. assert (ci < length (t_ids t)) by (apply nth_error_Some; congruence). lia. }
  destruct Hcol as (col & Ecol & Hrow).
  assert (Hcell : forall ci' r', cell (f t) ci' r' = if ((ci =? ci') && (row =? r'))%bool then v else cell t ci' r')
    by (exact (sb3_cell_write t ci row v col Ecol Hrow)).
  assert (Hfwd : forall j t0, nth_error (w_tables s) j = Some t0 ->
            exists t0', nth_error (w_tables s') j = Some t0' /\ (t0' = t0 \/ (j = tid /\ t0 = t /\ t0' = f t)) ).
  { intros j t0 E. rewrite Etab. destruct (Nat.eqb_spec tid j) as [<-|Hne].
    - rewrite E. simpl. exists (f t0). split; auto. right. rewrite Ht in E. inversion E; subst. auto.
    - exists t0. auto. }
  assert (Hbwd : forall j t0', nth_error (w_tables s') j = Some t0' ->
            exists t0, nth_error (w_tables s) j = Some t0 /\ t_len t0' = t_len t0 /\ t_ents t0' = t_ents t0).
  { intros j t0' E. rewrite Etab in E. destruct (Nat.eqb_spec tid j) as [<-|Hne].
    - rewrite Ht in E. simpl in E. inversion E; subst. exists t. auto.
    - exists t0'. auto. }
  assert (HLen : length (w_tables s') = length (w_tables s)) by (subst s'; cbn; apply updf_length).
  assert (HW' : WF s').
  { apply (r2c_WF_intro s s' H).
    - subst s'. repeat split; reflexivity.
    - split; [exact HLen|].
      intros j t0 E. destruct (Hfwd _ _ E) as (t0' & E' & [->|(-> & -> & ->)]).
      * exists t0. split; [exact E'|]. split; [apply (HF (wf_tables _ H) _ _ E)|]. repeat split.
      * exists (f t). split; [exact E'|]. split; [apply (col_write_ok t ci row v _ Ok_t Hr Hk Hz)|]. repeat split.
    - exact (wf_index_len _ H).
    - intros j t0' r E Hlt. destruct (Hbwd _ _ E) as (t0 & E0 & L & En).
      unfold row_ent. rewrite En. rewrite L in Hlt. exact (wf_rows _ H _ _ _ E0 Hlt).
    - intros id j r E. destruct (wf_index _ H _ _ _ E) as (t0 & E0 & Hlt & Hf).
      destruct (Hfwd _ _ E0) as (t0' & E' & [->|(-> & -> & ->)]); eauto.
    - exact (wf_pool _ H).
    - exact (wf_reserved _ H).
    - exact (wf_small _ H). }
  assert (Hlive : forall x, live s' x = live s x).
  { intros x. unfold live. change (loc s' x) with (loc s x). destruct (loc s x) as [[j r]|]; [|reflexivity].
    rewrite Etab. destruct (Nat.eqb_spec tid j) as [<-|Hne]; [|reflexivity]. rewrite Ht. reflexivity. }
  assert (Htgt : r2d_tgt_same s s').
  { intros x c0. unfold tgt. rewrite Hlive. unfold target_of. change (loc s' x) with (loc s x).
    destruct (loc s x) as [[j r]|]; [|reflexivity].
    rewrite Etab. destruct (Nat.eqb_spec tid j) as [<-|Hne]; [|reflexivity]. rewrite Ht. reflexivity. }
  assert (HS' : St2 s').
  { apply St2_St2G. apply (L_St2G_rows r2_none r2_none r2_none s s' (proj1 (St2_St2G s) HS) HW'); try reflexivity.
    - intros j t0 E. destruct (Hfwd _ _ E) as (t0' & E' & [->|(-> & -> & ->)]).
      + exists t0. split; [exact E'|]. split; [apply sb2_meta_refl|]. intros Hf. apply (r2c_free_len0 _ s j t0 HR E Hf).
      + exists (f t). split; [exact E'|]. split; [unfold sb2_meta; repeat split|].
        intros Hf. change (t_len (f t)) with (t_len t). apply (r2c_free_len0 _ s tid t HR E Hf).
    - exact HLen.
    - intros x Hx. left. rewrite Hlive. exact Hx.
    - intros aid a k l _ _ Hfl. exact Hfl. }
  assert (Hrow_e : sb3_row_of s e = Some (t, row)) by (unfold sb3_row_of; rewrite Hi, Ht; reflexivity).
  assert (Hrow_e' : sb3_row_of s' e = Some (f t, row)).
  { unfold sb3_row_of. change (w_index s') with (w_index s). rewrite Hi, Etab, Nat.eqb_refl, Ht. reflexivity. }
  split; [exact HS'|]. split; [|split; [|split; [|split; [exact Htgt|exact Hlive]]]].
  - rewrite sb3_live_row, Hrow_e'. change (t_len (f t)) with (t_len t). change (row_ent (f t) row) with (row_ent t row).
    apply Nat.ltb_lt in Hr. rewrite Hr, He, sb3_ent_eqb_refl. reflexivity.
  - intros c'. rewrite !sb3_val_row, Hrow_e, Hrow_e'.
    change (t_len (f t)) with (t_len t). change (row_ent (f t) row) with (row_ent t row).
    change (tbl_colidx (f t) c') with (tbl_colidx t c').
    apply Nat.ltb_lt in Hr. rewrite Hr, He, sb3_ent_eqb_refl. simpl.
    destruct (Nat.eqb_spec c' c) as [->|Hne].
    + rewrite Hc, Hcell, !Nat.eqb_refl. reflexivity.
    + destruct (tbl_colidx t c') as [ci'|] eqn:Ec'; auto. rewrite Hcell.
      destruct (Nat.eqb_spec ci ci') as [<-|]; simpl; auto.
      apply sb3_index_of_nth in Ec'. congruence.
  - intros e' Hne. destruct (sb3_row_of s e') as [[t0 r0]|] eqn:E0.
    + destruct (sb3_row_of_wf _ _ _ _ H E0) as (j & Ei0 & Et0 & Hlt0 & Hf0).
      assert (E0' : exists t0', sb3_row_of s' e' = Some (t0', r0) /\ (t0' = t0 \/ (j = tid /\ t0 = t /\ t0' = f t))).
      { destruct (Hfwd _ _ Et0) as (t0' & E' & D). exists t0'. split; auto.
        unfold sb3_row_of. change (w_index s') with (w_index s). rewrite Ei0, E'. reflexivity. }
      destruct E0' as (t0' & E0' & [->|(-> & -> & ->)]).
      * split; [|intros c0]; rewrite ?sb3_live_row, ?sb3_val_row, E0, E0'; reflexivity.
      * destruct (Nat.eq_dec r0 row) as [->|Hr0].
        -- assert (Hf : ent_eqb (row_ent t row) e' = false) by (apply sb3_ent_eqb_false; congruence).
           split; [|intros c0]; rewrite ?sb3_live_row, ?sb3_val_row, E0, E0';
             change (row_ent (f t) row) with (row_ent t row); rewrite Hf, !Bool.andb_false_r; reflexivity.
        -- apply (sb3_same_some s s' e' t r0 (f t) r0 E0 E0'); auto.
           intros ci0. rewrite Hcell. destruct (Nat.eqb_spec row r0); [congruence|].
           rewrite Bool.andb_false_r. reflexivity.
    + apply sb3_same_none; auto. unfold sb3_row_of in *. change (w_index s') with (w_index s).
      destruct (nth_error (w_index s) (fst e')) as [[[j|] r0]|]; auto.
      rewrite Etab. destruct (nth_error (w_tables s) j); [discriminate|].
      destruct (tid =? j); reflexivity.
Qed.

(** L_write_cell_spec2, for a row within the table. *)
Theorem L_write_cell_spec2_partial : forall s tid ci row v, St2 s ->
  (forall t, nth_error (w_tables s) tid = Some t -> row < t_len t) ->
  match write_cell tid ci row v s with
  | Ok _ s' => St2 s' /\ r2d_tgt_same s s' /\ (forall e, live s' e = live s e) /\
               w_pool s' = w_pool s /\ w_archs s' = w_archs s /\ side_same s s' /\ frame_user s s'
  | Err _ s' => s' = s
  end.
Proof.
  intros s tid ci row v HS Hrow. pose proof HS as (H & _).
  destruct (sb3_write_cell_cases tid ci row v s) as [(er & E)|(t & k & Ht & Hk & E)]; rewrite E; [reflexivity|].
  destruct (ck_zs k) eqn:Hz.
  { split; [exact HS|]. split; [apply r2d_tgt_same_refl|]. split; [reflexivity|]. split; [reflexivity|]. split; [reflexivity|].
    split; [apply sb1_side_same_refl|apply sb1_frame_user_refl]. }
  specialize (Hrow t Ht).
  destruct (wf_layout _ H _ _ Ht) as (a & Ha & Hids & Hkinds & _).
  assert (Hci : exists c, nth_error (t_ids t) ci = Some c).
  { destruct (nth_error (t_ids t) ci) as [c|] eqn:Ec; [exists c; reflexivity|]. exfalso.
    apply nth_error_None in Ec. assert (ci < length (t_kinds t)) by (apply nth_error_Some; congruence).
    rewrite Hkinds, map_length in H0. lia. }
  destruct Hci as (c & Hci).
  assert (Hkc : k = kind_of s c).
  { rewrite Hkinds in Hk. rewrite (map_nth_error (kind_of s) _ _ Hci) in Hk. congruence. }
  assert (Hcol : tbl_colidx t c = Some ci).
  { unfold tbl_colidx. apply r2_index_of_nth; [|exact Hci]. rewrite Hids. apply (r2_comps_nodup s (t_arch t) a H Ha). }
  destruct (wf_rows _ H tid t row Ht Hrow) as (Hloc & _). apply sb2_loc_iff in Hloc.
  subst k.
  destruct (r2d_write_post s (row_ent t row) c v tid row t ci HS Hloc Ht Hrow eq_refl Hcol Hz) as (P1 & _ & _ & _ & P5 & P6).
  split; [exact P1|]. split; [exact P5|]. split; [exact P6|]. split; [reflexivity|]. split; [reflexivity|].
  split; [unfold side_same; repeat split|unfold frame_user; repeat split].
Qed.

(** Writing through the pointer returned by Get (OWrite / Map.Set), in relation worlds. *)
Theorem L_write_spec2 : forall s debug e c v, St2 s ->
  match (a <- cell_of debug e c ;; let '(tid, ci, row) := a in write_cell tid ci row v) s with
  | Ok _ s' =>
      St2 s' /\ live s e = true /\ val s e c <> None /\ live s' e = true /\
      (forall c', val s' e c' = if Nat.eqb c' c then (if ck_zs (kind_of s c) then val s e c else Some v) else val s e c') /\
      others_same s s' e /\ r2d_tgt_same s s' /\ (forall x, live s' x = live s x) /\
      w_pool s' = w_pool s /\ w_archs s' = w_archs s /\ side_same s s' /\ frame_user s s'
  | Err _ s' => s' = s
  end.
Proof.
  intros s debug e c v HS. pose proof HS as (H & _).
  unfold bind at 1.
  destruct (sb3_cell_of_cases debug e c s) as [(er & E)|(tid & ci & row & t & E & Ha & Hi & Ht & Hc)];
    rewrite E; [reflexivity|]. cbv beta iota.
  destruct (sb3_write_cell_cases tid ci row v s) as [(er & E2)|(t2 & k & Ht2 & Hk & E2)];
    rewrite E2; [reflexivity|].
  rewrite Ht in Ht2. inversion Ht2; subst t2. clear Ht2.
  destruct (sb3_alive_index_live _ _ _ _ H Ha Hi) as (t3 & Ht3 & Hr & He).
  rewrite Ht in Ht3. inversion Ht3; subst t3. clear Ht3.
  assert (Hkk : k = kind_of s c).
  { destruct (wf_layout _ H _ _ Ht) as (a & _ & _ & L & _). rewrite L in Hk.
    rewrite (map_nth_error (kind_of s) _ _ (sb3_index_of_nth _ _ _ Hc)) in Hk. congruence. }
  subst k.
  assert (Hlive : live s e = true) by (eapply sb3_live_of_row; eauto).
  assert (Hval : val s e c <> None).
  { rewrite sb3_val_row. unfold sb3_row_of. rewrite Hi, Ht, He, sb3_ent_eqb_refl.
    apply Nat.ltb_lt in Hr. rewrite Hr, Hc. discriminate. }
  destruct (ck_zs (kind_of s c)) eqn:Hz.
  - split; [exact HS|]. split; [exact Hlive|]. split; [exact Hval|]. split; [exact Hlive|].
    split; [intros c'; destruct (Nat.eqb_spec c' c); subst; reflexivity|].
    split; [intros e' _; auto|]. split; [apply r2d_tgt_same_refl|]. split; [reflexivity|]. split; [reflexivity|]. split; [reflexivity|].
    split; [repeat split|repeat split].
  - destruct (r2d_write_post s e c v tid row t ci HS Hi Ht Hr He Hc Hz) as (P1 & P2 & P3 & P4 & P5 & P6).
    split; [exact P1|]. split; [exact Hlive|]. split; [exact Hval|]. split; [exact P2|].
    split; [exact P3|]. split; [exact P4|]. split; [exact P5|]. split; [exact P6|]. split; [reflexivity|]. split; [reflexivity|].
    split; [repeat split|repeat split].
Qed.

Definition r2d_L_all :=
  (L_RelInvG_rows, L_CacheInvG_rows, L_St2G_rows, r2d_place_new, L_create_entity_spec2_gen, L_create_entity_spec2,
   L_copy_entity_spec2_partial_obs, L_copy_entity_spec2_partial, r2d_copy_post_KeysLive,
   L_write_cell_spec2_partial, L_write_spec2).

(* ================================================================================================ *)
(** * Package D1: Shrink *)

(** ** removeFromTargets *)

(** what [remove_from_targets_cols] does to one lookup under one key *)
Definition r2d_rmkey (tid k0 : nat) (m : list (nat * list nat)) : list (nat * list nat) :=
  match afind k0 m with Some l => aset k0 (tids_remove tid l) m | None => m end.

Lemma r2d_afind_rmkey : forall tid k0 m k,
  afind k (r2d_rmkey tid k0 m) = if Nat.eqb k k0 then option_map (tids_remove tid) (afind k m) else afind k m.
Proof.
  intros tid k0 m k. unfold r2d_rmkey. destruct (afind k0 m) as [l|] eqn:E.
  - rewrite r2_afind_aset. destruct (Nat.eqb_spec k k0) as [->|]; [rewrite E|]; reflexivity.
  - destruct (Nat.eqb_spec k k0) as [->|]; [rewrite E|]; reflexivity.
Qed.

(** [R H m m']: [m'] has the keys of [m]; under a key in [H] the table [tid] is gone, nothing else changes *)
Definition r2d_rm_rel (tid : nat) (H : nat -> Prop) (m m' : list (nat * list nat)) : Prop :=
  forall k, match afind k m, afind k m' with
            | None, None => True
            | Some l, Some l' => NoDup l -> NoDup l' /\ forall x, In x l' <-> In x l /\ (H k -> x <> tid)
            | _, _ => False
            end.

Lemma r2d_rm_rel_refl : forall tid m, r2d_rm_rel tid (fun _ => False) m m.
Proof.
  intros tid m k. destruct (afind k m) as [l|]; [|exact I]. intros N. split; [exact N|]. intros x. split; [intros Hx; split; [exact Hx|intros []]|intros [Hx _]; exact Hx].
Qed.

Lemma r2d_rm_rel_step : forall tid k0 m, r2d_rm_rel tid (eq k0) m (r2d_rmkey tid k0 m).
Proof.
  intros tid k0 m k. rewrite r2d_afind_rmkey. destruct (Nat.eqb_spec k k0) as [->|Hne].
  - destruct (afind k0 m) as [l|]; [|exact I]. cbn [option_map]. intros N.
    destruct (tids_remove_spec tid l N) as (N1 & N2). split; [exact N1|]. intros x. rewrite (N2 x). split.
    + intros [Hx Hn]. split; [exact Hx|intros _; exact Hn].
    + intros [Hx Hn]. split; [exact Hx|apply Hn; reflexivity].
  - destruct (afind k m) as [l|]; [|exact I]. intros N. split; [exact N|]. intros x. split.
    + intros Hx. split; [exact Hx|]. intros Hc. congruence.
    + intros [Hx _]. exact Hx.
Qed.

Lemma r2d_rm_rel_trans : forall tid H1 H2 m m1 m2, r2d_rm_rel tid H1 m m1 -> r2d_rm_rel tid H2 m1 m2 ->
  r2d_rm_rel tid (fun k => H1 k \/ H2 k) m m2.
Proof.
  intros tid H1 H2 m m1 m2 R1 R2 k. specialize (R1 k). specialize (R2 k).
  destruct (afind k m) as [l|], (afind k m1) as [l1|], (afind k m2) as [l2|]; try contradiction; try exact I.
  intros N. destruct (R1 N) as (N1 & I1). destruct (R2 N1) as (N2 & I2). split; [exact N2|].
  intros x. rewrite (I2 x), (I1 x). split.
  - intros [[Hx Ha] Hb]. split; [exact Hx|]. intros [Hc|Hc]; [apply Ha; exact Hc|apply Hb; exact Hc].
  - intros [Hx Ha]. split; [split; [exact Hx|]|]; intros Hc; apply Ha; [left|right]; exact Hc.
Qed.

Lemma r2d_rm_rel_weaken : forall tid (H H' : nat -> Prop) m m', (forall k, H k <-> H' k) -> r2d_rm_rel tid H m m' -> r2d_rm_rel tid H' m m'.
Proof.
  intros tid H H' m m' E R k. specialize (R k). destruct (afind k m) as [l|], (afind k m') as [l'|]; try contradiction; try exact I.
  intros N. destruct (R N) as (N1 & I1). split; [exact N1|]. intros x. rewrite (I1 x), (E k). tauto.
Qed.

Lemma r2d_rftc_fields : forall tid kinds targets i a,
  a_mask (remove_from_targets_cols tid i kinds targets a) = a_mask a /\ a_comps (remove_from_targets_cols tid i kinds targets a) = a_comps a /\
  a_isrel (remove_from_targets_cols tid i kinds targets a) = a_isrel a /\ a_tables (remove_from_targets_cols tid i kinds targets a) = a_tables a /\
  a_free (remove_from_targets_cols tid i kinds targets a) = a_free a /\ a_numrel (remove_from_targets_cols tid i kinds targets a) = a_numrel a /\
  length (a_reltabs (remove_from_targets_cols tid i kinds targets a)) = length (a_reltabs a).
Proof.
  intros tid kinds. induction kinds as [|kd ks IH]; intros targets i a; [cbn; repeat split|].
  destruct targets as [|x xs]; [cbn; repeat split|]. cbn [remove_from_targets_cols].
  destruct (ck_rel kd).
  - match goal with |- context [remove_from_targets_cols tid (S i) ks xs ?a1] => destruct (IH xs (S i) a1) as (E1 & E2 & E3 & E4 & E5 & E6 & E7) end.
    rewrite E1, E2, E3, E4, E5, E6, E7. repeat split. cbn. apply updf_length.
  - apply IH.
Qed.

(** the archetype-wide lookup after removeFromTargets *)
Lemma r2d_rftc_tgttabs : forall tid kinds targets i a,
  r2d_rm_rel tid (fun k => In k (r2_hit_keys kinds targets)) (a_tgttabs a) (a_tgttabs (remove_from_targets_cols tid i kinds targets a)).
Proof.
  intros tid kinds. induction kinds as [|kd ks IH]; intros targets i a.
  - cbn. apply r2d_rm_rel_refl.
  - destruct targets as [|x xs]; [cbn; apply r2d_rm_rel_refl|]. cbn [remove_from_targets_cols r2_hit_keys].
    destruct (ck_rel kd); [|apply IH].
    match goal with |- context [remove_from_targets_cols tid (S i) ks xs ?aa] => set (a1 := aa) end.
    assert (E1 : a_tgttabs a1 = r2d_rmkey tid (fst x) (a_tgttabs a)) by reflexivity.
    pose proof (IH xs (S i) a1) as R2. rewrite E1 in R2.
    pose proof (r2d_rm_rel_trans tid _ _ _ _ _ (r2d_rm_rel_step tid (fst x) (a_tgttabs a)) R2) as R.
    apply (r2d_rm_rel_weaken tid (fun k => fst x = k \/ In k (r2_hit_keys ks xs))); [|exact R].
    intros k. cbn [In]. tauto.
Qed.

(** the per-column lookups after removeFromTargets: column [j] is touched once, under its own target *)
Lemma r2d_rftc_reltabs : forall tid kinds targets i a j,
  nth_error (a_reltabs (remove_from_targets_cols tid i kinds targets a)) j =
  match nth_error (a_reltabs a) j with
  | None => None
  | Some m => Some (if Nat.leb i j
                    then match nth_error kinds (j - i), nth_error targets (j - i) with
                         | Some kd, Some x => if ck_rel kd then r2d_rmkey tid (fst x) m else m
                         | _, _ => m
                         end
                    else m)
  end.
Proof.
  intros tid kinds. induction kinds as [|kd ks IH]; intros targets i a j.
  - cbn [remove_from_targets_cols]. destruct (nth_error (a_reltabs a) j); [|reflexivity].
    destruct (Nat.leb i j); [|reflexivity]. destruct (j - i); reflexivity.
  - destruct targets as [|x xs].
    + cbn [remove_from_targets_cols]. destruct (nth_error (a_reltabs a) j); [|reflexivity].
      destruct (Nat.leb i j); [|reflexivity]. destruct (nth_error (kd :: ks) (j - i)); [|reflexivity]. destruct (j - i); reflexivity.
    + cbn [remove_from_targets_cols]. rewrite IH.
      match goal with |- context [nth_error (a_reltabs ?aa) j] =>
        assert (E : nth_error (a_reltabs aa) j =
                  if (ck_rel kd && Nat.eqb i j)%bool then option_map (r2d_rmkey tid (fst x)) (nth_error (a_reltabs a) j)
                  else nth_error (a_reltabs a) j)
      end.
      { destruct (ck_rel kd); [|reflexivity]. cbn [andb]. apply nth_error_updf. }
      rewrite E. destruct (nth_error (a_reltabs a) j) as [m|] eqn:Em.
      * destruct (Nat.eqb_spec i j) as [->|Hne].
        -- rewrite andb_true_r. replace (Nat.leb (S j) j) with false by (symmetry; apply Nat.leb_gt; lia).
           rewrite Nat.leb_refl, Nat.sub_diag. cbn [nth_error option_map]. destruct (ck_rel kd); reflexivity.
        -- rewrite andb_false_r. destruct (Nat.leb_spec (S i) j) as [Hle|Hgt].
           ++ replace (Nat.leb i j) with true by (symmetry; apply Nat.leb_le; lia).
              replace (j - i) with (S (j - S i)) by lia. reflexivity.
           ++ replace (Nat.leb i j) with false by (symmetry; apply Nat.leb_gt; lia). reflexivity.
      * destruct (ck_rel kd && Nat.eqb i j)%bool; reflexivity.
Qed.

Lemma r2d_rm_rel_fwd : forall tid H m m' k l, r2d_rm_rel tid H m m' -> afind k m = Some l -> NoDup l ->
  exists l', afind k m' = Some l' /\ NoDup l' /\ forall x, In x l' <-> In x l /\ (H k -> x <> tid).
Proof.
  intros tid H m m' k l R Hk N. specialize (R k). rewrite Hk in R. destruct (afind k m') as [l'|]; [|contradiction].
  exists l'. split; [reflexivity|]. apply R. exact N.
Qed.

Lemma r2d_rm_rel_bwd : forall tid H m m' k l', r2d_rm_rel tid H m m' -> afind k m' = Some l' ->
  exists l, afind k m = Some l /\ (NoDup l -> NoDup l' /\ forall x, In x l' <-> In x l /\ (H k -> x <> tid)).
Proof.
  intros tid H m m' k l' R Hk. specialize (R k). rewrite Hk in R. destruct (afind k m) as [l|]; [|contradiction].
  exists l. split; [reflexivity|exact R].
Qed.

Lemma r2d_rm_rel_none : forall tid H m m' k, r2d_rm_rel tid H m m' -> (afind k m' = None <-> afind k m = None).
Proof.
  intros tid H m m' k R. specialize (R k). destruct (afind k m) as [l|], (afind k m') as [l'|]; try contradiction; split; congruence.
Qed.

(** a lookup that is not touched, seen as an instance of the relation *)
Lemma r2d_rm_rel_same : forall tid (H : nat -> Prop) m, (forall k l, afind k m = Some l -> H k -> ~ In tid l) -> r2d_rm_rel tid H m m.
Proof.
  intros tid H m Hno k. destruct (afind k m) as [l|] eqn:E; [|exact I]. intros N. split; [exact N|].
  intros x. split; [|intros [Hx _]; exact Hx]. intros Hx. split; [exact Hx|]. intros Hk ->. apply (Hno k l E Hk Hx).
Qed.

(** the hit keys of a table are the ids of its relation targets *)
Lemma r2d_hit_keys_has_target : forall s aid a tid t k, WF s -> nth_error (w_archs s) aid = Some a ->
  nth_error (w_tables s) tid = Some t -> t_arch t = aid ->
  (In k (r2_hit_keys (t_kinds t) (t_targets t)) <-> r2_has_target a t k).
Proof.
  intros s aid a tid t k HW Ha Ht Earch. destruct (wf_layout _ HW tid t Ht) as (a0 & Ha0 & Hids & Hkinds & Hlen).
  rewrite Earch, Ha in Ha0. injection Ha0 as <-.
  destruct (r2_kinds_isrel s aid a HW Ha) as (KI & KL). rewrite <- Hids, <- Hkinds in KI, KL.
  rewrite r2_hit_keys_in. unfold r2_has_target, r2_relcol. split.
  - intros (j & kd & x & H1 & H2 & H3 & H4). exists j, (snd x). split.
    + rewrite (KI j kd H1), H2. reflexivity.
    + rewrite H3. destruct x as [k0 g]. cbn in H4. subst k0. reflexivity.
  - intros (i & g & Hr & Hx). assert (Hlt : i < length (t_kinds t)) by (rewrite KL; eapply sa_nth_error_lt; exact Hr).
    destruct (nth_error (t_kinds t) i) as [kd|] eqn:Ek; [|apply nth_error_None in Ek; lia].
    exists i, kd, (k, g). split; [exact Ek|]. split; [|split; [exact Hx|reflexivity]].
    rewrite (KI i kd Ek) in Hr. injection Hr as ->. reflexivity.
Qed.

(** the lookups of the archetype of table [tid] after removeFromTargets for [tid], as relations *)
Lemma r2d_rftc_spec : forall D s aid a tid t, WF s -> RelInvG D s ->
  nth_error (w_archs s) aid = Some a -> nth_error (w_tables s) tid = Some t -> t_arch t = aid ->
  let a' := remove_from_targets_cols tid 0 (t_kinds t) (t_targets t) a in
  r2d_rm_rel tid (fun k => r2_has_target a t k) (a_tgttabs a) (a_tgttabs a') /\
  (forall i m, nth_error (a_reltabs a) i = Some m -> exists m', nth_error (a_reltabs a') i = Some m' /\
     r2d_rm_rel tid (fun k => exists g, nth_error (t_targets t) i = Some (k, g)) m m') /\
  (forall i m', nth_error (a_reltabs a') i = Some m' -> exists m, nth_error (a_reltabs a) i = Some m).
Proof.
  intros D s aid a tid t HW HR Ha Ht Earch a'.
  destruct (wf_layout _ HW tid t Ht) as (a0 & Ha0 & Hids & Hkinds & Hlen).
  rewrite Earch, Ha in Ha0. injection Ha0 as <-.
  destruct (r2_kinds_isrel s aid a HW Ha) as (KI & KL). rewrite <- Hids, <- Hkinds in KI, KL.
  split; [|split].
  - apply (r2d_rm_rel_weaken tid (fun k => In k (r2_hit_keys (t_kinds t) (t_targets t)))).
    + intros k. apply (r2d_hit_keys_has_target s aid a tid t k HW Ha Ht Earch).
    + apply r2d_rftc_tgttabs.
  - intros i m Em. unfold a'. rewrite r2d_rftc_reltabs, Em. cbn [Nat.leb]. rewrite Nat.sub_0_r.
    eexists. split; [reflexivity|].
    assert (Rel : forall k l0, afind k m = Some l0 -> r2_relcol a i).
    { intros k l0 Hl0. apply (ri_reltabs _ _ HR aid a i m k l0 Ha Em Hl0). }
    destruct (nth_error (t_kinds t) i) as [kd|] eqn:Ek.
    2:{ apply r2d_rm_rel_same. intros k l Hk _ _. pose proof (Rel k l Hk) as Rc. apply nth_error_None in Ek.
        pose proof (sa_nth_error_lt _ _ _ _ Rc). lia. }
    destruct (nth_error (t_targets t) i) as [x|] eqn:Ex.
    2:{ apply r2d_rm_rel_same. intros k l _ (g & Hc). discriminate. }
    destruct (ck_rel kd) eqn:Er.
    2:{ apply r2d_rm_rel_same. intros k l Hk _ _. pose proof (Rel k l Hk) as Rc. unfold r2_relcol in Rc.
        rewrite (KI i kd Ek), Er in Rc. discriminate. }
    apply (r2d_rm_rel_weaken tid (eq (fst x))); [|apply r2d_rm_rel_step].
    intros k. split.
    + intros <-. exists (snd x). destruct x; reflexivity.
    + intros (g & Hc). injection Hc as ->. reflexivity.
  - intros i m' Em'. unfold a' in Em'. rewrite r2d_rftc_reltabs in Em'.
    destruct (nth_error (a_reltabs a) i) as [m|]; [exists m; reflexivity|discriminate].
Qed.

(** D_remove_from_targets: removeFromTargets for a freed table keeps every window of the invariant and
    removes the table from all lookups of its archetype (keys stay, the lists only shrink). *)
Theorem D_remove_from_targets : forall D0 P X s aid a tid t, St2G D0 P X s ->
  nth_error (w_archs s) aid = Some a -> nth_error (w_tables s) tid = Some t -> t_arch t = aid -> t_free t = true ->
  let a' := remove_from_targets_cols tid 0 (t_kinds t) (t_targets t) a in
  let s' := s <| w_archs := upd aid a' (w_archs s) |> in
  modA aid (fun a0 => remove_from_targets_cols tid 0 (t_kinds t) (t_targets t) a0) s = Ok tt s' /\
  St2G D0 P X s' /\
  (forall k l, afind k (a_tgttabs a') = Some l -> ~ In tid l) /\
  (forall i m k l, nth_error (a_reltabs a') i = Some m -> afind k m = Some l -> ~ In tid l) /\
  (forall k, afind k (a_tgttabs a') = None <-> afind k (a_tgttabs a) = None) /\
  (forall k l', afind k (a_tgttabs a') = Some l' -> exists l, afind k (a_tgttabs a) = Some l /\ forall x, In x l' -> In x l) /\
  (forall i m' k l', nth_error (a_reltabs a') i = Some m' -> afind k m' = Some l' ->
     exists m l, nth_error (a_reltabs a) i = Some m /\ afind k m = Some l /\ forall x, In x l' -> In x l).
Proof.
  intros D0 P X s aid a tid t (HW & HR & HT & HC) Ha Ht Earch Hfree a' s'.
  split.
  { unfold modA, modify. f_equal. unfold s', a'.
    rewrite <- (r2_updf_some _ _ _ (fun a0 => remove_from_targets_cols tid 0 (t_kinds t) (t_targets t) a0) _ Ha). reflexivity. }
  destruct (r2d_rftc_fields tid (t_kinds t) (t_targets t) 0 a) as (F1 & F2 & F3 & F4 & F5 & F6 & F7).
  fold a' in F1, F2, F3, F4, F5, F6, F7.
  assert (EA : w_archs s' = upd aid a' (w_archs s)) by reflexivity.
  destruct (r2d_rftc_spec D0 s aid a tid t HW HR Ha Ht Earch) as (RT & RLf & RLb). fold a' in RT, RLf, RLb.
  (* backward views of the new lookups *)
  assert (TG : forall k l', afind k (a_tgttabs a') = Some l' -> exists l, afind k (a_tgttabs a) = Some l /\
             NoDup l' /\ forall x, In x l' <-> In x l /\ (r2_has_target a t k -> x <> tid)).
  { intros k l' Hk. destruct (r2d_rm_rel_bwd _ _ _ _ _ _ RT Hk) as (l & Hl & Q). exists l. split; [exact Hl|].
    apply Q. apply (ri_tgttabs _ _ HR aid a k l Ha Hl). }
  assert (RL : forall i m' k l', nth_error (a_reltabs a') i = Some m' -> afind k m' = Some l' ->
             exists m l, nth_error (a_reltabs a) i = Some m /\ afind k m = Some l /\ NoDup l' /\
               forall x, In x l' <-> In x l /\ ((exists g, nth_error (t_targets t) i = Some (k, g)) -> x <> tid)).
  { intros i m' k l' Hm' Hk'. destruct (RLb i m' Hm') as (m & Hm). destruct (RLf i m Hm) as (m'' & Hm'' & R).
    rewrite Hm' in Hm''. injection Hm'' as <-. destruct (r2d_rm_rel_bwd _ _ _ _ _ _ R Hk') as (l & Hl & Q).
    exists m, l. split; [exact Hm|]. split; [exact Hl|]. apply Q. apply (ri_reltabs _ _ HR aid a i m k l Ha Hm Hl). }
  (* a listed table names the key *)
  assert (NoT : forall k l, afind k (a_tgttabs a') = Some l -> ~ In tid l).
  { intros k l Hk Hin. destruct (TG k l Hk) as (l0 & Hl0 & _ & I0). apply I0 in Hin. destruct Hin as [Hin Hn].
    destruct (ri_tgttabs _ _ HR aid a k l0 Ha Hl0) as (_ & Hall). destruct (Hall tid Hin) as (t1 & Ht1 & Hg & _).
    rewrite Ht in Ht1. injection Ht1 as <-. apply (Hn Hg). reflexivity. }
  assert (NoR : forall i m k l, nth_error (a_reltabs a') i = Some m -> afind k m = Some l -> ~ In tid l).
  { intros i m k l Hm Hk Hin. destruct (RL i m k l Hm Hk) as (m0 & l0 & Hm0 & Hl0 & _ & I0). apply I0 in Hin. destruct Hin as [Hin Hn].
    destruct (ri_reltabs _ _ HR aid a i m0 k l0 Ha Hm0 Hl0) as (_ & _ & Hall). destruct (Hall tid Hin) as (t1 & Ht1 & Hg & _).
    rewrite Ht in Ht1. injection Ht1 as <-. apply (Hn Hg). reflexivity. }
  (* the archetype has relation components: it owns a freed table *)
  assert (Hnr : a_numrel a <> 0).
  { intros Hn. destruct (ri_norel _ _ HR aid a Ha Hn) as (Hf & _). destruct (ri_listed _ _ HR tid t Ht) as (a1 & Ha1 & Hl).
    rewrite Earch, Ha in Ha1. injection Ha1 as <-. rewrite Hfree, Hf in Hl. destruct Hl. }
  assert (HR' : RelInvG D0 s').
  { apply (r2_RelInvG_lookups D0 s s' aid a a' HR Ha EA); try reflexivity; try assumption.
    - intros Hn. contradiction.
    - intros i m' k l' Hm' Hk'. destruct (RL i m' k l' Hm' Hk') as (m & l & Hm & Hl & N' & I').
      destruct (ri_reltabs _ _ HR aid a i m k l Ha Hm Hl) as (_ & Rc & Hall). split; [exact N'|]. split; [exact Rc|].
      intros x Hx. apply I' in Hx. apply (Hall x (proj1 Hx)).
    - intros x tx i y Hx Hf Ex Hr Hy. pose proof Ha as Ha2. rewrite <- Ex in Ha2.
      destruct (ri_reltabs_complete _ _ HR x tx a i y Hx Hf Ha2 Hr Hy) as (m & l & Hm & Hl & Hin).
      destruct (RLf i m Hm) as (m' & Hm' & R). destruct (ri_reltabs _ _ HR aid a i m (fst y) l Ha Hm Hl) as (N & _).
      destruct (r2d_rm_rel_fwd _ _ _ _ _ _ R Hl N) as (l' & Hl' & _ & I').
      exists m', l'. split; [exact Hm'|]. split; [exact Hl'|]. apply I'. split; [exact Hin|]. intros _ ->.
      rewrite Ht in Hx. injection Hx as <-. congruence.
    - intros k l' Hk. destruct (TG k l' Hk) as (l & Hl & N' & I'). destruct (ri_tgttabs _ _ HR aid a k l Ha Hl) as (_ & Hall).
      split; [exact N'|]. intros x Hx. apply I' in Hx. apply (Hall x (proj1 Hx)).
    - intros x tx i y Hx Hf Ex Hr Hy. pose proof Ha as Ha2. rewrite <- Ex in Ha2.
      destruct (ri_tgttabs_complete _ _ HR x tx a i y Hx Hf Ha2 Hr Hy) as (l & Hl & Hin).
      destruct (ri_tgttabs _ _ HR aid a (fst y) l Ha Hl) as (N & _).
      destruct (r2d_rm_rel_fwd _ _ _ _ _ _ RT Hl N) as (l' & Hl' & _ & I').
      exists l'. split; [exact Hl'|]. apply I'. split; [exact Hin|]. intros _ ->.
      rewrite Ht in Hx. injection Hx as <-. congruence.
    - intros i m' k l' Hm' Hk'. destruct (RL i m' k l' Hm' Hk') as (m & l & Hm & Hl & _).
      destruct (ri_keys _ _ HR aid a i m k l Ha Hm Hl) as (l1 & Hl1).
      destruct (afind k (a_tgttabs a')) as [l2|] eqn:E2; [exists l2; reflexivity|].
      apply (r2d_rm_rel_none _ _ _ _ k RT) in E2. congruence. }
  destruct (r2_masks_upd (w_archs s) aid a a' Ha F1) as (MF & MB).
  split; [split; [|split; [exact HR'|split]]|].
  - apply (r2_WF_relabel s s' HW).
    + apply (r2_relabel_arch_upd s s' aid a a' HW Ha EA); try reflexivity; try assumption.
    + intros i b x Hb Hl. rewrite EA in Hb. destruct (r2_upd_cases _ _ _ _ _ _ Hb) as [(-> & -> & _)|(Hne & Hb')].
      * apply (wf_arch_tables _ HW aid a x Ha). rewrite F4, F5 in Hl.
        destruct Hl as [Hl|[Hl|[Hl|Hl]]]; [left; exact Hl|right; left; exact Hl|right; right; left|right; right; right].
        -- destruct Hl as (i & m' & k' & l' & Hm' & Hk' & Hin). destruct (RL i m' k' l' Hm' Hk') as (m & l & Hm & Hl & _ & I').
           exists i, m, k', l. split; [exact Hm|]. split; [exact Hl|]. apply I' in Hin. apply Hin.
        -- destruct Hl as (k' & l' & Hk' & Hin). destruct (TG k' l' Hk') as (l & Hl & _ & I'). exists k', l. split; [exact Hl|].
           apply I' in Hin. apply Hin.
      * apply (wf_arch_tables _ HW i b x Hb' Hl).
    + intros i b Hb Hn. rewrite EA in Hb. destruct (r2_upd_cases _ _ _ _ _ _ Hb) as [(-> & -> & _)|(Hne & Hb')].
      * rewrite F4. rewrite F6 in Hn. apply (wf_arch_norel_table _ HW aid a Ha Hn).
      * apply (wf_arch_norel_table _ HW i b Hb' Hn).
  - intros i b k' l Hb Hk'. rewrite EA in Hb. destruct (r2_upd_cases _ _ _ _ _ _ Hb) as [(-> & -> & _)|(Hne & Hb')].
    + destruct (TG k' l Hk') as (l0 & Hl0 & _). apply (HT aid a k' l0 Ha Hl0).
    + apply (HT i b k' l Hb' Hk').
  - apply (r2_CacheInvG_masks s s' X); try reflexivity; try assumption.
  - split; [exact NoT|]. split; [exact NoR|]. split; [intros k; apply (r2d_rm_rel_none _ _ _ _ k RT)|]. split.
    + intros k l' Hk. destruct (TG k l' Hk) as (l & Hl & _ & I'). exists l. split; [exact Hl|]. intros x Hx. apply I' in Hx. apply Hx.
    + intros i m' k l' Hm' Hk'. destruct (RL i m' k l' Hm' Hk') as (m & l & Hm & Hl & _ & I'). exists m, l.
      split; [exact Hm|]. split; [exact Hl|]. intros x Hx. apply I' in Hx. apply Hx.
Qed.

(** ** Shrinking the set of dying ids when the lookups are tidy *)

Lemma r2d_RelInvG_tidy : forall s (D D' : nat -> Prop), RelInvG D s ->
  (forall aid a i m k l tid t, nth_error (w_archs s) aid = Some a -> nth_error (a_reltabs a) i = Some m -> afind k m = Some l ->
     In tid l -> nth_error (w_tables s) tid = Some t -> t_free t = false) ->
  (forall aid a k l tid t, nth_error (w_archs s) aid = Some a -> afind k (a_tgttabs a) = Some l ->
     In tid l -> nth_error (w_tables s) tid = Some t -> t_free t = false) ->
  (forall tid t r, nth_error (w_tables s) tid = Some t -> t_free t = false -> In r (t_rels t) -> r2_tgt_ok D' s (snd r)) ->
  RelInvG D' s.
Proof.
  intros s D D' H NR NT OK. destruct H. constructor; try assumption.
  - intros aid a i m k l Ha Hm Hk. destruct (ri_reltabs aid a i m k l Ha Hm Hk) as (N & Rc & Hall).
    split; [exact N|]. split; [exact Rc|]. intros tid Hin. destruct (Hall tid Hin) as (t & Ht & Hg & _).
    exists t. split; [exact Ht|]. split; [exact Hg|]. intros Hf. rewrite (NR aid a i m k l tid t Ha Hm Hk Hin Ht) in Hf. discriminate.
  - intros aid a k l Ha Hk. destruct (ri_tgttabs aid a k l Ha Hk) as (N & Hall).
    split; [exact N|]. intros tid Hin. destruct (Hall tid Hin) as (t & Ht & Hg & _).
    exists t. split; [exact Ht|]. split; [exact Hg|]. intros Hf. rewrite (NT aid a k l tid t Ha Hk Hin Ht) in Hf. discriminate.
Qed.

(** ** What one step of Shrink may change *)

Definition r2d_tfree (t t' : table) : Prop :=
  t_arch t' = t_arch t /\ t_ids t' = t_ids t /\ t_kinds t' = t_kinds t /\ t_len t' = t_len t /\
  t_rels t' = t_rels t /\ t_targets t' = t_targets t /\
  (t_free t' = t_free t \/ (t_free t = false /\ t_free t' = true /\ t_len t = 0 /\ t_rels t <> [])).

Definition r2d_shr (s s' : W) : Prop :=
  content_same s s' /\ r2d_tgt_same s s' /\ w_pool s' = w_pool s /\ w_index s' = w_index s /\
  w_istarget s' = w_istarget s /\ w_cfg s' = w_cfg s /\ side_same s s' /\ frame_user s s' /\
  length (w_tables s') = length (w_tables s) /\ length (w_archs s') = length (w_archs s) /\
  (forall j t, nth_error (w_tables s) j = Some t -> exists t', nth_error (w_tables s') j = Some t' /\ r2d_tfree t t') /\
  (forall aid a' k l', nth_error (w_archs s') aid = Some a' -> afind k (a_tgttabs a') = Some l' ->
     exists a l, nth_error (w_archs s) aid = Some a /\ afind k (a_tgttabs a) = Some l).

Lemma r2d_tfree_refl : forall t, r2d_tfree t t.
Proof. intros t. unfold r2d_tfree. repeat split. left. reflexivity. Qed.

Lemma r2d_tfree_trans : forall t1 t2 t3, r2d_tfree t1 t2 -> r2d_tfree t2 t3 -> r2d_tfree t1 t3.
Proof.
  intros t1 t2 t3 (A1 & A2 & A3 & A4 & A5 & A6 & A7) (B1 & B2 & B3 & B4 & B5 & B6 & B7). unfold r2d_tfree.
  split; [congruence|]. split; [congruence|]. split; [congruence|]. split; [congruence|]. split; [congruence|]. split; [congruence|].
  destruct A7 as [A7|(A7 & A8 & A9 & A10)], B7 as [B7|(B7 & B8 & B9 & B10)].
  - left. congruence.
  - right. split; [congruence|]. split; [exact B8|]. split; [congruence|]. rewrite <- A5. exact B10.
  - right. split; [exact A7|]. split; [congruence|]. split; [exact A9|exact A10].
  - congruence.
Qed.

Lemma r2d_shr_refl : forall s, r2d_shr s s.
Proof.
  intros s. split; [apply sb1_content_same_refl|]. split; [apply r2d_tgt_same_refl|].
  do 4 (split; [reflexivity|]). split; [apply sb1_side_same_refl|]. split; [apply sb1_frame_user_refl|].
  split; [reflexivity|]. split; [reflexivity|]. split.
  - intros j t Hj. exists t. split; [exact Hj|apply r2d_tfree_refl].
  - intros aid a' k l' Ha Hk. exists a', l'. split; assumption.
Qed.

Lemma r2d_shr_trans : forall s1 s2 s3, r2d_shr s1 s2 -> r2d_shr s2 s3 -> r2d_shr s1 s3.
Proof.
  intros s1 s2 s3 (A1 & A2 & A3 & A4 & A5 & A6 & A7 & A8 & A9 & A10 & A11 & A12) (B1 & B2 & B3 & B4 & B5 & B6 & B7 & B8 & B9 & B10 & B11 & B12).
  split.
  { intros e. destruct (A1 e) as (L1 & V1). destruct (B1 e) as (L2 & V2). split; [congruence|]. intros c. rewrite V2, V1. reflexivity. }
  split; [intros e c; rewrite B2, A2; reflexivity|].
  split; [congruence|]. split; [congruence|]. split; [congruence|]. split; [congruence|].
  split; [apply (sb1_side_same_trans _ _ _ A7 B7)|]. split; [apply (sb1_frame_user_trans _ _ _ A8 B8)|].
  split; [congruence|]. split; [congruence|]. split.
  - intros j t Hj. destruct (A11 j t Hj) as (t2 & Hj2 & R2). destruct (B11 j t2 Hj2) as (t3 & Hj3 & R3).
    exists t3. split; [exact Hj3|apply (r2d_tfree_trans _ _ _ R2 R3)].
  - intros aid a' k l' Ha Hk. destruct (B12 aid a' k l' Ha Hk) as (a2 & l2 & Ha2 & Hk2). apply (A12 aid a2 k l2 Ha2 Hk2).
Qed.

(** ** Step 1: the capacity of one table is adjusted (any table, with or without relations) *)

Lemma r2d_sim_St2 : forall s T', St2 s -> length T' = length (w_tables s) ->
  (forall j t, nth_error (w_tables s) j = Some t -> exists t', nth_error T' j = Some t' /\ r_tsim t t') ->
  St2 (s <| w_tables := T' |>) /\ content_same s (s <| w_tables := T' |>) /\ r2d_tgt_same s (s <| w_tables := T' |>).
Proof.
  intros s T' HS HL Hf. pose proof HS as (H & (HR & HT) & HC).
  set (s' := s <| w_tables := T' |>).
  assert (Hb : forall j t', nth_error T' j = Some t' -> exists t, nth_error (w_tables s) j = Some t /\ r_tsim t t').
  { intros j t' E'. destruct (nth_error (w_tables s) j) as [t|] eqn:E.
    - destruct (Hf _ _ E) as (t'' & E'' & R). rewrite E' in E''. inversion E''; subst t''. exists t. auto.
    - apply nth_error_None in E. assert (j < length T') by (apply nth_error_Some; congruence). lia. }
  assert (HW' : WF s').
  { apply (r2c_WF_intro s s' H).
    + unfold sb3_struct_same. repeat split; reflexivity.
    + split; [exact HL|]. intros tid t E. destruct (Hf _ _ E) as (t' & E' & O & L & F1 & F2 & F3 & F4 & F5 & F6 & _).
      exists t'. split; [exact E'|]. split; [exact O|]. repeat split; assumption.
    + exact (wf_index_len _ H).
    + intros tid t' r E' Hr. destruct (Hb _ _ E') as (t & E & O & L & F1 & F2 & F3 & F4 & F5 & F6 & Re & Rc).
      rewrite L in Hr. rewrite (Re _ Hr). exact (wf_rows _ H tid t r E Hr).
    + intros id tid r E. destruct (wf_index _ H id tid r E) as (t & Et & Hr & Hfst).
      destruct (Hf _ _ Et) as (t' & E' & O & L & F1 & F2 & F3 & F4 & F5 & F6 & Re & Rc).
      exists t'. split; [exact E'|]. split; [lia|]. rewrite (Re _ Hr). exact Hfst.
    + exact (wf_pool _ H).
    + exact (wf_reserved _ H).
    + exact (wf_small _ H). }
  assert (HCS : content_same s s').
  { intros e. destruct (sb3_row_of s e) as [[t r]|] eqn:E0.
    + destruct (sb3_row_of_wf _ _ _ _ H E0) as (tid & Ei & Et & Hr & Hfst).
      destruct (Hf _ _ Et) as (t' & E' & O & L & F1 & F2 & F3 & F4 & F5 & F6 & Re & Rc).
      assert (E0' : sb3_row_of s' e = Some (t', r)).
      { unfold sb3_row_of. change (w_index s') with (w_index s). change (w_tables s') with T'.
        rewrite Ei, E'. reflexivity. }
      apply (sb3_same_some s s' e t r t' r E0 E0'); auto; lia.
    + apply sb3_same_none; auto. unfold sb3_row_of in *.
      change (w_index s') with (w_index s). change (w_tables s') with T'.
      destruct (nth_error (w_index s) (fst e)) as [[[j|] r0]|]; auto.
      destruct (nth_error (w_tables s) j) eqn:Ej; [discriminate|].
      assert (En : nth_error T' j = None) by (apply nth_error_None; rewrite HL; apply nth_error_None; exact Ej).
      rewrite En. reflexivity. }
  assert (HTS : r2d_tgt_same s s').
  { intros e c. unfold tgt. rewrite (proj1 (HCS e)). destruct (live s e) eqn:Hl; [|reflexivity].
    destruct (sb1_live_inv s e Hl) as (tid & row & t & Hi & Ht & _).
    unfold target_of, loc. change (w_index s') with (w_index s). change (w_tables s') with T'. rewrite Hi, Ht.
    destruct (Hf _ _ Ht) as (t' & E' & O & L & F1 & F2 & F3 & F4 & F5 & F6 & _). rewrite E'.
    unfold tbl_target, tbl_colidx. rewrite F2, F4. reflexivity. }
  split; [|split; [exact HCS|exact HTS]].
  apply St2_St2G. apply (L_St2G_rows r2_none r2_none r2_none s s' (proj1 (St2_St2G s) HS) HW'); try reflexivity.
  - intros j t Hj. destruct (Hf _ _ Hj) as (t' & E' & O & L & F1 & F2 & F3 & F4 & F5 & F6 & _).
    exists t'. split; [exact E'|]. split; [unfold sb2_meta; repeat split; assumption|].
    intros Hfr. rewrite L. apply (r2c_free_len0 _ s j t HR Hj Hfr).
  - exact HL.
  - intros x Hx. left. rewrite (proj1 (HCS x)). exact Hx.
  - intros aid a k l _ _ Hfl. exact Hfl.
Qed.

Lemma r2d_adjust_step : forall s idx t c, St2 s -> nth_error (w_tables s) idx = Some t ->
  let s' := s <| w_tables := upd idx (r_step c t) (w_tables s) |> in
  St2 s' /\ r2d_shr s s' /\ (forall j, j <> idx -> nth_error (w_tables s') j = nth_error (w_tables s) j) /\
  nth_error (w_tables s') idx = Some (r_step c t).
Proof.
  intros s idx t c HS Ht s'. pose proof HS as (H & _).
  assert (Ok_t : tbl_ok t) by (apply (proj1 (Forall_nth_error _ _ _) (wf_tables _ H) _ _ Ht)).
  pose proof (r_tsim_step c t Ok_t (r_len_small s idx t H Ht)) as Sim.
  assert (HT : forall j, nth_error (upd idx (r_step c t) (w_tables s)) j = if Nat.eqb idx j then Some (r_step c t) else nth_error (w_tables s) j).
  { intros j. rewrite TableProofs.nth_error_upd. destruct (Nat.eqb_spec idx j) as [<-|]; [rewrite Ht|]; reflexivity. }
  assert (Hf : forall j t0, nth_error (w_tables s) j = Some t0 -> exists t', nth_error (upd idx (r_step c t) (w_tables s)) j = Some t' /\ r_tsim t0 t').
  { intros j t0 Hj. rewrite HT. destruct (Nat.eqb_spec idx j) as [<-|Hne].
    - rewrite Ht in Hj. injection Hj as <-. exists (r_step c t). split; [reflexivity|exact Sim].
    - exists t0. split; [exact Hj|]. apply r_tsim_refl. apply (proj1 (Forall_nth_error _ _ _) (wf_tables _ H) _ _ Hj). }
  destruct (r2d_sim_St2 s (upd idx (r_step c t) (w_tables s)) HS (upd_length _ _ _ _) Hf) as (P1 & P2 & P3). fold s' in P1, P2, P3.
  split; [exact P1|]. split.
  { split; [exact P2|]. split; [exact P3|]. do 4 (split; [reflexivity|]).
    split; [unfold side_same; repeat split|]. split; [unfold frame_user; repeat split|].
    split; [apply upd_length|]. split; [reflexivity|]. split.
    - intros j t0 Hj. destruct (Hf j t0 Hj) as (t' & E' & O & L & F1 & F2 & F3 & F4 & F5 & F6 & _).
      exists t'. split; [exact E'|]. unfold r2d_tfree. repeat split; try assumption. left. exact F6.
    - intros aid a' k l' Ha Hk. exists a', l'. split; assumption. }
  split.
  - intros j Hne. change (w_tables s') with (upd idx (r_step c t) (w_tables s)). rewrite HT.
    destruct (Nat.eqb_spec idx j); [congruence|reflexivity].
  - change (w_tables s') with (upd idx (r_step c t) (w_tables s)). rewrite HT, Nat.eqb_refl. reflexivity.
Qed.

(** ** Step 2: an empty relation table is freed, dropped from the lookups and from the cache *)

(** the observables do not read [t_free], [t_cap] or the archetypes *)
Lemma r2d_obs_same : forall s s', w_index s' = w_index s ->
  (forall j, option_map (fun t => (t_len t, t_ents t, t_cols t, t_ids t, t_targets t)) (nth_error (w_tables s') j) =
             option_map (fun t => (t_len t, t_ents t, t_cols t, t_ids t, t_targets t)) (nth_error (w_tables s) j)) ->
  content_same s s' /\ r2d_tgt_same s s'.
Proof.
  intros s s' EI ET.
  assert (Q : forall e, live s' e = live s e /\ (forall c, value_of s' e c = value_of s e c) /\ (forall c, target_of s' e c = target_of s e c)).
  { intros e. unfold live, value_of, target_of. rewrite (sa_loc_ext s s' EI). destruct (loc s e) as [[j r]|]; [|repeat split].
    specialize (ET j). destruct (nth_error (w_tables s') j) as [t'|], (nth_error (w_tables s) j) as [t|]; cbn in ET; try discriminate; [|repeat split].
    injection ET as E1 E2 E3 E4 E5. unfold row_ent, cell, tbl_target, tbl_colidx. rewrite E1, E2, E3, E4, E5. repeat split. }
  split.
  - intros e. destruct (Q e) as (L & V & _). split; [exact L|]. intros c. unfold val. rewrite L, V. reflexivity.
  - intros e c. destruct (Q e) as (L & _ & T). unfold tgt. rewrite L, T. reflexivity.
Qed.

Lemma r2d_free_step : forall s idx t, St2 s -> nth_error (w_tables s) idx = Some t ->
  t_free t = false -> t_len t = 0 -> t_rels t <> [] ->
  exists s', (forall A (k : MW A),
               (free_table (t_arch t) idx ;;;
                modA (t_arch t) (fun a => remove_from_targets_cols idx 0 (t_kinds t) (t_targets t) a) ;;;
                cache_remove_table idx ;;; k) s = k s') /\
    St2 s' /\ r2d_shr s s' /\ w_tables s' = upd idx (t <| t_free := true |>) (w_tables s).
Proof.
  intros s idx t HS Ht Hfree Hlen Hrels. pose proof HS as (HW & (HR & HT) & HC).
  destruct (wf_layout _ HW idx t Ht) as (a & Ha & _).
  set (aid := t_arch t) in *.
  destruct (ri_shape _ _ HR idx t a Ht Ha) as (_ & _ & _ & Hnum).
  assert (Hnr : 0 < a_numrel a) by (rewrite <- Hnum; destruct (t_rels t); [congruence|cbn; lia]).
  set (D := fun _ : nat => True).
  assert (HSD : St2G D r2_none r2_none s).
  { split; [exact HW|]. split; [apply (r2_RelInvG_mono s r2_none D); [intros k []|exact HR]|]. split; [exact HT|exact HC]. }
  destruct (r2_free_table_spec D r2_none r2_none s aid a idx t HSD Ha Ht eq_refl Hfree Hlen Hnr (fun _ _ _ _ _ => I)) as (E1 & S1).
  set (a2 := arch_free_table a idx) in *. set (t2 := t <| t_free := true |>) in *.
  set (s2 := s <| w_archs := upd aid a2 (w_archs s) |> <| w_tables := upd idx t2 (w_tables s) |>) in *.
  assert (A2 : nth_error (w_archs s2) aid = Some a2) by (apply (r2_upd_same _ _ _ _ _ Ha)).
  assert (T2 : nth_error (w_tables s2) idx = Some t2) by (apply (r2_upd_same _ _ _ _ _ Ht)).
  destruct (D_remove_from_targets D r2_none (r2_add1 r2_none idx) s2 aid a2 idx t2 S1 A2 T2 eq_refl eq_refl)
    as (E2 & S2 & NoT & NoR & KN & TS & RS).
  set (a3 := remove_from_targets_cols idx 0 (t_kinds t2) (t_targets t2) a2) in *.
  set (s3 := s2 <| w_archs := upd aid a3 (w_archs s2) |>) in *.
  assert (T3 : nth_error (w_tables s3) idx = Some t2) by exact T2.
  destruct (r2_cache_remove_table_spec D r2_none r2_none s3 idx t2 S2 T3 eq_refl) as (l' & E3 & S3).
  set (s4 := s3 <| w_cheap := l' |>) in *.
  exists s4. split.
  { intros A k. rewrite (sa_bind_ok E1). rewrite (sa_bind_ok (m := modA aid (fun a0 => remove_from_targets_cols idx 0 (t_kinds t) (t_targets t) a0)) E2).
    rewrite (sa_bind_ok E3). reflexivity. }
  destruct S3 as (HW4 & HR4 & HT4 & HC4).
  assert (EA4 : forall b, nth_error (w_archs s4) b = if Nat.eqb aid b then Some a3 else nth_error (w_archs s) b).
  { intros b. change (w_archs s4) with (upd aid a3 (upd aid a2 (w_archs s))). rewrite TableProofs.nth_error_upd.
    destruct (Nat.eqb_spec aid b) as [<-|Hne].
    - rewrite (r2_upd_same _ _ _ _ _ Ha). reflexivity.
    - rewrite TableProofs.nth_error_upd. destruct (Nat.eqb_spec aid b); [congruence|reflexivity]. }
  assert (ET4 : forall j, nth_error (w_tables s4) j = if Nat.eqb idx j then Some t2 else nth_error (w_tables s) j).
  { intros j. change (w_tables s4) with (upd idx t2 (w_tables s)). rewrite TableProofs.nth_error_upd.
    destruct (Nat.eqb_spec idx j) as [<-|]; [rewrite Ht|]; reflexivity. }
  (* lists of the new lookups come from lists of the old ones *)
  assert (TGsub : forall k l3, afind k (a_tgttabs a3) = Some l3 -> exists l, afind k (a_tgttabs a) = Some l /\ forall x, In x l3 -> In x l).
  { intros k l3 Hk. destruct (TS k l3 Hk) as (l2 & Hl2 & Sub2). unfold a2 in Hl2. rewrite r2_aft_tgttabs in Hl2.
    destruct (afind k (a_tgttabs a)) as [l|] eqn:El; [|destruct (Nat.leb (a_numrel a) 1); discriminate].
    exists l. split; [reflexivity|]. destruct (ri_tgttabs _ _ HR aid a k l Ha El) as (N & _).
    intros x Hx. apply Sub2 in Hx. destruct (Nat.leb (a_numrel a) 1); cbn in Hl2; injection Hl2 as <-; [exact Hx|].
    apply (tids_remove_spec idx l N) in Hx. apply Hx. }
  assert (RLsub : forall i m3 k l3, nth_error (a_reltabs a3) i = Some m3 -> afind k m3 = Some l3 ->
             exists m l, nth_error (a_reltabs a) i = Some m /\ afind k m = Some l /\ forall x, In x l3 -> In x l).
  { intros i m3 k l3 Hm3 Hk. destruct (RS i m3 k l3 Hm3 Hk) as (m2 & l2 & Hm2 & Hl2 & Sub2).
    destruct (r2_aft_reltabs a idx i m2 k l2 Hm2 Hl2) as (m & l & Hm & Hl & Q). exists m, l. split; [exact Hm|]. split; [exact Hl|].
    destruct (ri_reltabs _ _ HR aid a i m k l Ha Hm Hl) as (N & _).
    intros x Hx. apply Sub2 in Hx. destruct Q as [(_ & ->)|(_ & ->)]; [exact Hx|]. apply (tids_remove_spec idx l N) in Hx. apply Hx. }
  (* no listed table is free *)
  assert (Lfree : forall b x tx, nth_error (w_tables s4) x = Some tx ->
            (exists t', nth_error (w_tables s4) x = Some t' /\ t_arch t' = b) ->
            (b = aid -> x <> idx) ->
            (x <> idx -> exists t0, nth_error (w_tables s) x = Some t0 /\ (t_free t0 = true -> False)) ->
            t_free tx = false).
  { intros b x tx Hx (t' & Hx' & Eb) Hnidx Hold. rewrite Hx in Hx'. injection Hx' as <-. rewrite ET4 in Hx.
    destruct (Nat.eqb_spec idx x) as [<-|Hne].
    - injection Hx as <-. exfalso. apply Hnidx; [|reflexivity]. rewrite <- Eb. reflexivity.
    - destruct (Hold (fun Hc => Hne (eq_sym Hc))) as (t0 & Ht0 & Hf0). rewrite Hx in Ht0. injection Ht0 as <-.
      destruct (t_free tx); [exfalso; apply Hf0; reflexivity|reflexivity]. }
  assert (HCS : content_same s s4 /\ r2d_tgt_same s s4).
  { apply r2d_obs_same; [reflexivity|]. intros j. rewrite ET4. destruct (Nat.eqb_spec idx j) as [<-|]; [rewrite Ht|]; reflexivity. }
  destruct HCS as (HCS & HTS).
  assert (HR4' : RelInvG r2_none s4).
  { apply (r2d_RelInvG_tidy s4 D r2_none HR4).
    - intros b ab i m k l x tx Hb Hm Hk Hin Hx.
      apply (Lfree b x tx Hx).
      + apply (wf_arch_tables _ HW4 b ab x Hb). right. right. left. exists i, m, k, l. repeat split; assumption.
      + intros -> ->. rewrite EA4, Nat.eqb_refl in Hb. injection Hb as <-. apply (NoR i m k l Hm Hk Hin).
      + intros Hne. rewrite EA4 in Hb. destruct (Nat.eqb_spec aid b) as [<-|Hnb].
        * injection Hb as <-. destruct (RLsub i m k l Hm Hk) as (m0 & l0 & Hm0 & Hl0 & Sub).
          destruct (ri_reltabs _ _ HR aid a i m0 k l0 Ha Hm0 Hl0) as (_ & _ & Hall). destruct (Hall x (Sub x Hin)) as (t0 & Ht0 & _ & Hf0).
          exists t0. split; [exact Ht0|]. intros Hf. destruct (Hf0 Hf) as ([] & _).
        * destruct (ri_reltabs _ _ HR b ab i m k l Hb Hm Hk) as (_ & _ & Hall). destruct (Hall x Hin) as (t0 & Ht0 & _ & Hf0).
          exists t0. split; [exact Ht0|]. intros Hf. destruct (Hf0 Hf) as ([] & _).
    - intros b ab k l x tx Hb Hk Hin Hx.
      apply (Lfree b x tx Hx).
      + apply (wf_arch_tables _ HW4 b ab x Hb). right. right. right. exists k, l. split; assumption.
      + intros -> ->. rewrite EA4, Nat.eqb_refl in Hb. injection Hb as <-. apply (NoT k l Hk Hin).
      + intros Hne. rewrite EA4 in Hb. destruct (Nat.eqb_spec aid b) as [<-|Hnb].
        * injection Hb as <-. destruct (TGsub k l Hk) as (l0 & Hl0 & Sub).
          destruct (ri_tgttabs _ _ HR aid a k l0 Ha Hl0) as (_ & Hall). destruct (Hall x (Sub x Hin)) as (t0 & Ht0 & _ & Hf0).
          exists t0. split; [exact Ht0|]. intros Hf. destruct (Hf0 Hf) as ([] & _).
        * destruct (ri_tgttabs _ _ HR b ab k l Hb Hk) as (_ & Hall). destruct (Hall x Hin) as (t0 & Ht0 & _ & Hf0).
          exists t0. split; [exact Ht0|]. intros Hf. destruct (Hf0 Hf) as ([] & _).
    - intros x tx r Hx Hf Hin. rewrite ET4 in Hx. destruct (Nat.eqb_spec idx x) as [<-|Hne].
      + injection Hx as <-. discriminate.
      + destruct (ri_targets_ok _ _ HR x tx r Hx Hf Hin) as [Hz|[Hl|[]]]; [left; exact Hz|right; left].
        rewrite (proj1 (HCS (snd r))). exact Hl. }
  split; [split; [exact HW4|split; [split; [exact HR4'|exact HT4]|exact HC4]]|].
  split; [|reflexivity].
  split; [exact HCS|]. split; [exact HTS|]. do 4 (split; [reflexivity|]).
  split; [unfold side_same; repeat split|]. split; [unfold frame_user; repeat split|].
  split; [apply upd_length|]. split; [change (w_archs s4) with (upd aid a3 (upd aid a2 (w_archs s))); rewrite !upd_length; reflexivity|].
  split.
  - intros j tj Hj. rewrite ET4. destruct (Nat.eqb_spec idx j) as [<-|Hne].
    + rewrite Ht in Hj. injection Hj as <-. exists t2. split; [reflexivity|]. unfold r2d_tfree. repeat split.
      right. repeat split; assumption.
    + exists tj. split; [exact Hj|apply r2d_tfree_refl].
  - intros b ab k l Hb Hk. rewrite EA4 in Hb. destruct (Nat.eqb_spec aid b) as [<-|Hnb].
    + injection Hb as <-. destruct (TGsub k l Hk) as (l0 & Hl0 & _). exists a, l0. split; assumption.
    + exists ab, l. split; assumption.
Qed.

(** ** One table, then all tables *)

Lemma r2d_a1_eq : forall (s : W) idx t c any, nth_error (w_tables s) idx = Some t ->
  (if tbl_can_shrink t c then modT idx (fun t => tbl_adjust t (tbl_shrink_target t c)) ;;; ret true else ret any) s =
  Ok (tbl_can_shrink t c || any)%bool (s <| w_tables := upd idx (r_step c t) (w_tables s) |>).
Proof.
  intros s idx t c any Ht. unfold r_step. destruct (tbl_can_shrink t c) eqn:E.
  - unfold bind, modT, modify, ret. cbn [orb]. f_equal.
    exact (r_modT_state s idx (fun t => tbl_adjust t (tbl_shrink_target t c)) t Ht).
  - cbn [orb]. unfold ret. rewrite (r_upd_same _ _ _ _ Ht), r_set_tables_id. reflexivity.
Qed.

Lemma r2d_any1_spec : forall idx any t s, St2 s -> nth_error (w_tables s) idx = Some t ->
  exists b s', r_any1 idx any t s s = Ok b s' /\ St2 s' /\ r2d_shr s s' /\
    (forall j, j <> idx -> nth_error (w_tables s') j = nth_error (w_tables s) j) /\
    (exists t', nth_error (w_tables s') idx = Some t' /\ (t_rels t' <> [] -> t_len t' = 0 -> t_free t' = true)).
Proof.
  intros idx any t s HS Ht. destruct (tbl_has_rels t) eqn:Hr.
  2:{ rewrite (r_any1_eq idx any t s Ht Hr).
      destruct (r2d_adjust_step s idx t (cf_cap (w_cfg s)) HS Ht) as (P1 & P2 & P3 & P4).
      eexists _, _. split; [reflexivity|]. split; [exact P1|]. split; [exact P2|]. split; [exact P3|].
      exists (r_step (cf_cap (w_cfg s)) t). split; [exact P4|]. intros Hne. exfalso. apply Hne.
      assert (E : t_rels (r_step (cf_cap (w_cfg s)) t) = t_rels t) by (unfold r_step; destruct (tbl_can_shrink t (cf_cap (w_cfg s))); reflexivity).
      rewrite E. unfold tbl_has_rels in Hr. destruct (t_rels t); [reflexivity|discriminate]. }
  unfold r_any1. rewrite Hr. cbn [negb].
  set (c := cf_caprel (w_cfg s)).
  rewrite (sa_bind_ok (r2d_a1_eq s idx t c any Ht)).
  destruct (r2d_adjust_step s idx t c HS Ht) as (P1 & P2 & P3 & P4).
  set (s1 := s <| w_tables := upd idx (r_step c t) (w_tables s) |>) in *. set (t1 := r_step c t) in *.
  rewrite (sa_bind_ok (sa_getT_eq _ _ _ P4)).
  destruct (negb (t_free t1) && Nat.eqb (t_len t1) 0)%bool eqn:Ew.
  - apply andb_true_iff in Ew. destruct Ew as (Ef & El). apply negb_true_iff in Ef. apply Nat.eqb_eq in El.
    assert (Hrels : t_rels t1 <> []).
    { assert (E : t_rels t1 = t_rels t) by (unfold t1, r_step; destruct (tbl_can_shrink t c); reflexivity).
      rewrite E. unfold tbl_has_rels in Hr. destruct (t_rels t); [discriminate|discriminate]. }
    destruct (r2d_free_step s1 idx t1 P1 P4 Ef El Hrels) as (s4 & E4 & Q1 & Q2 & Q3).
    exists true, s4. split; [rewrite (E4 _ (ret true)); reflexivity|]. split; [exact Q1|].
    split; [apply (r2d_shr_trans _ _ _ P2 Q2)|]. split.
    + intros j Hne. rewrite Q3, (r2_upd_other _ _ _ _ _ Hne). apply (P3 j Hne).
    + exists (t1 <| t_free := true |>). split; [rewrite Q3; apply (r2_upd_same _ _ _ _ _ P4)|]. intros _ _. reflexivity.
  - exists (tbl_can_shrink t c || any)%bool, s1. split; [reflexivity|]. split; [exact P1|]. split; [exact P2|]. split; [exact P3|].
    exists t1. split; [exact P4|]. intros _ Hl. rewrite Hl in Ew. cbn [Nat.eqb] in Ew. rewrite andb_true_r in Ew.
    apply negb_false_iff in Ew. exact Ew.
Qed.

(** The loop under an arbitrary clock ([clock idx] = "the budget has expired when table [idx] has just been
    processed"): it processes the tables [idx..last]; [last] is the final table, or a table after which the
    clock had expired while some table had had work. *)
Lemma r2d_go_spec_clock : forall clock f idx any s, St2 s -> idx + S f = length (w_tables s) ->
  exists last any' s', r_go_clock clock (S f) idx any s = Ok (last, any') s' /\ St2 s' /\ r2d_shr s s' /\
    idx <= last < length (w_tables s) /\
    (S last = length (w_tables s) \/ (any' = true /\ clock last = true)) /\
    (forall j, j < idx -> nth_error (w_tables s') j = nth_error (w_tables s) j) /\
    (forall j t', idx <= j <= last -> nth_error (w_tables s') j = Some t' -> t_rels t' <> [] -> t_len t' = 0 -> t_free t' = true).
Proof.
  intros clock f. induction f as [|f IH]; intros idx any s HS Hlen.
  - destruct (nth_error (w_tables s) idx) as [t|] eqn:Ht; [|apply nth_error_None in Ht; lia].
    cbn [r_go_clock]. rewrite (sa_bind_ok (sa_getT_eq _ _ _ Ht)).
    unfold bind at 1, get at 1. cbv beta iota.
    destruct (r2d_any1_spec idx any t s HS Ht) as (b & s1 & E1 & P1 & P2 & P3 & (t' & P4 & P5)).
    rewrite (sa_bind_ok E1).
    exists idx, b, s1. split; [destruct (b && clock idx)%bool; reflexivity|]. split; [exact P1|]. split; [exact P2|].
    split; [lia|]. split; [left; lia|]. split.
    + intros j Hj. apply P3. lia.
    + intros j tj Hj Ej. assert (j = idx) by lia. subst j. rewrite P4 in Ej. injection Ej as <-. exact P5.
  - destruct (nth_error (w_tables s) idx) as [t|] eqn:Ht; [|apply nth_error_None in Ht; lia].
    change (r_go_clock clock (S (S f)) idx any) with
      (t <- getT idx ;; s <- get ;; any1 <- r_any1 idx any t s ;;
       if (any1 && clock idx)%bool then ret (idx, any1) else r_go_clock clock (S f) (S idx) any1).
    rewrite (sa_bind_ok (sa_getT_eq _ _ _ Ht)).
    unfold bind at 1, get at 1. cbv beta iota.
    destruct (r2d_any1_spec idx any t s HS Ht) as (b & s1 & E1 & P1 & P2 & P3 & (t' & P4 & P5)).
    rewrite (sa_bind_ok E1).
    assert (L1 : length (w_tables s1) = length (w_tables s)) by apply P2.
    destruct (b && clock idx)%bool eqn:Hstop.
    + exists idx, b, s1. split; [reflexivity|]. split; [exact P1|]. split; [exact P2|]. split; [lia|].
      split; [right; apply andb_true_iff in Hstop; exact Hstop|]. split.
      * intros j Hj. apply P3. lia.
      * intros j tj Hj Ej. assert (j = idx) by lia. subst j. rewrite P4 in Ej. injection Ej as <-. exact P5.
    + destruct (IH (S idx) b s1 P1) as (last & any' & s' & E & Q1 & Q2 & Q3 & Q4 & Q5 & Q6); [lia|].
      exists last, any', s'. split; [exact E|]. split; [exact Q1|]. split; [apply (r2d_shr_trans _ _ _ P2 Q2)|].
      split; [lia|]. split; [destruct Q4 as [Hend|Hc]; [left; rewrite <- L1; exact Hend|right; exact Hc]|]. split.
      * intros j Hj. rewrite Q5 by lia. apply P3. lia.
      * intros j tj Hj Ej. destruct (Nat.eq_dec j idx) as [->|Hne].
        -- rewrite Q5, P4 in Ej by lia. injection Ej as <-. exact P5.
        -- apply (Q6 j tj); [lia|exact Ej].
Qed.

(** The two extreme budgets, as an instance. *)
Lemma r2d_go_spec : forall stop0 f idx any s, St2 s -> idx + S f = length (w_tables s) ->
  exists last any' s', r_go stop0 (S f) idx any s = Ok (last, any') s' /\ St2 s' /\ r2d_shr s s' /\
    idx <= last < length (w_tables s) /\ (stop0 = false -> S last = length (w_tables s)) /\
    (forall j, j < idx -> nth_error (w_tables s') j = nth_error (w_tables s) j) /\
    (forall j t', idx <= j <= last -> nth_error (w_tables s') j = Some t' -> t_rels t' <> [] -> t_len t' = 0 -> t_free t' = true).
Proof.
  intros stop0 f idx any s HS Hlen.
  destruct (r2d_go_spec_clock (fun _ => stop0) f idx any s HS Hlen) as (last & any' & s' & E & Q1 & Q2 & Q3 & Q4 & Q5 & Q6).
  exists last, any', s'. split; [exact E|]. split; [exact Q1|]. split; [exact Q2|]. split; [exact Q3|].
  split; [|split; [exact Q5|exact Q6]].
  intros Hs. destruct Q4 as [Hend|(_ & Hc)]; [exact Hend|congruence].
Qed.

(** D_shrink_spec_clock. Shrink under EVERY clock (hence every time budget) never fails, keeps [St2] (and the
    additional clause [r2d_KeysLive]), changes no entity's [live]/[val]/[tgt], neither pool, index, flags, lock,
    observers, filters nor queries; a table keeps archetype, layout, length, relation label; the only tables whose
    free flag changes are empty, active relation tables, which become free (and, [St2] holding afterwards, are
    gone from lookups and cache); the walk processes the tables [0..last], where [last] is the final table or one
    after which the clock had expired, and EVERY empty relation table among them is free afterwards. *)
Theorem D_shrink_spec_clock : forall s clock, St2 s ->
  exists b s' last, w_shrink_clock clock s = Ok b s' /\ St2 s' /\ content_same s s' /\ r2d_tgt_same s s' /\
    w_pool s' = w_pool s /\ w_index s' = w_index s /\ w_istarget s' = w_istarget s /\ side_same s s' /\ frame_user s s' /\
    length (w_tables s') = length (w_tables s) /\
    (forall j t, nth_error (w_tables s) j = Some t -> exists t', nth_error (w_tables s') j = Some t' /\ r2d_tfree t t') /\
    last < length (w_tables s) /\ (S last = length (w_tables s) \/ clock last = true) /\
    (forall j t', j <= last -> nth_error (w_tables s') j = Some t' -> t_rels t' <> [] -> t_len t' = 0 -> t_free t' = true) /\
    (r2d_KeysLive s -> r2d_KeysLive s').
Proof.
  intros s clock HS. pose proof HS as (H & _).
  destruct (wf_arch0 _ H) as (_ & _ & _ & t0 & Et0 & _).
  assert (HL : exists f, length (w_tables s) = S f).
  { destruct (w_tables s) as [|x l]; [discriminate Et0|]. exists (length l). reflexivity. }
  destruct HL as (f & HL).
  destruct (r2d_go_spec_clock clock f 0 false s HS) as (last & any' & s' & E & Q1 & Q2 & Q3 & Q4 & Q5 & Q6); [rewrite HL; reflexivity|].
  rewrite <- HL in E.
  eexists _, s', last. split; [rewrite r_shrink_eq_clock, E; reflexivity|]. split; [exact Q1|].
  pose proof Q2 as (A1 & A2 & A3 & A4 & A5 & A6 & A7 & A8 & A9 & A10 & A11 & A12).
  split; [exact A1|]. split; [exact A2|]. split; [exact A3|]. split; [exact A4|]. split; [exact A5|].
  split; [exact A7|]. split; [exact A8|]. split; [exact A9|]. split; [exact A11|].
  split; [lia|]. split; [destruct Q4 as [Hend|(_ & Hc)]; [left; exact Hend|right; exact Hc]|]. split.
  - intros j t' Hj Ej. apply (Q6 j t'); [lia|exact Ej].
  - intros HK aid a' k l' Ha Hk. destruct (A12 aid a' k l' Ha Hk) as (a & l & Ha0 & Hk0).
    destruct (HK aid a k l Ha0 Hk0) as [H0|(g & Hg)]; [left; exact H0|right]. exists g. rewrite (proj1 (A1 (k, g))). exact Hg.
Qed.

(** D_shrink_spec (zero or unlimited time budget): the instance at the constant clocks; with an unlimited
    budget EVERY empty relation table is free afterwards. *)
Theorem D_shrink_spec : forall s stop0, St2 s ->
  exists b s', w_shrink_core stop0 s = Ok b s' /\ St2 s' /\ content_same s s' /\ r2d_tgt_same s s' /\
    w_pool s' = w_pool s /\ w_index s' = w_index s /\ w_istarget s' = w_istarget s /\ side_same s s' /\ frame_user s s' /\
    length (w_tables s') = length (w_tables s) /\
    (forall j t, nth_error (w_tables s) j = Some t -> exists t', nth_error (w_tables s') j = Some t' /\ r2d_tfree t t') /\
    (stop0 = false -> forall j t', nth_error (w_tables s') j = Some t' -> t_rels t' <> [] -> t_len t' = 0 -> t_free t' = true) /\
    (r2d_KeysLive s -> r2d_KeysLive s').
Proof.
  intros s stop0 HS.
  destruct (D_shrink_spec_clock s (fun _ => stop0) HS) as (b & s' & last & E & B1 & B2 & B3 & B4 & B5 & B6 & B7 & B8 & B9 & B10 & B11 & B12 & B13 & B14).
  exists b, s'. split; [exact E|]. repeat (split; [assumption|]). split; [|exact B14].
  intros Hs j t' Ej. apply (B13 j t'); [|exact Ej].
  destruct B12 as [Hend|Hc]; [|congruence].
  assert (j < length (w_tables s')) by (eapply sa_nth_error_lt; exact Ej). lia.
Qed.

(** The exported operation: rejected without effect on a locked world, [D_shrink_spec] otherwise. *)
Theorem D_shrink_spec_w : forall s stop0, St2 s -> is_locked s = false ->
  exists b s', w_shrink stop0 s = Ok b s' /\ St2 s' /\ content_same s s' /\ r2d_tgt_same s s' /\
    w_pool s' = w_pool s /\ w_index s' = w_index s /\ w_istarget s' = w_istarget s /\ side_same s s' /\ frame_user s s' /\
    length (w_tables s') = length (w_tables s) /\
    (forall j t, nth_error (w_tables s) j = Some t -> exists t', nth_error (w_tables s') j = Some t' /\ r2d_tfree t t') /\
    (stop0 = false -> forall j t', nth_error (w_tables s') j = Some t' -> t_rels t' <> [] -> t_len t' = 0 -> t_free t' = true) /\
    (r2d_KeysLive s -> r2d_KeysLive s').
Proof. intros s stop0 HS Hl. rewrite (shrink_unlocked_eq s stop0 Hl). apply D_shrink_spec. exact HS. Qed.

Theorem D_shrink_spec_clock_w : forall s clock, St2 s -> is_locked s = false ->
  exists b s' last, w_shrink_timed clock s = Ok b s' /\ St2 s' /\ content_same s s' /\ r2d_tgt_same s s' /\
    w_pool s' = w_pool s /\ w_index s' = w_index s /\ w_istarget s' = w_istarget s /\ side_same s s' /\ frame_user s s' /\
    length (w_tables s') = length (w_tables s) /\
    (forall j t, nth_error (w_tables s) j = Some t -> exists t', nth_error (w_tables s') j = Some t' /\ r2d_tfree t t') /\
    last < length (w_tables s) /\ (S last = length (w_tables s) \/ clock last = true) /\
    (forall j t', j <= last -> nth_error (w_tables s') j = Some t' -> t_rels t' <> [] -> t_len t' = 0 -> t_free t' = true) /\
    (r2d_KeysLive s -> r2d_KeysLive s').
Proof. intros s clock HS Hl. rewrite (shrink_unlocked_eq_clock s clock Hl). apply D_shrink_spec_clock. exact HS. Qed.

Definition r2d_D1_all := (D_remove_from_targets, r2d_free_step, r2d_any1_spec, r2d_go_spec, D_shrink_spec, D_shrink_spec_w, shrink_locked_rejected,
  r2d_go_spec_clock, D_shrink_spec_clock, D_shrink_spec_clock_w, shrink_locked_rejected_clock).

(* ================================================================================================ *)
(** * Package D2: Reset *)

(** ** The archetype loop of Reset in relation worlds *)

Definition r2d_arch_rst (a : arch) : arch :=
  if Nat.eqb (a_numrel a) 0 then a
  else a <| a_free ::= fun l => l ++ a_tables a |> <| a_tables := [] |> <| a_reltabs ::= map (fun _ => []) |> <| a_tgttabs := [] |>.

(** the tables an archetype's Reset touches, and what it does to them *)
Definition r2d_hits (a : arch) : list nat := if Nat.eqb (a_numrel a) 0 then firstn 1 (a_tables a) else a_tables a.
Definition r2d_tab_step (a : arch) (t : table) : table :=
  if Nat.eqb (a_numrel a) 0 then tbl_reset t else (tbl_reset t) <| t_free := true |>.

Lemma r2d_modT_loop : forall f l (s : W),
  forM_ l (fun tid => modT tid f) s = Ok tt (s <| w_tables := fold_left (fun T tid => updf tid f T) l (w_tables s) |>).
Proof.
  intros f l. induction l as [|x l IH]; intros s.
  - cbn [forM_ fold_left]. unfold ret. rewrite r_set_tables_id. reflexivity.
  - cbn [forM_ fold_left]. unfold bind at 1, modT at 1, modify at 1. rewrite IH. reflexivity.
Qed.

Lemma r2d_fold_updf_nth : forall (f : table -> table) l T j, NoDup l ->
  nth_error (fold_left (fun T tid => updf tid f T) l T) j = if memb j l then option_map f (nth_error T j) else nth_error T j.
Proof.
  intros f l. induction l as [|x l IH]; intros T j ND; [reflexivity|].
  inversion ND as [|? ? Hnin ND']; subst. cbn [fold_left]. rewrite (IH _ j ND'), sa_memb_cons, TableProofs.nth_error_updf.
  destruct (Nat.eqb_spec x j) as [<-|Hne]; cbn [orb].
  - assert (Hm : memb x l = false) by (destruct (memb x l) eqn:E; [apply sa_memb_in in E; contradiction|reflexivity]).
    rewrite Hm. reflexivity.
  - reflexivity.
Qed.

Lemma r2d_memb_rev : forall j l, memb j (rev l) = memb j l.
Proof.
  intros j l. destruct (memb j l) eqn:E.
  - apply sa_memb_in. apply in_rev. rewrite rev_involutive. apply sa_memb_in. exact E.
  - destruct (memb j (rev l)) eqn:E2; [|reflexivity]. apply sa_memb_in in E2. apply in_rev in E2. apply sa_memb_in in E2. congruence.
Qed.

Lemma r2d_set_tables_archs_id : forall (s : W) T, s <| w_tables := T |> <| w_archs := w_archs s |> = s <| w_tables := T |>.
Proof. intros s T. destruct s. reflexivity. Qed.

(** Reset of one archetype *)
Lemma r2d_arch_reset_step : forall s aid a, nth_error (w_archs s) aid = Some a -> NoDup (a_tables a) ->
  (a_numrel a = 0 -> a_tables a <> []) ->
  exists T1 A1, arch_reset aid s = Ok tt (s <| w_tables := T1 |> <| w_archs := A1 |>) /\
    length T1 = length (w_tables s) /\ length A1 = length (w_archs s) /\
    (forall j, nth_error T1 j = if memb j (r2d_hits a) then option_map (r2d_tab_step a) (nth_error (w_tables s) j)
                               else nth_error (w_tables s) j) /\
    (forall b, nth_error A1 b = if Nat.eqb aid b then Some (r2d_arch_rst a) else nth_error (w_archs s) b).
Proof.
  intros s aid a Ha ND HA. unfold arch_reset. rewrite (sa_bind_ok (sa_getA_eq _ _ _ Ha)).
  unfold arch_has_rels, r2d_hits, r2d_tab_step, r2d_arch_rst. destruct (Nat.eqb_spec (a_numrel a) 0) as [Hn|Hn]; cbn [negb].
  - destruct (a_tables a) as [|t0 rest] eqn:Et; [exfalso; apply (HA Hn); reflexivity|].
    exists (updf t0 tbl_reset (w_tables s)), (w_archs s). split.
    { unfold modT, modify. rewrite r2d_set_tables_archs_id. reflexivity. }
    split; [apply updf_length|]. split; [reflexivity|]. split.
    + intros j. rewrite TableProofs.nth_error_updf. cbn [firstn]. rewrite sa_memb_cons. cbn [memb index_of]. rewrite orb_false_r. reflexivity.
    + intros b. destruct (Nat.eqb_spec aid b) as [<-|]; [exact Ha|reflexivity].
  - rewrite (sa_bind_ok (r2d_modT_loop tbl_reset (rev (a_tables a)) s)).
    rewrite (sa_bind_ok (r2d_modT_loop (fun t => t <| t_free := true |>) (a_tables a) _)).
    cbn [w_tables].
    match goal with |- context [fold_left ?g (a_tables a) ?T0] => set (T1 := fold_left g (a_tables a) T0) end.
    exists T1, (updf aid (fun a => a <| a_free ::= fun l => l ++ a_tables a |> <| a_tables := [] |> <| a_reltabs ::= map (fun _ => []) |> <| a_tgttabs := [] |>) (w_archs s)).
    split; [reflexivity|].
    assert (HT1 : forall j, nth_error T1 j = if memb j (a_tables a) then option_map (fun t => (tbl_reset t) <| t_free := true |>) (nth_error (w_tables s) j)
                                          else nth_error (w_tables s) j).
    { intros j. unfold T1. rewrite (r2d_fold_updf_nth _ _ _ j ND).
      change (w_tables (s <| w_tables := fold_left (fun T tid => updf tid tbl_reset T) (rev (a_tables a)) (w_tables s) |>))
        with (fold_left (fun T tid => updf tid tbl_reset T) (rev (a_tables a)) (w_tables s)).
      rewrite (r2d_fold_updf_nth _ _ _ j (NoDup_rev ND)), r2d_memb_rev.
      destruct (memb j (a_tables a)); [|reflexivity]. destruct (nth_error (w_tables s) j); reflexivity. }
    split.
    { unfold T1. clear HT1 T1. 
      assert (FL : forall (f : table -> table) l T, length (fold_left (fun T tid => updf tid f T) l T) = length T).
      { intros f l. induction l as [|x l IH]; intros T; [reflexivity|]. cbn [fold_left]. rewrite IH. apply updf_length. }
      rewrite FL. cbn [w_tables]. apply FL. }
    split; [apply updf_length|]. split; [exact HT1|].
    intros b. rewrite TableProofs.nth_error_updf. destruct (Nat.eqb_spec aid b) as [<-|]; [rewrite Ha|]; reflexivity.
Qed.

Lemma r2d_set_tables_archs_id2 : forall s : W, s <| w_tables := w_tables s |> <| w_archs := w_archs s |> = s.
Proof. intros s. destruct s. reflexivity. Qed.

(** Reset of all archetypes of a duplicate-free list, if no table is hit by two of them *)
Lemma r2d_arch_loop : forall L s, NoDup L ->
  (forall aid, In aid L -> exists a, nth_error (w_archs s) aid = Some a /\ NoDup (a_tables a) /\ (a_numrel a = 0 -> a_tables a <> [])) ->
  (forall aid1 aid2 a1 a2 j, In aid1 L -> In aid2 L -> nth_error (w_archs s) aid1 = Some a1 -> nth_error (w_archs s) aid2 = Some a2 ->
     memb j (r2d_hits a1) = true -> memb j (r2d_hits a2) = true -> aid1 = aid2) ->
  exists T' A', forM_ L arch_reset s = Ok tt (s <| w_tables := T' |> <| w_archs := A' |>) /\
    length T' = length (w_tables s) /\ length A' = length (w_archs s) /\
    (forall b, nth_error A' b = if memb b L then option_map r2d_arch_rst (nth_error (w_archs s) b) else nth_error (w_archs s) b) /\
    (forall j, (forall aid a, In aid L -> nth_error (w_archs s) aid = Some a -> memb j (r2d_hits a) = false) ->
       nth_error T' j = nth_error (w_tables s) j) /\
    (forall j aid a, In aid L -> nth_error (w_archs s) aid = Some a -> memb j (r2d_hits a) = true ->
       nth_error T' j = option_map (r2d_tab_step a) (nth_error (w_tables s) j)).
Proof.
  induction L as [|x L IH]; intros s ND HL HD.
  - exists (w_tables s), (w_archs s). split; [cbn [forM_]; unfold ret; rewrite r2d_set_tables_archs_id2; reflexivity|].
    split; [reflexivity|]. split; [reflexivity|]. split; [intros b; reflexivity|]. split; [intros j _; reflexivity|].
    intros j aid a [].
  - inversion ND as [|? ? Hnin ND']; subst.
    destruct (HL x (or_introl eq_refl)) as (ax & Hax & NDx & HAx).
    destruct (r2d_arch_reset_step s x ax Hax NDx HAx) as (T1 & A1 & E1 & LT1 & LA1 & PT1 & PA1).
    set (s1 := s <| w_tables := T1 |> <| w_archs := A1 |>) in *.
    assert (Same : forall aid, In aid L -> nth_error (w_archs s1) aid = nth_error (w_archs s) aid).
    { intros aid Hin. change (w_archs s1) with A1. rewrite PA1. destruct (Nat.eqb_spec x aid) as [<-|]; [contradiction|reflexivity]. }
    destruct (IH s1 ND') as (T' & A' & E2 & LT' & LA' & PA' & PN' & PH').
    { intros aid Hin. rewrite (Same aid Hin). apply HL. right. exact Hin. }
    { intros aid1 aid2 a1 a2 j H1 H2 Ha1 Ha2. rewrite (Same aid1 H1) in Ha1. rewrite (Same aid2 H2) in Ha2.
      apply (HD aid1 aid2 a1 a2 j); [right; exact H1|right; exact H2|exact Ha1|exact Ha2]. }
    change (w_tables s1) with T1 in *. change (w_archs s1) with A1 in *.
    exists T', A'. split; [cbn [forM_]; rewrite (sa_bind_ok E1); exact E2|].
    split; [congruence|]. split; [congruence|]. split; [|split].
    + intros b. rewrite PA', PA1, sa_memb_cons. destruct (Nat.eqb_spec x b) as [<-|Hne]; cbn [orb].
      * assert (Hm : memb x L = false) by (destruct (memb x L) eqn:E; [apply sa_memb_in in E; contradiction|reflexivity]).
        rewrite Hm, Hax. reflexivity.
      * reflexivity.
    + intros j Hno. rewrite PN'.
      * rewrite PT1, (Hno x ax (or_introl eq_refl) Hax). reflexivity.
      * intros aid a Hin Ha. rewrite (Same aid Hin) in Ha. apply (Hno aid a (or_intror Hin) Ha).
    + intros j aid a [<-|Hin] Ha Hm.
      * rewrite Hax in Ha. injection Ha as <-. rewrite PN'.
        -- rewrite PT1, Hm. reflexivity.
        -- intros aid' a' Hin' Ha'. rewrite (Same aid' Hin') in Ha'. destruct (memb j (r2d_hits a')) eqn:Em; [|reflexivity].
           exfalso. apply Hnin. rewrite (HD x aid' ax a' j (or_introl eq_refl) (or_intror Hin') Hax Ha' Hm Em). exact Hin'.
      * pose proof Ha as Ha1. rewrite <- (Same aid Hin) in Ha1. rewrite (PH' j aid a Hin Ha1 Hm), PT1.
        destruct (memb j (r2d_hits ax)) eqn:Em; [|reflexivity].
        exfalso. apply Hnin. rewrite (HD x aid ax a j (or_introl eq_refl) (or_intror Hin) Hax Ha Em Hm). exact Hin.
Qed.

Lemma r2d_arch_rst_fields : forall a,
  a_mask (r2d_arch_rst a) = a_mask a /\ a_comps (r2d_arch_rst a) = a_comps a /\ a_isrel (r2d_arch_rst a) = a_isrel a /\
  a_numrel (r2d_arch_rst a) = a_numrel a /\ length (a_reltabs (r2d_arch_rst a)) = length (a_reltabs a) /\
  (a_numrel a = 0 -> r2d_arch_rst a = a) /\
  (a_numrel a <> 0 -> a_tables (r2d_arch_rst a) = [] /\ a_free (r2d_arch_rst a) = a_free a ++ a_tables a /\
                      a_tgttabs (r2d_arch_rst a) = [] /\ a_reltabs (r2d_arch_rst a) = map (fun _ => []) (a_reltabs a)).
Proof.
  intros a. unfold r2d_arch_rst. destruct (Nat.eqb_spec (a_numrel a) 0) as [E|E].
  - do 5 (split; [reflexivity|]). split; [intros _; reflexivity|intros Hc; contradiction].
  - cbn. rewrite map_length. do 5 (split; [reflexivity|]). split; [intros Hc; contradiction|].
    intros _. split; [reflexivity|]. split; [reflexivity|]. split; reflexivity.
Qed.

Lemma r2d_in_firstn1 : forall (x : nat) l, In x (firstn 1 l) -> In x l.
Proof. intros x [|y l] H; [destruct H|]. cbn in H. destruct H as [<-|[]]. left. reflexivity. Qed.

Lemma r2d_hits_tables : forall a j, memb j (r2d_hits a) = true -> In j (a_tables a).
Proof.
  intros a j H. apply sa_memb_in in H. unfold r2d_hits in H. destruct (Nat.eqb (a_numrel a) 0); [apply r2d_in_firstn1|]; exact H.
Qed.

(** every table after the archetype loop: empty, well formed, same label; free iff it was free or belongs
    to an archetype with relation components *)
Lemma r2d_reset_tables : forall s T', St2 s ->
  (forall aid a, nth_error (w_archs s) aid = Some a -> a_numrel a = 0 -> a_tables a <> []) ->
  length T' = length (w_tables s) ->
  (forall j, (forall aid a, In aid (seq 0 (length (w_archs s))) -> nth_error (w_archs s) aid = Some a -> memb j (r2d_hits a) = false) ->
     nth_error T' j = nth_error (w_tables s) j) ->
  (forall j aid a, In aid (seq 0 (length (w_archs s))) -> nth_error (w_archs s) aid = Some a -> memb j (r2d_hits a) = true ->
     nth_error T' j = option_map (r2d_tab_step a) (nth_error (w_tables s) j)) ->
  forall tid t, nth_error (w_tables s) tid = Some t ->
    exists t' a, nth_error T' tid = Some t' /\ nth_error (w_archs s) (t_arch t) = Some a /\
      t_len t' = 0 /\ tbl_ok t' /\ t_arch t' = t_arch t /\ t_ids t' = t_ids t /\ t_kinds t' = t_kinds t /\
      t_targets t' = t_targets t /\ t_rels t' = t_rels t /\
      t_free t' = (t_free t || negb (Nat.eqb (a_numrel a) 0))%bool.
Proof.
  intros s T' HS HA HL PN PH tid t Ht. pose proof HS as (HW & (HR & _) & _).
  destruct (wf_layout _ HW tid t Ht) as (a & Ha & _).
  assert (Okt : tbl_ok t) by (apply (proj1 (Forall_nth_error _ _ _) (wf_tables _ HW) _ _ Ht)).
  assert (Hin : In (t_arch t) (seq 0 (length (w_archs s)))).
  { apply in_seq. pose proof (sa_nth_error_lt _ _ _ _ Ha). lia. }
  destruct (t_free t) eqn:Hf.
  - exists t, a. split.
    { rewrite PN; [exact Ht|]. intros aid' a' _ Ha'. destruct (memb tid (r2d_hits a')) eqn:Em; [|reflexivity].
      pose proof (ri_active _ _ HR aid' a' tid t Ha' (r2d_hits_tables a' tid Em) Ht). congruence. }
    split; [exact Ha|]. split; [apply (r2c_free_len0 _ s tid t HR Ht Hf)|]. split; [exact Okt|].
    do 5 (split; [reflexivity|]). rewrite Hf. reflexivity.
  - destruct (ri_listed _ _ HR tid t Ht) as (a1 & Ha1 & Hl). rewrite Ha in Ha1. injection Ha1 as <-. rewrite Hf in Hl.
    assert (Hm : memb tid (r2d_hits a) = true).
    { apply sa_memb_in. unfold r2d_hits. destruct (Nat.eqb_spec (a_numrel a) 0) as [Hn|Hn]; [|exact Hl].
      pose proof (wf_arch_norel_table _ HW _ a Ha Hn) as Hle.
      destruct (a_tables a) as [|x [|y l]]; [destruct Hl| |cbn in Hle; lia]. exact Hl. }
    exists (r2d_tab_step a t), a. split; [rewrite (PH tid (t_arch t) a Hin Ha Hm), Ht; reflexivity|].
    split; [exact Ha|]. unfold r2d_tab_step. destruct (Nat.eqb (a_numrel a) 0).
    + split; [reflexivity|]. split; [apply tbl_reset_ok; exact Okt|]. do 5 (split; [reflexivity|]).
      change (t_free (tbl_reset t)) with (t_free t). rewrite Hf. reflexivity.
    + split; [reflexivity|]. split; [apply (r2_tbl_ok_same_data (tbl_reset t)); [apply r2_set_free_data|apply tbl_reset_ok; exact Okt]|].
      do 5 (split; [reflexivity|]). reflexivity.
Qed.

Lemma r2d_NoDup_app : forall A (a b : list A), NoDup a -> NoDup b -> (forall x, In x a -> In x b -> False) -> NoDup (a ++ b).
Proof.
  intros A a b Na Nb Hd. induction a as [|x a IH]; [exact Nb|]. inversion Na as [|? ? Hx Na']; subst. cbn. constructor.
  - intros Hin. apply in_app_iff in Hin. destruct Hin as [Hin|Hin]; [contradiction|]. apply (Hd x (or_introl eq_refl) Hin).
  - apply IH; [exact Na'|]. intros y Hy. apply Hd. right. exact Hy.
Qed.

(** ** The invariant after Reset *)

Lemma r2d_reset_St2 : forall s s', St2 s ->
  w_cfg s' = w_cfg s -> w_reg s' = w_reg s -> w_relarchs s' = w_relarchs s ->
  w_compindex s' = w_compindex s -> w_archcount s' = w_archcount s ->
  w_index s' = firstn 2 (w_index s) -> w_pool s' = pool_reset (w_pool s) ->
  w_istarget s' = firstn 2 (w_istarget s) -> w_centries s' = [] ->
  length (w_tables s') = length (w_tables s) ->
  (forall b, nth_error (w_archs s') b = option_map r2d_arch_rst (nth_error (w_archs s) b)) ->
  (forall tid t, nth_error (w_tables s) tid = Some t ->
    exists t' a, nth_error (w_tables s') tid = Some t' /\ nth_error (w_archs s) (t_arch t) = Some a /\
      t_len t' = 0 /\ tbl_ok t' /\ t_arch t' = t_arch t /\ t_ids t' = t_ids t /\ t_kinds t' = t_kinds t /\
      t_targets t' = t_targets t /\ t_rels t' = t_rels t /\
      t_free t' = (t_free t || negb (Nat.eqb (a_numrel a) 0))%bool) ->
  St2 s' /\ r2d_KeysLive s' /\
  (forall tid t', nth_error (w_tables s') tid = Some t' -> t_len t' = 0 /\ (t_rels t' <> [] -> t_free t' = true)) /\
  (forall aid a', nth_error (w_archs s') aid = Some a' ->
     a_tgttabs a' = [] /\ Forall (fun m : list (nat * list nat) => m = []) (a_reltabs a') /\ (0 < a_numrel a' -> a_tables a' = [])).
Proof.
  intros s s' HS Ecfg Ereg Erela Eci Eac Eidx Epool Eist Ece HLen AF FW.
  pose proof HS as (H & (HR & HT) & HC).
  assert (HKO : forall c, kind_of s' c = kind_of s c) by (apply sa_kind_of_ext; exact Ereg).
  assert (BW : forall tid t', nth_error (w_tables s') tid = Some t' ->
            exists t a, nth_error (w_tables s) tid = Some t /\ nth_error (w_archs s) (t_arch t) = Some a /\
              t_len t' = 0 /\ tbl_ok t' /\ t_arch t' = t_arch t /\ t_ids t' = t_ids t /\ t_kinds t' = t_kinds t /\
              t_targets t' = t_targets t /\ t_rels t' = t_rels t /\
              t_free t' = (t_free t || negb (Nat.eqb (a_numrel a) 0))%bool).
  { intros tid t' E'. assert (Hlt : tid < length (w_tables s)) by (rewrite <- HLen; eapply sa_nth_error_lt; exact E').
    destruct (nth_error (w_tables s) tid) as [t|] eqn:E; [|apply nth_error_None in E; lia].
    destruct (FW tid t E) as (t'' & a & E'' & Q). rewrite E' in E''. injection E'' as <-. exists t, a. split; [reflexivity|exact Q]. }
  assert (AB : forall b a', nth_error (w_archs s') b = Some a' -> exists a, nth_error (w_archs s) b = Some a /\ a' = r2d_arch_rst a).
  { intros b a' Hb. rewrite AF in Hb. destruct (nth_error (w_archs s) b) as [a|]; [|discriminate]. cbn in Hb. injection Hb as <-.
    exists a. split; reflexivity. }
  assert (AFw : forall b a, nth_error (w_archs s) b = Some a -> nth_error (w_archs s') b = Some (r2d_arch_rst a)).
  { intros b a Hb. rewrite AF, Hb. reflexivity. }
  (* listed in a reset archetype -> listed in the old one *)
  assert (Lst : forall a tid,
            (In tid (a_tables (r2d_arch_rst a)) \/ In tid (a_free (r2d_arch_rst a)) \/
             (exists i m k l, nth_error (a_reltabs (r2d_arch_rst a)) i = Some m /\ afind k m = Some l /\ In tid l) \/
             (exists k l, afind k (a_tgttabs (r2d_arch_rst a)) = Some l /\ In tid l)) ->
            (In tid (a_tables a) \/ In tid (a_free a) \/
             (exists i m k l, nth_error (a_reltabs a) i = Some m /\ afind k m = Some l /\ In tid l) \/
             (exists k l, afind k (a_tgttabs a) = Some l /\ In tid l))).
  { intros a tid Hl. destruct (r2d_arch_rst_fields a) as (_ & _ & _ & _ & _ & F0 & F1).
    destruct (Nat.eq_dec (a_numrel a) 0) as [Hn|Hn]; [rewrite (F0 Hn) in Hl; exact Hl|].
    destruct (F1 Hn) as (G1 & G2 & G3 & G4). rewrite G1, G2, G3, G4 in Hl.
    destruct Hl as [[]|[Hl|[Hl|Hl]]].
    - apply in_app_iff in Hl. destruct Hl as [Hl|Hl]; [right; left; exact Hl|left; exact Hl].
    - destruct Hl as (i & m & k & l & Hm & Hk & _). rewrite nth_error_map in Hm.
      destruct (nth_error (a_reltabs a) i); [|discriminate]. cbn in Hm. injection Hm as <-. discriminate.
    - destruct Hl as (k & l & Hk & _). discriminate. }
  (* a table that is not free afterwards belongs to an archetype without relation components and was not free *)
  assert (NF : forall tid t', nth_error (w_tables s') tid = Some t' -> t_free t' = false ->
            exists t a, nth_error (w_tables s) tid = Some t /\ nth_error (w_archs s) (t_arch t) = Some a /\
              a_numrel a = 0 /\ t_free t = false /\ t_arch t' = t_arch t /\ t_targets t' = t_targets t /\ t_rels t' = t_rels t /\
              r2d_arch_rst a = a).
  { intros tid t' E' Hf. destruct (BW tid t' E') as (t & a & E & Ha & _ & _ & M1 & _ & _ & M4 & M5 & M6).
    rewrite Hf in M6. symmetry in M6. apply orb_false_iff in M6. destruct M6 as (M6 & M7).
    apply negb_false_iff in M7. apply Nat.eqb_eq in M7.
    exists t, a. repeat split; try assumption. apply (r2d_arch_rst_fields a). exact M7. }
  destruct (wf_index_len _ H) as [IL1 IL2].
  destruct (wf_pool _ H) as (fl & (PL & _) & _).
  destruct (wf_reserved _ H) as ((r0 & I0) & (r1 & I1) & P0 & P1).
  assert (HW' : WF s').
  { constructor.
    + apply Forall_nth_error. intros i x E. destruct (BW _ _ E) as (t & a & _ & _ & _ & O & _). exact O.
    + intros tid t' E. destruct (BW _ _ E) as (t & a & Et & Ha & _ & _ & Fa & Fi & Fk & Ft & _).
      destruct (wf_layout _ H _ _ Et) as (a1 & Ea & L1 & L2 & L3). rewrite Ha in Ea. injection Ea as <-.
      destruct (r2d_arch_rst_fields a) as (_ & C2 & _).
      exists (r2d_arch_rst a). rewrite Fa, Fi, Fk, Ft, C2. split; [apply (AFw _ _ Ha)|]. split; [exact L1|]. split; [|exact L3].
      rewrite L2. apply map_ext. intros; symmetry; apply HKO.
    + intros aid a' Ea'. destruct (AB _ _ Ea') as (a & Ea & ->). destruct (r2d_arch_rst_fields a) as (C1 & C2 & C3 & C4 & C5 & _).
      destruct (wf_arch_comps _ H _ _ Ea) as (A1 & A2 & A3 & A4 & A5).
      rewrite C1, C2, C3, C4, C5, Ereg. split; [exact A1|]. split; [exact A2|]. split; [|split; [exact A4|exact A5]].
      rewrite A3. apply map_ext. intros; rewrite HKO; reflexivity.
    + intros i j a' b' Ha' Hb' Em. destruct (AB _ _ Ha') as (a & Ea & ->). destruct (AB _ _ Hb') as (b & Eb & ->).
      apply (wf_arch_unique _ H i j a b Ea Eb).
      destruct (r2d_arch_rst_fields a) as (C1 & _). destruct (r2d_arch_rst_fields b) as (D1 & _). congruence.
    + intros aid a' tid Ea' Hin. destruct (AB _ _ Ea') as (a & Ea & ->).
      destruct (wf_arch_tables _ H _ _ _ Ea (Lst a tid Hin)) as (t & Et & Fa).
      destruct (FW _ _ Et) as (t' & a1 & Et' & _ & _ & _ & Fa' & _). exists t'. split; [exact Et'|congruence].
    + intros aid a' Ea' Hn. destruct (AB _ _ Ea') as (a & Ea & ->). destruct (r2d_arch_rst_fields a) as (_ & _ & _ & C4 & _ & F0 & _).
      rewrite C4 in Hn. rewrite (F0 Hn). apply (wf_arch_norel_table _ H _ _ Ea Hn).
    + destruct (wf_arch0 _ H) as (a0 & Ea0 & M0 & t0 & Et0 & Fa0). exists (r2d_arch_rst a0).
      split; [apply (AFw _ _ Ea0)|]. split; [rewrite (proj1 (r2d_arch_rst_fields a0)); exact M0|].
      destruct (FW _ _ Et0) as (t' & a1 & Et' & _ & _ & _ & Fa' & _). exists t'. split; [exact Et'|congruence].
    + rewrite Eci, Eac, Ereg, Ecfg. apply (wf_index_lists _ H).
    + rewrite Eidx, Epool, Eist. unfold pool_reset, reserved. cbn [pe]. rewrite !firstn_length. lia.
    + intros tid t r E Hr. destruct (BW _ _ E) as (t0 & a & _ & _ & L0 & _). lia.
    + intros id tid r E. rewrite Eidx in E.
      assert (Hid : id < 2).
      { assert (Hlt : id < length (firstn 2 (w_index s))) by (apply nth_error_Some; congruence).
        rewrite firstn_length in Hlt. lia. }
      rewrite r_nth_error_firstn in E by exact Hid.
      destruct id as [|[|id]]; [rewrite I0 in E; discriminate|rewrite I1 in E; discriminate|lia].
    + exists []. rewrite Epool. unfold pool_ok, pool_reset, reserved. cbn [pe pnext pavail].
      split; [|split; [intros i []|]].
      * split; [rewrite firstn_length; lia|]. split; [reflexivity|]. split; [constructor|].
        split; [intros i []|exact I].
      * intros i Hi. rewrite firstn_length in Hi. lia.
    + rewrite Eidx, Epool. unfold pool_reset, reserved. cbn [pe].
      rewrite !r_nth_error_firstn by lia. repeat split; eauto.
    + rewrite Epool. unfold pool_reset, reserved. cbn [pe]. rewrite firstn_length.
      pose proof sa_small_2. lia.
    + rewrite Ece. intros addr []. }
  (* lookups are empty *)
  assert (Empty : forall aid a', nth_error (w_archs s') aid = Some a' ->
            a_tgttabs a' = [] /\ Forall (fun m : list (nat * list nat) => m = []) (a_reltabs a') /\ (0 < a_numrel a' -> a_tables a' = [])).
  { intros aid a' Ea'. destruct (AB _ _ Ea') as (a & Ea & ->). destruct (r2d_arch_rst_fields a) as (_ & _ & _ & C4 & _ & F0 & F1).
    destruct (Nat.eq_dec (a_numrel a) 0) as [Hn|Hn].
    - rewrite (F0 Hn). destruct (ri_norel _ _ HR _ _ Ea Hn) as (_ & G1 & G2). split; [exact G1|]. split; [exact G2|]. lia.
    - destruct (F1 Hn) as (G1 & G2 & G3 & G4). split; [exact G3|]. split; [|intros _; exact G1].
      rewrite G4. apply Forall_forall. intros m Hm. apply in_map_iff in Hm. destruct Hm as (x & <- & _). reflexivity. }
  assert (NoKey : forall aid a' k l, nth_error (w_archs s') aid = Some a' -> afind k (a_tgttabs a') = Some l -> False).
  { intros aid a' k l Ea' Hk. destruct (Empty _ _ Ea') as (G & _). rewrite G in Hk. discriminate. }
  assert (NoRKey : forall aid a' i m k l, nth_error (w_archs s') aid = Some a' -> nth_error (a_reltabs a') i = Some m -> afind k m = Some l -> False).
  { intros aid a' i m k l Ea' Hm Hk. destruct (Empty _ _ Ea') as (_ & G & _). rewrite Forall_nth_error in G. rewrite (G i m Hm) in Hk. discriminate. }
  assert (NoRelCol : forall tid t' a' i, nth_error (w_tables s') tid = Some t' -> t_free t' = false ->
            nth_error (w_archs s') (t_arch t') = Some a' -> ~ r2_relcol a' i).
  { intros tid t' a' i E' Hf Ea'. destruct (NF tid t' E' Hf) as (t & a & E & Ha & Hn & _ & M1 & _ & _ & Er).
    rewrite M1, (AFw _ _ Ha), Er in Ea'. injection Ea' as <-. apply (r2_norel_cols s (t_arch t) a H Ha Hn). }
  assert (HR' : RelInvG r2_none s').
  { constructor.
    - intros aid a' Ea'. destruct (AB _ _ Ea') as (a & Ea & ->). destruct (r2d_arch_rst_fields a) as (_ & _ & _ & _ & _ & F0 & F1).
      destruct (ri_nodup _ _ HR aid a Ea) as (N1 & N2).
      destruct (Nat.eq_dec (a_numrel a) 0) as [Hn|Hn]; [rewrite (F0 Hn); split; assumption|].
      destruct (F1 Hn) as (G1 & G2 & _). rewrite G1, G2. split; [constructor|].
      apply r2d_NoDup_app; [exact N2|exact N1|]. intros x Hx1 Hx2.
      destruct (wf_arch_tables _ H aid a x Ea (or_introl Hx2)) as (tx & Etx & _).
      pose proof (ri_active _ _ HR aid a x tx Ea Hx2 Etx). destruct (ri_freed _ _ HR aid a x tx Ea Hx1 Etx). congruence.
    - intros aid a' tid t' Ea' Hin Et'. destruct (AB _ _ Ea') as (a & Ea & ->). destruct (r2d_arch_rst_fields a) as (_ & _ & _ & _ & _ & F0 & F1).
      destruct (Nat.eq_dec (a_numrel a) 0) as [Hn|Hn]; [|destruct (F1 Hn) as (G1 & _); rewrite G1 in Hin; destruct Hin].
      rewrite (F0 Hn) in Hin. destruct (BW _ _ Et') as (t & a1 & Et & Ha1 & _ & _ & M1 & _ & _ & _ & _ & M6).
      destruct (wf_arch_tables _ H aid a tid Ea (or_introl Hin)) as (t0 & Et0 & Earch). rewrite Et in Et0. injection Et0 as <-.
      rewrite Earch, Ea in Ha1. injection Ha1 as <-. rewrite M6, (ri_active _ _ HR aid a tid t Ea Hin Et), Hn. reflexivity.
    - intros aid a' tid t' Ea' Hin Et'. destruct (AB _ _ Ea') as (a & Ea & ->). destruct (r2d_arch_rst_fields a) as (_ & _ & _ & _ & _ & F0 & F1).
      destruct (BW _ _ Et') as (t & a1 & Et & Ha1 & L0 & _ & M1 & _ & _ & _ & _ & M6). split; [|exact L0].
      destruct (Nat.eq_dec (a_numrel a) 0) as [Hn|Hn].
      + rewrite (F0 Hn) in Hin. destruct (ri_norel _ _ HR aid a Ea Hn) as (G & _). rewrite G in Hin. destruct Hin.
      + assert (Hl : In tid (a_tables a) \/ In tid (a_free a)).
        { destruct (F1 Hn) as (_ & G2 & _). rewrite G2 in Hin. apply in_app_iff in Hin. tauto. }
        assert (Earch : t_arch t = aid).
        { destruct (wf_arch_tables _ H aid a tid Ea) as (t0 & Et0 & E0); [tauto|]. rewrite Et in Et0. injection Et0 as <-. exact E0. }
        rewrite Earch, Ea in Ha1. injection Ha1 as <-. rewrite M6. apply Nat.eqb_neq in Hn. rewrite Hn. apply orb_true_r.
    - intros tid t' Et'. destruct (BW _ _ Et') as (t & a & Et & Ha & _ & _ & M1 & _ & _ & _ & _ & M6).
      exists (r2d_arch_rst a). rewrite M1. split; [apply (AFw _ _ Ha)|].
      destruct (r2d_arch_rst_fields a) as (_ & _ & _ & _ & _ & F0 & F1).
      destruct (ri_listed _ _ HR tid t Et) as (a1 & Ha1 & Hl). rewrite Ha in Ha1. injection Ha1 as <-.
      rewrite M6. destruct (Nat.eq_dec (a_numrel a) 0) as [Hn|Hn].
      + rewrite (F0 Hn), Hn. cbn [Nat.eqb negb]. rewrite orb_false_r. exact Hl.
      + destruct (F1 Hn) as (_ & G2 & _). rewrite G2. apply Nat.eqb_neq in Hn. rewrite Hn. cbn [negb]. rewrite orb_true_r.
        apply in_app_iff. destruct (t_free t); [left|right]; exact Hl.
    - intros aid a' Ea' Hn. destruct (AB _ _ Ea') as (a & Ea & ->). destruct (r2d_arch_rst_fields a) as (_ & _ & _ & C4 & _ & F0 & _).
      rewrite C4 in Hn. rewrite (F0 Hn). apply (ri_norel _ _ HR aid a Ea Hn).
    - intros tid t' a' Et' Ea'. destruct (BW _ _ Et') as (t & a & Et & Ha & _ & _ & M1 & _ & _ & M4 & M5 & _).
      rewrite M1, (AFw _ _ Ha) in Ea'. injection Ea' as <-. destruct (r2d_arch_rst_fields a) as (_ & C2 & C3 & C4 & _).
      destruct (ri_shape _ _ HR tid t a Et Ha) as (S1 & S2 & S3 & S4). rewrite M4, M5, C2, C3, C4. unfold r2_relcol in *. rewrite C3.
      split; [exact S1|]. split; [exact S2|]. split; [exact S3|exact S4].
    - intros tid1 tid2 t1' t2' E1 E2 F1 F2 Ea Etg.
      destruct (NF _ _ E1 F1) as (t1 & a1 & Et1 & _ & _ & Hf1 & A1 & A2 & _).
      destruct (NF _ _ E2 F2) as (t2 & a2 & Et2 & _ & _ & Hf2 & B1 & B2 & _).
      apply (ri_unique _ _ HR tid1 tid2 t1 t2 Et1 Et2 Hf1 Hf2); congruence.
    - intros aid a' i m k l Ea' Hm Hk. exfalso. apply (NoRKey aid a' i m k l Ea' Hm Hk).
    - intros tid t' a' i x Et' Hf Ea' Hr. exfalso. apply (NoRelCol tid t' a' i Et' Hf Ea' Hr).
    - intros aid a' k l Ea' Hk. exfalso. apply (NoKey aid a' k l Ea' Hk).
    - intros tid t' a' i x Et' Hf Ea' Hr. exfalso. apply (NoRelCol tid t' a' i Et' Hf Ea' Hr).
    - intros aid a' i m k l Ea' Hm Hk. exfalso. apply (NoRKey aid a' i m k l Ea' Hm Hk).
    - rewrite Erela. destruct (ri_relarchs _ _ HR) as (N & I0'). split; [exact N|]. intros aid. rewrite (I0' aid). split.
      + intros (a & Ea & Hn). exists (r2d_arch_rst a). split; [apply (AFw _ _ Ea)|]. destruct (r2d_arch_rst_fields a) as (_ & _ & _ & C4 & _). lia.
      + intros (a' & Ea' & Hn). destruct (AB _ _ Ea') as (a & Ea & ->). exists a. split; [exact Ea|].
        destruct (r2d_arch_rst_fields a) as (_ & _ & _ & C4 & _). lia.
    - intros tid t' r Et' Hf Hin. exfalso. destruct (NF _ _ Et' Hf) as (t & a & Et & Ha & Hn & _ & _ & _ & M5 & _).
      destruct (ri_shape _ _ HR tid t a Et Ha) as (_ & _ & _ & S4). rewrite M5 in Hin. rewrite Hn in S4.
      destruct (t_rels t); [destruct Hin|discriminate]. }
  split; [split; [exact HW'|split; [split; [exact HR'|]|]]|].
  - intros aid a' k l Ea' Hk. exfalso. apply (NoKey aid a' k l Ea' Hk).
  - constructor; rewrite Ece; [constructor|]. intros addr e f [].
  - split; [intros aid a' k l Ea' Hk; exfalso; apply (NoKey aid a' k l Ea' Hk)|]. split; [|exact Empty].
    intros tid t' Et'. destruct (BW _ _ Et') as (t & a & Et & Ha & L0 & _ & _ & _ & _ & _ & M5 & M6). split; [exact L0|].
    intros Hne. destruct (ri_shape _ _ HR tid t a Et Ha) as (_ & _ & _ & S4). rewrite M6.
    assert (Hn : a_numrel a <> 0) by (rewrite <- S4, <- M5; destruct (t_rels t'); [congruence|cbn; lia]).
    apply Nat.eqb_neq in Hn. rewrite Hn. apply orb_true_r.
Qed.

(** ** Reset *)

(** D_reset_spec. Reset of an unlocked world in which every archetype without relation components has
    its table (hypothesis (A) of [reset_empty_partial]; necessary: [reset_fails_without_table]; it is the clause
    [archs_tabled_norel] of WF.v, which holds in every state of a covered history since the repair of
    createArchetype: Rel2Hist, [reachable_inv2T] / [reachable_reset_succeeds]) succeeds and
    yields a world that satisfies [St2] (and [r2d_KeysLive]), has no stored entity, only empty tables, every
    relation table freed, all lookups empty, no table list left in an archetype with relation components, an
    empty cache, no target flag except possibly those of the two reserved ids, and the pool back at its two
    reserved slots. The world is unlocked, registry and configuration are kept. *)
Theorem D_reset_spec : forall s, St2 s -> is_locked s = false ->
  (forall aid a, nth_error (w_archs s) aid = Some a -> a_numrel a = 0 -> a_tables a <> []) ->
  exists s', w_reset s = Ok tt s' /\ St2 s' /\ r2d_KeysLive s' /\ (forall e, live s' e = false) /\
    pe (w_pool s') = [(0, max_u32); (1, max_u32)] /\ pavail (w_pool s') = 0 /\
    w_centries s' = [] /\ is_locked s' = false /\ w_ototal s' = 0 /\ Forall (fun b => b = false) (w_res s') /\
    w_reg s' = w_reg s /\ w_cfg s' = w_cfg s /\
    length (w_archs s') = length (w_archs s) /\ length (w_tables s') = length (w_tables s) /\
    w_istarget s' = firstn 2 (w_istarget s) /\
    (forall tid t, nth_error (w_tables s') tid = Some t -> t_len t = 0 /\ (t_rels t <> [] -> t_free t = true)) /\
    (forall aid a, nth_error (w_archs s') aid = Some a ->
       a_tgttabs a = [] /\ Forall (fun m : list (nat * list nat) => m = []) (a_reltabs a) /\ (0 < a_numrel a -> a_tables a = [])).
Proof.
  intros s HS Hl HA. pose proof HS as (H & (HR & HT) & HC).
  unfold w_reset.
  rewrite (sa_bind_ok (r_check_unlocked s Hl)).
  rewrite (sa_bind_ok (r_modify_eq _ _)).
  set (s1 := s <| w_index ::= firstn 2 |> <| w_pool ::= pool_reset |> <| w_istarget ::= firstn 2 |>).
  destruct (r_cache_reset s1) as (F' & CP' & E2 & PF).
  { intros addr Hin. destruct (wf_cache _ H addr Hin) as (e & Ee & _). exists e. exact Ee. }
  rewrite (sa_bind_ok E2).
  set (s2 := s1 <| w_filters := F' |> <| w_centries := [] |> <| w_cpool := CP' |>).
  rewrite (sa_bind_ok (r_modify_eq _ _)).
  set (s3 := s2 <| w_lock := lock_new |>).
  destruct (r_reset_observers s3) as (O' & L' & G' & OP' & E4 & PO).
  rewrite (sa_bind_ok E4).
  set (s4 := s3 <| w_obs := O' |> <| w_olists := L' |> <| w_oagg := G' |>
                <| w_opool := OP' |> <| w_ototal := 0 |> <| w_omax := 0 |>).
  unfold bind at 1, get at 1. cbv beta iota.
  change (w_archs s4) with (w_archs s).
  destruct (r2d_arch_loop (seq 0 (length (w_archs s))) s4 (seq_NoDup _ _)) as (T' & A' & E5 & LT & LA & PA & PN & PH).
  { intros aid Hin. apply in_seq in Hin. change (w_archs s4) with (w_archs s).
    destruct (nth_error (w_archs s) aid) as [a|] eqn:Ea; [|apply nth_error_None in Ea; lia].
    exists a. split; [reflexivity|]. split; [apply (ri_nodup _ _ HR aid a Ea)|apply (HA aid a Ea)]. }
  { intros aid1 aid2 a1 a2 j _ _ Ha1 Ha2 M1 M2. change (w_archs s4) with (w_archs s) in Ha1, Ha2.
    destruct (wf_arch_tables _ H aid1 a1 j Ha1 (or_introl (r2d_hits_tables a1 j M1))) as (t1 & Et1 & Q1).
    destruct (wf_arch_tables _ H aid2 a2 j Ha2 (or_introl (r2d_hits_tables a2 j M2))) as (t2 & Et2 & Q2). congruence. }
  change (w_tables s4) with (w_tables s) in *. change (w_archs s4) with (w_archs s) in *.
  rewrite (sa_bind_ok E5). rewrite r_modify_eq.
  set (s' := s4 <| w_tables := T' |> <| w_archs := A' |> <| w_res ::= map (fun _ : bool => false) |>).
  assert (AF : forall b, nth_error (w_archs s') b = option_map r2d_arch_rst (nth_error (w_archs s) b)).
  { intros b. change (w_archs s') with A'. rewrite PA. destruct (memb b (seq 0 (length (w_archs s)))) eqn:Em; [reflexivity|].
    destruct (nth_error (w_archs s) b) as [a|] eqn:Eb; [|reflexivity]. exfalso.
    assert (Hin : In b (seq 0 (length (w_archs s)))) by (apply in_seq; pose proof (sa_nth_error_lt _ _ _ _ Eb); lia).
    apply sa_memb_in in Hin. congruence. }
  pose proof (r2d_reset_tables s T' HS HA LT PN PH) as FW.
  destruct (r2d_reset_St2 s s' HS) as (Q1 & Q2 & Q3 & Q4); try reflexivity; try assumption.
  exists s'. split; [reflexivity|]. split; [exact Q1|]. split; [exact Q2|].
  split; [apply r_no_live; intros tid t Et; apply (Q3 tid t Et)|].
  split.
  { change (pe (w_pool s')) with (firstn 2 (pe (w_pool s))).
    destruct (wf_reserved _ H) as (_ & _ & P0 & P1).
    revert P0 P1. destruct (pe (w_pool s)) as [|a [|b l]]; cbn [nth_error firstn]; intros P0 P1; try discriminate. inversion P0; inversion P1; reflexivity. }
  split; [reflexivity|]. split; [reflexivity|]. split; [reflexivity|]. split; [reflexivity|].
  split.
  { change (w_res s') with (map (fun _ : bool => false) (w_res s)).
    apply Forall_forall. intros b Hin. apply in_map_iff in Hin. destruct Hin as (x & <- & _). reflexivity. }
  split; [reflexivity|]. split; [reflexivity|]. split; [exact LA|]. split; [exact LT|]. split; [reflexivity|].
  split; [exact Q3|exact Q4].
Qed.

(** The plan's form: on a locked world Reset fails without effect; otherwise it succeeds (under (A)). *)
Corollary D_reset_spec_match : forall s, St2 s ->
  (forall aid a, nth_error (w_archs s) aid = Some a -> a_numrel a = 0 -> a_tables a <> []) ->
  match w_reset s with
  | Ok _ s' => St2 s' /\ is_locked s = false /\ (forall e, live s' e = false) /\ w_reg s' = w_reg s /\ w_cfg s' = w_cfg s /\
               (forall tid t, nth_error (w_tables s') tid = Some t -> t_len t = 0)
  | Err _ s' => s' = s /\ is_locked s = true
  end.
Proof.
  intros s HS HA. destruct (is_locked s) eqn:Hl.
  - rewrite (reset_locked_rejected s Hl). split; reflexivity.
  - destruct (D_reset_spec s HS Hl HA) as (s' & E & P1 & _ & P3 & _ & _ & _ & _ & _ & _ & P4 & P5 & _ & _ & _ & P6 & _).
    rewrite E. split; [exact P1|]. split; [reflexivity|]. split; [exact P3|]. split; [exact P4|]. split; [exact P5|].
    intros tid t Et. apply (P6 tid t Et).
Qed.

Definition r2d_D2_all := (r2d_arch_loop, r2d_reset_tables, r2d_reset_St2, D_reset_spec, D_reset_spec_match).

(* ================================================================================================ *)
(** * Package D3 (kernel only): storage.createEntities in relation worlds

    [D_new_batch_spec] and [D_remove_entities_spec] of the plan are NOT proved here: the first needs the table
    finder with relation arguments (package A: [A_find_add]), the second a cleanup for a SET of dying ids
    ([r2c_cleanup_spec] of Rel2Remove is for one id). What both share with NewEntities and what is independent
    of those packages is proved: [create_entities] into an ACTIVE table of a relation world creates [n] fresh,
    pairwise distinct entities with the table's components at zero AND the table's relation targets, keeps
    [St2] and [r2d_KeysLive], and changes nobody else ([D_create_entities_spec2]). *)

(** placing a fresh entity under the invariant with the key clause (the flag of the new id is cleared) *)
Lemma r2d_place_fresh : forall s tid t e p' t2, St2 s -> r2d_KeysLive s ->
  nth_error (w_tables s) tid = Some t -> t_free t = false -> room s -> pool_get (w_pool s) = (e, p') ->
  sb1_grown t t2 e ->
  let s2 := sb1_st2 s p' (upd tid t2 (w_tables s)) (sb1_idx s e (Some tid, t_len t)) (upd (fst e) false (sb1_ist s e)) in
  St2 s2 /\ r2d_KeysLive s2 /\ live s e = false /\ live s2 e = true /\ alive s2 e = true /\
  (forall c, val s2 e c = match tbl_colidx t c with Some ci => Some (cell t2 ci (t_len t)) | None => None end) /\
  (forall c, tgt s2 e c = tbl_target t c) /\
  r2d_others_same2 s s2 e /\ side_same s s2 /\ frame_user s s2 /\
  length (pe (w_pool s2)) <= S (length (pe (w_pool s))).
Proof.
  intros s tid t e p' t2 HS HK Ht Hfree Hroom Hg Hgr s2. pose proof HS as (HW & _).
  destruct (r2d_fresh_not_live s e p' HW Hg) as (Hge & Hnl).
  assert (Hist : length (upd (fst e) false (sb1_ist s e)) = length (sb1_idx s e (Some tid, t_len t))).
  { rewrite upd_length. apply (sb1_slot_of_get s e p' (Some tid, t_len t) HW Hg). }
  assert (HF : forall aid a k l, nth_error (w_archs s) aid = Some a -> afind k (a_tgttabs a) = Some l ->
            nth k (w_istarget s) false = true -> nth k (upd (fst e) false (sb1_ist s e)) false = true).
  { intros aid a k l Ha Hk Hfl. rewrite nth_upd. destruct (Nat.eqb_spec (fst e) k) as [Heq|Hne].
    - exfalso. destruct (HK aid a k l Ha Hk) as [H0|(g & Hl)]; [lia|]. rewrite <- Heq, Hnl in Hl. discriminate.
    - cbn [andb]. rewrite r2d_ist_flag. exact Hfl. }
  destruct (r2d_place_new r2_none r2_none r2_none s tid t e p' (proj1 (St2_St2G s) HS) Ht Hfree Hroom Hg t2 _ Hgr Hist HF)
    as (P1 & P2 & P3 & P4 & P5 & P6 & P7 & P8 & P9 & P10). fold s2 in P1, P3, P4, P5, P6, P7, P8, P9, P10.
  split; [apply St2_St2G; exact P1|]. split.
  { apply (r2d_KeysLive_mono s s2 HK eq_refl). intros x Hx. assert (Hne : x <> e) by (intros ->; congruence).
    destruct (P7 x Hne) as (L & _). rewrite L. exact Hx. }
  repeat (split; [assumption|]). assumption.
Qed.

Definition r2d_cpost (v v' : W) (tid : nat) (tv tv' : table) (m : nat) (es : list ent) : Prop :=
  St2 v' /\ r2d_KeysLive v' /\ nth_error (w_tables v') tid = Some tv' /\ t_len tv' = t_len tv + m /\
  t_ids tv' = t_ids tv /\ t_targets tv' = t_targets tv /\ t_free tv' = t_free tv /\
  (forall r, r < t_len tv -> row_ent tv' r = row_ent tv r) /\
  length es = m /\ NoDup es /\
  (forall e, In e es -> live v e = false /\ live v' e = true /\
       (forall c, val v' e c = match tbl_colidx tv c with Some _ => Some 0%Z | None => None end) /\
       (forall c, tgt v' e c = tbl_target tv c)) /\
  (forall e, ~ In e es -> live v' e = live v e /\ (forall c, val v' e c = val v e c) /\ (forall c, tgt v' e c = tgt v e c)) /\
  firstn m (skipn (t_len tv) (t_ents tv')) = es /\
  side_same v v' /\ frame_user v v' /\ w_archs v' = w_archs v /\ length (pe (w_pool v')) <= length (pe (w_pool v)) + m.

Lemma r2d_create_loop : forall tid m v tv, St2 v -> r2d_KeysLive v -> nth_error (w_tables v) tid = Some tv ->
  t_free tv = false -> t_len tv + m <= t_cap tv -> room_n v m ->
  exists v' tv' es,
    forM_ (seq (t_len tv) m) (b_cbody tid) (b_real v tid tv (t_len tv + m)) =
      Ok tt (b_real v' tid tv' (t_len tv + m)) /\
    r2d_cpost v v' tid tv tv' m es.
Proof.
  intros tid m. induction m as [|m IH]; intros v tv HS HK Ht Hfree Hcap Hroom.
  - exists v, tv, []. split; [reflexivity|].
    unfold r2d_cpost. split; [assumption|]. split; [assumption|]. split; [assumption|]. split; [lia|].
    do 3 (split; [reflexivity|]). split; [auto|]. split; [reflexivity|]. split; [constructor|]. split; [intros e []|].
    split; [intros; split; [reflexivity|split; reflexivity]|]. split; [reflexivity|].
    split; [apply sb1_side_same_refl|]. split; [apply sb1_frame_user_refl|]. split; [reflexivity|lia].
  - destruct (pool_get (w_pool v)) as [e p'] eqn:Hg.
    pose proof (sb2_table_ok _ _ _ (proj1 HS) Ht) as Hok.
    assert (Hlt : t_len tv < t_cap tv) by lia.
    destruct (b_grown tv e Hok Hlt) as (Hgr & Hz).
    assert (Hroom1 : room v) by (unfold room, room_n in *; lia).
    pose proof (r2d_place_fresh v tid tv e p' (b_t2 tv e) HS HK Ht Hfree Hroom1 Hg Hgr) as P. cbv zeta in P.
    fold (b_v2 v tid tv e p') in P. set (v2 := b_v2 v tid tv e p') in *.
    destruct P as (P1 & PK & P2 & P3 & _ & P4 & PT & P5 & P6 & P7 & P8).
    assert (Ht2 : nth_error (w_tables v2) tid = Some (b_t2 tv e)).
    { unfold v2, b_v2, sb1_st2. cbn. eapply sb2_nth_error_upd_eq; eassumption. }
    assert (Hcap2 : t_len (b_t2 tv e) + m <= t_cap (b_t2 tv e)) by (cbn; lia).
    assert (Hroom2 : room_n v2 m) by (unfold room_n in *; lia).
    destruct (IH v2 (b_t2 tv e) P1 PK Ht2 Hfree Hcap2 Hroom2) as (v' & tv' & es & Hrun & Q).
    change (t_len (b_t2 tv e)) with (S (t_len tv)) in *.
    exists v', tv', (e :: es). split.
    { cbn [seq forM_]. erewrite sb1_bind_ok by (apply b_cbody_step; eassumption).
      replace (t_len tv + S m) with (S (t_len tv) + m) by lia. exact Hrun. }
    destruct Q as (Q1 & QK & Q2 & Q3 & Q4 & Q4t & Q4f & Q5 & Q6 & Q7 & Q8 & Q9 & Q10 & Q11 & Q12 & QA & Q13).
    change (t_len (b_t2 tv e)) with (S (t_len tv)) in *.
    destruct Hgr as (Gok & Glen & Gent & Gcell & Grow & Gids & _ & _ & _ & Gtg & Gfr).
    assert (Hnin : ~ In e es).
    { intros Hin. destruct (Q8 e Hin) as (L & _). congruence. }
    assert (Ecol : forall c, tbl_colidx (b_t2 tv e) c = tbl_colidx tv c) by (intros c; unfold tbl_colidx; rewrite Gids; reflexivity).
    assert (Etg : forall c, tbl_target (b_t2 tv e) c = tbl_target tv c) by (intros c; unfold tbl_target; rewrite Ecol, Gtg; reflexivity).
    unfold r2d_cpost.
    split; [assumption|]. split; [assumption|]. split; [assumption|]. split; [lia|]. split; [congruence|]. split; [congruence|]. split; [congruence|].
    split; [intros r Hr; rewrite Q5 by lia; apply Grow; assumption|].
    split; [simpl; congruence|]. split; [constructor; assumption|].
    split.
    { intros x [<-|Hin].
      - split; [assumption|]. destruct (Q9 e Hnin) as (L & V & T). split; [congruence|]. split.
        + intros c. rewrite V, P4. destruct (tbl_colidx tv c); [rewrite Hz|]; reflexivity.
        + intros c. rewrite T. apply PT.
      - destruct (Q8 x Hin) as (L1 & L2 & V & T).
        assert (Hne : x <> e) by (intros ->; contradiction).
        destruct (P5 x Hne) as (L & _). split; [congruence|]. split; [assumption|]. split.
        + intros c. rewrite V, Ecol. reflexivity.
        + intros c. rewrite T. apply Etg. }
    split.
    { intros x Hx. assert (Hne : x <> e) by (intros ->; apply Hx; left; reflexivity).
      assert (Hx' : ~ In x es) by (intros Hin; apply Hx; right; assumption).
      destruct (Q9 x Hx') as (L & V & T). destruct (P5 x Hne) as (L' & V' & T').
      split; [congruence|]. split; [intros c; rewrite V, V'; reflexivity|intros c; rewrite T, T'; reflexivity]. }
    split.
    { pose proof (sb2_table_ok _ _ _ (proj1 Q1) Q2) as Hok'.
      pose proof (tbl_ok_elim _ Hok') as (O1 & O2 & _).
      rewrite (b_firstn_skipn _ (t_ents tv') (t_len tv) m zero_ent) by lia.
      rewrite Q10. f_equal. change (row_ent tv' (t_len tv) = e). rewrite Q5 by lia. exact Gent. }
    split; [apply (sb1_side_same_trans _ _ _ P6 Q11)|].
    split; [apply (sb1_frame_user_trans _ _ _ P7 Q12)|]. split; [rewrite QA; reflexivity|lia].
Qed.

(** D_create_entities_spec2: createEntities = n times createEntity, in an active table of a relation world. *)
Theorem D_create_entities_spec2 : forall s tid t n, St2 s -> r2d_KeysLive s -> room_n s n ->
  nth_error (w_tables s) tid = Some t -> t_free t = false ->
  exists s' es, create_entities tid n s = Ok tt s' /\ St2 s' /\ r2d_KeysLive s' /\ length es = n /\ NoDup es /\
    (forall e, In e es -> live s e = false /\ live s' e = true /\ alive s' e = true /\
                          (forall c, val s' e c = if memb c (t_ids t) then Some 0%Z else None) /\
                          (forall c, tgt s' e c = tbl_target t c)) /\
    (forall e, ~ In e es -> live s' e = live s e /\ (forall c, val s' e c = val s e c) /\ (forall c, tgt s' e c = tgt s e c)) /\
    (exists t', nth_error (w_tables s') tid = Some t' /\ t_len t' = t_len t + n /\
                firstn n (skipn (t_len t) (t_ents t')) = es) /\
    side_same s s' /\ frame_user s s' /\ w_archs s' = w_archs s.
Proof.
  intros s tid t n HS HK Hroom Ht Hfree. pose proof (proj1 HS) as HW.
  pose proof (sb2_table_ok _ _ _ HW Ht) as Hok.
  assert (Hn : t_len t + n <= Nat.pow 2 31).
  { pose proof (rows_le_pool s tid t HW Ht). unfold room_n in Hroom. lia. }
  destruct (tbl_extend_facts t n Hok Hn) as (E0 & L & C & Ec & Er & F1 & F2 & F3 & F4 & F5 & F6).
  set (tv := tbl_extend t n) in *.
  assert (Sim : r_tsim t tv).
  { unfold r_tsim. split; [exact E0|]. split; [exact L|]. split; [exact F3|]. split; [exact F1|]. split; [exact F2|].
    split; [exact F5|]. split; [exact F4|]. split; [exact F6|]. split; [exact Er|exact Ec]. }
  assert (HT : forall j, nth_error (upd tid tv (w_tables s)) j = if Nat.eqb tid j then Some tv else nth_error (w_tables s) j).
  { intros j. rewrite TableProofs.nth_error_upd. destruct (Nat.eqb_spec tid j) as [<-|]; [rewrite Ht|]; reflexivity. }
  destruct (r2d_sim_St2 s (upd tid tv (w_tables s)) HS (upd_length _ _ _ _)) as (HS0 & Hcs & Hts).
  { intros j t0 Hj. rewrite HT. destruct (Nat.eqb_spec tid j) as [<-|Hne].
    - rewrite Ht in Hj. injection Hj as <-. exists tv. split; [reflexivity|exact Sim].
    - exists t0. split; [exact Hj|]. apply r_tsim_refl. apply (sb2_table_ok _ _ _ HW Hj). }
  set (v0 := s <| w_tables := upd tid tv (w_tables s) |>) in *.
  assert (HK0 : r2d_KeysLive v0).
  { apply (r2d_KeysLive_mono s v0 HK eq_refl). intros x Hx. rewrite (proj1 (Hcs x)). exact Hx. }
  assert (Ht0 : nth_error (w_tables v0) tid = Some tv) by (change (w_tables v0) with (upd tid tv (w_tables s)); rewrite HT, Nat.eqb_refl; reflexivity).
  assert (Hfree0 : t_free tv = false) by congruence.
  assert (Hcap0 : t_len tv + n <= t_cap tv) by lia.
  assert (Hroom0 : room_n v0 n) by exact Hroom.
  destruct (r2d_create_loop tid n v0 tv HS0 HK0 Ht0 Hfree0 Hcap0 Hroom0) as (v' & tv' & es & Hrun & Q).
  destruct Q as (Q1 & QK & Q2 & Q3 & Q4 & Q4t & Q4f & Q5 & Q6 & Q7 & Q8 & Q9 & Q10 & Q11 & Q12 & QA & Q13).
  exists v', es. split.
  { rewrite b_create_entities_eq.
    erewrite sb1_bind_ok by (apply sb1_getT_eq; exact Ht).
    erewrite sb1_bind_ok by (apply sb2_modT; exact Ht).
    rewrite <- L.
    assert (E : sb2_setT s (upd tid (tbl_alloc t n) (w_tables s)) = b_real v0 tid tv (t_len tv + n)).
    { unfold b_real, v0, sb2_setT. apply b_W_ext; cbn; try reflexivity. rewrite sb2_upd_upd. reflexivity. }
    rewrite E. fold tv. rewrite Hrun. rewrite b_real_id by (auto; lia). reflexivity. }
  split; [assumption|]. split; [assumption|]. split; [assumption|]. split; [assumption|].
  split.
  { intros e Hin. destruct (Q8 e Hin) as (L1 & L2 & V & T). destruct (Hcs e) as (L0 & _).
    split; [congruence|]. split; [assumption|].
    split; [apply (live_alive v' e (proj1 Q1) L2)|]. split.
    - intros c. rewrite V. unfold tbl_colidx, memb. rewrite F1. destruct (index_of c (t_ids t)); reflexivity.
    - intros c. rewrite T. unfold tbl_target, tbl_colidx. rewrite F1, F5. reflexivity. }
  split.
  { intros e Hnin. destruct (Q9 e Hnin) as (L1 & V & T). destruct (Hcs e) as (L0 & V0).
    split; [congruence|]. split; [intros c; rewrite V, V0; reflexivity|intros c; rewrite T, (Hts e c); reflexivity]. }
  split.
  { exists tv'. split; [assumption|]. split; [lia|]. rewrite <- L. exact Q10. }
  split.
  - eapply sb1_side_same_trans; [|exact Q11]. unfold side_same. repeat split.
  - split; [eapply sb1_frame_user_trans; [|exact Q12]; unfold frame_user; repeat split|]. rewrite QA. reflexivity.
Qed.

(** ** World.NewEntities(n, fn) in relation worlds (entities without components: table 0) *)

Lemma r2d_find_table0 : forall s, St2 s -> find_or_create_table_add 0 [] [] 0%N s = Ok (0, 0, 0%N) s.
Proof.
  intros s (HW & (HR & _) & _).
  destruct (r2d_table0_active _ s HW HR) as (a0 & t0 & Ha0 & Hm0 & Hc0 & Ht0 & Hta0 & Hf0 & Hids0).
  assert (Hn0 : a_numrel a0 = 0).
  { destruct (wf_arch_comps _ HW 0 a0 Ha0) as (_ & _ & C3 & C4 & _). rewrite C4, C3, Hc0. reflexivity. }
  assert (Hfa : find_or_create_arch 0%N s = Ok 0 s).
  { unfold find_or_create_arch, bind, get, find_arch. destruct (w_archs s) as [|a rest]; [discriminate Ha0|].
    cbn in Ha0. injection Ha0 as ->. rewrite Hm0. reflexivity. }
  assert (Hrels : t_rels t0 = []).
  { pose proof Ha0 as Ha0'. rewrite <- Hta0 in Ha0'. destruct (ri_shape _ _ HR 0 t0 a0 Ht0 Ha0') as (_ & _ & _ & S4).
    rewrite Hn0 in S4. destruct (t_rels t0); [reflexivity|discriminate]. }
  assert (Htabs : a_tables a0 = [0]).
  { destruct (ri_listed _ _ HR 0 t0 Ht0) as (a1 & Ha1 & Hl). rewrite Hta0, Ha0 in Ha1. injection Ha1 as <-. rewrite Hf0 in Hl.
    pose proof (wf_arch_norel_table _ HW 0 a0 Ha0 Hn0) as Hle.
    destruct (a_tables a0) as [|x [|y l]]; [destruct Hl| |cbn in Hle; lia]. destruct Hl as [->|[]]. reflexivity. }
  assert (Hgt : get_or_create_table 0 [] s = Ok 0 s).
  { unfold get_or_create_table. rewrite (sa_bind_ok (sa_getA_eq _ _ _ Ha0)).
    unfold arch_get_table, arch_has_rels. rewrite Htabs, Hn0. reflexivity. }
  unfold find_or_create_table_add. cbn [gf_add]. unfold bind at 1, ret at 1.
  rewrite (sa_bind_ok Hfa). rewrite (sa_bind_ok (sa_getT_eq _ _ _ Ht0)). rewrite Hrels.
  rewrite (sa_bind_ok Hgt). reflexivity.
Qed.

Lemma r2d_new_entities_run : forall s n, St2 s -> r2d_KeysLive s -> room_n s n ->
  exists start s2 es t',
    new_entities n [] [] s = Ok (0, start) s2 /\ St2 s2 /\ r2d_KeysLive s2 /\ side_same s s2 /\ frame_user s s2 /\
    length es = n /\ NoDup es /\
    (forall e, In e es -> live s e = false /\ live s2 e = true /\ alive s2 e = true /\ (forall c, val s2 e c = None) /\ (forall c, tgt s2 e c = None)) /\
    (forall e, ~ In e es -> live s2 e = live s e /\ (forall c, val s2 e c = val s e c) /\ (forall c, tgt s2 e c = tgt s e c)) /\
    nth_error (w_tables s2) 0 = Some t' /\ t_len t' = start + n /\
    firstn n (skipn start (t_ents t')) = es.
Proof.
  intros s n HS HK Hroom. pose proof HS as (HW & (HR & _) & _).
  destruct (r2d_table0_active _ s HW HR) as (a0 & t0 & Ha0 & Hm0 & Hc0 & Ht0 & Hta0 & Hf0 & Hids0).
  destruct (D_create_entities_spec2 s 0 t0 n HS HK Hroom Ht0 Hf0)
    as (s2 & es & Hrun & HS2 & HK2 & Hlen & Hnd & Hin & Hout & (t' & Ht' & Hl' & Hes) & Hside2 & Hfr2 & _).
  exists (t_len t0), s2, es, t'. split.
  { unfold new_entities. rewrite (sa_bind_ok (r2d_find_table0 s HS)). cbv beta iota.
    rewrite (sa_bind_ok (sa_getT_eq _ _ _ Ht0)). rewrite (sa_bind_ok Hrun). reflexivity. }
  split; [exact HS2|]. split; [exact HK2|]. split; [exact Hside2|]. split; [exact Hfr2|]. split; [exact Hlen|]. split; [exact Hnd|].
  split.
  { intros e He. destruct (Hin e He) as (L1 & L2 & L3 & V & T). split; [exact L1|]. split; [exact L2|]. split; [exact L3|]. split.
    - intros c. rewrite V, Hids0. reflexivity.
    - intros c. rewrite T. unfold tbl_target, tbl_colidx. rewrite Hids0. reflexivity. }
  split; [exact Hout|]. split; [exact Ht'|]. split; [exact Hl'|exact Hes].
Qed.

(** NewEntities(n, fn) in a relation world: on an unlocked world without OnCreateEntity observers (and with a
    lock bit available, cf. [new_entities_spec_refuted]) it creates [n] entities without components or targets,
    runs the callback once per new entity, leaves the world unlocked and everybody else untouched. *)
Theorem D_new_entities_spec2 : forall s n, St2 s -> r2d_KeysLive s -> room_n s n -> is_locked s = false ->
  has_obs s EvCreateEntity = false -> lock_lock (w_lock s) <> None ->
  match w_new_entities n true s with
  | Ok _ s' =>
      St2 s' /\ r2d_KeysLive s' /\ is_locked s' = false /\ frame_user s s' /\
      exists es, length es = n /\ NoDup es /\
        w_log s' = w_log s ++ map (fun e => [101%Z; Zn (fst e); Z.of_N (snd e)]) es /\
        (forall e, In e es -> live s e = false /\ live s' e = true /\ (forall c, val s' e c = None) /\ (forall c, tgt s' e c = None)) /\
        (forall e, ~ In e es -> live s' e = live s e /\ (forall c, val s' e c = val s e c) /\ (forall c, tgt s' e c = tgt s e c))
  | Err _ s' => False
  end.
Proof.
  intros s n HS HK Hroom Hunl Hobs Hlock.
  destruct (r2d_new_entities_run s n HS HK Hroom) as (start & s2 & es & t' & Hrun & HS2 & HK2 & Hside & Hfr & Hlen & Hnd & Hin & Hout & Ht' & Hl' & Hes).
  destruct Hside as (Elock & Elog & _ & _ & Eagg & _).
  destruct (lock_lock (w_lock s)) as [[b l']|] eqn:LL; [|congruence]. clear Hlock.
  pose proof (sb2_table_ok _ _ _ (proj1 HS2) Ht') as Hok'.
  pose proof (tbl_ok_elim _ Hok') as (O1 & O2 & _).
  set (L := map (fun r => b_entry (nth r (t_ents t') zero_ent)) (seq start n)).
  assert (Hmask : lk_mask (w_lock s) = 0%N).
  { unfold is_locked, lock_is_locked, mk_is_zero in Hunl. apply negb_false_iff in Hunl. apply N.eqb_eq in Hunl. exact Hunl. }
  assert (Hl'def : l' = {| lk_pool := lk_pool l'; lk_mask := mk_set 0%N b |}).
  { unfold lock_lock in LL. destruct (ipool_get (Some 64) (lk_pool (w_lock s))) as [[b0 p0]|]; [|discriminate].
    inversion LL; subst. rewrite Hmask. reflexivity. }
  set (l'' := {| lk_pool := ipool_recycle (lk_pool l') b; lk_mask := 0%N |}).
  assert (LU : lock_unlock l' b = Some l'').
  { rewrite Hl'def. unfold lock_unlock. cbn [lk_mask lk_pool]. rewrite mk_get_set, Nat.eqb_refl. cbn [orb].
    unfold l''. rewrite b_mask_unlock. reflexivity. }
  set (s3 := s2 <| w_lock := l' |>).
  set (s4 := b_logged s3 L).
  set (s5 := s4 <| w_lock := l'' |>).
  assert (E : w_new_entities n true s = Ok tt s5).
  { unfold w_new_entities.
    erewrite sb1_bind_ok by (apply sb1_check_locked_ok; exact Hunl).
    erewrite sb1_bind_ok by exact Hrun. cbv beta iota.
    unfold bind at 1. unfold get at 1. cbv zeta.
    assert (Ho : has_obs s2 EvCreateEntity = false).
    { unfold has_obs, get_agg in *. rewrite Eagg. exact Hobs. }
    rewrite Ho. cbn [orb whenM].
    erewrite sb1_bind_ok by (apply ViewProofs.v_lockM_ok; rewrite Elock; exact LL). cbv beta.
    fold s3.
    erewrite sb1_bind_ok.
    2:{ apply (b_callback_loop 0 t' (seq start n) s3); [exact Ht'|].
        intros r Hr. apply in_seq in Hr. lia. }
    fold L. fold s4. cbv beta.
    erewrite sb1_bind_ok by reflexivity.
    apply (ViewProofs.v_unlockM_ok s4 b l''). exact LU. }
  rewrite E.
  assert (SS : storage_same s2 s5) by (unfold storage_same; repeat split).
  pose proof (sb3_storage_same_content s2 s5 SS) as Hcs. pose proof (r2c_storage_same_tgt s2 s5 SS) as Hts.
  split; [apply (r2c_storage_same_St2 s2 s5 SS HS2)|].
  split.
  { apply (r2d_KeysLive_mono s2 s5 HK2 eq_refl). intros x Hx. rewrite (proj1 (Hcs x)). exact Hx. }
  split; [reflexivity|].
  split; [apply (sb1_frame_user_trans _ _ _ Hfr); unfold frame_user; repeat split|].
  exists es. split; [assumption|]. split; [assumption|].
  split.
  { change (w_log s5) with (w_log s2 ++ L). rewrite Elog. f_equal.
    rewrite <- Hes. rewrite (b_firstn_skipn_seq _ (t_ents t') zero_ent n start) by lia.
    unfold L. rewrite map_map. reflexivity. }
  split.
  - intros e He. destruct (Hin e He) as (L1 & L2 & _ & V & T). split; [assumption|]. split; [rewrite (proj1 (Hcs e)); exact L2|].
    split; [intros c; rewrite (proj2 (Hcs e)); apply V|intros c; rewrite (Hts e c); apply T].
  - intros e He. destruct (Hout e He) as (L1 & V & T). split; [rewrite (proj1 (Hcs e)); exact L1|].
    split; [intros c; rewrite (proj2 (Hcs e)); apply V|intros c; rewrite (Hts e c); apply T].
Qed.

Definition r2d_D3_all := (r2d_place_fresh, r2d_create_loop, D_create_entities_spec2, r2d_find_table0, r2d_new_entities_run, D_new_entities_spec2).

(* ================================================================================================ *)
(** * Validation on concrete worlds, refutations, non-vacuity *)

(** ** The refuted plan statements, machine-checked *)

Lemma r2d_small_5 : 5 < Nat.pow 2 31.
Proof. pose proof sa_small_2. assert (E : Nat.pow 2 31 = 2 * Nat.pow 2 30) by (apply (Nat.pow_succ_r' 2 30)).
  assert (E2 : Nat.pow 2 30 = 2 * Nat.pow 2 29) by (apply (Nat.pow_succ_r' 2 29)).
  assert (E3 : Nat.pow 2 29 = 2 * Nat.pow 2 28) by (apply (Nat.pow_succ_r' 2 28)).
  pose proof (Nat.pow_nonzero 2 28). lia. Qed.

(** A state satisfying [St2] (it is not reachable) in which createEntity destroys the invariant: the world
    after  NewEntity; NewEntity(rel 3 -> e0); RemoveEntity(child); Shrink; RemoveEntity(e0)  with the stale key
    2 (the id of e0, now in the pool's free list) put back into the lookups of archetype 1 with an empty
    table list, and its flag set. createEntity recycles id 2 and clears its flag. *)
Definition r2d_cx_world : W :=
  (Properties.Common.exec Rel2Check.r2_cfg [[0]; [2; 1;3; 1; 3;0]; [11;1]; [14;0]; [11;0]]%Z)
    <| w_archs ::= updf 1 (fun a => a <| a_tgttabs := [(2, [])] |> <| a_reltabs := [[(2, [])]] |>) |>
    <| w_istarget ::= upd 2 true |>.

Theorem r2d_create_refuted : St2 r2d_cx_world /\ room r2d_cx_world /\
  exists e s', create_entity 0 r2d_cx_world = Ok e s' /\ ~ St2 s' /\ ~ r2d_KeysLive r2d_cx_world.
Proof.
  split; [apply st2_b_sound; vm_compute; reflexivity|].
  split.
  { unfold room. assert (L : length (pe (w_pool r2d_cx_world)) = 4) by (vm_compute; reflexivity). rewrite L. exact r2d_small_5. }
  destruct (create_entity 0 r2d_cx_world) as [e s'|er s'] eqn:E; [|vm_compute in E; discriminate].
  exists e, s'. split; [reflexivity|].
  assert (Q : exists a, nth_error (w_archs s') 1 = Some a /\ afind 2 (a_tgttabs a) = Some [] /\ nth 2 (w_istarget s') false = false).
  { vm_compute in E. injection E as _ <-. eexists. split; [reflexivity|]. split; reflexivity. }
  destruct Q as (a & Ha & Hk & Hf). split.
  - intros (_ & (_ & HT) & _). destruct (HT 1 a 2 [] Ha Hk) as [Hc|[Hc|[]]]; [discriminate|congruence].
  - intros HK. assert (Q0 : exists a0, nth_error (w_archs r2d_cx_world) 1 = Some a0 /\ afind 2 (a_tgttabs a0) = Some []).
    { eexists. split; vm_compute; reflexivity. }
    destruct Q0 as (a0 & Ha0 & Hk0). destruct (HK 1 a0 2 [] Ha0 Hk0) as [Hc|(g & Hg)]; [discriminate|].
    assert (Hd : forall g, live r2d_cx_world (2, g) = false) by (intros g0; vm_compute; reflexivity).
    rewrite Hd in Hg. discriminate.
Qed.

(** [write_cell] beyond the table length breaks [WF]: world after NewEntity(comp 0); table 1 has length 1, capacity 2. *)
Definition r2d_cx_world2 : W := Properties.Common.exec Rel2Check.r2_cfg [[1; 1;0]]%Z.

Theorem r2d_write_cell_refuted : St2 r2d_cx_world2 /\
  exists s', write_cell 1 0 1 5%Z r2d_cx_world2 = Ok tt s' /\ ~ St2 s'.
Proof.
  split; [apply st2_b_sound; vm_compute; reflexivity|].
  destruct (write_cell 1 0 1 5%Z r2d_cx_world2) as [[] s'|er s'] eqn:E; [|vm_compute in E; discriminate].
  exists s'. split; [reflexivity|]. intros (HW & _).
  assert (Q : exists t, nth_error (w_tables s') 1 = Some t /\ t_len t = 1 /\ nth_error (t_cols t) 0 = Some [0%Z; 5%Z]).
  { vm_compute in E. injection E as <-. eexists. split; [reflexivity|]. split; reflexivity. }
  destruct Q as (t & Ht & Hl & Hc).
  pose proof (proj1 (Forall_nth_error _ _ _) (wf_tables _ HW) _ _ Ht) as Ok_t.
  destruct (tbl_ok_elim _ Ok_t) as (_ & _ & _ & _ & O5). destruct (O5 0 _ Hc) as (_ & Z0 & _).
  specialize (Z0 1). rewrite Hl in Z0. specialize (Z0 (le_n 1)). cbn in Z0. discriminate.
Qed.

(** ** The additional invariant clause holds in every state of the validation scripts of Rel2Check *)

Fixpoint r2d_all_keys (s : W) (lines : list (list Z)) : bool :=
  (r2d_keys_live_b s &&
   match lines with
   | [] => true
   | l :: rest => r2d_all_keys (fst (step false false s l)) rest
   end)%bool.

Example r2d_keys_live_scripts :
  forallb (fun sc => r2d_all_keys (init_world Rel2Check.r2_cfg) sc)
    [Rel2Check.r2_s1; Rel2Check.r2_s2; Rel2Check.r2_s3; Rel2Check.r2_s4; Rel2Check.r2_s5; Rel2Check.r2_s6; Rel2Check.r2_s7;
     Rel2Check.r2_s8; Rel2Check.r2_s9; Rel2Check.r2_s10; Rel2Check.r2_s11; Rel2Check.r2_n1; Rel2Check.r2_n1'; Rel2Check.r2_n2;
     Rel2Check.r2_n2'] = true.
Proof. vm_compute. reflexivity. Qed.

(** the same along a pseudo-random history of 400 operations (generator of Rel2Check) *)
Fixpoint r2d_fuzz_keys (n : nat) (x : N) (s : W) : bool :=
  match n with
  | O => r2d_keys_live_b s
  | S n' =>
      let l := Rel2Check.r2_gen_line x (N.of_nat (length (w_issued s))) in
      (r2d_keys_live_b s && r2d_fuzz_keys n' (Rel2Check.r2_lcg (Rel2Check.r2_lcg (Rel2Check.r2_lcg (Rel2Check.r2_lcg x)))) (fst (step false false s l)))%bool
  end.

Example r2d_keys_live_fuzz : r2d_fuzz_keys 400 12345 (Properties.Common.exec Rel2Check.r2_cfg Rel2Check.r2_fuzz_pre) = true.
Proof. vm_compute. reflexivity. Qed.

(** ** The theorems are not vacuous: Shrink and Reset of a reachable relation world, BY THE THEOREMS

    The world of script 1 of Rel2Check just before its first Shrink: the parent (2,0) has died, its table 1 is
    free; the child of (3,0) was removed, so table 2 (target (3,0)) is an empty ACTIVE relation table. *)
Definition r2d_ex_world : W := Properties.Common.exec Rel2Check.r2_cfg (firstn 12 Rel2Check.r2_s1).

Lemma r2d_ex_St2 : St2 r2d_ex_world.
Proof. apply st2_b_sound. vm_compute. reflexivity. Qed.

Lemma r2d_ex_hyps :
  r2d_keys_live_b r2d_ex_world = true /\ is_locked r2d_ex_world = false /\
  forallb (fun a => (negb (Nat.eqb (a_numrel a) 0) || negb (is_nil (a_tables a)))%bool) (w_archs r2d_ex_world) = true /\
  (exists t, nth_error (w_tables r2d_ex_world) 2 = Some t /\ t_free t = false /\ t_len t = 0 /\ t_rels t = [(3, (3, 0%N))]) /\
  live r2d_ex_world (7, 0%N) = true /\ tgt r2d_ex_world (7, 0%N) 3 = Some zero_ent.
Proof. vm_compute. repeat split. eexists. repeat split. Qed.

Lemma r2d_hypA_sound : forall s,
  forallb (fun a => (negb (Nat.eqb (a_numrel a) 0) || negb (is_nil (a_tables a)))%bool) (w_archs s) = true ->
  forall aid a, nth_error (w_archs s) aid = Some a -> a_numrel a = 0 -> a_tables a <> [].
Proof.
  intros s Hb aid a Ha Hn. pose proof (r2_forallb_nth _ _ _ _ _ Hb Ha) as H1. cbv beta in H1. rewrite Hn in H1. cbn in H1.
  intros Hc. rewrite Hc in H1. discriminate.
Qed.

Example r2d_ex_shrink_by_theorem : exists b s', w_shrink_core false r2d_ex_world = Ok b s' /\ St2 s' /\ r2d_KeysLive s' /\
  (exists t', nth_error (w_tables s') 2 = Some t' /\ t_free t' = true) /\
  live s' (7, 0%N) = true /\ tgt s' (7, 0%N) 3 = Some zero_ent.
Proof.
  destruct r2d_ex_hyps as (HK & _ & _ & (t & Ht & Hf & Hl & Hr) & L7 & T7).
  destruct (D_shrink_spec r2d_ex_world false r2d_ex_St2) as (b & s' & E & P1 & P2 & P3 & _ & _ & _ & _ & _ & _ & P4 & P5 & P6).
  exists b, s'. split; [exact E|]. split; [exact P1|].
  split; [apply P6; apply (r2d_keys_live_b_sound _ (proj1 r2d_ex_St2) HK)|].
  split.
  - destruct (P4 2 t Ht) as (t' & Ht' & (_ & _ & _ & M4 & M5 & _)). exists t'. split; [exact Ht'|].
    apply (P5 eq_refl 2 t' Ht'); [rewrite M5, Hr; discriminate|rewrite M4; exact Hl].
  - split; [rewrite (proj1 (P2 (7, 0%N))); exact L7|rewrite (P3 (7, 0%N) 3); exact T7].
Qed.

(** The same by the any-clock theorem: under EVERY clock that has not expired before table 2 has been processed
    (e.g. any budget that lasts for three tables, with any behaviour afterwards), the empty relation table 2 is
    freed; the invariants and the content are kept under every clock whatsoever. *)
Example r2d_ex_shrink_clock_by_theorem : forall clock : nat -> bool,
  exists b s', w_shrink_timed clock r2d_ex_world = Ok b s' /\ St2 s' /\ r2d_KeysLive s' /\
  (clock 0 = false -> clock 1 = false -> exists t', nth_error (w_tables s') 2 = Some t' /\ t_free t' = true) /\
  live s' (7, 0%N) = true /\ tgt s' (7, 0%N) 3 = Some zero_ent.
Proof.
  intros clock. destruct r2d_ex_hyps as (HK & Hlk & _ & (t & Ht & Hf & Hl & Hr) & L7 & T7).
  destruct (D_shrink_spec_clock_w r2d_ex_world clock r2d_ex_St2 Hlk)
    as (b & s' & last & E & P1 & P2 & P3 & _ & _ & _ & _ & _ & _ & P4 & B1 & B2 & P5 & P6).
  exists b, s'. split; [exact E|]. split; [exact P1|].
  split; [apply P6; apply (r2d_keys_live_b_sound _ (proj1 r2d_ex_St2) HK)|].
  split.
  - intros C0 C1. destruct (P4 2 t Ht) as (t' & Ht' & (_ & _ & _ & M4 & M5 & _)). exists t'. split; [exact Ht'|].
    apply (P5 2 t'); [|exact Ht'|rewrite M5, Hr; discriminate|rewrite M4; exact Hl].
    assert (H2 : 2 < length (w_tables r2d_ex_world)) by (eapply sa_nth_error_lt; exact Ht).
    destruct B2 as [Hend|Hc]; [lia|].
    destruct last as [|[|last]]; [congruence|congruence|lia].
  - split; [rewrite (proj1 (P2 (7, 0%N))); exact L7|rewrite (P3 (7, 0%N) 3); exact T7].
Qed.

Example r2d_ex_reset_by_theorem : exists s', w_reset r2d_ex_world = Ok tt s' /\ St2 s' /\ (forall e, live s' e = false) /\
  (forall tid t, nth_error (w_tables s') tid = Some t -> t_rels t <> [] -> t_free t = true).
Proof.
  destruct r2d_ex_hyps as (_ & Hl & HA & _).
  destruct (D_reset_spec r2d_ex_world r2d_ex_St2 Hl (r2d_hypA_sound _ HA)) as (s' & E & P1 & _ & P3 & _ & _ & _ & _ & _ & _ & _ & _ & _ & _ & _ & P6 & _).
  exists s'. split; [exact E|]. split; [exact P1|]. split; [exact P3|]. intros tid t Et. apply (P6 tid t Et).
Qed.

(** createEntity and CopyEntity of an entity of a relation table, by the theorems: world of script 9 after
    its third line (entity 4 = handle 2 has components 0 and 3 with target handle 0). *)
Definition r2d_ex_world9 : W := Properties.Common.exec Rel2Check.r2_cfg (firstn 3 Rel2Check.r2_s9).

Lemma r2d_ex9_hyps : st2_b r2d_ex_world9 = true /\ r2d_keys_live_b r2d_ex_world9 = true /\
  live r2d_ex_world9 (4, 0%N) = true /\ tgt r2d_ex_world9 (4, 0%N) 3 = Some (2, 0%N) /\
  has_obs r2d_ex_world9 EvCreateEntity = false /\ has_obs r2d_ex_world9 EvAddRelations = false /\
  length (pe (w_pool r2d_ex_world9)) = 5.
Proof. vm_compute. repeat split. Qed.

Example r2d_ex_copy_by_theorem : exists ne s', w_copy_entity (4, 0%N) r2d_ex_world9 = Ok ne s' /\ St2 s' /\
  live s' ne = true /\ tgt s' ne 3 = Some (2, 0%N) /\ tgt s' (4, 0%N) 3 = Some (2, 0%N).
Proof.
  destruct r2d_ex9_hyps as (HB & _ & L4 & T4 & O1 & O2 & LP).
  pose proof (st2_b_sound _ HB) as HS.
  assert (Hroom : room r2d_ex_world9).
  { unfold room. rewrite LP. pose proof r2d_small_5. pose proof (Nat.pow_succ_r' 2 30). pose proof (Nat.pow_succ_r' 2 29). pose proof (Nat.pow_nonzero 2 29). lia. }
  pose proof (L_copy_entity_spec2_partial r2d_ex_world9 (4, 0%N) HS Hroom (fun _ => L4) O1 O2) as P.
  destruct (w_copy_entity (4, 0%N) r2d_ex_world9) as [ne s'|er s'] eqn:E; [|exfalso; vm_compute in E; discriminate].
  destruct P as (P1 & _ & _ & Pne & _ & P6 & _ & _ & P9 & P10 & _). exists ne, s'. split; [reflexivity|]. split; [exact P1|].
  split; [exact P6|]. split; [rewrite P9; exact T4|].
  assert (Hne : (4, 0%N) <> ne) by (intros Hc; apply Pne; symmetry; exact Hc).
  destruct (P10 (4, 0%N) Hne) as (_ & _ & T). rewrite T. exact T4.
Qed.

Example r2d_ex_create_by_theorem : exists e s', create_entity 0 r2d_ex_world9 = Ok e s' /\ St2 s' /\ r2d_KeysLive s' /\
  live s' e = true /\ tgt s' (4, 0%N) 3 = Some (2, 0%N).
Proof.
  destruct r2d_ex9_hyps as (HB & HK & L4 & T4 & _ & _ & LP).
  pose proof (st2_b_sound _ HB) as HS.
  assert (Hroom : room r2d_ex_world9).
  { unfold room. rewrite LP. pose proof r2d_small_5. pose proof (Nat.pow_succ_r' 2 30). pose proof (Nat.pow_succ_r' 2 29). pose proof (Nat.pow_nonzero 2 29). lia. }
  destruct (L_create_entity_spec2 r2d_ex_world9 HS (r2d_keys_live_b_sound _ (proj1 HS) HK) Hroom)
    as (e & s' & E & P1 & P2 & P3 & P4 & _ & _ & _ & P7 & _).
  exists e, s'. split; [exact E|]. split; [exact P1|]. split; [exact P2|]. split; [exact P4|].
  assert (Hne : (4, 0%N) <> e) by (intros <-; congruence).
  destruct (P7 (4, 0%N) Hne) as (_ & _ & T). rewrite T. exact T4.
Qed.

(** ** Assumption audit *)
Definition r2d_all :=
  (r2d_L_all, r2d_D1_all, r2d_D2_all, r2d_D3_all, r2d_keys_live_b_sound, r2d_create_refuted, r2d_write_cell_refuted,
   r2d_keys_live_scripts, r2d_keys_live_fuzz, r2d_ex_shrink_by_theorem, r2d_ex_reset_by_theorem,
   r2d_ex_copy_by_theorem, r2d_ex_create_by_theorem).
Print Assumptions r2d_all.
