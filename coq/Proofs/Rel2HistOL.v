(** * Rel2HistOL: work package L: lock bits, open queries and the observer manager over histories WITH callbacks.
    Helper prefix [r2ol_].

    Rel2HistQL proves the lock / query clause [LQ] (the lock pool is well formed for a set [held] of bits; a bit is held
    iff it is the [q_lock] of an open query; open queries hold distinct bits) over histories WITHOUT observers.
    Rel2HistO proves the storage invariant [Inv2O] over histories WITH observers (class [rel_o_op]: all of Rel2HistQ plus
    OObsNew / Register / Unregister / Emit, arbitrary arguments, any callback kind) and leaves open whether a callback
    can fail in a reachable state - in the middle of Remove / Exchange / SetRelations / RemoveEntity that would leak the
    lock bit the operation took around its removal events.

    This file closes the loop. The combined invariant is

      [Inv2OL s n := Inv2O s n /\ LQ s /\ MInvO s]

    with [LQ] UNCHANGED (between two operations no callback bit is held; the bits a callback or an operation takes for
    itself are given back before the operation ends) and [MInvO] the manager invariant of ObsLockInv (the part of
    [ObsProofs.MInv] that survives arbitrary observer objects and rejected registrations).

    Method. The side state (lock, log, observer manager) and the storage are followed SEPARATELY:
    - Part 1: every storage computation of the structural operations leaves the side state alone ([r2ol_sdf], a frame
      calculus; unconditional, unlike [r2l_sd] of Rel2HistQL which assumes "no observer");
    - ObsLockInv: every dispatch returns and keeps the side invariant [ol_SI held] (lock well formed with [held] held and
      [MInvO]) provided fewer than 64 bits are held and the entity has a row if the pool calls it alive ([bv_snap_ok]);
    - Part 2: the lockstep judgement [r2ol_K held m1 m2 s]: under [ol_SI held s] the run of [m1] on the erased world
      ([oe_E] of ObsErase) is EXACTLY the erasure of the run of [m2] on [s], and [ol_SI held] holds at the end, in both
      outcomes. The storage fact a dispatch needs is read off the erased run with the specifications of Rel2Hist
      ([r2e_new_entity_any], [r2e_add_any], [r2o_same_pre_remove], ...): at every dispatch point the entity is live.
    - Part 3: the eleven structural operations ([r2ol_step_op]); Part 4: the other operations of the class, [r2ol_emit_cases];
    - Part 5: [step_inv2OL], [r2ol_init], [reachable_inv2OL].

    Consequences (Part 6).
    (a) [r2ol_struct_exact] / [reachable_struct_exact]: on an unlocked world a structural operation with observers has EXACTLY
        the outcome of the erased run - same value, same failure, same storage: no callback fails, the operation's own lock bit
        is released. [r2ol_step_erasure] drops the hypothesis "the step returned" of [r2o_step_erasure];
        [remove_target_detaches_OL] drops the [Err] branch of [remove_target_detaches_O].
    (b) [r2ol_emit_cases] / [r2ol_emit_err] / [r2ol_emit_ok]: Emit fails only if its argument check [r2ol_emit_args] rejects it
        (then with that error) or, with EBits, when all 64 lock bits are held by open queries ([r2ol_open_count s = 64]); the
        state is untouched in both cases. (With 64 open queries Emit still RETURNS if no observer matches.)
    (c) [reachable_locked_iff_open_O], [reachable_open_bits_O], [reachable_close_ok_O], [reachable_held_count_O].
    (d) [reachable_stats_observers_O]: the observer figure of Stats is [w_ototal] = the number of observer objects that are in
        the list of their event ([r2ol_listed]); every listed object carries an id, the converse is false
        ([r2ol_rej_shape], [r2ol_rej_MInv_refuted]: [ObsProofs.MInv] fails in a reachable state).
    Non-vacuity: Part 7 (the scripts of Rel2HistO: callbacks of all three kinds; 64 open queries; a rejected registration). *)
From Ark Require Import Model.Base Model.Mask Model.Pool Model.Util Model.World Model.Run.
From Ark Require Import Proofs.TableProofs Proofs.MaskProofs Proofs.Hoare Proofs.WF Proofs.StorageA Proofs.StorageBDefs
  Proofs.StorageB_sb1 Proofs.StorageB_sb2 Proofs.StorageB_sb3 Proofs.LockWorld Proofs.StorageC Proofs.RelProofs
  Proofs.CacheProofs Proofs.QueryProofs Proofs.ResetShrinkProofs
  Proofs.Rel2Defs Proofs.Rel2Struct Proofs.Rel2Remove Proofs.Rel2SetRel Proofs.Rel2Ops Proofs.Rel2Maint Proofs.Rel2Hist
  Proofs.Rel2Cache Proofs.Rel2HistQ Proofs.Rel2HistQL Proofs.ObsErase Proofs.Rel2HistO Proofs.ObsLockInv.
From Ark Require Properties.Common Proofs.Rel2Check Proofs.StorageD Proofs.ObsProofs Proofs.BatchView Proofs.ViewProofs
  Proofs.StatsProofs Proofs.LockProofs Proofs.LockSpec.
From RecordUpdate Require Import RecordSet.
Import RecordSetNotations.
From Coq Require Import Lia Permutation.
Close Scope Z_scope.

Local Notation obj := ObsProofs.obj.
Local Notation bv_lock_ok := BatchView.bv_lock_ok.
Local Notation bv_snap_ok := BatchView.bv_snap_ok.

(* ================================================================================================ *)
(** * Part 1: the storage computations leave the side state (lock, log, observer manager) alone

    [r2ol_sdf s0 m]: started in a state with the side state of [s0], [m] ends (in both outcomes) in a state with
    the side state of [s0]. Unlike [r2l_sd] of Rel2HistQL this is UNCONDITIONAL (worlds with observers): it is
    proved for the storage computations only, not for the dispatches. *)

Definition r2ol_sdf (s0 : W) {A} (m : MW A) : Prop := forall s, side_same s0 s -> side_same s0 (state_of (m s)).
Definition r2ol_sdp {A} (m : MW A) : Prop := forall s0, r2ol_sdf s0 m.

Lemma r2ol_sdp_at : forall A (m : MW A) s, r2ol_sdp m -> side_same s (state_of (m s)).
Proof. intros A m s H. apply (H s s). apply sa_side_same_refl. Qed.

Lemma r2ol_sdf_ro : forall s0 A (m : MW A), readonly m -> r2ol_sdf s0 m.
Proof. intros s0 A m H s Hs. rewrite (H s). exact Hs. Qed.
Lemma r2ol_sdf_bind : forall s0 A B (m : MW A) (k : A -> MW B), r2ol_sdf s0 m -> (forall a, r2ol_sdf s0 (k a)) -> r2ol_sdf s0 (bind m k).
Proof.
  intros s0 A B m k Hm Hk s Hs. unfold bind. specialize (Hm s Hs). destruct (m s) as [a s1|er s1]; cbn [state_of] in Hm; [apply Hk; exact Hm|exact Hm].
Qed.
Lemma r2ol_sdf_getbind : forall s0 A (k : W -> MW A), (forall s1, side_same s0 s1 -> r2ol_sdf s0 (k s1)) -> r2ol_sdf s0 (bind get k).
Proof. intros s0 A k H s Hs. unfold bind, get. apply (H s Hs s Hs). Qed.
Lemma r2ol_sdf_put : forall s0 s', side_same s0 s' -> r2ol_sdf s0 (put s').
Proof. intros s0 s' H s _. exact H. Qed.
Lemma r2ol_sdf_modify : forall s0 (f : W -> W), (forall s, side_same s (f s)) -> r2ol_sdf s0 (modify f).
Proof. intros s0 f H s Hs. apply (sa_side_same_trans s0 s _ Hs). apply H. Qed.
Lemma r2ol_sdf_forM : forall s0 A (l : list A) (f : A -> MW unit), (forall a, r2ol_sdf s0 (f a)) -> r2ol_sdf s0 (forM_ l f).
Proof.
  intros s0 A l f H. induction l as [|x l IH]; cbn [forM_]; [apply r2ol_sdf_ro, readonly_ret|].
  apply r2ol_sdf_bind; [apply H|intros _; exact IH].
Qed.
Lemma r2ol_sdf_mapM : forall s0 A B (l : list A) (f : A -> MW B), (forall a, r2ol_sdf s0 (f a)) -> r2ol_sdf s0 (mapM l f).
Proof.
  intros s0 A B l f H. induction l as [|x l IH]; cbn [mapM]; [apply r2ol_sdf_ro, readonly_ret|].
  apply r2ol_sdf_bind; [apply H|intros y]. apply r2ol_sdf_bind; [exact IH|intros ys]. apply r2ol_sdf_ro, readonly_ret.
Qed.
Lemma r2ol_sdf_whenM : forall s0 b m, r2ol_sdf s0 m -> r2ol_sdf s0 (whenM b m).
Proof. intros s0 b m H. destruct b; cbn [whenM]; [exact H|apply r2ol_sdf_ro, readonly_ret]. Qed.

(** a record update of a storage field keeps the side state *)
Ltac r2ol_side := intros; unfold side_same; repeat split.

Lemma r2ol_side_upd : forall s0 s1 s', side_same s0 s1 -> side_same s1 s' -> side_same s0 s'.
Proof. intros s0 s1 s' H1 H2. apply (sa_side_same_trans s0 s1 s' H1 H2). Qed.

Create HintDb r2ol_sd discriminated.

Ltac r2ol_sd_step :=
  lazymatch goal with
  | |- r2ol_sdf _ (let x := _ in _) => cbv zeta
  | |- r2ol_sdf _ (ret _) => apply r2ol_sdf_ro, readonly_ret
  | |- r2ol_sdf _ (fail _) => apply r2ol_sdf_ro, readonly_fail
  | |- r2ol_sdf _ get => apply r2ol_sdf_ro, readonly_get
  | |- r2ol_sdf _ (guard _ _) => apply r2ol_sdf_ro, readonly_guard
  | |- r2ol_sdf _ (of_opt _ _) => apply r2ol_sdf_ro, readonly_of_opt
  | |- r2ol_sdf _ (getT _) => apply r2ol_sdf_ro, readonly_getT
  | |- r2ol_sdf _ (getA _) => apply r2ol_sdf_ro, r2e_ro_getA
  | |- r2ol_sdf _ (getF _) => apply r2ol_sdf_ro, readonly_getF
  | |- r2ol_sdf _ (get_index _) => apply r2ol_sdf_ro, readonly_get_index
  | |- r2ol_sdf _ (arch_mask_of_table _) => apply r2ol_sdf_ro, sc_ro_arch_mask
  | |- r2ol_sdf _ check_locked => apply r2ol_sdf_ro, sc_ro_check_locked
  | |- r2ol_sdf _ (resolveH _) => apply r2ol_sdf_ro, readonly_resolveH
  | |- r2ol_sdf _ (resolveR _) => apply r2ol_sdf_ro, readonly_resolveR
  | |- r2ol_sdf _ (exchange_targets _ _) => apply r2ol_sdf_ro, oe_ro_exchange_targets
  | |- r2ol_sdf _ (put _) => apply r2ol_sdf_put; eapply r2ol_side_upd; [eassumption|r2ol_side]
  | |- r2ol_sdf _ (modify _) => apply r2ol_sdf_modify; r2ol_side
  | |- r2ol_sdf _ (modT _ _) => apply r2ol_sdf_modify; r2ol_side
  | |- r2ol_sdf _ (setT _ _) => apply r2ol_sdf_modify; r2ol_side
  | |- r2ol_sdf _ (modA _ _) => apply r2ol_sdf_modify; r2ol_side
  | |- r2ol_sdf _ (whenM _ _) => apply r2ol_sdf_whenM
  | |- r2ol_sdf _ (forM_ _ _) => apply r2ol_sdf_forM; intros ?
  | |- r2ol_sdf _ (mapM _ _) => apply r2ol_sdf_mapM; intros ?
  | |- r2ol_sdf _ (bind get _) => apply r2ol_sdf_getbind; intros ? ?
  | |- r2ol_sdf _ (bind _ _) => apply r2ol_sdf_bind; [|intros ?]
  | |- r2ol_sdf _ (let '(_, _) := ?x in _) => destruct x
  | |- r2ol_sdf _ (match ?x with _ => _ end) => destruct x
  | |- r2ol_sdf _ (if ?x then _ else _) => destruct x
  end.
Ltac r2ol_sd_auto := repeat first [r2ol_sd_step | solve [auto 2 with r2ol_sd nocore]].

Lemma r2ol_sdf_cache_add_table : forall s0 tid t am, r2ol_sdf s0 (cache_add_table tid t am).
Proof. intros. unfold cache_add_table. r2ol_sd_auto. Qed.
Lemma r2ol_sdf_cache_remove_table : forall s0 tid, r2ol_sdf s0 (cache_remove_table tid).
Proof. intros. unfold cache_remove_table. r2ol_sd_auto. Qed.
Lemma r2ol_sdf_create_archetype_bare : forall s0 m, r2ol_sdf s0 (create_archetype_bare m).
Proof. intros. unfold create_archetype_bare. r2ol_sd_auto. Qed.
Lemma r2ol_sdf_check_rel : forall s0 r, r2ol_sdf s0 (check_rel r).
Proof. intros. unfold check_rel. r2ol_sd_auto. Qed.
Lemma r2ol_sdf_register_targets : forall s0 rels, r2ol_sdf s0 (register_targets rels).
Proof. intros. unfold register_targets. r2ol_sd_auto. Qed.
#[export] Hint Resolve r2ol_sdf_cache_add_table r2ol_sdf_cache_remove_table r2ol_sdf_create_archetype_bare r2ol_sdf_check_rel
  r2ol_sdf_register_targets : r2ol_sd.

Lemma r2ol_ro_find_exact : forall tabs rels, readonly (fun s => find_exact s tabs rels).
Proof.
  intros tabs rels s. induction tabs as [|t rest IH]; cbn [find_exact]; [reflexivity|].
  destruct (nth_error (w_tables s) t) as [tb|]; [|reflexivity].
  destruct (tbl_matches_exact tb rels); [reflexivity|exact IH|reflexivity].
Qed.
Lemma r2ol_sdf_find_exact : forall s0 tabs rels, r2ol_sdf s0 (fun s => find_exact s tabs rels).
Proof. intros. apply r2ol_sdf_ro, r2ol_ro_find_exact. Qed.
#[export] Hint Resolve r2ol_sdf_find_exact : r2ol_sd.

Lemma r2ol_sdf_arch_get_table : forall s0 a rels, r2ol_sdf s0 (arch_get_table a rels).
Proof. intros. unfold arch_get_table. r2ol_sd_auto. Qed.
#[export] Hint Resolve r2ol_sdf_arch_get_table : r2ol_sd.
Lemma r2ol_sdf_create_table : forall s0 aid rels, r2ol_sdf s0 (create_table aid rels).
Proof. intros. unfold create_table. r2ol_sd_auto. Qed.
#[export] Hint Resolve r2ol_sdf_create_table : r2ol_sd.
Lemma r2ol_sdf_create_archetype : forall s0 m, r2ol_sdf s0 (create_archetype m).
Proof. intros. unfold create_archetype. r2ol_sd_auto. Qed.
#[export] Hint Resolve r2ol_sdf_create_archetype : r2ol_sd.
Lemma r2ol_sdf_find_or_create_arch : forall s0 m, r2ol_sdf s0 (find_or_create_arch m).
Proof. intros. unfold find_or_create_arch. r2ol_sd_auto. Qed.
Lemma r2ol_sdf_get_or_create_table : forall s0 aid rels, r2ol_sdf s0 (get_or_create_table aid rels).
Proof. intros. unfold get_or_create_table. r2ol_sd_auto. Qed.
#[export] Hint Resolve r2ol_sdf_find_or_create_arch r2ol_sdf_get_or_create_table : r2ol_sd.

Lemma r2ol_sdf_gf_remove : forall s0 ids m, r2ol_sdf s0 (gf_remove ids m).
Proof.
  intros s0 ids. induction ids as [|c t IH]; intros m; cbn [gf_remove]; [apply r2ol_sdf_ro, readonly_ret|].
  destruct (mk_get m c); [apply IH|apply r2ol_sdf_ro, readonly_fail].
Qed.
Lemma r2ol_sdf_gf_add : forall s0 st ids m, r2ol_sdf s0 (gf_add st ids m).
Proof.
  intros s0 st ids. induction ids as [|c t IH]; intros m; cbn [gf_add]; [apply r2ol_sdf_ro, readonly_ret|].
  destruct (mk_get m c); [apply r2ol_sdf_ro, readonly_fail|].
  destruct (match st with Some st0 => mk_get st0 c | None => false end); [apply r2ol_sdf_ro, readonly_fail|apply IH].
Qed.
#[export] Hint Resolve r2ol_sdf_gf_remove r2ol_sdf_gf_add : r2ol_sd.

Lemma r2ol_sdf_find_add : forall s0 old add rels m0, r2ol_sdf s0 (find_or_create_table_add old add rels m0).
Proof. intros. unfold find_or_create_table_add. r2ol_sd_auto. Qed.
Lemma r2ol_sdf_find_remove : forall s0 old rem m0, r2ol_sdf s0 (find_or_create_table_remove old rem m0).
Proof. intros. unfold find_or_create_table_remove. r2ol_sd_auto. Qed.
Lemma r2ol_sdf_find_exchange : forall s0 old add rem rels m0, r2ol_sdf s0 (find_or_create_table old add rem rels m0).
Proof. intros. unfold find_or_create_table. r2ol_sd_auto. Qed.
#[export] Hint Resolve r2ol_sdf_find_add r2ol_sdf_find_remove r2ol_sdf_find_exchange : r2ol_sd.

Lemma r2ol_sdf_set_index : forall s0 id v, r2ol_sdf s0 (set_index id v).
Proof.
  intros s0 id v. unfold set_index. apply r2ol_sdf_modify. intros s. destruct (Nat.eqb id (length (w_index s))); unfold side_same; repeat split.
Qed.
Lemma r2ol_sdf_pool_getM : forall s0, r2ol_sdf s0 pool_getM.
Proof. intros. unfold pool_getM. r2ol_sd_auto. Qed.
Lemma r2ol_sdf_pool_recycleM : forall s0 e, r2ol_sdf s0 (pool_recycleM e).
Proof. intros. unfold pool_recycleM. r2ol_sd_auto. Qed.
Lemma r2ol_sdf_tbl_addM : forall s0 tid e, r2ol_sdf s0 (tbl_addM tid e).
Proof. intros. unfold tbl_addM. r2ol_sd_auto. Qed.
Lemma r2ol_sdf_remove_row : forall s0 tid row, r2ol_sdf s0 (remove_row tid row).
Proof. intros. unfold remove_row. r2ol_sd_auto. Qed.
Lemma r2ol_sdf_copy_row : forall s0 old new m row nidx, r2ol_sdf s0 (copy_row old new m row nidx).
Proof. intros. unfold copy_row. r2ol_sd_auto. Qed.
Lemma r2ol_sdf_copy_all : forall s0 src dst row nidx, r2ol_sdf s0 (copy_all src dst row nidx).
Proof. intros. unfold copy_all. r2ol_sd_auto. Qed.
Lemma r2ol_sdf_move_entities : forall s0 src dst n, r2ol_sdf s0 (move_entities src dst n).
Proof. intros. unfold move_entities. r2ol_sd_auto. Qed.
Lemma r2ol_sdf_set_index_direct : forall s0 e tid row, r2ol_sdf s0 (set_index_direct e tid row).
Proof. intros. unfold set_index_direct. r2ol_sd_auto. Qed.
Lemma r2ol_sdf_free_table : forall s0 aid tid, r2ol_sdf s0 (free_table aid tid).
Proof. intros. unfold free_table. r2ol_sd_auto. Qed.
#[export] Hint Resolve r2ol_sdf_set_index r2ol_sdf_pool_getM r2ol_sdf_pool_recycleM r2ol_sdf_tbl_addM r2ol_sdf_remove_row
  r2ol_sdf_copy_row r2ol_sdf_copy_all r2ol_sdf_move_entities r2ol_sdf_set_index_direct r2ol_sdf_free_table : r2ol_sd.

Lemma r2ol_sdf_etu : forall s0 t rels, r2ol_sdf s0 (exchange_targets_unchecked t rels).
Proof.
  intros s0 t rels. apply r2ol_sdf_ro, oe_const_ro. unfold exchange_targets_unchecked.
  apply oe_const_bind; [apply oe_const_etu_go|]. intros tg. apply oe_const_ret.
Qed.
#[export] Hint Resolve r2ol_sdf_etu : r2ol_sd.

Lemma r2ol_sdf_create_entity : forall s0 tid, r2ol_sdf s0 (create_entity tid).
Proof. intros. unfold create_entity. r2ol_sd_auto. Qed.
Lemma r2ol_sdf_cleanup : forall s0 e, r2ol_sdf s0 (cleanup_archetypes e).
Proof. intros. unfold cleanup_archetypes. r2ol_sd_auto. Qed.
Lemma r2ol_sdf_new_entity : forall s0 ids rels, r2ol_sdf s0 (new_entity ids rels).
Proof. intros. unfold new_entity. r2ol_sd_auto. Qed.
Lemma r2ol_sdf_w_add : forall s0 e add rels, r2ol_sdf s0 (w_add e add rels).
Proof. intros. unfold w_add. r2ol_sd_auto. Qed.
#[export] Hint Resolve r2ol_sdf_create_entity r2ol_sdf_cleanup r2ol_sdf_new_entity r2ol_sdf_w_add : r2ol_sd.

Lemma r2ol_sdf_cell_of : forall s0 debug e c, r2ol_sdf s0 (cell_of debug e c).
Proof. intros. apply r2ol_sdf_ro, sc_ro_cell_of. Qed.
Lemma r2ol_sdf_write_cell : forall s0 tid ci row v, r2ol_sdf s0 (write_cell tid ci row v).
Proof. intros. unfold write_cell. r2ol_sd_auto. Qed.
#[export] Hint Resolve r2ol_sdf_cell_of r2ol_sdf_write_cell : r2ol_sd.

Lemma r2ol_sdp_OWrite : forall debug h c v, r2ol_sdp (step_op debug (OWrite h c v)).
Proof. intros debug h c v s0. cbn [step_op]. r2ol_sd_auto. Qed.

(* ================================================================================================ *)
(** * Part 2: the lockstep judgement: the real run against the erased run, with the side invariant

    [r2ol_K held m1 m2 s]: if the side invariant holds in [s] with [held] held, the run of [m1] on the erased world
    is EXACTLY the erasure of the run of [m2] on [s] (same outcome, same value, same error), and the side invariant
    holds again in the final state, in both outcomes. Compared with [oe_J] of ObsErase there is no "failed inside
    a callback" alternative: under the side invariant callbacks do not fail. *)

Definition r2ol_K (held : list nat) {A} (m1 m2 : MW A) (s : W) : Prop :=
  ol_SI held s -> m1 (oe_E s) = oe_rmap (m2 s) /\ ol_SI held (state_of (m2 s)).

Lemma r2ol_K_hom_at : forall held A (m1 m2 : MW A) s, m1 (oe_E s) = oe_rmap (m2 s) -> side_same s (state_of (m2 s)) -> r2ol_K held m1 m2 s.
Proof. intros held A m1 m2 s H1 H2 HS. split; [exact H1|apply (ol_SI_side held s _ H2 HS)]. Qed.

Lemma r2ol_K_hom : forall held A (m1 m2 : MW A) s, oe_hom m1 m2 -> r2ol_sdp m2 -> r2ol_K held m1 m2 s.
Proof. intros held A m1 m2 s H1 H2. apply r2ol_K_hom_at; [apply H1|apply r2ol_sdp_at; exact H2]. Qed.

Lemma r2ol_K_homL : forall held A (m1 m2 : MW A) s, oe_homL m1 m2 -> is_locked s = false -> r2ol_sdp m2 -> r2ol_K held m1 m2 s.
Proof. intros held A m1 m2 s H1 Hl H2. apply r2ol_K_hom_at; [apply (H1 s Hl)|apply r2ol_sdp_at; exact H2]. Qed.

Lemma r2ol_K_ret : forall held A (a : A) s, r2ol_K held (ret a) (ret a) s.
Proof. intros held A a s HS. split; [reflexivity|exact HS]. Qed.

Lemma r2ol_K_bind : forall held A B (m1 m2 : MW A) (k1 k2 : A -> MW B) s, r2ol_K held m1 m2 s ->
  (forall a s1, m2 s = Ok a s1 -> m1 (oe_E s) = Ok a (oe_E s1) -> r2ol_K held (k1 a) (k2 a) s1) ->
  r2ol_K held (bind m1 k1) (bind m2 k2) s.
Proof.
  intros held A B m1 m2 k1 k2 s Hm Hk HS. destruct (Hm HS) as (E & HS1). unfold bind. rewrite E.
  destruct (m2 s) as [a s1|er s1] eqn:E2; cbn [oe_rmap state_of] in *.
  - apply (Hk a s1 eq_refl E HS1).
  - split; [reflexivity|exact HS1].
Qed.

(** a readonly head keeps the state *)
Lemma r2ol_K_bind_ro : forall held A B (m1 m2 : MW A) (k1 k2 : A -> MW B) s, oe_hom m1 m2 -> readonly m2 ->
  (forall a, m2 s = Ok a s -> r2ol_K held (k1 a) (k2 a) s) -> r2ol_K held (bind m1 k1) (bind m2 k2) s.
Proof.
  intros held A B m1 m2 k1 k2 s H Hro Hk. apply r2ol_K_bind.
  - apply r2ol_K_hom_at; [apply H|rewrite (Hro s); apply sa_side_same_refl].
  - intros a s1 E _. pose proof (Hro s) as Hs. rewrite E in Hs. cbn [state_of] in Hs. subst s1. apply Hk. exact E.
Qed.

Lemma r2ol_K_getbind : forall held B (k1 k2 : W -> MW B) s, r2ol_K held (k1 (oe_E s)) (k2 s) s -> r2ol_K held (bind get k1) (bind get k2) s.
Proof. intros held B k1 k2 s H. exact H. Qed.

Lemma r2ol_K_check : forall held A (k1 k2 : MW A) s, is_locked s = false -> r2ol_K held k1 k2 s ->
  r2ol_K held (check_locked ;;; k1) (check_locked ;;; k2) s.
Proof.
  intros held A k1 k2 s Hl H. unfold r2ol_K. rewrite (sa_bind_ok (sb1_check_locked_ok s Hl)).
  rewrite (sa_bind_ok (sb1_check_locked_ok (oe_E s) (oe_E_unlocked s))). exact H.
Qed.

Lemma r2ol_K_guard : forall held A b er (k1 k2 : MW A) s, (b = true -> r2ol_K held k1 k2 s) ->
  r2ol_K held (guard b er ;;; k1) (guard b er ;;; k2) s.
Proof.
  intros held A b er k1 k2 s H. destruct b.
  - unfold r2ol_K. rewrite !sb2_bind_guard_true. apply H. reflexivity.
  - unfold r2ol_K. rewrite !sb2_bind_guard_false. intros HS. split; [reflexivity|exact HS].
Qed.

(** a dispatch (no-op on the erased world) followed by a continuation *)
Lemma r2ol_K_fire : forall held e B (f1 f2 : MW unit) (k1 k2 : unit -> MW B) s, ol_evp held e f2 ->
  f1 (oe_E s) = Ok tt (oe_E s) -> length held < 64 -> bv_snap_ok s e ->
  (forall s1, f2 s = Ok tt s1 -> storage_same s s1 -> r2ol_K held (k1 tt) (k2 tt) s1) ->
  r2ol_K held (bind f1 k1) (bind f2 k2) s.
Proof.
  intros held e B f1 f2 k1 k2 s Hev E1 Hlt Hsn Hk HS. destruct (Hev s HS Hlt Hsn) as ([] & s1 & E2 & (HS1 & SS1 & _)).
  rewrite (sa_bind_ok E1), (sa_bind_ok E2). specialize (Hk s1 E2 SS1 HS1).
  rewrite (oe_E_of_storage_same s s1 SS1) in Hk. exact Hk.
Qed.

(** a dispatch at the end *)
Lemma r2ol_K_fire_end : forall held e (f1 f2 : MW unit) s, ol_evp held e f2 ->
  f1 (oe_E s) = Ok tt (oe_E s) -> length held < 64 -> bv_snap_ok s e -> r2ol_K held f1 f2 s.
Proof.
  intros held e f1 f2 s Hev E1 Hlt Hsn HS. destruct (Hev s HS Hlt Hsn) as ([] & s1 & E2 & (HS1 & SS1 & _)).
  rewrite E1, E2. cbn [oe_rmap state_of]. rewrite (oe_E_of_storage_same s s1 SS1). split; [reflexivity|exact HS1].
Qed.

Lemma r2ol_live_E : forall s e, live (oe_E s) e = live s e.
Proof. intros s e. reflexivity. Qed.

Lemma r2ol_snap_live : forall s e, live (oe_E s) e = true -> bv_snap_ok s e.
Proof. intros s e H. apply BatchView.bv_snap_ok_live. exact H. Qed.

Lemma r2ol_nil_lt : length (@nil nat) < 64.
Proof. cbn. lia. Qed.
Lemma r2ol_nil_lt1 : S (length (@nil nat)) < 64.
Proof. cbn. lia. Qed.

Lemma r2ol_unlocked : forall s, ol_SI [] s -> is_locked s = false.
Proof. intros s (HL & _). rewrite (BatchView.bv_is_locked s [] HL). reflexivity. Qed.

(* ================================================================================================ *)
(** * Part 3: the structural operations on an unlocked world with observers *)

Lemma r2ol_handle : forall h s e, resolveH h s = Ok e s -> handle s h = Some e.
Proof. intros h s e E. rewrite sc_resolveH in E. destruct (handle s h) as [e0|]; [injection E as ->; reflexivity|discriminate E]. Qed.

Section r2ol_ops.
Variables (debug : bool) (s : W) (n : nat).
Hypothesis HIO : Inv2O s n.
Hypothesis Hn : n + 4 < Nat.pow 2 31.
Hypothesis Hl : is_locked s = false.
Let HI : Inv2 (oe_E s) n := r2o_Inv2_E s n HIO.
Let HS : St2 (oe_E s) := proj1 HI.
Let HW : WF (oe_E s) := proj1 HS.
Let HK : r2d_KeysLive (oe_E s) := proj1 (proj2 HI).
Let Hiss : issued_ok (oe_E s) n := proj2 (proj2 (proj2 HI)).
Let Hroom : room (oe_E s) := r2e_room (oe_E s) n HI Hn.

(** an entity named by a handle that the pool calls alive is stored *)
Lemma r2ol_handle_live : forall h e, handle s h = Some e -> alive s e = true -> live (oe_E s) e = true.
Proof. intros h e Hh Ha. apply (r2e_handle_alive_live (oe_E s) n h e HW Hiss Hh Ha). Qed.

Lemma r2ol_rels_hyp : forall hrels rels, resolveR hrels s = Ok rels s ->
  forall r, In r rels -> r2b_handle_ok (oe_E s) (snd r) /\ fst (snd r) < length (w_istarget (oe_E s)).
Proof.
  intros hrels rels ER. apply (r2e_rels_hyp (oe_E s) n HI hrels rels). apply r2o_resolved. exists s. exact ER.
Qed.

Lemma r2ol_op_ONewEntity : r2ol_K [] (step_op debug ONewEntity) (step_op debug ONewEntity) s.
Proof.
  cbn [step_op]. apply r2ol_K_check; [exact Hl|].
  apply r2ol_K_bind; [apply r2ol_K_hom; [apply oe_hom_create_entity|intros s0; apply r2ol_sdf_create_entity]|].
  intros e s1 E1 E1'.
  apply r2ol_K_bind_ro; [apply oe_hom_arch_mask|apply sc_ro_arch_mask|]. intros m Em.
  assert (Hlive : live (oe_E s1) e = true).
  { destruct (L_create_entity_spec2 (oe_E s) HS HK Hroom) as (e' & s1' & E & _ & _ & _ & L & _).
    rewrite E1' in E. injection E as <- <-. exact L. }
  apply (r2ol_K_fire [] e); [apply ol_evp_fire_create|apply oe_E_fire_create|apply r2ol_nil_lt|apply r2ol_snap_live; exact Hlive|].
  intros s2 _ _. apply r2ol_K_ret.
Qed.

Lemma r2ol_op_OUNew : forall ids, registered s ids -> r2ol_K [] (step_op debug (OUNew ids)) (step_op debug (OUNew ids)) s.
Proof.
  intros ids Hreg. cbn [step_op].
  apply r2ol_K_bind; [apply r2ol_K_homL; [apply oe_homL_new_entity|exact Hl|intros s0; apply r2ol_sdf_new_entity]|].
  intros [e m] s1 E1 E1'. cbv beta iota.
  assert (Hlive : live (oe_E s1) e = true).
  { pose proof (r2e_new_entity_any (oe_E s) ids [] HS Hroom Hreg (fun r (Hr : In r []) => match Hr with end)) as H.
    rewrite E1' in H. apply H. }
  apply (r2ol_K_fire [] e); [apply ol_evp_fire_create|apply oe_E_fire_create|apply r2ol_nil_lt|apply r2ol_snap_live; exact Hlive|].
  intros s2 _ _. apply r2ol_K_ret.
Qed.

Lemma r2ol_op_OUNewRel : forall ids hrels, registered s ids ->
  r2ol_K [] (step_op debug (OUNewRel ids hrels)) (step_op debug (OUNewRel ids hrels)) s.
Proof.
  intros ids hrels Hreg. cbn [step_op].
  apply r2ol_K_bind_ro; [apply oe_hom_resolveR|apply readonly_resolveR|]. intros rels ER.
  apply r2ol_K_bind; [apply r2ol_K_homL; [apply oe_homL_new_entity|exact Hl|intros s0; apply r2ol_sdf_new_entity]|].
  intros [e m] s1 E1 E1'. cbv beta iota.
  assert (Hlive : live (oe_E s1) e = true).
  { pose proof (r2e_new_entity_any (oe_E s) ids rels HS Hroom Hreg (r2ol_rels_hyp hrels rels ER)) as H.
    rewrite E1' in H. apply H. }
  apply (r2ol_K_fire [] e); [apply ol_evp_fire_create|apply oe_E_fire_create|apply r2ol_nil_lt|apply r2ol_snap_live; exact Hlive|].
  intros s2 _ SS2.
  apply (r2ol_K_fire [] e); [apply ol_evp_whenM, ol_evp_fire_create_rel|destruct (negb (is_nil rels)); reflexivity|apply r2ol_nil_lt| |].
  { apply (BatchView.bv_snap_ok_same s1 s2 e SS2). apply r2ol_snap_live. exact Hlive. }
  intros s3 _ _. apply r2ol_K_ret.
Qed.

(** Copy: the dispatch happens inside [w_copy_entity], after the storage part *)
Lemma r2ol_K_w_copy_entity : forall h e, handle s h = Some e -> r2ol_K [] (w_copy_entity e) (w_copy_entity e) s.
Proof.
  intros h e Hh. unfold w_copy_entity. apply r2ol_K_check; [exact Hl|]. apply r2ol_K_getbind. cbv beta. oe_E_norm s.
  apply r2ol_K_guard. intros Ha.
  apply r2ol_K_bind; [apply r2ol_K_hom; [apply oe_hom_pool_getM|intros s0; apply r2ol_sdf_pool_getM]|]. intros ne s1 _ F1.
  apply r2ol_K_bind_ro; [apply oe_hom_get_index|apply readonly_get_index|]. intros [tid row] Eix. cbv beta iota.
  apply r2ol_K_bind; [apply r2ol_K_hom; [apply oe_hom_tbl_addM|intros s0; apply r2ol_sdf_tbl_addM]|]. intros idx s2 _ F2.
  apply r2ol_K_bind; [apply r2ol_K_hom; [apply oe_hom_set_index|intros s0; apply r2ol_sdf_set_index]|]. intros [] s3 _ F3.
  apply r2ol_K_bind; [apply r2ol_K_hom; [apply oe_hom_copy_all|intros s0; apply r2ol_sdf_copy_all]|]. intros [] s4 _ F4.
  apply r2ol_K_bind_ro; [apply oe_hom_getT|apply readonly_getT|]. intros t Et.
  apply r2ol_K_bind_ro; [apply oe_hom_getA|apply r2e_ro_getA|]. intros a Ea.
  (* the erased run, replayed: it returns [ne] in the erased current state *)
  assert (Hrun : w_copy_entity e (oe_E s) = Ok ne (oe_E s4)).
  { unfold w_copy_entity. rewrite (sa_bind_ok (sb1_check_locked_ok (oe_E s) (oe_E_unlocked s))). rewrite sb2_bind_get.
    oe_E_norm s. rewrite Ha, sb2_bind_guard_true. rewrite (sa_bind_ok F1).
    rewrite (sa_bind_ok (oe_hom_ok _ _ _ _ _ _ (oe_hom_get_index e) Eix)). cbv beta iota.
    rewrite (sa_bind_ok F2), (sa_bind_ok F3), (sa_bind_ok F4).
    rewrite (sa_bind_ok (oe_hom_ok _ _ _ _ _ _ (oe_hom_getT tid) Et)).
    rewrite (sa_bind_ok (oe_hom_ok _ _ _ _ _ _ (oe_hom_getA (t_arch t)) Ea)).
    rewrite (sa_bind_ok (oe_E_fire_create ne (a_mask a) s4)).
    destruct (arch_has_rels a); cbn [whenM]; [rewrite (sa_bind_ok (oe_E_fire_create_rel ne (a_mask a) s4))|]; reflexivity. }
  assert (Hlive : live (oe_E s4) ne = true).
  { pose proof (L_copy_entity_spec2_partial (oe_E s) e HS Hroom (fun Ha0 => r2ol_handle_live h e Hh Ha0) eq_refl eq_refl) as H.
    rewrite Hrun in H. apply H. }
  apply (r2ol_K_fire [] ne); [apply ol_evp_fire_create|apply oe_E_fire_create|apply r2ol_nil_lt|apply r2ol_snap_live; exact Hlive|].
  intros s5 _ SS5.
  apply (r2ol_K_fire [] ne); [apply ol_evp_whenM, ol_evp_fire_create_rel|destruct (arch_has_rels a); reflexivity|apply r2ol_nil_lt| |].
  { apply (BatchView.bv_snap_ok_same s4 s5 ne SS5). apply r2ol_snap_live. exact Hlive. }
  intros s6 _ _. apply r2ol_K_ret.
Qed.

Lemma r2ol_op_OCopy : forall h, r2ol_K [] (step_op debug (OCopy h)) (step_op debug (OCopy h)) s.
Proof.
  intros h. cbn [step_op].
  apply r2ol_K_bind_ro; [apply oe_hom_resolveH|apply readonly_resolveH|]. intros e Eh.
  apply r2ol_K_bind; [apply (r2ol_K_w_copy_entity h e (r2ol_handle h s e Eh))|]. intros ne s1 _ _. apply r2ol_K_ret.
Qed.

(** Add: the dispatch follows the storage part *)
Lemma r2ol_op_OUAdd : forall h ids, registered s ids -> r2ol_K [] (step_op debug (OUAdd h ids)) (step_op debug (OUAdd h ids)) s.
Proof.
  intros h ids Hreg. cbn [step_op].
  apply r2ol_K_bind_ro; [apply oe_hom_resolveH|apply readonly_resolveH|]. intros e Eh.
  apply r2ol_K_getbind. cbv beta. oe_E_norm s. apply r2ol_K_guard. intros Ha.
  apply r2ol_K_bind; [apply r2ol_K_homL; [apply oe_homL_w_add|exact Hl|intros s0; apply r2ol_sdf_w_add]|].
  intros r s1 _ F1.
  assert (Hlive : live (oe_E s1) e = true).
  { pose proof (r2e_add_any (oe_E s) e ids [] HS Hroom Hreg (fun r0 (Hr : In r0 []) => match Hr with end)) as (_ & H).
    rewrite F1 in H. cbn [state_of] in H. rewrite H. apply (r2ol_handle_live h e (r2ol_handle h s e Eh) Ha). }
  apply (r2ol_K_fire [] e); [apply ol_evp_fire_add|apply oe_E_fire_add|apply r2ol_nil_lt|apply r2ol_snap_live; exact Hlive|].
  intros s2 _ _. apply r2ol_K_ret.
Qed.

Lemma r2ol_op_OUAddRel : forall h ids hrels, registered s ids ->
  r2ol_K [] (step_op debug (OUAddRel h ids hrels)) (step_op debug (OUAddRel h ids hrels)) s.
Proof.
  intros h ids hrels Hreg. cbn [step_op].
  apply r2ol_K_bind_ro; [apply oe_hom_resolveH|apply readonly_resolveH|]. intros e Eh.
  apply r2ol_K_getbind. cbv beta. oe_E_norm s. apply r2ol_K_guard. intros Ha.
  apply r2ol_K_bind_ro; [apply oe_hom_resolveR|apply readonly_resolveR|]. intros rels ER.
  apply r2ol_K_bind; [apply r2ol_K_homL; [apply oe_homL_w_add|exact Hl|intros s0; apply r2ol_sdf_w_add]|].
  intros r s1 _ F1.
  assert (Hlive : live (oe_E s1) e = true).
  { pose proof (r2e_add_any (oe_E s) e ids rels HS Hroom Hreg (r2ol_rels_hyp hrels rels ER)) as (_ & H).
    rewrite F1 in H. cbn [state_of] in H. rewrite H. apply (r2ol_handle_live h e (r2ol_handle h s e Eh) Ha). }
  apply (r2ol_K_fire [] e); [apply ol_evp_fire_add|apply oe_E_fire_add|apply r2ol_nil_lt|apply r2ol_snap_live; exact Hlive|].
  intros s2 _ SS2.
  apply (r2ol_K_fire [] e); [apply ol_evp_whenM, ol_evp_fire_add|destruct (negb (is_nil rels)); reflexivity|apply r2ol_nil_lt| |].
  { apply (BatchView.bv_snap_ok_same s1 s2 e SS2). apply r2ol_snap_live. exact Hlive. }
  intros s3 _ _. apply r2ol_K_ret.
Qed.

(** Remove: the removal events are fired between the table lookup and the move *)
Lemma r2ol_K_w_remove : forall h e rem, handle s h = Some e -> r2ol_K [] (w_remove e rem) (w_remove e rem) s.
Proof.
  intros h e rem Hh. unfold w_remove. apply r2ol_K_check; [exact Hl|]. apply r2ol_K_getbind. cbv beta. oe_E_norm s.
  apply r2ol_K_guard. intros Ha. apply r2ol_K_guard. intros HG.
  apply r2ol_K_bind_ro; [apply oe_hom_get_index|apply readonly_get_index|]. intros [otid row] Eix. cbv beta iota.
  apply r2ol_K_bind_ro; [apply oe_hom_arch_mask|apply sc_ro_arch_mask|]. intros om Eom.
  apply r2ol_K_bind; [apply r2ol_K_hom; [apply oe_hom_find_remove|intros s0; apply r2ol_sdf_find_remove]|].
  intros [[[ntid naid] m] rr] s1 _ Ef. cbv beta iota.
  assert (Hcut : state_of (oe_pre_remove e rem (oe_E s)) = oe_E s1).
  { unfold oe_pre_remove. rewrite (sa_bind_ok (sb1_check_locked_ok (oe_E s) (oe_E_unlocked s))). rewrite sb2_bind_get.
    oe_E_norm s. rewrite Ha, sb2_bind_guard_true, HG, sb2_bind_guard_true.
    rewrite (sa_bind_ok (oe_hom_ok _ _ _ _ _ _ (oe_hom_get_index e) Eix)). cbv beta iota.
    rewrite (sa_bind_ok (oe_hom_ok _ _ _ _ _ _ (oe_hom_arch_mask otid) Eom)).
    rewrite (sa_bind_ok Ef). reflexivity. }
  assert (Hlive : live (oe_E s1) e = true).
  { destruct (r2o_same_pre_remove (oe_E s) e rem HS Hroom) as (_ & H). rewrite Hcut in H. rewrite H.
    apply (r2ol_handle_live h e Hh Ha). }
  apply (r2ol_K_fire [] e); [apply ol_evp_fire_remove_events, r2ol_nil_lt1|apply oe_E_fire_remove_events|apply r2ol_nil_lt|
                             apply r2ol_snap_live; exact Hlive|].
  intros s2 _ _. apply r2ol_K_hom; [oe_auto|intros s0; r2ol_sd_auto].
Qed.

Lemma r2ol_op_OURemove : forall h ids, r2ol_K [] (step_op debug (OURemove h ids)) (step_op debug (OURemove h ids)) s.
Proof.
  intros h ids. cbn [step_op].
  apply r2ol_K_bind_ro; [apply oe_hom_resolveH|apply readonly_resolveH|]. intros e Eh.
  apply r2ol_K_getbind. cbv beta. oe_E_norm s. apply r2ol_K_guard. intros _.
  apply r2ol_K_bind; [apply (r2ol_K_w_remove h e ids (r2ol_handle h s e Eh))|]. intros u s1 _ _. apply r2ol_K_ret.
Qed.

(** Exchange *)
Lemma r2ol_K_w_exchange : forall h e add rem hrels rels, handle s h = Some e -> registered s add -> resolveR hrels s = Ok rels s ->
  r2ol_K [] (w_exchange e add rem rels) (w_exchange e add rem rels) s.
Proof.
  intros h e add rem hrels rels Hh Hreg ER. unfold w_exchange. apply r2ol_K_check; [exact Hl|]. apply r2ol_K_getbind. cbv beta. oe_E_norm s.
  apply r2ol_K_guard. intros Ha. apply r2ol_K_guard. intros HG.
  apply r2ol_K_bind_ro; [apply oe_hom_get_index|apply readonly_get_index|]. intros [otid row] Eix. cbv beta iota.
  apply r2ol_K_bind_ro; [apply oe_hom_arch_mask|apply sc_ro_arch_mask|]. intros om Eom.
  apply r2ol_K_bind; [apply r2ol_K_hom; [apply oe_hom_find_exchange|intros s0; apply r2ol_sdf_find_exchange]|].
  intros [[[ntid naid] m] rr] s1 _ Ef. cbv beta iota.
  assert (Hcut : state_of (oe_pre_exchange e add rem rels (oe_E s)) = oe_E s1).
  { unfold oe_pre_exchange. rewrite (sa_bind_ok (sb1_check_locked_ok (oe_E s) (oe_E_unlocked s))). rewrite sb2_bind_get.
    oe_E_norm s. rewrite Ha, sb2_bind_guard_true, HG, sb2_bind_guard_true.
    rewrite (sa_bind_ok (oe_hom_ok _ _ _ _ _ _ (oe_hom_get_index e) Eix)). cbv beta iota.
    rewrite (sa_bind_ok (oe_hom_ok _ _ _ _ _ _ (oe_hom_arch_mask otid) Eom)).
    rewrite (sa_bind_ok Ef). reflexivity. }
  assert (Hlive : live (oe_E s1) e = true).
  { destruct (r2o_same_pre_exchange (oe_E s) e add rem rels HS Hroom Hreg (fun r Hr => proj1 (r2ol_rels_hyp hrels rels ER r Hr))) as (_ & H).
    rewrite Hcut in H. rewrite H. apply (r2ol_handle_live h e Hh Ha). }
  apply (r2ol_K_fire [] e); [apply ol_evp_whenM, ol_evp_fire_remove_events, r2ol_nil_lt1|
                             destruct (negb (is_nil rem)); cbn [whenM]; [apply oe_E_fire_remove_events|reflexivity]|
                             apply r2ol_nil_lt|apply r2ol_snap_live; exact Hlive|].
  intros s2 _ _. apply r2ol_K_hom; [oe_auto|intros s0; r2ol_sd_auto].
Qed.

Lemma r2ol_op_OUExchange : forall h add rem hrels, registered s add ->
  r2ol_K [] (step_op debug (OUExchange h add rem hrels)) (step_op debug (OUExchange h add rem hrels)) s.
Proof.
  intros h add rem hrels Hreg. cbn [step_op].
  apply r2ol_K_bind_ro; [apply oe_hom_resolveH|apply readonly_resolveH|]. intros e Eh.
  apply r2ol_K_getbind. cbv beta. oe_E_norm s. apply r2ol_K_guard. intros Ha.
  apply r2ol_K_bind_ro; [apply oe_hom_resolveR|apply readonly_resolveR|]. intros rels ER.
  apply r2ol_K_bind; [apply (r2ol_K_w_exchange h e add rem hrels rels (r2ol_handle h s e Eh) Hreg ER)|]. intros r s1 _ F1.
  assert (Hlive : live (oe_E s1) e = true).
  { pose proof (r2e_exchange_any (oe_E s) e add rem rels HS Hroom (oe_E_noobs s) Hreg (r2ol_rels_hyp hrels rels ER)) as (_ & H).
    rewrite F1 in H. cbn [state_of] in H. rewrite H. apply (r2ol_handle_live h e (r2ol_handle h s e Eh) Ha). }
  apply (r2ol_K_fire [] e); [| |apply r2ol_nil_lt|apply r2ol_snap_live; exact Hlive|].
  - apply ol_evp_whenM. apply ol_evp_bind; [apply ol_evp_fire_add|]. intros _. apply ol_evp_whenM, ol_evp_fire_add.
  - destruct (negb (is_nil add)); cbn [whenM]; [|reflexivity]. rewrite (sa_bind_ok (oe_E_fire_add _ e _ _ s1)).
    destruct (negb (is_nil rels)); reflexivity.
  - intros s2 _ _. apply r2ol_K_ret.
Qed.

(** SetRelations: OnRemoveRelations between lookup and move (under a lock bit), OnAddRelations at the end *)
Lemma r2ol_K_w_set_relations : forall h e hrels rels, handle s h = Some e -> resolveR hrels s = Ok rels s ->
  r2ol_K [] (w_set_relations e rels) (w_set_relations e rels) s.
Proof.
  intros h e hrels rels Hh ER. unfold w_set_relations. apply r2ol_K_check; [exact Hl|]. apply r2ol_K_getbind. cbv beta. oe_E_norm s.
  apply r2ol_K_guard. intros Ha. apply r2ol_K_guard. intros HG.
  apply r2ol_K_bind_ro; [apply oe_hom_get_index|apply readonly_get_index|]. intros [otid row] Eix. cbv beta iota.
  apply r2ol_K_bind_ro; [apply oe_hom_getT|apply readonly_getT|]. intros ot Eot.
  apply r2ol_K_bind_ro; [apply oe_hom_exchange_targets|apply oe_ro_exchange_targets|]. intros [[newrels cm]|] Ex; [|apply r2ol_K_ret].
  apply r2ol_K_bind; [apply r2ol_K_hom; [apply oe_hom_get_or_create_table|intros s0; apply r2ol_sdf_get_or_create_table]|].
  intros ntid s1 _ Eg.
  apply r2ol_K_bind_ro; [apply oe_hom_arch_mask|apply sc_ro_arch_mask|]. intros nm Enm.
  apply r2ol_K_getbind. cbv beta.
  assert (Hhok : forall r, In r rels -> r2b_handle_ok (oe_E s) (snd r)) by (intros r Hr; apply (proj1 (r2ol_rels_hyp hrels rels ER r Hr))).
  assert (Hcut : state_of (oe_pre_setrel e rels (oe_E s)) = oe_E s1).
  { unfold oe_pre_setrel. rewrite (sa_bind_ok (sb1_check_locked_ok (oe_E s) (oe_E_unlocked s))). rewrite sb2_bind_get.
    oe_E_norm s. rewrite Ha, sb2_bind_guard_true, HG, sb2_bind_guard_true.
    rewrite (sa_bind_ok (oe_hom_ok _ _ _ _ _ _ (oe_hom_get_index e) Eix)). cbv beta iota.
    rewrite (sa_bind_ok (oe_hom_ok _ _ _ _ _ _ (oe_hom_getT otid) Eot)).
    rewrite (sa_bind_ok (oe_hom_ok _ _ _ _ _ _ (oe_hom_exchange_targets ot rels) Ex)).
    rewrite (sa_bind_ok Eg). reflexivity. }
  assert (Hlive0 : live (oe_E s) e = true) by (apply (r2ol_handle_live h e Hh Ha)).
  assert (Hlive1 : live (oe_E s1) e = true).
  { destruct (r2o_same_pre_setrel (oe_E s) e rels HS Hhok) as (_ & H). rewrite Hcut in H. rewrite H. exact Hlive0. }
  apply (r2ol_K_fire [] e); [apply ol_evp_setrel_remove, r2ol_nil_lt1|reflexivity|apply r2ol_nil_lt|apply r2ol_snap_live; exact Hlive1|].
  intros s2 _ SS2.
  assert (E2 : oe_E s2 = oe_E s1) by (apply oe_E_of_storage_same; exact SS2).
  apply r2ol_K_bind; [apply r2ol_K_hom; [apply oe_hom_tbl_addM|intros s0; apply r2ol_sdf_tbl_addM]|]. intros nidx s3 _ F3.
  apply r2ol_K_bind; [apply r2ol_K_hom; [apply oe_hom_copy_all|intros s0; apply r2ol_sdf_copy_all]|]. intros [] s4 _ F4.
  apply r2ol_K_bind; [apply r2ol_K_hom; [apply oe_hom_remove_row|intros s0; apply r2ol_sdf_remove_row]|]. intros [] s5 _ F5.
  apply r2ol_K_bind; [apply r2ol_K_hom; [apply oe_hom_set_index_direct|intros s0; apply r2ol_sdf_set_index_direct]|]. intros [] s6 _ F6.
  apply r2ol_K_bind; [apply r2ol_K_hom; [apply oe_hom_register_targets|intros s0; apply r2ol_sdf_register_targets]|]. intros [] s7 _ F7.
  apply r2ol_K_getbind. cbv beta.
  (* the erased run, replayed *)
  assert (Hrun : w_set_relations e rels (oe_E s) = Ok tt (oe_E s7)).
  { unfold w_set_relations. rewrite (sa_bind_ok (sb1_check_locked_ok (oe_E s) (oe_E_unlocked s))). rewrite sb2_bind_get.
    oe_E_norm s. rewrite Ha, sb2_bind_guard_true, HG, sb2_bind_guard_true.
    rewrite (sa_bind_ok (oe_hom_ok _ _ _ _ _ _ (oe_hom_get_index e) Eix)). cbv beta iota.
    rewrite (sa_bind_ok (oe_hom_ok _ _ _ _ _ _ (oe_hom_getT otid) Eot)).
    rewrite (sa_bind_ok (oe_hom_ok _ _ _ _ _ _ (oe_hom_exchange_targets ot rels) Ex)).
    rewrite (sa_bind_ok Eg).
    rewrite (sa_bind_ok (oe_hom_ok _ _ _ _ _ _ (oe_hom_arch_mask ntid) Enm)). rewrite sb2_bind_get.
    change (has_obs (oe_E s1) EvRemoveRelations) with false. cbn [whenM]. rewrite sb2_bind_ret.
    rewrite E2 in F3. rewrite (sa_bind_ok F3), (sa_bind_ok F4), (sa_bind_ok F5), (sa_bind_ok F6), (sa_bind_ok F7). reflexivity. }
  assert (Hlive7 : live (oe_E s7) e = true).
  { pose proof (r2b_set_relations_spec_noobs (oe_E s) e rels HS Hroom eq_refl eq_refl Hhok) as H. rewrite Hrun in H. apply H. }
  apply (r2ol_K_fire_end [] e); [apply ol_evp_whenM, ol_evp_fire_set_unit|reflexivity|apply r2ol_nil_lt|apply r2ol_snap_live; exact Hlive7].
Qed.

Lemma r2ol_op_OUSetRel : forall h hrels, r2ol_K [] (step_op debug (OUSetRel h hrels)) (step_op debug (OUSetRel h hrels)) s.
Proof.
  intros h hrels. cbn [step_op].
  apply r2ol_K_bind_ro; [apply oe_hom_resolveH|apply readonly_resolveH|]. intros e Eh.
  apply r2ol_K_bind_ro; [apply oe_hom_resolveR|apply readonly_resolveR|]. intros rels ER.
  apply r2ol_K_bind; [apply (r2ol_K_w_set_relations h e hrels rels (r2ol_handle h s e Eh) ER)|]. intros u s1 _ _. apply r2ol_K_ret.
Qed.

(** RemoveEntity: all callbacks run first *)
Lemma r2ol_K_remove_entity : forall h e, handle s h = Some e -> r2ol_K [] (storage_remove_entity e) (storage_remove_entity e) s.
Proof.
  intros h e Hh. unfold storage_remove_entity. apply r2ol_K_getbind. cbv beta. oe_E_norm s.
  apply r2ol_K_guard. intros Ha.
  apply r2ol_K_bind_ro; [apply oe_hom_get_index|apply readonly_get_index|]. intros [tid row] Eix. cbv beta iota.
  apply r2ol_K_bind_ro; [apply oe_hom_getT|apply readonly_getT|]. intros t Et.
  apply r2ol_K_bind_ro; [apply oe_hom_arch_mask|apply sc_ro_arch_mask|]. intros m Em. cbv zeta.
  apply (r2ol_K_fire [] e); [apply ol_evp_remove_entity_events, r2ol_nil_lt1| |apply r2ol_nil_lt|
                             apply r2ol_snap_live; apply (r2ol_handle_live h e Hh Ha)|].
  { change (has_obs (oe_E s) EvRemoveEntity) with false. change (has_obs (oe_E s) EvRemoveRelations) with false.
    rewrite Bool.andb_false_r. reflexivity. }
  intros s2 _ _. apply r2ol_K_hom; [oe_auto|intros s0; r2ol_sd_auto].
Qed.

Lemma r2ol_op_ORemoveEntity : forall h, r2ol_K [] (step_op debug (ORemoveEntity h)) (step_op debug (ORemoveEntity h)) s.
Proof.
  intros h. cbn [step_op].
  apply r2ol_K_bind_ro; [apply oe_hom_resolveH|apply readonly_resolveH|]. intros e Eh.
  apply r2ol_K_check; [exact Hl|].
  apply r2ol_K_bind; [apply (r2ol_K_remove_entity h e (r2ol_handle h s e Eh))|]. intros u s1 _ _. apply r2ol_K_ret.
Qed.

(** Shrink dispatches nothing *)
Lemma r2ol_op_OShrink : forall b0, r2ol_K [] (step_op debug (OShrink b0)) (step_op debug (OShrink b0)) s.
Proof.
  intros b0. apply r2ol_K_hom_at.
  - cbn [step_op]. unfold bind. rewrite (oe_homL_shrink b0 s Hl). destruct (w_shrink b0 s); reflexivity.
  - cbn [step_op]. destruct (D_shrink_spec_w s b0 (proj1 HIO) Hl) as (b & s1 & E & _ & _ & _ & _ & _ & _ & D7 & _).
    rewrite (sa_bind_ok E). exact D7.
Qed.

(** Every structural operation of the class, on an unlocked world satisfying the storage invariant. *)
Theorem r2ol_step_op : forall o, oe_struct_op o = true -> registered s (rel_op_ids o) ->
  r2ol_K [] (step_op debug o) (step_op debug o) s.
Proof.
  intros o H Hreg. destruct o; try discriminate H; cbn [rel_op_ids] in Hreg.
  - apply r2ol_op_ONewEntity.
  - apply r2ol_op_OUNew; exact Hreg.
  - apply r2ol_op_OUNewRel; exact Hreg.
  - apply r2ol_op_OCopy.
  - apply r2ol_op_OUAdd; exact Hreg.
  - apply r2ol_op_OUAddRel; exact Hreg.
  - apply r2ol_op_OURemove.
  - apply r2ol_op_OUExchange; exact Hreg.
  - apply r2ol_op_OUSetRel.
  - apply r2ol_op_ORemoveEntity.
  - apply r2ol_op_OShrink.
Qed.
End r2ol_ops.

(* ================================================================================================ *)
(** * Part 4: the lock / query clause [LQ] (unchanged from Rel2HistQL) and the manager invariant, one operation *)

(** [LQ] needs no adaptation: between two operations no callback bit is held. *)
Definition r2ol_LM (s : W) : Prop := LQ s /\ MInvO s.

(** the fields the two clauses read *)
Definition r2ol_lm_same (s s' : W) : Prop :=
  w_lock s' = w_lock s /\ w_queries s' = w_queries s /\ w_obs s' = w_obs s /\ w_olists s' = w_olists s /\ w_ototal s' = w_ototal s.

Lemma r2ol_LM_same : forall s s', r2ol_lm_same s s' -> r2ol_LM s -> r2ol_LM s'.
Proof.
  intros s s' (E1 & E2 & E3 & E4 & E5) (HL & HM). split; [apply (r2l_LQ_same s s' E1 E2 HL)|apply (ol_MInvO_ext s s' E3 E4 E5 HM)].
Qed.

Lemma r2ol_lm_same_side : forall s s', side_same s s' -> w_queries s' = w_queries s -> r2ol_lm_same s s'.
Proof. intros s s' (E1 & _ & E3 & E4 & _ & _ & E7 & _) Eq. repeat split; assumption. Qed.

(** an unlocked state satisfying [LQ]: no bit is held, no query is open *)
Lemma r2ol_LQ_unlocked : forall s, LQ s -> is_locked s = false -> bv_lock_ok (w_lock s) [] /\ (forall qi b, ~ r2l_open s qi b).
Proof.
  intros s (held & H1 & H2 & _) Hl.
  assert (Eh : held = []).
  { destruct held as [|b t]; [reflexivity|]. exfalso.
    assert (Hlk : is_locked s = true) by (unfold is_locked; apply (r2l_locked_iff _ _ H1); discriminate). congruence. }
  subst held. split; [exact H1|]. intros qi b Ho. apply (proj2 (H2 b)). exists qi. exact Ho.
Qed.

Lemma r2ol_LQ_of_nil : forall s, bv_lock_ok (w_lock s) [] -> (forall qi b, ~ r2l_open s qi b) -> LQ s.
Proof.
  intros s H1 Hno. exists []. split; [exact H1|]. split.
  - intros b. split; [intros []|]. intros (qi & Ho). exfalso. apply (Hno qi b Ho).
  - intros qi qj b Ho. exfalso. apply (Hno qi b Ho).
Qed.

(** a state with the side invariant for [held] and the query objects of a state satisfying [LQ] with the same [held] *)
Lemma r2ol_LQ_held : forall s s' held, r2l_lock_inv (w_lock s) held ->
  (forall b, In b held <-> exists qi, r2l_open s qi b) -> (forall qi qj b, r2l_open s qi b -> r2l_open s qj b -> qi = qj) ->
  bv_lock_ok (w_lock s') held -> w_queries s' = w_queries s -> LQ s'.
Proof.
  intros s s' held _ H2 H3 H1' Eq. exists held. split; [exact H1'|]. unfold r2l_open. rewrite Eq. split; [exact H2|exact H3].
Qed.

(** ** The structural operations *)
Lemma r2ol_LM_struct : forall debug s n o, Inv2O s n -> n + 4 < Nat.pow 2 31 -> r2ol_LM s -> oe_struct_op o = true ->
  registered s (rel_op_ids o) -> r2ol_LM (state_of (step_op debug o s)).
Proof.
  intros debug s n o HIO Hn (HL & HM) Hs Hreg. destruct (is_locked s) eqn:Hl.
  - destruct (structural_blocked debug o s (r2o_struct_structural o Hs) Hl) as (er & E). rewrite E. split; assumption.
  - destruct (r2ol_LQ_unlocked s HL Hl) as (H1 & Hno).
    destruct (r2ol_step_op debug s n HIO Hn Hl o Hs Hreg (conj H1 HM)) as (_ & (H1' & HM')).
    destruct (r2q_kf_step_op debug o (r2o_struct_core o Hs) s) as (_ & Eq).
    split; [|exact HM']. apply (r2ol_LQ_of_nil _ H1'). intros qi b Ho. apply (Hno qi b). unfold r2l_open in *. rewrite <- Eq. exact Ho.
Qed.

(** ** Write, filter creation, Register, Unregister *)
Lemma r2ol_LM_hom : forall debug s o, r2ol_LM s -> oe_hom_op o = true -> r2ol_LM (state_of (step_op debug o s)).
Proof.
  intros debug s o HLM Ho. apply (r2ol_LM_same s); [|exact HLM]. destruct o; try discriminate Ho.
  - apply r2ol_lm_same_side; [apply (r2ol_sdp_at _ _ s (r2ol_sdp_OWrite debug h c v))|].
    apply (r2q_kf_step_op debug (OWrite h c v) eq_refl s).
  - destruct (StatsProofs.sp_os_filter_op debug (OFilterNew unsafe ids without excl rels) s I) as (A1 & A2 & _ & _ & A5 & _).
    destruct (r2l_lq_filter_op debug (OFilterNew unsafe ids without excl rels) s I) as (B1 & B2). repeat split; assumption.
  - destruct (StatsProofs.sp_os_filter_op debug (OFilterRegister f) s I) as (A1 & A2 & _ & _ & A5 & _).
    destruct (r2l_lq_filter_op debug (OFilterRegister f) s I) as (B1 & B2). repeat split; assumption.
  - destruct (StatsProofs.sp_os_filter_op debug (OFilterUnregister f) s I) as (A1 & A2 & _ & _ & A5 & _).
    destruct (r2l_lq_filter_op debug (OFilterUnregister f) s I) as (B1 & B2). repeat split; assumption.
Qed.

(** ** The query operations *)
Lemma r2ol_LM_query : forall debug s o, r2ol_LM s -> r2q_query_op o = true -> r2ol_LM (state_of (step_op debug o s)).
Proof.
  intros debug s o (HL & HM) Hq. split.
  - pose proof (r2l_query_op debug o Hq s HL) as H. destruct (step_op debug o s); exact H.
  - destruct (StatsProofs.sp_osp_query_op debug o Hq s) as (A1 & A2 & _ & _ & A5 & _). apply (ol_MInvO_ext s _ A1 A2 A5 HM).
Qed.

(** ** The observer operations New, Register, Unregister *)
Lemma r2ol_LM_OObsNew : forall debug s evt f w wo ex cb, r2ol_LM s -> r2ol_LM (state_of (step_op debug (OObsNew evt f w wo ex cb) s)).
Proof.
  intros debug s evt f w wo ex cb (HL & HM). cbn [step_op]. rewrite sb2_bind_get. unfold bind, modify, ret. cbn [state_of].
  split; [apply (r2l_LQ_same s); [reflexivity|reflexivity|exact HL]|].
  match goal with |- MInvO ?x => set (s' := x) end.
  assert (V : forall j o, obj s j = Some o -> obj s' j = Some o).
  { intros j o Ho. unfold obj, s'. cbn. apply sa_nth_error_snoc_old. exact Ho. }
  destruct HM as [M1 M2 M3 M4]. constructor.
  - intros e j Hin. destruct (M1 e j Hin) as (o & Ho & H). exists o. split; [apply V; exact Ho|exact H].
  - exact M2.
  - exact M3.
  - exact M4.
Qed.

Lemma r2ol_LM_mgr : forall s (m : MW unit), r2ol_LM s -> sa_sp m -> ol_mfp m -> MInvO (state_of (m s)) -> r2ol_LM (state_of (m s)).
Proof.
  intros s m (HL & _) Hsp Hmf HM'. split; [|exact HM'].
  destruct (Hmf s) as (E1 & _). pose proof (Hsp s) as (_ & _ & _ & _ & _ & _ & _ & _ & _ & _ & _ & _ & _ & _ & _ & Eq & _).
  apply (r2l_LQ_same s _ E1 Eq HL).
Qed.

Lemma r2ol_LM_OObsRegister : forall debug s oi, r2ol_LM s -> r2ol_LM (state_of (step_op debug (OObsRegister oi) s)).
Proof.
  intros debug s oi HLM. cbn [step_op]. rewrite r2q_state_bind_ret.
  apply (r2ol_LM_mgr s (add_observer oi) HLM (oe_sp_add_observer oi) (ol_mfp_add_observer oi)). apply ol_add_inv. apply HLM.
Qed.

Lemma r2ol_LM_OObsUnregister : forall debug s oi, r2ol_LM s -> r2ol_LM (state_of (step_op debug (OObsUnregister oi) s)).
Proof.
  intros debug s oi HLM. cbn [step_op]. rewrite r2q_state_bind_ret.
  apply (r2ol_LM_mgr s (remove_observer oi) HLM (sa_sp_remove_observer oi) (ol_mfp_remove_observer oi)). apply ol_rem_inv. apply HLM.
Qed.

(** ** Emit *)

(** The argument checks of Emit, without the dispatch: [None] if no observer is registered for the event type. *)
Definition r2ol_emit_args (evt : nat) (h : Z) (comps : list nat) : MW (option (ent * mask * mask)) :=
  e <- resolveH h ;;
  guard (Nat.leb evt 248) EMisuse ;;;
  s <- get ;;
  if negb (has_obs s evt) then ret None
  else
    let em := mk_of_list comps in
    m <- (if Nat.eqb (fst e) 0 then
            guard (mk_is_zero em) EMisuse ;;; arch_mask_of_table 0
          else
            guard (alive s e) EDead ;;;
            ix <- get_index e ;; arch_mask_of_table (fst ix)) ;;
    guard (mk_contains m em) EMissingComp ;;;
    ret (Some (e, em, m)).

Lemma r2ol_ro_emit_args : forall evt h comps, readonly (r2ol_emit_args evt h comps).
Proof.
  intros evt h comps. unfold r2ol_emit_args.
  apply readonly_bind; [apply readonly_resolveH|]. intros e. apply readonly_bind; [apply readonly_guard|]. intros _.
  apply readonly_bind; [apply readonly_get|]. intros s0. destruct (negb (has_obs s0 evt)); [apply readonly_ret|]. cbv zeta.
  apply readonly_bind; [|intros m; ro].
  destruct (Nat.eqb (fst e) 0).
  - apply readonly_bind; [apply readonly_guard|intros _; apply sc_ro_arch_mask].
  - apply readonly_bind; [apply readonly_guard|intros _]. apply readonly_bind; [apply readonly_get_index|intros ix; apply sc_ro_arch_mask].
Qed.

Lemma r2ol_bind_ext : forall A B (m : MW A) (k1 k2 : A -> MW B) s,
  (forall a s1, m s = Ok a s1 -> k1 a s1 = k2 a s1) -> bind m k1 s = bind m k2 s.
Proof. intros A B m k1 k2 s H. unfold bind. destruct (m s) as [a s1|er s1]; [apply H; reflexivity|reflexivity]. Qed.

Ltac r2ol_assoc_r :=
  match goal with |- _ = bind (bind ?m ?k) ?h ?s => rewrite (r2c_bind_assoc_local _ _ _ m k h s) end.

(** Emit is its argument check followed by the dispatch. *)
Lemma r2ol_emit_split : forall debug evt h comps s,
  step_op debug (OEmit evt h comps) s =
  (r <- r2ol_emit_args evt h comps ;;
   match r with
   | None => ret []
   | Some (e, em, m) => _ <- fire_set evt e em m true ;; ret []
   end) s.
Proof.
  intros debug evt h comps s. cbn [step_op]. unfold r2ol_emit_args.
  r2ol_assoc_r. apply r2ol_bind_ext. intros e s1 _.
  r2ol_assoc_r. apply r2ol_bind_ext. intros u s2 _.
  r2ol_assoc_r. rewrite !sb2_bind_get. destruct (negb (has_obs s2 evt)); [reflexivity|]. cbv zeta.
  r2ol_assoc_r. apply r2ol_bind_ext. intros m s3 _.
  r2ol_assoc_r. apply r2ol_bind_ext. intros u2 s4 _. reflexivity.
Qed.

(** the entity of an accepted Emit is the zero entity or named by a handle; if the pool calls it alive, it has a row *)
Lemma r2ol_emit_snap : forall s n evt h comps e em m, Inv2O s n -> r2ol_emit_args evt h comps s = Ok (Some (e, em, m)) s ->
  bv_snap_ok s e.
Proof.
  intros s n evt h comps e em m HIO E. pose proof (r2o_Inv2_E s n HIO) as ((HW & _) & _ & _ & Hiss).
  unfold r2ol_emit_args in E. unfold bind at 1 in E. rewrite sc_resolveH in E.
  destruct (handle s h) as [e0|] eqn:Hh; [|discriminate E].
  assert (Ee : e0 = e).
  { unfold bind at 1 in E. destruct (guard (evt <=? 248) EMisuse s) as [u s2|er s2]; [|discriminate E].
    unfold bind at 1, get at 1 in E. destruct (negb (has_obs s2 evt)); [discriminate E|]. cbv zeta in E.
    unfold bind at 1 in E. match type of E with match ?x with _ => _ end = _ => destruct x as [m0 s3|er s3] end; [|discriminate E].
    unfold bind at 1 in E. destruct (guard _ _ s3) as [u2 s4|er s4]; [|discriminate E]. unfold ret in E. injection E as -> _ _ _. reflexivity. }
  subst e0. intros Ha. apply BatchView.bv_snap_ok_live; [|exact Ha].
  apply (r2e_handle_alive_live (oe_E s) n h e HW Hiss Hh Ha).
Qed.

(** the number of open query objects *)
Definition r2ol_open_count (s : W) : nat := length (filter r2l_isopen (w_queries s)).

Lemma r2ol_nodup_map_filter : forall A (f : A -> nat) (P : A -> bool) l,
  (forall i j x y, nth_error l i = Some x -> nth_error l j = Some y -> P x = true -> P y = true -> f x = f y -> i = j) ->
  NoDup (map f (filter P l)).
Proof.
  intros A f P l. induction l as [|a l IH]; intros H; [constructor|].
  assert (H' : forall i j x y, nth_error l i = Some x -> nth_error l j = Some y -> P x = true -> P y = true -> f x = f y -> i = j).
  { intros i j x y Hi Hj Px Py E. assert (X : S i = S j) by (apply (H (S i) (S j) x y); assumption). lia. }
  cbn [filter]. destruct (P a) eqn:Pa; [|apply IH; exact H'].
  cbn [map]. constructor; [|apply IH; exact H'].
  intros Hin. apply in_map_iff in Hin. destruct Hin as (y & Ey & Hy). apply filter_In in Hy. destruct Hy as (Hy & Py).
  destruct (In_nth_error _ _ Hy) as (j & Hj). assert (X : 0 = S j) by (apply (H 0 (S j) a y); auto). discriminate X.
Qed.

(** under [LQ] the held bits are as many as the open queries *)
Lemma r2ol_held_count : forall s held, r2l_lock_inv (w_lock s) held ->
  (forall b, In b held <-> exists qi, r2l_open s qi b) -> (forall qi qj b, r2l_open s qi b -> r2l_open s qj b -> qi = qj) ->
  length held = r2ol_open_count s.
Proof.
  intros s held H1 H2 H3. unfold r2ol_open_count. rewrite <- (map_length q_lock).
  apply Permutation_length. apply NoDup_Permutation.
  - destruct H1 as (fl & _ & _ & _ & Hnd & _). exact Hnd.
  - apply r2ol_nodup_map_filter. intros i j x y Hi Hj Px Py E. apply (H3 i j (q_lock x)).
    + exists x. auto.
    + exists y. auto.
  - intros b. rewrite (H2 b). rewrite in_map_iff. split.
    + intros (qi & q & Hq & Ho & El). exists q. split; [exact El|]. apply filter_In. split; [eapply nth_error_In; exact Hq|exact Ho].
    + intros (q & El & Hq). apply filter_In in Hq. destruct Hq as (Hq & Ho). destruct (In_nth_error _ _ Hq) as (qi & Hqi).
      exists qi, q. auto.
Qed.

Lemma r2ol_held_le : forall l held, r2l_lock_inv l held -> length held <= 64.
Proof. intros l held (fl & Hlen & _ & _ & _ & _ & _ & Hcnt & _). lia. Qed.

(** Emit in a state satisfying the invariants: the four cases *)
Theorem r2ol_emit_cases : forall debug s n evt h comps, Inv2O s n -> r2ol_LM s ->
  (exists er, r2ol_emit_args evt h comps s = Err er s /\ step_op debug (OEmit evt h comps) s = Err er s) \/
  (r2ol_emit_args evt h comps s = Ok None s /\ step_op debug (OEmit evt h comps) s = Ok [] s) \/
  (exists a, r2ol_emit_args evt h comps s = Ok (Some a) s /\ r2ol_open_count s < 64 /\
     exists s', step_op debug (OEmit evt h comps) s = Ok [] s' /\ r2ol_LM s' /\ storage_same s s') \/
  (exists a, r2ol_emit_args evt h comps s = Ok (Some a) s /\ r2ol_open_count s = 64 /\
     (step_op debug (OEmit evt h comps) s = Ok [] s \/ step_op debug (OEmit evt h comps) s = Err EBits s)).
Proof.
  intros debug s n evt h comps HIO (HL & HM). rewrite (r2ol_emit_split debug evt h comps s).
  pose proof (r2ol_ro_emit_args evt h comps s) as Hro.
  destruct (r2ol_emit_args evt h comps s) as [[[[e em] m]|] s1|er s1] eqn:EA; cbn [state_of] in Hro; subst s1.
  - right. right. rewrite (sa_bind_ok EA).
    pose proof HL as (held & H1 & H2 & H3). pose proof (r2ol_held_count s held H1 H2 H3) as Hc.
    pose proof (r2ol_held_le _ held H1) as Hle.
    assert (HS : ol_SI held s) by (split; [exact H1|exact HM]).
    destruct (Nat.eq_dec (length held) 64) as [E64|N64].
    + right. exists (e, em, m). split; [reflexivity|]. split; [rewrite <- Hc; exact E64|].
      unfold fire_set. destruct (ol_fire_full_M held evt (early_set em m) (p_set em m) e true s HS E64) as [E|E].
      * left. rewrite (sa_bind_ok E). reflexivity.
      * right. rewrite (sa_bind_err E). reflexivity.
    + left. exists (e, em, m). split; [reflexivity|]. split; [rewrite <- Hc; lia|].
      assert (Hlt : length held < 64) by lia.
      destruct (ol_fire held evt (early_set em m) (p_set em m) e true s HS Hlt (r2ol_emit_snap s n evt h comps e em m HIO EA))
        as (b & s' & E & ((H1' & HM') & SS & _)).
      exists s'. unfold fire_set. rewrite (sa_bind_ok E). split; [reflexivity|]. split; [|exact SS]. split; [|exact HM'].
      apply (r2ol_LQ_held s s' held H1 H2 H3 H1'). apply SS.
  - right. left. rewrite (sa_bind_ok EA). split; reflexivity.
  - left. exists er. rewrite (sa_bind_err EA). split; reflexivity.
Qed.

Lemma r2ol_LM_OEmit : forall debug s n evt h comps, Inv2O s n -> r2ol_LM s -> r2ol_LM (state_of (step_op debug (OEmit evt h comps) s)).
Proof.
  intros debug s n evt h comps HIO HLM.
  destruct (r2ol_emit_cases debug s n evt h comps HIO HLM) as [(er & _ & E)|[(_ & E)|[(a & _ & _ & s' & E & HLM' & _)|(a & _ & _ & [E|E])]]];
    rewrite E; cbn [state_of]; assumption.
Qed.

(* ================================================================================================ *)
(** * Part 5: one step of the operation language; all histories *)

Definition Inv2OL (s : W) (n : nat) : Prop := Inv2O s n /\ LQ s /\ MInvO s.

Lemma r2ol_LM_step_op : forall debug s n o, Inv2O s n -> n + 4 < Nat.pow 2 31 -> r2ol_LM s -> rel_o_op o = true ->
  (forall c, In c (rel_op_ids o) -> c < length (w_reg s)) -> r2ol_LM (state_of (step_op debug o s)).
Proof.
  intros debug s n o HIO Hn HLM Hop Hreg.
  destruct (r2o_class_cases o Hop) as [Hs|([Hk|[Hk|[Hk|Hk]]] & _)].
  - apply (r2ol_LM_struct debug s n o HIO Hn HLM Hs Hreg).
  - apply (r2ol_LM_hom debug s o HLM Hk).
  - apply (r2ol_LM_query debug s o HLM Hk).
  - destruct o; try discriminate Hk.
    + apply r2ol_LM_OObsNew; exact HLM.
    + apply r2ol_LM_OObsRegister; exact HLM.
    + apply r2ol_LM_OObsUnregister; exact HLM.
    + apply (r2ol_LM_OEmit debug s n); assumption.
  - rewrite (r2o_readonly_state debug o s Hk). exact HLM.
Qed.

Lemma r2ol_step_lm_same : forall debug wd s line o, decode_op line = Some o ->
  r2ol_lm_same (state_of (step_op debug o (s <| w_log := [] |>))) (fst (step debug wd s line)).
Proof.
  intros debug wd s line o Hd. unfold step. rewrite Hd. cbv zeta. cbn [fst].
  destruct (issues_from_log o && negb (is_err (step_op debug o (s <| w_log := [] |>))))%bool;
    destruct (step_op debug o (s <| w_log := [] |>)) as [[|i [|g rest]] s1|er s1]; cbn [state_of];
    try destruct (returns_entity o); repeat split.
Qed.

(** One step of a decoded line of the class [rel_o_op] keeps the combined invariant, in BOTH outcomes, whatever
    the callbacks do; the side conditions are those of [step_inv2O]. *)
Theorem step_inv2OL : forall debug wd s n line o,
  Inv2OL s n -> n + 4 < Nat.pow 2 31 -> decode_op line = Some o -> rel_o_op o = true ->
  (forall c, In c (rel_op_ids o) -> c < length (w_reg s)) -> rel_q_flt_ok (w_reg s) o ->
  let s' := fst (step debug wd s line) in
  Inv2OL s' (S n) /\ w_reg s' = w_reg s /\
  (w_issued s' = w_issued s \/ exists e, w_issued s' = w_issued s ++ [e] /\ live s' e = true /\ live s e = false).
Proof.
  intros debug wd s n line o (HIO & HL & HM) Hn Hd Hop Hreg Hflt. cbv zeta.
  destruct (step_inv2O debug wd s n line o HIO Hn Hd Hop Hreg Hflt) as (A & B & C).
  split; [|split; assumption]. split; [exact A|].
  set (s0 := s <| w_log := [] |>).
  assert (HLM0 : r2ol_LM s0) by (apply (r2ol_LM_same s); [repeat split|split; assumption]).
  pose proof (r2ol_LM_step_op debug s0 n o (r2o_Inv2O_log s n [] HIO) Hn HLM0 Hop Hreg) as H1.
  apply (r2ol_LM_same _ _ (r2ol_step_lm_same debug wd s line o Hd) H1).
Qed.

Theorem r2ol_init : forall c, cfg_ok2 c -> Inv2OL (init_world c) 0.
Proof.
  intros c Hc. split; [apply r2o_init; exact Hc|]. split; [apply r2l_LQ_init|]. apply ol_MInvO_init; reflexivity.
Qed.

Lemma r2ol_run_inv : forall c, cfg_ok2 c -> forall lines,
  Forall (rel_o_line (sc_kinds c)) lines -> length lines + 4 < Nat.pow 2 31 ->
  Inv2OL (Properties.Common.exec c lines) (length lines) /\ w_reg (Properties.Common.exec c lines) = sc_kinds c.
Proof.
  intros c Hc lines. induction lines as [|l lines IH] using rev_ind; intros HF Hb.
  - split; [apply r2ol_init; exact Hc|reflexivity].
  - apply Forall_app in HF. destruct HF as (HF & Hl). inversion Hl as [|? ? (o & Hd & Hco & Hids & Hflt) _]; subst.
    rewrite app_length in *. cbn [length] in *. rewrite Nat.add_1_r in *.
    destruct IH as (IH1 & IH2); [exact HF|lia|].
    unfold Properties.Common.exec in *. rewrite fold_left_app. cbn [fold_left].
    destruct (step_inv2OL (sc_debug c) false _ (length lines) l o IH1) as (S1 & S2 & _); auto; try lia.
    { rewrite IH2. exact Hids. }
    { rewrite IH2. exact Hflt. }
    split; [exact S1|congruence].
Qed.

(** Every state of every history of the class - observers of any callback kind created, registered, unregistered
    (also from inside callbacks), events emitted, queries open - satisfies the combined invariant. *)
Theorem reachable_inv2OL : forall c lines,
  cfg_ok2 c -> Forall (rel_o_line (sc_kinds c)) lines -> length lines + 4 < Nat.pow 2 31 ->
  Inv2OL (Properties.Common.exec c lines) (length lines).
Proof. intros c lines Hc Hl Hb. apply (r2ol_run_inv c Hc lines Hl Hb). Qed.

(* ================================================================================================ *)
(** * Part 6: consequences *)

(** ** (a) structural operations: callbacks never fail, the outcome is exactly that of the erased run *)

(** In a state satisfying the invariants, on an unlocked world, a structural operation of the class with observers
    (any number, any callback kind) has EXACTLY the outcome of the same operation on the world without observers:
    same result, same failure (if any), same storage. In particular no callback fails and every lock bit taken for
    the removal events is released. *)
Theorem r2ol_struct_exact : forall debug s n o, Inv2OL s n -> n + 4 < Nat.pow 2 31 -> oe_struct_op o = true ->
  is_locked s = false -> registered s (rel_op_ids o) ->
  step_op debug o (oe_E s) = oe_rmap (step_op debug o s) /\ r2ol_LM (state_of (step_op debug o s)).
Proof.
  intros debug s n o (HIO & HL & HM) Hn Hs Hl Hreg. destruct (r2ol_LQ_unlocked s HL Hl) as (H1 & _).
  destruct (r2ol_step_op debug s n HIO Hn Hl o Hs Hreg (conj H1 HM)) as (E & _). split; [exact E|].
  apply (r2ol_LM_struct debug s n o HIO Hn (conj HL HM) Hs Hreg).
Qed.

(** the failure alternatives of [oe_J]: "inside a callback" does not occur *)
Corollary r2ol_struct_err : forall debug s n o er s', Inv2OL s n -> n + 4 < Nat.pow 2 31 -> oe_struct_op o = true ->
  is_locked s = false -> registered s (rel_op_ids o) -> step_op debug o s = Err er s' ->
  step_op debug o (oe_E s) = Err er (oe_E s').
Proof.
  intros debug s n o er s' HI Hn Hs Hl Hreg E. destruct (r2ol_struct_exact debug s n o HI Hn Hs Hl Hreg) as (X & _).
  rewrite E in X. exact X.
Qed.

Corollary r2ol_struct_ok : forall debug s n o a u', Inv2OL s n -> n + 4 < Nat.pow 2 31 -> oe_struct_op o = true ->
  is_locked s = false -> registered s (rel_op_ids o) -> step_op debug o (oe_E s) = Ok a u' ->
  exists s', step_op debug o s = Ok a s' /\ oe_E s' = u'.
Proof.
  intros debug s n o a u' HI Hn Hs Hl Hreg E. destruct (r2ol_struct_exact debug s n o HI Hn Hs Hl Hreg) as (X & _).
  rewrite E in X. destruct (step_op debug o s) as [a' s'|er s']; cbn [oe_rmap] in X; [|discriminate X].
  injection X as -> ->. exists s'. split; reflexivity.
Qed.

(** One step of the script language commutes with the erasure - WITHOUT the hypothesis "the step returned" of
    [r2o_step_erasure]. *)
Theorem r2ol_step_erasure : forall debug wd s n line o, Inv2OL s n -> n + 4 < Nat.pow 2 31 ->
  decode_op line = Some o -> oe_struct_op o = true -> is_locked s = false ->
  (forall c, In c (rel_op_ids o) -> c < length (w_reg s)) ->
  oe_E (fst (step debug wd s line)) = fst (step debug wd (oe_E s) line).
Proof.
  intros debug wd s n line o (HIO & HL & HM) Hn Hd Hs Hl Hreg. pose proof (r2o_struct_core o Hs) as Hc.
  rewrite (r2e_step_state debug wd s line o Hd Hc), (r2e_step_state debug wd (oe_E s) line o Hd Hc).
  set (s0 := s <| w_log := [] |>).
  assert (HI0 : Inv2OL s0 n).
  { split; [apply r2o_Inv2O_log; exact HIO|]. apply (r2ol_LM_same s); [repeat split|split; assumption]. }
  destruct (r2ol_struct_exact debug s0 n o HI0 Hn Hs Hl Hreg) as (X & _).
  change (oe_E s0) with (oe_E s) in X. change (oe_E s <| w_log := [] |>) with (oe_E s). rewrite X.
  change (oe_E (sc_issue o (step_op debug o s0) <| w_log := [] |>)) with (oe_E (sc_issue o (step_op debug o s0))).
  rewrite r2o_issue_E. unfold sc_issue. destruct (step_op debug o s0) as [[|i [|g rest]] s1|er s1]; cbn [oe_rmap state_of]; try reflexivity.
  destruct (returns_entity o); reflexivity.
Qed.

(** C04 with observers, without the [Err] branch of [remove_target_detaches_step_O]: removing a stored target in an
    unlocked state satisfying the invariants ALWAYS succeeds and detaches it. *)
Theorem remove_target_detaches_step_OL : forall debug s n h x,
  Inv2OL s n -> n + 4 < Nat.pow 2 31 -> is_locked s = false -> handle s h = Some x -> live s x = true ->
  exists s', step_op debug (ORemoveEntity h) s = Ok [] s' /\ St2 s' /\ r2d_KeysLive s' /\ LQ s' /\ MInvO s' /\
    live s' x = false /\ alive s' x = false /\
    forall e, e <> x -> live s' e = live s e /\ (forall cmp, val s' e cmp = val s e cmp) /\
      (forall cmp, tgt s' e cmp = r2c_detached x (tgt s e cmp)).
Proof.
  intros debug s n h x HI Hn Hl Hh Hlx. pose proof HI as (HIO & _).
  destruct (remove_target_detaches_step debug (oe_E s) n h x (r2o_Inv2_E s n HIO) Hh Hlx) as (u' & E & P1 & P2 & P3 & P4 & P5).
  destruct (r2ol_struct_exact debug s n (ORemoveEntity h) HI Hn eq_refl Hl (fun c (Hc : In c []) => match Hc with end)) as (X & (HL' & HM')).
  rewrite E in X. destruct (step_op debug (ORemoveEntity h) s) as [a s'|er s']; cbn [oe_rmap state_of] in *; [|discriminate X].
  injection X as <- ->. exists s'. split; [reflexivity|]. split; [apply r2o_St2_unE; exact P1|].
  split; [apply (r2d_KeysLive_mono (oe_E s') s' P2 eq_refl); intros y Hy; exact Hy|].
  split; [exact HL'|]. split; [exact HM'|]. split; [exact P3|]. split; [exact P4|]. intros e He. apply (P5 e He).
Qed.

Theorem remove_target_detaches_OL : forall c lines h x,
  cfg_ok2 c -> Forall (rel_o_line (sc_kinds c)) lines -> length lines + 4 < Nat.pow 2 31 ->
  let s := Properties.Common.exec c lines in
  is_locked s = false -> handle s h = Some x -> live s x = true ->
  exists s', step_op (sc_debug c) (ORemoveEntity h) s = Ok [] s' /\ St2 s' /\ r2d_KeysLive s' /\ LQ s' /\ MInvO s' /\
    live s' x = false /\ alive s' x = false /\
    forall e, e <> x -> live s' e = live s e /\ (forall cmp, val s' e cmp = val s e cmp) /\
      (forall cmp, tgt s' e cmp = r2c_detached x (tgt s e cmp)).
Proof.
  intros c lines h x Hc Hl Hb s Hlk Hh Hlx.
  apply (remove_target_detaches_step_OL (sc_debug c) s (length lines) h x (reachable_inv2OL c lines Hc Hl Hb) Hb Hlk Hh Hlx).
Qed.

(** every structural operation of the class, in every reachable unlocked state *)
Theorem reachable_struct_exact : forall c lines o,
  cfg_ok2 c -> Forall (rel_o_line (sc_kinds c)) lines -> length lines + 4 < Nat.pow 2 31 ->
  let s := Properties.Common.exec c lines in
  oe_struct_op o = true -> is_locked s = false -> (forall c0, In c0 (rel_op_ids o) -> c0 < length (sc_kinds c)) ->
  step_op (sc_debug c) o (oe_E s) = oe_rmap (step_op (sc_debug c) o s) /\ LQ (state_of (step_op (sc_debug c) o s)) /\
  MInvO (state_of (step_op (sc_debug c) o s)).
Proof.
  intros c lines o Hc Hl Hb s Hs Hlk Hreg. destruct (r2ol_run_inv c Hc lines Hl Hb) as (HI & Er).
  apply (r2ol_struct_exact (sc_debug c) s (length lines) o HI Hb Hs Hlk). intros c0 Hc0. fold s in Er. rewrite Er. apply Hreg. exact Hc0.
Qed.

(** ** (b) Emit fails only if its arguments are rejected or all 64 lock bits are held by open queries *)
Theorem r2ol_emit_err : forall debug s n evt h comps er s', Inv2OL s n ->
  step_op debug (OEmit evt h comps) s = Err er s' ->
  s' = s /\ (r2ol_emit_args evt h comps s = Err er s \/
             (er = EBits /\ r2ol_open_count s = 64 /\ exists a, r2ol_emit_args evt h comps s = Ok (Some a) s)).
Proof.
  intros debug s n evt h comps er s' (HIO & HL & HM) E.
  destruct (r2ol_emit_cases debug s n evt h comps HIO (conj HL HM)) as [(er0 & EA & E0)|[(_ & E0)|[(a & _ & _ & s1 & E0 & _)|(a & EA & Hc & [E0|E0])]]];
    rewrite E0 in E; try discriminate E.
  - injection E as <- <-. split; [reflexivity|left; exact EA].
  - injection E as <- <-. split; [reflexivity|right]. split; [reflexivity|]. split; [exact Hc|exists a; exact EA].
Qed.

Theorem r2ol_emit_ok : forall debug s n evt h comps r, Inv2OL s n -> r2ol_emit_args evt h comps s = Ok r s ->
  r2ol_open_count s < 64 ->
  exists s', step_op debug (OEmit evt h comps) s = Ok [] s' /\ storage_same s s' /\ LQ s' /\ MInvO s'.
Proof.
  intros debug s n evt h comps r (HIO & HL & HM) EA Hc.
  destruct (r2ol_emit_cases debug s n evt h comps HIO (conj HL HM)) as [(er0 & EA0 & _)|[(_ & E0)|[(a & _ & _ & s1 & E0 & (HL1 & HM1) & SS)|(a & _ & Hc64 & _)]]].
  - congruence.
  - exists s. split; [exact E0|]. split; [apply sa_storage_same_refl|split; assumption].
  - exists s1. split; [exact E0|]. split; [exact SS|split; assumption].
  - lia.
Qed.

Theorem reachable_emit_err : forall c lines evt h comps er s',
  cfg_ok2 c -> Forall (rel_o_line (sc_kinds c)) lines -> length lines + 4 < Nat.pow 2 31 ->
  let s := Properties.Common.exec c lines in
  step_op (sc_debug c) (OEmit evt h comps) s = Err er s' ->
  s' = s /\ (r2ol_emit_args evt h comps s = Err er s \/
             (er = EBits /\ r2ol_open_count s = 64 /\ exists a, r2ol_emit_args evt h comps s = Ok (Some a) s)).
Proof.
  intros c lines evt h comps er s' Hc Hl Hb s E.
  apply (r2ol_emit_err (sc_debug c) s (length lines) evt h comps er s' (reachable_inv2OL c lines Hc Hl Hb) E).
Qed.

(** ** (c) lock bits and open queries over the class with observers: between two operations no callback bit is held *)
Theorem reachable_LQ_O : forall c lines,
  cfg_ok2 c -> Forall (rel_o_line (sc_kinds c)) lines -> length lines + 4 < Nat.pow 2 31 ->
  LQ (Properties.Common.exec c lines).
Proof. intros c lines Hc Hl Hb. apply (reachable_inv2OL c lines Hc Hl Hb). Qed.

Theorem reachable_locked_iff_open_O : forall c lines,
  cfg_ok2 c -> Forall (rel_o_line (sc_kinds c)) lines -> length lines + 4 < Nat.pow 2 31 ->
  let s := Properties.Common.exec c lines in
  is_locked s = true <-> exists qi q, nth_error (w_queries s) qi = Some q /\ 1 <= q_tab q.
Proof. intros c lines Hc Hl Hb. apply r2l_LQ_locked_iff. apply (reachable_LQ_O c lines Hc Hl Hb). Qed.

Theorem reachable_open_bits_O : forall c lines,
  cfg_ok2 c -> Forall (rel_o_line (sc_kinds c)) lines -> length lines + 4 < Nat.pow 2 31 ->
  let s := Properties.Common.exec c lines in
  (forall qi q, nth_error (w_queries s) qi = Some q -> 1 <= q_tab q -> mk_get (lk_mask (w_lock s)) (q_lock q) = true) /\
  (forall qi qj q q', nth_error (w_queries s) qi = Some q -> nth_error (w_queries s) qj = Some q' ->
     1 <= q_tab q -> 1 <= q_tab q' -> q_lock q = q_lock q' -> qi = qj) /\
  (forall b, mk_get (lk_mask (w_lock s)) b = true ->
     exists qi q, nth_error (w_queries s) qi = Some q /\ 1 <= q_tab q /\ q_lock q = b).
Proof.
  intros c lines Hc Hl Hb s. destruct (reachable_LQ_O c lines Hc Hl Hb) as (held & H1 & H2 & H3). fold s in H1, H2, H3.
  pose proof H1 as (fl & _ & _ & _ & _ & _ & _ & _ & _ & Hm).
  split; [|split].
  - intros qi q Hq Ho. apply Hm. apply H2. exists qi, q. split; [exact Hq|]. split; [apply Nat.leb_le; exact Ho|reflexivity].
  - intros qi qj q q' Hq Hq' Ho Ho' E. apply (H3 qi qj (q_lock q)).
    + exists q. split; [exact Hq|]. split; [apply Nat.leb_le; exact Ho|reflexivity].
    + exists q'. split; [exact Hq'|]. split; [apply Nat.leb_le; exact Ho'|symmetry; exact E].
  - intros b Hbit. apply Hm in Hbit. apply H2 in Hbit. destruct Hbit as (qi & q & Hq & Ho & El).
    exists qi, q. split; [exact Hq|]. split; [apply Nat.leb_le; exact Ho|exact El].
Qed.

Theorem reachable_close_ok_O : forall c lines qi q,
  cfg_ok2 c -> Forall (rel_o_line (sc_kinds c)) lines -> length lines + 4 < Nat.pow 2 31 ->
  nth_error (w_queries (Properties.Common.exec c lines)) qi = Some q ->
  exists s', step_op (sc_debug c) (OQueryClose qi) (Properties.Common.exec c lines) = Ok [] s' /\ LQ s' /\
    (exists q', nth_error (w_queries s') qi = Some q' /\ q_tab q' = 0).
Proof.
  intros c lines qi q Hc Hl Hb Hq.
  destruct (r2l_close_ok qi _ q (reachable_LQ_O c lines Hc Hl Hb) Hq) as (s' & E & HL' & q' & Hq' & Ho).
  exists s'. cbn [step_op]. rewrite (sa_bind_ok E). split; [reflexivity|]. split; [exact HL'|].
  exists q'. split; [exact Hq'|]. unfold r2l_isopen in Ho. apply Nat.leb_gt in Ho. lia.
Qed.

(** the number of held bits is the number of open queries; a 65th query cannot be opened *)
Theorem reachable_held_count_O : forall c lines,
  cfg_ok2 c -> Forall (rel_o_line (sc_kinds c)) lines -> length lines + 4 < Nat.pow 2 31 ->
  r2ol_open_count (Properties.Common.exec c lines) <= 64.
Proof.
  intros c lines Hc Hl Hb. destruct (reachable_LQ_O c lines Hc Hl Hb) as (held & H1 & H2 & H3).
  rewrite <- (r2ol_held_count _ held H1 H2 H3). apply (r2ol_held_le _ held H1).
Qed.

(** ** (d) the observer figure of Stats is the number of observers in the event lists *)

(** the observer objects that are in the list of their event *)
Definition r2ol_is_listed (s : W) (oi : nat) : bool :=
  match nth_error (w_obs s) oi with Some o => memb oi (olist s (o_event o)) | None => false end.
Definition r2ol_listed (s : W) : list nat := filter (r2ol_is_listed s) (seq 0 (length (w_obs s))).

Lemma r2ol_olist_entry : forall s k l, MInvO s -> In (k, l) (w_olists s) -> olist s k = l.
Proof. intros s k l HM Hin. unfold olist. rewrite (ObsProofs.afind_in (w_olists s) k l (mo_keys _ HM) Hin). reflexivity. Qed.

Theorem r2ol_lists_listed : forall s, MInvO s -> Permutation (flat_map snd (w_olists s)) (r2ol_listed s).
Proof.
  intros s HM. apply NoDup_Permutation.
  - apply ViewProofs.v_NoDup_flat_map.
    + apply (NoDup_map_inv fst). exact (mo_keys _ HM).
    + intros [k l] Hin. cbn [snd]. rewrite <- (r2ol_olist_entry s k l HM Hin). apply (mo_nd _ HM).
    + intros [k1 l1] [k2 l2] oi H1 H2 I1 I2. cbn [snd] in I1, I2.
      rewrite <- (r2ol_olist_entry s k1 l1 HM H1) in I1. rewrite <- (r2ol_olist_entry s k2 l2 HM H2) in I2.
      destruct (mo_lst _ HM k1 oi I1) as (o1 & O1 & E1 & _). destruct (mo_lst _ HM k2 oi I2) as (o2 & O2 & E2 & _).
      rewrite O1 in O2. injection O2 as <-. assert (Ek : k2 = k1) by congruence. clear E2. revert H2 I2. rewrite Ek. intros H2 I2.
      rewrite <- (r2ol_olist_entry s k1 l1 HM H1), <- (r2ol_olist_entry s k1 l2 HM H2). reflexivity.
  - apply NoDup_filter, seq_NoDup.
  - intros oi. unfold r2ol_listed, r2ol_is_listed. rewrite in_flat_map, filter_In, in_seq. split.
    + intros ([k l] & Hin & Hoi). cbn [snd] in Hoi. rewrite <- (r2ol_olist_entry s k l HM Hin) in Hoi.
      destruct (mo_lst _ HM k oi Hoi) as (o & Ho & Ev & _). unfold obj in Ho. rewrite Ho. split.
      * split; [lia|]. apply nth_error_Some. congruence.
      * apply sb2_memb_In. rewrite Ev. exact Hoi.
    + intros (_ & H). destruct (nth_error (w_obs s) oi) as [o|]; [|discriminate H]. apply sb2_memb_In in H.
      unfold olist in H. destruct (afind (o_event o) (w_olists s)) as [l|] eqn:Ef; [|destruct H].
      exists (o_event o, l). split; [apply r2_afind_in; exact Ef|exact H].
Qed.

Theorem r2ol_ototal_listed : forall s, MInvO s -> w_ototal s = length (r2ol_listed s).
Proof.
  intros s HM. rewrite (mo_total _ HM), StatsProofs.sp_lsum_flat. apply Permutation_length. apply r2ol_lists_listed. exact HM.
Qed.

(** the figure reported by [Stats()] (component 5 of the vector) *)
Theorem reachable_stats_observers_O : forall c lines,
  cfg_ok2 c -> Forall (rel_o_line (sc_kinds c)) lines -> length lines + 4 < Nat.pow 2 31 ->
  let s := Properties.Common.exec c lines in
  nth 5 (stats_vec s) 0%Z = Zn (w_ototal s) /\ w_ototal s = length (r2ol_listed s) /\
  Permutation (flat_map snd (w_olists s)) (r2ol_listed s) /\
  (forall oi, In oi (r2ol_listed s) -> In oi (StatsProofs.sp_registered s)).
Proof.
  intros c lines Hc Hl Hb s. destruct (reachable_inv2OL c lines Hc Hl Hb) as (_ & _ & HM). fold s in HM.
  split; [reflexivity|]. split; [apply r2ol_ototal_listed; exact HM|]. split; [apply r2ol_lists_listed; exact HM|].
  intros oi Hin. apply (Permutation_in _ (Permutation_sym (r2ol_lists_listed s HM))) in Hin.
  apply in_flat_map in Hin. destruct Hin as ([k l] & Hk & Hoi). cbn [snd] in Hoi. rewrite <- (r2ol_olist_entry s k l HM Hk) in Hoi.
  destruct (mo_lst _ HM k oi Hoi) as (o & Ho & _ & Hid). apply StatsProofs.sp_registered_in. exists o. split; assumption.
Qed.

(* ================================================================================================ *)
(** * Part 7: non-vacuity (the scripts of Rel2HistO) *)

Lemma r2ol_small : forall k, N.ltb (N.of_nat (k + 4)) 2147483648%N = true -> k + 4 < Nat.pow 2 31.
Proof. intros k H. apply r2_N_small. exact H. Qed.

Lemma r2ol_prefix_inv : forall k, Inv2OL (Properties.Common.exec Rel2Check.r2_cfg (firstn k r2o_script)) (length (firstn k r2o_script)).
Proof.
  intros k. apply (reachable_inv2OL Rel2Check.r2_cfg (firstn k r2o_script) r2q_cfg_ok (r2o_firstn_lines k)).
  rewrite firstn_length. assert (Hlen : length r2o_script = 41) by (vm_compute; reflexivity). rewrite Hlen.
  assert (P : 100 < Nat.pow 2 31) by (apply r2_N_small; vm_compute; reflexivity). lia.
Qed.

(** the whole script of Rel2HistO: observers of the three callback kinds, registered, unregistered from inside their own
    callback and by another observer's callback, events emitted while a query is open, removal events under the
    operation's lock bit *)
Example r2ol_script_inv : Inv2OL (Properties.Common.exec Rel2Check.r2_cfg r2o_script) (length r2o_script).
Proof.
  apply reachable_inv2OL; [exact r2q_cfg_ok|exact r2o_script_lines|]. apply r2_N_small. vm_compute. reflexivity.
Qed.

(** after 17 steps: three observers registered (object 0 has unregistered itself), a query open, the world locked *)
Example r2ol_mid_inv : Inv2OL r2o_mid 17.
Proof. exact (r2ol_prefix_inv 17). Qed.

Example r2ol_mid_shape :
  is_locked r2o_mid = true /\ r2ol_open_count r2o_mid = 1 /\ w_ototal r2o_mid = 3 /\ r2ol_listed r2o_mid = [1; 2; 3] /\
  StatsProofs.sp_registered r2o_mid = [1; 2; 3] /\ nth 5 (stats_vec r2o_mid) 0%Z = 3%Z.
Proof. vm_compute. repeat split; reflexivity. Qed.

(** (a): removing handle 2 in the state after 13 steps runs observer 3 (which unregisters observer 1) first: it succeeds BY
    THE THEOREM - no evaluation of the step is needed (compare [r2o_remove_example], which needs [is_err = false]) *)
Example r2ol_remove_example :
  exists s', step_op false (ORemoveEntity 2) r2o_s13 = Ok [] s' /\ St2 s' /\ LQ s' /\ MInvO s' /\ live s' (4, 0%N) = false.
Proof.
  destruct (remove_target_detaches_OL Rel2Check.r2_cfg (firstn 13 r2o_script) 2%Z (4, 0%N) r2q_cfg_ok (r2o_firstn_lines 13))
    as (s' & E & H1 & _ & H3 & H4 & H5 & _).
  - apply r2_N_small. vm_compute. reflexivity.
  - vm_compute. reflexivity.
  - vm_compute. reflexivity.
  - vm_compute. reflexivity.
  - exists s'. split; [exact E|]. repeat (split; [assumption|]). assumption.
Qed.

(** step 27 of the script (SetRelations: OnRemoveRelations - whose callback unregisters observer 1 - under the operation's
    lock bit, then OnAddRelations - whose callback unregisters itself): it commutes with the erasure, by the theorem *)
Definition r2ol_s26 : W := Properties.Common.exec Rel2Check.r2_cfg (firstn 26 r2o_script).

Example r2ol_erasure_example :
  oe_E (fst (step false false r2ol_s26 [10; 2; 1; 3;1]%Z)) = fst (step false false (oe_E r2ol_s26) [10; 2; 1; 3;1]%Z) /\
  length (w_log (state_of (step_op false (OUSetRel 2 [(3, 1%Z)]) (r2ol_s26 <| w_log := [] |>)))) = 2 /\
  is_locked (fst (step false false r2ol_s26 [10; 2; 1; 3;1]%Z)) = false.
Proof.
  split; [|split; vm_compute; reflexivity].
  apply (r2ol_step_erasure false false r2ol_s26 26 _ (OUSetRel 2 [(3, 1%Z)]) (r2ol_prefix_inv 26)).
  - apply r2_N_small. vm_compute. reflexivity.
  - reflexivity.
  - reflexivity.
  - vm_compute. reflexivity.
  - intros c [].
Qed.

(** (b): the script with 64 open queries. After 69 lines all 64 bits are held by open queries: Emit is accepted by the
    argument check and fails with EBits, the state untouched - the second alternative of [r2ol_emit_err]. After one Close
    (71 lines) 63 queries are open: Emit returns, by [r2ol_emit_ok]. *)
Lemma r2ol_bits_lines : forall k, Forall (rel_o_line (sc_kinds Rel2Check.r2_cfg)) (firstn k r2o_bits_script).
Proof.
  intros k. apply Forall_forall. intros l Hl. pose proof (rel_o_line_b_sound _ _ r2o_bits_covered) as H. rewrite Forall_forall in H.
  apply H. rewrite <- (firstn_skipn k r2o_bits_script). apply in_or_app. left. exact Hl.
Qed.

Lemma r2ol_bits_inv : forall k, Inv2OL (Properties.Common.exec Rel2Check.r2_cfg (firstn k r2o_bits_script)) (length (firstn k r2o_bits_script)).
Proof.
  intros k. apply (reachable_inv2OL Rel2Check.r2_cfg (firstn k r2o_bits_script) r2q_cfg_ok (r2ol_bits_lines k)).
  rewrite firstn_length. assert (Hlen : length r2o_bits_script = 73) by (vm_compute; reflexivity). rewrite Hlen.
  assert (P : 100 < Nat.pow 2 31) by (apply r2_N_small; vm_compute; reflexivity). lia.
Qed.

Definition r2ol_full : W := Properties.Common.exec Rel2Check.r2_cfg (firstn 69 r2o_bits_script).
Definition r2ol_63 : W := Properties.Common.exec Rel2Check.r2_cfg (firstn 71 r2o_bits_script).

Example r2ol_full_emit :
  r2ol_open_count r2ol_full = 64 /\
  step_op false (OEmit 7 0 []) r2ol_full = Err EBits r2ol_full /\
  (exists a, r2ol_emit_args 7 0 [] r2ol_full = Ok (Some a) r2ol_full) /\
  is_err (step_op false (OQueryOpen 0 []) r2ol_full) = true.
Proof.
  assert (Hc : r2ol_open_count r2ol_full = 64) by (vm_compute; reflexivity).
  assert (E : is_err (step_op false (OEmit 7 0 []) r2ol_full) = true) by (vm_compute; reflexivity).
  destruct (step_op false (OEmit 7 0 []) r2ol_full) as [a s'|er s'] eqn:Es; [discriminate E|].
  destruct (r2ol_emit_err false r2ol_full _ 7 0%Z [] er s' (r2ol_bits_inv 69) Es) as (-> & [EA|(-> & _ & a & EA)]).
  - exfalso. assert (X : is_err (r2ol_emit_args 7 0 [] r2ol_full) = false) by (vm_compute; reflexivity). rewrite EA in X. discriminate X.
  - split; [exact Hc|]. split; [reflexivity|]. split; [exists a; exact EA|].
    vm_compute. reflexivity.
Qed.

Example r2ol_63_emit :
  r2ol_open_count r2ol_63 = 63 /\
  exists s', step_op false (OEmit 7 0 []) r2ol_63 = Ok [] s' /\ storage_same r2ol_63 s' /\ LQ s' /\ MInvO s'.
Proof.
  assert (Hc : r2ol_open_count r2ol_63 = 63) by (vm_compute; reflexivity). split; [exact Hc|].
  destruct (r2ol_emit_args 7 0 [] r2ol_63) as [r s1|er s1] eqn:EA.
  - pose proof (r2ol_ro_emit_args 7 0%Z [] r2ol_63) as Hro. rewrite EA in Hro. cbn [state_of] in Hro. subst s1.
    apply (r2ol_emit_ok false r2ol_63 _ 7 0%Z [] r (r2ol_bits_inv 71) EA). rewrite Hc. lia.
  - exfalso. assert (X : is_err (r2ol_emit_args 7 0 [] r2ol_63) = false) by (vm_compute; reflexivity). rewrite EA in X. discriminate X.
Qed.

(** (d) and the manager invariant: a registration rejected AFTER the id was assigned (OnAddRelations for the plain component 0).
    The combined invariant holds (by the theorem); the object carries an id but is in no list: [MInv] of ObsProofs fails
    (clause [mi_idl]), the figure is the number of listed observers (0), not the number of objects carrying an id (1). *)
Definition r2ol_rej_script : list (list Z) := [[25; 254; 1;0; 0; 0; 0; 0]; [26; 0]; [26; 0]; [27; 0]]%Z.
Definition r2ol_rej : W := Properties.Common.exec Rel2Check.r2_cfg (firstn 2 r2ol_rej_script).

Example r2ol_rej_covered : forallb (rel_o_line_b (sc_kinds Rel2Check.r2_cfg)) r2ol_rej_script = true.
Proof. vm_compute. reflexivity. Qed.

Example r2ol_rej_inv : forall k, Inv2OL (Properties.Common.exec Rel2Check.r2_cfg (firstn k r2ol_rej_script)) (length (firstn k r2ol_rej_script)).
Proof.
  intros k. apply reachable_inv2OL; [exact r2q_cfg_ok| |].
  - apply Forall_forall. intros l Hl. pose proof (rel_o_line_b_sound _ _ r2ol_rej_covered) as H. rewrite Forall_forall in H.
    apply H. rewrite <- (firstn_skipn k r2ol_rej_script). apply in_or_app. left. exact Hl.
  - rewrite firstn_length. assert (Hlen : length r2ol_rej_script = 4) by reflexivity. rewrite Hlen.
    assert (P : 100 < Nat.pow 2 31) by (apply r2_N_small; vm_compute; reflexivity). lia.
Qed.

Example r2ol_rej_shape :
  Rel2Check.r2_flags Rel2Check.r2_cfg (init_world Rel2Check.r2_cfg) r2ol_rej_script = [0; 1; 1; 1]%Z /\
  w_ototal r2ol_rej = 0 /\ r2ol_listed r2ol_rej = [] /\ StatsProofs.sp_registered r2ol_rej = [0] /\ w_olists r2ol_rej = [].
Proof. vm_compute. repeat split; reflexivity. Qed.

Example r2ol_rej_MInv_refuted : MInvO r2ol_rej /\ ~ ObsProofs.MInv r2ol_rej.
Proof.
  split; [apply (r2ol_rej_inv 2)|]. intros (HI & _).
  assert (Ho : exists o, obj r2ol_rej 0 = Some o /\ o_id o <> None /\ o_event o = 254).
  { eexists. split; [vm_compute; reflexivity|]. split; [discriminate|reflexivity]. }
  destruct Ho as (o & Ho & Hid & Hev). pose proof (ObsProofs.mi_idl _ HI 0 o Ho Hid) as Hin. rewrite Hev in Hin.
  vm_compute in Hin. exact Hin.
Qed.

(** ** The three clauses of [MCore] (ObsLockInv, Part 7) are necessary: a self-unregistering observer of the custom event 7,
    registered; Emit dispatches it. Tampering with the list map so that exactly one clause fails makes the dispatch fail. *)
Definition r2ol_base : W := Properties.Common.exec Rel2Check.r2_cfg [[25; 7; 0; 0; 0; 0; 1]; [26; 0]]%Z.
Definition r2ol_bad_ex : W := r2ol_base <| w_olists := [(7, [5])] |>.                 (* a member that is no object *)
Definition r2ol_bad_id : W := r2ol_base <| w_obs ::= map (fun o => o <| o_id := None |>) |>.   (* a member without id *)
Definition r2ol_bad_nd : W := r2ol_base <| w_olists := [(7, [0; 0])] |>.              (* a duplicate *)

Example r2ol_base_ok : MCore r2ol_base /\ is_err (step_op false (OEmit 7 (-1) []) r2ol_base) = false.
Proof.
  split; [|vm_compute; reflexivity]. apply ol_MCore_of_MInvO.
  apply (reachable_inv2OL Rel2Check.r2_cfg [[25; 7; 0; 0; 0; 0; 1]; [26; 0]]%Z r2q_cfg_ok).
  - apply rel_o_line_b_sound. vm_compute. reflexivity.
  - apply r2_N_small. vm_compute. reflexivity.
Qed.

Lemma r2ol_olist_single : forall (s : W) k l e, w_olists s = [(k, l)] -> olist s e = if Nat.eqb k e then l else [].
Proof. intros s k l e E. unfold olist. rewrite E. cbn [afind]. destruct (Nat.eqb k e); reflexivity. Qed.

Example r2ol_core_needs_ex :
  (forall oi o, obj r2ol_bad_ex oi = Some o -> In oi (olist r2ol_bad_ex (o_event o)) -> o_id o <> None) /\
  (forall evt, NoDup (olist r2ol_bad_ex evt)) /\
  ~ (forall evt oi, In oi (olist r2ol_bad_ex evt) -> exists o, obj r2ol_bad_ex oi = Some o) /\
  is_err (step_op false (OEmit 7 (-1) []) r2ol_bad_ex) = true.
Proof.
  split; [|split; [|split; [|vm_compute; reflexivity]]].
  - intros [|oi] o Ho Hin; [|destruct oi; discriminate Ho]. vm_compute in Ho. injection Ho as <-. discriminate.
  - intros evt. rewrite (r2ol_olist_single r2ol_bad_ex 7 [5] evt eq_refl). destruct (Nat.eqb 7 evt); repeat constructor. intros [].
  - intros H. destruct (H 7 5 (or_introl eq_refl)) as (o & Ho). discriminate Ho.
Qed.

Example r2ol_core_needs_id :
  (forall evt oi, In oi (olist r2ol_bad_id evt) -> exists o, obj r2ol_bad_id oi = Some o) /\
  (forall evt, NoDup (olist r2ol_bad_id evt)) /\
  ~ (forall oi o, obj r2ol_bad_id oi = Some o -> In oi (olist r2ol_bad_id (o_event o)) -> o_id o <> None) /\
  is_err (step_op false (OEmit 7 (-1) []) r2ol_bad_id) = true.
Proof.
  assert (E : w_olists r2ol_bad_id = [(7, [0])]) by (vm_compute; reflexivity).
  split; [|split; [|split; [|vm_compute; reflexivity]]].
  - intros evt oi Hin. rewrite (r2ol_olist_single r2ol_bad_id 7 [0] evt E) in Hin. destruct (Nat.eqb 7 evt); [|destruct Hin].
    destruct Hin as [<-|[]]. eexists. vm_compute. reflexivity.
  - intros evt. rewrite (r2ol_olist_single r2ol_bad_id 7 [0] evt E). destruct (Nat.eqb 7 evt); repeat constructor. intros [].
  - intros H. assert (X : exists o, obj r2ol_bad_id 0 = Some o /\ o_event o = 7 /\ o_id o = None).
    { eexists. split; [vm_compute; reflexivity|]. split; reflexivity. }
    destruct X as (o & Ho & Ev & Id). apply (H 0 o Ho); [|exact Id].
    rewrite Ev, (r2ol_olist_single r2ol_bad_id 7 [0] 7 E). left. reflexivity.
Qed.

Example r2ol_core_needs_nd :
  (forall evt oi, In oi (olist r2ol_bad_nd evt) -> exists o, obj r2ol_bad_nd oi = Some o) /\
  (forall oi o, obj r2ol_bad_nd oi = Some o -> In oi (olist r2ol_bad_nd (o_event o)) -> o_id o <> None) /\
  ~ (forall evt, NoDup (olist r2ol_bad_nd evt)) /\
  is_err (step_op false (OEmit 7 (-1) []) r2ol_bad_nd) = true.
Proof.
  split; [|split; [|split; [|vm_compute; reflexivity]]].
  - intros evt oi Hin. rewrite (r2ol_olist_single r2ol_bad_nd 7 [0; 0] evt eq_refl) in Hin. destruct (Nat.eqb 7 evt); [|destruct Hin].
    destruct Hin as [<-|[<-|[]]]; eexists; vm_compute; reflexivity.
  - intros [|oi] o Ho Hin; [|destruct oi; discriminate Ho]. vm_compute in Ho. injection Ho as <-. discriminate.
  - intros H. specialize (H 7). rewrite (r2ol_olist_single r2ol_bad_nd 7 [0; 0] 7 eq_refl) in H. cbn in H.
    inversion H as [|? ? Hn _]. apply Hn. left. reflexivity.
Qed.

(** ** Assumption audit *)
Definition r2ol_all :=
  (r2ol_step_op, r2ol_LM_struct, r2ol_emit_cases, step_inv2OL, r2ol_init, reachable_inv2OL,
   r2ol_struct_exact, r2ol_struct_err, r2ol_struct_ok, r2ol_step_erasure, remove_target_detaches_step_OL, remove_target_detaches_OL,
   reachable_struct_exact, r2ol_emit_err, r2ol_emit_ok, reachable_emit_err,
   reachable_LQ_O, reachable_locked_iff_open_O, reachable_open_bits_O, reachable_close_ok_O, reachable_held_count_O,
   r2ol_lists_listed, r2ol_ototal_listed, reachable_stats_observers_O,
   r2ol_script_inv, r2ol_mid_inv, r2ol_mid_shape, r2ol_remove_example, r2ol_erasure_example, r2ol_full_emit, r2ol_63_emit,
   r2ol_rej_covered, r2ol_rej_inv, r2ol_rej_shape, r2ol_rej_MInv_refuted,
   r2ol_base_ok, r2ol_core_needs_ex, r2ol_core_needs_id, r2ol_core_needs_nd).
Print Assumptions r2ol_all.
