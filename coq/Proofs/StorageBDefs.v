(** * StorageBDefs: shared definitions of Layer B. StorageB: the single-entity operations refine their Spec-level meaning and preserve the
    invariant; when they panic, the content of the world is unchanged. Layer B of the storage proofs,
    for worlds without relation components. Properties C01 (faithful store, frame), C10 (rejected,
    not absorbed), C02 (fresh handles at world level). To be filled. *)
From Ark Require Import Model.Base Model.Mask Model.Pool Model.Util Model.World Model.Run.
From Ark Require Import Proofs.TableProofs Proofs.MaskProofs Proofs.Hoare Proofs.WF Proofs.StorageA.
From RecordUpdate Require Import RecordSet.
Import RecordSetNotations.

Definition registered (s : W) (ids : list nat) : Prop := forall c, In c ids -> c < length (w_reg s).

(** Room for one more entity (table lengths and the pool stay below 2^31). *)
Definition room (s : W) : Prop := S (length (pe (w_pool s))) < Nat.pow 2 31.

(** What every failing call guarantees: invariant kept, content and pool untouched. *)
Definition rejected (s s' : W) : Prop :=
  St s' /\ content_same s s' /\ w_pool s' = w_pool s /\ frame_user s s'.

(** Everything except entity [e] keeps its content. *)
Definition others_same (s s' : W) (e : ent) : Prop :=
  forall e', e' <> e -> live s' e' = live s e' /\ forall c, val s' e' c = val s e' c.

