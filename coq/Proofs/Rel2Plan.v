(** * Rel2Plan: SKELETON of the remaining per-operation theorems for worlds with relation components.

    NOT part of the build. Every statement here is [Admitted]; the file only has to type-check
    against the interface Rel2Defs / Rel2Struct. The work packages A-E are independent of each other
    (each uses only Rel2Defs, Rel2Struct, and the relation-free proofs as templates); package E needs
    the statements (not the proofs) of A-D.

    Conventions.
    - [St2 s] is the invariant at operation boundaries; inside an operation use [St2G D P X s]
      (D: ids of entities being removed, P: target ids whose registration is pending, X: tables
      freed but not yet dropped from the cache).
    - Every [*_spec] matches on the result. The [Err] branch states what is preserved: the
      invariant holds in the state at the failure and nothing observable changed ([rejected2]).
    - "Valid call": relation arguments name each relation component at most once, and only
      components that the call adds ([rels_call_ok]); see Rel2Check N2 for what happens otherwise. *)
From Ark Require Import Model.Base Model.Mask Model.Pool Model.Util Model.World Model.Run.
From Ark Require Import Proofs.TableProofs Proofs.WF Proofs.StorageA Proofs.StorageBDefs Proofs.StorageC
  Proofs.RelProofs Proofs.BatchProofs Proofs.Rel2Defs Proofs.Rel2Struct Properties.Common.
From RecordUpdate Require Import RecordSet.
Import RecordSetNotations.

(** ** Shared vocabulary *)

Definition tgt_same (s s' : W) : Prop := forall e c, tgt s' e c = tgt s e c.

(** What every failing call guarantees in relation worlds. *)
Definition rejected2 (s s' : W) : Prop :=
  St2 s' /\ content_same s s' /\ tgt_same s s' /\ w_pool s' = w_pool s /\ frame_user s s'.

(** Everything except entity [e] keeps components, values and targets. *)
Definition others_same2 (s s' : W) (e : ent) : Prop :=
  forall e', e' <> e -> live s' e' = live s e' /\ (forall c, val s' e' c = val s e' c) /\ (forall c, tgt s' e' c = tgt s e' c).

(** Relation arguments of a valid call that adds the components [add]. *)
Definition rels_call_ok (s : W) (add : list nat) (rels : list rel) : Prop :=
  NoDup (map fst rels) /\ (forall r, In r rels -> In (fst r) add) /\
  (forall r, In r rels -> snd r = zero_ent \/ live s (snd r) = true).

(** The target the call assigns to component [c] (last assignment wins), if any. *)
Definition assigned (rels : list rel) (c : nat) : option ent :=
  option_map snd (find (fun r : rel => Nat.eqb (fst r) c) (rev rels)).

(** Target of a freshly added component: the assigned one for relation components, zero otherwise. *)
Definition new_target (rels : list rel) (c : nat) : ent :=
  match assigned rels c with Some x => x | None => zero_ent end.

(* ================================================================================================ *)
(** ** Package L (prerequisite, small): the relation-agnostic operations in relation worlds

    The proofs of StorageB_sb1/2/3 for [create_entity], [w_copy_entity], [write_cell], [cell_of] and
    the readers only use [WF]; they have to be restated for [St2] (RelInv/CacheInv are untouched
    because no table changes its relation label, no archetype list changes; rows are appended to or
    swap-removed from tables that stay active). Template: [r2_relabel] does not apply (data changes);
    use [r2_RelInvG_ext]-style arguments on the table fields RelInv reads ([t_free], [t_len] = 0 only
    for free tables, [t_rels], [t_targets], [t_arch]) plus [ri_targets_ok] under growing [live]. *)

Lemma L_RelInvG_rows : forall D s s', RelInvG D s ->
  w_archs s' = w_archs s -> w_relarchs s' = w_relarchs s ->
  (forall tid t, nth_error (w_tables s) tid = Some t -> exists t', nth_error (w_tables s') tid = Some t' /\
     t_arch t' = t_arch t /\ t_free t' = t_free t /\ t_rels t' = t_rels t /\ t_targets t' = t_targets t /\
     (t_free t = true -> t_len t' = 0)) ->
  length (w_tables s') = length (w_tables s) ->
  (forall x, live s x = true -> live s' x = true \/ D (fst x)) ->
  RelInvG D s'.
Admitted.

Lemma L_create_entity_spec2 : forall s, St2 s -> room s ->
  exists e s', create_entity 0 s = Ok e s' /\ St2 s' /\
    live s e = false /\ live s' e = true /\ alive s' e = true /\ (forall c, val s' e c = None) /\
    others_same2 s s' e /\ side_same s s' /\ frame_user s s'.
Admitted.

Lemma L_copy_entity_spec2 : forall s e, St2 s -> room s ->
  match w_copy_entity e s with
  | Ok ne s' => St2 s' /\ live s e = true /\ live s ne = false /\ live s' ne = true /\
                (forall c, val s' ne c = val s e c) /\ (forall c, tgt s' ne c = tgt s e c) /\ others_same2 s s' ne
  | Err _ s' => rejected2 s s'
  end.
Admitted.

Lemma L_write_cell_spec2 : forall s tid ci row v, St2 s ->
  match write_cell tid ci row v s with
  | Ok _ s' => St2 s' /\ tgt_same s s' /\ (forall e, live s' e = live s e)
  | Err _ s' => s' = s
  end.
Admitted.

(* ================================================================================================ *)
(** ** Package A: creation / Add / Remove / Exchange with relation targets

    Structure of every proof: the table finder ([A_find_add] etc., below) composed from
    [find_or_create_arch_spec] (StorageA; needs its lift A_find_arch to St2: a new archetype with
    relation components is appended to [w_relarchs]), [r2_get_or_create_table_spec]; then the row
    move exactly as in StorageB_sb2 (tbl_addM, copy_row, remove_row, set_index_direct: rows only,
    use L_RelInvG_rows), then [r2_register_targets_spec] to discharge the pending set. *)

Lemma A_find_arch : forall s m, St2 s -> (forall j, mk_get m j = true -> j < length (w_reg s)) ->
  exists aid s', find_or_create_arch m s = Ok aid s' /\ St2 s' /\ r2_relabel s s' /\ side_same s s' /\
                 frame_user s s' /\ w_tables s' = w_tables s /\ w_istarget s' = w_istarget s /\
                 (exists a, nth_error (w_archs s') aid = Some a /\ a_mask a = m) /\
                 (forall i a, nth_error (w_archs s) i = Some a -> nth_error (w_archs s') i = Some a).
Admitted.

(** the counting step that turns "createTable accepted a duplicate-free list" into [r2_rels_valid] *)
Lemma A_valid_of_checks : forall s aid a rels, WF s -> nth_error (w_archs s) aid = Some a ->
  NoDup (map fst rels) -> a_numrel a <= length rels ->
  (forall r, In r rels -> exists i, nth_error (a_comps a) i = Some (fst r) /\ r2_relcol a i) ->
  (forall r, In r rels -> snd r = zero_ent \/ live s (snd r) = true) ->
  r2_rels_valid s a rels.
Admitted.

Lemma A_find_add : forall s old ot oa add rels m0, St2 s ->
  nth_error (w_tables s) old = Some ot -> t_free ot = false ->
  nth_error (w_archs s) (t_arch ot) = Some oa -> a_mask oa = m0 ->
  registered s add -> rels_call_ok s add rels ->
  match find_or_create_table_add old add rels m0 s with
  | Ok (tid, aid, m) s' =>
      St2G r2_none (r2_addl r2_none (r2_ids rels)) r2_none s' /\ r2_relabel s s' /\ side_same s s' /\ frame_user s s' /\
      w_istarget s' = w_istarget s /\
      (forall j, mk_get m j = (mk_get m0 j || memb j add)%bool) /\ NoDup add /\ (forall c, In c add -> mk_get m0 c = false) /\
      exists t a, nth_error (w_tables s') tid = Some t /\ t_arch t = aid /\ t_free t = false /\
                  nth_error (w_archs s') aid = Some a /\ a_mask a = m /\
                  (forall r, In r (t_rels t) <-> In r (t_rels ot) \/ In r rels)
  | Err _ s' => St2 s' /\ r2_relabel s s' /\ side_same s s' /\ frame_user s s' /\ w_istarget s' = w_istarget s
  end.
Admitted.

(** [A_find_remove], [A_find_exchange]: same shape with [surviving_rels]; the relations of removed
    components vanish from the new table, [removed = true] iff some relation component is removed. *)
Lemma A_find_remove : forall s old ot oa rem m0, St2 s ->
  nth_error (w_tables s) old = Some ot -> t_free ot = false ->
  nth_error (w_archs s) (t_arch ot) = Some oa -> a_mask oa = m0 -> registered s rem ->
  match find_or_create_table_remove old rem m0 s with
  | Ok (tid, aid, m, removed) s' =>
      St2 s' /\ r2_relabel s s' /\ side_same s s' /\ frame_user s s' /\ w_istarget s' = w_istarget s /\
      (forall j, mk_get m j = (mk_get m0 j && negb (memb j rem))%bool) /\ NoDup rem /\ (forall c, In c rem -> mk_get m0 c = true) /\
      (removed = true <-> exists r, In r (t_rels ot) /\ In (fst r) rem) /\
      exists t a, nth_error (w_tables s') tid = Some t /\ t_arch t = aid /\ t_free t = false /\
                  nth_error (w_archs s') aid = Some a /\ a_mask a = m /\
                  (forall r, In r (t_rels t) <-> In r (t_rels ot) /\ ~ In (fst r) rem)
  | Err _ s' => St2 s' /\ r2_relabel s s' /\ side_same s s' /\ frame_user s s' /\ w_istarget s' = w_istarget s
  end.
Admitted.

Theorem A_new_entity_spec : forall s ids rels, St2 s -> room s -> registered s ids -> rels_call_ok s ids rels ->
  match new_entity ids rels s with
  | Ok (e, m) s' =>
      St2 s' /\ is_locked s = false /\ NoDup ids /\ m = mk_of_list ids /\
      (forall c, In c ids -> is_rel_comp s c = true -> In c (map fst rels)) /\
      (forall r, In r rels -> is_rel_comp s (fst r) = true) /\
      live s e = false /\ live s' e = true /\ alive s' e = true /\
      (forall c, val s' e c = if memb c ids then Some 0%Z else None) /\
      (forall c, tgt s' e c = if memb c ids then Some (new_target rels c) else None) /\
      others_same2 s s' e /\ side_same s s' /\ frame_user s s'
  | Err _ s' => rejected2 s s' /\ side_same s s'
  end.
Admitted.

Theorem A_add_spec : forall s e add rels, St2 s -> room s -> registered s add -> rels_call_ok s add rels ->
  match w_add e add rels s with
  | Ok (om, nm) s' =>
      St2 s' /\ is_locked s = false /\ live s e = true /\ add <> [] /\ NoDup add /\
      (forall c, In c add -> val s e c = None) /\
      (forall c, In c add -> is_rel_comp s c = true -> In c (map fst rels)) /\
      live s' e = true /\
      (forall c, val s' e c = if memb c add then Some 0%Z else val s e c) /\
      (forall c, tgt s' e c = if memb c add then Some (new_target rels c) else tgt s e c) /\
      others_same2 s s' e /\ w_pool s' = w_pool s /\ side_same s s' /\ frame_user s s'
  | Err _ s' => rejected2 s s' /\ side_same s s'
  end.
Admitted.

Theorem A_remove_spec : forall s e rem, St2 s -> room s -> registered s rem ->
  match w_remove e rem s with
  | Ok _ s' =>
      St2 s' /\ is_locked s = false /\ live s e = true /\ rem <> [] /\ NoDup rem /\
      (forall c, In c rem -> val s e c <> None) /\ live s' e = true /\
      (forall c, val s' e c = if memb c rem then None else val s e c) /\
      (forall c, tgt s' e c = if memb c rem then None else tgt s e c) /\
      others_same2 s s' e /\ w_pool s' = w_pool s /\ frame_user s s'
  | Err _ s' => rejected2 s s'
  end.
Admitted.

Theorem A_exchange_spec : forall s e add rem rels, St2 s -> room s -> registered s add -> registered s rem ->
  rels_call_ok s add rels ->
  match w_exchange e add rem rels s with
  | Ok _ s' =>
      St2 s' /\ is_locked s = false /\ live s e = true /\ NoDup add /\ NoDup rem /\
      (forall c, In c rem -> val s e c <> None) /\ (forall c, In c add -> val s e c = None) /\ live s' e = true /\
      (forall c, val s' e c = if memb c add then Some 0%Z else if memb c rem then None else val s e c) /\
      (forall c, tgt s' e c = if memb c add then Some (new_target rels c) else if memb c rem then None else tgt s e c) /\
      others_same2 s s' e /\ w_pool s' = w_pool s /\ frame_user s s'
  | Err _ s' => rejected2 s s'
  end.
Admitted.

(* ================================================================================================ *)
(** ** Package B: SetRelations

    [exchange_targets_spec] (RelProofs) gives the new relation list column by column (so a repeated
    component is harmless here: the last assignment wins and the list handed to the table finder is
    duplicate-free by construction); [B_newrels_valid] turns it into [r2_rels_valid]; then
    [r2_get_or_create_table_spec], the row move via [copy_all] (same layout), [r2_register_targets_spec]. *)

Lemma B_newrels_valid : forall s tid t a rels newrels cm, St2 s ->
  nth_error (w_tables s) tid = Some t -> t_free t = false -> nth_error (w_archs s) (t_arch t) = Some a ->
  exchange_targets t rels s = Ok (Some (newrels, cm)) s ->
  (forall r, In r rels -> is_rel_comp s (fst r) = true /\ (snd r = zero_ent \/ live s (snd r) = true)) ->
  r2_rels_valid s a newrels /\
  (forall c x, In (c, x) newrels <-> (exists i, nth_error (a_comps a) i = Some c /\ r2_relcol a i) /\
                                       Some x = match assigned rels c with Some y => Some y | None => tbl_target t c end).
Admitted.

Theorem B_set_relations_spec : forall s e rels, St2 s -> room s ->
  match w_set_relations e rels s with
  | Ok _ s' =>
      St2 s' /\ is_locked s = false /\ live s e = true /\ rels <> [] /\
      (forall r, In r rels -> val s e (fst r) <> None) /\
      live s' e = true /\ (forall c, val s' e c = val s e c) /\
      (forall c, tgt s' e c = match assigned rels c with Some x => Some x | None => tgt s e c end) /\
      (forall r, In r rels -> snd r = zero_ent \/ live s (snd r) = true) /\
      others_same2 s s' e /\ w_pool s' = w_pool s /\ frame_user s s'
  | Err _ s' => rejected2 s s'
  end.
Admitted.

(* ================================================================================================ *)
(** ** Package C: removing an entity, with the cleanup of everything that points at it (heart of C04)

    Phases of [storage_remove_entity e], [k := fst e]:
    C1 the row is swap-removed, the id recycled, the index entry invalidated: the state satisfies
       [St2G (eq k) r2_none r2_none] ([e] is no longer live, tables may still name it);
    C2 one iteration of the inner loop of [cleanup_archetypes] for a table [tid] listed under [k]:
       its rows move to the table whose relations are those of [tid] with every dead target
       replaced by zero ([r2_get_or_create_table_spec]: the new relation list is valid because
       all remaining targets are live or zero; it is not [tid] itself because [tid] names [k]),
       [tid] is freed ([r2_free_table_spec]; with one relation component its only target id is
       [k], which is in D) and dropped from the cache ([C_cache_remove_table]);
    C3 after the loop every table under [k] is free: [r2_arch_remove_target_spec];
    C4 all archetypes of [w_relarchs] done: no key [k] is left, no active table names [k]
       ([ri_tgttabs_complete]): [C_drop] shrinks D to nothing; the flag is cleared. *)

Definition rm_core (e : ent) (tid row : nat) : MW unit :=
  t <- getT tid ;;
  let '(swapped, t') := tbl_remove t row in
  setT tid t' ;;;
  pool_recycleM e ;;;
  whenM swapped (
    match nth_error (t_ents t') row with
    | Some se => modify (fun s => s <| w_index ::= updf (fst se) (fun ix => (fst ix, row)) |>)
    | None => fail EIndex
    end) ;;;
  modify (fun s => s <| w_index ::= updf (fst e) (fun ix => (None, snd ix)) |>).

Lemma C1_rm_core : forall s e tid row t, St2 s -> live s e = true -> loc s e = Some (tid, row) ->
  nth_error (w_tables s) tid = Some t ->
  exists s', rm_core e tid row s = Ok tt s' /\
    St2G (eq (fst e)) r2_none r2_none s' /\ live s' e = false /\
    pool_recycle (w_pool s) e = Some (w_pool s') /\ w_istarget s' = w_istarget s /\ w_archs s' = w_archs s /\
    (forall e', e' <> e -> live s' e' = live s e' /\ (forall c, val s' e' c = val s e' c) /\
                           (forall c, tgt s' e' c = tgt s e' c)) /\
    frame_user s s' /\ side_same s s'.
Admitted.

(** PROVED in Rel2Struct: [r2_cache_remove_table_spec] (restated here with the frames spelled out). *)
Lemma C_cache_remove_table : forall D P X s tid t, St2G D P (r2_add1 X tid) s ->
  nth_error (w_tables s) tid = Some t -> t_free t = true ->
  exists s', cache_remove_table tid s = Ok tt s' /\ St2G D P X s' /\
    w_tables s' = w_tables s /\ w_archs s' = w_archs s /\ w_index s' = w_index s /\ w_istarget s' = w_istarget s /\
    w_pool s' = w_pool s /\ side_same s s' /\ frame_user s s'.
Proof.
  intros D P X s tid t HS Ht Hf. destruct (r2_cache_remove_table_spec D P X s tid t HS Ht Hf) as (l' & E & HS').
  exists (s <| w_cheap := l' |>). split; [exact E|]. split; [exact HS'|].
  split; [reflexivity|]. split; [reflexivity|]. split; [reflexivity|]. split; [reflexivity|]. split; [reflexivity|].
  split; [unfold side_same; cbn; repeat split|unfold frame_user; cbn; repeat split].
Qed.

(** the relation list the cleanup builds for a table: dead targets and the dying one become zero *)
Lemma C_detached_rels_valid : forall k s tid t a, St2G (eq k) r2_none r2_none s ->
  nth_error (w_tables s) tid = Some t -> t_free t = false -> nth_error (w_archs s) (t_arch t) = Some a ->
  (forall x, fst x = k -> live s x = false) ->
  let newrels := map (fun r : rel => (fst r, zero_ent))
                     (filter (fun r : rel => (Nat.eqb (fst (snd r)) k || negb (alive s (snd r)))%bool) (t_rels t)) in
  exists all, exchange_targets_unchecked t newrels s = Ok all s /\ r2_rels_valid s a all /\
    (forall c x, In (c, x) all <-> exists y, In (c, y) (t_rels t) /\ x = if Nat.eqb (fst y) k then zero_ent else y).
Admitted.

(** one table under key [k]: move its rows to the detached table, free it, uncache it.
    (For RemoveEntities the same with [D] = the ids of all entities removed by the batch.) *)
Definition in_table (s : W) (e : ent) (tid : nat) : bool :=
  match loc s e with Some (t0, _) => Nat.eqb t0 tid | None => false end.

Lemma C2_cleanup_step : forall k s aid a tid t, St2G (eq k) r2_none r2_none s ->
  nth_error (w_archs s) aid = Some a -> nth_error (w_tables s) tid = Some t -> t_arch t = aid -> t_free t = false ->
  r2_has_target a t k -> (forall x, fst x = k -> live s x = false) -> r2_nostale a ->
  let body := (s0 <- get ;;
               let newrels := map (fun r : rel => (fst r, zero_ent))
                                  (filter (fun r : rel => (Nat.eqb (fst (snd r)) k || negb (alive s0 (snd r)))%bool) (t_rels t)) in
               whenM (Nat.ltb 0 (t_len t)) (
                 all <- exchange_targets_unchecked t newrels ;;
                 ntid <- get_or_create_table aid all ;;
                 move_entities tid ntid (t_len t)) ;;;
               free_table aid tid ;;;
               cache_remove_table tid) in
  exists s', body s = Ok tt s' /\ St2G (eq k) r2_none r2_none s' /\
    (exists t', nth_error (w_tables s') tid = Some t' /\ t_free t' = true) /\
    (* the active tables that name [k] are those of before, minus [tid] *)
    (forall x tx', nth_error (w_tables s') x = Some tx' -> t_arch tx' = aid -> t_free tx' = false -> r2_has_target a tx' k ->
       x <> tid /\ exists tx, nth_error (w_tables s) x = Some tx /\ t_free tx = false /\ r2_has_target a tx k) /\
    (* lookups under [k]: unchanged if the archetype has one relation component (the freed table
       stays listed), [tid] removed otherwise; other archetypes untouched *)
    (exists a', nth_error (w_archs s') aid = Some a' /\
       afind k (a_tgttabs a') = (if Nat.leb (a_numrel a) 1 then afind k (a_tgttabs a)
                                 else option_map (tids_remove tid) (afind k (a_tgttabs a)))) /\
    (forall i b, i <> aid -> nth_error (w_archs s) i = Some b -> nth_error (w_archs s') i = Some b) /\
    (forall b, nth_error (w_archs s') aid = Some b -> r2_nostale b \/ a_numrel a <= 1) /\
    (forall e', live s' e' = live s e' /\ (forall c, val s' e' c = val s e' c) /\
       (forall c, tgt s' e' c = match tgt s e' c with
                                | Some x => if (in_table s e' tid && Nat.eqb (fst x) k)%bool then Some zero_ent else Some x
                                | None => None end)) /\
    w_pool s' = w_pool s /\ w_istarget s' = w_istarget s /\ frame_user s s' /\ side_same s s'.
Admitted.

(** all tables of all relation archetypes under key [k] *)
Lemma C3_cleanup_archetypes : forall s e, St2G (eq (fst e)) r2_none r2_none s ->
  2 <= fst e -> (forall x, fst x = fst e -> live s x = false) ->
  (forall aid a, nth_error (w_archs s) aid = Some a -> r2_nostale a) ->
  exists s', cleanup_archetypes e s = Ok tt s' /\ St2G (eq (fst e)) r2_none r2_none s' /\
    (forall aid a, nth_error (w_archs s') aid = Some a -> afind (fst e) (a_tgttabs a) = None) /\
    (forall e', live s' e' = live s e' /\ (forall c, val s' e' c = val s e' c) /\
       (forall c, tgt s' e' c = match tgt s e' c with
                                | Some x => if Nat.eqb (fst x) (fst e) then Some zero_ent else Some x
                                | None => None end)) /\
    w_pool s' = w_pool s /\ w_istarget s' = w_istarget s /\ frame_user s s' /\ side_same s s'.
Admitted.

(** once no key and no active table names [k], it need not be in D any more *)
Lemma C_drop : forall s k P X, St2G (eq k) P X s ->
  (forall aid a, nth_error (w_archs s) aid = Some a -> afind k (a_tgttabs a) = None) ->
  St2G r2_none P X s.
Proof. (* PROVED: [r2_RelInvG_drop] of Rel2Struct *)
  intros s k P X (HW & HR & HT & HC) Hno. split; [exact HW|]. split; [|split; assumption].
  apply (r2_RelInvG_drop s (eq k) r2_none HR). intros k0 <-. right. exact Hno.
Qed.

Theorem C_remove_entity_spec : forall s e, St2 s ->
  match storage_remove_entity e s with
  | Ok _ s' =>
      St2 s' /\ live s e = true /\ live s' e = false /\ alive s' e = false /\
      (forall e', e' <> e -> live s' e' = live s e' /\ (forall c, val s' e' c = val s e' c) /\
         (forall c, tgt s' e' c = match tgt s e' c with
                                  | Some x => if ent_eqb x e then Some zero_ent else Some x
                                  | None => None end)) /\
      frame_user s s' /\ length (pe (w_pool s')) = length (pe (w_pool s))
  | Err _ s' => rejected2 s s' /\ live s e = false
  end.
Admitted.

(** never fails for a valid call *)
Corollary C_remove_never_fails : forall s e, St2 s -> live s e = true -> is_err (storage_remove_entity e s) = false.
Admitted.

(* ================================================================================================ *)
(** ** Package D: Shrink, Reset, batch operations *)

(** remove_from_targets_cols after free_table: the stale entries under the table's own target ids go.
    Proof: [r2_RelInvG_lookups] (the table lists do not change). *)
Lemma D_remove_from_targets : forall D0 P X s aid a tid t, St2G D0 P X s ->
  nth_error (w_archs s) aid = Some a -> nth_error (w_tables s) tid = Some t -> t_arch t = aid -> t_free t = true ->
  exists s', modA aid (fun a0 => remove_from_targets_cols tid 0 (t_kinds t) (t_targets t) a0) s = Ok tt s' /\
    St2G D0 P X s' /\ w_tables s' = w_tables s /\
    (exists a', nth_error (w_archs s') aid = Some a' /\
       (forall k l, afind k (a_tgttabs a') = Some l -> ~ In tid l) /\
       (forall i m k l, nth_error (a_reltabs a') i = Some m -> afind k m = Some l -> ~ In tid l)).
Admitted.

Theorem D_shrink_spec : forall s stop0, St2 s ->
  exists b s', w_shrink stop0 s = Ok b s' /\ St2 s' /\ content_same s s' /\ tgt_same s s' /\
    w_pool s' = w_pool s /\ w_index s' = w_index s /\ side_same s s' /\ frame_user s s' /\
    length (w_tables s') = length (w_tables s).
Admitted.

Theorem D_reset_spec : forall s, St2 s ->
  match w_reset s with
  | Ok _ s' => St2 s' /\ is_locked s = false /\ (forall e, live s' e = false) /\ w_reg s' = w_reg s /\ w_cfg s' = w_cfg s /\
               (forall tid t, nth_error (w_tables s') tid = Some t -> t_len t = 0)
  | Err _ s' => s' = s /\ is_locked s = true
  end.
Admitted.

(** Batch operations. [St2L]: what holds when a batch operation panics half-way: everything but the
    target flags, and the world stays locked for ever (Rel2Check N1). *)
Definition St2L (s : W) : Prop := WF s /\ RelInvG r2_none s /\ CacheInv s /\ is_locked s = true.

Theorem D_new_batch_spec : forall s n ids rels vals fn, St2 s -> room_n s n -> registered s ids -> rels_call_ok s ids rels ->
  match w_new_batch n ids rels vals fn s with
  | Ok _ s' => St2 s' /\ is_locked s' = false /\
      exists es, length es = n /\ NoDup es /\
        (forall e, In e es -> live s e = false /\ live s' e = true /\
           (forall c, tgt s' e c = if memb c ids then Some (new_target rels c) else None)) /\
        (forall e, ~ In e es -> live s' e = live s e /\ (forall c, val s' e c = val s e c) /\ (forall c, tgt s' e c = tgt s e c))
  | Err _ s' => rejected2 s s' \/ St2L s'
  end.
Admitted.

Theorem D_remove_entities_spec : forall s fi brels fn, St2 s ->
  match w_remove_entities fi brels fn s with
  | Ok _ s' => St2 s' /\
      exists dead : ent -> bool,
        (forall e, live s' e = (live s e && negb (dead e))%bool) /\
        (forall e, live s' e = true -> (forall c, val s' e c = val s e c) /\
           (forall c, tgt s' e c = match tgt s e c with
                                   | Some x => if dead x then Some zero_ent else Some x
                                   | None => None end))
  | Err _ s' => rejected2 s s' \/ St2L s'
  end.
Admitted.

Theorem D_exchange_batch_spec : forall s fi brels add rem rels vals, St2 s -> registered s add -> registered s rem ->
  rels_call_ok s add rels ->
  match w_exchange_batch fi brels add rem rels vals s with
  | Ok _ s' => St2 s' /\ (forall e, live s' e = live s e) /\ w_pool s' = w_pool s /\
      (forall e c, live s e = true -> tgt s' e c = tgt s e c \/ In c add \/ In c rem)
  | Err _ s' => rejected2 s s' \/ (St2L s' /\ content_same s s' /\ tgt_same s s')
  end.
Admitted.

Theorem D_set_relations_batch_spec : forall s fi brels rels, St2 s ->
  (forall r, In r rels -> snd r = zero_ent \/ live s (snd r) = true) ->
  match w_set_relations_batch fi brels rels s with
  | Ok _ s' => St2 s' /\ (forall e, live s' e = live s e) /\ (forall e c, val s' e c = val s e c) /\ w_pool s' = w_pool s /\
      (forall e c, tgt s' e c = tgt s e c \/ exists x, assigned rels c = Some x /\ tgt s' e c = Some x)
  | Err _ s' => rejected2 s s' \/ (St2L s' /\ content_same s s')
  end.
Admitted.

(** the remaining operations: filters, queries, observers only touch the cache / side state *)
Theorem D_filter_register_spec : forall s fi f, St2 s -> nth_error (w_filters s) fi = Some f -> f_unsafe f = false ->
  (forall r, In r (f_rels f) -> mk_get (f_mask f) (fst r) = true) ->
  match filter_register fi s with
  | Ok _ s' => St2 s' /\ content_same s s' /\ tgt_same s s' /\ w_pool s' = w_pool s
  | Err _ s' => rejected2 s s'
  end.
Admitted.

(* ================================================================================================ *)
(** ** Package E: all histories, and the world-level statements of C04 *)

Definition Inv2 (s : W) (n : nat) : Prop := St2 s /\ issued_ok s n.

Definition cfg_ok2 (c : script_cfg) : Prop :=
  1 <= sc_cap c /\ 1 <= sc_caprel c /\ length (sc_kinds c) <= sc_bits c.

(** Relation arguments of a script line, after resolving handles. *)
Definition hrels_ok (add : list nat) (hrels : list hrel) : Prop :=
  NoDup (map fst hrels) /\ forall r, In r hrels -> In (fst r) add.

(** A valid line: registered components; relation arguments name added components once; only
    safe filters are registered. (Batch operations may still fail half-way: see [step_inv2].) *)
Definition valid_op2 (s : W) (o : op) : Prop :=
  match o with
  | OUNewRel ids hrels => registered s ids /\ hrels_ok ids hrels
  | OUAddRel _ ids hrels => registered s ids /\ hrels_ok ids hrels
  | OUExchange _ add rem hrels => registered s add /\ registered s rem /\ hrels_ok add hrels
  | ONewBatch _ ids hrels _ _ => registered s ids /\ hrels_ok ids hrels
  | OExchangeBatch _ _ add rem hrels _ => registered s add /\ registered s rem /\ hrels_ok add hrels
  | OFilterRegister f => exists fo, nth_error (w_filters s) f = Some fo /\ f_unsafe fo = false
  | OFilterNew unsafe ids wo _ _ => registered s ids /\ registered s wo
  | OUNew ids | OUAdd _ ids | OURemove _ ids => registered s ids
  | OWrite _ c _ | OHas _ c | OGetRel _ c | OGet _ c | OMapSet _ c _ => c < length (w_reg s)
  | OObsNew _ f w wo _ _ => registered s (f ++ w ++ wo)
  | OSetRelBatch _ _ mids _ => registered s mids
  | _ => True
  end.

Definition batch_op (o : op) : bool :=
  match o with
  | ORemoveEntities _ _ _ | ONewBatch _ _ _ _ _ | OExchangeBatch _ _ _ _ _ _ | OSetRelBatch _ _ _ _ | ONewEntities _ _ => true
  | _ => false
  end.

Lemma E_St2_init : forall c, cfg_ok2 c -> St2 (init_world c).
Admitted.

(** One step. Every operation keeps the invariant, also when it fails, except a batch operation
    that panics while holding the lock: then only [St2L] is left (and nothing can happen any more:
    [E_locked_stuck]). *)
Theorem step_inv2 : forall debug wd s n line o,
  Inv2 s n -> n + 4 < Nat.pow 2 31 -> decode_op line = Some o -> valid_op2 s o ->
  let s' := fst (step debug wd s line) in
  w_reg s' = w_reg s /\
  (Inv2 s' (S n) \/ (batch_op o = true /\ is_err (step_op debug o (s <| w_log := [] |>)) = true /\ St2L s')).
Admitted.

Lemma E_locked_stuck : forall debug wd s line o, St2L s -> decode_op line = Some o ->
  let s' := fst (step debug wd s line) in St2L s' /\ content_same s s' /\ tgt_same s s'.
Admitted.

(** histories in which no batch operation panics *)
Fixpoint no_batch_panic (debug : bool) (s : W) (lines : list (list Z)) : Prop :=
  match lines with
  | [] => True
  | l :: rest =>
      match decode_op l with
      | Some o => (batch_op o = true -> is_err (step_op debug o (s <| w_log := [] |>)) = false) /\ valid_op2 s o
      | None => True
      end /\ no_batch_panic debug (fst (step debug false s l)) rest
  end.

Theorem reachable_inv2 : forall c lines, cfg_ok2 c -> length lines + 4 < Nat.pow 2 31 ->
  no_batch_panic (sc_debug c) (init_world c) lines ->
  Inv2 (exec c lines) (length lines).
Admitted.

(** *** C04 at world level *)

(** "An entity's relation target is always the zero entity or an alive entity" *)
Theorem targets_always_zero_or_alive : forall c lines e cmp x, cfg_ok2 c -> length lines + 4 < Nat.pow 2 31 ->
  no_batch_panic (sc_debug c) (init_world c) lines ->
  tgt (exec c lines) e cmp = Some x -> x = zero_ent \/ live (exec c lines) x = true.
Proof.
  intros c lines e cmp x Hc Hn Hb H. destruct (reachable_inv2 c lines Hc Hn Hb) as (HS & _).
  apply (r2_St2_targets _ e cmp x HS H).
Qed.

(** "it is the target last assigned, until that target is removed from the world, at which point it
    becomes the zero entity while the entity keeps all its components and values": per step, the
    target of a surviving entity changes only (a) to the target the step assigns to it, or (b) to
    zero because the step removed the old target; and in case (b) the entity's components and
    values are untouched. *)
Definition assigns (debug : bool) (s : W) (o : op) (e : ent) (cmp : nat) (x : ent) : Prop :=
  exists hrels, (match o with
                 | OUSetRel h r | OUAddRel h _ r | OUExchange h _ _ r => handle s h = Some e /\ hrels = r
                 | OSetRelBatch _ _ _ r | OExchangeBatch _ _ _ _ r _ => hrels = r
                 | _ => False end) /\
                exists h, In (cmp, h) hrels /\ handle s h = Some x.

Theorem target_is_last_assigned_until_removed : forall debug wd s n line o e cmp x,
  Inv2 s n -> n + 4 < Nat.pow 2 31 -> decode_op line = Some o -> valid_op2 s o ->
  let s' := fst (step debug wd s line) in
  Inv2 s' (S n) -> tgt s e cmp = Some x -> live s' e = true -> tgt s' e cmp <> None ->
  tgt s' e cmp = Some x \/
  (exists y, tgt s' e cmp = Some y /\ assigns debug s o e cmp y) \/
  (tgt s' e cmp = Some zero_ent /\ live s x = true /\ live s' x = false /\ forall c, val s' e c = val s e c).
Admitted.

(** "Removing targets one by one or in a batch, and the reuse of per-target storage for other
    targets, never changes any other entity's targets or data and never fails for a valid call" *)
Theorem remove_target_detaches : forall debug s n h x,
  Inv2 s n -> handle s h = Some x -> live s x = true -> is_locked s = false ->
  exists res s', step_op debug (ORemoveEntity h) s = Ok res s' /\ St2 s' /\ live s' x = false /\
    forall e, e <> x -> live s' e = live s e /\ (forall c, val s' e c = val s e c) /\
      (forall c, tgt s' e c = match tgt s e c with
                              | Some y => if ent_eqb y x then Some zero_ent else Some y
                              | None => None end).
Admitted.
