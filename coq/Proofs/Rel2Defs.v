(** * Rel2Defs: the invariant of the relation bookkeeping (worlds WITH relation components).

    [RelInvG D s] expresses the exactness of the per-archetype table lists and target lookups,
    [CacheInvG X s] the exactness of the filter cache. Both are parametrised so that they can also
    describe the short windows inside an operation in which the code is *not* tidy:
    - [D : nat -> Prop] is the set of "dying" target ids: a non-free table may still name a target
      whose id is in [D], and (when the archetype has at most one relation component, where
      [arch_free_table] does not touch the lookups) a freed table may still be listed under a key
      in [D];
    - [X : nat -> Prop] is the set of table ids that may still sit in cache entries although
      they have just been freed (between [free_table] and [cache_remove_table]).
    At operation boundaries both sets are empty: [RelInv], [CacheInv], [St2].

    The file also defines boolean checkers [rel_inv_b], [cache_inv_b], [wf_b], [st2_b] with the
    soundness theorems [rel_inv_b_sound], [cache_inv_b_sound], [wf_b_sound], [st2_b_sound]
    ([st2_b s = true -> St2 s]), so that the invariant can be tested on reachable states by
    [vm_compute] (see Rel2Check.v). *)
From Ark Require Import Model.Base Model.Mask Model.Pool Model.Util Model.World Model.Run.
From Ark Require Import Proofs.TableProofs Proofs.WF Proofs.StorageA Proofs.RelProofs.
From Coq Require Import Lia.

(** ** Vocabulary *)

Definition r2_none : nat -> Prop := fun _ => False.

(** Column [i] of archetype [a] is a relation column. *)
Definition r2_relcol (a : arch) (i : nat) : Prop := nth_error (a_isrel a) i = Some true.

(** A legal relation target in state [s]: the zero entity, an entity stored in some row, or
    (inside an operation) an entity that is being removed. *)
Definition r2_tgt_ok (D : nat -> Prop) (s : W) (x : ent) : Prop :=
  x = zero_ent \/ live s x = true \/ D (fst x).

(** The table has a relation column whose target has id [k]. *)
Definition r2_has_target (a : arch) (t : table) (k : nat) : Prop :=
  exists i g, r2_relcol a i /\ nth_error (t_targets t) i = Some (k, g).

(** ** The invariant of the relation bookkeeping *)

Record RelInvG (D : nat -> Prop) (s : W) : Prop := {
  (* table lists of an archetype *)
  ri_nodup : forall aid a, nth_error (w_archs s) aid = Some a -> NoDup (a_tables a) /\ NoDup (a_free a);
  ri_active : forall aid a tid t, nth_error (w_archs s) aid = Some a -> In tid (a_tables a) ->
      nth_error (w_tables s) tid = Some t -> t_free t = false;
  ri_freed : forall aid a tid t, nth_error (w_archs s) aid = Some a -> In tid (a_free a) ->
      nth_error (w_tables s) tid = Some t -> t_free t = true /\ t_len t = 0;
  ri_listed : forall tid t, nth_error (w_tables s) tid = Some t ->
      exists a, nth_error (w_archs s) (t_arch t) = Some a /\
                (if t_free t then In tid (a_free a) else In tid (a_tables a));
  ri_norel : forall aid a, nth_error (w_archs s) aid = Some a -> a_numrel a = 0 ->
      a_free a = [] /\ a_tgttabs a = [] /\ Forall (fun m : list (nat * list nat) => m = []) (a_reltabs a);
  (* a table's relation list and its per-column targets say the same (free tables keep theirs) *)
  ri_shape : forall tid t a, nth_error (w_tables s) tid = Some t -> nth_error (w_archs s) (t_arch t) = Some a ->
      NoDup (map fst (t_rels t)) /\
      (forall c x, In (c, x) (t_rels t) <->
         exists i, nth_error (a_comps a) i = Some c /\ r2_relcol a i /\ nth_error (t_targets t) i = Some x) /\
      (forall i, nth_error (a_isrel a) i = Some false -> nth_error (t_targets t) i = Some zero_ent) /\
      length (t_rels t) = a_numrel a;
  (* two active tables of one archetype differ in their targets: [arch_get_table] finds THE table *)
  ri_unique : forall tid1 tid2 t1 t2, nth_error (w_tables s) tid1 = Some t1 -> nth_error (w_tables s) tid2 = Some t2 ->
      t_free t1 = false -> t_free t2 = false -> t_arch t1 = t_arch t2 -> t_targets t1 = t_targets t2 -> tid1 = tid2;
  (* per-column lookup: target id -> tables *)
  ri_reltabs : forall aid a i m k l, nth_error (w_archs s) aid = Some a ->
      nth_error (a_reltabs a) i = Some m -> afind k m = Some l ->
      NoDup l /\ r2_relcol a i /\
      forall tid, In tid l -> exists t, nth_error (w_tables s) tid = Some t /\
        (exists g, nth_error (t_targets t) i = Some (k, g)) /\
        (t_free t = true -> D k /\ a_numrel a <= 1);
  ri_reltabs_complete : forall tid t a i x, nth_error (w_tables s) tid = Some t -> t_free t = false ->
      nth_error (w_archs s) (t_arch t) = Some a -> r2_relcol a i -> nth_error (t_targets t) i = Some x ->
      exists m l, nth_error (a_reltabs a) i = Some m /\ afind (fst x) m = Some l /\ In tid l;
  (* archetype-wide lookup: target id -> tables (each table once, whatever the number of columns) *)
  ri_tgttabs : forall aid a k l, nth_error (w_archs s) aid = Some a -> afind k (a_tgttabs a) = Some l ->
      NoDup l /\
      forall tid, In tid l -> exists t, nth_error (w_tables s) tid = Some t /\ r2_has_target a t k /\
        (t_free t = true -> D k /\ a_numrel a <= 1);
  ri_tgttabs_complete : forall tid t a i x, nth_error (w_tables s) tid = Some t -> t_free t = false ->
      nth_error (w_archs s) (t_arch t) = Some a -> r2_relcol a i -> nth_error (t_targets t) i = Some x ->
      exists l, afind (fst x) (a_tgttabs a) = Some l /\ In tid l;
  (* a key of a per-column lookup is a key of the archetype-wide lookup *)
  ri_keys : forall aid a i m k l, nth_error (w_archs s) aid = Some a ->
      nth_error (a_reltabs a) i = Some m -> afind k m = Some l -> exists l', afind k (a_tgttabs a) = Some l';
  (* the archetypes with relation components *)
  ri_relarchs : NoDup (w_relarchs s) /\
      forall aid, In aid (w_relarchs s) <-> exists a, nth_error (w_archs s) aid = Some a /\ 0 < a_numrel a;
  (* TargetsOK: targets of active tables are zero or stored entities *)
  ri_targets_ok : forall tid t r, nth_error (w_tables s) tid = Some t -> t_free t = false -> In r (t_rels t) ->
      r2_tgt_ok D s (snd r);
}.

(** Every key of a lookup is flagged as a target, so that its death triggers the cleanup. Key 0
    (the zero entity, which never dies) is flagged only if some call named it explicitly: the
    cleanup creates zero-target tables without registering the target. [P]: keys whose
    registration is still pending (between table creation and [register_targets]). *)
Definition TargetFlagsG (P : nat -> Prop) (s : W) : Prop :=
  forall aid a k l, nth_error (w_archs s) aid = Some a -> afind k (a_tgttabs a) = Some l ->
    k = 0 \/ nth k (w_istarget s) false = true \/ P k.

Definition RelInv (s : W) : Prop := RelInvG r2_none s /\ TargetFlagsG r2_none s.

(** ** The invariant of the filter cache *)

(** Table [tid] belongs into the cache entry of filter [f] with relations [rels]. *)
Definition r2_cache_member (s : W) (f : fobj) (rels : list rel) (tid : nat) : Prop :=
  exists t a, nth_error (w_tables s) tid = Some t /\ t_free t = false /\
              nth_error (w_archs s) (t_arch t) = Some a /\ filter_matches f (a_mask a) = true /\
              (t_rels t <> [] -> tbl_matches t rels = Some true).

Record CacheInvG (X : nat -> Prop) (s : W) : Prop := {
  ci_nodup : NoDup (w_centries s);
  ci_entry : forall addr e f, In addr (w_centries s) -> nth_error (w_cheap s) addr = Some e ->
      nth_error (w_filters s) (ce_filter e) = Some f ->
      NoDup (ce_tables e) /\
      (* the relations fixed in a registered filter name components of the filter's mask:
         this is what keeps [cache_add_table] from dereferencing a missing column *)
      (forall r, In r (ce_rels e) -> mk_get (f_mask f) (fst r) = true) /\
      (forall tid, In tid (ce_tables e) -> tid < length (w_tables s)) /\
      (forall tid, ~ X tid -> (In tid (ce_tables e) <-> r2_cache_member s f (ce_rels e) tid));
}.

Definition CacheInv (s : W) : Prop := CacheInvG r2_none s.

(** ** The combined invariant *)

Definition St2G (D P X : nat -> Prop) (s : W) : Prop :=
  WF s /\ RelInvG D s /\ TargetFlagsG P s /\ CacheInvG X s.
Definition St2 (s : W) : Prop := WF s /\ RelInv s /\ CacheInv s.

Lemma St2_St2G : forall s, St2 s <-> St2G r2_none r2_none r2_none s.
Proof. intros s. unfold St2, St2G, RelInv, CacheInv. tauto. Qed.

(** Observables: [live], [val] (StorageA) and [target_of] (WF) are used unchanged; the relation
    target of a live entity: *)
Definition tgt (s : W) (e : ent) (c : nat) : option ent := if live s e then target_of s e c else None.

(** ** Boolean helpers *)

Fixpoint r2_nodupb (l : list nat) : bool :=
  match l with
  | [] => true
  | x :: t => (negb (memb x t) && r2_nodupb t)%bool
  end.

Fixpoint r2_alli {A} (f : nat -> A -> bool) (i0 : nat) (l : list A) : bool :=
  match l with
  | [] => true
  | x :: t => (f i0 x && r2_alli f (S i0) t)%bool
  end.

Fixpoint r2_exi {A} (f : nat -> A -> bool) (i0 : nat) (l : list A) : bool :=
  match l with
  | [] => false
  | x :: t => (f i0 x || r2_exi f (S i0) t)%bool
  end.

Fixpoint r2_ents_eqb (l1 l2 : list ent) : bool :=
  match l1, l2 with
  | [], [] => true
  | a :: t1, b :: t2 => (ent_eqb a b && r2_ents_eqb t1 t2)%bool
  | _, _ => false
  end.

Definition r2_is_some_true (o : option bool) : bool := match o with Some true => true | _ => false end.

Lemma r2_nodupb_sound : forall l, r2_nodupb l = true -> NoDup l.
Proof.
  induction l as [|x t IH]; intros H; [constructor|].
  cbn [r2_nodupb] in H. apply andb_true_iff in H. destruct H as [H1 H2].
  constructor; [|apply IH; exact H2].
  intros Hin. apply sa_memb_in in Hin. rewrite Hin in H1. discriminate.
Qed.

Lemma r2_alli_sound : forall A (f : nat -> A -> bool) l i0, r2_alli f i0 l = true ->
  forall i x, nth_error l i = Some x -> f (i0 + i) x = true.
Proof.
  induction l as [|y t IH]; intros i0 H i x Hn; [destruct i; discriminate|].
  cbn [r2_alli] in H. apply andb_true_iff in H. destruct H as [H1 H2].
  destruct i as [|i].
  - cbn in Hn. injection Hn as <-. rewrite Nat.add_0_r. exact H1.
  - cbn in Hn. replace (i0 + S i) with (S i0 + i) by lia. apply (IH (S i0) H2 i x Hn).
Qed.

Lemma r2_alli0_sound : forall A (f : nat -> A -> bool) l, r2_alli f 0 l = true ->
  forall i x, nth_error l i = Some x -> f i x = true.
Proof. intros A f l H i x Hn. exact (r2_alli_sound A f l 0 H i x Hn). Qed.

Lemma r2_ents_eqb_refl : forall l, r2_ents_eqb l l = true.
Proof.
  induction l as [|a t IH]; [reflexivity|]. cbn [r2_ents_eqb]. rewrite sa_ent_eqb_refl, IH. reflexivity.
Qed.

Lemma r2_afind_in : forall V k (m : list (nat * V)) v, afind k m = Some v -> In (k, v) m.
Proof.
  induction m as [|[k' v'] t IH]; intros v H; [discriminate|].
  cbn [afind] in H. destruct (Nat.eqb k' k) eqn:E.
  - apply Nat.eqb_eq in E. subst k'. injection H as <-. left. reflexivity.
  - right. apply IH. exact H.
Qed.

(** ** The checker for [RelInv] *)

Definition r2_tab_free (s : W) (tid : nat) : option bool := option_map t_free (nth_error (w_tables s) tid).

Definition r2_c_nodup (s : W) : bool :=
  forallb (fun a => (r2_nodupb (a_tables a) && r2_nodupb (a_free a))%bool) (w_archs s).

Definition r2_c_active (s : W) : bool :=
  forallb (fun a => forallb (fun tid => match nth_error (w_tables s) tid with
                                        | Some t => negb (t_free t) | None => true end) (a_tables a)) (w_archs s).

Definition r2_c_freed (s : W) : bool :=
  forallb (fun a => forallb (fun tid => match nth_error (w_tables s) tid with
                                        | Some t => (t_free t && Nat.eqb (t_len t) 0)%bool | None => true end) (a_free a)) (w_archs s).

Definition r2_c_listed (s : W) : bool :=
  r2_alli (fun tid t => match nth_error (w_archs s) (t_arch t) with
                        | Some a => if t_free t then memb tid (a_free a) else memb tid (a_tables a)
                        | None => false end) 0 (w_tables s).

Definition r2_c_norel (s : W) : bool :=
  forallb (fun a => if Nat.eqb (a_numrel a) 0
                    then (is_nil (a_free a) && is_nil (a_tgttabs a) && forallb (fun m => is_nil m) (a_reltabs a))%bool
                    else true) (w_archs s).

Definition r2_shape_b (a : arch) (t : table) : bool :=
  (r2_nodupb (map fst (t_rels t)) &&
   forallb (fun r : rel => match index_of (fst r) (a_comps a) with
                           | Some i => (r2_is_some_true (nth_error (a_isrel a) i) &&
                                        match nth_error (t_targets t) i with
                                        | Some y => ent_eqb y (snd r) | None => false end)%bool
                           | None => false end) (t_rels t) &&
   r2_alli (fun i c => match nth_error (a_isrel a) i with
                       | Some true => match nth_error (t_targets t) i with
                                      | Some x => existsb (fun r : rel => (Nat.eqb (fst r) c && ent_eqb (snd r) x)%bool) (t_rels t)
                                      | None => true end
                       | _ => true end) 0 (a_comps a) &&
   r2_alli (fun i (b : bool) => if b then true
                                else match nth_error (t_targets t) i with
                                     | Some x => ent_eqb x zero_ent | None => false end) 0 (a_isrel a) &&
   Nat.eqb (length (t_rels t)) (a_numrel a))%bool.

Definition r2_c_shape (s : W) : bool :=
  forallb (fun t => match nth_error (w_archs s) (t_arch t) with
                    | Some a => r2_shape_b a t | None => true end) (w_tables s).

Definition r2_c_unique (s : W) : bool :=
  r2_alli (fun tid1 t1 =>
    r2_alli (fun tid2 t2 =>
      if (negb (t_free t1) && negb (t_free t2) && Nat.eqb (t_arch t1) (t_arch t2) &&
          r2_ents_eqb (t_targets t1) (t_targets t2))%bool
      then Nat.eqb tid1 tid2 else true) 0 (w_tables s)) 0 (w_tables s).

(** strict version (D empty): no free table in any lookup *)
Definition r2_c_reltabs (s : W) : bool :=
  forallb (fun a =>
    r2_alli (fun i (m : list (nat * list nat)) =>
      forallb (fun kl : nat * list nat =>
        (r2_nodupb (snd kl) && r2_is_some_true (nth_error (a_isrel a) i) &&
         forallb (fun tid => match nth_error (w_tables s) tid with
                             | Some t => (negb (t_free t) &&
                                          match nth_error (t_targets t) i with
                                          | Some x => Nat.eqb (fst x) (fst kl) | None => false end)%bool
                             | None => false end) (snd kl))%bool) m) 0 (a_reltabs a)) (w_archs s).

Definition r2_c_reltabs_complete (s : W) : bool :=
  r2_alli (fun tid t =>
    if t_free t then true
    else match nth_error (w_archs s) (t_arch t) with
         | None => true
         | Some a =>
             r2_alli (fun i (b : bool) =>
               if b then match nth_error (t_targets t) i with
                         | None => true
                         | Some x => match nth_error (a_reltabs a) i with
                                     | Some m => match afind (fst x) m with Some l => memb tid l | None => false end
                                     | None => false end
                         end
               else true) 0 (a_isrel a)
         end) 0 (w_tables s).

Definition r2_has_target_b (a : arch) (t : table) (k : nat) : bool :=
  r2_exi (fun i (b : bool) => (b && match nth_error (t_targets t) i with
                                    | Some x => Nat.eqb (fst x) k | None => false end)%bool) 0 (a_isrel a).

Definition r2_c_tgttabs (s : W) : bool :=
  forallb (fun a =>
    forallb (fun kl : nat * list nat =>
      (r2_nodupb (snd kl) &&
       forallb (fun tid => match nth_error (w_tables s) tid with
                           | Some t => (negb (t_free t) && r2_has_target_b a t (fst kl))%bool
                           | None => false end) (snd kl))%bool) (a_tgttabs a)) (w_archs s).

Definition r2_c_tgttabs_complete (s : W) : bool :=
  r2_alli (fun tid t =>
    if t_free t then true
    else match nth_error (w_archs s) (t_arch t) with
         | None => true
         | Some a =>
             r2_alli (fun i (b : bool) =>
               if b then match nth_error (t_targets t) i with
                         | None => true
                         | Some x => match afind (fst x) (a_tgttabs a) with Some l => memb tid l | None => false end
                         end
               else true) 0 (a_isrel a)
         end) 0 (w_tables s).

Definition r2_c_keys (s : W) : bool :=
  forallb (fun a =>
    forallb (fun m : list (nat * list nat) =>
      forallb (fun kl : nat * list nat => match afind (fst kl) (a_tgttabs a) with Some _ => true | None => false end) m)
      (a_reltabs a)) (w_archs s).

Definition r2_c_relarchs (s : W) : bool :=
  (r2_nodupb (w_relarchs s) &&
   forallb (fun aid => match nth_error (w_archs s) aid with Some a => Nat.ltb 0 (a_numrel a) | None => false end) (w_relarchs s) &&
   r2_alli (fun aid a => if Nat.ltb 0 (a_numrel a) then memb aid (w_relarchs s) else true) 0 (w_archs s))%bool.

Definition r2_c_istarget (s : W) : bool :=
  forallb (fun a => forallb (fun kl : nat * list nat => (Nat.eqb (fst kl) 0 || nth (fst kl) (w_istarget s) false)%bool) (a_tgttabs a)) (w_archs s).

Definition r2_c_targets_ok (s : W) : bool :=
  forallb (fun t => if t_free t then true
                    else forallb (fun r : rel => (ent_eqb (snd r) zero_ent || live s (snd r))%bool) (t_rels t)) (w_tables s).

Definition rel_inv_checks (s : W) : list bool :=
  [r2_c_nodup s; r2_c_active s; r2_c_freed s; r2_c_listed s; r2_c_norel s; r2_c_shape s; r2_c_unique s;
   r2_c_reltabs s; r2_c_reltabs_complete s; r2_c_tgttabs s; r2_c_tgttabs_complete s; r2_c_keys s;
   r2_c_relarchs s; r2_c_istarget s; r2_c_targets_ok s].

Definition rel_inv_b (s : W) : bool := forallb (fun b : bool => b) (rel_inv_checks s).

(** ** The checker for [CacheInv] *)

Definition r2_cache_member_b (s : W) (f : fobj) (rels : list rel) (t : table) : bool :=
  (negb (t_free t) &&
   match nth_error (w_archs s) (t_arch t) with
   | Some a => (filter_matches f (a_mask a) &&
                (is_nil (t_rels t) || r2_is_some_true (tbl_matches t rels)))%bool
   | None => false
   end)%bool.

Definition r2_c_entry (s : W) (e : centry) (f : fobj) : bool :=
  (r2_nodupb (ce_tables e) &&
   forallb (fun r : rel => mk_get (f_mask f) (fst r)) (ce_rels e) &&
   forallb (fun tid => match nth_error (w_tables s) tid with
                       | Some t => r2_cache_member_b s f (ce_rels e) t | None => false end) (ce_tables e) &&
   r2_alli (fun tid t => if r2_cache_member_b s f (ce_rels e) t then memb tid (ce_tables e) else true) 0 (w_tables s))%bool.

Definition cache_inv_b (s : W) : bool :=
  (r2_nodupb (w_centries s) &&
   forallb (fun addr => match nth_error (w_cheap s) addr with
                        | Some e => match nth_error (w_filters s) (ce_filter e) with
                                    | Some f => r2_c_entry s e f | None => true end
                        | None => true end) (w_centries s))%bool.

(** ** A checker for [WF] *)

Definition r2_ckind_eqb (a b : ckind) : bool :=
  (Bool.eqb (ck_rel a) (ck_rel b) && Bool.eqb (ck_zs a) (ck_zs b) && Bool.eqb (ck_triv a) (ck_triv b))%bool.

Fixpoint r2_list_eqb {A} (eqb : A -> A -> bool) (l1 l2 : list A) : bool :=
  match l1, l2 with
  | [], [] => true
  | a :: t1, b :: t2 => (eqb a b && r2_list_eqb eqb t1 t2)%bool
  | _, _ => false
  end.

Definition r2_tbl_ok_b (t : table) : bool :=
  (Nat.leb (t_len t) (t_cap t) && Nat.eqb (length (t_ents t)) (t_cap t) &&
   Nat.eqb (length (t_cols t)) (length (t_ids t)) && Nat.eqb (length (t_kinds t)) (length (t_ids t)) &&
   forallb (fun c : list Z => (Nat.eqb (length c) (t_cap t) &&
                               forallb (fun v => Z.eqb v 0) (skipn (t_len t) c))%bool) (t_cols t) &&
   r2_alli (fun i k => if ck_zs k then match nth_error (t_cols t) i with
                                       | Some c => forallb (fun v => Z.eqb v 0) c | None => true end
                       else true) 0 (t_kinds t))%bool.

Definition r2_w_tables (s : W) : bool := forallb r2_tbl_ok_b (w_tables s).

Definition r2_w_layout (s : W) : bool :=
  forallb (fun t => match nth_error (w_archs s) (t_arch t) with
                    | Some a => (r2_list_eqb Nat.eqb (t_ids t) (a_comps a) &&
                                 r2_list_eqb r2_ckind_eqb (t_kinds t) (map (kind_of s) (t_ids t)) &&
                                 Nat.eqb (length (t_targets t)) (length (t_ids t)))%bool
                    | None => false end) (w_tables s).

Definition r2_w_arch_comps (s : W) : bool :=
  forallb (fun a =>
    (r2_list_eqb Nat.eqb (a_comps a) (mk_to_list (a_mask a) (length (w_reg s))) &&
     N.ltb (a_mask a) (N.shiftl 1 (N.of_nat (length (w_reg s)))) &&
     r2_list_eqb Bool.eqb (a_isrel a) (map (fun c => ck_rel (kind_of s c)) (a_comps a)) &&
     Nat.eqb (a_numrel a) (length (filter (fun b : bool => b) (a_isrel a))) &&
     Nat.eqb (length (a_reltabs a)) (length (a_comps a)))%bool) (w_archs s).

Definition r2_w_arch_unique (s : W) : bool :=
  r2_alli (fun i a => r2_alli (fun j b => if N.eqb (a_mask a) (a_mask b) then Nat.eqb i j else true) 0 (w_archs s)) 0 (w_archs s).

Definition r2_tab_of_arch (s : W) (aid tid : nat) : bool :=
  match nth_error (w_tables s) tid with Some t => Nat.eqb (t_arch t) aid | None => false end.

Definition r2_w_arch_tables (s : W) : bool :=
  r2_alli (fun aid a =>
    (forallb (r2_tab_of_arch s aid) (a_tables a) && forallb (r2_tab_of_arch s aid) (a_free a) &&
     forallb (fun m : list (nat * list nat) => forallb (fun kl : nat * list nat => forallb (r2_tab_of_arch s aid) (snd kl)) m) (a_reltabs a) &&
     forallb (fun kl : nat * list nat => forallb (r2_tab_of_arch s aid) (snd kl)) (a_tgttabs a))%bool) 0 (w_archs s).

Definition r2_w_norel_table (s : W) : bool :=
  forallb (fun a => if Nat.eqb (a_numrel a) 0 then Nat.leb (length (a_tables a)) 1 else true) (w_archs s).

Definition r2_w_arch0 (s : W) : bool :=
  match nth_error (w_archs s) 0, nth_error (w_tables s) 0 with
  | Some a0, Some t0 => (N.eqb (a_mask a0) 0 && Nat.eqb (t_arch t0) 0)%bool
  | _, _ => false
  end.

Definition r2_w_index_lists (s : W) : bool :=
  (Nat.eqb (length (w_compindex s)) (length (w_reg s)) && Nat.eqb (length (w_archcount s)) (length (w_reg s)) &&
   Nat.leb (length (w_reg s)) (cf_bits (w_cfg s)) && Nat.leb 1 (cf_cap (w_cfg s)) && Nat.leb 1 (cf_caprel (w_cfg s)))%bool.

Definition r2_w_index_len (s : W) : bool :=
  (Nat.eqb (length (w_index s)) (length (pe (w_pool s))) && Nat.eqb (length (w_istarget s)) (length (w_index s)))%bool.

Definition r2_loc_eqb (o : option (nat * nat)) (tid r : nat) : bool :=
  match o with Some (a, b) => (Nat.eqb a tid && Nat.eqb b r)%bool | None => false end.

Definition r2_w_rows (s : W) : bool :=
  r2_alli (fun tid t =>
    forallb (fun r => (r2_loc_eqb (loc s (row_ent t r)) tid r &&
                       match nth_error (pe (w_pool s)) (fst (row_ent t r)) with
                       | Some e => ent_eqb e (row_ent t r) | None => false end)%bool) (seq 0 (t_len t))) 0 (w_tables s).

Definition r2_w_index (s : W) : bool :=
  r2_alli (fun id (ix : option nat * nat) =>
    match ix with
    | (Some tid, r) => match nth_error (w_tables s) tid with
                       | Some t => (Nat.ltb r (t_len t) && Nat.eqb (fst (row_ent t r)) id)%bool
                       | None => false end
    | (None, _) => true
    end) 0 (w_index s).

(** the free list, read off the links *)
Fixpoint r2_free_list (l : list ent) (nx n : nat) : list nat :=
  match n with
  | O => []
  | S n' => nx :: r2_free_list l (fst (nth nx l zero_ent)) n'
  end.

Definition r2_w_pool (s : W) : bool :=
  let p := w_pool s in
  let fl := r2_free_list (pe p) (pnext p) (pavail p) in
  (Nat.leb 2 (length (pe p)) && r2_nodupb fl &&
   forallb (fun i => (Nat.leb 2 i && Nat.ltb i (length (pe p)))%bool) fl &&
   forallb (fun i => match nth_error (w_index s) i with Some (None, _) => true | _ => false end) fl &&
   forallb (fun i => if (Nat.leb 2 i && negb (memb i fl))%bool
                     then match nth_error (w_index s) i with Some (Some _, _) => true | _ => false end
                     else true) (seq 0 (length (pe p))))%bool.

Definition r2_w_reserved (s : W) : bool :=
  (match nth_error (w_index s) 0 with Some (None, _) => true | _ => false end &&
   match nth_error (w_index s) 1 with Some (None, _) => true | _ => false end &&
   match nth_error (pe (w_pool s)) 0 with Some e => ent_eqb e (0, max_u32) | None => false end &&
   match nth_error (pe (w_pool s)) 1 with Some e => ent_eqb e (1, max_u32) | None => false end)%bool.

Definition r2_w_small (s : W) : bool := N.ltb (N.of_nat (length (pe (w_pool s)))) 2147483648%N.

Definition r2_w_cache (s : W) : bool :=
  forallb (fun addr => match nth_error (w_cheap s) addr with
                       | Some e => Nat.ltb (ce_filter e) (length (w_filters s)) | None => false end) (w_centries s).

Definition wf_checks (s : W) : list bool :=
  [r2_w_tables s; r2_w_layout s; r2_w_arch_comps s; r2_w_arch_unique s; r2_w_arch_tables s; r2_w_norel_table s;
   r2_w_arch0 s; r2_w_index_lists s; r2_w_index_len s; r2_w_rows s; r2_w_index s; r2_w_pool s; r2_w_reserved s;
   r2_w_small s; r2_w_cache s].

Definition wf_b (s : W) : bool := forallb (fun b : bool => b) (wf_checks s).

Definition st2_b (s : W) : bool := (wf_b s && rel_inv_b s && cache_inv_b s)%bool.

(** ** Soundness of the checkers *)

Ltac r2_andb H :=
  repeat (let H' := fresh H in apply andb_true_iff in H; destruct H as [H H']).

Lemma r2_exi_sound : forall A (f : nat -> A -> bool) l i0, r2_exi f i0 l = true ->
  exists i x, nth_error l i = Some x /\ f (i0 + i) x = true.
Proof.
  induction l as [|y t IH]; intros i0 H; [discriminate|].
  cbn [r2_exi] in H. apply orb_true_iff in H. destruct H as [H|H].
  - exists 0, y. split; [reflexivity|]. rewrite Nat.add_0_r. exact H.
  - destruct (IH (S i0) H) as [i [x [Hn Hf]]]. exists (S i), x. split; [exact Hn|].
    replace (i0 + S i) with (S i0 + i) by lia. exact Hf.
Qed.

Lemma r2_is_nil_eq : forall A (l : list A), is_nil l = true -> l = [].
Proof. intros A [|x t] H; [reflexivity|discriminate]. Qed.

Lemma r2_some_true : forall o, r2_is_some_true o = true -> o = Some true.
Proof. intros [[|]|] H; try discriminate; reflexivity. Qed.

Lemma r2_forallb_nth : forall A (f : A -> bool) l i x, forallb f l = true -> nth_error l i = Some x -> f x = true.
Proof. intros A f l i x H Hn. rewrite forallb_forall in H. apply H. eapply nth_error_In. exact Hn. Qed.

Lemma r2_c_nodup_sound : forall s, r2_c_nodup s = true ->
  forall aid a, nth_error (w_archs s) aid = Some a -> NoDup (a_tables a) /\ NoDup (a_free a).
Proof.
  intros s H aid a Ha. pose proof (r2_forallb_nth _ _ _ _ _ H Ha) as H1. cbv beta in H1.
  apply andb_true_iff in H1. destruct H1 as [H1 H2]. split; apply r2_nodupb_sound; assumption.
Qed.

Lemma r2_c_active_sound : forall s, r2_c_active s = true ->
  forall aid a tid t, nth_error (w_archs s) aid = Some a -> In tid (a_tables a) ->
    nth_error (w_tables s) tid = Some t -> t_free t = false.
Proof.
  intros s H aid a tid t Ha Hin Ht. pose proof (r2_forallb_nth _ _ _ _ _ H Ha) as H1. cbv beta in H1.
  rewrite forallb_forall in H1. specialize (H1 tid Hin). rewrite Ht in H1.
  apply negb_true_iff in H1. exact H1.
Qed.

Lemma r2_c_freed_sound : forall s, r2_c_freed s = true ->
  forall aid a tid t, nth_error (w_archs s) aid = Some a -> In tid (a_free a) ->
    nth_error (w_tables s) tid = Some t -> t_free t = true /\ t_len t = 0.
Proof.
  intros s H aid a tid t Ha Hin Ht. pose proof (r2_forallb_nth _ _ _ _ _ H Ha) as H1. cbv beta in H1.
  rewrite forallb_forall in H1. specialize (H1 tid Hin). rewrite Ht in H1.
  apply andb_true_iff in H1. destruct H1 as [H1 H2]. apply Nat.eqb_eq in H2. split; assumption.
Qed.

Lemma r2_c_listed_sound : forall s, r2_c_listed s = true ->
  forall tid t, nth_error (w_tables s) tid = Some t ->
    exists a, nth_error (w_archs s) (t_arch t) = Some a /\
              (if t_free t then In tid (a_free a) else In tid (a_tables a)).
Proof.
  intros s H tid t Ht. pose proof (r2_alli0_sound _ _ _ H _ _ Ht) as H1. cbv beta in H1.
  destruct (nth_error (w_archs s) (t_arch t)) as [a|]; [|discriminate].
  exists a. split; [reflexivity|]. destruct (t_free t); apply sa_memb_in; exact H1.
Qed.

Lemma r2_c_norel_sound : forall s, r2_c_norel s = true ->
  forall aid a, nth_error (w_archs s) aid = Some a -> a_numrel a = 0 ->
    a_free a = [] /\ a_tgttabs a = [] /\ Forall (fun m : list (nat * list nat) => m = []) (a_reltabs a).
Proof.
  intros s H aid a Ha Hn. pose proof (r2_forallb_nth _ _ _ _ _ H Ha) as H1. cbv beta in H1.
  rewrite Hn in H1. cbn [Nat.eqb] in H1. r2_andb H1.
  split; [apply r2_is_nil_eq; exact H1|]. split; [apply r2_is_nil_eq; exact H2|].
  apply Forall_forall. intros m Hm. rewrite forallb_forall in H0. apply r2_is_nil_eq. apply H0. exact Hm.
Qed.

Lemma r2_shape_b_sound : forall a t, r2_shape_b a t = true ->
  NoDup (map fst (t_rels t)) /\
  (forall c x, In (c, x) (t_rels t) <->
     exists i, nth_error (a_comps a) i = Some c /\ r2_relcol a i /\ nth_error (t_targets t) i = Some x) /\
  (forall i, nth_error (a_isrel a) i = Some false -> nth_error (t_targets t) i = Some zero_ent) /\
  length (t_rels t) = a_numrel a.
Proof.
  intros a t H. unfold r2_shape_b in H. apply andb_true_iff in H. destruct H as [H HL]. r2_andb H.
  split; [apply r2_nodupb_sound; exact H|]. split; [|split; [|apply Nat.eqb_eq; exact HL]].
  - intros c x. split.
    + intros Hin. rewrite forallb_forall in H2. specialize (H2 (c, x) Hin). cbn [fst snd] in H2.
      destruct (index_of c (a_comps a)) as [i|] eqn:Ei; [|discriminate].
      apply andb_true_iff in H2. destruct H2 as [Hr Hy].
      exists i. split; [apply rl_index_of_some; exact Ei|]. split; [apply r2_some_true; exact Hr|].
      destruct (nth_error (t_targets t) i) as [y|]; [|discriminate].
      apply sa_ent_eqb_eq in Hy. subst y. reflexivity.
    + intros [i [Hc [Hr Hx]]]. pose proof (r2_alli0_sound _ _ _ H1 _ _ Hc) as H3. cbv beta in H3.
      unfold r2_relcol in Hr. rewrite Hr, Hx in H3. apply existsb_exists in H3.
      destruct H3 as [[c' x'] [Hin Heq]]. cbn [fst snd] in Heq. apply andb_true_iff in Heq.
      destruct Heq as [E1 E2]. apply Nat.eqb_eq in E1. apply sa_ent_eqb_eq in E2. subst c' x'. exact Hin.
  - intros i Hi. pose proof (r2_alli0_sound _ _ _ H0 _ _ Hi) as H3. cbv beta iota in H3.
    destruct (nth_error (t_targets t) i) as [x|]; [|discriminate].
    apply sa_ent_eqb_eq in H3. subst x. reflexivity.
Qed.

Lemma r2_c_shape_sound : forall s, r2_c_shape s = true ->
  forall tid t a, nth_error (w_tables s) tid = Some t -> nth_error (w_archs s) (t_arch t) = Some a ->
    NoDup (map fst (t_rels t)) /\
    (forall c x, In (c, x) (t_rels t) <->
       exists i, nth_error (a_comps a) i = Some c /\ r2_relcol a i /\ nth_error (t_targets t) i = Some x) /\
    (forall i, nth_error (a_isrel a) i = Some false -> nth_error (t_targets t) i = Some zero_ent) /\
    length (t_rels t) = a_numrel a.
Proof.
  intros s H tid t a Ht Ha. pose proof (r2_forallb_nth _ _ _ _ _ H Ht) as H1. cbv beta in H1.
  rewrite Ha in H1. apply r2_shape_b_sound. exact H1.
Qed.

Lemma r2_c_unique_sound : forall s, r2_c_unique s = true ->
  forall tid1 tid2 t1 t2, nth_error (w_tables s) tid1 = Some t1 -> nth_error (w_tables s) tid2 = Some t2 ->
    t_free t1 = false -> t_free t2 = false -> t_arch t1 = t_arch t2 -> t_targets t1 = t_targets t2 -> tid1 = tid2.
Proof.
  intros s H tid1 tid2 t1 t2 H1 H2 F1 F2 Ea Et.
  pose proof (r2_alli0_sound _ _ _ H _ _ H1) as H3. cbv beta in H3.
  pose proof (r2_alli0_sound _ _ _ H3 _ _ H2) as H4. cbv beta in H4.
  rewrite F1, F2, Ea, Et, Nat.eqb_refl, r2_ents_eqb_refl in H4. cbn in H4. apply Nat.eqb_eq. exact H4.
Qed.

Lemma r2_c_reltabs_sound : forall s D, r2_c_reltabs s = true ->
  forall aid a i m k l, nth_error (w_archs s) aid = Some a ->
    nth_error (a_reltabs a) i = Some m -> afind k m = Some l ->
    NoDup l /\ r2_relcol a i /\
    forall tid, In tid l -> exists t, nth_error (w_tables s) tid = Some t /\
      (exists g, nth_error (t_targets t) i = Some (k, g)) /\
      (t_free t = true -> D k /\ a_numrel a <= 1).
Proof.
  intros s D H aid a i m k l Ha Hm Hk. pose proof (r2_forallb_nth _ _ _ _ _ H Ha) as H1. cbv beta in H1.
  pose proof (r2_alli0_sound _ _ _ H1 _ _ Hm) as H2. cbv beta in H2.
  rewrite forallb_forall in H2. specialize (H2 (k, l) (r2_afind_in _ _ _ _ Hk)). cbn [fst snd] in H2.
  r2_andb H2. split; [apply r2_nodupb_sound; exact H2|]. split; [apply r2_some_true; exact H3|].
  intros tid Hin. rewrite forallb_forall in H0. specialize (H0 tid Hin).
  destruct (nth_error (w_tables s) tid) as [t|]; [|discriminate].
  apply andb_true_iff in H0. destruct H0 as [Hf Hx]. apply negb_true_iff in Hf.
  exists t. split; [reflexivity|]. split.
  - destruct (nth_error (t_targets t) i) as [[k' g]|]; [|discriminate]. cbn [fst] in Hx.
    apply Nat.eqb_eq in Hx. subst k'. exists g. reflexivity.
  - intros Hc. rewrite Hc in Hf. discriminate.
Qed.

Lemma r2_c_reltabs_complete_sound : forall s, r2_c_reltabs_complete s = true ->
  forall tid t a i x, nth_error (w_tables s) tid = Some t -> t_free t = false ->
    nth_error (w_archs s) (t_arch t) = Some a -> r2_relcol a i -> nth_error (t_targets t) i = Some x ->
    exists m l, nth_error (a_reltabs a) i = Some m /\ afind (fst x) m = Some l /\ In tid l.
Proof.
  intros s H tid t a i x Ht Hf Ha Hr Hx. pose proof (r2_alli0_sound _ _ _ H _ _ Ht) as H1. cbv beta in H1.
  rewrite Hf, Ha in H1. pose proof (r2_alli0_sound _ _ _ H1 _ _ Hr) as H2. cbv beta iota in H2.
  rewrite Hx in H2. destruct (nth_error (a_reltabs a) i) as [m|] eqn:Em; [|discriminate].
  destruct (afind (fst x) m) as [l|] eqn:El; [|discriminate].
  exists m, l. split; [reflexivity|]. split; [exact El|]. apply sa_memb_in. exact H2.
Qed.

Lemma r2_has_target_b_sound : forall a t k, r2_has_target_b a t k = true -> r2_has_target a t k.
Proof.
  intros a t k H. apply r2_exi_sound in H. destruct H as [i [b [Hb H]]]. cbn [Nat.add] in H.
  apply andb_true_iff in H. destruct H as [Hb' Hx]. subst b.
  destruct (nth_error (t_targets t) i) as [[k' g]|] eqn:Et; [|discriminate]. cbn [fst] in Hx.
  apply Nat.eqb_eq in Hx. subst k'. exists i, g. split; [exact Hb|exact Et].
Qed.

Lemma r2_c_tgttabs_sound : forall s D, r2_c_tgttabs s = true ->
  forall aid a k l, nth_error (w_archs s) aid = Some a -> afind k (a_tgttabs a) = Some l ->
    NoDup l /\
    forall tid, In tid l -> exists t, nth_error (w_tables s) tid = Some t /\ r2_has_target a t k /\
      (t_free t = true -> D k /\ a_numrel a <= 1).
Proof.
  intros s D H aid a k l Ha Hk. pose proof (r2_forallb_nth _ _ _ _ _ H Ha) as H1. cbv beta in H1.
  rewrite forallb_forall in H1. specialize (H1 (k, l) (r2_afind_in _ _ _ _ Hk)). cbn [fst snd] in H1.
  apply andb_true_iff in H1. destruct H1 as [H1 H2]. split; [apply r2_nodupb_sound; exact H1|].
  intros tid Hin. rewrite forallb_forall in H2. specialize (H2 tid Hin).
  destruct (nth_error (w_tables s) tid) as [t|]; [|discriminate].
  apply andb_true_iff in H2. destruct H2 as [Hf Hx]. apply negb_true_iff in Hf.
  exists t. split; [reflexivity|]. split; [apply r2_has_target_b_sound; exact Hx|].
  intros Hc. rewrite Hc in Hf. discriminate.
Qed.

Lemma r2_c_tgttabs_complete_sound : forall s, r2_c_tgttabs_complete s = true ->
  forall tid t a i x, nth_error (w_tables s) tid = Some t -> t_free t = false ->
    nth_error (w_archs s) (t_arch t) = Some a -> r2_relcol a i -> nth_error (t_targets t) i = Some x ->
    exists l, afind (fst x) (a_tgttabs a) = Some l /\ In tid l.
Proof.
  intros s H tid t a i x Ht Hf Ha Hr Hx. pose proof (r2_alli0_sound _ _ _ H _ _ Ht) as H1. cbv beta in H1.
  rewrite Hf, Ha in H1. pose proof (r2_alli0_sound _ _ _ H1 _ _ Hr) as H2. cbv beta iota in H2.
  rewrite Hx in H2. destruct (afind (fst x) (a_tgttabs a)) as [l|] eqn:El; [|discriminate].
  exists l. split; [reflexivity|]. apply sa_memb_in. exact H2.
Qed.

Lemma r2_c_keys_sound : forall s, r2_c_keys s = true ->
  forall aid a i m k l, nth_error (w_archs s) aid = Some a ->
    nth_error (a_reltabs a) i = Some m -> afind k m = Some l -> exists l', afind k (a_tgttabs a) = Some l'.
Proof.
  intros s H aid a i m k l Ha Hm Hk. pose proof (r2_forallb_nth _ _ _ _ _ H Ha) as H1. cbv beta in H1.
  pose proof (r2_forallb_nth _ _ _ _ _ H1 Hm) as H2. cbv beta in H2.
  rewrite forallb_forall in H2. specialize (H2 (k, l) (r2_afind_in _ _ _ _ Hk)). cbn [fst] in H2.
  destruct (afind k (a_tgttabs a)) as [l'|]; [|discriminate]. exists l'. reflexivity.
Qed.

Lemma r2_c_relarchs_sound : forall s, r2_c_relarchs s = true ->
  NoDup (w_relarchs s) /\
  forall aid, In aid (w_relarchs s) <-> exists a, nth_error (w_archs s) aid = Some a /\ 0 < a_numrel a.
Proof.
  intros s H. unfold r2_c_relarchs in H. r2_andb H. split; [apply r2_nodupb_sound; exact H|].
  intros aid. split.
  - intros Hin. rewrite forallb_forall in H1. specialize (H1 aid Hin).
    destruct (nth_error (w_archs s) aid) as [a|]; [|discriminate]. exists a. split; [reflexivity|].
    apply Nat.ltb_lt. exact H1.
  - intros [a [Ha Hn]]. pose proof (r2_alli0_sound _ _ _ H0 _ _ Ha) as H2. cbv beta in H2.
    apply Nat.ltb_lt in Hn. rewrite Hn in H2. apply sa_memb_in. exact H2.
Qed.

Lemma r2_c_istarget_sound : forall s P, r2_c_istarget s = true -> TargetFlagsG P s.
Proof.
  intros s P H aid a k l Ha Hk. pose proof (r2_forallb_nth _ _ _ _ _ H Ha) as H1. cbv beta in H1.
  rewrite forallb_forall in H1. specialize (H1 (k, l) (r2_afind_in _ _ _ _ Hk)). cbn [fst] in H1.
  apply orb_true_iff in H1. destruct H1 as [H1|H1]; [left; apply Nat.eqb_eq; exact H1|right; left; exact H1].
Qed.

Lemma r2_c_targets_ok_sound : forall s D, r2_c_targets_ok s = true ->
  forall tid t r, nth_error (w_tables s) tid = Some t -> t_free t = false -> In r (t_rels t) -> r2_tgt_ok D s (snd r).
Proof.
  intros s D H tid t r Ht Hf Hin. pose proof (r2_forallb_nth _ _ _ _ _ H Ht) as H1. cbv beta in H1.
  rewrite Hf in H1. rewrite forallb_forall in H1. specialize (H1 r Hin).
  apply orb_true_iff in H1. destruct H1 as [H1|H1].
  - left. apply sa_ent_eqb_eq. exact H1.
  - right. left. exact H1.
Qed.

Theorem rel_inv_g_b_sound : forall s D P, rel_inv_b s = true -> RelInvG D s /\ TargetFlagsG P s.
Proof.
  intros s D P H. unfold rel_inv_b, rel_inv_checks in H. cbn [forallb] in H.
  repeat (let H' := fresh "C" in apply andb_true_iff in H; destruct H as [H' H]).
  split; [|apply r2_c_istarget_sound; assumption].
  constructor.
  - apply r2_c_nodup_sound; assumption.
  - apply r2_c_active_sound; assumption.
  - apply r2_c_freed_sound; assumption.
  - apply r2_c_listed_sound; assumption.
  - apply r2_c_norel_sound; assumption.
  - apply r2_c_shape_sound; assumption.
  - apply r2_c_unique_sound; assumption.
  - apply r2_c_reltabs_sound; assumption.
  - apply r2_c_reltabs_complete_sound; assumption.
  - apply r2_c_tgttabs_sound; assumption.
  - apply r2_c_tgttabs_complete_sound; assumption.
  - apply r2_c_keys_sound; assumption.
  - apply r2_c_relarchs_sound; assumption.
  - apply r2_c_targets_ok_sound; assumption.
Qed.

Theorem rel_inv_b_sound : forall s, rel_inv_b s = true -> RelInv s.
Proof. intros s H. apply rel_inv_g_b_sound. exact H. Qed.

Lemma r2_cache_member_b_iff : forall s f rels tid t, nth_error (w_tables s) tid = Some t ->
  (r2_cache_member_b s f rels t = true <-> r2_cache_member s f rels tid).
Proof.
  intros s f rels tid t Ht. unfold r2_cache_member_b, r2_cache_member. split.
  - intros H. apply andb_true_iff in H. destruct H as [Hf H]. apply negb_true_iff in Hf.
    destruct (nth_error (w_archs s) (t_arch t)) as [a|] eqn:Ea; [|discriminate].
    apply andb_true_iff in H. destruct H as [Hm Hr].
    exists t, a. split; [exact Ht|]. split; [exact Hf|]. split; [exact Ea|]. split; [exact Hm|].
    intros Hne. apply orb_true_iff in Hr. destruct Hr as [Hr|Hr].
    + apply r2_is_nil_eq in Hr. contradiction.
    + destruct (tbl_matches t rels) as [[|]|]; try discriminate. reflexivity.
  - intros [t' [a [Ht' [Hf [Ea [Hm Hr]]]]]]. rewrite Ht in Ht'. injection Ht' as <-.
    rewrite Hf, Ea, Hm. cbn [negb andb]. destruct (t_rels t) as [|r0 rr] eqn:Er; [reflexivity|].
    cbn [is_nil orb]. rewrite Hr; [reflexivity|discriminate].
Qed.

Theorem cache_inv_b_sound : forall s X, cache_inv_b s = true -> CacheInvG X s.
Proof.
  intros s X H. unfold cache_inv_b in H. apply andb_true_iff in H. destruct H as [H1 H2].
  constructor; [apply r2_nodupb_sound; exact H1|].
  intros addr e f Hin He Hf. rewrite forallb_forall in H2. specialize (H2 addr Hin).
  rewrite He, Hf in H2. unfold r2_c_entry in H2. r2_andb H2.
  split; [apply r2_nodupb_sound; exact H2|]. split.
  { intros r Hr. rewrite forallb_forall in H4. apply H4. exact Hr. }
  split.
  { intros tid Ht. rewrite forallb_forall in H3. specialize (H3 tid Ht).
    destruct (nth_error (w_tables s) tid) as [t|] eqn:Et; [|discriminate].
    eapply sa_nth_error_lt. exact Et. }
  intros tid _. split.
  - intros Ht. rewrite forallb_forall in H3. specialize (H3 tid Ht).
    destruct (nth_error (w_tables s) tid) as [t|] eqn:Et; [|discriminate].
    apply (r2_cache_member_b_iff s f (ce_rels e) tid t Et). exact H3.
  - intros Hm. pose proof Hm as [t [a [Et _]]].
    apply (r2_cache_member_b_iff s f (ce_rels e) tid t Et) in Hm.
    pose proof (r2_alli0_sound _ _ _ H0 _ _ Et) as H5. cbv beta in H5. rewrite Hm in H5.
    apply sa_memb_in. exact H5.
Qed.

(** ** Soundness of [wf_b] *)

Lemma r2_list_eqb_sound : forall A (eqb : A -> A -> bool), (forall a b, eqb a b = true -> a = b) ->
  forall l1 l2, r2_list_eqb eqb l1 l2 = true -> l1 = l2.
Proof.
  intros A eqb He. induction l1 as [|a t IH]; intros [|b t2] H; cbn [r2_list_eqb] in H; try discriminate; [reflexivity|].
  apply andb_true_iff in H. destruct H as [H1 H2]. rewrite (He a b H1), (IH t2 H2). reflexivity.
Qed.

Lemma r2_ckind_eqb_sound : forall a b, r2_ckind_eqb a b = true -> a = b.
Proof.
  intros [a1 a2 a3] [b1 b2 b3] H. unfold r2_ckind_eqb in H. cbn in H. r2_andb H.
  apply Bool.eqb_prop in H, H1, H0. subst. reflexivity.
Qed.

Lemma r2_nat_eqb_sound : forall a b, Nat.eqb a b = true -> a = b.
Proof. intros a b H. apply Nat.eqb_eq. exact H. Qed.

Lemma r2_tail_zero : forall (c : list Z) n, forallb (fun v => Z.eqb v 0) (skipn n c) = true ->
  forall r, n <= r -> nth r c 0%Z = 0%Z.
Proof.
  induction c as [|v t IH]; intros n H r Hr; [destruct r; reflexivity|].
  destruct n as [|n].
  - cbn [skipn forallb] in H. apply andb_true_iff in H. destruct H as [Hv Ht]. destruct r as [|r].
    + cbn. apply Z.eqb_eq. exact Hv.
    + cbn [nth]. apply (IH 0); [exact Ht|lia].
  - destruct r as [|r]; [lia|]. cbn [nth]. cbn [skipn] in H. apply (IH n H). lia.
Qed.

Lemma r2_all_zero : forall (c : list Z), forallb (fun v => Z.eqb v 0) c = true -> forall r, nth r c 0%Z = 0%Z.
Proof. intros c H r. apply (r2_tail_zero c 0); [exact H|lia]. Qed.

Lemma r2_tbl_ok_b_sound : forall t, r2_tbl_ok_b t = true -> tbl_ok t.
Proof.
  intros t H. unfold r2_tbl_ok_b in H. r2_andb H.
  apply Nat.leb_le in H. apply Nat.eqb_eq in H4, H3, H2.
  apply tbl_ok_intro; try assumption.
  intros i c Hc. pose proof (r2_forallb_nth _ _ _ _ _ H1 Hc) as Hcol. cbv beta in Hcol.
  apply andb_true_iff in Hcol. destruct Hcol as [Hl Hz]. apply Nat.eqb_eq in Hl.
  split; [exact Hl|]. split; [apply r2_tail_zero; exact Hz|].
  intros k Hk Hzs. pose proof (r2_alli0_sound _ _ _ H0 _ _ Hk) as Hk'. cbv beta in Hk'. rewrite Hzs, Hc in Hk'.
  apply r2_all_zero. exact Hk'.
Qed.

Lemma r2_mask_bound : forall (m : mask) n, N.ltb m (N.shiftl 1 (N.of_nat n)) = true ->
  forall j, mk_get m j = true -> j < n.
Proof.
  intros m n H j Hj. apply N.ltb_lt in H. rewrite N.shiftl_1_l in H. unfold mk_get in Hj.
  destruct (Nat.lt_ge_cases j n) as [Hlt|Hge]; [exact Hlt|]. exfalso.
  destruct (N.eq_dec m 0) as [->|Hm0]; [rewrite N.bits_0 in Hj; discriminate|].
  assert (Hlog : (N.log2 m < N.of_nat n)%N) by (apply N.log2_lt_pow2; [lia|exact H]).
  rewrite N.bits_above_log2 in Hj; [discriminate|]. lia.
Qed.

Lemma r2_free_list_length : forall l nx n, length (r2_free_list l nx n) = n.
Proof. intros l nx n. revert nx. induction n as [|n IH]; intros nx; cbn; [reflexivity|]. rewrite IH. reflexivity. Qed.

Lemma r2_free_list_chain : forall l n nx, (forall i, In i (r2_free_list l nx n) -> i < length l) ->
  chain l nx (r2_free_list l nx n).
Proof.
  intros l n. induction n as [|n IH]; intros nx H; [exact I|].
  cbn [r2_free_list]. cbn [chain]. split; [reflexivity|].
  assert (Hnx : nx < length l) by (apply H; left; reflexivity).
  destruct n as [|n'].
  - cbn. split; exact I.
  - cbn [r2_free_list]. split.
    + destruct (nth_error l nx) as [[j g]|] eqn:E; [|apply nth_error_None in E; lia].
      exists g. rewrite (nth_error_nth l nx zero_ent E). reflexivity.
    + apply (IH (fst (nth nx l zero_ent))). intros i Hi. apply H. right. exact Hi.
Qed.

Lemma r2_N_small : forall n, N.ltb (N.of_nat n) 2147483648%N = true -> n < Nat.pow 2 31.
Proof.
  intros n H. apply N.ltb_lt in H.
  assert (E : N.of_nat (Nat.pow 2 31) = 2147483648%N) by (rewrite Nat2N.inj_pow; reflexivity).
  rewrite <- E in H. apply Nat.compare_lt_iff. rewrite Nat2N.inj_compare. apply N.compare_lt_iff. exact H.
Qed.

Theorem wf_b_sound : forall s, wf_b s = true -> WF s.
Proof.
  intros s H. unfold wf_b, wf_checks in H. cbn [forallb] in H.
  repeat (let H' := fresh "K" in apply andb_true_iff in H; destruct H as [H' H]).
  constructor.
  - (* tables *) apply Forall_forall. intros t Ht. unfold r2_w_tables in K. rewrite forallb_forall in K.
    apply r2_tbl_ok_b_sound. apply K. exact Ht.
  - (* layout *) intros tid t Ht. pose proof (r2_forallb_nth _ _ _ _ _ K0 Ht) as H1. cbv beta in H1.
    destruct (nth_error (w_archs s) (t_arch t)) as [a|]; [|discriminate]. r2_andb H1.
    exists a. split; [reflexivity|]. split; [apply (r2_list_eqb_sound _ _ r2_nat_eqb_sound); exact H1|].
    split; [apply (r2_list_eqb_sound _ _ r2_ckind_eqb_sound); exact H2|apply Nat.eqb_eq; exact H0].
  - (* arch comps *) intros aid a Ha. pose proof (r2_forallb_nth _ _ _ _ _ K1 Ha) as H1. cbv beta in H1. r2_andb H1.
    split; [apply (r2_list_eqb_sound _ _ r2_nat_eqb_sound); exact H1|]. split; [apply r2_mask_bound; exact H4|].
    split; [apply (r2_list_eqb_sound _ _ Bool.eqb_prop); exact H3|]. split; apply Nat.eqb_eq; assumption.
  - (* arch unique *) intros i j a b Ha Hb Em. pose proof (r2_alli0_sound _ _ _ K2 _ _ Ha) as H1. cbv beta in H1.
    pose proof (r2_alli0_sound _ _ _ H1 _ _ Hb) as H2. cbv beta in H2. rewrite Em, N.eqb_refl in H2. apply Nat.eqb_eq. exact H2.
  - (* arch tables *) intros aid a tid Ha Hl. pose proof (r2_alli0_sound _ _ _ K3 _ _ Ha) as H1. cbv beta in H1. r2_andb H1.
    assert (Hok : r2_tab_of_arch s aid tid = true).
    { destruct Hl as [Hl|[Hl|[Hl|Hl]]].
      - rewrite forallb_forall in H1. apply H1. exact Hl.
      - rewrite forallb_forall in H3. apply H3. exact Hl.
      - destruct Hl as (i & m & k & l & Hm & Hk & Hin). pose proof (r2_forallb_nth _ _ _ _ _ H2 Hm) as G1. cbv beta in G1.
        rewrite forallb_forall in G1. specialize (G1 (k, l) (r2_afind_in _ _ _ _ Hk)). cbn [snd] in G1.
        rewrite forallb_forall in G1. apply G1. exact Hin.
      - destruct Hl as (k & l & Hk & Hin). rewrite forallb_forall in H0. specialize (H0 (k, l) (r2_afind_in _ _ _ _ Hk)). cbn [snd] in H0.
        rewrite forallb_forall in H0. apply H0. exact Hin. }
    unfold r2_tab_of_arch in Hok. destruct (nth_error (w_tables s) tid) as [t|]; [|discriminate].
    exists t. split; [reflexivity|apply Nat.eqb_eq; exact Hok].
  - (* norel table *) intros aid a Ha Hn. pose proof (r2_forallb_nth _ _ _ _ _ K4 Ha) as H1. cbv beta in H1.
    rewrite Hn in H1. cbn [Nat.eqb] in H1. apply Nat.leb_le. exact H1.
  - (* arch0 *) unfold r2_w_arch0 in K5. destruct (nth_error (w_archs s) 0) as [a0|]; [|discriminate].
    destruct (nth_error (w_tables s) 0) as [t0|]; [|discriminate]. apply andb_true_iff in K5. destruct K5 as [G1 G2].
    exists a0. split; [reflexivity|]. split; [apply N.eqb_eq; exact G1|]. exists t0. split; [reflexivity|apply Nat.eqb_eq; exact G2].
  - (* index lists *) pose proof K6 as Q. unfold r2_w_index_lists in Q. r2_andb Q. apply Nat.eqb_eq in Q, Q3. apply Nat.leb_le in Q2, Q1, Q0.
    repeat split; assumption.
  - (* index len *) pose proof K7 as Q. unfold r2_w_index_len in Q. r2_andb Q. apply Nat.eqb_eq in Q, Q0. split; assumption.
  - (* rows *) intros tid t r Ht Hr. pose proof (r2_alli0_sound _ _ _ K8 _ _ Ht) as H1. cbv beta in H1.
    rewrite forallb_forall in H1. specialize (H1 r). rewrite in_seq in H1. specialize (H1 (conj (Nat.le_0_l r) Hr)).
    apply andb_true_iff in H1. destruct H1 as [G1 G2]. split.
    + unfold r2_loc_eqb in G1. destruct (loc s (row_ent t r)) as [[a b]|]; [|discriminate].
      apply andb_true_iff in G1. destruct G1 as [E1 E2]. apply Nat.eqb_eq in E1, E2. subst. reflexivity.
    + destruct (nth_error (pe (w_pool s)) (fst (row_ent t r))) as [e|]; [|discriminate]. apply sa_ent_eqb_eq in G2. subst e. reflexivity.
  - (* index *) intros id tid r Hi. pose proof (r2_alli0_sound _ _ _ K9 _ _ Hi) as H1. cbv beta iota in H1.
    destruct (nth_error (w_tables s) tid) as [t|]; [|discriminate]. apply andb_true_iff in H1. destruct H1 as [G1 G2].
    exists t. split; [reflexivity|]. split; [apply Nat.ltb_lt; exact G1|apply Nat.eqb_eq; exact G2].
  - (* pool *) pose proof K10 as Q. unfold r2_w_pool in Q. cbv zeta in Q. r2_andb Q.
    set (fl := r2_free_list (pe (w_pool s)) (pnext (w_pool s)) (pavail (w_pool s))) in *.
    assert (Hrange : forall i, In i fl -> 2 <= i < length (pe (w_pool s))).
    { intros i Hi. rewrite forallb_forall in Q2. specialize (Q2 i Hi). apply andb_true_iff in Q2.
      destruct Q2 as [G1 G2]. apply Nat.leb_le in G1. apply Nat.ltb_lt in G2. split; assumption. }
    exists fl. split; [|split].
    + unfold pool_ok. split; [apply Nat.leb_le; exact Q|]. split; [apply r2_free_list_length|].
      split; [apply r2_nodupb_sound; exact Q3|]. split; [exact Hrange|].
      apply r2_free_list_chain. intros i Hi. apply Hrange. exact Hi.
    + intros i Hi. rewrite forallb_forall in Q1. specialize (Q1 i Hi).
      destruct (nth_error (w_index s) i) as [[[tid|] r]|]; try discriminate. exists r. reflexivity.
    + intros i Hi Hni. rewrite forallb_forall in Q0. specialize (Q0 i). rewrite in_seq in Q0.
      specialize (Q0 (conj (Nat.le_0_l i) (proj2 Hi))).
      assert (E1 : Nat.leb 2 i = true) by (apply Nat.leb_le; apply Hi).
      assert (E2 : memb i fl = false) by (destruct (memb i fl) eqn:E; [apply sa_memb_in in E; contradiction|reflexivity]).
      rewrite E1, E2 in Q0. cbn in Q0. destruct (nth_error (w_index s) i) as [[[tid|] r]|]; try discriminate.
      exists tid, r. reflexivity.
  - (* reserved *) pose proof K11 as Q. unfold r2_w_reserved in Q. r2_andb Q.
    split; [destruct (nth_error (w_index s) 0) as [[[tid|] r]|]; try discriminate; exists r; reflexivity|].
    split; [destruct (nth_error (w_index s) 1) as [[[tid|] r]|]; try discriminate; exists r; reflexivity|].
    split.
    + destruct (nth_error (pe (w_pool s)) 0) as [e|]; [|discriminate]. apply sa_ent_eqb_eq in Q1. subst e. reflexivity.
    + destruct (nth_error (pe (w_pool s)) 1) as [e|]; [|discriminate]. apply sa_ent_eqb_eq in Q0. subst e. reflexivity.
  - (* small *) apply r2_N_small. exact K12.
  - (* cache *) intros addr Hin. unfold r2_w_cache in K13. rewrite forallb_forall in K13. specialize (K13 addr Hin).
    destruct (nth_error (w_cheap s) addr) as [e|]; [|discriminate]. exists e. split; [reflexivity|apply Nat.ltb_lt; exact K13].
Qed.

Theorem st2_b_sound : forall s, st2_b s = true -> St2 s.
Proof.
  intros s H. unfold st2_b in H. apply andb_true_iff in H. destruct H as [H H0]. apply andb_true_iff in H. destruct H as [H H1].
  split; [apply wf_b_sound; exact H|]. split; [apply rel_inv_b_sound; exact H1|apply cache_inv_b_sound; exact H0].
Qed.
