(** * RelProofs: mechanism lemmas about relation targets (general worlds, no relation-free
    restriction). Property C04 (partial: the checks and rewrites that keep targets valid). To be filled. *)
From Ark Require Import Model.Base Model.Mask Model.Pool Model.Util Model.World Model.Run.
From Ark Require Import Proofs.TableProofs Proofs.MaskProofs Proofs.WF Proofs.StorageA.
From RecordUpdate Require Import RecordSet.
Import RecordSetNotations.
From Coq Require Import Lia.


(** ** Helpers (prefix [rl_]) *)

Lemma rl_bind_inv : forall S A B (m : M S A) (k : A -> M S B) s b s',
  bind m k s = Ok b s' -> exists a s1, m s = Ok a s1 /\ k a s1 = Ok b s'.
Proof.
  intros S A B m k s b s' H. unfold bind in H. destruct (m s) as [a s1|e s1]; [|discriminate].
  exists a, s1. auto.
Qed.

Lemma rl_ent_eqb_eq : forall a b : ent, ent_eqb a b = true <-> a = b.
Proof.
  intros [a1 a2] [b1 b2]. unfold ent_eqb. simpl. rewrite andb_true_iff, Nat.eqb_eq, N.eqb_eq.
  split; [intros [-> ->]; reflexivity|intros H; inversion H; auto].
Qed.

Lemma rl_index_of_some : forall x l i, index_of x l = Some i -> nth_error l i = Some x.
Proof.
  intros x l. induction l as [|h l IH]; simpl; intros i H; [discriminate|].
  destruct (Nat.eqb_spec h x).
  - inversion H; subst. reflexivity.
  - destruct (index_of x l) as [j|]; [|discriminate]. inversion H; subst. simpl. apply IH. reflexivity.
Qed.

Lemma rl_index_of_in : forall x l, In x l -> exists i, index_of x l = Some i.
Proof.
  intros x l. induction l as [|h l IH]; simpl; intros H; [contradiction|].
  destruct (Nat.eqb_spec h x); [eexists; reflexivity|].
  destruct H as [H|H]; [contradiction|]. destruct (IH H) as (i & E). rewrite E. eexists; reflexivity.
Qed.

(** [check_rel] as a pure test *)
Definition rl_rel_ok (s : W) (r : rel) : bool :=
  (is_rel_comp s (fst r) && (Nat.eqb (fst (snd r)) 0 || alive s (snd r)))%bool.

Lemma rl_check_rel_eq : forall r s,
  (rl_rel_ok s r = true /\ check_rel r s = Ok tt s) \/ (rl_rel_ok s r = false /\ exists e, check_rel r s = Err e s).
Proof.
  intros r s. unfold check_rel, rl_rel_ok, bind, get, guard.
  destruct (is_rel_comp s (fst r)); simpl.
  - destruct (Nat.eqb (fst (snd r)) 0 || alive s (snd r))%bool; simpl.
    + left. split; reflexivity.
    + right. split; [reflexivity|eexists; reflexivity].
  - right. split; [reflexivity|eexists; reflexivity].
Qed.

Lemma rl_rel_ok_false1 : forall s (r : rel), is_rel_comp s (fst r) = false -> rl_rel_ok s r = false.
Proof. intros s r H. unfold rl_rel_ok. rewrite H. reflexivity. Qed.
Lemma rl_rel_ok_false2 : forall s (r : rel), fst (snd r) <> 0 -> alive s (snd r) = false -> rl_rel_ok s r = false.
Proof.
  intros s r Hz Hal. unfold rl_rel_ok. rewrite Hal. apply Nat.eqb_neq in Hz. rewrite Hz. apply andb_false_r.
Qed.
Lemma rl_rel_ok_true : forall s (r : rel), rl_rel_ok s r = true ->
  is_rel_comp s (fst r) = true /\ (fst (snd r) = 0 \/ alive s (snd r) = true).
Proof.
  intros s r H. unfold rl_rel_ok in H. apply andb_true_iff in H as [H1 H2]. split; [exact H1|].
  apply orb_true_iff in H2 as [H2|H2]; [left; apply Nat.eqb_eq; exact H2|right; exact H2].
Qed.

(** A loop of read-only checks: either all pass and the state is unchanged, or it fails (state unchanged)
    and some element does not pass. *)
Lemma rl_forM_check_rel : forall rels s,
  (forM_ rels check_rel s = Ok tt s /\ Forall (fun r => rl_rel_ok s r = true) rels) \/
  ((exists e, forM_ rels check_rel s = Err e s) /\ Exists (fun r => rl_rel_ok s r = false) rels).
Proof.
  induction rels as [|r rels IH]; intros s; cbn [forM_].
  - left. split; [reflexivity|constructor].
  - destruct (rl_check_rel_eq r s) as [[Hr E]|[Hr (e & E)]].
    + rewrite (sa_bind_ok E). destruct (IH s) as [[E' F]|[(e & E') X]].
      * left. split; [exact E'|constructor; assumption].
      * right. split; [exists e; exact E'|apply Exists_cons_tl; exact X].
    + right. rewrite (sa_bind_err E). split; [exists e; reflexivity|apply Exists_cons_hd; exact Hr].
Qed.

Lemma rl_forM_check_rel_ok : forall rels s u s',
  forM_ rels check_rel s = Ok u s' -> s' = s /\ Forall (fun r => rl_rel_ok s r = true) rels.
Proof.
  intros rels s u s' H. destruct (rl_forM_check_rel rels s) as [[E F]|[(e & E) _]]; rewrite E in H.
  - inversion H; subst. auto.
  - discriminate.
Qed.

Lemma rl_place_targets_none : forall a rels tg r,
  In r rels -> index_of (fst r) (a_comps a) = None -> place_targets a rels tg = None.
Proof.
  intros a rels. induction rels as [|[c x] rels IH]; intros tg r Hin Hn; [contradiction|].
  cbn [place_targets]. destruct Hin as [<-|Hin].
  - simpl in Hn. rewrite Hn. reflexivity.
  - destruct (index_of c (a_comps a)); [|reflexivity]. eapply IH; eauto.
Qed.

(** createTable validates every relation before changing anything: if some given target is neither
    the zero entity nor alive, or some component is not a relation component, or fewer relations
    than the archetype has are given, the call fails and the state is unchanged. *)
Theorem create_table_rejects_invalid : forall s aid a rels,
  nth_error (w_archs s) aid = Some a ->
  (length rels < a_numrel a \/
   (exists r, In r rels /\ index_of (fst r) (a_comps a) = None) \/
   (exists r, In r rels /\ is_rel_comp s (fst r) = false) \/
   (exists r, In r rels /\ fst (snd r) <> 0 /\ alive s (snd r) = false)) ->
  exists e, create_table aid rels s = Err e s.
Proof.
  intros s aid a rels Ha H. unfold create_table. rewrite (sa_bind_ok (sa_getA_eq _ _ _ Ha)).
  cbv beta. match goal with |- context [Nat.ltb ?x ?y] => destruct (Nat.ltb_spec x y) as [L|L] end.
  { exists ERelUnspec. reflexivity. }
  cbn [negb guard]. rewrite (sa_bind_ok (m := ret tt) (s := s) eq_refl).
  destruct (rels_distinct rels); cbn [guard]; [|exists ERelUnspec; reflexivity].
  rewrite (sa_bind_ok (m := ret tt) (s := s) eq_refl).
  destruct (place_targets a rels (repeat zero_ent (length (a_comps a)))) as [targets|] eqn:EP.
  2:{ exists EIndex. reflexivity. }
  cbn [of_opt]. rewrite (sa_bind_ok (m := ret targets) (s := s) eq_refl).
  assert (X : Exists (fun r => rl_rel_ok s r = false) rels).
  { destruct H as [H|[(r & Hin & Hn)|[(r & Hin & Hn)|(r & Hin & Hz & Hal)]]].
    - exfalso. apply (Nat.lt_irrefl (a_numrel a)). eapply Nat.le_lt_trans; [exact L|exact H].
    - rewrite (rl_place_targets_none a rels _ r Hin Hn) in EP. discriminate.
    - apply Exists_exists. exists r. split; [exact Hin|]. apply rl_rel_ok_false1. exact Hn.
    - apply Exists_exists. exists r. split; [exact Hin|]. apply rl_rel_ok_false2; assumption. }
  destruct (rl_forM_check_rel rels s) as [[E F]|[(e & E) _]].
  - exfalso. apply Exists_exists in X as (r & Hin & Hr). rewrite Forall_forall in F. rewrite (F r Hin) in Hr. discriminate.
  - exists e. rewrite (sa_bind_err E). reflexivity.
Qed.

(** [cache_add_table] never touches the tables. *)
Lemma rl_cache_body_tables : forall tid t am addr s,
  w_tables (state_of (sa_cache_body tid t am addr s)) = w_tables s.
Proof.
  intros tid t am addr s. unfold sa_cache_body, bind, get.
  destruct (nth_error (w_cheap s) addr) as [e|]; [|reflexivity].
  destruct (nth_error (w_filters s) (ce_filter e)) as [f|]; [|reflexivity].
  destruct (negb (filter_matches f am)); [reflexivity|].
  destruct (tbl_has_rels t).
  - destruct (tbl_matches t (ce_rels e)) as [[|]|]; reflexivity.
  - reflexivity.
Qed.

Lemma rl_forM_tables : forall A (f : A -> MW unit) l,
  (forall x s, w_tables (state_of (f x s)) = w_tables s) ->
  forall s, w_tables (state_of (forM_ l f s)) = w_tables s.
Proof.
  intros A f l Hf. induction l as [|x l IH]; intros s; cbn [forM_]; [reflexivity|].
  unfold bind. specialize (Hf x s). destruct (f x s) as [u s1|e s1]; simpl in *.
  - rewrite IH. exact Hf.
  - exact Hf.
Qed.

Lemma rl_cache_add_table_tables : forall tid t am s,
  w_tables (state_of (cache_add_table tid t am s)) = w_tables s.
Proof.
  intros tid t am s. rewrite sa_cache_add_table_unfold. unfold bind at 1. unfold get at 1.
  apply rl_forM_tables. intros; apply rl_cache_body_tables.
Qed.

(** Consequently every table that createTable creates or recycles has, at that moment, only
    targets that are zero or alive, and relation entries only for relation components. *)
Theorem create_table_targets_valid : forall s aid rels tid s',
  create_table aid rels s = Ok tid s' ->
  exists t, nth_error (w_tables s') tid = Some t /\ t_rels t = rels /\ t_free t = false /\
            Forall (fun r : rel => is_rel_comp s (fst r) = true /\ (fst (snd r) = 0 \/ alive s (snd r) = true)) rels.
Proof.
  intros s aid rels tid s' H. unfold create_table in H.
  apply rl_bind_inv in H as (a & s1 & Ha & H).
  assert (s1 = s).
  { unfold getA, bind, get, of_opt in Ha. destruct (nth_error (w_archs s) aid); inversion Ha; auto. }
  subst s1. clear Ha.
  apply rl_bind_inv in H as ([] & s1 & Hg & H).
  assert (s1 = s) by (unfold guard in Hg; destruct (negb _); inversion Hg; auto). subst s1. clear Hg.
  apply rl_bind_inv in H as ([] & s1 & Hg & H).
  assert (s1 = s) by (unfold guard in Hg; destruct (rels_distinct _); inversion Hg; auto). subst s1. clear Hg.
  apply rl_bind_inv in H as (targets & s1 & Hp & H).
  assert (s1 = s) by (unfold of_opt in Hp; destruct (place_targets _ _ _); inversion Hp; auto). subst s1. clear Hp.
  apply rl_bind_inv in H as ([] & s1 & Hf & H).
  apply rl_forM_check_rel_ok in Hf as [-> HF].
  apply rl_bind_inv in H as ([] & sR & HR & H). clear HR.
  apply rl_bind_inv in H as (s0 & s1 & Hget & H). inversion Hget; subst s0 s1. clear Hget.
  apply rl_bind_inv in H as (tid0 & s1 & Htid & H).
  apply rl_bind_inv in H as (t & s2 & Ht & H).
  assert (s2 = s1 /\ nth_error (w_tables s1) tid0 = Some t) as [-> Ht'].
  { unfold getT, bind, get, of_opt in Ht. destruct (nth_error (w_tables s1) tid0); inversion Ht; auto. }
  clear Ht.
  apply rl_bind_inv in H as ([] & s3 & HmA & H).
  unfold modA, modify in HmA. inversion HmA; subst s3; clear HmA.
  apply rl_bind_inv in H as ([] & s4 & Hc & H).
  inversion H; subst tid0 s4. clear H.
  exists t. split; [|split; [|split]].
  - match type of Hc with cache_add_table _ _ _ ?sx = _ =>
      pose proof (rl_cache_add_table_tables tid t (a_mask a) sx) as E end.
    rewrite Hc in E. simpl in E. rewrite E. exact Ht'.
  - destruct (rev (a_free a)) as [|f fr].
    + unfold bind, modify, ret in Htid. inversion Htid; subst tid s1. clear Htid. cbn in Ht'.
      rewrite sa_nth_error_snoc_new in Ht'. inversion Ht'. reflexivity.
    + unfold bind, modA, modT, modify, ret in Htid. inversion Htid; subst tid s1. clear Htid. cbn in Ht'.
      rewrite nth_error_updf, Nat.eqb_refl in Ht'.
      destruct (nth_error (w_tables sR) f); inversion Ht'. reflexivity.
  - destruct (rev (a_free a)) as [|f fr].
    + unfold bind, modify, ret in Htid. inversion Htid; subst tid s1. clear Htid. cbn in Ht'.
      rewrite sa_nth_error_snoc_new in Ht'. inversion Ht'. reflexivity.
    + unfold bind, modA, modT, modify, ret in Htid. inversion Htid; subst tid s1. clear Htid. cbn in Ht'.
      rewrite nth_error_updf, Nat.eqb_refl in Ht'.
      destruct (nth_error (w_tables sR) f); inversion Ht'. reflexivity.
  - eapply Forall_impl; [|exact HF]. intros r Hr. apply rl_rel_ok_true. exact Hr.
Qed.

(** ** getExchangeTargets *)

(** The inner loop of [exchange_targets], named. *)
Definition rl_xgo (t : table) :=
  fix go (rels : list rel) (tg : list ent) (cm : mask) (changed : bool) : MW (list ent * mask * bool) :=
    match rels with
    | [] => ret (tg, cm, changed)
    | (c, x) :: rest =>
        match tbl_colidx t c with
        | None => fail EMissingComp
        | Some i =>
            if negb (ck_rel (nth i (t_kinds t) (Build_ckind false false true))) then fail ENotRelation
            else
            match nth_error tg i with
            | None => fail EIndex
            | Some cur => if ent_eqb x cur then go rest tg cm changed
                          else go rest (upd i x tg) (mk_set cm c) true
            end
        end
    end.

(** the kind found for a missing column: not a relation (so a bad index is rejected as well) *)
Definition rl_dk : ckind := Build_ckind false false true.

(** a named component that is not a column of the table, or a column that is not a relation column *)
Definition rl_bad_rel (t : table) (r : rel) : Prop :=
  tbl_colidx t (fst r) = None \/
  exists i, tbl_colidx t (fst r) = Some i /\ ck_rel (nth i (t_kinds t) (Build_ckind false false true)) = false.

Lemma rl_exchange_targets_unfold : forall t rels,
  exchange_targets t rels =
  (guard (rels_distinct rels) ERelUnspec ;;;
   r <- rl_xgo t rels (t_targets t) 0%N false ;;
   let '(targets, cm, changed) := r in
   if negb changed then ret None
   else ret (Some (map (fun p => (fst (fst p), snd p))
                       (filter (fun p => ck_rel (snd (fst p))) (combine (combine (t_ids t) (t_kinds t)) targets)), cm))).
Proof. reflexivity. Qed.

Lemma rl_find_app : forall A (f : A -> bool) l1 l2,
  find f (l1 ++ l2) = match find f l1 with Some x => Some x | None => find f l2 end.
Proof.
  intros A f l1 l2. induction l1 as [|a l1 IH]; simpl; [reflexivity|].
  destruct (f a); [reflexivity|exact IH].
Qed.

Lemma rl_nth_of_nth_error : forall A (l : list A) i x d, nth_error l i = Some x -> nth i l d = x.
Proof.
  intros A l. induction l as [|a l IH]; intros [|i] x d H; simpl in *; try discriminate.
  - inversion H; reflexivity.
  - apply IH; exact H.
Qed.

Lemma rl_xgo_spec : forall t, NoDup (t_ids t) -> forall rels tg cm ch s,
  length tg = length (t_ids t) ->
  match rl_xgo t rels tg cm ch s with
  | Err _ s' => s' = s /\ exists r, In r rels /\ rl_bad_rel t r
  | Ok (tg', cm', ch') s' =>
      s' = s /\ length tg' = length tg /\
      (forall i c, nth_error (t_ids t) i = Some c ->
         nth i tg' zero_ent = match find (fun r : rel => Nat.eqb (fst r) c) (rev rels) with
                              | Some r => snd r
                              | None => nth i tg zero_ent end) /\
      (forall c, mk_get cm' c = true -> mk_get cm c = true \/ exists x, In (c, x) rels) /\
      (ch = true -> ch' = true) /\
      (ch' = false -> forall r, In r rels -> exists i, tbl_colidx t (fst r) = Some i /\ nth_error tg i = Some (snd r)) /\
      (forall r, In r rels -> exists i, tbl_colidx t (fst r) = Some i /\
                                        ck_rel (nth i (t_kinds t) (Build_ckind false false true)) = true)
  end.
Proof.
  intros t ND. induction rels as [|[c x] rest IH]; intros tg cm ch s Hlen.
  - simpl. unfold ret. split; [reflexivity|]. split; [reflexivity|]. split; [intros; reflexivity|].
    split; [intros c H; left; exact H|]. split; [auto|]. split; [intros _ r []|intros r []].
  - cbn [rl_xgo]. fold (rl_xgo t). destruct (tbl_colidx t c) as [i|] eqn:Ei.
    2:{ unfold fail. split; [reflexivity|]. exists (c, x). split; [left; reflexivity|left; exact Ei]. }
    destruct (ck_rel (nth i (t_kinds t) (Build_ckind false false true))) eqn:Ekr; cbn [negb].
    2:{ unfold fail. split; [reflexivity|]. exists (c, x). split; [left; reflexivity|right; exists i; split; [exact Ei|exact Ekr]]. }
    pose proof (rl_index_of_some _ _ _ Ei) as Hi.
    assert (Li : i < length tg) by (rewrite Hlen; eapply sa_nth_error_lt; eauto).
    destruct (nth_error tg i) as [cur|] eqn:Ec; [|apply nth_error_None in Ec; lia].
    assert (Huniq : forall i0, nth_error (t_ids t) i0 = Some c -> i0 = i).
    { intros i0 H0. apply (proj1 (NoDup_nth_error (t_ids t)) ND).
      - eapply sa_nth_error_lt; eauto.
      - congruence. }
    destruct (ent_eqb x cur) eqn:Ex.
    + apply rl_ent_eqb_eq in Ex. subst cur.
      specialize (IH tg cm ch s Hlen).
      destruct (rl_xgo t rest tg cm ch s) as [[[tg' cm'] ch'] s'|e s'].
      * destruct IH as (Hs & Hl & Htg & Hcm & Hmono & Hch & Hrel). split; [exact Hs|]. split; [exact Hl|].
        split; [|split; [|split; [|split]]].
        -- intros i0 c0 H0. rewrite (Htg i0 c0 H0). simpl rev. rewrite rl_find_app.
           destruct (find (fun r : rel => fst r =? c0) (rev rest)); [reflexivity|].
           simpl. destruct (Nat.eqb_spec c c0); [|reflexivity]. subst c0.
           rewrite (Huniq i0 H0). simpl. apply rl_nth_of_nth_error. exact Ec.
        -- intros c0 H0. destruct (Hcm c0 H0) as [H1|(y & H1)]; [left; exact H1|right; exists y; right; exact H1].
        -- exact Hmono.
        -- intros Hf r [<-|Hr].
           ++ exists i. split; [exact Ei|exact Ec].
           ++ apply Hch; assumption.
        -- intros r [<-|Hr]; [exists i; split; [exact Ei|exact Ekr]|apply Hrel; exact Hr].
      * destruct IH as (Hs & r & Hr & Hn). split; [exact Hs|]. exists r. split; [right; exact Hr|exact Hn].
    + assert (Hlen' : length (upd i x tg) = length (t_ids t)) by (rewrite upd_length; exact Hlen).
      specialize (IH (upd i x tg) (mk_set cm c) true s Hlen').
      destruct (rl_xgo t rest (upd i x tg) (mk_set cm c) true s) as [[[tg' cm'] ch'] s'|e s'].
      * destruct IH as (Hs & Hl & Htg & Hcm & Hmono & Hch & Hrel). split; [exact Hs|].
        split; [rewrite Hl; apply upd_length|].
        split; [|split; [|split; [|split]]].
        -- intros i0 c0 H0. rewrite (Htg i0 c0 H0). simpl rev. rewrite rl_find_app.
           destruct (find (fun r : rel => fst r =? c0) (rev rest)); [reflexivity|].
           simpl. destruct (Nat.eqb_spec c c0).
           ++ subst c0. rewrite (Huniq i0 H0). simpl. apply nth_upd_eq. exact Li.
           ++ apply nth_upd_neq. intros ->. congruence.
        -- intros c0 H0. destruct (Hcm c0 H0) as [H1|(y & H1)].
           ++ rewrite mk_get_set in H1. apply orb_true_iff in H1 as [H1|H1].
              ** apply Nat.eqb_eq in H1. subst c0. right. exists x. left. reflexivity.
              ** left. exact H1.
           ++ right. exists y. right. exact H1.
        -- intros _. apply Hmono. reflexivity.
        -- intros Hf. rewrite (Hmono eq_refl) in Hf. discriminate.
        -- intros r [<-|Hr]; [exists i; split; [exact Ei|exact Ekr]|apply Hrel; exact Hr].
      * destruct IH as (Hs & r & Hr & Hn). split; [exact Hs|]. exists r. split; [right; exact Hr|exact Hn].
Qed.

Lemma rl_nth_error_combine : forall A B (la : list A) (lb : list B) i a b,
  nth_error (combine la lb) i = Some (a, b) <-> nth_error la i = Some a /\ nth_error lb i = Some b.
Proof.
  intros A B la. induction la as [|x la IH]; intros lb i a b.
  - simpl. destruct i; split; try discriminate; intros [H _]; discriminate.
  - destruct lb as [|y lb].
    + simpl. destruct i; split; try discriminate; intros [_ H]; discriminate.
    + destruct i as [|i]; simpl.
      * split; [intros H; inversion H; auto|intros [H1 H2]; congruence].
      * apply IH.
Qed.

Lemma rl_newrels_in : forall (ids : list nat) (kinds : list ckind) (targets : list ent) c tg,
  In (c, tg) (map (fun p : nat * ckind * ent => (fst (fst p), snd p))
                  (filter (fun p : nat * ckind * ent => ck_rel (snd (fst p))) (combine (combine ids kinds) targets))) <->
  exists i k, nth_error ids i = Some c /\ nth_error kinds i = Some k /\ ck_rel k = true /\ nth_error targets i = Some tg.
Proof.
  intros ids kinds targets c tg. rewrite in_map_iff. split.
  - intros ([[c0 k] tg0] & E & H). simpl in E. inversion E; subst c0 tg0. clear E.
    apply filter_In in H as [H Hk]. simpl in Hk.
    apply In_nth_error in H as (i & H). apply rl_nth_error_combine in H as [H1 H2].
    apply rl_nth_error_combine in H1 as [H3 H4]. exists i, k. auto.
  - intros (i & k & H1 & H2 & H3 & H4). exists ((c, k), tg). split; [reflexivity|].
    apply filter_In. split; [|exact H3].
    apply nth_error_In with (n := i). apply rl_nth_error_combine. split; [|exact H4].
    apply rl_nth_error_combine. auto.
Qed.

(** [rels_distinct] says that no component is named twice. *)
Lemma rl_rels_distinct_nodup : forall rels : list rel, rels_distinct rels = true <-> NoDup (map fst rels).
Proof.
  induction rels as [|r rest IH]; cbn [rels_distinct map]; [split; [constructor|reflexivity]|].
  rewrite andb_true_iff, negb_true_iff, IH. split.
  - intros (Hm & Hn). constructor; [|exact Hn]. intros Hin. apply sa_memb_in in Hin. congruence.
  - intros H. inversion H as [|? ? Hn Hnd]; subst. split; [|exact Hnd].
    destruct (memb (fst r) (map fst rest)) eqn:E; [|reflexivity]. apply sa_memb_in in E. contradiction.
Qed.

(** getExchangeTargets (SetRelations): a component named twice, a component the table lacks and a
    column that is not a relation column are rejected (state unchanged); otherwise the new relation
    list of the table differs from the old targets exactly at the named components, and if nothing
    changes it reports "unchanged". On success the names are distinct relation columns. *)
Theorem exchange_targets_spec : forall s t rels,
  length (t_targets t) = length (t_ids t) -> length (t_kinds t) = length (t_ids t) -> NoDup (t_ids t) ->
  match exchange_targets t rels s with
  | Ok None s' => s' = s /\ forall r, In r rels -> tbl_target t (fst r) = Some (snd r)
  | Ok (Some (newrels, cm)) s' =>
      s' = s /\
      (forall c tg, In (c, tg) newrels <->
         exists i k, nth_error (t_ids t) i = Some c /\ nth_error (t_kinds t) i = Some k /\ ck_rel k = true /\
                     tg = match find (fun r : rel => Nat.eqb (fst r) c) (rev rels) with
                          | Some r => snd r
                          | None => nth i (t_targets t) zero_ent end) /\
      (forall c, mk_get cm c = true -> exists tg, In (c, tg) rels)
  | Err _ s' => s' = s /\ (rels_distinct rels = false \/ exists r, In r rels /\
      (tbl_colidx t (fst r) = None \/
       exists i, tbl_colidx t (fst r) = Some i /\ ck_rel (nth i (t_kinds t) (Build_ckind false false true)) = false))
  end.
Proof.
  intros s t rels Hlt Hlk ND. rewrite rl_exchange_targets_unfold.
  destruct (rels_distinct rels) eqn:Ed; cbn [guard].
  2:{ rewrite (sa_bind_err (m := fail ERelUnspec) (s := s) (e := ERelUnspec) (s' := s) eq_refl). split; [reflexivity|left; reflexivity]. }
  rewrite (sa_bind_ok (m := ret tt) (s := s) eq_refl). unfold bind.
  pose proof (rl_xgo_spec t ND rels (t_targets t) 0%N false s Hlt) as SP.
  destruct (rl_xgo t rels (t_targets t) 0%N false s) as [[[tg' cm'] ch'] s'|e s'].
  2:{ destruct SP as (Hs & r & Hr & Hb). split; [exact Hs|]. right. exists r. split; [exact Hr|exact Hb]. }
  destruct SP as (Hs & Hl & Htg & Hcm & _ & Hch & _).
  destruct ch'; cbn [negb]; unfold ret.
  - split; [exact Hs|]. split.
    + intros c tg. rewrite rl_newrels_in. split.
      * intros (i & k & H1 & H2 & H3 & H4). exists i, k. repeat (split; [assumption|]).
        rewrite <- (Htg i c H1). symmetry. apply rl_nth_of_nth_error. exact H4.
      * intros (i & k & H1 & H2 & H3 & H4). exists i, k. repeat (split; [assumption|]).
        rewrite H4, <- (Htg i c H1). apply nth_error_nth'. rewrite Hl, Hlt. eapply sa_nth_error_lt; eauto.
    + intros c Hc. destruct (Hcm c Hc) as [H0|H0]; [|exact H0].
      unfold mk_get in H0. rewrite N.bits_0 in H0. discriminate.
  - split; [exact Hs|]. intros r Hr. destruct (Hch eq_refl r Hr) as (i & H1 & H2).
    unfold tbl_target. rewrite H1. exact H2.
Qed.

(** On success every named component is a relation column of the table and no component is named twice. *)
Theorem exchange_targets_ok_valid : forall s t rels r0 s',
  NoDup (t_ids t) -> length (t_targets t) = length (t_ids t) ->
  exchange_targets t rels s = Ok r0 s' ->
  NoDup (map fst rels) /\
  forall r, In r rels -> exists i, tbl_colidx t (fst r) = Some i /\
                                   ck_rel (nth i (t_kinds t) (Build_ckind false false true)) = true.
Proof.
  intros s t rels r0 s' ND Hlt E. rewrite rl_exchange_targets_unfold in E.
  destruct (rels_distinct rels) eqn:Ed; cbn [guard] in E.
  2:{ rewrite (sa_bind_err (m := fail ERelUnspec) (s := s) (e := ERelUnspec) (s' := s) eq_refl) in E. discriminate. }
  split; [apply rl_rels_distinct_nodup; exact Ed|].
  rewrite (sa_bind_ok (m := ret tt) (s := s) eq_refl) in E. unfold bind in E.
  pose proof (rl_xgo_spec t ND rels (t_targets t) 0%N false s Hlt) as SP.
  destruct (rl_xgo t rels (t_targets t) 0%N false s) as [[[tg' cm'] ch'] s1|e s1]; [|discriminate].
  destruct SP as (_ & _ & _ & _ & _ & _ & Hrel). exact Hrel.
Qed.

(** ** Matching compares generations *)

Lemma rl_ent_eqb_gen : forall tg1 tg2 : ent, snd tg1 <> snd tg2 -> ent_eqb tg2 tg1 = false.
Proof.
  intros tg1 tg2 H. unfold ent_eqb. apply andb_false_iff. right. apply N.eqb_neq. congruence.
Qed.

Lemma rl_rels_match_exact_gen : forall t c i k tg1 tg2 rels,
  tbl_colidx t c = Some i -> nth_error (t_kinds t) i = Some k -> ck_rel k = true ->
  nth_error (t_targets t) i = Some tg1 -> snd tg1 <> snd tg2 ->
  In (c, tg2) rels -> rels_match_exact t rels <> MTrue.
Proof.
  intros t c i k tg1 tg2 rels Hi Hk Hr Ht Hg. induction rels as [|[c0 x] rest IH]; intros Hin; [contradiction|].
  cbn [rels_match_exact]. destruct Hin as [E|Hin].
  - inversion E; subst c0 x. rewrite Hi, Hk, Ht, Hr. cbn [negb]. rewrite (rl_ent_eqb_gen _ _ Hg). discriminate.
  - destruct (tbl_colidx t c0) as [j|]; [|auto].
    destruct (nth_error (t_kinds t) j) as [k0|]; [|discriminate].
    destruct (nth_error (t_targets t) j) as [x0|]; [|discriminate].
    destruct (negb (ck_rel k0)); [discriminate|].
    destruct (ent_eqb x x0); [auto|discriminate].
Qed.

(** Table lookup by full target tuple compares generations: a stale handle never matches the table
    of a newer incarnation with the same ID. *)
Theorem matches_exact_compares_generations : forall t c i k tg1 tg2 rels,
  tbl_colidx t c = Some i -> nth_error (t_kinds t) i = Some k -> ck_rel k = true ->
  nth_error (t_targets t) i = Some tg1 -> fst tg1 = fst tg2 -> snd tg1 <> snd tg2 ->
  In (c, tg2) rels -> length (t_rels t) <= length rels ->
  tbl_matches_exact t rels <> MTrue.
Proof.
  intros t c i k tg1 tg2 rels Hi Hk Hr Ht _ Hg Hin _. unfold tbl_matches_exact.
  match goal with |- context [Nat.ltb ?x ?y] => destruct (Nat.ltb x y) end; [discriminate|].
  eapply rl_rels_match_exact_gen; eauto.
Qed.

Lemma rl_rels_match_gen : forall t c i tg1 tg2 rels,
  tbl_colidx t c = Some i -> nth_error (t_targets t) i = Some tg1 -> snd tg1 <> snd tg2 ->
  In (c, tg2) rels -> rels_match t rels <> Some true.
Proof.
  intros t c i tg1 tg2 rels Hi Ht Hg. induction rels as [|[c0 x] rest IH]; intros Hin; [contradiction|].
  cbn [rels_match]. destruct Hin as [E|Hin].
  - inversion E; subst c0 x. unfold tbl_target. rewrite Hi, Ht. rewrite (rl_ent_eqb_gen _ _ Hg). discriminate.
  - destruct (tbl_target t c0) as [x0|]; [|discriminate].
    destruct (ent_eqb x x0); [auto|discriminate].
Qed.

Theorem matches_compares_generations : forall t c i tg1 tg2 rels,
  tbl_colidx t c = Some i -> nth_error (t_targets t) i = Some tg1 -> fst tg1 = fst tg2 -> snd tg1 <> snd tg2 ->
  In (c, tg2) rels -> t_rels t <> [] ->
  tbl_matches t rels <> Some true.
Proof.
  intros t c i tg1 tg2 rels Hi Ht _ Hg Hin Hne. unfold tbl_matches.
  destruct rels as [|r rest]; [contradiction|].
  unfold tbl_has_rels. destruct (t_rels t); [congruence|].
  eapply rl_rels_match_gen; eauto.
Qed.

(** ** tableIDs bookkeeping of an archetype *)

Lemma rl_afind_amap_vals : forall (f : list nat -> list nat) k (m : list (nat * list nat)),
  afind k (amap_vals f m) = option_map f (afind k m).
Proof.
  intros f k m. induction m as [|[k' v] m IH]; simpl; [reflexivity|].
  destruct (Nat.eqb k' k); [reflexivity|exact IH].
Qed.

Lemma rl_afind_adel : forall V k id (m : list (nat * V)),
  afind k (adel id m) = if Nat.eqb k id then None else afind k m.
Proof.
  intros V k id m. induction m as [|[k' v] m IH]; simpl.
  - destruct (Nat.eqb k id); reflexivity.
  - destruct (Nat.eqb_spec k' id).
    + subst k'. rewrite IH. destruct (Nat.eqb_spec k id).
      * reflexivity.
      * destruct (Nat.eqb_spec id k); [congruence|reflexivity].
    + simpl. destruct (Nat.eqb_spec k' k).
      * subst k'. destruct (Nat.eqb_spec k id); [contradiction|reflexivity].
      * exact IH.
Qed.

Lemma rl_arch_free_table_tables : forall a tid, a_tables (arch_free_table a tid) = tids_remove tid (a_tables a).
Proof. intros a tid. unfold arch_free_table. destruct (Nat.leb (a_numrel a) 1); reflexivity. Qed.
Lemma rl_arch_free_table_free : forall a tid, a_free (arch_free_table a tid) = a_free a ++ [tid].
Proof. intros a tid. unfold arch_free_table. destruct (Nat.leb (a_numrel a) 1); reflexivity. Qed.
Lemma rl_arch_free_table_tgttabs : forall a tid, 2 <= a_numrel a ->
  a_tgttabs (arch_free_table a tid) = amap_vals (tids_remove tid) (a_tgttabs a).
Proof.
  intros a tid H. unfold arch_free_table. destruct (Nat.leb_spec (a_numrel a) 1); [lia|reflexivity].
Qed.

(* ORIGINAL STATEMENT (FALSE as stated: the last clause needs the lookup lists to be duplicate-free;
   refuted by [rl_arch_free_table_spec_refuted] below; proved with the extra hypothesis as
   [arch_free_table_spec_partial]):

Theorem arch_free_table_spec : forall a tid, NoDup (a_tables a) -> In tid (a_tables a) ->
  let a' := arch_free_table a tid in
  ~ In tid (a_tables a') /\ (forall x, x <> tid -> (In x (a_tables a') <-> In x (a_tables a))) /\
  a_free a' = a_free a ++ [tid] /\ NoDup (a_tables a') /\
  (2 <= a_numrel a -> forall k l, afind k (a_tgttabs a') = Some l -> ~ In tid l).
(refuted)

   Reason: [tids_remove tid l] (Go: tableIDs.Remove, swap-remove of the FIRST occurrence found) removes only
   one occurrence of [tid]; nothing in the hypotheses says that the lists stored in [a_tgttabs a] are
   duplicate-free. Counterexample: a_tables = [5], a_numrel = 2, a_tgttabs = [(0, [5; 5])], tid = 5:
   afterwards afind 0 (a_tgttabs a') = Some [5], which still contains 5. *)

(** FreeTable removes the table from the active list and pushes it on the free list; with several
    relations it also disappears from every lookup list, PROVIDED the lookup lists have no duplicates. *)
Theorem arch_free_table_spec_partial : forall a tid, NoDup (a_tables a) -> In tid (a_tables a) ->
  (forall k l, afind k (a_tgttabs a) = Some l -> NoDup l) ->
  let a' := arch_free_table a tid in
  ~ In tid (a_tables a') /\ (forall x, x <> tid -> (In x (a_tables a') <-> In x (a_tables a))) /\
  a_free a' = a_free a ++ [tid] /\ NoDup (a_tables a') /\
  (2 <= a_numrel a -> forall k l, afind k (a_tgttabs a') = Some l -> ~ In tid l).
Proof.
  intros a tid ND Hin HND a'. subst a'.
  rewrite rl_arch_free_table_tables, rl_arch_free_table_free.
  destruct (tids_remove_spec tid (a_tables a) ND) as [ND' Hspec].
  split; [|split; [|split; [|split]]].
  - intros H. apply Hspec in H as [_ H]. apply H; reflexivity.
  - intros x Hx. rewrite Hspec. tauto.
  - reflexivity.
  - exact ND'.
  - intros H2 k l Hl. rewrite rl_arch_free_table_tgttabs in Hl by exact H2.
    rewrite rl_afind_amap_vals in Hl. destruct (afind k (a_tgttabs a)) as [l0|] eqn:E; [|discriminate].
    simpl in Hl. inversion Hl; subst l. intros H.
    apply (tids_remove_spec tid l0 (HND k l0 E)) in H as [_ H]. apply H; reflexivity.
Qed.

(** The first four clauses hold as stated (without the extra hypothesis). *)
Theorem arch_free_table_spec_partial_tables : forall a tid, NoDup (a_tables a) -> In tid (a_tables a) ->
  let a' := arch_free_table a tid in
  ~ In tid (a_tables a') /\ (forall x, x <> tid -> (In x (a_tables a') <-> In x (a_tables a))) /\
  a_free a' = a_free a ++ [tid] /\ NoDup (a_tables a').
Proof.
  intros a tid ND Hin a'. subst a'.
  rewrite rl_arch_free_table_tables, rl_arch_free_table_free.
  destruct (tids_remove_spec tid (a_tables a) ND) as [ND' Hspec].
  split; [|split; [|split]].
  - intros H. apply Hspec in H as [_ H]. apply H; reflexivity.
  - intros x Hx. rewrite Hspec. tauto.
  - reflexivity.
  - exact ND'.
Qed.

(** The counterexample to the original last clause, checked by computation. *)
Lemma rl_arch_free_table_spec_refuted :
  exists a tid, NoDup (a_tables a) /\ In tid (a_tables a) /\ 2 <= a_numrel a /\
    exists k l, afind k (a_tgttabs (arch_free_table a tid)) = Some l /\ In tid l.
Proof.
  exists {| a_mask := 0%N; a_comps := []; a_isrel := []; a_tables := [5]; a_free := [];
            a_reltabs := []; a_tgttabs := [(0, [5; 5])]; a_numrel := 2 |}, 5.
  split; [constructor; [intros []|constructor]|]. split; [left; reflexivity|]. split; [simpl; lia|].
  exists 0, [5]. split; [reflexivity|left; reflexivity].
Qed.

Theorem arch_remove_target_spec : forall a id k,
  afind k (a_tgttabs (arch_remove_target a id)) = if Nat.eqb k id then None else afind k (a_tgttabs a).
Proof. intros a id k. unfold arch_remove_target. cbn. apply rl_afind_adel. Qed.

(** The order in which Go ranges over the lookup maps in FreeTable is irrelevant (C12): removing a
    table ID from every value of an association list commutes with any reordering of its entries. *)
Theorem free_table_order_independent : forall (m m' : list (nat * list nat)) tid k,
  (forall k0, afind k0 m = afind k0 m') ->
  afind k (amap_vals (tids_remove tid) m) = afind k (amap_vals (tids_remove tid) m').
Proof. intros m m' tid k H. rewrite !rl_afind_amap_vals, H. reflexivity. Qed.
