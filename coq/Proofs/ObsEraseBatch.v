(** * ObsEraseBatch: the erasure simulation for the five batch operations (package U2). Helper prefix [oeb_].

    ObsErase compares the run of a single-entity operation on a world [s] with its run on the erased world [oe_E s]
    by an EQUALITY of states ([oe_hom]: the erased run ends in the erasure of the real final state). That is too
    strict for the batch operations:
    - the lock bit [lockM] hands out on the real world differs from the bit it hands out on the erased world, and the
      erased run is locked while the body runs ([oe_E] resets the lock);
    - the batch callbacks write to the log ([batch_callback]: entries [101; id; gen]), which [oe_E] clears, and
      [step] reads the handles it issues for NewEntities / NewBatch off that log;
    - "should the world be locked" depends on [has_obs], so the real run may lock where the erased one does not.

    Here the two runs are related by [oeb_Q s t]: the same erasure ([oe_E s = oe_E t]: the same storage) and the same
    logged batch entities ([logged_entities (w_log s) = logged_entities (w_log t)]); storage computations keep lock and
    observer aggregate on both sides ([oeb_T]).

    - Part 1: the entity log frame [oeb_lgp] (a dispatch logs entries [100; ...] only), [oeb_dp] (a dispatch: storage and
      logged batch entities kept, in BOTH outcomes), [fire_rows];
    - Part 2: [oeb_P] (lockstep, both outcomes, same value and error) and [oeb_eqv]; every computation with
      [oe_hom m m] and [r2ol_sdp m] is [oeb_eqv] ([oeb_eqv_hom]); [log], [batch_callback];
    - Part 3: [oeb_U C]: the judgement for a whole operation
          real Ok    -> erased Ok, [oeb_Q] final states
          real Err   -> the erasure of the real state is the erasure of the final state of the erased run, or a cut state [C];
      rules [oeb_U_fire] (an event pass: dispatch on the real side, nothing on the erased side), [oeb_U_lock] / [oeb_U_unlock]
      (the conditional lock bracket; if the real [lockM] finds no bit the state is a cut state; the erased world always has one);
    - Part 4: [oeb_w_new_entities], [oeb_w_new_batch], [oeb_w_remove_entities] (the create events are fired after the last
      storage change - only the unlock follows; the removal events before the first one);
    - Part 5: results of operations [oeb_R];
    - Part 6: the deferred-unlock bracket [oeb_U_deferred], [oeb_w_exchange_batch], [oeb_w_set_relations_batch]: event passes
      BETWEEN the planning phase and the moves, and (SetRelationsBatch) between the moves and [register_targets]; cut states
      [oeb_cut_x], [oeb_cut_s] = the erased run truncated after the planning phase / after the moves;
    - Part 7: [oeb_cut], [oeb_step_op_all], [oeb_step_all] (the step, for every batch operation), and the reading of the cut
      states of NewEntities / NewBatch as final states of the call without callback ([oeb_new_entities_quiet], [oeb_new_batch_quiet]).

    Nothing here depends on an invariant: every statement holds for EVERY world state, every observer object (any [o_cb])
    and both outcomes; callbacks may fail. (The erased side is any world without observer aggregate, unlocked, with a lock bit
    available - [oe_E s] is one.) *)
From Ark Require Import Model.Base Model.Mask Model.Pool Model.Util Model.World Model.Run.
From Ark Require Import Proofs.MaskProofs Proofs.Hoare Proofs.StorageA Proofs.LockWorld Proofs.StorageB_sb1 Proofs.StorageB_sb2
  Proofs.StorageC Proofs.BatchOps Proofs.Rel2Hist Proofs.Rel2BatchExchange Proofs.Rel2BatchSetRel Proofs.Rel2BatchHist Proofs.Rel2HistAll Proofs.Rel2HistAllL Proofs.ObsErase Proofs.Rel2HistOL.
From RecordUpdate Require Import RecordSet.
Import RecordSetNotations.
From Coq Require Import Lia.
Close Scope Z_scope.

(* ================================================================================================ *)
(** * Part 1: frames *)

Definition oeb_lg (s s' : W) : Prop := logged_entities (w_log s') = logged_entities (w_log s).
Lemma oeb_lg_refl : forall s, oeb_lg s s.
Proof. intros s. reflexivity. Qed.
Lemma oeb_lg_trans : forall s1 s2 s3, oeb_lg s1 s2 -> oeb_lg s2 s3 -> oeb_lg s1 s3.
Proof. intros s1 s2 s3 H1 H2. unfold oeb_lg in *. congruence. Qed.

Definition oeb_lgp {A} (m : MW A) : Prop := r2e_pres oeb_lg m.

Lemma oeb_lgp_ro : forall A (m : MW A), readonly m -> oeb_lgp m.
Proof. intros A m H. apply (r2e_pres_ro oeb_lg oeb_lg_refl). exact H. Qed.
Lemma oeb_lgp_bind : forall A B (m : MW A) (k : A -> MW B), oeb_lgp m -> (forall a, oeb_lgp (k a)) -> oeb_lgp (bind m k).
Proof. intros A B m k. apply (r2e_pres_bind oeb_lg oeb_lg_trans). Qed.
Lemma oeb_lgp_forM : forall A (l : list A) (f : A -> MW unit), (forall a, oeb_lgp (f a)) -> oeb_lgp (forM_ l f).
Proof. intros A l f. apply (r2e_pres_forM oeb_lg oeb_lg_refl oeb_lg_trans). Qed.
Lemma oeb_lgp_whenM : forall b m, oeb_lgp m -> oeb_lgp (whenM b m).
Proof. intros b m. apply (r2e_pres_whenM oeb_lg oeb_lg_refl). Qed.
Lemma oeb_lgp_side : forall A (m : MW A), r2ol_sdp m -> oeb_lgp m.
Proof. intros A m H s. pose proof (r2ol_sdp_at _ m s H) as (_ & E & _). unfold oeb_lg. rewrite E. reflexivity. Qed.
Lemma oeb_lgp_lockM : oeb_lgp lockM.
Proof. intros s. unfold lockM, bind, get. destruct (lock_lock (w_lock s)) as [[b l']|]; reflexivity. Qed.
Lemma oeb_lgp_unlockM : forall b, oeb_lgp (unlockM b).
Proof. intros b s. unfold unlockM, bind, get. destruct (lock_unlock (w_lock s) b) as [l'|]; reflexivity. Qed.
Lemma oeb_lgp_modO : forall oi f, oeb_lgp (modO oi f).
Proof. intros oi f s. reflexivity. Qed.
Lemma oeb_lgp_mod_agg : forall evt f, oeb_lgp (mod_agg evt f).
Proof. intros evt f s. reflexivity. Qed.

Ltac oeb_lg_step :=
  lazymatch goal with
  | |- oeb_lgp (let x := _ in _) => cbv zeta
  | |- oeb_lgp (ret _) => apply oeb_lgp_ro, readonly_ret
  | |- oeb_lgp (fail _) => apply oeb_lgp_ro, readonly_fail
  | |- oeb_lgp get => apply oeb_lgp_ro, readonly_get
  | |- oeb_lgp (guard _ _) => apply oeb_lgp_ro, readonly_guard
  | |- oeb_lgp (of_opt _ _) => apply oeb_lgp_ro, readonly_of_opt
  | |- oeb_lgp (getO _) => apply oeb_lgp_ro; unfold getO; ro
  | |- oeb_lgp (modO _ _) => apply oeb_lgp_modO
  | |- oeb_lgp (mod_agg _ _) => apply oeb_lgp_mod_agg
  | |- oeb_lgp lockM => apply oeb_lgp_lockM
  | |- oeb_lgp (unlockM _) => apply oeb_lgp_unlockM
  | |- oeb_lgp (modify _) => let s := fresh "s" in intros s; reflexivity
  | |- oeb_lgp (whenM _ _) => apply oeb_lgp_whenM
  | |- oeb_lgp (forM_ _ _) => apply oeb_lgp_forM; intros ?
  | |- oeb_lgp (bind _ _) => apply oeb_lgp_bind; [|intros ?]
  | |- oeb_lgp (let '(_, _) := ?x in _) => destruct x
  | |- oeb_lgp (match ?x with _ => _ end) => destruct x
  | |- oeb_lgp (if ?x then _ else _) => destruct x
  end.
Ltac oeb_lg_tac := repeat oeb_lg_step.

Lemma oeb_lgp_remove_observer : forall oi, oeb_lgp (remove_observer oi).
Proof. intros oi. unfold remove_observer. oeb_lg_tac. Qed.

(** a callback entry is no batch entry *)
Lemma oeb_lgp_log100 : forall l, oeb_lgp (log (100%Z :: l)).
Proof.
  intros l s. unfold log, modify, oeb_lg. cbn [state_of]. cbn [w_log set]. unfold logged_entities.
  change (w_log (s <| w_log ::= fun lg => lg ++ [100%Z :: l] |>)) with (w_log s ++ [100%Z :: l]).
  rewrite flat_map_app. cbn [flat_map]. rewrite !app_nil_r. reflexivity.
Qed.

Lemma oeb_lgp_run_callback : forall oi e, oeb_lgp (run_callback oi e).
Proof.
  intros oi e. unfold run_callback.
  apply oeb_lgp_bind; [apply oeb_lgp_ro, readonly_get|]. intros s0. cbv zeta.
  apply oeb_lgp_bind; [apply oeb_lgp_lockM|]. intros b.
  apply oeb_lgp_bind; [apply oeb_lgp_ro, readonly_get|]. intros s1.
  apply oeb_lgp_bind; [apply oeb_lgp_unlockM|]. intros _.
  apply oeb_lgp_bind; [destruct (alive s0 e); [apply oeb_lgp_ro, readonly_of_opt|apply oeb_lgp_ro, readonly_ret]|]. intros snap.
  apply oeb_lgp_bind; [apply oeb_lgp_log100|]. intros _.
  oeb_lg_tac; apply oeb_lgp_remove_observer.
Qed.

Lemma oeb_lgp_fire_loop : forall pred e l found, oeb_lgp (fire_loop run_callback pred e l found).
Proof.
  intros pred e l. induction l as [|oi rest IH]; intros found; cbn [fire_loop]; [apply oeb_lgp_ro, readonly_ret|].
  apply oeb_lgp_bind; [apply oeb_lgp_ro; unfold getO; ro|]. intros o.
  destruct (pred o); [|apply IH]. apply oeb_lgp_bind; [apply oeb_lgp_run_callback|]. intros _. apply IH.
Qed.

Lemma oeb_lgp_fire : forall evt early pred e eo, oeb_lgp (fire evt early pred e eo).
Proof.
  intros. unfold fire, fire_with. apply oeb_lgp_bind; [apply oeb_lgp_ro, readonly_get|]. intros s.
  destruct (_ && _)%bool; [apply oeb_lgp_ro, readonly_ret|apply oeb_lgp_fire_loop].
Qed.

Lemma oeb_lgp_fire_rows : forall f es eo, (forall e b, oeb_lgp (f e b)) -> oeb_lgp (fire_rows f es eo).
Proof.
  intros f es. induction es as [|e rest IH]; intros eo H; cbn [fire_rows]; [apply oeb_lgp_ro, readonly_ret|].
  apply oeb_lgp_bind; [apply H|]. intros found. destruct found; [apply IH; exact H|apply oeb_lgp_ro, readonly_ret].
Qed.

Lemma oeb_sp_fire_rows : forall f es eo, (forall e b, sa_sp (f e b)) -> sa_sp (fire_rows f es eo).
Proof.
  intros f es. induction es as [|e rest IH]; intros eo H; cbn [fire_rows]; [apply sa_sp_ret|].
  apply sa_sp_bind; [apply H|]. intros found. destruct found; [apply IH; exact H|apply sa_sp_ret].
Qed.

(** [oeb_dp m]: a dispatch: storage and logged batch entities are kept, in both outcomes *)
Definition oeb_dp {A} (m : MW A) : Prop := sa_sp m /\ oeb_lgp m.

Lemma oeb_dp_ro : forall A (m : MW A), readonly m -> oeb_dp m.
Proof. intros A m H. split; [apply oe_sp_ro; exact H|apply oeb_lgp_ro; exact H]. Qed.
Lemma oeb_dp_bind : forall A B (m : MW A) (k : A -> MW B), oeb_dp m -> (forall a, oeb_dp (k a)) -> oeb_dp (bind m k).
Proof.
  intros A B m k (H1 & H2) Hk. split; [apply sa_sp_bind; [exact H1|intros a; apply (Hk a)]|apply oeb_lgp_bind; [exact H2|intros a; apply (Hk a)]].
Qed.
Lemma oeb_dp_whenM : forall b m, oeb_dp m -> oeb_dp (whenM b m).
Proof. intros b m (H1 & H2). split; [apply sa_sp_whenM; exact H1|apply oeb_lgp_whenM; exact H2]. Qed.
Lemma oeb_dp_forM : forall A (l : list A) (f : A -> MW unit), (forall a, oeb_dp (f a)) -> oeb_dp (forM_ l f).
Proof. intros A l f H. split; [apply oe_sp_forM; intros a; apply (H a)|apply oeb_lgp_forM; intros a; apply (H a)]. Qed.
Lemma oeb_dp_fire : forall evt early pred e eo, oeb_dp (fire evt early pred e eo).
Proof. intros. split; [apply sa_sp_fire|apply oeb_lgp_fire]. Qed.
Lemma oeb_dp_fire_rows : forall f es eo, (forall e b, oeb_dp (f e b)) -> oeb_dp (fire_rows f es eo).
Proof. intros f es eo H. split; [apply oeb_sp_fire_rows; intros e b; apply (H e b)|apply oeb_lgp_fire_rows; intros e b; apply (H e b)]. Qed.
Lemma oeb_dp_lockM : oeb_dp lockM.
Proof. split; [apply sa_sp_lockM|apply oeb_lgp_lockM]. Qed.
Lemma oeb_dp_unlockM : forall b, oeb_dp (unlockM b).
Proof. intros b. split; [apply sa_sp_unlockM|apply oeb_lgp_unlockM]. Qed.

(* ================================================================================================ *)
(** * Part 2: the lockstep judgement *)

Definition oeb_Q (s t : W) : Prop := oe_E s = oe_E t /\ logged_entities (w_log s) = logged_entities (w_log t).
Definition oeb_T (t t' : W) : Prop := w_lock t' = w_lock t /\ w_oagg t' = w_oagg t.

Lemma oeb_T_refl : forall t, oeb_T t t.
Proof. intros t. split; reflexivity. Qed.
Lemma oeb_T_trans : forall a b c, oeb_T a b -> oeb_T b c -> oeb_T a c.
Proof. intros a b c (A1 & A2) (B1 & B2). split; congruence. Qed.

(** a dispatch on the real side keeps the relation *)
Lemma oeb_Q_dp : forall A (m : MW A) s t, oeb_dp m -> oeb_Q s t -> oeb_Q (state_of (m s)) t.
Proof.
  intros A m s t (H1 & H2) (E & L). split.
  - rewrite (oe_E_sp _ m s H1). exact E.
  - rewrite (H2 s). exact L.
Qed.
Lemma oeb_Q_dp_r : forall A (m : MW A) s t, oeb_dp m -> oeb_Q s t -> oeb_Q s (state_of (m t)).
Proof.
  intros A m s t (H1 & H2) (E & L). split.
  - rewrite (oe_E_sp _ m t H1). exact E.
  - rewrite (H2 t). exact L.
Qed.

Definition oeb_P {A} (m1 m2 : MW A) (s t : W) : Prop :=
  match m2 s with
  | Ok a s' => exists t', m1 t = Ok a t' /\ oeb_Q s' t' /\ oeb_T s s' /\ oeb_T t t'
  | Err e s' => exists t', m1 t = Err e t' /\ oeb_Q s' t' /\ oeb_T s s' /\ oeb_T t t'
  end.

Definition oeb_eqv {A} (m : MW A) : Prop := forall s t, oeb_Q s t -> oeb_P m m s t.

Lemma oeb_rmap_inv : forall A (r1 r2 : res W A), oe_rmap r1 = oe_rmap r2 ->
  match r1, r2 with
  | Ok a s', Ok b t' => a = b /\ oe_E s' = oe_E t'
  | Err e s', Err e' t' => e = e' /\ oe_E s' = oe_E t'
  | _, _ => False
  end.
Proof.
  intros A r1 r2 R. destruct r1 as [a s'|e s']; destruct r2 as [b t'|e' t']; cbn [oe_rmap] in R; try discriminate R.
  - split; [congruence|]. exact (f_equal state_of R).
  - split; [congruence|]. exact (f_equal state_of R).
Qed.

Lemma oeb_eqv_hom : forall A (m : MW A), oe_hom m m -> r2ol_sdp m -> oeb_eqv m.
Proof.
  intros A m H Hs s t (E & L).
  assert (R : oe_rmap (m s) = oe_rmap (m t)) by (rewrite <- (H s), <- (H t), E; reflexivity).
  apply oeb_rmap_inv in R.
  pose proof (r2ol_sdp_at _ m s Hs) as (Lks & Ls & _ & _ & Las & _).
  pose proof (r2ol_sdp_at _ m t Hs) as (Lk & Lt & _ & _ & La & _).
  unfold oeb_P. destruct (m s) as [a s'|e s']; destruct (m t) as [b t'|e' t']; cbn [state_of] in *; try contradiction.
  - destruct R as (-> & R). exists t'. split; [reflexivity|]. split; [split; [exact R|rewrite Ls, Lt; exact L]|split; split; assumption].
  - destruct R as (-> & R). exists t'. split; [reflexivity|]. split; [split; [exact R|rewrite Ls, Lt; exact L]|split; split; assumption].
Qed.

Lemma oeb_P_bind : forall A B (m1 m2 : MW A) (k1 k2 : A -> MW B) s t, oeb_P m1 m2 s t ->
  (forall a s1 t1, m2 s = Ok a s1 -> m1 t = Ok a t1 -> oeb_Q s1 t1 -> oeb_T s s1 -> oeb_T t t1 -> oeb_P (k1 a) (k2 a) s1 t1) ->
  oeb_P (bind m1 k1) (bind m2 k2) s t.
Proof.
  intros A B m1 m2 k1 k2 s t Hm Hk. unfold oeb_P in *. unfold bind at 1.
  destruct (m2 s) as [a s1|e s1].
  - destruct Hm as (t1 & E1 & Q1 & S1 & T1). specialize (Hk a s1 t1 eq_refl E1 Q1 S1 T1).
    rewrite (sa_bind_ok E1). destruct (k2 a s1) as [b s2|e s2]; destruct Hk as (t2 & E2 & Q2 & S2 & T2); exists t2;
      (split; [exact E2|split; [exact Q2|split; [apply (oeb_T_trans s s1 s2 S1 S2)|apply (oeb_T_trans t t1 t2 T1 T2)]]]).
  - destruct Hm as (t1 & E1 & Q1 & S1 & T1). exists t1. rewrite (sa_bind_err E1). split; [reflexivity|split; [assumption|split; assumption]].
Qed.

Lemma oeb_eqv_ret : forall A (a : A), oeb_eqv (ret a).
Proof. intros A a s t Q. exists t. split; [reflexivity|split; [exact Q|split; apply oeb_T_refl]]. Qed.

Lemma oeb_eqv_bind : forall A B (m : MW A) (k : A -> MW B), oeb_eqv m -> (forall a, oeb_eqv (k a)) -> oeb_eqv (bind m k).
Proof. intros A B m k Hm Hk s t Q. apply oeb_P_bind; [apply Hm; exact Q|]. intros a s1 t1 _ _ Q1 _ _. apply Hk. exact Q1. Qed.

Lemma oeb_eqv_forM : forall A (l : list A) (f : A -> MW unit), (forall a, oeb_eqv (f a)) -> oeb_eqv (forM_ l f).
Proof.
  intros A l f H. induction l as [|x l IH]; cbn [forM_]; [apply oeb_eqv_ret|]. apply oeb_eqv_bind; [apply H|intros _; exact IH].
Qed.

Lemma oeb_eqv_whenM : forall b m, oeb_eqv m -> oeb_eqv (whenM b m).
Proof. intros b m H. destruct b; cbn [whenM]; [exact H|apply oeb_eqv_ret]. Qed.

Lemma oeb_eqv_log : forall l, oeb_eqv (log l).
Proof.
  intros l s t (E & L). unfold oeb_P, log, modify. eexists. split; [reflexivity|]. split; [split|split; split; reflexivity].
  - exact E.
  - change (logged_entities (w_log s ++ [l]) = logged_entities (w_log t ++ [l])). unfold logged_entities in *.
    rewrite !flat_map_app, L. reflexivity.
Qed.

(** ** storage pieces of the batch operations *)
Lemma oeb_sdp_ro : forall A (m : MW A), readonly m -> r2ol_sdp m.
Proof. intros A m H s0. apply r2ol_sdf_ro. exact H. Qed.

Lemma oe_hom_rows_of : forall tid start n, oe_hom (rows_of tid start n) (rows_of tid start n).
Proof. intros. unfold rows_of. oe_auto. Qed.
Lemma oe_hom_create_entities : forall tid count, oe_hom (create_entities tid count) (create_entities tid count).
Proof. intros. unfold create_entities. oe_auto. Qed.
Lemma oe_hom_new_entities : forall count ids rels, oe_hom (new_entities count ids rels) (new_entities count ids rels).
Proof. intros. unfold new_entities. pose proof oe_hom_create_entities. oe_auto. Qed.
Lemma oe_hom_get_batch_tables : forall fi rels, oe_hom (get_batch_tables fi rels) (get_batch_tables fi rels).
Proof.
  intros. unfold get_batch_tables. apply oe_hom_bind; [apply oe_hom_getF|]. intros f.
  destruct (f_cache f) as [cid|]; [|apply oe_hom_uncached_tables].
  apply oe_hom_get_bind. intros s0. oe_E_norm s0.
  destruct (find _ (w_centries s0)) as [addr|]; [|apply oe_hom_fail].
  apply oe_hom_bind; [apply oe_hom_of_opt; reflexivity|]. intros e. apply oe_hom_tables_matching.
Qed.

Lemma oeb_sdp_create_entities : forall tid count, r2ol_sdp (create_entities tid count).
Proof. intros tid count s0. unfold create_entities. r2ol_sd_auto. Qed.
Lemma oeb_sdp_new_entities : forall count ids rels, r2ol_sdp (new_entities count ids rels).
Proof. intros count ids rels s0. unfold new_entities. pose proof oeb_sdp_create_entities as Hc. r2ol_sd_auto. apply Hc. Qed.

Lemma oeb_eqv_new_entities : forall count ids rels, oeb_eqv (new_entities count ids rels).
Proof. intros. apply oeb_eqv_hom; [apply oe_hom_new_entities|apply oeb_sdp_new_entities]. Qed.
Lemma oeb_eqv_rows_of : forall tid start n, oeb_eqv (rows_of tid start n).
Proof. intros. apply oeb_eqv_hom; [apply oe_hom_rows_of|apply oeb_sdp_ro, r2h_ro_rows_of]. Qed.
Lemma oeb_eqv_arch_mask : forall tid, oeb_eqv (arch_mask_of_table tid).
Proof. intros. apply oeb_eqv_hom; [apply oe_hom_arch_mask|apply oeb_sdp_ro, sc_ro_arch_mask]. Qed.
Lemma oeb_eqv_getT : forall tid, oeb_eqv (getT tid).
Proof. intros. apply oeb_eqv_hom; [apply oe_hom_getT|apply oeb_sdp_ro, readonly_getT]. Qed.
Lemma oeb_eqv_to_relations : forall m rels, oeb_eqv (to_relations m rels).
Proof. intros. apply oeb_eqv_hom; [apply oe_hom_to_relations|apply oeb_sdp_ro, readonly_to_relations]. Qed.
Lemma oeb_eqv_get_batch_tables : forall fi rels, oeb_eqv (get_batch_tables fi rels).
Proof. intros. apply oeb_eqv_hom; [apply oe_hom_get_batch_tables|apply oeb_sdp_ro, r2u_ro_get_batch_tables]. Qed.

Lemma oeb_eqv_batch_callback : forall tid vals row, oeb_eqv (batch_callback tid vals row).
Proof.
  intros tid vals row. unfold batch_callback.
  apply oeb_eqv_bind; [apply oeb_eqv_getT|]. intros t.
  apply oeb_eqv_bind; [apply oeb_eqv_hom; [apply oe_hom_of_opt; reflexivity|apply oeb_sdp_ro, readonly_of_opt]|]. intros e.
  apply oeb_eqv_bind; [apply oeb_eqv_log|]. intros _.
  apply oeb_eqv_hom; [oe_auto|intros s0; r2ol_sd_auto].
Qed.

(* ================================================================================================ *)
(** * Part 3: whole operations *)

(** [C]: named cut states (the erasure of the state in which a callback failed BEFORE the storage part) *)
Definition oeb_U (C : W -> Prop) (m1 m2 : MW unit) (s t : W) : Prop :=
  match m2 s with
  | Ok _ s' => exists t', m1 t = Ok tt t' /\ oeb_Q s' t'
  | Err _ s' => oe_E s' = oe_E (state_of (m1 t)) \/ C (oe_E s')
  end.

Lemma oeb_U_of_P : forall C (m1 m2 : MW unit) s t, oeb_P m1 m2 s t -> oeb_U C m1 m2 s t.
Proof.
  intros C m1 m2 s t H. unfold oeb_U, oeb_P in *. destruct (m2 s) as [[] s'|e s'].
  - destruct H as (t' & E & Q & _). exists t'. split; assumption.
  - destruct H as (t' & E & (Q & _) & _). left. rewrite E. exact Q.
Qed.

Lemma oeb_U_bind_P : forall A C (m1 m2 : MW A) (k1 k2 : A -> MW unit) s t, oeb_P m1 m2 s t ->
  (forall a s1 t1, m1 t = Ok a t1 -> oeb_Q s1 t1 -> oeb_T s s1 -> oeb_T t t1 -> oeb_U C (k1 a) (k2 a) s1 t1) ->
  oeb_U C (bind m1 k1) (bind m2 k2) s t.
Proof.
  intros A C m1 m2 k1 k2 s t Hm Hk. unfold oeb_U, oeb_P in *. unfold bind at 1.
  destruct (m2 s) as [a s1|e s1].
  - destruct Hm as (t1 & E1 & Q1 & S1 & T1). specialize (Hk a s1 t1 E1 Q1 S1 T1). rewrite (sa_bind_ok E1). exact Hk.
  - destruct Hm as (t1 & E1 & (Q1 & _) & _). left. rewrite (sa_bind_err E1). exact Q1.
Qed.

Lemma oeb_U_getbind : forall C (k1 k2 : W -> MW unit) s t, oeb_U C (k1 t) (k2 s) s t -> oeb_U C (bind get k1) (bind get k2) s t.
Proof. intros C k1 k2 s t H. exact H. Qed.

Lemma oeb_U_check : forall C (k1 k2 : MW unit) s t, is_locked s = false -> is_locked t = false ->
  oeb_U C k1 k2 s t -> oeb_U C (check_locked ;;; k1) (check_locked ;;; k2) s t.
Proof.
  intros C k1 k2 s t Hs Ht H. unfold oeb_U. rewrite (sa_bind_ok (sb1_check_locked_ok s Hs)), (sa_bind_ok (sb1_check_locked_ok t Ht)). exact H.
Qed.

(** a dispatch on the real side, nothing on the erased side; if it fails, either the rest of the erased run keeps the
    storage or the state is a cut state *)
Lemma oeb_U_fire : forall C (f2 : MW unit) (k1 k2 : MW unit) s t, oeb_dp f2 -> oeb_Q s t ->
  (oe_E (state_of (k1 t)) = oe_E t \/ C (oe_E s)) ->
  (forall s1, oeb_Q s1 t -> oeb_U C k1 k2 s1 t) ->
  oeb_U C k1 (f2 ;;; k2) s t.
Proof.
  intros C f2 k1 k2 s t Hd Q Hc Hk. pose proof (oeb_Q_dp _ f2 s t Hd Q) as Q1.
  pose proof (oe_E_sp _ f2 s (proj1 Hd)) as X. unfold oeb_U. unfold bind at 1.
  destruct (f2 s) as [[] s1|e s1]; cbn [state_of] in Q1, X.
  - apply Hk. exact Q1.
  - destruct Hc as [Hc|Hc]; [left; rewrite Hc; exact (proj1 Q1)|right; rewrite X; exact Hc].
Qed.

Lemma oeb_U_whenM_fire : forall C b (f2 : MW unit) (k1 k2 : MW unit) s t, oeb_dp f2 -> oeb_Q s t ->
  (oe_E (state_of (k1 t)) = oe_E t \/ C (oe_E s)) ->
  (forall s1, oeb_Q s1 t -> oeb_U C k1 k2 s1 t) ->
  oeb_U C (whenM false f2 ;;; k1) (whenM b f2 ;;; k2) s t.
Proof.
  intros C b f2 k1 k2 s t Hd Q Hc Hk. change (whenM false f2 ;;; k1) with k1.
  apply oeb_U_fire; [apply oeb_dp_whenM; exact Hd|exact Q|exact Hc|exact Hk].
Qed.

(** the lock step: the two sides may take different bits, or only the real side takes one *)
Definition oeb_bit (s : W) : Prop := lock_lock (w_lock s) <> None.

Lemma oeb_has_obs_nil : forall t ev, w_oagg t = [] -> has_obs t ev = false.
Proof. intros t ev H. unfold has_obs, get_agg. rewrite H. reflexivity. Qed.

Lemma oeb_U_lock : forall (C : W -> Prop) (b1 b2 : bool) (k1 k2 : nat -> MW unit) s t, oeb_Q s t -> C (oe_E s) -> oeb_bit t -> is_locked t = false ->
  (forall l2 l1 s1 t1, oeb_Q s1 t1 -> w_oagg t1 = w_oagg t -> oe_E t1 = oe_E t ->
     (b1 = true -> forall t2, w_lock t2 = w_lock t1 -> exists t3, unlockM l1 t2 = Ok tt t3) ->
     oeb_U C (k1 l1) (k2 l2) s1 t1) ->
  oeb_U C (bind (if b1 then lockM else ret 0) k1) (bind (if b2 then lockM else ret 0) k2) s t.
Proof.
  intros C b1 b2 k1 k2 s t Q Cs Bt Lt Hk.
  assert (Hs : (exists l2 s1, (if b2 then lockM else ret 0) s = Ok l2 s1 /\ oeb_Q s1 t) \/
               (exists e, (if b2 then lockM else ret 0) s = Err e s)).
  { destruct b2; [|left; exists 0, s; split; [reflexivity|exact Q]].
    destruct (lock_lock (w_lock s)) as [[b l']|] eqn:LL.
    - left. exists b, (s <| w_lock := l' |>). split; [unfold lockM, bind, get; rewrite LL; reflexivity|].
      destruct Q as (E & L). split; [rewrite <- E; reflexivity|exact L].
    - right. exists EBits. unfold lockM, bind, get. rewrite LL. reflexivity. }
  destruct Hs as [(l2 & s1 & E2 & Q1)|(e & E2)].
  2:{ unfold oeb_U. rewrite (sa_bind_err E2). right. exact Cs. }
  assert (Ht : exists l1 t1, (if b1 then lockM else ret 0) t = Ok l1 t1 /\ oeb_Q s1 t1 /\ w_oagg t1 = w_oagg t /\
                 oe_E t1 = oe_E t /\
                 (b1 = true -> forall t2, w_lock t2 = w_lock t1 -> exists t3, unlockM l1 t2 = Ok tt t3)).
  { destruct b1; [|exists 0, t; split; [reflexivity|split; [exact Q1|split; [reflexivity|split; [reflexivity|discriminate]]]]].
    unfold oeb_bit in Bt. destruct (lock_lock (w_lock t)) as [[b l']|] eqn:LL; [|congruence].
    exists b, (t <| w_lock := l' |>). split; [unfold lockM, bind, get; rewrite LL; reflexivity|].
    split; [destruct Q1 as (E & L); split; [rewrite E; reflexivity|exact L]|]. split; [reflexivity|]. split; [reflexivity|].
    intros _ t2 E. pose proof (bo_lock_cycle t b l' Lt LL) as LU. eexists. unfold unlockM, bind, get. rewrite E.
    change (w_lock (t <| w_lock := l' |>)) with l'. rewrite LU. reflexivity. }
  destruct Ht as (l1 & t1 & E1 & Q2 & Ea & Ee & Hu).
  unfold oeb_U. rewrite (sa_bind_ok E2), (sa_bind_ok E1). apply (Hk l2 l1 s1 t1 Q2 Ea Ee Hu).
Qed.

(** the end of the bracket *)
Lemma oeb_U_unlock : forall C (b1 b2 : bool) l1 l2 s t, oeb_Q s t ->
  (b1 = true -> exists t3, unlockM l1 t = Ok tt t3) ->
  oeb_U C (whenM b1 (unlockM l1)) (whenM b2 (unlockM l2)) s t.
Proof.
  intros C b1 b2 l1 l2 s t Q Hu.
  assert (D1 : oeb_dp (whenM b1 (unlockM l1))) by (apply oeb_dp_whenM, oeb_dp_unlockM).
  assert (D2 : oeb_dp (whenM b2 (unlockM l2))) by (apply oeb_dp_whenM, oeb_dp_unlockM).
  pose proof (oeb_Q_dp_r _ _ s t D1 Q) as Q1. pose proof (oeb_Q_dp _ _ s (state_of (whenM b1 (unlockM l1) t)) D2 Q1) as Q2.
  unfold oeb_U. destruct (whenM b2 (unlockM l2) s) as [[] s'|e s']; cbn [state_of] in Q2.
  - destruct b1; cbn [whenM] in *.
    + destruct (Hu eq_refl) as (t3 & E3). rewrite E3 in *. exists t3. split; [reflexivity|exact Q2].
    + exists t. split; [reflexivity|exact Q2].
  - left. exact (proj1 Q2).
Qed.

(** the tail of the erased run after the last storage change keeps the storage *)
Lemma oeb_tail_sp : forall (m : MW unit) t, sa_sp m -> oe_E (state_of (m t)) = oe_E t.
Proof. intros m t H. apply oe_E_sp. exact H. Qed.

(* ================================================================================================ *)
(** * Part 4: NewEntities, NewBatch, RemoveEntities with observers *)

Definition oeb_none : W -> Prop := fun _ => False.

Lemma oeb_dp_create_pass : forall m es, oeb_dp (fire_rows (fun e eo => fire_create_entity e m eo) es true).
Proof. intros m es. apply oeb_dp_fire_rows. intros e b. unfold fire_create_entity. apply oeb_dp_fire. Qed.
Lemma oeb_dp_create_rel_pass : forall m es, oeb_dp (fire_rows (fun e eo => fire_create_entity_rel e m eo) es true).
Proof. intros m es. apply oeb_dp_fire_rows. intros e b. unfold fire_create_entity_rel. apply oeb_dp_fire. Qed.

(** the cut state of NewEntities: no lock bit is left when the operation wants to lock for its callbacks (after the entities
    were created) *)
Definition oeb_cut_n (count : nat) (t : W) : W -> Prop := fun v => v = oe_E (state_of (new_entities count [] [] t)).

Theorem oeb_w_new_entities : forall count fn s t, oeb_Q s t -> is_locked s = false -> is_locked t = false ->
  oeb_bit t -> w_oagg t = [] ->
  oeb_U (oeb_cut_n count t) (w_new_entities count fn) (w_new_entities count fn) s t.
Proof.
  intros count fn s t Q Ls Lt Bt Ho. unfold w_new_entities.
  apply oeb_U_check; [exact Ls|exact Lt|].
  apply oeb_U_bind_P; [apply oeb_eqv_new_entities; exact Q|]. intros [tid start] s1 t1 En Q1 S1 T1.
  apply oeb_U_getbind. cbv zeta.
  assert (Ho1 : w_oagg t1 = []) by (rewrite (proj2 T1); exact Ho).
  rewrite (oeb_has_obs_nil t1 EvCreateEntity Ho1). cbn [orb].
  apply oeb_U_lock; [exact Q1|unfold oeb_cut_n; rewrite En; exact (proj1 Q1)|unfold oeb_bit; rewrite (proj1 T1); exact Bt
                    |unfold is_locked; rewrite (proj1 T1); exact Lt|].
  intros l2 l1 s2 t2 Q2 _ _ Hu.
  apply oeb_U_bind_P; [apply (oeb_eqv_whenM fn); [apply oeb_eqv_forM; intros i; apply oeb_eqv_batch_callback|exact Q2]|].
  intros [] s3 t3 _ Q3 _ T3.
  assert (D : oeb_dp (m <- arch_mask_of_table tid ;; es <- rows_of tid start count ;;
                      fire_rows (fun e eo => fire_create_entity e m eo) es true)).
  { apply oeb_dp_bind; [apply oeb_dp_ro, sc_ro_arch_mask|]. intros m.
    apply oeb_dp_bind; [apply oeb_dp_ro, r2h_ro_rows_of|]. intros es. apply oeb_dp_create_pass. }
  apply oeb_U_whenM_fire; [exact D|exact Q3|left; apply oeb_tail_sp; apply sa_sp_whenM, sa_sp_unlockM|].
  intros s4 Q4. apply oeb_U_unlock; [exact Q4|]. intros Hb. apply (Hu Hb). exact (proj1 T3).
Qed.

Definition oeb_cut_nb (count : nat) (ids : list nat) (rels : list rel) (t : W) : W -> Prop :=
  fun v => v = oe_E (state_of ((to_relations (mk_of_list ids) rels ;;; new_entities count ids rels) t)).

Theorem oeb_w_new_batch : forall count ids rels vals fn s t, oeb_Q s t -> is_locked s = false -> is_locked t = false ->
  oeb_bit t -> w_oagg t = [] ->
  oeb_U (oeb_cut_nb count ids rels t) (w_new_batch count ids rels vals fn) (w_new_batch count ids rels vals fn) s t.
Proof.
  intros count ids rels vals fn s t Q Ls Lt Bt Ho. unfold w_new_batch.
  apply oeb_U_check; [exact Ls|exact Lt|].
  apply oeb_U_bind_P; [apply oeb_eqv_to_relations; exact Q|]. intros [] s0 t0 Er Q0 S0 T0.
  apply oeb_U_bind_P; [apply oeb_eqv_new_entities; exact Q0|]. intros [tid start] s1 t1 En Q1 S1' T1'.
  pose proof (oeb_T_trans _ _ _ S0 S1') as S1. pose proof (oeb_T_trans _ _ _ T0 T1') as T1.
  apply oeb_U_getbind. cbv zeta.
  assert (Ho1 : w_oagg t1 = []) by (rewrite (proj2 T1); exact Ho).
  rewrite (oeb_has_obs_nil t1 EvCreateEntity Ho1), (oeb_has_obs_nil t1 EvAddRelations Ho1), Bool.andb_false_r. cbn [orb].
  apply oeb_U_lock; [exact Q1|unfold oeb_cut_nb; rewrite (sa_bind_ok Er), En; exact (proj1 Q1)|unfold oeb_bit; rewrite (proj1 T1); exact Bt
                    |unfold is_locked; rewrite (proj1 T1); exact Lt|].
  intros l2 l1 s2 t2 Q2 _ _ Hu.
  apply oeb_U_bind_P; [apply (oeb_eqv_whenM fn); [apply oeb_eqv_forM; intros i; apply oeb_eqv_batch_callback|exact Q2]|].
  intros [] s3 t3 _ Q3 _ T3.
  apply oeb_U_bind_P; [apply oeb_eqv_rows_of; exact Q3|]. intros es s4 t4 _ Q4 _ T4.
  pose proof (oeb_T_trans _ _ _ T3 T4) as T34.
  apply oeb_U_whenM_fire; [apply oeb_dp_create_pass|exact Q4| |].
  { left. apply oeb_tail_sp. apply sa_sp_bind; [apply sa_sp_whenM, (proj1 (oeb_dp_create_rel_pass _ _))|]. intros _. apply sa_sp_whenM, sa_sp_unlockM. }
  intros s5 Q5.
  apply oeb_U_whenM_fire; [apply oeb_dp_create_rel_pass|exact Q5|left; apply oeb_tail_sp; apply sa_sp_whenM, sa_sp_unlockM|].
  intros s6 Q6. apply oeb_U_unlock; [exact Q6|]. intros Hb. apply (Hu Hb). exact (proj1 T34).
Qed.

(** ** RemoveEntities *)
Lemma oe_hom_rm_rows : forall es acc, oe_hom (bo_rm_rows es acc) (bo_rm_rows es acc).
Proof.
  intros es. induction es as [|e more IH]; intros acc; cbn [bo_rm_rows]; [apply oe_hom_ret; reflexivity|].
  apply oe_hom_get_bind. intros s0. oe_E_norm s0. cbv zeta.
  apply oe_hom_bind; [apply oe_hom_modify; intros s1; reflexivity|]. intros _.
  apply oe_hom_bind; [apply oe_hom_pool_recycleM|]. intros _. apply IH.
Qed.
Lemma oe_hom_rm_tabs : forall tabs acc, oe_hom (bo_rm_tabs tabs acc) (bo_rm_tabs tabs acc).
Proof.
  intros tabs. induction tabs as [|tid rest IH]; intros acc; cbn [bo_rm_tabs]; [apply oe_hom_ret; reflexivity|].
  apply oe_hom_bind; [apply oe_hom_getT|]. intros t.
  apply oe_hom_bind; [apply oe_hom_rm_rows|]. intros acc'.
  apply oe_hom_bind; [apply oe_hom_modT|]. intros _. apply IH.
Qed.
Lemma oe_hom_rm_cleanup : forall cl, oe_hom (bo_rm_cleanup cl) (bo_rm_cleanup cl).
Proof. intros cl. unfold bo_rm_cleanup. oe_auto. Qed.

Lemma oeb_sdp_rm_rows : forall es acc, r2ol_sdp (bo_rm_rows es acc).
Proof.
  intros es. induction es as [|e more IH]; intros acc s0; cbn [bo_rm_rows]; [apply r2ol_sdf_ro, readonly_ret|].
  apply r2ol_sdf_getbind. intros s1 H1. cbv zeta.
  apply r2ol_sdf_bind; [apply r2ol_sdf_modify; r2ol_side|]. intros _.
  apply r2ol_sdf_bind; [apply r2ol_sdf_pool_recycleM|]. intros _. apply IH.
Qed.
Lemma oeb_sdp_rm_tabs : forall tabs acc, r2ol_sdp (bo_rm_tabs tabs acc).
Proof.
  intros tabs. induction tabs as [|tid rest IH]; intros acc s0; cbn [bo_rm_tabs]; [apply r2ol_sdf_ro, readonly_ret|].
  apply r2ol_sdf_bind; [apply r2ol_sdf_ro, readonly_getT|]. intros t.
  apply r2ol_sdf_bind; [apply oeb_sdp_rm_rows|]. intros acc'.
  apply r2ol_sdf_bind; [apply r2ol_sdf_modify; r2ol_side|]. intros _. apply IH.
Qed.
Lemma oeb_sdp_rm_cleanup : forall cl, r2ol_sdp (bo_rm_cleanup cl).
Proof. intros cl s0. unfold bo_rm_cleanup. r2ol_sd_auto. Qed.

Lemma oeb_eqv_rm_cb : forall tables, oeb_eqv (bo_rm_cb tables).
Proof.
  intros tables. unfold bo_rm_cb. apply oeb_eqv_forM. intros tid. apply oeb_eqv_bind; [apply oeb_eqv_getT|]. intros t.
  apply oeb_eqv_forM. intros i. apply oeb_eqv_batch_callback.
Qed.

Lemma oeb_sp_rm_cb : forall tables, sa_sp (bo_rm_cb tables).
Proof.
  intros tables. unfold bo_rm_cb. apply oe_sp_forM. intros tid. apply sa_sp_bind; [apply oe_sp_ro, readonly_getT|]. intros t.
  apply oe_sp_forM. intros i. unfold batch_callback.
  apply sa_sp_bind; [apply oe_sp_ro, readonly_getT|]. intros t0.
  apply sa_sp_bind; [apply oe_sp_ro, readonly_of_opt|]. intros e.
  apply sa_sp_bind; [apply sa_sp_log|]. intros _. cbn [forM_]. apply sa_sp_ret.
Qed.

Lemma oeb_dp_rm_ev_e : forall tables, oeb_dp (bo_rm_ev_e tables).
Proof.
  intros tables. unfold bo_rm_ev_e. apply oeb_dp_forM. intros tid.
  apply oeb_dp_bind; [apply oeb_dp_ro, sc_ro_arch_mask|]. intros m.
  apply oeb_dp_bind; [apply oeb_dp_ro, readonly_getT|]. intros t.
  apply oeb_dp_fire_rows. intros e b. unfold fire_remove_entity. apply oeb_dp_fire.
Qed.
Lemma oeb_dp_rm_ev_r : forall tables, oeb_dp (bo_rm_ev_r tables).
Proof.
  intros tables. unfold bo_rm_ev_r. apply oeb_dp_forM. intros tid.
  apply oeb_dp_bind; [apply oeb_dp_ro, readonly_getT|]. intros t. apply oeb_dp_whenM.
  apply oeb_dp_bind; [apply oeb_dp_ro, sc_ro_arch_mask|]. intros m.
  apply oeb_dp_fire_rows. intros e b. unfold fire_remove_entity_rel. apply oeb_dp_fire.
Qed.

(** the removal events are fired before the first storage change: a failing callback leaves the storage of [s] *)
Theorem oeb_w_remove_entities : forall fi rels fn s t, oeb_Q s t -> is_locked s = false -> is_locked t = false ->
  oeb_bit t -> w_oagg t = [] ->
  oeb_U (fun v => v = oe_E s) (w_remove_entities fi rels fn) (w_remove_entities fi rels fn) s t.
Proof.
  intros fi rels fn s t Q Ls Lt Bt Ho. rewrite bo_remove_entities_eq.
  apply oeb_U_check; [exact Ls|exact Lt|].
  apply oeb_U_getbind. cbv zeta.
  rewrite (oeb_has_obs_nil t EvRemoveEntity Ho), (oeb_has_obs_nil t EvRemoveRelations Ho). cbn [orb].
  apply oeb_U_lock; [exact Q|reflexivity|exact Bt|exact Lt|].
  intros l2 l1 s1 t1 Q1 _ Ee Hu.
  apply oeb_U_bind_P; [apply oeb_eqv_get_batch_tables; exact Q1|]. intros tables s2 t2 E2 Q2 _ T2.
  assert (Et2 : t2 = t1).
  { pose proof (r2u_ro_get_batch_tables fi rels t1) as R. rewrite E2 in R. exact R. }
  subst t2.
  apply oeb_U_bind_P; [apply (oeb_eqv_whenM fn); [apply oeb_eqv_rm_cb|exact Q2]|]. intros [] s3 t3 E3 Q3 _ T3.
  assert (Et3 : oe_E t3 = oe_E s).
  { pose proof (oe_E_sp _ _ t1 (sa_sp_whenM fn _ (oeb_sp_rm_cb tables))) as X. rewrite E3 in X. cbn [state_of] in X.
    rewrite X, Ee. symmetry. exact (proj1 Q). }
  apply oeb_U_whenM_fire; [apply oeb_dp_rm_ev_e|exact Q3|right; rewrite (proj1 Q3); exact Et3|]. intros s4 Q4.
  apply oeb_U_whenM_fire; [apply oeb_dp_rm_ev_r|exact Q4|right; rewrite (proj1 Q4); exact Et3|]. intros s5 Q5.
  apply oeb_U_bind_P; [apply oeb_eqv_hom; [apply oe_hom_rm_tabs|apply oeb_sdp_rm_tabs|exact Q5]|]. intros cl s6 t6 _ Q6 _ T6.
  apply oeb_U_bind_P; [apply oeb_eqv_hom; [apply oe_hom_rm_cleanup|apply oeb_sdp_rm_cleanup|exact Q6]|]. intros [] s7 t7 _ Q7 _ T7.
  apply oeb_U_unlock; [exact Q7|]. intros Hb. apply (Hu Hb).
  rewrite (proj1 T7), (proj1 T6), (proj1 T3). reflexivity.
Qed.

(* ================================================================================================ *)
(** * Part 5: results of operations *)

Definition oeb_R (C : W -> Prop) (r2 r1 : res W (list Z)) : Prop :=
  match r2 with
  | Ok v s' => exists t', r1 = Ok v t' /\ oeb_Q s' t'
  | Err _ s' => oe_E s' = oe_E (state_of r1) \/ C (oe_E s')
  end.

Lemma oeb_R_ret : forall C (m1 m2 : MW unit) s t, oeb_U C m1 m2 s t -> oeb_R C ((m2 ;;; ret []) s) ((m1 ;;; ret []) t).
Proof.
  intros C m1 m2 s t H. unfold oeb_U, oeb_R in *. unfold bind at 1. destruct (m2 s) as [[] s'|e s'].
  - destruct H as (t' & E & Q). rewrite (sa_bind_ok E). exists t'. split; [reflexivity|exact Q].
  - destruct H as [H|H]; [left|right; exact H]. unfold bind. destruct (m1 t) as [[] t'|e' t']; exact H.
Qed.

Lemma oeb_R_bind_ro : forall A C (m : MW A) (k : A -> MW (list Z)) s t, oeb_eqv m -> readonly m -> oeb_Q s t ->
  (forall a, oeb_R C (k a s) (k a t)) -> oeb_R C (bind m k s) (bind m k t).
Proof.
  intros A C m k s t Hm Hro Q Hk. specialize (Hm s t Q). unfold oeb_P in Hm. pose proof (Hro s) as Rs. pose proof (Hro t) as Rt.
  unfold bind. destruct (m s) as [a s1|e s1]; destruct Hm as (t1 & E & Q1 & _); rewrite E in *; cbn [state_of] in Rs, Rt; subst s1 t1.
  - apply Hk.
  - cbn [oeb_R state_of]. left. exact (proj1 Q).
Qed.

Lemma oeb_eqv_resolveR : forall hrels, oeb_eqv (resolveR hrels).
Proof. intros. apply oeb_eqv_hom; [apply oe_hom_resolveR|apply oeb_sdp_ro, readonly_resolveR]. Qed.
Lemma oeb_eqv_batch_rels : forall fi brels, oeb_eqv (batch_rels fi brels).
Proof.
  intros. apply oeb_eqv_hom; [|apply oeb_sdp_ro, readonly_batch_rels]. unfold batch_rels.
  apply oe_hom_bind; [apply oe_hom_getF|]. intros f. apply oe_hom_bind; [apply oe_hom_to_relations|]. intros _. apply oe_hom_ret. reflexivity.
Qed.

Lemma oeb_bit_new : forall s, oeb_bit (oe_E s <| w_log := [] |>).
Proof. intros s. unfold oeb_bit. cbn. discriminate. Qed.

(* ================================================================================================ *)
(** * Part 6: ExchangeBatch and SetRelationsBatch: event passes BETWEEN the planning and the moves (cut states) *)

(** the body under the deferred unlock: the erased side keeps its lock *)
Definition oeb_UL (C : W -> Prop) (m1 m2 : MW unit) (s t : W) : Prop :=
  match m2 s with
  | Ok _ s' => exists t', m1 t = Ok tt t' /\ oeb_Q s' t' /\ oeb_T t t'
  | Err _ s' => oe_E s' = oe_E (state_of (m1 t)) \/ C (oe_E s')
  end.

Lemma oeb_UL_of_P : forall C (m1 m2 : MW unit) s t, oeb_P m1 m2 s t -> oeb_UL C m1 m2 s t.
Proof.
  intros C m1 m2 s t H. unfold oeb_UL, oeb_P in *. destruct (m2 s) as [[] s'|e s'].
  - destruct H as (t' & E & Q & _ & T). exists t'. split; [exact E|split; assumption].
  - destruct H as (t' & E & (Q & _) & _). left. rewrite E. exact Q.
Qed.

Lemma oeb_UL_bind_P : forall A C (m1 m2 : MW A) (k1 k2 : A -> MW unit) s t, oeb_P m1 m2 s t ->
  (forall a s1 t1, m1 t = Ok a t1 -> oeb_Q s1 t1 -> oeb_T t t1 -> oeb_UL C (k1 a) (k2 a) s1 t1) ->
  oeb_UL C (bind m1 k1) (bind m2 k2) s t.
Proof.
  intros A C m1 m2 k1 k2 s t Hm Hk. unfold oeb_UL, oeb_P in *. unfold bind at 1.
  destruct (m2 s) as [a s1|e s1].
  - destruct Hm as (t1 & E1 & Q1 & _ & T1). specialize (Hk a s1 t1 E1 Q1 T1). rewrite (sa_bind_ok E1).
    destruct (k2 a s1) as [[] s2|e2 s2]; [|exact Hk]. destruct Hk as (t2 & E2 & Q2 & T2). exists t2.
    split; [exact E2|split; [exact Q2|apply (oeb_T_trans t t1 t2 T1 T2)]].
  - destruct Hm as (t1 & E1 & (Q1 & _) & _). left. rewrite (sa_bind_err E1). exact Q1.
Qed.

Lemma oeb_UL_getbind : forall C (k1 k2 : W -> MW unit) s t, oeb_UL C (k1 t) (k2 s) s t -> oeb_UL C (bind get k1) (bind get k2) s t.
Proof. intros C k1 k2 s t H. exact H. Qed.

Lemma oeb_UL_fire : forall C (f1 f2 : MW unit) (k1 k2 : MW unit) s t, oeb_dp f2 -> f1 t = Ok tt t -> oeb_Q s t ->
  (oe_E (state_of (k1 t)) = oe_E t \/ C (oe_E s)) ->
  (forall s1, oeb_Q s1 t -> oeb_UL C k1 k2 s1 t) ->
  oeb_UL C (f1 ;;; k1) (f2 ;;; k2) s t.
Proof.
  intros C f1 f2 k1 k2 s t Hd E1 Q Hc Hk. pose proof (oeb_Q_dp _ f2 s t Hd Q) as Q1.
  pose proof (oe_E_sp _ f2 s (proj1 Hd)) as X. unfold oeb_UL. rewrite (sa_bind_ok E1). unfold bind at 1.
  destruct (f2 s) as [[] s1|e s1]; cbn [state_of] in Q1, X.
  - apply Hk. exact Q1.
  - destruct Hc as [Hc|Hc]; [left; rewrite Hc; exact (proj1 Q1)|right; rewrite X; exact Hc].
Qed.

Lemma oeb_UL_fire_end : forall C (f1 f2 : MW unit) s t, oeb_dp f2 -> f1 t = Ok tt t -> oeb_Q s t -> oeb_UL C f1 f2 s t.
Proof.
  intros C f1 f2 s t Hd E1 Q. pose proof (oeb_Q_dp _ f2 s t Hd Q) as Q1. unfold oeb_UL. rewrite E1.
  destruct (f2 s) as [[] s1|e s1]; cbn [state_of] in Q1 |- *.
  - exists t. split; [reflexivity|split; [exact Q1|apply oeb_T_refl]].
  - left. exact (proj1 Q1).
Qed.

Lemma oeb_E_release : forall b s, oe_E (release_bit b s) = oe_E s.
Proof. intros b s. unfold release_bit. destruct (lock_unlock (w_lock s) b); reflexivity. Qed.

(** [l <- lockM ;; with_deferred_unlock l body ;;; unlockM l] *)
Lemma oeb_U_deferred : forall (C : W -> Prop) (body1 body2 : MW unit) s t, oeb_Q s t -> C (oe_E s) -> oeb_bit t -> is_locked t = false ->
  (forall L s1, oeb_Q s1 (t <| w_lock := L |>) -> oeb_UL C body1 body2 s1 (t <| w_lock := L |>)) ->
  oeb_U C (l <- lockM ;; with_deferred_unlock l body1 ;;; unlockM l) (l <- lockM ;; with_deferred_unlock l body2 ;;; unlockM l) s t.
Proof.
  intros C body1 body2 s t Q Cs Bt Lt Hk.
  unfold oeb_bit in Bt.
  destruct (lock_lock (w_lock s)) as [[l2 ls]|] eqn:LLs.
  2:{ assert (E2 : lockM s = Err EBits s) by (unfold lockM, bind, get; rewrite LLs; reflexivity).
      unfold oeb_U. rewrite (sa_bind_err E2). right. exact Cs. }
  destruct (lock_lock (w_lock t)) as [[l1 lt]|] eqn:LLt; [|congruence].
  assert (E2 : lockM s = Ok l2 (s <| w_lock := ls |>)) by (unfold lockM, bind, get; rewrite LLs; reflexivity).
  assert (E1 : lockM t = Ok l1 (t <| w_lock := lt |>)) by (unfold lockM, bind, get; rewrite LLt; reflexivity).
  set (s1 := s <| w_lock := ls |>) in *. set (t1 := t <| w_lock := lt |>) in *.
  assert (Q1 : oeb_Q s1 t1) by (destruct Q as (E & L); split; [exact E|exact L]).
  pose proof (bo_lock_cycle t l1 lt Lt LLt) as LU.
  specialize (Hk lt s1 Q1). fold t1 in Hk.
  unfold oeb_U. rewrite (sa_bind_ok E2), (sa_bind_ok E1). unfold oeb_UL in Hk.
  unfold bind at 1. unfold with_deferred_unlock at 1, on_err at 1.
  destruct (body2 s1) as [[] s2|e s2].
  - destruct Hk as (t2 & Eb & Q2 & (Tl & _)).
    assert (Eb' : with_deferred_unlock l1 body1 t1 = Ok tt t2) by (apply bo_deferred_ok; exact Eb).
    rewrite (sa_bind_ok Eb').
    assert (Hu : exists t3, unlockM l1 t2 = Ok tt t3).
    { eexists. unfold unlockM, bind, get. rewrite Tl. change (w_lock t1) with lt. rewrite LU. reflexivity. }
    pose proof (oeb_U_unlock C true true l1 l2 s2 t2 Q2 (fun _ => Hu)) as HU. unfold oeb_U in HU. cbn [whenM] in HU. exact HU.
  - rewrite oeb_E_release. destruct Hk as [Hk|Hk]; [left|right; exact Hk]. rewrite Hk.
    unfold bind. unfold with_deferred_unlock, on_err. destruct (body1 t1) as [[] t2|e1 t2]; cbn [state_of].
    + symmetry. apply (oe_E_sp _ (unlockM l1) t2 (sa_sp_unlockM l1)).
    + symmetry. apply oeb_E_release.
Qed.

Lemma oeb_eqv_mapM : forall A B (l : list A) (f : A -> MW B), (forall a, oeb_eqv (f a)) -> oeb_eqv (mapM l f).
Proof.
  intros A B l f H. induction l as [|x l IH]; cbn [mapM]; [apply oeb_eqv_ret|].
  apply oeb_eqv_bind; [apply H|]. intros y. apply oeb_eqv_bind; [exact IH|]. intros ys. apply oeb_eqv_ret.
Qed.

(** ** storage pieces *)
Lemma oe_hom_collect : forall add rem rels tabs acc rr, oe_hom (bo_collect add rem rels tabs acc rr) (bo_collect add rem rels tabs acc rr).
Proof.
  intros add rem rels tabs. induction tabs as [|tid rest IH]; intros acc rr; cbn [bo_collect]; [apply oe_hom_ret; reflexivity|].
  apply oe_hom_bind; [apply oe_hom_getT|]. intros t. destruct (Nat.eqb (t_len t) 0); [apply IH|].
  apply oe_hom_bind; [apply oe_hom_arch_mask|]. intros om.
  apply oe_hom_bind; [apply oe_hom_find_exchange|]. intros [[[ntid x] y] removed]. apply IH.
Qed.
Lemma oeb_sdp_collect : forall add rem rels tabs acc rr, r2ol_sdp (bo_collect add rem rels tabs acc rr).
Proof.
  intros add rem rels tabs. induction tabs as [|tid rest IH]; intros acc rr s0; cbn [bo_collect]; [apply r2ol_sdf_ro, readonly_ret|].
  apply r2ol_sdf_bind; [apply r2ol_sdf_ro, readonly_getT|]. intros t. destruct (Nat.eqb (t_len t) 0); [apply IH|].
  apply r2ol_sdf_bind; [apply r2ol_sdf_ro, sc_ro_arch_mask|]. intros om.
  apply r2ol_sdf_bind; [apply r2ol_sdf_find_exchange|]. intros [[[ntid x] y] removed]. apply IH.
Qed.
Lemma oe_hom_exchange_table : forall otid ntid rels, oe_hom (exchange_table otid ntid rels) (exchange_table otid ntid rels).
Proof. intros. unfold exchange_table. oe_auto. Qed.
Lemma oeb_sdp_exchange_table : forall otid ntid rels, r2ol_sdp (exchange_table otid ntid rels).
Proof. intros otid ntid rels s0. unfold exchange_table. r2ol_sd_auto. Qed.
Lemma oe_hom_plan : forall otid rels, oe_hom (set_relations_plan otid rels) (set_relations_plan otid rels).
Proof. intros. unfold set_relations_plan. oe_auto. Qed.
Lemma oeb_sdp_plan : forall otid rels, r2ol_sdp (set_relations_plan otid rels).
Proof. intros otid rels s0. unfold set_relations_plan. r2ol_sd_auto. Qed.

Lemma oeb_eqv_collect : forall add rem rels tabs acc rr, oeb_eqv (bo_collect add rem rels tabs acc rr).
Proof. intros. apply oeb_eqv_hom; [apply oe_hom_collect|apply oeb_sdp_collect]. Qed.
Lemma oeb_eqv_plan : forall otid rels, oeb_eqv (set_relations_plan otid rels).
Proof. intros. apply oeb_eqv_hom; [apply oe_hom_plan|apply oeb_sdp_plan]. Qed.
Lemma oeb_eqv_register_targets : forall rels, oeb_eqv (register_targets rels).
Proof. intros. apply oeb_eqv_hom; [apply oe_hom_register_targets|intros s0; apply r2ol_sdf_register_targets]. Qed.

Lemma oeb_eqv_mbody : forall rels vals b, oeb_eqv (r2x_mbody rels vals b).
Proof.
  intros rels vals [[otid ntid] len]. unfold r2x_mbody.
  apply oeb_eqv_bind; [apply oeb_eqv_hom; [apply oe_hom_exchange_table|apply oeb_sdp_exchange_table]|]. intros [start n].
  apply oeb_eqv_bind; [apply oeb_eqv_forM; intros i; apply oeb_eqv_batch_callback|]. intros _. apply oeb_eqv_ret.
Qed.
Lemma oeb_eqv_move : forall p, oeb_eqv (set_relations_move p).
Proof.
  intros [[[otid ntid] len] cm]. unfold set_relations_move.
  apply oeb_eqv_bind; [apply oeb_eqv_getT|]. intros nt. cbv zeta.
  apply oeb_eqv_bind; [apply oeb_eqv_hom; [apply oe_hom_move_entities|intros s0; apply r2ol_sdf_move_entities]|]. intros _.
  apply oeb_eqv_bind; [apply oeb_eqv_forM; intros i; apply oeb_eqv_batch_callback|]. intros _. apply oeb_eqv_ret.
Qed.

(** ** the event passes are dispatches *)
Lemma oeb_dp_get : oeb_dp (@get W).
Proof. apply oeb_dp_ro, readonly_get. Qed.

Lemma oeb_dp_pre_events : forall rem bs rr, oeb_dp (bo_pre_events rem bs rr).
Proof.
  intros rem bs rr. unfold bo_pre_events. apply oeb_dp_whenM.
  apply oeb_dp_bind; [apply oeb_dp_get|]. intros s0.
  apply oeb_dp_bind.
  { apply oeb_dp_whenM, oeb_dp_forM. intros [[otid ntid] len].
    apply oeb_dp_bind; [apply oeb_dp_ro, sc_ro_arch_mask|]. intros om. apply oeb_dp_bind; [apply oeb_dp_ro, sc_ro_arch_mask|]. intros nm.
    apply oeb_dp_bind; [apply oeb_dp_ro, r2h_ro_rows_of|]. intros es. apply oeb_dp_fire_rows. intros e b. unfold fire_remove. apply oeb_dp_fire. }
  intros _. apply oeb_dp_bind; [apply oeb_dp_get|]. intros s1.
  apply oeb_dp_whenM, oeb_dp_forM. intros [[otid ntid] len].
  apply oeb_dp_bind; [apply oeb_dp_ro, sc_ro_arch_mask|]. intros om. apply oeb_dp_bind; [apply oeb_dp_ro, sc_ro_arch_mask|]. intros nm.
  apply oeb_dp_bind; [apply oeb_dp_ro, r2h_ro_rows_of|]. intros es. apply oeb_dp_fire_rows. intros e b. unfold fire_remove. apply oeb_dp_fire.
Qed.

Lemma oeb_dp_post_events : forall add rels mv, oeb_dp (bo_post_events add rels mv).
Proof.
  intros add rels mv. unfold bo_post_events. apply oeb_dp_whenM.
  apply oeb_dp_bind; [apply oeb_dp_get|]. intros s0.
  apply oeb_dp_bind.
  { apply oeb_dp_whenM, oeb_dp_forM. intros [[[otid ntid] start] len].
    apply oeb_dp_bind; [apply oeb_dp_ro, sc_ro_arch_mask|]. intros om. apply oeb_dp_bind; [apply oeb_dp_ro, sc_ro_arch_mask|]. intros nm.
    apply oeb_dp_bind; [apply oeb_dp_ro, r2h_ro_rows_of|]. intros es. apply oeb_dp_fire_rows. intros e b. unfold fire_add. apply oeb_dp_fire. }
  intros _. apply oeb_dp_bind; [apply oeb_dp_get|]. intros s1.
  apply oeb_dp_whenM, oeb_dp_forM. intros [[[otid ntid] start] len].
  apply oeb_dp_bind; [apply oeb_dp_ro, sc_ro_arch_mask|]. intros om. apply oeb_dp_bind; [apply oeb_dp_ro, sc_ro_arch_mask|]. intros nm.
  apply oeb_dp_bind; [apply oeb_dp_ro, r2h_ro_rows_of|]. intros es. apply oeb_dp_fire_rows. intros e b. unfold fire_add. apply oeb_dp_fire.
Qed.

Lemma oeb_dp_fire_removes : forall plans, oeb_dp (set_relations_fire_removes plans).
Proof.
  intros plans. unfold set_relations_fire_removes. apply oeb_dp_forM. intros [[[otid ntid] len] cm].
  apply oeb_dp_bind; [apply oeb_dp_ro, readonly_getT|]. intros ot. apply oeb_dp_bind; [apply oeb_dp_ro, sc_ro_arch_mask|]. intros nm.
  apply oeb_dp_fire_rows. intros e b. unfold fire_set. apply oeb_dp_fire.
Qed.
Lemma oeb_dp_fire_adds : forall moved, oeb_dp (set_relations_fire_adds moved).
Proof.
  intros moved. unfold set_relations_fire_adds. apply oeb_dp_forM. intros [[[ntid start] len] cm].
  apply oeb_dp_bind; [apply oeb_dp_ro, sc_ro_arch_mask|]. intros nm. apply oeb_dp_bind; [apply oeb_dp_ro, r2h_ro_rows_of|]. intros es.
  apply oeb_dp_fire_rows. intros e b. unfold fire_set. apply oeb_dp_fire.
Qed.

Lemma oeb_noobs_nil : forall t, w_oagg t = [] -> r2e_noobs t.
Proof. intros t H ev. apply oeb_has_obs_nil. exact H. Qed.

(** ** ExchangeBatch *)

(** the planning phase (the selected tables, the destination tables found or created) *)
Definition oeb_xpre (fi : nat) (brels : list rel) (add rem : list nat) (rels : list rel) : MW unit :=
  tables <- get_batch_tables fi brels ;; bt <- bo_collect add rem rels tables [] false ;; ret tt.

(** the cut state of ExchangeBatch: the erasure of the (locked) erased world after the planning phase *)
Definition oeb_cut_x (fi : nat) (brels : list rel) (add rem : list nat) (rels : list rel) (t : W) : W -> Prop :=
  fun v => v = oe_E t \/ exists L, v = oe_E (state_of (oeb_xpre fi brels add rem rels (t <| w_lock := L |>))).

Theorem oeb_w_exchange_batch : forall fi brels add rem rels vals s t, oeb_Q s t -> is_locked s = false -> is_locked t = false ->
  oeb_bit t -> w_oagg t = [] ->
  oeb_U (oeb_cut_x fi brels add rem rels t) (w_exchange_batch fi brels add rem rels vals) (w_exchange_batch fi brels add rem rels vals) s t.
Proof.
  intros fi brels add rem rels vals s t Q Ls Lt Bt Ho. rewrite r2x_exchange_batch_eq.
  apply oeb_U_check; [exact Ls|exact Lt|].
  destruct (negb (is_nil add && is_nil rem)) eqn:G.
  2:{ unfold oeb_U. rewrite !sb2_bind_guard_false. cbn [state_of]. left. exact (proj1 Q). }
  unfold oeb_U. rewrite !sb2_bind_guard_true. fold (oeb_U (oeb_cut_x fi brels add rem rels t)
    (l <- lockM ;; with_deferred_unlock l (r2x_xbody fi brels add rem rels vals) ;;; unlockM l)
    (l <- lockM ;; with_deferred_unlock l (r2x_xbody fi brels add rem rels vals) ;;; unlockM l) s t).
  apply oeb_U_deferred; [exact Q|left; exact (proj1 Q)|exact Bt|exact Lt|]. intros L s1 Q1. set (t1 := t <| w_lock := L |>) in *.
  assert (Ho1 : w_oagg t1 = []) by exact Ho.
  unfold r2x_xbody.
  apply oeb_UL_bind_P; [apply oeb_eqv_get_batch_tables; exact Q1|]. intros tables s2 t2 E2 Q2 T2.
  apply oeb_UL_bind_P; [apply oeb_eqv_collect; exact Q2|]. intros [batches rr] s3 t3 E3 Q3 T3.
  assert (Ho3 : w_oagg t3 = []) by (rewrite (proj2 T3), (proj2 T2); exact Ho1).
  apply oeb_UL_fire; [apply oeb_dp_pre_events|apply r2x_pre_events_skip, oeb_noobs_nil; exact Ho3|exact Q3| |].
  { right. right. exists L. fold t1. unfold oeb_xpre. rewrite (sa_bind_ok E2), (sa_bind_ok E3). cbn [state_of ret]. exact (proj1 Q3). }
  intros s4 Q4.
  apply oeb_UL_bind_P; [apply oeb_eqv_mapM; [intros b; apply oeb_eqv_mbody|exact Q4]|]. intros moved s5 t5 E5 Q5 T5.
  apply oeb_UL_fire_end; [apply oeb_dp_post_events| |exact Q5].
  apply r2x_post_events_skip, oeb_noobs_nil. rewrite (proj2 T5). exact Ho3.
Qed.

(** ** SetRelationsBatch *)
Definition oeb_spre1 (fi : nat) (brels rels : list rel) : MW unit :=
  tables <- get_batch_tables fi brels ;; plans <- mapM tables (fun tid => set_relations_plan tid rels) ;; ret tt.
Definition oeb_spre2 (fi : nat) (brels rels : list rel) : MW unit :=
  tables <- get_batch_tables fi brels ;; plans <- mapM tables (fun tid => set_relations_plan tid rels) ;;
  moved <- mapM (opt_list plans) set_relations_move ;; ret tt.

(** the cut states of SetRelationsBatch: after the planning phase (removal pass), after the moves and before the target
    registration (add pass) *)
Definition oeb_cut_s (fi : nat) (brels rels : list rel) (t : W) : W -> Prop :=
  fun v => v = oe_E t \/ exists L, v = oe_E (state_of (oeb_spre1 fi brels rels (t <| w_lock := L |>))) \/
                     v = oe_E (state_of (oeb_spre2 fi brels rels (t <| w_lock := L |>))).

Theorem oeb_w_set_relations_batch : forall fi brels rels s t, oeb_Q s t -> is_locked s = false -> is_locked t = false ->
  oeb_bit t -> w_oagg t = [] ->
  oeb_U (oeb_cut_s fi brels rels t) (w_set_relations_batch fi brels rels) (w_set_relations_batch fi brels rels) s t.
Proof.
  intros fi brels rels s t Q Ls Lt Bt Ho. rewrite r2s_batch_unfold.
  apply oeb_U_check; [exact Ls|exact Lt|].
  destruct (negb (is_nil rels)) eqn:G.
  2:{ unfold oeb_U. rewrite !sb2_bind_guard_false. cbn [state_of]. left. exact (proj1 Q). }
  unfold oeb_U. rewrite !sb2_bind_guard_true. fold (oeb_U (oeb_cut_s fi brels rels t)
    (l <- lockM ;; with_deferred_unlock l (r2s_batch_body fi brels rels) ;;; unlockM l)
    (l <- lockM ;; with_deferred_unlock l (r2s_batch_body fi brels rels) ;;; unlockM l) s t).
  apply oeb_U_deferred; [exact Q|left; exact (proj1 Q)|exact Bt|exact Lt|]. intros L s1 Q1. set (t1 := t <| w_lock := L |>) in *.
  assert (Ho1 : w_oagg t1 = []) by exact Ho.
  unfold r2s_batch_body. apply oeb_UL_getbind. cbv zeta.
  rewrite (oeb_has_obs_nil t1 EvRemoveRelations Ho1), (oeb_has_obs_nil t1 EvAddRelations Ho1).
  apply oeb_UL_bind_P; [apply oeb_eqv_get_batch_tables; exact Q1|]. intros tables s2 t2 E2 Q2 T2.
  apply oeb_UL_bind_P; [apply oeb_eqv_mapM; [intros tid; apply oeb_eqv_plan|exact Q2]|]. intros plans s3 t3 E3 Q3 T3.
  apply oeb_UL_fire; [apply oeb_dp_whenM, oeb_dp_fire_removes|reflexivity|exact Q3| |].
  { right. right. exists L. left. fold t1. unfold oeb_spre1. rewrite (sa_bind_ok E2), (sa_bind_ok E3). cbn [state_of ret]. exact (proj1 Q3). }
  intros s4 Q4.
  apply oeb_UL_bind_P; [apply oeb_eqv_mapM; [intros p; apply oeb_eqv_move|exact Q4]|]. intros moved s5 t5 E5 Q5 T5.
  apply oeb_UL_fire; [apply oeb_dp_whenM, oeb_dp_fire_adds|reflexivity|exact Q5| |].
  { right. right. exists L. right. fold t1. unfold oeb_spre2. rewrite (sa_bind_ok E2), (sa_bind_ok E3), (sa_bind_ok E5). cbn [state_of ret]. exact (proj1 Q5). }
  intros s6 Q6. apply oeb_UL_of_P. apply oeb_eqv_register_targets. exact Q6.
Qed.

(* ================================================================================================ *)
(** * Part 7: all five batch operations *)

Lemma oeb_U_weaken : forall (C C' : W -> Prop) m1 m2 s t, (forall v, C v -> C' v) -> oeb_U C m1 m2 s t -> oeb_U C' m1 m2 s t.
Proof.
  intros C C' m1 m2 s t H HU. unfold oeb_U in *. destruct (m2 s) as [[] s'|e s']; [exact HU|].
  destruct HU as [HU|HU]; [left; exact HU|right; apply H; exact HU].
Qed.

Lemma oeb_R_bind_ro' : forall A C (m : MW A) (k : A -> MW (list Z)) s t, oeb_eqv m -> readonly m -> oeb_Q s t ->
  (forall a, m t = Ok a t -> oeb_R C (k a s) (k a t)) -> oeb_R C (bind m k s) (bind m k t).
Proof.
  intros A C m k s t Hm Hro Q Hk. specialize (Hm s t Q). unfold oeb_P in Hm. pose proof (Hro s) as Rs. pose proof (Hro t) as Rt.
  unfold bind. destruct (m s) as [a s1|e s1]; destruct Hm as (t1 & E & Q1 & _); rewrite E in *; cbn [state_of] in Rs, Rt; subst s1 t1.
  - apply Hk. reflexivity.
  - cbn [oeb_R state_of]. left. exact (proj1 Q).
Qed.

(** the named cut states of an operation, relative to the erased world [t] it starts in *)
Definition oeb_cut (o : op) (t : W) : W -> Prop :=
  match o with
  | ONewEntities n _ => oeb_cut_n n t
  | ONewBatch n ids hrels vals _ => fun v => exists rels, resolveR hrels t = Ok rels t /\ oeb_cut_nb n ids rels t v
  | ORemoveEntities _ _ _ => fun v => v = oe_E t
  | OExchangeBatch f hbrels add rem hrels vals => fun v =>
      exists brels rels br, resolveR hbrels t = Ok brels t /\ resolveR hrels t = Ok rels t /\ batch_rels f brels t = Ok br t /\
                            to_relations (mk_of_list add) rels t = Ok tt t /\ oeb_cut_x f br add rem rels t v
  | OSetRelBatch f hbrels mids hrels => fun v =>
      exists brels rels br, resolveR hbrels t = Ok brels t /\ resolveR hrels t = Ok rels t /\ batch_rels f brels t = Ok br t /\
                            to_relations (mk_of_list mids) rels t = Ok tt t /\ oeb_cut_s f br rels t v
  | _ => fun _ => False
  end.

Theorem oeb_step_op_all : forall debug o s t, r2h_batch_op o = true -> oeb_Q s t -> is_locked s = false -> is_locked t = false ->
  oeb_bit t -> w_oagg t = [] ->
  oeb_R (oeb_cut o t) (step_op debug o s) (step_op debug o t).
Proof.
  intros debug o s t Ho Q Ls Lt Bt Hg. destruct o; try discriminate Ho; cbn [step_op oeb_cut].
  - apply oeb_R_ret. apply (oeb_w_new_entities n (negb nofn) s t Q Ls Lt Bt Hg).
  - apply oeb_R_bind_ro; [apply oeb_eqv_resolveR|apply readonly_resolveR|exact Q|]. intros brels0.
    apply oeb_R_bind_ro; [apply oeb_eqv_batch_rels|apply readonly_batch_rels|exact Q|]. intros br.
    apply oeb_R_ret. apply (oeb_U_weaken (fun v => v = oe_E s)); [intros v ->; exact (proj1 Q)|].
    apply (oeb_w_remove_entities f br (negb nofn) s t Q Ls Lt Bt Hg).
  - apply oeb_R_bind_ro'; [apply oeb_eqv_resolveR|apply readonly_resolveR|exact Q|]. intros rels0 E1.
    apply oeb_R_ret. apply (oeb_U_weaken (oeb_cut_nb n ids rels0 t)).
    { intros v Hv. exists rels0. split; assumption. }
    apply (oeb_w_new_batch n ids rels0 vals (negb nofn) s t Q Ls Lt Bt Hg).
  - apply oeb_R_bind_ro'; [apply oeb_eqv_resolveR|apply readonly_resolveR|exact Q|]. intros brels0 E1.
    apply oeb_R_bind_ro'; [apply oeb_eqv_resolveR|apply readonly_resolveR|exact Q|]. intros rels0 E2.
    apply oeb_R_bind_ro'; [apply oeb_eqv_batch_rels|apply readonly_batch_rels|exact Q|]. intros br E3.
    apply oeb_R_bind_ro'; [apply oeb_eqv_to_relations|apply readonly_to_relations|exact Q|]. intros [] E4.
    apply oeb_R_ret. apply (oeb_U_weaken (oeb_cut_x f br add rem rels0 t)).
    { intros v Hv. exists brels0, rels0, br. repeat (split; [assumption|]). exact Hv. }
    apply (oeb_w_exchange_batch f br add rem rels0 vals s t Q Ls Lt Bt Hg).
  - apply oeb_R_bind_ro'; [apply oeb_eqv_resolveR|apply readonly_resolveR|exact Q|]. intros brels0 E1.
    apply oeb_R_bind_ro'; [apply oeb_eqv_resolveR|apply readonly_resolveR|exact Q|]. intros rels0 E2.
    apply oeb_R_bind_ro'; [apply oeb_eqv_batch_rels|apply readonly_batch_rels|exact Q|]. intros br E3.
    apply oeb_R_bind_ro'; [apply oeb_eqv_to_relations|apply readonly_to_relations|exact Q|]. intros [] E4.
    apply oeb_R_ret. apply (oeb_U_weaken (oeb_cut_s f br rels0 t)).
    { intros v Hv. exists brels0, rels0, br. repeat (split; [assumption|]). exact Hv. }
    apply (oeb_w_set_relations_batch f br rels0 s t Q Ls Lt Bt Hg).
Qed.

(** The step, for every batch operation: the storage after the real step is the storage after the step of the erased
    world, or (a callback failed after the last storage change) the storage the erased operation ends in, or (a callback
    failed earlier) a named cut state of the erased run. *)
Theorem oeb_step_all : forall debug wd s line o, decode_op line = Some o -> r2h_batch_op o = true -> is_locked s = false ->
  let s' := fst (step debug wd s line) in
  let t0 := oe_E s <| w_log := [] |> in
  let r := step_op debug o t0 in
  oe_E s' = oe_E (fst (step debug wd (oe_E s) line)) \/ oe_E s' = oe_E (state_of r) \/ oeb_cut o t0 (oe_E s').
Proof.
  intros debug wd s line o Hd Hb Ls. cbv zeta.
  rewrite (r2h_step_state debug wd s line o Hd Hb), (r2h_step_state debug wd (oe_E s) line o Hd Hb). cbv zeta.
  set (s0 := s <| w_log := [] |>). set (t0 := oe_E s <| w_log := [] |>).
  assert (Q : oeb_Q s0 t0) by (split; reflexivity).
  pose proof (oeb_step_op_all debug o s0 t0 Hb Q Ls eq_refl (oeb_bit_new s) eq_refl) as H.
  unfold oeb_R in H. destruct (step_op debug o s0) as [v s1|e s1].
  - destruct H as (t1 & E & (Q1 & L1)). rewrite E. cbn [is_err negb state_of]. rewrite Bool.andb_true_r. left.
    destruct (issues_from_log o).
    + rewrite L1. change (oe_E s1 <| w_issued ::= fun l => l ++ logged_entities (w_log t1) |> = oe_E t1 <| w_issued ::= fun l => l ++ logged_entities (w_log t1) |>).
      rewrite Q1. reflexivity.
    + exact Q1.
  - cbn [is_err negb state_of]. rewrite Bool.andb_false_r. destruct H as [H|H].
    + right. left. exact H.
    + right. right. exact H.
Qed.

(** the cut states of NewEntities / NewBatch are the final states of the same operation WITHOUT callback on the erased world *)
Lemma oeb_new_entities_quiet : forall cnt t, is_locked t = false -> r2e_noobs t ->
  state_of (w_new_entities cnt false t) = state_of (new_entities cnt [] [] t).
Proof.
  intros cnt t Hl Hn. unfold w_new_entities. rewrite (sa_bind_ok (sb1_check_locked_ok t Hl)). unfold bind at 1.
  pose proof (r2u_sl_new_entities cnt [] [] t) as (_ & Eo).
  destruct (new_entities cnt [] [] t) as [[tid start] t1|e t1]; cbn [state_of] in *; [|reflexivity].
  unfold bind at 1. unfold get at 1. cbv zeta. rewrite (bo_has_obs_side t t1 EvCreateEntity Eo), (Hn EvCreateEntity). reflexivity.
Qed.

Lemma oeb_new_batch_quiet : forall cnt ids rels vals t, is_locked t = false -> r2e_noobs t ->
  state_of (w_new_batch cnt ids rels vals false t) = state_of ((to_relations (mk_of_list ids) rels ;;; new_entities cnt ids rels) t).
Proof.
  intros cnt ids rels vals t Hl Hn. unfold w_new_batch. rewrite (sa_bind_ok (sb1_check_locked_ok t Hl)).
  pose proof (readonly_to_relations (mk_of_list ids) rels t) as Hro.
  destruct (to_relations (mk_of_list ids) rels t) as [[] t0|e t0] eqn:Er; cbn [state_of] in Hro; subst t0.
  2:{ rewrite !(sa_bind_err Er). reflexivity. }
  rewrite !(sa_bind_ok Er). unfold bind at 1.
  pose proof (r2u_sl_new_entities cnt ids rels t) as (_ & Eo).
  destruct (new_entities cnt ids rels t) as [[tid start] t1|e t1]; cbn [state_of] in *; [|reflexivity].
  unfold bind at 1. unfold get at 1. cbv zeta.
  rewrite (bo_has_obs_side t t1 EvCreateEntity Eo), (Hn EvCreateEntity), (bo_has_obs_side t t1 EvAddRelations Eo), (Hn EvAddRelations), Bool.andb_false_r.
  cbn [orb whenM]. rewrite (sa_bind_ok (m := ret 0) (s := t1) eq_refl). rewrite (sa_bind_ok (m := ret tt) (s := t1) eq_refl).
  pose proof (r2h_ro_rows_of tid start cnt t1) as Hr.
  destruct (rows_of tid start cnt t1) as [es t2|e t2] eqn:Ew; cbn [state_of] in Hr; subst t2.
  - rewrite (sa_bind_ok Ew). reflexivity.
  - rewrite (sa_bind_err Ew). reflexivity.
Qed.

Definition oeb_all :=
  (oeb_eqv_hom, oeb_eqv_batch_callback, oeb_U_fire, oeb_U_lock, oeb_U_unlock, oeb_U_deferred, oeb_w_new_entities, oeb_w_new_batch,
   oeb_w_remove_entities, oeb_w_exchange_batch, oeb_w_set_relations_batch, oeb_step_op_all, oeb_step_all).
Print Assumptions oeb_all.
