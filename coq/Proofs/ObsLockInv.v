(** * ObsLockInv: the observer manager and the lock while CALLBACKS run. Helper prefix [ol_].

    Proofs/ObsProofs.v proves the manager invariant [MInv] over histories of Register / Unregister / Reset that
    start from observer objects satisfying [obs_init] (in particular: the For-list of an observer of a relation
    event names relation components). The script-level model creates ARBITRARY observer objects (OObsNew), and
    [add_observer] assigns the id BEFORE it checks the For-list: a rejected registration leaves an object with
    an id that is in no list ([StatsProofs.stats_observers_registered_refuted]). So the clauses [mi_idl] ("an
    object with an id is in the list of its event") and [mi_rel] of [MInv0] fail for raw model histories.

    This file isolates the part of the manager invariant that IS preserved by every manager operation in BOTH
    outcomes, for arbitrary observer objects,

      [MInvO s]: a member of an event list is an existing observer object of that event carrying an id
                 ([mo_lst]); no list has duplicates ([mo_nd]); the keys of the list map are distinct ([mo_keys]);
                 the figure [w_ototal] is the total length of the lists ([mo_total]),

    and shows that it suffices for "[remove_observer] on a member of an observer list succeeds" ([ol_rem_ok]) - the only
    manager call a callback issues ([run_callback], [o_cb >= 1]). The WEAKEST invariant with that property is the sub-invariant
    [MCore] of Part 7 (members exist; a member of the list of its own event carries an id; no duplicates): preserved
    ([ol_add_inv_core], [ol_rem_inv_core]), sufficient ([ol_rem_ok_core]), each clause necessary. [MInvO] adds what the
    Stats figure needs.

    With the lock invariant of LockProofs for a ghost set [held] of held bits ([ol_SI held s]) it gives:
    - [ol_run_callback]: with fewer than 64 bits held and a snapshot available for the entity, a callback of an
      existing observer object RETURNS, in a state with the same storage, the same held bits and [MInvO];
    - [ol_fire_loop], [ol_fire]: so does every dispatch; [ol_fire_remove_events] and the other dispatch helpers
      of the single-entity operations (which take one more bit around the removal events);
    - [ol_run_callback_full]: with all 64 bits held a callback fails at once, the state untouched.

    Nothing here depends on a storage invariant; the storage fact a callback needs ([BatchView.bv_snap_ok]: the
    entity, if the pool calls it alive, has a row) is a hypothesis. *)
From Ark Require Import Model.Base Model.Mask Model.Pool Model.Util Model.World Model.Run.
From Ark Require Import Proofs.TableProofs Proofs.Hoare Proofs.StorageA Proofs.StorageB_sb2 Proofs.LockWorld Proofs.Rel2Hist Proofs.ObsErase.
From Ark Require Proofs.ObsProofs Proofs.BatchView Proofs.ViewProofs Proofs.LockProofs Proofs.LockSpec.
From RecordUpdate Require Import RecordSet.
Import RecordSetNotations.
From Coq Require Import Lia Permutation.
Close Scope Z_scope.

Local Notation obj := ObsProofs.obj.
Local Notation lsum := ObsProofs.lsum.
Local Notation bv_lock_ok := BatchView.bv_lock_ok.
Local Notation bv_snap_ok := BatchView.bv_snap_ok.

(* ================================================================================================ *)
(** * Part 1: the invariant *)

Record MInvO (s : W) : Prop := {
  mo_lst : forall evt oi, In oi (olist s evt) -> exists o, obj s oi = Some o /\ o_event o = evt /\ o_id o <> None;
  mo_nd : forall evt, NoDup (olist s evt);
  mo_keys : NoDup (map fst (w_olists s));
  mo_total : w_ototal s = lsum (w_olists s)
}.

Lemma ol_MInvO_ext : forall s s', w_obs s' = w_obs s -> w_olists s' = w_olists s -> w_ototal s' = w_ototal s ->
  MInvO s -> MInvO s'.
Proof.
  intros s s' E1 E2 E3 [H1 H2 H3 H4]. constructor; unfold obj, olist in *; rewrite ?E1, ?E2, ?E3; assumption.
Qed.

(** [MInv] of ObsProofs is stronger. *)
Lemma ol_MInvO_of_MInv : forall s, ObsProofs.MInv s -> MInvO s.
Proof.
  intros s (HI & HT). constructor.
  - intros evt oi Hin. destruct (ObsProofs.mi_lst _ HI evt oi Hin) as (o & Ho & He & Hid & _). exists o. auto.
  - apply (ObsProofs.mi_nd _ HI).
  - apply (ObsProofs.mi_keys _ HI).
  - exact HT.
Qed.

Lemma ol_MInvO_init : forall s, w_obs s = [] -> w_olists s = [] -> w_ototal s = 0 -> MInvO s.
Proof.
  intros s E1 E2 E3. constructor; unfold olist; rewrite ?E2, ?E3.
  - intros evt oi [].
  - intros evt. constructor.
  - constructor.
  - reflexivity.
Qed.

(** a member of a list is in no other list, and its object carries an id *)
Lemma ol_member : forall s evt oi o, MInvO s -> In oi (olist s evt) -> obj s oi = Some o -> o_event o = evt /\ o_id o <> None.
Proof.
  intros s evt oi o HM Hin Ho. destruct (mo_lst _ HM evt oi Hin) as (o' & Ho' & He & Hid).
  rewrite Ho in Ho'. injection Ho' as <-. split; assumption.
Qed.

Lemma ol_noid_notin : forall s oi o, MInvO s -> obj s oi = Some o -> o_id o = None -> forall evt, ~ In oi (olist s evt).
Proof. intros s oi o HM Ho Hid evt Hin. destruct (ol_member s evt oi o HM Hin Ho) as (_ & H). congruence. Qed.

(** the side invariant: the lock is well formed with exactly [held] held, and the manager invariant *)
Definition ol_SI (held : list nat) (s : W) : Prop := bv_lock_ok (w_lock s) held /\ MInvO s.

Lemma ol_SI_ext : forall held s s', w_lock s' = w_lock s -> w_obs s' = w_obs s -> w_olists s' = w_olists s ->
  w_ototal s' = w_ototal s -> ol_SI held s -> ol_SI held s'.
Proof. intros held s s' E0 E1 E2 E3 (H1 & H2). split; [rewrite E0; exact H1|apply (ol_MInvO_ext s s' E1 E2 E3 H2)]. Qed.

Lemma ol_SI_side : forall held s s', side_same s s' -> ol_SI held s -> ol_SI held s'.
Proof. intros held s s' (E1 & _ & E3 & E4 & _ & _ & E7 & _). apply ol_SI_ext; assumption. Qed.

(* ================================================================================================ *)
(** * Part 2: a frame for the manager operations: lock and number of observer objects *)

Definition ol_mf (s s' : W) : Prop := w_lock s' = w_lock s /\ length (w_obs s') = length (w_obs s).

Lemma ol_mf_refl : forall s, ol_mf s s.
Proof. intros s. split; reflexivity. Qed.
Lemma ol_mf_trans : forall s1 s2 s3, ol_mf s1 s2 -> ol_mf s2 s3 -> ol_mf s1 s3.
Proof. intros s1 s2 s3 (A1 & A2) (B1 & B2). split; congruence. Qed.

Definition ol_mfp {A} (m : MW A) : Prop := r2e_pres ol_mf m.

Lemma ol_mfp_ro : forall A (m : MW A), readonly m -> ol_mfp m.
Proof. intros A m H. apply (r2e_pres_ro ol_mf ol_mf_refl). exact H. Qed.
Lemma ol_mfp_bind : forall A B (m : MW A) (k : A -> MW B), ol_mfp m -> (forall a, ol_mfp (k a)) -> ol_mfp (bind m k).
Proof. intros A B m k. apply (r2e_pres_bind ol_mf ol_mf_trans). Qed.
Lemma ol_mfp_forM : forall A (l : list A) (f : A -> MW unit), (forall a, ol_mfp (f a)) -> ol_mfp (forM_ l f).
Proof. intros A l f. apply (r2e_pres_forM ol_mf ol_mf_refl ol_mf_trans). Qed.
Lemma ol_mfp_whenM : forall b m, ol_mfp m -> ol_mfp (whenM b m).
Proof. intros b m. apply (r2e_pres_whenM ol_mf ol_mf_refl). Qed.
Lemma ol_mfp_modO : forall oi f, ol_mfp (modO oi f).
Proof. intros oi f s. unfold modO, modify. cbn [state_of]. split; [reflexivity|]. cbn. apply updf_length. Qed.
Lemma ol_mfp_mod_agg : forall evt f, ol_mfp (mod_agg evt f).
Proof. intros evt f s. split; reflexivity. Qed.
Lemma ol_mfp_getO : forall oi, ol_mfp (getO oi).
Proof. intros oi. apply ol_mfp_ro. unfold getO. ro. Qed.
Lemma ol_mfp_log : forall l, ol_mfp (log l).
Proof. intros l s. split; reflexivity. Qed.

Ltac ol_mf_step :=
  lazymatch goal with
  | |- ol_mfp (let x := _ in _) => cbv zeta
  | |- ol_mfp (ret _) => apply ol_mfp_ro, readonly_ret
  | |- ol_mfp (fail _) => apply ol_mfp_ro, readonly_fail
  | |- ol_mfp get => apply ol_mfp_ro, readonly_get
  | |- ol_mfp (guard _ _) => apply ol_mfp_ro, readonly_guard
  | |- ol_mfp (of_opt _ _) => apply ol_mfp_ro, readonly_of_opt
  | |- ol_mfp (getO _) => apply ol_mfp_getO
  | |- ol_mfp (modO _ _) => apply ol_mfp_modO
  | |- ol_mfp (mod_agg _ _) => apply ol_mfp_mod_agg
  | |- ol_mfp (modify _) => let s := fresh "s" in intros s; split; reflexivity
  | |- ol_mfp (whenM _ _) => apply ol_mfp_whenM
  | |- ol_mfp (forM_ _ _) => apply ol_mfp_forM; intros ?
  | |- ol_mfp (bind _ _) => apply ol_mfp_bind; [|intros ?]
  | |- ol_mfp (let '(_, _) := ?x in _) => destruct x
  | |- ol_mfp (match ?x with _ => _ end) => destruct x
  | |- ol_mfp (if ?x then _ else _) => destruct x
  end.
Ltac ol_mf_tac := repeat ol_mf_step.

Lemma ol_mfp_remove_observer : forall oi, ol_mfp (remove_observer oi).
Proof. intros oi. unfold remove_observer. ol_mf_tac. Qed.

Lemma ol_mfp_add_observer : forall oi, ol_mfp (add_observer oi).
Proof.
  intros oi. unfold add_observer.
  apply ol_mfp_bind; [apply ol_mfp_getO|]. intros o. apply ol_mfp_bind; [ol_mf_tac|]. intros _.
  apply (r2e_pres_getbind ol_mf). intros s. destruct (ipool_get None (w_opool s)) as [[id p']|]; [|apply ol_mf_refl].
  unfold bind at 1, put.
  apply (ol_mf_trans s (s <| w_opool := p' |>)); [split; reflexivity|].
  match goal with |- ol_mf ?t (state_of (?m ?t)) => assert (X : ol_mfp m); [|apply X] end.
  ol_mf_tac.
Qed.

(* ================================================================================================ *)
(** * Part 3: [remove_observer] *)

(** the only ways [remove_observer] fails *)
Lemma ol_rem_err : forall oi s er s', remove_observer oi s = Err er s' ->
  obj s oi = None \/ (exists o, obj s oi = Some o /\ (o_id o = None \/ index_of oi (olist s (o_event o)) = None)).
Proof.
  intros oi s er s' E. unfold remove_observer in E.
  unfold bind at 1, getO at 1, bind at 1, get at 1 in E. cbv beta iota in E. fold (obj s oi) in E.
  destruct (obj s oi) as [o|] eqn:Eo; [|left; reflexivity]. right. exists o. split; [reflexivity|].
  cbn [of_opt ret] in E. unfold bind at 1 in E.
  destruct (o_id o) as [i|] eqn:Eid; [|left; reflexivity]. right. cbn [guard ret] in E.
  unfold bind at 1, get at 1 in E. cbv beta iota zeta in E. unfold bind at 1 in E.
  destruct (index_of oi (olist s (o_event o))) as [idx|] eqn:Eidx; [|reflexivity]. exfalso. cbn [of_opt ret] in E.
  revert E.
  match goal with |- ?m ?t = _ -> _ => assert (X : oe_total m) end.
  { apply oe_total_bind; [apply oe_total_modify|]. intros _.
    apply oe_total_bind; [apply oe_total_modify|]. intros _.
    apply oe_total_bind; [apply oe_total_modify|]. intros _.
    apply oe_total_getbind. intros s0.
    destruct (recompute_with _ _) as [aw nw]. unfold bind at 1. unfold mod_agg at 1, modify at 1.
    destruct (is_entity_event (o_event o)); [eexists _, _; reflexivity|].
    destruct (recompute_comps _ _) as [ac nc]. eexists _, _. reflexivity. }
  match goal with |- ?m ?t = _ -> _ => destruct (X t) as (a & s1 & ->) end. discriminate.
Qed.

(** [remove_observer] on a member of an observer list succeeds. *)
Theorem ol_rem_ok : forall s oi o, MInvO s -> obj s oi = Some o -> In oi (olist s (o_event o)) ->
  exists s', remove_observer oi s = Ok tt s'.
Proof.
  intros s oi o HM Ho Hin. destruct (remove_observer oi s) as [[] s'|er s'] eqn:E; [exists s'; reflexivity|]. exfalso.
  destruct (ol_rem_err oi s er s' E) as [Hn|(o' & Ho' & [Hid|Hidx])].
  - congruence.
  - rewrite Ho in Ho'. injection Ho' as <-. destruct (ol_member s _ oi o HM Hin Ho) as (_ & H). congruence.
  - rewrite Ho in Ho'. injection Ho' as <-. destruct (sb2_index_of_In oi _ Hin) as (i & Hi). congruence.
Qed.

(** [remove_observer] keeps the invariant, in both outcomes. *)
Theorem ol_rem_inv : forall s oi, MInvO s -> MInvO (state_of (remove_observer oi s)).
Proof.
  intros s oi HM.
  destruct (ObsProofs.rem_spec s oi) as [[e E] | (o & s' & l' & g' & E & Ho & Hid & Hperm & V & L & _ & _ & _ & _ & T & _ & _)];
    rewrite E; cbn [state_of]; [exact HM|].
  set (evt := o_event o) in *.
  assert (Hnd : NoDup (oi :: l')) by (eapply Permutation_NoDup; [exact Hperm|apply (mo_nd _ HM)]).
  inversion Hnd as [|? ? Hnotin Hnd']; subst.
  assert (Hsub : forall j, In j l' -> In j (olist s evt)).
  { intros j Hj. eapply Permutation_in; [symmetry; exact Hperm|]. right; exact Hj. }
  assert (Hoi : In oi (olist s evt)) by (eapply Permutation_in; [symmetry; exact Hperm|left; reflexivity]).
  pose proof (fun e => ObsProofs.olist_aset s s' evt _ e L) as OL. cbv beta in OL.
  assert (Hin' : forall e j, In j (olist s' e) -> j <> oi /\ In j (olist s e)).
  { intros e j Hin. rewrite OL in Hin. destruct (Nat.eqb_spec evt e) as [<-|Hne].
    - split; [intros ->; contradiction|apply Hsub; exact Hin].
    - split; [|exact Hin]. intros ->. destruct (ol_member s e oi o HM Hin Ho) as (He & _). unfold evt in Hne. congruence. }
  constructor.
  - intros e j Hin. destruct (Hin' e j Hin) as (Hne & Hin0). rewrite V.
    destruct (Nat.eqb_spec j oi) as [->|_]; [contradiction|]. apply (mo_lst _ HM e j Hin0).
  - intros e. rewrite OL. destruct (Nat.eqb evt e); [exact Hnd'|apply (mo_nd _ HM)].
  - rewrite L. apply ObsProofs.keys_aset_nodup. apply (mo_keys _ HM).
  - rewrite T, L, (mo_total _ HM). pose proof (ObsProofs.lsum_aset evt l' (w_olists s)) as H.
    pose proof (Permutation_length Hperm) as Hl. cbn [length] in Hl. unfold olist in Hl. unfold ObsProofs.aget in H. lia.
Qed.

(* ================================================================================================ *)
(** * Part 4: [add_observer]: the invariant is kept in both outcomes - also when the registration is rejected
    AFTER the id was assigned (a For-list naming a non-relation component for a relation event) *)

(** the mask-building phases only rewrite the object [oi], keeping its event and its id *)
Definition ol_ph (oi : nat) (s s' : W) : Prop :=
  w_olists s' = w_olists s /\ w_ototal s' = w_ototal s /\
  (forall j, j <> oi -> obj s' j = obj s j) /\
  (forall o, obj s oi = Some o -> exists o', obj s' oi = Some o' /\ o_event o' = o_event o /\ o_id o' = o_id o).

Lemma ol_ph_refl : forall oi s, ol_ph oi s s.
Proof. intros oi s. split; [reflexivity|]. split; [reflexivity|]. split; [reflexivity|]. intros o Ho. exists o. auto. Qed.
Lemma ol_ph_trans : forall oi s1 s2 s3, ol_ph oi s1 s2 -> ol_ph oi s2 s3 -> ol_ph oi s1 s3.
Proof.
  intros oi s1 s2 s3 (A1 & A2 & A3 & A4) (B1 & B2 & B3 & B4). split; [congruence|]. split; [congruence|]. split.
  - intros j Hj. rewrite (B3 j Hj). apply (A3 j Hj).
  - intros o Ho. destruct (A4 o Ho) as (o2 & Ho2 & E2 & I2). destruct (B4 o2 Ho2) as (o3 & Ho3 & E3 & I3).
    exists o3. split; [exact Ho3|]. split; congruence.
Qed.

Definition ol_php (oi : nat) {A} (m : MW A) : Prop := r2e_pres (ol_ph oi) m.

Lemma ol_php_ro : forall oi A (m : MW A), readonly m -> ol_php oi m.
Proof. intros oi A m H. apply (r2e_pres_ro (ol_ph oi) (ol_ph_refl oi)). exact H. Qed.
Lemma ol_php_bind : forall oi A B (m : MW A) (k : A -> MW B), ol_php oi m -> (forall a, ol_php oi (k a)) -> ol_php oi (bind m k).
Proof. intros oi A B m k. apply (r2e_pres_bind (ol_ph oi) (ol_ph_trans oi)). Qed.
Lemma ol_php_forM : forall oi A (l : list A) (f : A -> MW unit), (forall a, ol_php oi (f a)) -> ol_php oi (forM_ l f).
Proof. intros oi A l f. apply (r2e_pres_forM (ol_ph oi) (ol_ph_refl oi) (ol_ph_trans oi)). Qed.

Lemma ol_php_modO : forall oi (f : oobj -> oobj), (forall o, o_event (f o) = o_event o /\ o_id (f o) = o_id o) -> ol_php oi (modO oi f).
Proof.
  intros oi f Hf s. unfold modO, modify. cbn [state_of]. split; [reflexivity|]. split; [reflexivity|]. split.
  - intros j Hj. rewrite ObsProofs.obj_modO. destruct (Nat.eqb_spec j oi); [contradiction|reflexivity].
  - intros o Ho. exists (f o). rewrite ObsProofs.obj_modO, Nat.eqb_refl, Ho. split; [reflexivity|apply Hf].
Qed.

Ltac ol_ph_step :=
  lazymatch goal with
  | |- ol_php _ (ret _) => apply ol_php_ro, readonly_ret
  | |- ol_php _ get => apply ol_php_ro, readonly_get
  | |- ol_php _ (guard _ _) => apply ol_php_ro, readonly_guard
  | |- ol_php _ (modO _ _) => apply ol_php_modO; intros ?; split; reflexivity
  | |- ol_php _ (forM_ _ _) => apply ol_php_forM; intros ?
  | |- ol_php _ (bind _ _) => apply ol_php_bind; [|intros ?]
  | |- ol_php _ (if ?x then _ else _) => destruct x
  end.

Lemma ol_hoare_getbind : forall A (P : W -> Prop) (k : W -> MW A) (Q : A -> W -> Prop) (E : W -> Prop),
  (forall s0, P s0 -> match k s0 s0 with Ok a s' => Q a s' | Err _ s' => E s' end) -> hoare P (bind get k) Q E.
Proof. intros A P k Q E H s Hs. unfold bind, get. apply H. exact Hs. Qed.

Lemma ol_php_hoare : forall oi s0 A (m : MW A), ol_php oi m -> hoare (ol_ph oi s0) m (fun _ => ol_ph oi s0) (ol_ph oi s0).
Proof.
  intros oi s0 A m Hm s Hs. specialize (Hm s). destruct (m s) as [a s'|e s']; cbn [state_of] in Hm;
    apply (ol_ph_trans oi s0 s s' Hs Hm).
Qed.

(** a state reached from [s] by rewriting an object that is in no list *)
Lemma ol_MInvO_ph : forall oi s s', MInvO s -> (forall evt, ~ In oi (olist s evt)) ->
  w_olists s' = w_olists s -> w_ototal s' = w_ototal s -> (forall j, j <> oi -> obj s' j = obj s j) -> MInvO s'.
Proof.
  intros oi s s' HM Hno E1 E2 E3.
  assert (OL : forall e, olist s' e = olist s e) by (intros e; unfold olist; rewrite E1; reflexivity).
  constructor.
  - intros evt j Hin. rewrite OL in Hin. rewrite E3; [apply (mo_lst _ HM evt j Hin)|]. intros ->. apply (Hno evt Hin).
  - intros evt. rewrite OL. apply (mo_nd _ HM).
  - rewrite E1. apply (mo_keys _ HM).
  - rewrite E2, E1. apply (mo_total _ HM).
Qed.

Theorem ol_add_inv : forall s oi, MInvO s -> MInvO (state_of (add_observer oi s)).
Proof.
  intros s oi HM. unfold add_observer.
  unfold bind at 1, getO at 1, bind at 1, get at 1. cbv beta iota. fold (obj s oi).
  destruct (obj s oi) as [o|] eqn:Eo; cbn [of_opt ret fail state_of]; [|exact HM].
  unfold bind at 1. destruct (o_id o) as [i0|] eqn:Eid; cbn [guard ret fail state_of]; [exact HM|].
  unfold bind at 1, get at 1. cbv beta iota.
  destruct (ipool_get None (w_opool s)) as [[id p']|]; [|exact HM].
  unfold bind at 1, put at 1. cbv beta iota. unfold bind at 1, modO at 1, modify at 1. cbv beta iota.
  set (f0 := fun o0 : oobj => o0 <| o_id := Some id |> <| o_hascomps := false |> <| o_haswith := false |> <| o_haswithout := false |>).
  set (s1 := s <| w_opool := p' |> <| w_obs ::= updf oi f0 |>).
  assert (Hno : forall evt, ~ In oi (olist s evt)) by (apply (ol_noid_notin s oi o HM Eo Eid)).
  assert (V1 : forall j, obj s1 j = if Nat.eqb j oi then Some (f0 o) else obj s j).
  { intros j. unfold s1. rewrite ObsProofs.obj_modO. change (obj (s <| w_opool := p' |>) j) with (obj s j).
    destruct (Nat.eqb_spec j oi) as [->|_]; [rewrite Eo|]; reflexivity. }
  (* the states related to [s1] by the phases satisfy the invariant *)
  assert (HE : forall s2, ol_ph oi s1 s2 -> MInvO s2).
  { intros s2 (A1 & A2 & A3 & _). apply (ol_MInvO_ph oi s s2 HM Hno); [rewrite A1; reflexivity|rewrite A2; reflexivity|].
    intros j Hj. rewrite (A3 j Hj), V1. destruct (Nat.eqb_spec j oi); [contradiction|reflexivity]. }
  match goal with |- MInvO (state_of (?m s1)) =>
    assert (X : hoare (ol_ph oi s1) m (fun _ => MInvO) (ol_ph oi s1)) end.
  { eapply hoare_bind.
    { apply ol_php_hoare. destruct (is_relation_event (o_event o)); [|destruct (is_entity_event (o_event o))]; repeat ol_ph_step. }
    intros u1. cbv beta. eapply hoare_bind; [apply ol_php_hoare; repeat ol_ph_step|]. intros u2. cbv beta.
    apply ol_hoare_getbind. intros s3 H3.
    refine ((_ : hoare (ol_ph oi s1) _ (fun _ => MInvO) (ol_ph oi s1)) s3 H3).
    eapply hoare_bind; [apply (ol_php_hoare oi s1); destruct (o_excl o); repeat ol_ph_step|].
    intros u3 s4 H4. cbv beta in H4. pose proof H4 as (A1 & A2 & A3 & A4).
    destruct (A4 (f0 o) ltac:(rewrite V1, Nat.eqb_refl; reflexivity)) as (o4 & Ho4 & Ev4 & Id4).
    assert (G : getO oi s4 = Ok o4 s4) by (unfold getO, bind, get; fold (obj s4 oi); rewrite Ho4; reflexivity).
    rewrite (sa_bind_ok G).
    destruct (ObsProofs.add_tail s4 oi o4) as (s5 & E5 & T1 & T2 & _ & T4 & _ & _). cbv zeta. rewrite E5.
    assert (Ev : o_event o4 = o_event o) by (rewrite Ev4; reflexivity).
    assert (OL4 : forall e, olist s4 e = olist s e) by (intros e; unfold olist; rewrite A1; reflexivity).
    pose proof (fun e => ObsProofs.olist_aset s4 s5 (o_event o4) _ e T2) as OL. cbv beta in OL.
    assert (V5 : forall j, obj s5 j = obj s4 j) by (intros j; unfold obj; rewrite T1; reflexivity).
    constructor.
    - intros e j Hin. rewrite OL in Hin. rewrite V5. destruct (Nat.eqb_spec (o_event o4) e) as [<-|Hne].
      + apply in_app_or in Hin. destruct Hin as [Hin|[<-|[]]].
        * rewrite OL4 in Hin. assert (Hj : j <> oi) by (intros ->; apply (Hno _ Hin)).
          rewrite (A3 j Hj), V1. destruct (Nat.eqb_spec j oi); [contradiction|]. rewrite Ev. apply (mo_lst _ HM _ j). rewrite <- Ev. exact Hin.
        * exists o4. split; [exact Ho4|]. split; [reflexivity|]. rewrite Id4. cbn. discriminate.
      + rewrite OL4 in Hin. assert (Hj : j <> oi) by (intros ->; apply (Hno _ Hin)).
        rewrite (A3 j Hj), V1. destruct (Nat.eqb_spec j oi); [contradiction|]. apply (mo_lst _ HM e j Hin).
    - intros e. rewrite OL. destruct (Nat.eqb (o_event o4) e); [|rewrite OL4; apply (mo_nd _ HM)].
      eapply Permutation_NoDup; [apply Permutation_cons_append|]. rewrite OL4. constructor; [apply Hno|apply (mo_nd _ HM)].
    - rewrite T2. apply ObsProofs.keys_aset_nodup. rewrite A1. apply (mo_keys _ HM).
    - rewrite T4, T2, A2. change (w_ototal s1) with (w_ototal s). rewrite (mo_total _ HM).
      pose proof (ObsProofs.lsum_aset (o_event o4) (olist s4 (o_event o4) ++ [oi]) (w_olists s4)) as H.
      rewrite app_length in H. cbn [length] in H. unfold olist in *. unfold ObsProofs.aget in H. rewrite A1 in *.
      change (w_olists s1) with (w_olists s) in *. lia. }
  specialize (X s1 (ol_ph_refl oi s1)).
  match type of X with match ?r with _ => _ end => destruct r as [a s'|e s'] end; cbn [state_of]; [exact X|apply HE; exact X].
Qed.

(* ================================================================================================ *)
(** * Part 5: callbacks and dispatch *)

(** What a dispatch does to the state: the storage is kept, the side invariant holds again with the same bits
    held, no observer object is lost. *)
Definition ol_ev (held : list nat) (s s' : W) : Prop :=
  ol_SI held s' /\ storage_same s s' /\ length (w_obs s') = length (w_obs s).

Lemma ol_ev_refl : forall held s, ol_SI held s -> ol_ev held s s.
Proof. intros held s H. split; [exact H|]. split; [apply sa_storage_same_refl|reflexivity]. Qed.

Lemma ol_ev_trans : forall held a b c, ol_ev held a b -> ol_ev held b c -> ol_ev held a c.
Proof.
  intros held a b c (_ & A2 & A3) (B1 & B2 & B3). split; [exact B1|]. split; [apply (sa_storage_same_trans a b c A2 B2)|congruence].
Qed.

Lemma ol_obj_lt : forall s oi, oi < length (w_obs s) -> exists o, obj s oi = Some o.
Proof.
  intros s oi H. unfold obj. destruct (nth_error (w_obs s) oi) as [o|] eqn:E; [exists o; reflexivity|].
  apply nth_error_None in E. lia.
Qed.

Lemma ol_obj_some_lt : forall s oi o, obj s oi = Some o -> oi < length (w_obs s).
Proof. intros s oi o H. apply nth_error_Some. unfold obj in H. congruence. Qed.

(** [remove_observer] on a member of a list, with its frame *)
Lemma ol_rem_ev : forall held s oi o, ol_SI held s -> obj s oi = Some o -> In oi (olist s (o_event o)) ->
  exists s', remove_observer oi s = Ok tt s' /\ ol_ev held s s'.
Proof.
  intros held s oi o (HL & HM) Ho Hin. destruct (ol_rem_ok s oi o HM Ho Hin) as (s' & E). exists s'. split; [exact E|].
  pose proof (ol_rem_inv s oi HM) as HM'. pose proof (ol_mfp_remove_observer oi s) as (F1 & F2).
  pose proof (sa_sp_remove_observer oi s) as SS. rewrite E in HM', F1, F2, SS. cbn [state_of] in *.
  split; [split; [rewrite F1; exact HL|exact HM']|]. split; [exact SS|exact F2].
Qed.

(** the action of a callback after its log entry *)
Lemma ol_cb_action : forall held oi s, ol_SI held s -> oi < length (w_obs s) ->
  exists s', ViewProofs.v_cb_action oi s = Ok tt s' /\ ol_ev held s s'.
Proof.
  intros held oi s HS Hlt. destruct (ol_obj_lt s oi Hlt) as (o & Ho). unfold ViewProofs.v_cb_action.
  assert (G : getO oi s = Ok o s) by (unfold getO, bind, get; fold (obj s oi); rewrite Ho; reflexivity).
  rewrite (sa_bind_ok G). destruct (o_cb o) as [|[|k]].
  - exists s. split; [reflexivity|apply ol_ev_refl; exact HS].
  - rewrite sb2_bind_get. destruct (memb oi (olist s (o_event o))) eqn:Em; cbn [whenM].
    + apply sb2_memb_In in Em. apply (ol_rem_ev held s oi o HS Ho Em).
    + exists s. split; [reflexivity|apply ol_ev_refl; exact HS].
  - rewrite sb2_bind_get. destruct (nth_error (w_obs s) k) as [ok|] eqn:Ek.
    + destruct (memb k (olist s (o_event ok))) eqn:Em; cbn [whenM].
      * apply sb2_memb_In in Em. apply (ol_rem_ev held s k ok HS Ek Em).
      * exists s. split; [reflexivity|apply ol_ev_refl; exact HS].
    + exists s. split; [reflexivity|apply ol_ev_refl; exact HS].
Qed.

(** One callback, of any kind: with a free lock bit and a snapshot for the entity it returns. *)
Theorem ol_run_callback : forall held oi e s, ol_SI held s -> length held < 64 -> bv_snap_ok s e -> oi < length (w_obs s) ->
  exists s', run_callback oi e s = Ok tt s' /\ ol_ev held s s'.
Proof.
  intros held oi e s (HL & HM) Hlt Hsnap Hoi.
  destruct (BatchView.bv_lock_cycle (w_lock s) held HL Hlt) as (b & l' & l'' & LL & _ & LU & HL'').
  unfold run_callback. unfold bind at 1. unfold get at 1. cbv zeta.
  rewrite (sa_bind_ok (ViewProofs.v_lockM_ok s b l' LL)).
  unfold bind at 1. unfold get at 1.
  assert (LU' : lock_unlock (w_lock (s <| w_lock := l' |>)) b = Some l'') by exact LU.
  rewrite (sa_bind_ok (ViewProofs.v_unlockM_ok (s <| w_lock := l' |>) b l'' LU')).
  set (s2 := s <| w_lock := l' |> <| w_lock := l'' |>).
  assert (T : forall L, exists s', (x <- log L ;; ViewProofs.v_cb_action oi) s2 = Ok tt s' /\ ol_ev held s s').
  { intros L. unfold bind at 1. unfold log, modify.
    set (s3 := s2 <| w_log ::= fun lg => lg ++ [L] |>).
    assert (HS3 : ol_SI held s3) by (split; [exact HL''|apply (ol_MInvO_ext s s3); try reflexivity; exact HM]).
    destruct (ol_cb_action held oi s3 HS3 Hoi) as (s' & E & (A1 & A2 & A3)). exists s'. split; [exact E|].
    split; [exact A1|]. split; [|exact A3].
    apply (sa_storage_same_trans s s3 s'); [unfold storage_same; repeat split|exact A2]. }
  unfold bv_snap_ok in Hsnap. destruct (alive s e) eqn:Al.
  - destruct (snapshot_entity s e) as [snap|] eqn:Sn; [|exfalso; apply Hsnap; reflexivity].
    unfold of_opt. unfold bind at 1. unfold ret at 1. cbv beta iota. apply T.
  - unfold bind at 1. unfold ret at 1. cbv beta iota. apply T.
Qed.

(** With all 64 bits held a callback fails at once, the state untouched. *)
Theorem ol_run_callback_full : forall held oi e s, bv_lock_ok (w_lock s) held -> length held = 64 ->
  run_callback oi e s = Err EBits s.
Proof.
  intros held oi e s HL Hlen. unfold run_callback. unfold bind at 1. unfold get at 1. cbv zeta.
  assert (LL : lock_lock (w_lock s) = None).
  { destruct (w_lock s) as [[ipl nx av] m] eqn:El. unfold BatchView.bv_lock_ok in HL. cbn [ip lk_pool inext iavail lk_mask] in HL.
    pose proof (LockProofs.lock_lock_spec _ _ _ _ _ HL) as S.
    destruct (lock_lock _) as [[b l']|]; [|reflexivity]. destruct S as (_ & _ & S3 & _). lia. }
  rewrite (sa_bind_err (ViewProofs.v_lockM_err s LL)). reflexivity.
Qed.

(** The dispatch loop over ANY list of existing observer objects. *)
Lemma ol_fire_loop : forall held pred e l s found, ol_SI held s -> length held < 64 -> bv_snap_ok s e ->
  (forall oi, In oi l -> oi < length (w_obs s)) ->
  exists b s', fire_loop run_callback pred e l found s = Ok b s' /\ ol_ev held s s'.
Proof.
  intros held pred e l. induction l as [|a l IH]; intros s found HS Hlt Hsnap Hl.
  - exists found, s. split; [reflexivity|apply ol_ev_refl; exact HS].
  - cbn [fire_loop]. destruct (ol_obj_lt s a (Hl a (or_introl eq_refl))) as (o & Ho).
    assert (G : getO a s = Ok o s) by (unfold getO, bind, get; fold (obj s a); rewrite Ho; reflexivity).
    rewrite (sa_bind_ok G).
    assert (Hl' : forall oi, In oi l -> oi < length (w_obs s)) by (intros oi Hin; apply Hl; right; exact Hin).
    destruct (pred o); [|apply IH; assumption].
    destruct (ol_run_callback held a e s HS Hlt Hsnap (Hl a (or_introl eq_refl))) as (s1 & R & EV).
    rewrite (sa_bind_ok R). pose proof EV as (HS1 & SS1 & Len1).
    destruct (IH s1 true HS1 Hlt) as (b & s' & R' & EV').
    { apply (BatchView.bv_snap_ok_same s s1 e SS1 Hsnap). }
    { rewrite Len1. exact Hl'. }
    exists b, s'. split; [exact R'|apply (ol_ev_trans held s s1 s' EV EV')].
Qed.

(** Every dispatch returns. *)
Theorem ol_fire : forall held evt early pred e eo s, ol_SI held s -> length held < 64 -> bv_snap_ok s e ->
  exists b s', fire evt early pred e eo s = Ok b s' /\ ol_ev held s s'.
Proof.
  intros held evt early pred e eo s HS Hlt Hsnap. unfold fire, fire_with. unfold bind at 1. unfold get at 1. cbv beta iota.
  destruct (eo && early (get_agg s evt))%bool.
  - exists false, s. split; [reflexivity|apply ol_ev_refl; exact HS].
  - apply (ol_fire_loop held pred e (olist s evt) s false HS Hlt Hsnap).
    intros oi Hin. destruct (mo_lst _ (proj2 HS) evt oi Hin) as (o & Ho & _). apply (ol_obj_some_lt s oi o Ho).
Qed.

(** With all 64 bits held a dispatch either calls nobody (and returns [false]) or fails at the first call, the
    state untouched in both cases. *)
Lemma ol_fire_loop_full : forall held pred e l s found, bv_lock_ok (w_lock s) held -> length held = 64 ->
  fire_loop run_callback pred e l found s = Ok found s \/ exists er, fire_loop run_callback pred e l found s = Err er s.
Proof.
  intros held pred e l s found HL Hlen. induction l as [|a l IH]; [left; reflexivity|].
  cbn [fire_loop]. destruct (nth_error (w_obs s) a) as [o|] eqn:Ea.
  2:{ right. exists EIndex. apply sa_bind_err. unfold getO, bind, get. rewrite Ea. reflexivity. }
  assert (G : getO a s = Ok o s) by (unfold getO, bind, get; rewrite Ea; reflexivity).
  rewrite !(sa_bind_ok G). destruct (pred o); [|exact IH].
  right. exists EBits. rewrite (sa_bind_err (ol_run_callback_full held a e s HL Hlen)). reflexivity.
Qed.

Theorem ol_fire_full : forall held evt early pred e eo s, bv_lock_ok (w_lock s) held -> length held = 64 ->
  fire evt early pred e eo s = Ok false s \/ exists er, fire evt early pred e eo s = Err er s.
Proof.
  intros held evt early pred e eo s HL Hlen. unfold fire, fire_with. rewrite !sb2_bind_get.
  destruct (eo && early (get_agg s evt))%bool; [left; reflexivity|].
  apply (ol_fire_loop_full held pred e (olist s evt) s false HL Hlen).
Qed.

(** ... and under the manager invariant the failure is [EBits]. *)
Lemma ol_fire_loop_full_M : forall held pred e l s found, bv_lock_ok (w_lock s) held -> length held = 64 ->
  (forall oi, In oi l -> oi < length (w_obs s)) ->
  fire_loop run_callback pred e l found s = Ok found s \/ fire_loop run_callback pred e l found s = Err EBits s.
Proof.
  intros held pred e l s found HL Hlen. induction l as [|a l IH]; intros Hl; [left; reflexivity|].
  cbn [fire_loop]. destruct (ol_obj_lt s a (Hl a (or_introl eq_refl))) as (o & Ho).
  assert (G : getO a s = Ok o s) by (unfold getO, bind, get; fold (obj s a); rewrite Ho; reflexivity).
  rewrite !(sa_bind_ok G). destruct (pred o); [|apply IH; intros oi Hin; apply Hl; right; exact Hin].
  right. rewrite (sa_bind_err (ol_run_callback_full held a e s HL Hlen)). reflexivity.
Qed.

Theorem ol_fire_full_M : forall held evt early pred e eo s, ol_SI held s -> length held = 64 ->
  fire evt early pred e eo s = Ok false s \/ fire evt early pred e eo s = Err EBits s.
Proof.
  intros held evt early pred e eo s (HL & HM) Hlen. unfold fire, fire_with. rewrite !sb2_bind_get.
  destruct (eo && early (get_agg s evt))%bool; [left; reflexivity|].
  apply (ol_fire_loop_full_M held pred e (olist s evt) s false HL Hlen).
  intros oi Hin. destruct (mo_lst _ HM evt oi Hin) as (o & Ho & _). apply (ol_obj_some_lt s oi o Ho).
Qed.

(* ================================================================================================ *)
(** * Part 6: the dispatch helpers of the single-entity operations *)

(** [ol_evp held e m]: from a state with [held] held (fewer than 64) and a snapshot for [e], [m] RETURNS and is a dispatch *)
Definition ol_evp (held : list nat) (e : ent) {A} (m : MW A) : Prop :=
  forall s, ol_SI held s -> length held < 64 -> bv_snap_ok s e -> exists a s', m s = Ok a s' /\ ol_ev held s s'.

Lemma ol_evp_ret : forall held e A (a : A), ol_evp held e (ret a).
Proof. intros held e A a s HS _ _. exists a, s. split; [reflexivity|apply ol_ev_refl; exact HS]. Qed.

Lemma ol_evp_bind : forall held e A B (m : MW A) (k : A -> MW B),
  ol_evp held e m -> (forall a, ol_evp held e (k a)) -> ol_evp held e (bind m k).
Proof.
  intros held e A B m k Hm Hk s HS Hlt Hsn. destruct (Hm s HS Hlt Hsn) as (a & s1 & E1 & EV1).
  pose proof EV1 as (HS1 & SS1 & _).
  destruct (Hk a s1 HS1 Hlt (BatchView.bv_snap_ok_same s s1 e SS1 Hsn)) as (b & s2 & E2 & EV2).
  exists b, s2. split; [rewrite (sa_bind_ok E1); exact E2|apply (ol_ev_trans held s s1 s2 EV1 EV2)].
Qed.

Lemma ol_evp_getbind : forall held e A (k : W -> MW A), (forall s0, ol_evp held e (k s0)) -> ol_evp held e (bind get k).
Proof. intros held e A k H s HS Hlt Hsn. rewrite sb2_bind_get. apply (H s s HS Hlt Hsn). Qed.

Lemma ol_evp_whenM : forall held e b (m : MW unit), ol_evp held e m -> ol_evp held e (whenM b m).
Proof. intros held e b m H. destruct b; cbn [whenM]; [exact H|apply ol_evp_ret]. Qed.

Lemma ol_evp_fire : forall held e evt early pred eo, ol_evp held e (fire evt early pred e eo).
Proof. intros held e evt early pred eo s HS Hlt Hsn. apply (ol_fire held evt early pred e eo s HS Hlt Hsn). Qed.

Ltac ol_evp_step :=
  lazymatch goal with
  | |- ol_evp _ _ (let x := _ in _) => cbv zeta
  | |- ol_evp _ _ (ret _) => apply ol_evp_ret
  | |- ol_evp _ _ (fire _ _ _ _ _) => apply ol_evp_fire
  | |- ol_evp _ _ (whenM _ _) => apply ol_evp_whenM
  | |- ol_evp _ _ (bind get _) => apply ol_evp_getbind; intros ?
  | |- ol_evp _ _ (bind _ _) => apply ol_evp_bind; [|intros ?]
  | |- ol_evp _ _ (if ?b then _ else _) => destruct b
  end.
Ltac ol_evp_tac := repeat ol_evp_step.

Lemma ol_evp_fire_create : forall held e m, ol_evp held e (fire_create_entity_if_has e m).
Proof. intros. unfold fire_create_entity_if_has, fire_create_entity. ol_evp_tac. Qed.
Lemma ol_evp_fire_create_rel : forall held e m, ol_evp held e (fire_create_entity_rel_if_has e m).
Proof. intros. unfold fire_create_entity_rel_if_has, fire_create_entity_rel. ol_evp_tac. Qed.
Lemma ol_evp_fire_add : forall held evt e o n, ol_evp held e (fire_add_if_has evt e o n).
Proof. intros. unfold fire_add_if_has, fire_add. ol_evp_tac. Qed.
Lemma ol_evp_fire_set_unit : forall held evt e cm em, ol_evp held e (_ <- fire_set evt e cm em true ;; ret tt).
Proof. intros. unfold fire_set. ol_evp_tac. Qed.

(** ** A dispatch under a lock bit taken by the operation itself *)

(** [ol_evu held l e m]: from a state with [l :: held] held, [m] returns with [held] held (it ends with the unlock of [l]) *)
Definition ol_evu (held : list nat) (l : nat) (e : ent) (m : MW unit) : Prop :=
  forall s, ol_SI (l :: held) s -> bv_snap_ok s e ->
  exists s', m s = Ok tt s' /\ ol_SI held s' /\ storage_same s s' /\ length (w_obs s') = length (w_obs s).

Lemma ol_evu_unlock : forall held l e, ~ In l held -> ol_evu held l e (unlockM l).
Proof.
  intros held l e Hn s (HL & HM) _.
  destruct (BatchView.bv_lock_give (w_lock s) (l :: held) l HL (or_introl eq_refl)) as (l' & LU & HL').
  rewrite (BatchView.bv_remove_head l held Hn) in HL'.
  exists (s <| w_lock := l' |>). split; [apply (ViewProofs.v_unlockM_ok s l l' LU)|].
  split; [split; [exact HL'|apply (ol_MInvO_ext s); try reflexivity; exact HM]|]. split; [unfold storage_same; repeat split|reflexivity].
Qed.

Lemma ol_evu_bind : forall held l e A (m : MW A) (k : A -> MW unit), S (length held) < 64 ->
  ol_evp (l :: held) e m -> (forall a, ol_evu held l e (k a)) -> ol_evu held l e (bind m k).
Proof.
  intros held l e A m k Hlt Hm Hk s HS Hsn. destruct (Hm s HS Hlt Hsn) as (a & s1 & E1 & (HS1 & SS1 & L1)).
  destruct (Hk a s1 HS1 (BatchView.bv_snap_ok_same s s1 e SS1 Hsn)) as (s2 & E2 & HS2 & SS2 & L2).
  exists s2. split; [rewrite (sa_bind_ok E1); exact E2|]. split; [exact HS2|].
  split; [apply (sa_storage_same_trans s s1 s2 SS1 SS2)|congruence].
Qed.

Lemma ol_evp_lock_block : forall held e (k : nat -> MW unit),
  (forall l, ~ In l held -> ol_evu held l e (k l)) -> ol_evp held e (l <- lockM ;; k l).
Proof.
  intros held e k Hk s (HL & HM) Hlt Hsn.
  destruct (BatchView.bv_lock_take (w_lock s) held HL Hlt) as (b & l' & LL & Hn & HL').
  rewrite (sa_bind_ok (ViewProofs.v_lockM_ok s b l' LL)).
  set (s1 := s <| w_lock := l' |>).
  assert (HS1 : ol_SI (b :: held) s1) by (split; [exact HL'|apply (ol_MInvO_ext s); try reflexivity; exact HM]).
  assert (SS1 : storage_same s s1) by (unfold storage_same; repeat split).
  destruct (Hk b Hn s1 HS1 (BatchView.bv_snap_ok_same s s1 e SS1 Hsn)) as (s2 & E2 & HS2 & SS2 & L2).
  exists tt, s2. split; [exact E2|]. split; [exact HS2|]. split; [apply (sa_storage_same_trans s s1 s2 SS1 SS2)|exact L2].
Qed.

Ltac ol_evu_step :=
  lazymatch goal with
  | |- ol_evu _ _ _ (unlockM _) => apply ol_evu_unlock; assumption
  | |- ol_evu _ _ _ (bind _ _) => apply ol_evu_bind; [assumption| |intros ?]
  end.

(** the removal events of Remove / Exchange: one bit for the operation, one for each callback in turn *)
Theorem ol_evp_fire_remove_events : forall held e old new rr, S (length held) < 64 ->
  ol_evp held e (fire_remove_events e old new rr).
Proof.
  intros held e old new rr Hlt. unfold fire_remove_events. apply ol_evp_getbind. intros s0. cbv zeta.
  apply ol_evp_whenM. apply ol_evp_lock_block. intros l Hn.
  apply ol_evu_bind; [exact Hlt| |intros ?u].
  { destruct (has_obs s0 EvRemoveComponents); [unfold fire_remove; ol_evp_tac|apply ol_evp_ret]. }
  apply ol_evu_bind; [exact Hlt| |intros ?u].
  { destruct (rr && has_obs s0 EvRemoveRelations)%bool; [unfold fire_remove; ol_evp_tac|apply ol_evp_ret]. }
  apply ol_evu_unlock. exact Hn.
Qed.

(** the OnRemoveRelations block of SetRelations *)
Theorem ol_evp_setrel_remove : forall held e cm nm b, S (length held) < 64 ->
  ol_evp held e (whenM b (l <- lockM ;; _ <- fire_set EvRemoveRelations e cm nm true ;; unlockM l)).
Proof.
  intros held e cm nm b Hlt. apply ol_evp_whenM. apply ol_evp_lock_block. intros l Hn.
  apply ol_evu_bind; [exact Hlt|unfold fire_set; apply ol_evp_fire|intros ?u]. apply ol_evu_unlock. exact Hn.
Qed.

(** the removal events of RemoveEntity *)
Theorem ol_evp_remove_entity_events : forall held e m (he hr : bool), S (length held) < 64 ->
  ol_evp held e (whenM (he || hr)%bool (
    l <- lockM ;;
    (if he then (_ <- fire_remove_entity e m true ;; ret tt) else ret tt) ;;;
    (if hr then (_ <- fire_remove_entity_rel e m true ;; ret tt) else ret tt) ;;;
    unlockM l)).
Proof.
  intros held e m he hr Hlt. apply ol_evp_whenM. apply ol_evp_lock_block. intros l Hn.
  apply ol_evu_bind; [exact Hlt| |intros ?u].
  { destruct he; [unfold fire_remove_entity; ol_evp_tac|apply ol_evp_ret]. }
  apply ol_evu_bind; [exact Hlt| |intros ?u].
  { destruct hr; [unfold fire_remove_entity_rel; ol_evp_tac|apply ol_evp_ret]. }
  apply ol_evu_unlock. exact Hn.
Qed.

(* ================================================================================================ *)
(** * Part 7: the weakest invariant for "callbacks return"

    What a dispatch needs from the manager: every member of an event list is an existing object ([fire_loop] reads it), and
    [remove_observer] succeeds on an object that is in the list of ITS OWN event (the check a callback makes before it
    unregisters). The second needs "a member of its own list carries an id"; that is preserved by Unregister (a
    swap-remove of ONE occurrence) only if no list has duplicates. These three clauses are [MCore]. It is implied by
    [MInvO] (which adds what the Stats figure needs: the event of a member is the event of the list, distinct keys, the
    total), suffices for [ol_rem_ok_core], and is preserved by Register / Unregister in both outcomes. Each clause is
    necessary: [r2ol_core_needs_ex], [r2ol_core_needs_id], [r2ol_core_needs_nd] of Rel2HistOL (closed counterexamples:
    with exactly one clause violated an Emit that dispatches a self-unregistering observer fails). *)

Record MCore (s : W) : Prop := {
  mc_ex : forall evt oi, In oi (olist s evt) -> exists o, obj s oi = Some o;
  mc_id : forall oi o, obj s oi = Some o -> In oi (olist s (o_event o)) -> o_id o <> None;
  mc_nd : forall evt, NoDup (olist s evt)
}.

Lemma ol_MCore_of_MInvO : forall s, MInvO s -> MCore s.
Proof.
  intros s HM. constructor.
  - intros evt oi Hin. destruct (mo_lst _ HM evt oi Hin) as (o & Ho & _). exists o. exact Ho.
  - intros oi o Ho Hin. apply (ol_member s _ oi o HM Hin Ho).
  - apply (mo_nd _ HM).
Qed.

Theorem ol_rem_ok_core : forall s oi o, MCore s -> obj s oi = Some o -> In oi (olist s (o_event o)) ->
  exists s', remove_observer oi s = Ok tt s'.
Proof.
  intros s oi o HM Ho Hin. destruct (remove_observer oi s) as [[] s'|er s'] eqn:E; [exists s'; reflexivity|]. exfalso.
  destruct (ol_rem_err oi s er s' E) as [Hn|(o' & Ho' & [Hid|Hidx])].
  - congruence.
  - rewrite Ho in Ho'. injection Ho' as <-. apply (mc_id _ HM oi o Ho Hin Hid).
  - rewrite Ho in Ho'. injection Ho' as <-. destruct (sb2_index_of_In oi _ Hin) as (i & Hi). congruence.
Qed.

Theorem ol_rem_inv_core : forall s oi, MCore s -> MCore (state_of (remove_observer oi s)).
Proof.
  intros s oi HM.
  destruct (ObsProofs.rem_spec s oi) as [[e E] | (o & s' & l' & g' & E & Ho & Hid & Hperm & V & L & _)];
    rewrite E; cbn [state_of]; [exact HM|].
  set (evt := o_event o) in *.
  assert (Hnd : NoDup (oi :: l')) by (eapply Permutation_NoDup; [exact Hperm|apply (mc_nd _ HM)]).
  inversion Hnd as [|? ? Hnotin Hnd']; subst.
  assert (Hsub : forall j, In j l' -> In j (olist s evt)).
  { intros j Hj. eapply Permutation_in; [symmetry; exact Hperm|]. right; exact Hj. }
  pose proof (fun e => ObsProofs.olist_aset s s' evt _ e L) as OL. cbv beta in OL.
  assert (Hin' : forall e j, In j (olist s' e) -> In j (olist s e)).
  { intros e j Hin. rewrite OL in Hin. destruct (Nat.eqb_spec evt e) as [<-|Hne]; [apply Hsub; exact Hin|exact Hin]. }
  constructor.
  - intros e j Hin. rewrite V. destruct (Nat.eqb j oi); [eexists; reflexivity|]. apply (mc_ex _ HM e j (Hin' e j Hin)).
  - intros j oj Hj Hin. rewrite V in Hj. destruct (Nat.eqb_spec j oi) as [->|Hne].
    + injection Hj as <-. exfalso. change (o_event (o <| o_id := None |>)) with evt in Hin. rewrite OL, Nat.eqb_refl in Hin. contradiction.
    + apply (mc_id _ HM j oj Hj (Hin' _ j Hin)).
  - intros e. rewrite OL. destruct (Nat.eqb evt e); [exact Hnd'|apply (mc_nd _ HM)].
Qed.

(** the states [add_observer] can end in *)
Definition ol_f0 (id : nat) (o0 : oobj) : oobj :=
  o0 <| o_id := Some id |> <| o_hascomps := false |> <| o_haswith := false |> <| o_haswithout := false |>.

Lemma ol_add_states : forall s oi, let s' := state_of (add_observer oi s) in
  s' = s \/
  exists o id p', obj s oi = Some o /\ o_id o = None /\
    let s1 := s <| w_opool := p' |> <| w_obs ::= updf oi (ol_f0 id) |> in
    ol_ph oi s1 s' \/
    exists s4 o4, ol_ph oi s1 s4 /\ obj s4 oi = Some o4 /\ w_obs s' = w_obs s4 /\
      w_olists s' = aset (o_event o4) (olist s4 (o_event o4) ++ [oi]) (w_olists s4) /\ w_ototal s' = S (w_ototal s4).
Proof.
  intros s oi. cbv zeta. pattern (state_of (add_observer oi s)).
  match goal with |- ?F _ => set (P := F) end. unfold add_observer.
  unfold bind at 1, getO at 1, bind at 1, get at 1. cbv beta iota. fold (obj s oi).
  destruct (obj s oi) as [o|] eqn:Eo; cbn [of_opt ret fail state_of]; [|left; reflexivity].
  unfold bind at 1. destruct (o_id o) as [i0|] eqn:Eid; cbn [guard ret fail state_of]; [left; reflexivity|].
  unfold bind at 1, get at 1. cbv beta iota.
  destruct (ipool_get None (w_opool s)) as [[id p']|]; [|left; reflexivity].
  unfold bind at 1, put at 1. cbv beta iota. unfold bind at 1, modO at 1, modify at 1. cbv beta iota.
  change (fun o0 : oobj => o0 <| o_id := Some id |> <| o_hascomps := false |> <| o_haswith := false |> <| o_haswithout := false |>) with (ol_f0 id).
  set (s1 := s <| w_opool := p' |> <| w_obs ::= updf oi (ol_f0 id) |>).
  assert (V1 : obj s1 oi = Some (ol_f0 id o)).
  { unfold s1. rewrite ObsProofs.obj_modO, Nat.eqb_refl. change (obj (s <| w_opool := p' |>) oi) with (obj s oi). rewrite Eo. reflexivity. }
  match goal with |- P (state_of ?r) => assert (Y : ol_ph oi s1 (state_of r) \/
      exists s4 o4, ol_ph oi s1 s4 /\ obj s4 oi = Some o4 /\ w_obs (state_of r) = w_obs s4 /\
        w_olists (state_of r) = aset (o_event o4) (olist s4 (o_event o4) ++ [oi]) (w_olists s4) /\ w_ototal (state_of r) = S (w_ototal s4));
    [|right; exists o, id, p'; split; [reflexivity|]; split; [exact Eid|exact Y]] end.
  match goal with |- ol_ph oi s1 (state_of ?r) \/ _ => set (R := r) end.
  assert (ER : R = R) by reflexivity. unfold R at 2 in ER. clearbody R. revert ER.
  match goal with |- R = ?m s1 -> _ =>
    assert (X : hoare (ol_ph oi s1) m
      (fun _ s' => exists s4 o4, ol_ph oi s1 s4 /\ obj s4 oi = Some o4 /\ w_obs s' = w_obs s4 /\
         w_olists s' = aset (o_event o4) (olist s4 (o_event o4) ++ [oi]) (w_olists s4) /\ w_ototal s' = S (w_ototal s4))
      (ol_ph oi s1)) end.
  { eapply hoare_bind.
    { apply ol_php_hoare. destruct (is_relation_event (o_event o)); [|destruct (is_entity_event (o_event o))]; repeat ol_ph_step. }
    intros u1. cbv beta. eapply hoare_bind; [apply ol_php_hoare; repeat ol_ph_step|]. intros u2. cbv beta.
    apply ol_hoare_getbind. intros s3 H3.
    match goal with |- match ?r with _ => _ end =>
      change (match r with Ok a s' => (fun _ s' => exists s4 o4, ol_ph oi s1 s4 /\ obj s4 oi = Some o4 /\ w_obs s' = w_obs s4 /\
         w_olists s' = aset (o_event o4) (olist s4 (o_event o4) ++ [oi]) (w_olists s4) /\ w_ototal s' = S (w_ototal s4)) a s'
                           | Err _ s' => ol_ph oi s1 s' end) end.
    refine ((_ : hoare (ol_ph oi s1) _ _ (ol_ph oi s1)) s3 H3).
    eapply hoare_bind; [apply (ol_php_hoare oi s1); destruct (o_excl o); repeat ol_ph_step|].
    intros u3 s4 H4. cbv beta in H4. pose proof H4 as (A1 & A2 & A3 & A4).
    destruct (A4 (ol_f0 id o) V1) as (o4 & Ho4 & Ev4 & Id4).
    assert (G : getO oi s4 = Ok o4 s4) by (unfold getO, bind, get; fold (obj s4 oi); rewrite Ho4; reflexivity).
    rewrite (sa_bind_ok G).
    destruct (ObsProofs.add_tail s4 oi o4) as (s5 & E5 & T1 & T2 & _ & T4 & _ & _). cbv zeta. rewrite E5.
    exists s4, o4. repeat (split; [assumption|]). exact T4. }
  specialize (X s1 (ol_ph_refl oi s1)). intros ER. rewrite <- ER in X.
  destruct R as [a s'|e s']; cbn [state_of]; [right; exact X|left; exact X].
Qed.

Theorem ol_add_inv_core : forall s oi, MCore s -> MCore (state_of (add_observer oi s)).
Proof.
  intros s oi HM. destruct (ol_add_states s oi) as [->|(o & id & p' & Eo & Eid & H)]; [exact HM|]. cbv zeta in H.
  set (s1 := s <| w_opool := p' |> <| w_obs ::= updf oi (ol_f0 id) |>) in *.
  assert (Hown : ~ In oi (olist s (o_event o))) by (intros Hin; apply (mc_id _ HM oi o Eo Hin Eid)).
  assert (V1 : forall j, obj s1 j = if Nat.eqb j oi then Some (ol_f0 id o) else obj s j).
  { intros j. unfold s1. rewrite ObsProofs.obj_modO. change (obj (s <| w_opool := p' |>) j) with (obj s j).
    destruct (Nat.eqb_spec j oi) as [->|_]; [rewrite Eo|]; reflexivity. }
  (* what is known about a state related to [s1] by the phases *)
  assert (PH : forall s2, ol_ph oi s1 s2 -> w_olists s2 = w_olists s /\ (forall j, j <> oi -> obj s2 j = obj s j) /\
            exists o2, obj s2 oi = Some o2 /\ o_event o2 = o_event o /\ o_id o2 = Some id).
  { intros s2 (A1 & _ & A3 & A4). split; [rewrite A1; reflexivity|]. split.
    - intros j Hj. rewrite (A3 j Hj), V1. destruct (Nat.eqb_spec j oi); [contradiction|reflexivity].
    - destruct (A4 (ol_f0 id o) ltac:(rewrite V1, Nat.eqb_refl; reflexivity)) as (o2 & Ho2 & E2 & I2). exists o2. auto. }
  set (s' := state_of (add_observer oi s)) in *. clearbody s'.
  destruct H as [H|(s4 & o4 & H4 & Ho4 & T1 & T2 & _)].
  - destruct (PH s' H) as (B1 & B2 & o2 & Ho2 & E2 & I2).
    assert (OL : forall e, olist s' e = olist s e) by (intros e; unfold olist; rewrite B1; reflexivity).
    constructor.
    + intros e j Hin. rewrite OL in Hin. destruct (Nat.eq_dec j oi) as [->|Hj]; [exists o2; exact Ho2|].
      rewrite (B2 j Hj). apply (mc_ex _ HM e j Hin).
    + intros j oj Hj Hin. rewrite OL in Hin. destruct (Nat.eq_dec j oi) as [->|Hne].
      * rewrite Ho2 in Hj. injection Hj as <-. rewrite I2. discriminate.
      * rewrite (B2 j Hne) in Hj. apply (mc_id _ HM j oj Hj Hin).
    + intros e. rewrite OL. apply (mc_nd _ HM).
  - destruct (PH s4 H4) as (B1 & B2 & o2 & Ho2 & E2 & I2). rewrite Ho4 in Ho2. injection Ho2 as <-.
    assert (OL4 : forall e, olist s4 e = olist s e) by (intros e; unfold olist; rewrite B1; reflexivity).
    pose proof (fun e => ObsProofs.olist_aset s4 s' (o_event o4) _ e T2) as OL. cbv beta in OL.
    assert (V5 : forall j, obj s' j = obj s4 j) by (intros j; unfold obj; rewrite T1; reflexivity).
    assert (INS : forall e j, In j (olist s' e) -> j <> oi -> In j (olist s e)).
    { intros e j Hin Hj. rewrite OL in Hin. destruct (Nat.eqb_spec (o_event o4) e) as [<-|_]; [|rewrite <- OL4; exact Hin].
      apply in_app_or in Hin. destruct Hin as [Hin|[<-|[]]]; [rewrite <- OL4; exact Hin|contradiction]. }
    constructor.
    + intros e j Hin. rewrite V5. destruct (Nat.eq_dec j oi) as [->|Hj]; [exists o4; exact Ho4|].
      rewrite (B2 j Hj). apply (mc_ex _ HM e j (INS e j Hin Hj)).
    + intros j oj Hj Hin. rewrite V5 in Hj. destruct (Nat.eq_dec j oi) as [->|Hne].
      * rewrite Ho4 in Hj. injection Hj as <-. rewrite I2. discriminate.
      * rewrite (B2 j Hne) in Hj. apply (mc_id _ HM j oj Hj (INS _ j Hin Hne)).
    + intros e. rewrite OL. destruct (Nat.eqb_spec (o_event o4) e) as [<-|_]; [|rewrite OL4; apply (mc_nd _ HM)].
      eapply Permutation_NoDup; [apply Permutation_cons_append|]. rewrite OL4, E2. constructor; [exact Hown|apply (mc_nd _ HM)].
Qed.

(** ** Assumption audit *)
Definition ol_all :=
  (ol_MCore_of_MInvO, ol_rem_ok_core, ol_rem_inv_core, ol_add_inv_core, ol_MInvO_of_MInv, ol_rem_ok, ol_rem_inv, ol_add_inv, ol_run_callback, ol_run_callback_full, ol_fire, ol_fire_full, ol_fire_full_M,
   ol_evp_fire_create, ol_evp_fire_create_rel, ol_evp_fire_add, ol_evp_fire_remove_events, ol_evp_setrel_remove,
   ol_evp_remove_entity_events).
Print Assumptions ol_all.
