(** * BatchViewRel: the documented batch timing for the RELATION batch (SetRelationsBatch), property C09.

    "For a batch operation all removal callbacks run before any entity of the batch is changed and all
    other callbacks after all of them are changed", for [w_set_relations_batch] WITH OnRemoveRelations /
    OnAddRelations observers registered, at the level of the callback log (the entry of a callback,
    [v_cb_entry], ends with [world_view]: every row a full query lists, so it shows whether the OTHER
    members of the batch have moved). Companion of BatchView.v (relation-free batches); helper prefix [bvr_].

    Method: purely structural, from the shape of [w_set_relations_batch] = lock; PLAN every table; fire ALL
    OnRemoveRelations events; do ALL moves with the batch callbacks; fire ALL OnAddRelations events; register
    targets; unlock. No storage invariant is needed for the ordering statement:
    - a frame calculus for an arbitrary preorder on states ([bvr_fr], [bvr_fr_bind], ...), instantiated with
      [bvr_plan] (planning moves no row: index, pool, log, lock, observers unchanged, every table keeps its
      rows), [bvr_moved] (the moves touch tables and index only and log one [101; id; gen] per row), [bvr_vw]
      (planning keeps what a full query lists, provided recycled tables are empty);
    - the event phases of a run that RETURNED, with passive observers ([o_cb = 0], as in BatchView), only log
      and cycle a lock bit, and every entry is [v_cb_entry oi e V] for the state [V] the phase started in
      ([bvr_fire_rows_inv], [bvr_fire_removes_inv], [bvr_fire_adds_inv]; that the run returned replaces the
      invariant that would otherwise guarantee the snapshots exist, [bvr_snap_ok_of_run]).

    Main theorems (hypotheses: [bv_lock_ok (w_lock s) []] - unlocked, lock well formed -, [bv_passive] for the
    two relation events):
    - [set_relations_batch_view]: a successful call has states [s_pre] (after planning) and [s_post] (after
      all moves) with log = [bv_entries s_pre Pr ++ map b_entry es ++ bv_entries s_post Pa]: ALL
      OnRemoveRelations entries are computed on [s_pre] and precede every batch-callback entry and every
      OnAddRelations entry; ALL OnAddRelations entries are computed on [s_post]. [bvr_pre s lb s_pre]: no row
      has moved in [s_pre] (same index, pool, rows of every table; only the operation's lock bit [lb] is
      held); [bvr_vw s s_pre]: if recycled tables are empty ([bvr_free_empty], clause [ri_freed] of [St2]) the
      listing is the same for every per-table reading (hence same [world_view] and occurrence counts,
      [bvr_listing_view], [bvr_listing_count]) and the non-empty tables are literally the same; [s_post] has
      the tables, archetypes, index and pool of the final state; the pairs are registered observers and rows
      of the planned source tables in [s_pre] resp. of the destination tables in [s_post] ([bvr_rem_ok],
      [bvr_add_ok]); the world is unlocked at the end.
    - [set_relations_batch_timing] (under [St2 s]): the same without intermediate states: every
      OnRemoveRelations entry is [bvr_locked_entry oi e s] (the entry computed on the PRE-STATE, locked), every
      OnAddRelations entry is [bvr_locked_entry oi e s'] (computed on the FINAL state, locked)
      ([bvr_pre_entry], [bvr_post_entry]).
    - [set_relations_batch_rejected]: if planning fails for any table, the call fails with that error before
      any row moved ([w_index], [w_pool], rows of every table, the listing as above), nothing is logged, the
      world is unlocked again; tables created by the planning of earlier tables remain.
    Not proved here: the exact set of (observer, entity) pairs (needs the observer-manager invariant and the
    storage effect of the relation tier, Rel2BatchSetRel.v), the storage effect itself.
    Non-vacuity: [set_relations_batch_view_nonvacuous] (a reachable [St2] world, two non-empty tables in the
    batch), [set_relations_batch_view_example] (its computed log: the removal entry of the entity of the SECOND
    table shows the entities of the FIRST table still at their old target), [set_relations_batch_rejected_*]. *)
From Ark Require Import Model.Base Model.Mask Model.Pool Model.Util Model.World Model.Run.
From Ark Require Import Proofs.TableProofs Proofs.MaskProofs Proofs.WF Proofs.StorageA Proofs.StorageBDefs.
From Ark Require Import Proofs.StorageB_sb1 Proofs.StorageB_sb2 Proofs.StorageB_sb3 Proofs.ViewProofs.
From Ark Require Import Proofs.ObsSpec Proofs.ObsProofs Proofs.LockWorld Proofs.StorageC Proofs.RelProofs.
From Ark Require Import Proofs.ObsDoc Proofs.CacheProofs Proofs.QueryProofs Proofs.BatchProofs Proofs.BatchOps Proofs.BatchView.
From Ark Require Proofs.LockSpec Proofs.LockProofs Proofs.Rel2Hist Proofs.Rel2Batch.
From Ark Require Import Properties.Common.
From RecordUpdate Require Import RecordSet.
Import RecordSetNotations.
From Coq Require Import Lia.

(* ------------------------------------------------------------------ *)
(** ** A frame calculus for a preorder on states *)

Section Frame.
  Variable R : W -> W -> Prop.
  Hypothesis Rrefl : forall s, R s s.
  Hypothesis Rtrans : forall a b c, R a b -> R b c -> R a c.

  (** [bvr_fr m]: whatever [m] does (return or fail), the state it ends in is [R]-related to the start. *)
  Definition bvr_fr {A} (m : MW A) : Prop := forall s, R s (state_of (m s)).

  Lemma bvr_fr_ro : forall A (m : MW A), readonly m -> bvr_fr m.
  Proof. intros A m H s. rewrite H. apply Rrefl. Qed.
  Lemma bvr_fr_ret : forall A (a : A), bvr_fr (ret a).
  Proof. intros A a s. apply Rrefl. Qed.
  Lemma bvr_fr_fail : forall A e, bvr_fr (@fail W A e).
  Proof. intros A e s. apply Rrefl. Qed.
  Lemma bvr_fr_get : bvr_fr (@get W).
  Proof. intros s. apply Rrefl. Qed.
  Lemma bvr_fr_guard : forall b e, bvr_fr (@guard W b e).
  Proof. intros b e s. destruct b; apply Rrefl. Qed.
  Lemma bvr_fr_of_opt : forall A (o : option A) e, bvr_fr (@of_opt W A o e).
  Proof. intros A o e s. destruct o; apply Rrefl. Qed.
  Lemma bvr_fr_bind : forall A B (m : MW A) (k : A -> MW B), bvr_fr m -> (forall a, bvr_fr (k a)) -> bvr_fr (bind m k).
  Proof.
    intros A B m k Hm Hk s. unfold bind. specialize (Hm s). destruct (m s) as [a s1|e s1]; cbn [state_of] in Hm.
    - eapply Rtrans; [exact Hm|apply Hk].
    - exact Hm.
  Qed.
  Lemma bvr_fr_getbind : forall B (k : W -> MW B), (forall s0, bvr_fr (k s0)) -> bvr_fr (bind get k).
  Proof. intros B k Hk. apply bvr_fr_bind; [apply bvr_fr_get|exact Hk]. Qed.
  Lemma bvr_fr_modify : forall f : W -> W, (forall s, R s (f s)) -> bvr_fr (modify f).
  Proof. intros f H s. apply H. Qed.
  Lemma bvr_fr_whenM : forall b m, bvr_fr m -> bvr_fr (whenM b m).
  Proof. intros b m H. destruct b; [exact H|apply bvr_fr_ret]. Qed.
  Lemma bvr_fr_forM : forall A (l : list A) (f : A -> MW unit), (forall a, bvr_fr (f a)) -> bvr_fr (forM_ l f).
  Proof.
    intros A l f Hf. induction l as [|x l IH]; cbn [forM_]; [apply bvr_fr_ret|].
    apply bvr_fr_bind; [apply Hf|intros _; exact IH].
  Qed.
  Lemma bvr_fr_mapM : forall A B (l : list A) (f : A -> MW B), (forall a, bvr_fr (f a)) -> bvr_fr (mapM l f).
  Proof.
    intros A B l f Hf. induction l as [|x l IH]; cbn [mapM]; [apply bvr_fr_ret|].
    apply bvr_fr_bind; [apply Hf|intros y]. apply bvr_fr_bind; [exact IH|intros ys; apply bvr_fr_ret].
  Qed.
  Lemma bvr_fr_ok : forall A (m : MW A) s a s', bvr_fr m -> m s = Ok a s' -> R s s'.
  Proof. intros A m s a s' H E. specialize (H s). rewrite E in H. exact H. Qed.
  Lemma bvr_fr_err : forall A (m : MW A) s e s', bvr_fr m -> m s = Err e s' -> R s s'.
  Proof. intros A m s e s' H E. specialize (H s). rewrite E in H. exact H. Qed.
End Frame.

Ltac bvr_step Rr Rt :=
  lazymatch goal with
  | |- bvr_fr _ (ret _) => apply (bvr_fr_ret _ Rr)
  | |- bvr_fr _ (fail _) => apply (bvr_fr_fail _ Rr)
  | |- bvr_fr _ get => apply (bvr_fr_get _ Rr)
  | |- bvr_fr _ (guard _ _) => apply (bvr_fr_guard _ Rr)
  | |- bvr_fr _ (of_opt _ _) => apply (bvr_fr_of_opt _ Rr)
  | |- bvr_fr _ (whenM _ _) => apply (bvr_fr_whenM _ Rr)
  | |- bvr_fr _ (forM_ _ _) => apply (bvr_fr_forM _ Rr Rt); intros ?
  | |- bvr_fr _ (mapM _ _) => apply (bvr_fr_mapM _ Rr Rt); intros ?
  | |- bvr_fr _ (bind get _) => apply (bvr_fr_getbind _ Rr Rt); intros ?
  | |- bvr_fr _ (bind _ _) => apply (bvr_fr_bind _ Rt); [|intros ?]
  | |- bvr_fr _ (match ?x with _ => _ end) => destruct x
  end.
Ltac bvr_tac Rr Rt := repeat (bvr_step Rr Rt).

(* ------------------------------------------------------------------ *)
(** ** Event phases of a call that RETURNED: passive callbacks only log *)

(** A callback that returns found the snapshot of its entity (if the entity is alive). *)
Lemma bvr_snap_ok_of_run : forall oi e s u s', run_callback oi e s = Ok u s' -> bv_snap_ok s e.
Proof.
  intros oi e s u s' H Al Sn. unfold run_callback in H. unfold bind at 1 in H. unfold get at 1 in H. cbv zeta in H.
  rewrite Al in H. unfold bind at 1 in H. destruct (lockM s) as [b s1|er s1]; [|discriminate].
  unfold bind at 1 in H. unfold get at 1 in H. unfold bind at 1 in H.
  destruct (unlockM b s1) as [[] s2|er s2]; [|discriminate].
  unfold bind at 1 in H. destruct (snapshot_entity s e) as [snap|]; [congruence|]. cbn in H. discriminate.
Qed.

Lemma bvr_run_callback_inv : forall oi e s o held u s',
  bv_lock_ok (w_lock s) held -> length held < 64 ->
  nth_error (w_obs s) oi = Some o -> o_cb o = 0 -> run_callback oi e s = Ok u s' ->
  bv_ev held s s' [v_cb_entry oi e s].
Proof.
  intros oi e s o held u s' HL Hlt Ho Hcb H.
  destruct (bv_run_callback oi e s o held HL Hlt Ho Hcb (bvr_snap_ok_of_run oi e s u s' H)) as (s'' & R & EV).
  rewrite H in R. inversion R; subst. exact EV.
Qed.

Lemma bvr_fire_loop_inv : forall pred e l s found held r s',
  bv_lock_ok (w_lock s) held -> length held < 64 ->
  (forall oi, In oi l -> exists o, nth_error (w_obs s) oi = Some o /\ o_cb o = 0) ->
  fire_loop run_callback pred e l found s = Ok r s' ->
  exists L, incl L l /\ bv_ev held s s' (map (fun oi => v_cb_entry oi e s) L).
Proof.
  intros pred e l. induction l as [|a l IH]; intros s found held r s' HL Hlt Hp H.
  - cbn in H. inversion H; subst. exists []. split; [intros x []|apply bv_ev_refl; exact HL].
  - destruct (Hp a (or_introl eq_refl)) as (o & Ho & Hcb).
    cbn [fire_loop] in H.
    assert (G : getO a s = Ok o s) by (unfold getO, bind, get; rewrite Ho; reflexivity).
    rewrite (sa_bind_ok G) in H.
    assert (Hp' : forall oi, In oi l -> exists o0, nth_error (w_obs s) oi = Some o0 /\ o_cb o0 = 0)
      by (intros oi Hin; apply Hp; right; exact Hin).
    destruct (pred o).
    + destruct (run_callback a e s) as [u s1|er s1] eqn:RC; [|rewrite (sa_bind_err RC) in H; discriminate].
      rewrite (sa_bind_ok RC) in H.
      pose proof (bvr_run_callback_inv a e s o held u s1 HL Hlt Ho Hcb RC) as EV.
      pose proof EV as (SS1 & MS1 & HL1 & LG1).
      assert (Eobs : w_obs s1 = w_obs s) by apply MS1.
      destruct (IH s1 true held r s' HL1 Hlt) as (L & HI & EV').
      { rewrite Eobs. exact Hp'. }
      { exact H. }
      exists (a :: L). split.
      { intros x [<-|Hx]; [left; reflexivity|right; apply HI; exact Hx]. }
      cbn [map]. change (v_cb_entry a e s :: map (fun oi => v_cb_entry oi e s) L)
        with ([v_cb_entry a e s] ++ map (fun oi => v_cb_entry oi e s) L).
      eapply bv_ev_trans; [exact EV|].
      rewrite (map_ext (fun oi => v_cb_entry oi e s) (fun oi => v_cb_entry oi e s1)); [exact EV'|].
      intros oi. symmetry. exact (bv_entry_ev oi e held s s1 _ HL EV).
    + destruct (IH s found held r s' HL Hlt Hp' H) as (L & HI & EV).
      exists L. split; [intros x Hx; right; apply HI; exact Hx|exact EV].
Qed.

Lemma bvr_fire_inv : forall evt early pred e eo s held r s',
  bv_lock_ok (w_lock s) held -> length held < 64 -> bv_passive s evt ->
  fire evt early pred e eo s = Ok r s' ->
  exists L, incl L (olist s evt) /\ bv_ev held s s' (map (fun oi => v_cb_entry oi e s) L).
Proof.
  intros evt early pred e eo s held r s' HL Hlt Hp H.
  unfold fire, fire_with in H. unfold bind at 1 in H. unfold get at 1 in H. cbv beta iota in H.
  destruct (eo && early (get_agg s evt))%bool.
  - cbn in H. inversion H; subst. exists []. split; [intros x []|apply bv_ev_refl; exact HL].
  - exact (bvr_fire_loop_inv pred e (olist s evt) s false held r s' HL Hlt Hp H).
Qed.

(** (observer, entity) pairs of an event phase: observers registered for [evt], entities among [es]. *)
Definition bvr_pairs_ok (V : W) (evt : nat) (es : list ent) (P : list (nat * ent)) : Prop :=
  forall p, In p P -> In (fst p) (olist V evt) /\ In (snd p) es.

Lemma bvr_entries_app : forall V P1 P2, bv_entries V (P1 ++ P2) = bv_entries V P1 ++ bv_entries V P2.
Proof. intros. unfold bv_entries. apply map_app. Qed.

(** The batch idiom [fire_rows] on a successor [s] of the view state [V] (same storage, same observers,
    same held bits): every entry is [v_cb_entry oi e V]. *)
Lemma bvr_fire_rows_inv : forall evt early pred es eo V s held s',
  bv_lock_ok (w_lock V) held -> storage_same V s -> bv_mgr_same V s -> bv_lock_ok (w_lock s) held ->
  length held < 64 -> bv_passive V evt ->
  fire_rows (fun e eo => fire evt early pred e eo) es eo s = Ok tt s' ->
  exists P, bvr_pairs_ok V evt es P /\ bv_ev held s s' (bv_entries V P).
Proof.
  intros evt early pred es. induction es as [|e es IH]; intros eo V s held s' HLV SS MS HL Hlt Hp H.
  - cbn in H. inversion H; subst. exists []. split; [intros p []|apply bv_ev_refl; exact HL].
  - cbn [fire_rows] in H.
    destruct (fire evt early pred e eo s) as [r s1|er s1] eqn:F; [|rewrite (sa_bind_err F) in H; discriminate].
    rewrite (sa_bind_ok F) in H.
    destruct (bvr_fire_inv evt early pred e eo s held r s1 HL Hlt (bv_passive_same V s evt MS Hp) F) as (L & HI & EV).
    assert (EL : map (fun oi => v_cb_entry oi e s) L = bv_entries V (map (fun oi => (oi, e)) L)).
    { unfold bv_entries. rewrite map_map. apply map_ext. intros oi. cbn [fst snd]. apply bv_entry_ext; [exact SS|].
      rewrite (bv_is_locked V held HLV), (bv_is_locked s held HL). reflexivity. }
    rewrite EL in EV.
    assert (PK : bvr_pairs_ok V evt (e :: es) (map (fun oi => (oi, e)) L)).
    { intros p Hin. apply in_map_iff in Hin. destruct Hin as (oi & <- & Hoi). cbn [fst snd]. split; [|left; reflexivity].
      apply HI in Hoi. unfold olist in *. destruct MS as (_ & M2 & _). rewrite <- M2. exact Hoi. }
    destruct r.
    + pose proof EV as (SS1 & MS1 & HL1 & _).
      destruct (IH false V s1 held s' HLV) as (P & PK' & EV').
      { eapply sb3_storage_same_trans; eauto. }
      { eapply bv_mgr_same_trans; eauto. }
      { exact HL1. } { exact Hlt. } { exact Hp. } { exact H. }
      exists (map (fun oi => (oi, e)) L ++ P). split.
      { intros p Hin. apply in_app_or in Hin. destruct Hin as [Hin|Hin]; [apply PK; exact Hin|].
        destruct (PK' p Hin) as (Q1 & Q2). split; [exact Q1|right; exact Q2]. }
      rewrite bvr_entries_app. eapply bv_ev_trans; eauto.
    + cbn in H. inversion H; subst. exists (map (fun oi => (oi, e)) L). split; [exact PK|exact EV].
Qed.

(** A loop of event phases that returned. *)
Lemma bvr_forM_ev : forall A (f : A -> MW unit) (G : list (nat * ent) -> Prop) held l V s s',
  G [] -> (forall P1 P2, G P1 -> G P2 -> G (P1 ++ P2)) ->
  storage_same V s -> bv_mgr_same V s -> bv_lock_ok (w_lock s) held ->
  (forall x s1 s2, In x l -> storage_same V s1 -> bv_mgr_same V s1 -> bv_lock_ok (w_lock s1) held ->
     f x s1 = Ok tt s2 -> exists P, G P /\ bv_ev held s1 s2 (bv_entries V P)) ->
  forM_ l f s = Ok tt s' ->
  exists P, G P /\ bv_ev held s s' (bv_entries V P).
Proof.
  intros A f G held l V s s' G0 Gapp. revert s. induction l as [|x l IH]; intros s SS MS HL Hf H.
  - cbn in H. inversion H; subst. exists []. split; [exact G0|apply bv_ev_refl; exact HL].
  - cbn [forM_] in H. destruct (f x s) as [[] s1|er s1] eqn:F; [|rewrite (sa_bind_err F) in H; discriminate].
    rewrite (sa_bind_ok F) in H.
    destruct (Hf x s s1 (or_introl eq_refl) SS MS HL F) as (P1 & G1 & EV1).
    pose proof EV1 as (SS1 & MS1 & HL1 & _).
    destruct (IH s1) as (P2 & G2 & EV2).
    { eapply sb3_storage_same_trans; eauto. }
    { eapply bv_mgr_same_trans; eauto. }
    { exact HL1. }
    { intros y sa sb Hy. apply Hf. right. exact Hy. }
    { exact H. }
    exists (P1 ++ P2). split; [apply Gapp; assumption|]. rewrite bvr_entries_app. eapply bv_ev_trans; eauto.
Qed.

(* ------------------------------------------------------------------ *)
(** ** Phase 0: planning moves no row *)

(** [bvr_plan s s']: the entity index, the pool, the log, the lock and the observer manager are the
    same; every table of [s] is still there with the same rows (length, entities, columns, component
    ids); tables may have been created or - a free table - relabelled with new relation targets. *)
Definition bvr_plan (s s' : W) : Prop :=
  w_index s' = w_index s /\ w_pool s' = w_pool s /\ w_log s' = w_log s /\ w_lock s' = w_lock s /\
  bv_mgr_same s s' /\ w_reg s' = w_reg s /\ w_cfg s' = w_cfg s /\ w_filters s' = w_filters s /\
  (forall tid t, nth_error (w_tables s) tid = Some t ->
     exists t', nth_error (w_tables s') tid = Some t' /\ table_same_data t t').

Lemma bvr_same_data_refl : forall t, table_same_data t t.
Proof. intros t. unfold table_same_data. repeat split. Qed.
Lemma bvr_same_data_trans : forall a b c, table_same_data a b -> table_same_data b c -> table_same_data a c.
Proof.
  intros a b c (A1 & A2 & A3 & A4 & A5 & A6 & A7) (B1 & B2 & B3 & B4 & B5 & B6 & B7).
  unfold table_same_data. repeat split; congruence.
Qed.

Lemma bvr_plan_refl : forall s, bvr_plan s s.
Proof.
  intros s. unfold bvr_plan. repeat split. intros tid t Ht. exists t. split; [exact Ht|apply bvr_same_data_refl].
Qed.
Lemma bvr_plan_trans : forall a b c, bvr_plan a b -> bvr_plan b c -> bvr_plan a c.
Proof.
  intros a b c (A1 & A2 & A3 & A4 & A5 & A6 & A7 & A8 & A9) (B1 & B2 & B3 & B4 & B5 & B6 & B7 & B8 & B9).
  unfold bvr_plan.
  split; [congruence|]. split; [congruence|]. split; [congruence|]. split; [congruence|].
  split; [eapply bv_mgr_same_trans; eauto|]. split; [congruence|]. split; [congruence|]. split; [congruence|].
  intros tid t Ht. destruct (A9 tid t Ht) as (t1 & H1 & D1). destruct (B9 tid t1 H1) as (t2 & H2 & D2).
  exists t2. split; [exact H2|exact (bvr_same_data_trans _ _ _ D1 D2)].
Qed.

Ltac bvr_plan_fields :=
  unfold bvr_plan; split; [reflexivity|]; split; [reflexivity|]; split; [reflexivity|]; split; [reflexivity|];
  split; [unfold bv_mgr_same; repeat split|]; split; [reflexivity|]; split; [reflexivity|]; split; [reflexivity|].

(** An update that leaves the listed fields and the table list alone. *)
Ltac bvr_plan_same :=
  let tid := fresh "tid" in let t := fresh "t" in let Ht := fresh "Ht" in
  bvr_plan_fields; intros tid t Ht; exists t; split; [exact Ht|apply bvr_same_data_refl].

Lemma bvr_plan_modT : forall i (g : table -> table), (forall t, table_same_data t (g t)) ->
  forall s, bvr_plan s (s <| w_tables ::= updf i g |>).
Proof.
  intros i g Hg s. bvr_plan_fields. intros tid t Ht. cbn.
  rewrite TableProofs.nth_error_updf. destruct (Nat.eqb_spec i tid) as [->|Hne].
  - rewrite Ht. cbn [option_map]. exists (g t). split; [reflexivity|apply Hg].
  - exists t. split; [exact Ht|apply bvr_same_data_refl].
Qed.

Lemma bvr_plan_snoc : forall t0 s, bvr_plan s (s <| w_tables ::= fun l => l ++ [t0] |>).
Proof.
  intros t0 s. bvr_plan_fields. intros tid t Ht. cbn. exists t. split; [|apply bvr_same_data_refl].
  rewrite nth_error_app1; [exact Ht|]. apply nth_error_Some. congruence.
Qed.

Notation bvr_pf := (bvr_fr bvr_plan).
Ltac bvr_ptac := bvr_tac bvr_plan_refl bvr_plan_trans.

Lemma bvr_pf_ro : forall A (m : MW A), readonly m -> bvr_pf m.
Proof. intros A m H. exact (bvr_fr_ro _ bvr_plan_refl A m H). Qed.

Lemma bvr_pf_register_targets : forall rels, bvr_pf (register_targets rels).
Proof.
  intros rels. unfold register_targets. bvr_ptac.
  apply (bvr_fr_modify bvr_plan). intros s. bvr_plan_same.
Qed.

Lemma bvr_pf_modA : forall i f, bvr_pf (modA i f).
Proof. intros i f. unfold modA. apply (bvr_fr_modify bvr_plan). intros s. bvr_plan_same. Qed.

Lemma bvr_pf_cache_add_table : forall tid t am, bvr_pf (cache_add_table tid t am).
Proof.
  intros tid t am. unfold cache_add_table. bvr_ptac.
  apply (bvr_fr_modify bvr_plan). intros s. bvr_plan_same.
Qed.

Lemma bvr_ro_check_rel : forall r, readonly (check_rel r).
Proof. intros r. unfold check_rel. ro. Qed.

Lemma bvr_pf_create_table : forall aid rels, bvr_pf (create_table aid rels).
Proof.
  intros aid rels. unfold create_table.
  apply (bvr_fr_bind _ bvr_plan_trans); [apply bvr_pf_ro, QueryProofs.q_ro_getA|intros a].
  apply (bvr_fr_bind _ bvr_plan_trans); [apply (bvr_fr_guard _ bvr_plan_refl)|intros _].
  apply (bvr_fr_bind _ bvr_plan_trans); [apply (bvr_fr_guard _ bvr_plan_refl)|intros _].
  apply (bvr_fr_bind _ bvr_plan_trans); [apply (bvr_fr_of_opt _ bvr_plan_refl)|intros targets].
  apply (bvr_fr_bind _ bvr_plan_trans); [apply bvr_pf_ro, readonly_forM; intros r; apply bvr_ro_check_rel|intros _].
  apply (bvr_fr_bind _ bvr_plan_trans); [apply bvr_pf_register_targets|intros _].
  apply (bvr_fr_getbind _ bvr_plan_refl bvr_plan_trans). intros s0.
  apply (bvr_fr_bind _ bvr_plan_trans).
  - destruct (rev (a_free a)) as [|f fr].
    + cbv zeta. apply (bvr_fr_bind _ bvr_plan_trans); [|intros _; apply (bvr_fr_ret _ bvr_plan_refl)].
      apply (bvr_fr_modify bvr_plan). intros s. apply bvr_plan_snoc.
    + apply (bvr_fr_bind _ bvr_plan_trans); [apply bvr_pf_modA|intros _].
      apply (bvr_fr_bind _ bvr_plan_trans); [|intros _; apply (bvr_fr_ret _ bvr_plan_refl)].
      unfold modT. apply (bvr_fr_modify bvr_plan). intros s. apply bvr_plan_modT.
      intros t. unfold table_same_data. repeat split.
  - intros tid.
    apply (bvr_fr_bind _ bvr_plan_trans); [apply bvr_pf_ro, readonly_getT|intros t].
    apply (bvr_fr_bind _ bvr_plan_trans); [apply bvr_pf_modA|intros _].
    apply (bvr_fr_bind _ bvr_plan_trans); [apply bvr_pf_cache_add_table|intros _].
    apply (bvr_fr_ret _ bvr_plan_refl).
Qed.

Lemma bvr_pf_get_or_create_table : forall aid rels, bvr_pf (get_or_create_table aid rels).
Proof.
  intros aid rels. unfold get_or_create_table.
  apply (bvr_fr_bind _ bvr_plan_trans); [apply bvr_pf_ro, QueryProofs.q_ro_getA|intros a].
  apply (bvr_fr_bind _ bvr_plan_trans); [apply bvr_pf_ro, Rel2Hist.r2e_ro_arch_get_table|intros ot].
  destruct ot; [apply (bvr_fr_ret _ bvr_plan_refl)|apply bvr_pf_create_table].
Qed.

Lemma bvr_pf_set_relations_plan : forall otid rels, bvr_pf (set_relations_plan otid rels).
Proof.
  intros otid rels. unfold set_relations_plan.
  apply (bvr_fr_bind _ bvr_plan_trans); [apply bvr_pf_ro, readonly_getT|intros ot].
  destruct (Nat.eqb (t_len ot) 0); [apply (bvr_fr_ret _ bvr_plan_refl)|].
  apply (bvr_fr_bind _ bvr_plan_trans); [apply bvr_pf_ro, Rel2Hist.r2e_ro_exchange_targets|intros r].
  destruct r as [[newrels cm]|]; [|apply (bvr_fr_ret _ bvr_plan_refl)].
  apply (bvr_fr_bind _ bvr_plan_trans); [apply bvr_pf_get_or_create_table|intros ntid].
  apply (bvr_fr_ret _ bvr_plan_refl).
Qed.

Lemma bvr_ro_get_batch_tables : forall fi rels, readonly (get_batch_tables fi rels).
Proof. intros fi rels s. apply Rel2Batch.r2B_gbt_state. Qed.

(** The planning phase as one computation. *)
Definition bvr_planning (fi : nat) (brels rels : list rel) : MW (list (option (nat * nat * nat * mask))) :=
  tables <- get_batch_tables fi brels ;; mapM tables (fun tid => set_relations_plan tid rels).

Lemma bvr_pf_planning : forall fi brels rels, bvr_pf (bvr_planning fi brels rels).
Proof.
  intros fi brels rels. unfold bvr_planning.
  apply (bvr_fr_bind _ bvr_plan_trans); [apply bvr_pf_ro, bvr_ro_get_batch_tables|intros tables].
  apply (bvr_fr_mapM _ bvr_plan_refl bvr_plan_trans). intros tid. apply bvr_pf_set_relations_plan.
Qed.

(* ------------------------------------------------------------------ *)
(** ** Phase 2: the moves only touch tables and index, and log one batch-callback entry per row *)

Definition bvr_moved (s s' : W) : Prop :=
  w_lock s' = w_lock s /\ bv_mgr_same s s' /\ w_pool s' = w_pool s /\ w_archs s' = w_archs s /\
  w_istarget s' = w_istarget s /\ w_reg s' = w_reg s /\ w_cfg s' = w_cfg s /\
  exists es, w_log s' = w_log s ++ map b_entry es.

Lemma bvr_moved_refl : forall s, bvr_moved s s.
Proof.
  intros s. unfold bvr_moved. split; [reflexivity|]. split; [apply bv_mgr_same_refl|].
  do 5 (split; [reflexivity|]). exists []. cbn. rewrite app_nil_r. reflexivity.
Qed.
Lemma bvr_moved_trans : forall a b c, bvr_moved a b -> bvr_moved b c -> bvr_moved a c.
Proof.
  intros a b c (A1 & A2 & A3 & A4 & A5 & A6 & A7 & (e1 & A8)) (B1 & B2 & B3 & B4 & B5 & B6 & B7 & (e2 & B8)).
  unfold bvr_moved. split; [congruence|]. split; [eapply bv_mgr_same_trans; eauto|].
  do 5 (split; [congruence|]). exists (e1 ++ e2). rewrite B8, A8, map_app, app_assoc. reflexivity.
Qed.

Notation bvr_mf := (bvr_fr bvr_moved).

Ltac bvr_moved_quiet :=
  unfold bvr_moved; split; [reflexivity|]; split; [unfold bv_mgr_same; repeat split|];
  do 5 (split; [reflexivity|]); exists []; cbn; rewrite app_nil_r; reflexivity.

Lemma bvr_mf_ro : forall A (m : MW A), readonly m -> bvr_mf m.
Proof. intros A m H. exact (bvr_fr_ro _ bvr_moved_refl A m H). Qed.

Lemma bvr_mf_modT : forall i g, bvr_mf (modT i g).
Proof. intros i g. unfold modT. apply (bvr_fr_modify bvr_moved). intros s. bvr_moved_quiet. Qed.

Lemma bvr_mf_move_entities : forall src dst count, bvr_mf (move_entities src dst count).
Proof.
  intros src dst count. unfold move_entities.
  apply (bvr_fr_bind _ bvr_moved_trans); [apply bvr_mf_ro, readonly_getT|intros st].
  apply (bvr_fr_bind _ bvr_moved_trans); [apply bvr_mf_ro, readonly_getT|intros dt]. cbv zeta.
  apply (bvr_fr_bind _ bvr_moved_trans); [unfold setT; apply bvr_mf_modT|intros _].
  apply (bvr_fr_bind _ bvr_moved_trans); [|intros _; apply bvr_mf_modT].
  apply (bvr_fr_forM _ bvr_moved_refl bvr_moved_trans). intros i.
  destruct (nth_error _ i); [|apply (bvr_fr_fail _ bvr_moved_refl)].
  apply (bvr_fr_modify bvr_moved). intros s. bvr_moved_quiet.
Qed.

Lemma bvr_mf_batch_callback : forall tid row, bvr_mf (batch_callback tid [] row).
Proof.
  intros tid row. unfold batch_callback.
  apply (bvr_fr_bind _ bvr_moved_trans); [apply bvr_mf_ro, readonly_getT|intros t].
  apply (bvr_fr_bind _ bvr_moved_trans); [apply (bvr_fr_of_opt _ bvr_moved_refl)|intros e].
  apply (bvr_fr_bind _ bvr_moved_trans); [|intros _; cbn [forM_]; apply (bvr_fr_ret _ bvr_moved_refl)].
  unfold log. apply (bvr_fr_modify bvr_moved). intros s.
  unfold bvr_moved. split; [reflexivity|]. split; [unfold bv_mgr_same; repeat split|].
  do 5 (split; [reflexivity|]). exists [e]. reflexivity.
Qed.

Lemma bvr_mf_set_relations_move : forall p, bvr_mf (set_relations_move p).
Proof.
  intros [[[otid ntid] len] cm]. unfold set_relations_move.
  apply (bvr_fr_bind _ bvr_moved_trans); [apply bvr_mf_ro, readonly_getT|intros nt]. cbv zeta.
  apply (bvr_fr_bind _ bvr_moved_trans); [apply bvr_mf_move_entities|intros _].
  apply (bvr_fr_bind _ bvr_moved_trans); [|intros _; apply (bvr_fr_ret _ bvr_moved_refl)].
  apply (bvr_fr_forM _ bvr_moved_refl bvr_moved_trans). intros i. apply bvr_mf_batch_callback.
Qed.

Lemma bvr_mf_moves : forall plans, bvr_mf (mapM plans set_relations_move).
Proof. intros plans. apply (bvr_fr_mapM _ bvr_moved_refl bvr_moved_trans). intros p. apply bvr_mf_set_relations_move. Qed.

(* ------------------------------------------------------------------ *)
(** ** Phases 1 and 3: the relation events *)

(** Pairs reported by the OnRemoveRelations phase: a registered OnRemoveRelations observer and one of the
    first [len] rows of a planned source table AS IT IS IN [V]. *)
Definition bvr_rem_ok (V : W) (plans : list (nat * nat * nat * mask)) (P : list (nat * ent)) : Prop :=
  forall p, In p P -> In (fst p) (olist V EvRemoveRelations) /\
    exists otid ntid len cm t, In (otid, ntid, len, cm) plans /\ nth_error (w_tables V) otid = Some t /\
      In (snd p) (firstn len (t_ents t)).

(** Pairs reported by the OnAddRelations phase: a registered OnAddRelations observer and one of the rows
    [start, start+len) of a destination table AS IT IS IN [V]. *)
Definition bvr_add_ok (V : W) (moved : list (nat * nat * nat * mask)) (P : list (nat * ent)) : Prop :=
  forall p, In p P -> In (fst p) (olist V EvAddRelations) /\
    exists ntid start len cm t, In (ntid, start, len, cm) moved /\ nth_error (w_tables V) ntid = Some t /\
      In (snd p) (firstn len (skipn start (t_ents t))).

Lemma bvr_getT_inv : forall i s t s', getT i s = Ok t s' -> s' = s /\ nth_error (w_tables s) i = Some t.
Proof.
  intros i s t s' H. unfold getT, bind, get in H. destruct (nth_error (w_tables s) i) as [t0|]; cbn in H; [|discriminate].
  inversion H; subst. auto.
Qed.

Lemma bvr_ro_inv : forall A (m : MW A) s a s', readonly m -> m s = Ok a s' -> s' = s.
Proof. intros A m s a s' H E. specialize (H s). rewrite E in H. exact H. Qed.

Lemma bvr_fire_removes_inv : forall V plans s held s',
  bv_lock_ok (w_lock V) held -> storage_same V s -> bv_mgr_same V s -> bv_lock_ok (w_lock s) held ->
  length held < 64 -> bv_passive V EvRemoveRelations ->
  set_relations_fire_removes plans s = Ok tt s' ->
  exists P, bvr_rem_ok V plans P /\ bv_ev held s s' (bv_entries V P).
Proof.
  intros V plans s held s' HLV SS MS HL Hlt Hp H. unfold set_relations_fire_removes in H.
  refine (bvr_forM_ev _ _ (bvr_rem_ok V plans) held plans V s s' _ _ SS MS HL _ H).
  - intros p [].
  - intros P1 P2 G1 G2 p Hin. apply in_app_or in Hin. destruct Hin; [apply G1|apply G2]; assumption.
  - intros [[[otid ntid] len] cm] s1 s2 Hin SS1 MS1 HL1 F.
    destruct (getT otid s1) as [ot sx|er sx] eqn:EG; [|rewrite (sa_bind_err EG) in F; discriminate].
    rewrite (sa_bind_ok EG) in F. destruct (bvr_getT_inv _ _ _ _ EG) as (-> & Hot).
    destruct (arch_mask_of_table ntid s1) as [nm sx|er sx] eqn:EM; [|rewrite (sa_bind_err EM) in F; discriminate].
    rewrite (sa_bind_ok EM) in F. rewrite (bvr_ro_inv _ _ _ _ _ (sc_ro_arch_mask ntid) EM) in F.
    change (fun (e : ent) (eo : bool) => fire_set EvRemoveRelations e cm nm eo)
      with (fun (e : ent) (eo : bool) => fire EvRemoveRelations (early_set cm nm) (p_set cm nm) e eo) in F.
    destruct (bvr_fire_rows_inv _ _ _ _ _ V s1 held s2 HLV SS1 MS1 HL1 Hlt Hp F) as (P & PK & EV).
    exists P. split; [|exact EV]. intros p Hp'. destruct (PK p Hp') as (Q1 & Q2). split; [exact Q1|].
    exists otid, ntid, len, cm, ot. split; [exact Hin|]. split; [|exact Q2].
    destruct SS1 as (_ & _ & _ & _ & _ & _ & E7 & _). rewrite <- E7. exact Hot.
Qed.

Lemma bvr_fire_adds_inv : forall V moved s held s',
  bv_lock_ok (w_lock V) held -> storage_same V s -> bv_mgr_same V s -> bv_lock_ok (w_lock s) held ->
  length held < 64 -> bv_passive V EvAddRelations ->
  set_relations_fire_adds moved s = Ok tt s' ->
  exists P, bvr_add_ok V moved P /\ bv_ev held s s' (bv_entries V P).
Proof.
  intros V moved s held s' HLV SS MS HL Hlt Hp H. unfold set_relations_fire_adds in H.
  refine (bvr_forM_ev _ _ (bvr_add_ok V moved) held moved V s s' _ _ SS MS HL _ H).
  - intros p [].
  - intros P1 P2 G1 G2 p Hin. apply in_app_or in Hin. destruct Hin; [apply G1|apply G2]; assumption.
  - intros [[[ntid start] len] cm] s1 s2 Hin SS1 MS1 HL1 F.
    destruct (arch_mask_of_table ntid s1) as [nm sx|er sx] eqn:EM; [|rewrite (sa_bind_err EM) in F; discriminate].
    rewrite (sa_bind_ok EM) in F. rewrite (bvr_ro_inv _ _ _ _ _ (sc_ro_arch_mask ntid) EM) in F.
    unfold rows_of in F.
    destruct (getT ntid s1) as [nt sy|er sy] eqn:EG.
    2:{ rewrite (sa_bind_err (sa_bind_err EG)) in F. discriminate. }
    destruct (bvr_getT_inv _ _ _ _ EG) as (-> & Hnt).
    rewrite (sa_bind_ok (m := t <- getT ntid ;; ret (firstn len (skipn start (t_ents t)))) (s := s1)
               (a := firstn len (skipn start (t_ents nt))) (s' := s1)) in F.
    2:{ rewrite (sa_bind_ok EG). reflexivity. }
    change (fun (e : ent) (eo : bool) => fire_set EvAddRelations e cm nm eo)
      with (fun (e : ent) (eo : bool) => fire EvAddRelations (early_set cm nm) (p_set cm nm) e eo) in F.
    destruct (bvr_fire_rows_inv _ _ _ _ _ V s1 held s2 HLV SS1 MS1 HL1 Hlt Hp F) as (P & PK & EV).
    exists P. split; [|exact EV]. intros p Hp'. destruct (PK p Hp') as (Q1 & Q2). split; [exact Q1|].
    exists ntid, start, len, cm, nt. split; [exact Hin|]. split; [|exact Q2].
    destruct SS1 as (_ & _ & _ & _ & _ & _ & E7 & _). rewrite <- E7. exact Hnt.
Qed.

(* ------------------------------------------------------------------ *)
(** ** The body of SetRelationsBatch (what runs while the operation holds its lock bit) *)

Definition bvr_body (fi : nat) (brels rels : list rel) : MW unit :=
  s0 <- get ;;
  let has_rem := has_obs s0 EvRemoveRelations in
  let has_add := has_obs s0 EvAddRelations in
  tables <- get_batch_tables fi brels ;;
  plans <- mapM tables (fun tid => set_relations_plan tid rels) ;;
  let plans := opt_list plans in
  whenM has_rem (set_relations_fire_removes plans) ;;;
  moved <- mapM plans set_relations_move ;;
  whenM has_add (set_relations_fire_adds moved) ;;;
  register_targets rels.

Lemma bvr_batch_eq : forall fi brels rels,
  w_set_relations_batch fi brels rels =
  (check_locked ;;; guard (negb (is_nil rels)) ENoComps ;;; l <- lockM ;;
   with_deferred_unlock l (bvr_body fi brels rels) ;;; unlockM l).
Proof. reflexivity. Qed.

(** The body, phase by phase, for a run that returned. *)
Lemma bvr_body_ok : forall fi brels rels s0 lb s3,
  bv_lock_ok (w_lock s0) [lb] -> bv_passive s0 EvRemoveRelations -> bv_passive s0 EvAddRelations ->
  bvr_body fi brels rels s0 = Ok tt s3 ->
  exists s_pre s_pre' s_post s_post' plans0 moved Pr Pa es tg,
    bvr_planning fi brels rels s0 = Ok plans0 s_pre /\
    bv_lock_ok (w_lock s_pre) [lb] /\
    bvr_rem_ok s_pre (opt_list plans0) Pr /\ bv_ev [lb] s_pre s_pre' (bv_entries s_pre Pr) /\
    mapM (opt_list plans0) set_relations_move s_pre' = Ok moved s_post /\
    bvr_moved s_pre' s_post /\ w_log s_post = w_log s_pre' ++ map b_entry es /\
    bvr_add_ok s_post moved Pa /\ bv_ev [lb] s_post s_post' (bv_entries s_post Pa) /\
    s3 = s_post' <| w_istarget := tg |>.
Proof.
  intros fi brels rels s0 lb s3 HL0 Hpr Hpa H.
  unfold bvr_body in H. unfold bind at 1 in H. unfold get at 1 in H. cbv zeta in H.
  destruct (get_batch_tables fi brels s0) as [tables sx|er sx] eqn:EG; [|rewrite (sa_bind_err EG) in H; discriminate].
  rewrite (sa_bind_ok EG) in H.
  pose proof (bvr_ro_inv _ _ _ _ _ (bvr_ro_get_batch_tables fi brels) EG) as ->.
  destruct (mapM tables (fun tid => set_relations_plan tid rels) s0) as [plans0 s1|er s1] eqn:EP;
    [|rewrite (sa_bind_err EP) in H; discriminate].
  rewrite (sa_bind_ok EP) in H.
  assert (EPl : bvr_planning fi brels rels s0 = Ok plans0 s1).
  { unfold bvr_planning. rewrite (sa_bind_ok EG). exact EP. }
  pose proof (bvr_fr_ok bvr_plan _ _ _ _ _ (bvr_pf_planning fi brels rels) EPl) as (P1 & P2 & P3 & P4 & P5 & P6 & P7 & P8 & P9).
  assert (HL1 : bv_lock_ok (w_lock s1) [lb]) by (rewrite P4; exact HL0).
  assert (Hlt : length [lb] < 64) by (cbn; lia).
  (* phase 1 *)
  assert (Ph1 : exists s1' Pr, whenM (has_obs s0 EvRemoveRelations) (set_relations_fire_removes (opt_list plans0)) s1 = Ok tt s1' /\
                 bvr_rem_ok s1 (opt_list plans0) Pr /\ bv_ev [lb] s1 s1' (bv_entries s1 Pr)).
  { destruct (whenM (has_obs s0 EvRemoveRelations) (set_relations_fire_removes (opt_list plans0)) s1) as [[] s1'|er s1'] eqn:E1;
      [|rewrite (sa_bind_err E1) in H; discriminate].
    destruct (has_obs s0 EvRemoveRelations).
    - cbn [whenM] in E1.
      destruct (bvr_fire_removes_inv s1 (opt_list plans0) s1 [lb] s1' HL1 (sb3_storage_same_refl s1) (bv_mgr_same_refl s1) HL1 Hlt
                  (bv_passive_same s0 s1 _ P5 Hpr) E1) as (Pr & G & EV).
      exists s1', Pr. auto.
    - cbn in E1. inversion E1; subst. exists s1', []. split; [reflexivity|]. split; [intros p []|apply bv_ev_refl; exact HL1]. }
  destruct Ph1 as (s1' & Pr & E1 & GPr & EV1). rewrite (sa_bind_ok E1) in H.
  pose proof EV1 as (SS1 & MS1 & HL1' & LG1).
  (* phase 2 *)
  destruct (mapM (opt_list plans0) set_relations_move s1') as [moved s2|er s2] eqn:E2; [|rewrite (sa_bind_err E2) in H; discriminate].
  rewrite (sa_bind_ok E2) in H.
  pose proof (bvr_fr_ok bvr_moved _ _ _ _ _ (bvr_mf_moves (opt_list plans0)) E2) as MV.
  pose proof MV as (M1 & M2 & M3 & M4 & M5 & M6 & M7 & (es & M8)).
  assert (HL2 : bv_lock_ok (w_lock s2) [lb]) by (rewrite M1; exact HL1').
  assert (MS02 : bv_mgr_same s0 s2).
  { eapply bv_mgr_same_trans; [exact P5|]. eapply bv_mgr_same_trans; [exact MS1|exact M2]. }
  (* phase 3 *)
  assert (Ph3 : exists s2' Pa, whenM (has_obs s0 EvAddRelations) (set_relations_fire_adds moved) s2 = Ok tt s2' /\
                 bvr_add_ok s2 moved Pa /\ bv_ev [lb] s2 s2' (bv_entries s2 Pa)).
  { destruct (whenM (has_obs s0 EvAddRelations) (set_relations_fire_adds moved) s2) as [[] s2'|er s2'] eqn:E3;
      [|rewrite (sa_bind_err E3) in H; discriminate].
    destruct (has_obs s0 EvAddRelations).
    - cbn [whenM] in E3.
      destruct (bvr_fire_adds_inv s2 moved s2 [lb] s2' HL2 (sb3_storage_same_refl s2) (bv_mgr_same_refl s2) HL2 Hlt
                  (bv_passive_same s0 s2 _ MS02 Hpa) E3) as (Pa & G & EV).
      exists s2', Pa. auto.
    - cbn in E3. inversion E3; subst. exists s2', []. split; [reflexivity|]. split; [intros p []|apply bv_ev_refl; exact HL2]. }
  destruct Ph3 as (s2' & Pa & E3 & GPa & EV3). rewrite (sa_bind_ok E3) in H.
  (* registering the targets *)
  destruct (Rel2Struct.r2_register_targets_gen rels s2') as (tg & Etg & _).
  rewrite H in Etg. cbn [state_of] in Etg.
  exists s1, s1', s2, s2', plans0, moved, Pr, Pa, es, tg.
  split; [exact EPl|]. split; [exact HL1|]. split; [exact GPr|]. split; [exact EV1|]. split; [exact E2|].
  split; [exact MV|]. split; [exact M8|]. split; [exact GPa|]. split; [exact EV3|exact Etg].
Qed.

(* ------------------------------------------------------------------ *)
(** ** Planning does not change what a full query lists (if recycled tables are empty) *)

(** Free (recycled) tables hold no rows: clause [ri_freed] of the relation invariant (Rel2Defs). It is all
    the planning phase needs in order to leave [world_view] alone. *)
Definition bvr_free_empty (s : W) : Prop :=
  forall aid a tid t, nth_error (w_archs s) aid = Some a -> In tid (a_free a) ->
    nth_error (w_tables s) tid = Some t -> t_len t = 0.

Lemma bvr_free_empty_St2 : forall s, Rel2Defs.St2 s -> bvr_free_empty s.
Proof.
  intros s (_ & HR & _) aid a tid t Ha Hin Ht. unfold Rel2Defs.RelInv in HR. destruct HR as (HR & _).
  exact (proj2 (Rel2Defs.ri_freed _ _ HR aid a tid t Ha Hin Ht)).
Qed.

(** [bvr_vw s s']: if free tables are empty in [s] they are in [s'], a full query lists the same rows, and
    the non-empty tables are literally the same. *)
(** A per-table reading [phi] (rows view, occurrence count, ...) over the listed tables; readings that
    vanish on empty tables are what a full query can tell. *)
Definition bvr_tv {B} (phi : table -> list B) (s : W) (tid : nat) : list B :=
  match nth_error (w_tables s) tid with Some t => phi t | None => [] end.
Definition bvr_empty (s : W) (tid : nat) : Prop := forall t, nth_error (w_tables s) tid = Some t -> t_len t = 0.
Definition bvr_same_listing (s s' : W) : Prop :=
  forall B (phi : table -> list B), (forall t, t_len t = 0 -> phi t = []) ->
    flat_map (bvr_tv phi s') (v_listed s') = flat_map (bvr_tv phi s) (v_listed s).

Definition bvr_vwc (s s' : W) : Prop :=
  bvr_free_empty s' /\ bvr_same_listing s s' /\
  (forall tid t, nth_error (w_tables s) tid = Some t -> 0 < t_len t -> nth_error (w_tables s') tid = Some t) /\
  (forall tid t', nth_error (w_tables s') tid = Some t' -> 0 < t_len t' -> nth_error (w_tables s) tid = Some t').
Definition bvr_vw (s s' : W) : Prop := bvr_free_empty s -> bvr_vwc s s'.

Lemma bvr_vwc_step : forall a b c, bvr_vwc a b -> bvr_vw b c -> bvr_vwc a c.
Proof.
  intros a b c (FE1 & V1 & T1 & N1) H2. destruct (H2 FE1) as (FE2 & V2 & T2 & N2).
  split; [exact FE2|]. split; [intros B phi Hphi; rewrite (V2 B phi Hphi); exact (V1 B phi Hphi)|]. split.
  - intros tid t Ht Hl. apply T2; [apply T1; assumption|exact Hl].
  - intros tid t Ht Hl. apply N1; [apply N2; assumption|exact Hl].
Qed.

Lemma bvr_vw_refl : forall s, bvr_vw s s.
Proof. intros s FE. split; [exact FE|]. split; [intros B phi _; reflexivity|]. split; auto. Qed.
Lemma bvr_vw_trans : forall a b c, bvr_vw a b -> bvr_vw b c -> bvr_vw a c.
Proof.
  intros a b c H1 H2 FE. destruct (H1 FE) as (FE1 & V1 & T1 & N1). destruct (H2 FE1) as (FE2 & V2 & T2 & N2).
  split; [exact FE2|]. split; [intros B phi Hphi; rewrite (V2 B phi Hphi); exact (V1 B phi Hphi)|]. split.
  - intros tid t Ht Hl. apply T2; [apply T1; assumption|exact Hl].
  - intros tid t Ht Hl. apply N1; [apply N2; assumption|exact Hl].
Qed.

Lemma bvr_tview_eq : forall s s' B (phi : table -> list B), (forall t, t_len t = 0 -> phi t = []) ->
  (forall tid t, nth_error (w_tables s) tid = Some t -> 0 < t_len t -> nth_error (w_tables s') tid = Some t) ->
  (forall tid t', nth_error (w_tables s') tid = Some t' -> 0 < t_len t' -> nth_error (w_tables s) tid = Some t') ->
  forall tid, bvr_tv phi s' tid = bvr_tv phi s tid.
Proof.
  intros s s' B phi Hphi T N tid. unfold bvr_tv.
  destruct (nth_error (w_tables s') tid) as [t'|] eqn:E'.
  - destruct (t_len t') as [|n] eqn:L'.
    + rewrite (Hphi t' L'). destruct (nth_error (w_tables s) tid) as [t|] eqn:E; [|reflexivity].
      destruct (t_len t) as [|m] eqn:L; [symmetry; apply Hphi; exact L|].
      rewrite (T tid t E ltac:(lia)) in E'. inversion E'; subst. lia.
    + rewrite (N tid t' E' ltac:(lia)). reflexivity.
  - destruct (nth_error (w_tables s) tid) as [t|] eqn:E; [|reflexivity].
    destruct (t_len t) as [|m] eqn:L; [symmetry; apply Hphi; exact L|].
    rewrite (T tid t E ltac:(lia)) in E'. discriminate.
Qed.

(** The way every step of the planning is shown to satisfy [bvr_vw]. *)
Lemma bvr_vw_intro : forall s s',
  (bvr_free_empty s -> forall tid t, nth_error (w_tables s) tid = Some t -> 0 < t_len t -> nth_error (w_tables s') tid = Some t) ->
  (bvr_free_empty s -> forall tid t', nth_error (w_tables s') tid = Some t' -> 0 < t_len t' -> nth_error (w_tables s) tid = Some t') ->
  (forall aid a', nth_error (w_archs s') aid = Some a' ->
     exists a, nth_error (w_archs s) aid = Some a /\ incl (a_free a') (a_free a)) ->
  (bvr_free_empty s -> forall B (f : nat -> list B), (forall tid, bvr_empty s tid -> f tid = []) ->
     flat_map f (v_listed s') = flat_map f (v_listed s)) ->
  bvr_vw s s'.
Proof.
  intros s s' T N F L FE. specialize (T FE). specialize (N FE). specialize (L FE).
  split; [|split; [|split; [exact T|exact N]]].
  - intros aid a' tid t' Ha' Hin Ht'. destruct (t_len t') as [|n] eqn:El; [reflexivity|exfalso].
    destruct (F aid a' Ha') as (a & Ha & Hincl).
    pose proof (FE aid a tid t' Ha (Hincl tid Hin) (N tid t' Ht' ltac:(lia))). lia.
  - intros B phi Hphi. rewrite <- (L B (bvr_tv phi s)).
    + apply flat_map_ext. apply (bvr_tview_eq s s' B phi Hphi T N).
    + intros tid He. unfold bvr_tv. destruct (nth_error (w_tables s) tid) as [t|] eqn:Et; [|reflexivity].
      apply Hphi. apply He. exact Et.
Qed.

Lemma bvr_vw_quiet : forall s s', w_archs s' = w_archs s -> w_tables s' = w_tables s -> bvr_vw s s'.
Proof.
  intros s s' EA ET. apply bvr_vw_intro.
  - intros _ tid t Ht _. rewrite ET. exact Ht.
  - intros _ tid t Ht _. rewrite <- ET. exact Ht.
  - intros aid a' Ha'. exists a'. split; [rewrite <- EA; exact Ha'|apply incl_refl].
  - intros _ B f _. unfold v_listed. rewrite EA. reflexivity.
Qed.

Notation bvr_vf := (bvr_fr bvr_vw).

Lemma bvr_vf_ro : forall A (m : MW A), readonly m -> bvr_vf m.
Proof. intros A m H. exact (bvr_fr_ro _ bvr_vw_refl A m H). Qed.

(** Computations that touch neither archetypes nor tables. *)
Definition bvr_at (s s' : W) : Prop := w_archs s' = w_archs s /\ w_tables s' = w_tables s.
Lemma bvr_at_refl : forall s, bvr_at s s.
Proof. intros s. split; reflexivity. Qed.
Lemma bvr_at_trans : forall a b c, bvr_at a b -> bvr_at b c -> bvr_at a c.
Proof. intros a b c (A1 & A2) (B1 & B2). split; congruence. Qed.

Lemma bvr_at_register_targets : forall rels, bvr_fr bvr_at (register_targets rels).
Proof.
  intros rels. unfold register_targets. bvr_tac bvr_at_refl bvr_at_trans.
  apply (bvr_fr_modify bvr_at). intros s. split; reflexivity.
Qed.
Lemma bvr_at_cache_add_table : forall tid t am, bvr_fr bvr_at (cache_add_table tid t am).
Proof.
  intros tid t am. unfold cache_add_table. bvr_tac bvr_at_refl bvr_at_trans.
  apply (bvr_fr_modify bvr_at). intros s. split; reflexivity.
Qed.

Lemma bvr_arch_add_table_fields : forall a tid t,
  a_tables (arch_add_table a tid t) = a_tables a ++ [tid] /\ a_free (arch_add_table a tid t) = a_free a.
Proof.
  intros a tid t. unfold arch_add_table. destruct (negb (arch_has_rels a)); [split; reflexivity|].
  destruct (Rel2Struct.r2_atc_fields tid (t_kinds t) (t_targets t) 0 (a <| a_tables ::= fun l => l ++ [tid] |>))
    as (_ & _ & _ & E4 & E5 & _).
  rewrite E4, E5. split; reflexivity.
Qed.

Lemma bvr_listed_updf_snoc : forall B (l : list arch) aid (g : arch -> arch) tid (f : nat -> list B),
  (forall a, a_tables (g a) = a_tables a ++ [tid]) -> f tid = [] ->
  flat_map f (flat_map a_tables (updf aid g l)) = flat_map f (flat_map a_tables l).
Proof.
  intros B l aid g tid f Hg Hf. unfold updf. destruct (nth_error l aid) as [a|] eqn:Ha; [|reflexivity].
  revert aid Ha. induction l as [|b l IH]; intros aid Ha; [destruct aid; discriminate|].
  destruct aid as [|aid]; cbn [nth_error] in Ha.
  - inversion Ha; subst b. cbn [upd flat_map]. rewrite !flat_map_app. f_equal.
    rewrite Hg, flat_map_app. cbn [flat_map]. rewrite Hf. rewrite !app_nil_r. reflexivity.
  - cbn [upd flat_map]. rewrite !flat_map_app. f_equal. apply IH. exact Ha.
Qed.

Lemma bvr_listed_updf_same : forall (l : list arch) aid (g : arch -> arch),
  (forall a, a_tables (g a) = a_tables a) -> flat_map a_tables (updf aid g l) = flat_map a_tables l.
Proof.
  intros l aid g Hg. unfold updf. destruct (nth_error l aid) as [a|] eqn:Ha; [|reflexivity].
  revert aid Ha. induction l as [|b l IH]; intros aid Ha; [destruct aid; discriminate|].
  destruct aid as [|aid]; cbn [nth_error] in Ha.
  - inversion Ha; subst b. cbn [upd flat_map]. rewrite Hg. reflexivity.
  - cbn [upd flat_map]. f_equal. apply IH. exact Ha.
Qed.

Lemma bvr_updf_free : forall (l : list arch) aid (g : arch -> arch) i a',
  (forall a, incl (a_free (g a)) (a_free a)) -> nth_error (updf aid g l) i = Some a' ->
  exists a, nth_error l i = Some a /\ incl (a_free a') (a_free a).
Proof.
  intros l aid g i a' Hg H. rewrite TableProofs.nth_error_updf in H. destruct (Nat.eqb aid i).
  - destruct (nth_error l i) as [a|]; [|discriminate]. cbn in H. inversion H; subst. exists a. split; [reflexivity|apply Hg].
  - exists a'. split; [exact H|apply incl_refl].
Qed.

(** Adding an empty table to the table list of its archetype. *)
Lemma bvr_vw_add_table : forall s aid tid t, bvr_empty s tid ->
  bvr_vw s (s <| w_archs ::= updf aid (fun a0 => arch_add_table a0 tid t) |>).
Proof.
  intros s aid tid t Hv. apply bvr_vw_intro.
  - intros _ x tx Hx _. exact Hx.
  - intros _ x tx Hx _. exact Hx.
  - intros i a' Ha'. cbn in Ha'. refine (bvr_updf_free _ _ _ _ _ _ Ha').
    intros a. rewrite (proj2 (bvr_arch_add_table_fields a tid t)). apply incl_refl.
  - intros _ B f Hf. unfold v_listed. cbn.
    apply (bvr_listed_updf_snoc _ _ _ _ tid); [intros a; apply bvr_arch_add_table_fields|exact (Hf tid Hv)].
Qed.

Lemma bvr_ro_cases : forall A (m : MW A), readonly m -> forall s, (exists a, m s = Ok a s) \/ (exists e, m s = Err e s).
Proof.
  intros A m H s. specialize (H s). destruct (m s) as [a s1|e s1]; cbn [state_of] in H; subst s1; [left|right]; eauto.
Qed.

Lemma bvr_getA_inv : forall i s a s', getA i s = Ok a s' -> s' = s /\ nth_error (w_archs s) i = Some a.
Proof.
  intros i s a s' H. unfold getA, bind, get in H. destruct (nth_error (w_archs s) i) as [a0|]; cbn in H; [|discriminate].
  inversion H; subst. auto.
Qed.

(** Appending an empty table. *)
Lemma bvr_vw_snoc : forall s t0, t_len t0 = 0 -> bvr_vw s (s <| w_tables ::= fun l => l ++ [t0] |>).
Proof.
  intros s t0 H0. apply bvr_vw_intro.
  - intros _ tid t Ht _. cbn. rewrite nth_error_app1; [exact Ht|]. apply nth_error_Some. congruence.
  - intros _ tid t' Ht' Hl. cbn in Ht'. destruct (Nat.lt_ge_cases tid (length (w_tables s))) as [Hlt|Hge].
    + rewrite nth_error_app1 in Ht' by exact Hlt. exact Ht'.
    + rewrite nth_error_app2 in Ht' by exact Hge. destruct (tid - length (w_tables s)) as [|k]; cbn in Ht'.
      * inversion Ht'; subst. lia.
      * destruct k; discriminate.
  - intros aid a' Ha'. exists a'. split; [exact Ha'|apply incl_refl].
  - intros _ B f _. reflexivity.
Qed.

(** Recycling a free table: it leaves the free list of its archetype and gets new relation labels. *)
Lemma bvr_vw_recycle : forall s aid a f (h : list nat -> list nat) (g : table -> table),
  nth_error (w_archs s) aid = Some a -> In f (a_free a) -> (forall l, incl (h l) l) ->
  (forall t, t_len (g t) = t_len t) ->
  bvr_vw s (s <| w_archs ::= updf aid (fun a0 => a0 <| a_free ::= h |>) |> <| w_tables ::= updf f g |>).
Proof.
  intros s aid a f h g Ha Hf Hh Hg. apply bvr_vw_intro.
  - intros FE tid t Ht Hl. cbn. rewrite TableProofs.nth_error_updf. destruct (Nat.eqb_spec f tid) as [->|Hne]; [|exact Ht].
    pose proof (FE aid a tid t Ha Hf Ht). lia.
  - intros FE tid t' Ht' Hl. cbn in Ht'. rewrite TableProofs.nth_error_updf in Ht'.
    destruct (Nat.eqb_spec f tid) as [->|Hne]; [|exact Ht'].
    destruct (nth_error (w_tables s) tid) as [t|] eqn:Et; [|discriminate]. cbn in Ht'. inversion Ht'; subst t'.
    pose proof (FE aid a tid t Ha Hf Et). rewrite Hg in Hl. lia.
  - intros i a' Ha'. cbn in Ha'. refine (bvr_updf_free _ _ _ _ _ _ Ha'). intros a0. cbn. apply Hh.
  - intros _ B f0 _. unfold v_listed. cbn. rewrite bvr_listed_updf_same; [reflexivity|]. intros a0. reflexivity.
Qed.

Lemma bvr_empty_of : forall s tid t, nth_error (w_tables s) tid = Some t -> t_len t = 0 -> bvr_empty s tid.
Proof. intros s tid t Ht Hl t0 Ht0. rewrite Ht in Ht0. inversion Ht0; subst. exact Hl. Qed.

(** The common tail of [create_table]: the (empty) table is appended to its archetype's list and offered to
    the filter cache. *)
Lemma bvr_vw_create_tail : forall s aid tid am, bvr_empty s tid ->
  bvr_vw s (state_of ((t <- getT tid ;; modA aid (fun a0 => arch_add_table a0 tid t) ;;;
                        cache_add_table tid t am ;;; ret tid) s)).
Proof.
  intros s aid tid am Hv.
  destruct (bvr_ro_cases _ _ (readonly_getT tid) s) as [(t & E)|(e & E)].
  2:{ rewrite (sa_bind_err E). apply bvr_vw_refl. }
  rewrite (sa_bind_ok E).
  set (s1 := s <| w_archs ::= updf aid (fun a0 => arch_add_table a0 tid t) |>).
  assert (E1 : modA aid (fun a0 => arch_add_table a0 tid t) s = Ok tt s1) by reflexivity.
  rewrite (sa_bind_ok E1).
  apply (bvr_vw_trans s s1); [apply bvr_vw_add_table; exact Hv|].
  pose proof (bvr_at_cache_add_table tid t am s1) as (C1 & C2).
  destruct (cache_add_table tid t am s1) as [[] s2|e s2] eqn:EC; cbn [state_of] in C1, C2.
  - rewrite (sa_bind_ok EC). cbn [ret state_of]. apply bvr_vw_quiet; assumption.
  - rewrite (sa_bind_err EC). cbn [state_of]. apply bvr_vw_quiet; assumption.
Qed.

Lemma bvr_vf_create_table : forall aid rels, bvr_vf (create_table aid rels).
Proof.
  intros aid rels s. unfold create_table.
  destruct (bvr_ro_cases _ _ (QueryProofs.q_ro_getA aid) s) as [(a & E)|(e & E)].
  2:{ rewrite (sa_bind_err E). apply bvr_vw_refl. }
  rewrite (sa_bind_ok E). destruct (bvr_getA_inv _ _ _ _ E) as (_ & Ha).
  destruct (negb (Nat.ltb (length rels) (a_numrel a))); cbn [guard]; [|apply bvr_vw_refl].
  rewrite (sa_bind_ok (m := ret tt) (s := s) eq_refl).
  destruct (rels_distinct rels); cbn [guard]; [|apply bvr_vw_refl].
  rewrite (sa_bind_ok (m := ret tt) (s := s) eq_refl).
  destruct (place_targets a rels (repeat zero_ent (length (a_comps a)))) as [targets|]; cbn [of_opt]; [|apply bvr_vw_refl].
  rewrite (sa_bind_ok (m := ret targets) (s := s) eq_refl).
  destruct (bvr_ro_cases _ _ (readonly_forM _ rels _ bvr_ro_check_rel) s) as [([] & E2)|(e & E2)].
  2:{ rewrite (sa_bind_err E2). apply bvr_vw_refl. }
  rewrite (sa_bind_ok E2).
  destruct (Rel2Struct.r2_register_targets_gen rels s) as (tg & Etg & _).
  destruct (register_targets rels s) as [[] s1|e s1] eqn:ER; cbn [state_of] in Etg; subst s1.
  2:{ rewrite (sa_bind_err ER). apply bvr_vw_quiet; reflexivity. }
  rewrite (sa_bind_ok ER). set (s1 := s <| w_istarget := tg |>).
  apply (bvr_vw_trans s s1); [apply bvr_vw_quiet; reflexivity|].
  assert (Ha1 : nth_error (w_archs s1) aid = Some a) by exact Ha.
  unfold bind at 1. unfold get at 1.
  destruct (rev (a_free a)) as [|f fr] eqn:Er.
  - set (t0 := new_table aid a (map (kind_of s1) (a_comps a))
                 (if arch_has_rels a then cf_caprel (w_cfg s1) else cf_cap (w_cfg s1)) targets rels).
    set (s2 := s1 <| w_tables ::= fun l => l ++ [t0] |>).
    assert (E3 : (modify (fun s0 : wstate => s0 <| w_tables ::= fun l => l ++ [t0] |>) ;;; ret (length (w_tables s1))) s1
                 = Ok (length (w_tables s1)) s2) by reflexivity.
    cbv zeta. fold t0. rewrite (sa_bind_ok E3).
    apply (bvr_vw_trans s1 s2); [apply bvr_vw_snoc; reflexivity|].
    apply bvr_vw_create_tail. apply (bvr_empty_of s2 _ t0); [|reflexivity].
    unfold s2. cbn. apply sa_nth_error_snoc_new.
  - assert (Hf : In f (a_free a)).
    { apply in_rev. rewrite Er. left. reflexivity. }
    set (g := fun t : table => t <| t_rels := rels |> <| t_targets := targets |> <| t_free := false |>).
    set (h := fun l : list nat => firstn (length l - 1) l).
    set (s2 := s1 <| w_archs ::= updf aid (fun a0 => a0 <| a_free ::= h |>) |> <| w_tables ::= updf f g |>).
    assert (E3 : (modA aid (fun a0 => a0 <| a_free ::= fun l => firstn (length l - 1) l |>) ;;;
                  modT f (fun t => t <| t_rels := rels |> <| t_targets := targets |> <| t_free := false |>) ;;; ret f) s1
                 = Ok f s2) by reflexivity.
    rewrite (sa_bind_ok E3).
    intros FE1.
    assert (V12 : bvr_vw s1 s2).
    { apply (bvr_vw_recycle s1 aid a f h g Ha1 Hf).
      - intros l x Hx. unfold h in Hx. rewrite <- (firstn_skipn (length l - 1) l). apply in_or_app. left. exact Hx.
      - intros t. reflexivity. }
    apply (bvr_vwc_step s1 s2); [exact (V12 FE1)|].
    apply bvr_vw_create_tail. intros t2 Ht2. unfold s2 in Ht2. cbn in Ht2.
    rewrite TableProofs.nth_error_updf, Nat.eqb_refl in Ht2.
    destruct (nth_error (w_tables s) f) as [t|] eqn:Et; [|discriminate]. cbn [option_map] in Ht2.
    inversion Ht2; subst t2. change (t_len (g t)) with (t_len t). exact (FE1 aid a f t Ha1 Hf Et).
Qed.

Lemma bvr_vf_get_or_create_table : forall aid rels, bvr_vf (get_or_create_table aid rels).
Proof.
  intros aid rels. unfold get_or_create_table.
  apply (bvr_fr_bind _ bvr_vw_trans); [apply bvr_vf_ro, QueryProofs.q_ro_getA|intros a].
  apply (bvr_fr_bind _ bvr_vw_trans); [apply bvr_vf_ro, Rel2Hist.r2e_ro_arch_get_table|intros ot].
  destruct ot; [apply (bvr_fr_ret _ bvr_vw_refl)|apply bvr_vf_create_table].
Qed.

Lemma bvr_vf_set_relations_plan : forall otid rels, bvr_vf (set_relations_plan otid rels).
Proof.
  intros otid rels. unfold set_relations_plan.
  apply (bvr_fr_bind _ bvr_vw_trans); [apply bvr_vf_ro, readonly_getT|intros ot].
  destruct (Nat.eqb (t_len ot) 0); [apply (bvr_fr_ret _ bvr_vw_refl)|].
  apply (bvr_fr_bind _ bvr_vw_trans); [apply bvr_vf_ro, Rel2Hist.r2e_ro_exchange_targets|intros r].
  destruct r as [[newrels cm]|]; [|apply (bvr_fr_ret _ bvr_vw_refl)].
  apply (bvr_fr_bind _ bvr_vw_trans); [apply bvr_vf_get_or_create_table|intros ntid].
  apply (bvr_fr_ret _ bvr_vw_refl).
Qed.

Lemma bvr_vf_planning : forall fi brels rels, bvr_vf (bvr_planning fi brels rels).
Proof.
  intros fi brels rels. unfold bvr_planning.
  apply (bvr_fr_bind _ bvr_vw_trans); [apply bvr_vf_ro, bvr_ro_get_batch_tables|intros tables].
  apply (bvr_fr_mapM _ bvr_vw_refl bvr_vw_trans). intros tid. apply bvr_vf_set_relations_plan.
Qed.

(** What the same listing means for a callback: the same [world_view] and the same occurrence counts. *)
Lemma bvr_listing_view : forall s s', bvr_same_listing s s' -> world_view s' = world_view s.
Proof.
  intros s s' H. rewrite !bv_world_view_listed.
  refine (H Z (fun t => flat_map (fun row => Zent (nth row (t_ents t) zero_ent) ++ (Zn (length (t_ids t)) :: snapshot_row t row))
                          (seq 0 (t_len t))) _).
  intros t Hl. rewrite Hl. reflexivity.
Qed.

Lemma bvr_sum_length : forall A (f : A -> nat) l,
  list_sum (map f l) = length (flat_map (fun x => repeat tt (f x)) l).
Proof.
  intros A f l. induction l as [|x l IH]; [reflexivity|]. cbn [map flat_map].
  change (list_sum (f x :: map f l)) with (f x + list_sum (map f l)).
  rewrite app_length, repeat_length, IH. reflexivity.
Qed.

Lemma bvr_listing_count : forall s s', bvr_same_listing s s' -> forall e, count_in_world s' e = count_in_world s e.
Proof.
  intros s s' H e. rewrite !v_count_in_world_sum, !bvr_sum_length.
  assert (X : forall x tid, repeat tt (v_at x (count_rows e) tid) = bvr_tv (fun t => repeat tt (count_rows e t)) x tid).
  { intros x tid. unfold v_at, bvr_tv. destruct (nth_error (w_tables x) tid); reflexivity. }
  rewrite (flat_map_ext _ _ (X s')), (flat_map_ext _ _ (X s)). f_equal.
  apply (H unit). intros t Hl. unfold count_rows. rewrite Hl. reflexivity.
Qed.

(** The entry of a callback about [e] as it would be computed on [s] with the world locked: [v_cb_entry] "up
    to the lock bit the operation itself holds". *)
Definition bvr_locked_entry (oi : nat) (e : ent) (s : W) : list Z :=
  [100%Z; Zn oi] ++ Zent e ++ [Zb true; Zb (alive s e); Zn (count_in_world s e)] ++
  (if alive s e then match snapshot_entity s e with Some l => l | None => [] end else []) ++ world_view s.


(* ------------------------------------------------------------------ *)
(** * SetRelationsBatch with passive OnRemoveRelations / OnAddRelations observers: the timing *)

(** [bvr_pre s lb s_pre]: [s_pre] is the state after planning: the operation holds exactly its lock bit
    [lb]; no row has moved since [s] (same index, same pool, every table of [s] with the same rows), nothing
    was logged, the observers are the same. *)
Definition bvr_pre (s : W) (lb : nat) (s_pre : W) : Prop :=
  w_index s_pre = w_index s /\ w_pool s_pre = w_pool s /\ w_log s_pre = w_log s /\ bv_mgr_same s s_pre /\
  bv_lock_ok (w_lock s_pre) [lb] /\
  (forall tid t, nth_error (w_tables s) tid = Some t ->
     exists t', nth_error (w_tables s_pre) tid = Some t' /\ table_same_data t t').

(** In a well-formed world whose recycled tables are empty (both clauses of [St2]) every entry computed on the
    state after planning IS the entry of the pre-state [s], locked. *)
Lemma bvr_pre_entry : forall s lb s_pre, WF s -> bvr_free_empty s -> bvr_pre s lb s_pre -> bvr_vw s s_pre ->
  forall oi e, v_cb_entry oi e s_pre = bvr_locked_entry oi e s.
Proof.
  intros s lb s_pre HW FE (P1 & P2 & P3 & P4 & P5 & P6) HV oi e.
  destruct (HV FE) as (_ & LS & T & N).
  unfold v_cb_entry, bvr_locked_entry.
  rewrite (bv_is_locked s_pre [lb] P5). cbn [is_nil negb].
  assert (EA : alive s_pre e = alive s e) by (unfold alive; rewrite P2; reflexivity).
  rewrite EA, (bvr_listing_count s s_pre LS e), (bvr_listing_view s s_pre LS).
  assert (ES : snapshot_entity s_pre e = snapshot_entity s e).
  { unfold snapshot_entity. rewrite P1.
    destruct (nth_error (w_index s) (fst e)) as [[[tid|] row]|] eqn:EI; try reflexivity.
    destruct (wf_index _ HW _ _ _ EI) as (t & Ht & Hr & _).
    rewrite Ht, (T tid t Ht ltac:(lia)). reflexivity. }
  rewrite ES. reflexivity.
Qed.

(** A successful relation batch on an unlocked world whose relation observers are passive.
    There are a state [s_pre] (after planning, BEFORE any row of the batch moved) and a state [s_post] (AFTER
    all rows of the batch moved and all batch callbacks ran) such that the log of the call is
      (OnRemoveRelations entries) ++ (batch-callback entries [101; id; gen]) ++ (OnAddRelations entries)
    where EVERY OnRemoveRelations entry is [v_cb_entry oi e s_pre] - computed on [s_pre], hence with the
    snapshot of [e] and the [world_view] of [s_pre]: nobody has moved, and with IsLocked = 1 from the
    operation's own bit - and EVERY OnAddRelations entry is [v_cb_entry oi e s_post]: everybody has moved.
    The entities of the removal entries are rows of planned source tables as they are in [s_pre], those of
    the add entries rows of the destination tables as they are in [s_post]; the observers are registered
    ones. [bvr_vw s s_pre]: if recycled tables are empty in [s] a full query lists the same rows in [s_pre]
    as in [s] and the non-empty tables are literally the same. [s_post] and the final state [s'] have the
    same tables, archetypes, index and pool (only the target flags and the lock differ); the world is
    unlocked at the end. *)
Theorem set_relations_batch_view : forall s fi brels rels s',
  bv_lock_ok (w_lock s) [] -> bv_passive s EvRemoveRelations -> bv_passive s EvAddRelations ->
  w_set_relations_batch fi brels rels s = Ok tt s' ->
  exists lb s_pre s_post plans moved Pr Pa es,
    bvr_pre s lb s_pre /\ bvr_vw s s_pre /\
    bvr_rem_ok s_pre plans Pr /\ bvr_add_ok s_post moved Pa /\
    w_log s' = w_log s ++ bv_entries s_pre Pr ++ map b_entry es ++ bv_entries s_post Pa /\
    (* the moves start from [s_pre] (up to log and lock cycling) and end in [s_post] *)
    (exists s_pre', bv_ev [lb] s_pre s_pre' (bv_entries s_pre Pr) /\
                    mapM plans set_relations_move s_pre' = Ok moved s_post) /\
    bv_lock_ok (w_lock s_post) [lb] /\ bv_mgr_same s s_post /\ w_pool s_post = w_pool s /\
    w_tables s' = w_tables s_post /\ w_archs s' = w_archs s_post /\ w_index s' = w_index s_post /\
    w_pool s' = w_pool s_post /\ world_view s' = world_view s_post /\
    bv_lock_ok (w_lock s') [] /\ is_locked s' = false.
Proof.
  intros s fi brels rels s' HL0 Hpr Hpa H.
  assert (Hunl : is_locked s = false) by (rewrite (bv_is_locked s [] HL0); reflexivity).
  destruct (bv_lock_take (w_lock s) [] HL0 ltac:(cbn; lia)) as (lb & l1 & LL & _ & HL1).
  rewrite bvr_batch_eq in H.
  rewrite (bo_bind_ok (sb1_check_locked_ok s Hunl)) in H.
  destruct (negb (is_nil rels)); [|cbn in H; discriminate].
  cbn [guard] in H. rewrite (bo_bind_ok (m := ret tt) (s := s) eq_refl) in H.
  rewrite (bo_bind_ok (v_lockM_ok s lb l1 LL)) in H.
  set (s0 := s <| w_lock := l1 |>) in *.
  destruct (bvr_body fi brels rels s0) as [[] s3|er s3] eqn:EB.
  2:{ rewrite (bo_bind_err (bo_deferred_err _ lb _ _ _ _ EB)) in H. discriminate. }
  rewrite (bo_bind_ok (bo_deferred_ok _ lb _ _ _ _ EB)) in H.
  assert (MS0 : bv_mgr_same s s0) by (unfold bv_mgr_same; repeat split).
  destruct (bvr_body_ok fi brels rels s0 lb s3 HL1 (bv_passive_same s s0 _ MS0 Hpr) (bv_passive_same s s0 _ MS0 Hpa) EB)
    as (s1 & s1' & s2 & s2' & plans0 & moved & Pr & Pa & es & tg & EPl & HLs1 & GPr & EV1 & E2 & MV & LG2 & GPa & EV3 & E3).
  pose proof (bvr_fr_ok bvr_plan _ _ _ _ _ (bvr_pf_planning fi brels rels) EPl) as (P1 & P2 & P3 & P4 & P5 & P6 & P7 & P8 & P9).
  pose proof EV1 as (SS1 & MS1 & HL1' & LG1).
  pose proof MV as (M1 & M2 & M3 & M4 & M5 & M6 & M7 & _).
  pose proof EV3 as (SS3 & MS3 & HL3 & LG3).
  assert (HL2 : bv_lock_ok (w_lock s2) [lb]) by (rewrite M1; exact HL1').
  (* the unlock *)
  assert (HLs3 : bv_lock_ok (w_lock s3) [lb]) by (subst s3; exact HL3).
  destruct (bv_lock_give (w_lock s3) [lb] lb HLs3 (or_introl eq_refl)) as (lz & LUz & HLz).
  rewrite (bv_remove_head lb [] (fun F => F)) in HLz.
  rewrite (v_unlockM_ok s3 lb lz LUz) in H. inversion H; subst s'. clear H.
  pose proof SS1 as (_ & _ & S13 & _).
  pose proof SS3 as (_ & _ & S33 & S34 & _ & S36 & S37 & _).
  exists lb, s1, s2, (opt_list plans0), moved, Pr, Pa, es.
  split.
  { unfold bvr_pre. split; [exact P1|]. split; [exact P2|]. split; [exact P3|].
    split; [eapply bv_mgr_same_trans; [exact MS0|exact P5]|]. split; [exact HLs1|exact P9]. }
  split.
  { apply (bvr_vw_trans s s0 s1); [apply bvr_vw_quiet; reflexivity|].
    exact (bvr_fr_ok bvr_vw _ _ _ _ _ (bvr_vf_planning fi brels rels) EPl). }
  split; [exact GPr|]. split; [exact GPa|].
  split.
  { subst s3. cbn. rewrite LG3, LG2, LG1, P3. change (w_log s0) with (w_log s). rewrite <- !app_assoc. reflexivity. }
  split; [exists s1'; split; [exact EV1|exact E2]|].
  split; [exact HL2|].
  split.
  { eapply bv_mgr_same_trans; [exact MS0|]. eapply bv_mgr_same_trans; [exact P5|].
    eapply bv_mgr_same_trans; [exact MS1|exact M2]. }
  split; [rewrite M3, S13, P2; reflexivity|].
  subst s3. cbn.
  split; [exact S37|]. split; [exact S36|]. split; [exact S34|]. split; [exact S33|].
  split; [apply bv_world_view_ext; [exact S36|exact S37]|].
  split; [exact HLz|]. exact (bv_lock_locked lz [] HLz).
Qed.

(** The entries of the add phase are the entries of the FINAL state, locked. *)
Lemma bvr_post_entry : forall s_post lb s', bv_lock_ok (w_lock s_post) [lb] ->
  w_tables s' = w_tables s_post -> w_archs s' = w_archs s_post -> w_index s' = w_index s_post ->
  w_pool s' = w_pool s_post -> forall oi e, v_cb_entry oi e s_post = bvr_locked_entry oi e s'.
Proof.
  intros s_post lb s' HL ET EA EI EP oi e. unfold v_cb_entry, bvr_locked_entry.
  rewrite (bv_is_locked s_post [lb] HL). cbn [is_nil negb].
  unfold alive, snapshot_entity. rewrite (v_count_in_world_ext s_post s' e EA ET), EP, EI, ET.
  rewrite (bv_world_view_ext s_post s' EA ET). reflexivity.
Qed.

(** The timing of the relation batch, stated on the pre-state and the final state only. In a world
    satisfying the relation invariant [St2] (used: well-formedness and "recycled tables are empty"), unlocked,
    with passive relation observers, the log of a successful SetRelationsBatch is
      [Lr ++ (batch-callback entries) ++ La]
    where every entry of [Lr] (OnRemoveRelations) is the entry of its entity computed on the PRE-STATE [s]
    (content, occurrence count, view of the whole world: NO entity of the batch has moved), every entry of [La]
    (OnAddRelations) is the entry of its entity computed on the FINAL state [s'] (ALL entities of the batch
    have moved), both with IsLocked = 1; the observers are registered for the respective event. *)
Theorem set_relations_batch_timing : forall s fi brels rels s',
  Rel2Defs.St2 s -> bv_lock_ok (w_lock s) [] -> bv_passive s EvRemoveRelations -> bv_passive s EvAddRelations ->
  w_set_relations_batch fi brels rels s = Ok tt s' ->
  exists Pr Pa es,
    w_log s' = w_log s ++ map (fun p => bvr_locked_entry (fst p) (snd p) s) Pr ++ map b_entry es ++
                         map (fun p => bvr_locked_entry (fst p) (snd p) s') Pa /\
    (forall p, In p Pr -> In (fst p) (olist s EvRemoveRelations)) /\
    (forall p, In p Pa -> In (fst p) (olist s EvAddRelations)) /\
    is_locked s' = false.
Proof.
  intros s fi brels rels s' HS HL0 Hpr Hpa H.
  destruct (set_relations_batch_view s fi brels rels s' HL0 Hpr Hpa H)
    as (lb & s_pre & s_post & plans & moved & Pr & Pa & es & HP & HV & GPr & GPa & LG & _ & HL2 & MS & _ & ET & EA & EI & EP & _ & _ & Hunl).
  exists Pr, Pa, es. split.
  { rewrite LG. unfold bv_entries. f_equal. f_equal.
    - apply map_ext. intros p. exact (bvr_pre_entry s lb s_pre (proj1 HS) (bvr_free_empty_St2 s HS) HP HV (fst p) (snd p)).
    - f_equal. apply map_ext. intros p. exact (bvr_post_entry s_post lb s' HL2 ET EA EI EP (fst p) (snd p)). }
  split.
  { intros p Hp. destruct (GPr p Hp) as (Q & _). destruct HP as (_ & _ & _ & (_ & M2 & _) & _).
    unfold olist in *. rewrite <- M2. exact Q. }
  split; [|exact Hunl].
  intros p Hp. destruct (GPa p Hp) as (Q & _). destruct MS as (_ & M2 & _). unfold olist in *. rewrite <- M2. exact Q.
Qed.

(** Rejection. The planning phase runs on the world with the operation's lock bit taken. If planning fails
    for any table (the relation list is rejected for that table, a destination table cannot be created, the
    table selection fails), the whole batch fails with that error BEFORE any row moved: the entity index and
    the pool are the same, every table of [s] is still there with the same rows (tables created by the
    planning of earlier tables remain), nothing was logged - no callback ran -, the observers are the same,
    and the world is unlocked again. *)
Theorem set_relations_batch_rejected : forall s fi brels rels,
  bv_lock_ok (w_lock s) [] -> rels <> [] ->
  exists lb l1, lock_lock (w_lock s) = Some (lb, l1) /\
    forall er sx, bvr_planning fi brels rels (s <| w_lock := l1 |>) = Err er sx ->
    exists s', w_set_relations_batch fi brels rels s = Err er s' /\
      w_index s' = w_index s /\ w_pool s' = w_pool s /\ w_log s' = w_log s /\ bv_mgr_same s s' /\
      (forall tid t, nth_error (w_tables s) tid = Some t ->
         exists t', nth_error (w_tables s') tid = Some t' /\ table_same_data t t') /\
      bvr_vw s s' /\ w_tables s' = w_tables sx /\ w_archs s' = w_archs sx /\
      bv_lock_ok (w_lock s') [] /\ is_locked s' = false.
Proof.
  intros s fi brels rels HL0 Hne.
  assert (Hunl : is_locked s = false) by (rewrite (bv_is_locked s [] HL0); reflexivity).
  destruct (bv_lock_take (w_lock s) [] HL0 ltac:(cbn; lia)) as (lb & l1 & LL & _ & HL1).
  exists lb, l1. split; [exact LL|]. intros er sx EPl.
  set (s0 := s <| w_lock := l1 |>) in *.
  pose proof (bvr_fr_err bvr_plan _ _ _ _ _ (bvr_pf_planning fi brels rels) EPl) as (P1 & P2 & P3 & P4 & P5 & P6 & P7 & P8 & P9).
  assert (EB : bvr_body fi brels rels s0 = Err er sx).
  { unfold bvr_body. unfold bind at 1. unfold get at 1. cbv zeta. unfold bvr_planning in EPl.
    destruct (get_batch_tables fi brels s0) as [tables sy|e0 sy] eqn:EG.
    - rewrite (sa_bind_ok EG) in EPl. rewrite (sa_bind_ok EG). exact (sa_bind_err EPl).
    - rewrite (sa_bind_err EG) in EPl. rewrite (sa_bind_err EG). inversion EPl; subst. reflexivity. }
  assert (HLx : bv_lock_ok (w_lock sx) [lb]) by (rewrite P4; exact HL1).
  destruct (bv_lock_give (w_lock sx) [lb] lb HLx (or_introl eq_refl)) as (lz & LUz & HLz).
  rewrite (bv_remove_head lb [] (fun F => F)) in HLz.
  exists (sx <| w_lock := lz |>). split.
  { rewrite bvr_batch_eq. rewrite (bo_bind_ok (sb1_check_locked_ok s Hunl)).
    destruct rels as [|r rels']; [congruence|]. cbn [is_nil negb guard].
    rewrite (bo_bind_ok (m := ret tt) (s := s) eq_refl).
    rewrite (bo_bind_ok (v_lockM_ok s lb l1 LL)). fold s0.
    rewrite (bo_bind_err (bo_deferred_err _ lb _ _ _ _ EB)). unfold release_bit. rewrite LUz. reflexivity. }
  cbn. split; [exact P1|]. split; [exact P2|]. split; [exact P3|].
  split.
  { destruct P5 as (Q1 & Q2 & Q3 & Q4 & Q5 & Q6). unfold bv_mgr_same. cbn. repeat split; assumption. }
  split; [exact P9|].
  split.
  { apply (bvr_vw_trans s s0); [apply bvr_vw_quiet; reflexivity|].
    apply (bvr_vw_trans s0 sx); [exact (bvr_fr_err bvr_vw _ _ _ _ _ (bvr_vf_planning fi brels rels) EPl)|].
    apply bvr_vw_quiet; reflexivity. }
  split; [reflexivity|]. split; [reflexivity|].
  split; [exact HLz|exact (bv_lock_locked lz [] HLz)].
Qed.


(* ------------------------------------------------------------------ *)
(** * Non-vacuity *)

(** Components: 0 plain, 1 a relation. Entities 2, 3, 4 (no components; the relation targets); 5, 6 with
    relation 1 -> 2 (one table) and 7 with relation 1 -> 3 (another table), values 11, 12, 13; filter 0 =
    "with component 1"; observer 0: OnRemoveRelations, observer 1: OnAddRelations, both passive, registered. *)
Definition bvr_cfg : script_cfg :=
  {| sc_cap := 4; sc_caprel := 2; sc_bits := 64; sc_debug := false; sc_kinds := map kind_of_code [0; 7]%Z |}.
Definition bvr_lines : list (list Z) :=
  [[0]; [0]; [0]; [2; 1; 1; 1; 1; 0]; [2; 1; 1; 1; 1; 0]; [2; 1; 1; 1; 1; 1]; [9; 3; 1; 11]; [9; 4; 1; 12]; [9; 5; 1; 13];
   [15; 0; 1; 1; 0; 0; 0]; [25; 255; 0; 0; 0; 0; 0]; [25; 254; 0; 0; 0; 0; 0]; [26; 0]; [26; 1]]%Z.
Definition bvr_world : W := exec bvr_cfg bvr_lines.

(** The hypotheses of [set_relations_batch_view] hold of [bvr_world] for the batch "set relation 1 to entity
    4 on everything filter 0 selects" (two non-empty tables are selected: 1 -> 2 and 1 -> 3); [bvr_world]
    satisfies the relation invariant [St2], hence [bvr_free_empty]. *)
Example set_relations_batch_view_nonvacuous :
  bv_lock_ok (w_lock bvr_world) [] /\ bv_passive bvr_world EvRemoveRelations /\ bv_passive bvr_world EvAddRelations /\
  Rel2Defs.St2 bvr_world /\ bvr_free_empty bvr_world /\
  exists s', w_set_relations_batch 0 [] [(1, (4, 0%N))] bvr_world = Ok tt s'.
Proof.
  assert (Elock : w_lock bvr_world = lock_new) by (vm_compute; reflexivity).
  assert (HS : Rel2Defs.St2 bvr_world) by (apply Rel2Defs.st2_b_sound; vm_compute; reflexivity).
  split; [rewrite Elock; exact bv_lock_new|].
  split; [apply bv_passive_b_ok; vm_compute; reflexivity|].
  split; [apply bv_passive_b_ok; vm_compute; reflexivity|].
  split; [exact HS|]. split; [exact (bvr_free_empty_St2 _ HS)|].
  vm_compute. eexists. reflexivity.
Qed.

(** The computed log of that call: the three OnRemoveRelations entries (observer 0; entities 5, 6 of the
    first table AND 7 of the second table) come first and all end with the view of the PRE-state (5 -> 2,
    6 -> 2, 7 -> 3: nobody has moved, although both tables belong to the batch); then the three batch-callback
    entries; then the three OnAddRelations entries (observer 1), all with the view of the FINAL state
    (5 -> 4, 6 -> 4, 7 -> 4: everybody has moved). Every entry: locked 1, alive 1, seen once. *)
Example set_relations_batch_view_example :
  match w_set_relations_batch 0 [] [(1, (4, 0%N))] bvr_world with
  | Ok _ s' => (w_log s', is_locked s')
  | Err _ _ => ([], true)
  end =
  let wv0 := [2; 0; 0;  3; 0; 0;  4; 0; 0;  5; 0; 1; 1; 11; 2; 0;  6; 0; 1; 1; 12; 2; 0;  7; 0; 1; 1; 13; 3; 0]%Z in
  let wv1 := [2; 0; 0;  3; 0; 0;  4; 0; 0;  5; 0; 1; 1; 11; 4; 0;  6; 0; 1; 1; 12; 4; 0;  7; 0; 1; 1; 13; 4; 0]%Z in
  (map (fun en => en ++ wv0)
     [[100; 0; 5; 0; 1; 1; 1; 1; 1; 11; 2; 0]; [100; 0; 6; 0; 1; 1; 1; 1; 1; 12; 2; 0]; [100; 0; 7; 0; 1; 1; 1; 1; 1; 13; 3; 0]]%Z ++
   [[101; 5; 0]; [101; 6; 0]; [101; 7; 0]]%Z ++
   map (fun en => en ++ wv1)
     [[100; 1; 5; 0; 1; 1; 1; 1; 1; 11; 4; 0]; [100; 1; 6; 0; 1; 1; 1; 1; 1; 12; 4; 0]; [100; 1; 7; 0; 1; 1; 1; 1; 1; 13; 4; 0]]%Z,
   false).
Proof. vm_compute. reflexivity. Qed.

(** The theorems instantiated at [bvr_world]. *)
Definition bvr_world_timing s' :=
  set_relations_batch_timing bvr_world 0 [] [(1, (4, 0%N))] s'
    (proj1 (proj2 (proj2 (proj2 set_relations_batch_view_nonvacuous))))
    (proj1 set_relations_batch_view_nonvacuous) (proj1 (proj2 set_relations_batch_view_nonvacuous))
    (proj1 (proj2 (proj2 set_relations_batch_view_nonvacuous))).
Definition bvr_world_view s' :=
  set_relations_batch_view bvr_world 0 [] [(1, (4, 0%N))] s'
    (proj1 set_relations_batch_view_nonvacuous) (proj1 (proj2 set_relations_batch_view_nonvacuous))
    (proj1 (proj2 (proj2 set_relations_batch_view_nonvacuous))).

(** Rejection: components 0 plain, 1 relation; entity 4 = {0, 1 -> 2} and entity 5 = {0}; filter 0 = "with
    component 0" selects both tables; setting relation 1 on the batch is planned successfully for the first
    table (the destination table 1 -> 3 is created: four tables instead of three) and rejected for the second,
    which lacks the relation component: the call fails, nobody moved (index, rows and view unchanged), nothing
    was logged although observers are registered, the world is unlocked. *)
Definition bvr_rej_lines : list (list Z) :=
  [[0]; [0]; [2; 2; 0; 1; 1; 1; 0]; [1; 1; 0]; [15; 0; 1; 0; 0; 0; 0];
   [25; 255; 0; 0; 0; 0; 0]; [25; 254; 0; 0; 0; 0; 0]; [26; 0]; [26; 1]]%Z.
Definition bvr_rej_world : W := exec bvr_cfg bvr_rej_lines.

Example set_relations_batch_rejected_nonvacuous :
  bv_lock_ok (w_lock bvr_rej_world) [] /\ bvr_free_empty bvr_rej_world /\
  exists lb l1 er sx, lock_lock (w_lock bvr_rej_world) = Some (lb, l1) /\
    bvr_planning 0 [] [(1, (3, 0%N))] (bvr_rej_world <| w_lock := l1 |>) = Err er sx /\
    length (w_tables sx) = S (length (w_tables bvr_rej_world)).
Proof.
  assert (Elock : w_lock bvr_rej_world = lock_new) by (vm_compute; reflexivity).
  split; [rewrite Elock; exact bv_lock_new|].
  split; [apply bvr_free_empty_St2, Rel2Defs.st2_b_sound; vm_compute; reflexivity|].
  vm_compute. do 4 eexists. split; [reflexivity|]. split; reflexivity.
Qed.

Example set_relations_batch_rejected_example :
  match w_set_relations_batch 0 [] [(1, (3, 0%N))] bvr_rej_world with
  | Ok _ _ => None
  | Err _ s' => Some (w_log s', is_locked s', length (w_tables s'), length (w_tables bvr_rej_world),
                      w_index s', world_view s')
  end = Some ([], false, 4, 3, w_index bvr_rej_world, world_view bvr_rej_world).
Proof. vm_compute. reflexivity. Qed.
