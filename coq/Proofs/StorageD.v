(** * StorageD: the invariant clauses [WF] does not carry - every table is listed by its archetype,
    all relation targets are zero (relation-free tier), the component index is complete and in
    creation order, every archetype has its table - hold in every state reachable by the core
    histories of StorageC ([Inv3], [Inv4]), by histories that also create filters and run queries
    ([ext_op]; additionally [Inv5]: every query's rare component belongs to its filter's mask) and by
    histories that also register / unregister filters ([reg_op]; [Inv6]: the filter cache is exact).
    Consequences: completeness of the rare-component preselection of typed queries
    ([preselection_complete], [reachable_queries_preselection_complete]), and the [_partial]
    theorems of ViewProofs / BatchOps / C09 / C19 without their extra hypotheses ([inv3_*],
    [reachable_*]). Helper lemmas carry the prefix [sd_].
    Build order: after Proofs/BatchOps.v and Proofs/BuildEquiv.v. *)
From Ark Require Import Model.Base Model.Mask Model.Pool Model.Util Model.World Model.Run.
From Ark Require Import Proofs.TableProofs Proofs.MaskProofs Proofs.Hoare Proofs.WF Proofs.StorageA Proofs.StorageBDefs.
From Ark Require Import Proofs.StorageB_sb1 Proofs.StorageB_sb2 Proofs.StorageB_sb3 Proofs.StorageC.
From Ark Require Import Proofs.LockWorld Proofs.ViewProofs Proofs.QueryProofs Proofs.CacheProofs Proofs.BatchOps.
From Ark Require Import Proofs.BuildEquiv.
From Ark Require Proofs.ResetShrinkProofs Proofs.ObsProofs.
From RecordUpdate Require Import RecordSet.
Import RecordSetNotations.
From Coq Require Import Lia.

(** ** The additional clauses *)

(** [sd_has s c aid]: archetype [aid] exists and its mask contains component [c]. *)
Definition sd_has (s : W) (c aid : nat) : bool :=
  match nth_error (w_archs s) aid with Some a => mk_get (a_mask a) c | None => false end.

(** Every table (empty or not) is listed in the active tables of its archetype. *)
Definition tables_listed_all (s : W) : Prop :=
  forall tid t, nth_error (w_tables s) tid = Some t ->
    exists a, nth_error (w_archs s) (t_arch t) = Some a /\ In tid (a_tables a).

(** The component index lists, for every component, exactly the archetypes whose mask contains it,
    in creation order (ascending archetype number), each once. *)
Definition compindex_ok (s : W) : Prop :=
  forall c, nth c (w_compindex s) [] = filter (sd_has s c) (seq 0 (length (w_archs s))).

Definition Inv3 (s : W) (n : nat) : Prop :=
  Inv s n /\ tables_listed_all s /\ v_targets_zero s /\ compindex_ok s.

(** In the core histories every archetype also has its table (createArchetype, as repaired, creates the
    table of an archetype without relation components together with the archetype; [bo_archs_tabled] is
    [archs_tabled_norel] of WF.v in a relation-free world, see [inv4_archs_tabled] at the end). *)
Definition Inv4 (s : W) (n : nat) : Prop := Inv3 s n /\ bo_archs_tabled s.

(** ** Relation to the clauses of BatchOps and ViewProofs *)
Lemma tables_listed_all_listed : forall s, tables_listed_all s -> tables_listed s.
Proof. intros s H tid t Ht _. exact (H tid t Ht). Qed.

Lemma tables_listed_all_v : forall s, St s -> tables_listed_all s -> v_tables_listed s.
Proof.
  intros s [HW HN] H tid t Ht. destruct (H tid t Ht) as (a & Ha & Hin). exists a. split; [exact Ha|].
  destruct HN as (_ & _ & N3 & _). destruct (N3 _ _ Ha) as (_ & Hn & _).
  pose proof (wf_arch_norel_table _ HW _ _ Ha Hn) as Hle.
  destruct (a_tables a) as [|t0 [|t1 tl]]; [destruct Hin| |cbn in Hle; lia].
  destruct Hin as [<-|[]]. reflexivity.
Qed.

Lemma v_tables_listed_all : forall s, v_tables_listed s -> tables_listed_all s.
Proof.
  intros s H tid t Ht. destruct (H tid t Ht) as (a & Ha & E). exists a. split; [exact Ha|].
  rewrite E. left. reflexivity.
Qed.

(** ** Lists *)
Lemma sd_map_upd_at : forall A B (g : A -> B) (l : list A) i x y,
  nth_error l i = Some x -> g y = g x -> map g (upd i y l) = map g l.
Proof.
  intros A B g l. induction l as [|h l IH]; intros i x y H E; [destruct i; discriminate|].
  destruct i as [|i]; cbn in *.
  - inversion H; subst. rewrite E. reflexivity.
  - f_equal. eapply IH; eauto.
Qed.

Lemma sd_map_updf_at : forall A B (g : A -> B) (f : A -> A) (l : list A) i x,
  nth_error l i = Some x -> g (f x) = g x -> map g (updf i f l) = map g l.
Proof. intros A B g f l i x H E. unfold updf. rewrite H. eapply sd_map_upd_at; eauto. Qed.

Lemma sd_map_updf : forall A B (g : A -> B) (f : A -> A) (l : list A) i,
  (forall x, g (f x) = g x) -> map g (updf i f l) = map g l.
Proof.
  intros A B g f l i E. destruct (nth_error l i) as [x|] eqn:H.
  - eapply sd_map_updf_at; eauto.
  - unfold updf. rewrite H. reflexivity.
Qed.

Lemma sd_nth_updf : forall A (f : A -> A) (l : list A) i j d, i < length l ->
  nth j (updf i f l) d = if Nat.eqb i j then f (nth j l d) else nth j l d.
Proof.
  intros A f l i j d Hi. unfold updf. destruct (nth_error l i) as [x|] eqn:E.
  - rewrite nth_upd. apply Nat.ltb_lt in Hi. rewrite Hi, andb_true_r.
    destruct (Nat.eqb_spec i j) as [->|]; [|reflexivity].
    rewrite (nth_error_nth _ _ d E). reflexivity.
  - apply nth_error_None in E. lia.
Qed.

Lemma sd_nth_repeat_nil : forall n c, nth c (repeat (@nil nat) n) (@nil nat) = @nil nat.
Proof. intros n. induction n as [|n IH]; intros [|c]; cbn; auto. Qed.

(** What [create_archetype] does to the index. *)
Lemma sd_fold_index : forall (idx : nat) comps (ci : list (list nat)) c, NoDup comps -> (forall x, In x comps -> x < length ci) ->
  nth c (fold_left (fun ci c' => updf c' (fun l => l ++ [idx]) ci) comps ci) [] =
  nth c ci [] ++ (if memb c comps then [idx] else []).
Proof.
  intros idx comps. induction comps as [|x comps IH]; intros ci c ND Hlt.
  - cbn. rewrite app_nil_r. reflexivity.
  - cbn [fold_left]. inversion ND as [|? ? Hx ND']; subst.
    rewrite IH; [|exact ND'|intros y Hy; rewrite updf_length; apply Hlt; right; exact Hy].
    rewrite sd_nth_updf by (apply Hlt; left; reflexivity).
    rewrite sa_memb_cons. destruct (Nat.eqb_spec x c) as [->|Hne]; cbn [orb].
    + assert (Hm : memb c comps = false).
      { destruct (memb c comps) eqn:Em; [|reflexivity]. apply sa_memb_in in Em. contradiction. }
      rewrite Hm, app_nil_r. reflexivity.
    + reflexivity.
Qed.

Lemma sd_filter_ext_in : forall A (f g : A -> bool) l, (forall x, In x l -> f x = g x) -> filter f l = filter g l.
Proof.
  intros A f g l. induction l as [|a l IH]; intros H; [reflexivity|]. cbn.
  rewrite (H a (or_introl eq_refl)), IH; [reflexivity|]. intros x Hx. apply H. right. exact Hx.
Qed.

(** ** The structure frame: operations on rows, the index, the pool, the observers and the lock do
    not touch archetypes, the component index, or the archetype number and targets of any table. *)
Definition sd_same (s s' : W) : Prop :=
  w_archs s' = w_archs s /\ w_compindex s' = w_compindex s /\ w_relarchs s' = w_relarchs s /\
  map t_arch (w_tables s') = map t_arch (w_tables s) /\
  map t_targets (w_tables s') = map t_targets (w_tables s) /\
  w_filters s' = w_filters s /\ w_cheap s' = w_cheap s /\ w_centries s' = w_centries s.

Lemma sd_same_refl : forall s, sd_same s s.
Proof. intros s. unfold sd_same. repeat split. Qed.

Lemma sd_same_trans : forall s1 s2 s3, sd_same s1 s2 -> sd_same s2 s3 -> sd_same s1 s3.
Proof.
  intros s1 s2 s3 (A1 & A2 & A3 & A4 & A5 & A6 & A7 & A8) (B1 & B2 & B3 & B4 & B5 & B6 & B7 & B8).
  unfold sd_same. repeat split; congruence.
Qed.

Lemma sd_same_storage : forall s s', storage_same s s' -> sd_same s s'.
Proof.
  intros s s' (E1 & E2 & E3 & E4 & E5 & E6 & E7 & E8 & E9 & E10 & E11 & E12 & E13 & E14 & E15 & _). unfold sd_same.
  rewrite E6, E7, E8, E9, E12, E13, E15. repeat split.
Qed.

Lemma sd_same_query_frame : forall s s', query_frame s s' -> sd_same s s'.
Proof.
  intros s s' (E1 & E2 & E3 & E4 & E5 & E6 & E7 & E8 & E9 & E10 & E11 & E12 & E13 & E14 & E15 & _). unfold sd_same.
  rewrite E6, E7, E8, E9, E12, E13, E15. repeat split.
Qed.

Lemma sd_same_table : forall s s' tid t', sd_same s s' -> nth_error (w_tables s') tid = Some t' ->
  exists t, nth_error (w_tables s) tid = Some t /\ t_arch t = t_arch t' /\ t_targets t = t_targets t'.
Proof.
  intros s s' tid t' (_ & _ & _ & E4 & E5 & _) H.
  pose proof (map_nth_error t_arch _ _ H) as H1. rewrite E4 in H1.
  pose proof (map_nth_error t_targets _ _ H) as H2. rewrite E5 in H2.
  rewrite nth_error_map in H1, H2. destruct (nth_error (w_tables s) tid) as [t|]; [|discriminate].
  cbn in H1, H2. inversion H1. inversion H2. exists t. auto.
Qed.

Lemma sd_has_archs : forall s s', w_archs s' = w_archs s -> forall c i, sd_has s' c i = sd_has s c i.
Proof. intros s s' E c i. unfold sd_has. rewrite E. reflexivity. Qed.

(** Computations that keep the structure in relation-free worlds. *)
Definition sd_ss {A} (m : MW A) : Prop := forall s, w_relarchs s = [] -> sd_same s (state_of (m s)).

Lemma sd_ss_sp : forall A (m : MW A), sa_sp m -> sd_ss m.
Proof. intros A m H s _. apply sd_same_storage. apply H. Qed.
Lemma sd_ss_ro : forall A (m : MW A), readonly m -> sd_ss m.
Proof. intros A m H s _. rewrite (H s). apply sd_same_refl. Qed.
Lemma sd_ss_fr : forall A (m : MW A), q_fr m -> sd_ss m.
Proof. intros A m H s _. apply sd_same_query_frame. apply H. Qed.
Lemma sd_ss_ret : forall A (a : A), sd_ss (ret a).
Proof. intros. apply sd_ss_ro, readonly_ret. Qed.
Lemma sd_ss_fail : forall A e, sd_ss (@fail W A e).
Proof. intros. apply sd_ss_ro, readonly_fail. Qed.
Lemma sd_ss_bind : forall A B (m : MW A) (k : A -> MW B), sd_ss m -> (forall a, sd_ss (k a)) -> sd_ss (bind m k).
Proof.
  intros A B m k Hm Hk s Hr. unfold bind. specialize (Hm s Hr). destruct (m s) as [a s1|er s1]; cbn [state_of] in *.
  - eapply sd_same_trans; [exact Hm|]. apply Hk. destruct Hm as (_ & _ & E & _). congruence.
  - exact Hm.
Qed.
Lemma sd_ss_forM : forall A (l : list A) (f : A -> MW unit), (forall a, sd_ss (f a)) -> sd_ss (forM_ l f).
Proof.
  intros A l f H. induction l as [|x l IH]; cbn [forM_]; [apply sd_ss_ret|].
  apply sd_ss_bind; [apply H|intros _; exact IH].
Qed.
Lemma sd_ss_whenM : forall b m, sd_ss m -> sd_ss (whenM b m).
Proof. intros b m H. destruct b; [exact H|apply sd_ss_ret]. Qed.
Lemma sd_ss_modify : forall f : W -> W, (forall s, sd_same s (f s)) -> sd_ss (modify f).
Proof. intros f H s _. apply H. Qed.
Lemma sd_ss_modT : forall i f, (forall t, t_arch (f t) = t_arch t) -> (forall t, t_targets (f t) = t_targets t) ->
  sd_ss (modT i f).
Proof.
  intros i f H1 H2. apply sd_ss_modify. intros s. unfold sd_same. cbn.
  rewrite !sd_map_updf by assumption. repeat split.
Qed.

(** [setT] with a table computed from the one read at the same index. *)
Lemma sd_setT_then : forall A s tid t t' (m : MW A), w_relarchs s = [] ->
  nth_error (w_tables s) tid = Some t -> t_arch t' = t_arch t -> t_targets t' = t_targets t ->
  sd_ss m -> sd_same s (state_of ((setT tid t' ;;; m) s)).
Proof.
  intros A s tid t t' m Hr Ht E1 E2 Hm. unfold bind, setT, modT, modify.
  set (s1 := s <| w_tables ::= updf tid (fun _ => t') |>).
  assert (S1 : sd_same s s1).
  { unfold sd_same, s1. cbn. rewrite (sd_map_updf_at _ _ t_arch (fun _ => t') _ _ _ Ht E1).
    rewrite (sd_map_updf_at _ _ t_targets (fun _ => t') _ _ _ Ht E2). repeat split. }
  eapply sd_same_trans; [exact S1|]. apply Hm. exact Hr.
Qed.

Lemma sd_getT_bind : forall A tid (k : table -> MW A),
  (forall s t, w_relarchs s = [] -> nth_error (w_tables s) tid = Some t -> sd_same s (state_of (k t s))) ->
  sd_ss (bind (getT tid) k).
Proof.
  intros A tid k H s Hr. destruct (nth_error (w_tables s) tid) as [t|] eqn:E.
  - rewrite (sa_bind_ok (sa_getT_eq _ _ _ E)). apply H; assumption.
  - assert (E' : getT tid s = Err EIndex s) by (unfold getT, bind, get, of_opt; rewrite E; reflexivity).
    rewrite (sa_bind_err E'). apply sd_same_refl.
Qed.

Ltac sd_triv := intros ?; unfold sd_same; repeat split.

Ltac sd_step :=
  lazymatch goal with
  | |- sd_ss (ret _) => apply sd_ss_ret
  | |- sd_ss (fail _) => apply sd_ss_fail
  | |- sd_ss get => apply sd_ss_ro, readonly_get
  | |- sd_ss (guard _ _) => apply sd_ss_ro, readonly_guard
  | |- sd_ss (of_opt _ _) => apply sd_ss_ro, readonly_of_opt
  | |- sd_ss (getT _) => apply sd_ss_ro, readonly_getT
  | |- sd_ss (getA _) => apply sd_ss_ro, sc_ro_getA
  | |- sd_ss check_locked => apply sd_ss_ro, sc_ro_check_locked
  | |- sd_ss (get_index _) => apply sd_ss_ro, readonly_get_index
  | |- sd_ss (arch_mask_of_table _) => apply sd_ss_ro, sc_ro_arch_mask
  | |- sd_ss (resolveH _) => apply sd_ss_ro, readonly_resolveH
  | |- sd_ss (modT _ _) => apply sd_ss_modT; intros ?; reflexivity
  | |- sd_ss (modify _) => apply sd_ss_modify; sd_triv
  | |- sd_ss (whenM _ _) => apply sd_ss_whenM
  | |- sd_ss (forM_ _ _) => apply sd_ss_forM; intros ?
  | |- sd_ss (bind _ _) => apply sd_ss_bind; [|intros ?]
  | |- sd_ss (match ?x with _ => _ end) => destruct x
  end.
Ltac sd_tac := repeat sd_step.

(** *** The row primitives *)
Lemma sd_tbl_add_meta : forall t e, t_arch (snd (tbl_add t e)) = t_arch t /\ t_targets (snd (tbl_add t e)) = t_targets t.
Proof.
  intros t e. unfold tbl_add, tbl_alloc, tbl_extend, tbl_adjust. cbn [snd].
  destruct (Nat.leb (t_len t + 1) (t_cap t)); split; reflexivity.
Qed.

Lemma sd_ss_tbl_addM : forall tid e, sd_ss (tbl_addM tid e).
Proof.
  intros tid e. unfold tbl_addM. apply sd_getT_bind. intros s t Hr Ht.
  destruct (sd_tbl_add_meta t e) as (E1 & E2). destruct (tbl_add t e) as [idx t']. cbn [snd] in *.
  apply (sd_setT_then _ s tid t t'); auto. apply sd_ss_ret.
Qed.

Lemma sd_ss_pool_getM : sd_ss pool_getM.
Proof.
  intros s _. unfold pool_getM, bind, get, put, ret. destruct (pool_get (w_pool s)) as [e p']. cbn.
  unfold sd_same. repeat split.
Qed.

Lemma sd_ss_pool_recycleM : forall e, sd_ss (pool_recycleM e).
Proof.
  intros e s _. unfold pool_recycleM, bind, get, put, fail. destruct (pool_recycle (w_pool s) e) as [p'|]; cbn;
    unfold sd_same; repeat split.
Qed.

Lemma sd_ss_set_index : forall id v, sd_ss (set_index id v).
Proof.
  intros id v. apply sd_ss_modify. intros s. destruct (Nat.eqb id (length (w_index s))); unfold sd_same; repeat split.
Qed.

Lemma sd_ss_register_targets : forall rels, sd_ss (register_targets rels).
Proof. intros rels. unfold register_targets. sd_tac. Qed.

Lemma sd_ss_remove_row : forall tid row, sd_ss (remove_row tid row).
Proof.
  intros tid row. unfold remove_row. apply sd_getT_bind. intros s t Hr Ht.
  assert (E1 : t_arch (snd (tbl_remove t row)) = t_arch t) by reflexivity.
  assert (E2 : t_targets (snd (tbl_remove t row)) = t_targets t) by reflexivity.
  destruct (tbl_remove t row) as [sw t']. cbn [snd] in *.
  apply (sd_setT_then _ s tid t t'); auto. sd_tac.
Qed.

Lemma sd_ss_copy_row : forall old new m row nidx, sd_ss (copy_row old new m row nidx).
Proof. intros. unfold copy_row. sd_tac. Qed.

Lemma sd_ss_copy_all : forall src dst row nidx, sd_ss (copy_all src dst row nidx).
Proof. intros. unfold copy_all. sd_tac. Qed.

Lemma sd_ss_set_index_direct : forall e tid row, sd_ss (set_index_direct e tid row).
Proof. intros. unfold set_index_direct. sd_tac. Qed.

Lemma sd_ss_create_entity : forall tid, sd_ss (create_entity tid).
Proof.
  intros tid. unfold create_entity. apply sd_ss_bind; [apply sd_ss_pool_getM|]. intros e.
  apply sd_ss_bind; [apply sd_ss_tbl_addM|]. intros idx.
  apply sd_ss_bind; [apply sd_ss_set_index|]. intros _. sd_tac.
Qed.

Lemma sd_ss_cleanup : forall e, sd_ss (cleanup_archetypes e).
Proof.
  intros e s Hr. unfold cleanup_archetypes, bind, get. rewrite Hr. cbn. apply sd_same_refl.
Qed.

(** ** The clauses together. [sd_b] switches the fourth one ("every archetype has a table"), which holds
    in the core histories but is not needed for the other three to be inductive. *)
Section sd_flag.
Variable sd_b : bool.

Definition sd_X (s : W) : Prop :=
  tables_listed_all s /\ v_targets_zero s /\ compindex_ok s /\ (sd_b = true -> bo_archs_tabled s).

Lemma sd_X_same : forall s s', sd_same s s' -> sd_X s -> sd_X s'.
Proof.
  intros s s' HS (X1 & X2 & X3 & X4). pose proof HS as (E1 & E2 & E3 & E4 & E5). split; [|split; [|split]].
  - intros tid t' H. destruct (sd_same_table _ _ _ _ HS H) as (t & Ht & Ea & _).
    destruct (X1 tid t Ht) as (a & Ha & Hin). exists a. rewrite E1, <- Ea. auto.
  - intros tid t' H. destruct (sd_same_table _ _ _ _ HS H) as (t & Ht & _ & Et). rewrite <- Et. exact (X2 tid t Ht).
  - intros c. rewrite E2, E1, (X3 c). apply sd_filter_ext_in. intros x _. symmetry. apply sd_has_archs. exact E1.
  - intros Hb aid a Ha. rewrite E1 in Ha. exact (X4 Hb aid a Ha).
Qed.

(** ** Structure creation *)

(** *** find_or_create_arch: the archetype is found, or appended and entered in the index. The finders
    are followed through the regrouped halves of [sa_finder_tail_bare]: first the archetype record
    alone ([find_or_create_arch_bare]), then [get_or_create_table], which creates the table of a new
    archetype (in the model, as in the repaired Go code, that table is created by createArchetype
    itself; the reached state is the same). *)
Lemma sd_foca_shape : forall s m aid s1, find_or_create_arch_bare m s = Ok aid s1 ->
  (s1 = s /\ exists a, nth_error (w_archs s) aid = Some a /\ a_mask a = m) \/
  (aid = length (w_archs s) /\
   exists a, w_archs s1 = w_archs s ++ [a] /\ a_mask a = m /\ a_tables a = [] /\
     w_tables s1 = w_tables s /\
     w_compindex s1 = fold_left (fun ci c => updf c (fun l => l ++ [length (w_archs s)]) ci)
                                (mk_to_list m (length (w_reg s))) (w_compindex s) /\
     w_centries s1 = w_centries s /\ w_cheap s1 = w_cheap s /\ w_filters s1 = w_filters s).
Proof.
  intros s m aid s1 H. unfold find_or_create_arch_bare, bind, get in H. rewrite sa_find_arch_go in H.
  destruct (sa_find_go m (w_archs s) 0) as [i|] eqn:F.
  - unfold ret in H. inversion H; subst. left. split; [reflexivity|].
    apply sa_find_go_some in F. destruct F as (_ & a & Ha & Ma). rewrite Nat.sub_0_r in Ha. eauto.
  - unfold create_archetype_bare, bind, get, put, ret in H. inversion H; subst. right. split; [reflexivity|].
    eexists. cbn. repeat split.
Qed.

(** The clauses between the two halves of a finder: archetype [aid] may still lack its table. *)
Definition sd_X1 (s : W) (aid : nat) : Prop :=
  tables_listed_all s /\ v_targets_zero s /\ compindex_ok s /\
  (sd_b = true -> forall i a, nth_error (w_archs s) i = Some a -> i <> aid -> a_tables a <> []).

Lemma sd_foca_X : forall s m aid s1, WF s -> (forall j, mk_get m j = true -> j < length (w_reg s)) ->
  sd_X s -> find_or_create_arch_bare m s = Ok aid s1 -> sd_X1 s1 aid.
Proof.
  intros s m aid s1 HW Hm (X1 & X2 & X3 & X4) H.
  destruct (sd_foca_shape _ _ _ _ H) as [(-> & _)|(-> & a & EA & Ma & Ta & ET & EC & _)].
  - split; [exact X1|]. split; [exact X2|]. split; [exact X3|]. intros Hb i a Ha _. exact (X4 Hb i a Ha).
  - split; [|split; [|split]].
    + intros tid t Ht. rewrite ET in Ht. destruct (X1 tid t Ht) as (b & Hb & Hin). exists b.
      rewrite EA. split; [apply sa_nth_error_snoc_old; exact Hb|exact Hin].
    + intros tid t Ht. rewrite ET in Ht. exact (X2 tid t Ht).
    + intros c. rewrite EC, EA, app_length. cbn [length]. rewrite Nat.add_1_r, seq_S, filter_app. cbn [Nat.add filter].
      destruct (mk_to_list_sorted m (length (w_reg s))) as (ND & _).
      rewrite sd_fold_index; [|exact ND|].
      2:{ intros x Hx. apply mk_to_list_spec in Hx. destruct (wf_index_lists _ HW) as (L & _). rewrite L. apply Hx. }
      rewrite (X3 c). f_equal.
      * apply sd_filter_ext_in. intros x Hx. apply in_seq in Hx. unfold sd_has. rewrite EA.
        rewrite nth_error_app1 by lia. reflexivity.
      * unfold sd_has at 1. rewrite EA, sa_nth_error_snoc_new, Ma.
        destruct (mk_get m c) eqn:G.
        -- assert (Hin : memb c (mk_to_list m (length (w_reg s))) = true).
           { apply sa_memb_in, mk_to_list_spec. split; [apply Hm; exact G|exact G]. }
           rewrite Hin. reflexivity.
        -- destruct (memb c (mk_to_list m (length (w_reg s)))) eqn:Em; [|reflexivity].
           apply sa_memb_in, mk_to_list_spec in Em. destruct Em as (_ & Em). congruence.
    + intros Hf i b Hb Hne. rewrite EA in Hb. apply sa_nth_error_snoc in Hb. destruct Hb as [[_ Hb]|[Hi _]]; [|contradiction].
      exact (X4 Hf i b Hb).
Qed.

(** *** get_or_create_table without targets: the archetype's table is returned, or created and listed *)
Lemma sd_create_table_nil_shape : forall s aid a,
  St s -> nth_error (w_archs s) aid = Some a -> a_tables a = [] ->
  exists s' t, create_table aid [] s = Ok (length (w_tables s)) s' /\
    w_tables s' = w_tables s ++ [t] /\
    w_archs s' = updf aid (sa_arch_add (length (w_tables s))) (w_archs s) /\
    w_compindex s' = w_compindex s /\ t_arch t = aid /\
    t_targets t = repeat zero_ent (length (a_comps a)) /\ w_centries s' = w_centries s.
Proof.
  intros s aid a HS Ha Hta. pose proof HS as [HW HN]. pose proof HN as (N1 & N2 & N3 & N4).
  destruct (N3 aid a Ha) as (Hf & Hn & Hg & Hr).
  unfold create_table.
  rewrite (sa_bind_ok (sa_getA_eq _ _ _ Ha)). rewrite Hn. cbn [length Nat.ltb Nat.leb negb guard].
  rewrite (sa_bind_ok (m := ret tt) (s := s) eq_refl).
  cbn [rels_distinct guard]. rewrite (sa_bind_ok (m := ret tt) (s := s) eq_refl).
  cbn [place_targets of_opt]. rewrite (sa_bind_ok (m := ret _) (s := s) eq_refl).
  cbn [forM_]. rewrite (sa_bind_ok (m := ret tt) (s := s) eq_refl).
  unfold register_targets; cbn [forM_]. rewrite (sa_bind_ok (m := ret tt) (s := s) eq_refl).
  rewrite (sa_bind_ok (m := get) (s := s) eq_refl).
  rewrite Hf. cbn [rev].
  unfold arch_has_rels. rewrite Hn. cbn [Nat.eqb negb].
  set (t := new_table aid a (map (kind_of s) (a_comps a)) (cf_cap (w_cfg s)) (repeat zero_ent (length (a_comps a))) []).
  set (tid := length (w_tables s)).
  set (s1 := s <| w_tables ::= fun l => l ++ [t] |>).
  assert (E1 : (modify (fun s0 : wstate => s0 <| w_tables ::= fun l => l ++ [t] |>) ;;; ret tid) s = Ok tid s1) by reflexivity.
  rewrite (sa_bind_ok E1).
  assert (T1 : nth_error (w_tables s1) tid = Some t) by (unfold s1; cbn; apply sa_nth_error_snoc_new).
  rewrite (sa_bind_ok (sa_getT_eq _ _ _ T1)).
  set (s2 := s1 <| w_archs ::= updf aid (fun a0 => arch_add_table a0 tid t) |>).
  assert (E2 : modA aid (fun a0 => arch_add_table a0 tid t) s1 = Ok tt s2) by reflexivity.
  rewrite (sa_bind_ok E2).
  assert (EA : w_archs s2 = updf aid (sa_arch_add tid) (w_archs s)).
  { unfold s2, s1. cbn. unfold updf. rewrite Ha. f_equal. unfold arch_add_table, arch_has_rels. rewrite Hn. reflexivity. }
  destruct (sa_cache_add_table_spec tid t (a_mask a) s2) as (l' & E3 & RC).
  { reflexivity. }
  { intros addr Hin. apply (wf_cache _ HW addr Hin). }
  rewrite (sa_bind_ok E3). unfold ret.
  exists (s2 <| w_cheap := l' |>), t. split; [reflexivity|]. split; [reflexivity|]. split; [exact EA|].
  split; [reflexivity|]. split; [reflexivity|]. split; reflexivity.
Qed.

Lemma sd_goct_shape : forall s aid a, St s -> nth_error (w_archs s) aid = Some a ->
  (exists t0 tl, a_tables a = t0 :: tl /\ get_or_create_table aid [] s = Ok t0 s) \/
  (a_tables a = [] /\ exists s' t, get_or_create_table aid [] s = Ok (length (w_tables s)) s' /\
     w_tables s' = w_tables s ++ [t] /\
     w_archs s' = updf aid (sa_arch_add (length (w_tables s))) (w_archs s) /\
     w_compindex s' = w_compindex s /\ t_arch t = aid /\
     t_targets t = repeat zero_ent (length (a_comps a)) /\ w_centries s' = w_centries s).
Proof.
  intros s aid a HS Ha. pose proof HS as [HW HN]. pose proof HN as (N1 & N2 & N3 & N4).
  destruct (N3 aid a Ha) as (Hf & Hn & Hg & Hr).
  unfold get_or_create_table. rewrite (sa_bind_ok (sa_getA_eq _ _ _ Ha)).
  unfold arch_get_table. destruct (a_tables a) as [|t0 tl] eqn:Hta.
  - right. split; [reflexivity|]. rewrite (sa_bind_ok (m := ret None) (s := s) eq_refl).
    destruct (sd_create_table_nil_shape s aid a HS Ha Hta) as (s' & t & E & P). exists s', t. split; [exact E|exact P].
  - left. exists t0, tl. split; [reflexivity|].
    unfold arch_has_rels. rewrite Hn. cbn [Nat.eqb negb]. rewrite (sa_bind_ok (m := ret (Some t0)) (s := s) eq_refl).
    reflexivity.
Qed.

Lemma sd_goct_X : forall s aid a tid s', St s -> nth_error (w_archs s) aid = Some a -> sd_X1 s aid ->
  get_or_create_table aid [] s = Ok tid s' -> sd_X s'.
Proof.
  intros s aid a tid s' HS Ha (X1 & X2 & X3 & X4) H.
  destruct (sd_goct_shape s aid a HS Ha) as [(t0 & tl & Ta & E)|(Ta & s2 & t & E & ET & EA & EC & At & Tt & _)];
    rewrite E in H; injection H as <- <-.
  - split; [exact X1|]. split; [exact X2|]. split; [exact X3|].
    intros Hf i b Hb. destruct (Nat.eq_dec i aid) as [->|Hne]; [|exact (X4 Hf i b Hb Hne)].
    rewrite Ha in Hb. inversion Hb; subst. rewrite Ta. discriminate.
  - set (tid := length (w_tables s)) in *. split; [|split; [|split]].
    + intros j x Hx. rewrite ET in Hx. rewrite EA. apply sa_nth_error_snoc in Hx. destruct Hx as [[_ Hx]|[-> ->]].
      * destruct (X1 j x Hx) as (b & Hb & Hin). rewrite nth_error_updf.
        destruct (Nat.eqb_spec aid (t_arch x)) as [Eq|Ne].
        -- rewrite Hb. cbn. eexists. split; [reflexivity|]. unfold sa_arch_add. cbn. apply in_or_app. left. exact Hin.
        -- exists b. auto.
      * rewrite At, nth_error_updf, Nat.eqb_refl, Ha. cbn. eexists. split; [reflexivity|].
        unfold sa_arch_add. cbn. apply in_or_app. right. left. reflexivity.
    + intros j x Hx. rewrite ET in Hx. apply sa_nth_error_snoc in Hx. destruct Hx as [[_ Hx]|[_ ->]].
      * exact (X2 j x Hx).
      * rewrite Tt. apply Forall_forall. intros y Hy. apply repeat_spec in Hy. exact Hy.
    + intros c. rewrite EC, EA, updf_length, (X3 c). apply sd_filter_ext_in. intros i _.
      unfold sd_has. rewrite EA, nth_error_updf. destruct (Nat.eqb_spec aid i) as [<-|Ne]; [|reflexivity].
      rewrite Ha. reflexivity.
    + intros Hf i b Hb. rewrite EA, nth_error_updf in Hb. destruct (Nat.eqb_spec aid i) as [<-|Ne].
      * rewrite Ha in Hb. cbn in Hb. inversion Hb; subst. unfold sa_arch_add. cbn. destruct (a_tables a); discriminate.
      * apply (X4 Hf i b Hb). congruence.
Qed.

(** *** Both halves of a finder *)
Lemma sd_finder_tail_X : forall s m, St s -> sd_X s ->
  (forall j, mk_get m j = true -> j < length (w_reg s)) ->
  forall aid s1 tid s2, find_or_create_arch m s = Ok aid s1 -> get_or_create_table aid [] s1 = Ok tid s2 -> sd_X s2.
Proof.
  intros s m HS HX Hm aid s1 tid s2 E1 E4.
  destruct (sa_finder_tail_bare s m aid s1 tid s2 HS Hm E1 E4) as (s0 & a & E0 & HS0 & Ha & _ & E40).
  eapply sd_goct_X; [exact HS0|exact Ha| |exact E40].
  eapply sd_foca_X; [exact (proj1 HS)|exact Hm|exact HX|exact E0].
Qed.

Lemma sd_init_X : forall c, sd_X (init_world c).
Proof.
  intros c. split; [|split; [|split]].
  - apply v_tables_listed_all, v_tables_listed_init.
  - apply v_targets_zero_init.
  - intros k. unfold init_world. cbn [w_compindex w_archs length seq filter]. rewrite sd_nth_repeat_nil.
    unfold sd_has. cbn [w_archs nth_error a_mask]. rewrite sa_mk_get_0. reflexivity.
  - intros _ [|aid] a H; [|destruct aid; discriminate]. unfold init_world in H. cbn in H. inversion H; subst a. cbn.
    intros E; discriminate E.
Qed.
End sd_flag.

(** ** A predicate tracked through the core operations

    [T] is any state predicate that (1) only depends on what [sd_same] keeps and (2) survives the two
    halves of a table finder (archetype lookup/creation, then table lookup/creation). Every core
    operation is a read-only prefix, at most one finder, and a tail that keeps [sd_same]; hence [T]
    holds after every core operation. Instances: the clauses [sd_X], the cache clauses [sd_C]. *)
Section sd_track.
Variable T : W -> Prop.
Hypothesis T_same : forall s s', sd_same s s' -> T s -> T s'.
Hypothesis T_tail : forall s m, St s -> T s -> (forall j, mk_get m j = true -> j < length (w_reg s)) ->
  forall aid s1 tid s2, find_or_create_arch m s = Ok aid s1 -> get_or_create_table aid [] s1 = Ok tid s2 -> T s2.

(** *** The three table finders *)
Lemma sd_finder_add : forall s old ot add m0, St s -> T s -> nth_error (w_tables s) old = Some ot ->
  (forall j, mk_get m0 j = true -> j < length (w_reg s)) -> (forall c, In c add -> c < length (w_reg s)) ->
  T (state_of (find_or_create_table_add old add [] m0 s)).
Proof.
  intros s old ot add m0 HS HX Hot Hm0 Hadd. unfold find_or_create_table_add.
  pose proof (sa_gf_add_spec None add m0 s) as G.
  destruct (gf_add None add m0 s) as [m s0|e s0] eqn:EG.
  - destruct G as (-> & Hm & ND & Hf & _). rewrite (sa_bind_ok EG).
    assert (Hb : forall j, mk_get m j = true -> j < length (w_reg s)).
    { intros j Hj. rewrite Hm in Hj. apply orb_true_iff in Hj. destruct Hj as [Hj|Hj]; [auto|apply Hadd, sa_memb_in; exact Hj]. }
    destruct (sa_finder_tail s old ot m HS Hot Hb) as (Hr & aid & s1 & a & E1 & E2 & Ma & E3 & tid & s2 & E4 & P).
    rewrite (sa_bind_ok E1), (sa_bind_ok E3). rewrite Hr. rewrite (sa_bind_ok E4). unfold ret. cbn [state_of].
    eapply T_tail; eauto.
  - destruct G as (-> & Hn). rewrite (sa_bind_err EG). exact HX.
Qed.

Lemma sd_finder_remove : forall s old ot rem m0, St s -> T s -> nth_error (w_tables s) old = Some ot ->
  (forall j, mk_get m0 j = true -> j < length (w_reg s)) ->
  T (state_of (find_or_create_table_remove old rem m0 s)).
Proof.
  intros s old ot rem m0 HS HX Hot Hm0. unfold find_or_create_table_remove.
  pose proof (sa_gf_remove_spec rem m0 s) as G.
  destruct (gf_remove rem m0 s) as [m s0|e s0] eqn:EG.
  - destruct G as (-> & Hm & ND & Hf). rewrite (sa_bind_ok EG).
    assert (Hb : forall j, mk_get m j = true -> j < length (w_reg s)).
    { intros j Hj. rewrite Hm in Hj. apply andb_true_iff in Hj. destruct Hj as [Hj _]. auto. }
    destruct (sa_finder_tail s old ot m HS Hot Hb) as (Hr & aid & s1 & a & E1 & E2 & Ma & E3 & tid & s2 & E4 & P).
    rewrite (sa_bind_ok E1), (sa_bind_ok E2), (sa_bind_ok E3). rewrite Hr. cbn [surviving_rels filter existsb].
    rewrite (sa_bind_ok E4). unfold ret. cbn [state_of]. eapply T_tail; eauto.
  - destruct G as (-> & Hn). rewrite (sa_bind_err EG). exact HX.
Qed.

Lemma sd_finder_exchange : forall s old ot add rem m0, St s -> T s -> nth_error (w_tables s) old = Some ot ->
  (forall j, mk_get m0 j = true -> j < length (w_reg s)) -> (forall c, In c add -> c < length (w_reg s)) ->
  T (state_of (find_or_create_table old add rem [] m0 s)).
Proof.
  intros s old ot add rem m0 HS HX Hot Hm0 Hadd. unfold find_or_create_table.
  pose proof (sa_gf_remove_spec rem m0 s) as G.
  destruct (gf_remove rem m0 s) as [m1 s0|e s0] eqn:EG.
  - destruct G as (-> & Hm1 & NDr & Hfr). rewrite (sa_bind_ok EG).
    pose proof (sa_gf_add_spec (Some m0) add m1 s) as G.
    destruct (gf_add (Some m0) add m1 s) as [m s0|e s0] eqn:EG2.
    + destruct G as (-> & Hm & NDa & Hfa & Hsa). rewrite (sa_bind_ok EG2).
      assert (Hb : forall j, mk_get m j = true -> j < length (w_reg s)).
      { intros j Hj. rewrite Hm, Hm1 in Hj. apply orb_true_iff in Hj. destruct Hj as [Hj|Hj].
        - apply andb_true_iff in Hj. destruct Hj as [Hj _]. auto.
        - apply Hadd, sa_memb_in; exact Hj. }
      destruct (sa_finder_tail s old ot m HS Hot Hb) as (Hr & aid & s1 & a & E1 & E2 & Ma & E3 & tid & s2 & E4 & P).
      rewrite (sa_bind_ok E1), (sa_bind_ok E2), (sa_bind_ok E3). rewrite Hr.
      assert (X : (match rem with
                   | [] => (@nil rel, false)
                   | _ :: _ => let '(sv, rm) := surviving_rels a [] in (sv ++ [], rm)
                   end) = ([], false)) by (destruct rem; reflexivity).
      rewrite X. rewrite (sa_bind_ok E4). unfold ret. cbn [state_of]. eapply T_tail; eauto.
    + destruct G as (-> & _). rewrite (sa_bind_err EG2). exact HX.
  - destruct G as (-> & Hn). rewrite (sa_bind_err EG). exact HX.
Qed.

(** ** The core operations *)

(** The clauses together with "no relation archetypes" (needed to step over [cleanup_archetypes]). *)
Definition sd_XR (F : list fobj) (s : W) : Prop := T s /\ w_relarchs s = [] /\ w_filters s = F.

Lemma sd_XR_same : forall F s s', sd_same s s' -> sd_XR F s -> sd_XR F s'.
Proof.
  intros F s s' HS (HX & Hr & HF). split; [eapply T_same; eauto|].
  destruct HS as (_ & _ & E & _ & _ & E' & _). split; congruence.
Qed.

(** Stepping over a read-only prefix. *)
Lemma sd_ro_bind : forall A B (m : MW A) (k : A -> MW B) (Q : W -> Prop) s, readonly m -> Q s ->
  (forall a, m s = Ok a s -> Q (state_of (k a s))) -> Q (state_of (bind m k s)).
Proof.
  intros A B m k Q s Hm HQ H. destruct (sc_ro_cases _ m Hm s) as [(a & E)|(er & E)].
  - rewrite (sa_bind_ok E). apply H. exact E.
  - rewrite (sa_bind_err E). exact HQ.
Qed.

Lemma sd_then_ss : forall F A B (m : MW A) (k : A -> MW B) s,
  sd_XR F (state_of (m s)) -> (forall a, sd_ss (k a)) -> sd_XR F (state_of (bind m k s)).
Proof.
  intros F A B m k s HX Hk. unfold bind. destruct (m s) as [a s1|er s1]; cbn [state_of] in *; [|exact HX].
  eapply sd_XR_same; [|exact HX]. apply Hk. apply HX.
Qed.

Lemma sd_tail : forall F A (m : MW A) s, sd_XR F s -> sd_ss m -> sd_XR F (state_of (m s)).
Proof. intros F A m s HX Hm. eapply sd_XR_same; [apply Hm; apply HX|exact HX]. Qed.

Lemma sd_get_index_inv : forall e s tid row, get_index e s = Ok (tid, row) s ->
  nth_error (w_index s) (fst e) = Some (Some tid, row).
Proof.
  intros e s tid row H. unfold get_index, bind, get in H.
  destruct (nth_error (w_index s) (fst e)) as [[[t|] r]|]; try discriminate. unfold ret in H. inversion H. reflexivity.
Qed.

Lemma sd_arch_mask_inv : forall tid s m, arch_mask_of_table tid s = Ok m s ->
  exists t a, nth_error (w_tables s) tid = Some t /\ nth_error (w_archs s) (t_arch t) = Some a /\ m = a_mask a.
Proof.
  intros tid s m H. unfold arch_mask_of_table in H.
  apply q_bind_inv in H. destruct H as (t & s1 & H1 & H). apply q_getT_inv in H1. destruct H1 as (-> & Ht).
  apply q_bind_inv in H. destruct H as (a & s2 & H2 & H). apply q_getA_inv in H2. destruct H2 as (-> & Ha).
  unfold ret in H. inversion H. eauto.
Qed.

(** The finders keep the clauses and the world relation-free. *)
Lemma sd_finder_add_XR : forall s old ot add m0, St s -> T s -> nth_error (w_tables s) old = Some ot ->
  (forall j, mk_get m0 j = true -> j < length (w_reg s)) -> (forall c, In c add -> c < length (w_reg s)) ->
  sd_XR (w_filters s) (state_of (find_or_create_table_add old add [] m0 s)).
Proof.
  intros s old ot add m0 HS HX Hot Hm Hadd. split; [eapply sd_finder_add; eauto|].
  pose proof (find_or_create_table_add_spec s old ot add m0 HS Hot Hm Hadd) as H.
  destruct (find_or_create_table_add old add [] m0 s) as [[[tid aid] m] s1|er s1]; cbn [state_of].
  - destruct H as ((H & _ & _ & HF & _) & _). split; [apply H|apply HF].
  - destruct H as ((H & _ & _ & HF) & _). split; [apply H|apply HF].
Qed.
Lemma sd_finder_remove_XR : forall s old ot rem m0, St s -> T s -> nth_error (w_tables s) old = Some ot ->
  (forall j, mk_get m0 j = true -> j < length (w_reg s)) ->
  sd_XR (w_filters s) (state_of (find_or_create_table_remove old rem m0 s)).
Proof.
  intros s old ot rem m0 HS HX Hot Hm. split; [eapply sd_finder_remove; eauto|].
  pose proof (find_or_create_table_remove_spec s old ot rem m0 HS Hot Hm) as H.
  destruct (find_or_create_table_remove old rem m0 s) as [[[[tid aid] m] rr] s1|er s1]; cbn [state_of].
  - destruct H as ((H & _ & _ & HF & _) & _). split; [apply H|apply HF].
  - destruct H as ((H & _ & _ & HF) & _). split; [apply H|apply HF].
Qed.
Lemma sd_finder_exchange_XR : forall s old ot add rem m0, St s -> T s -> nth_error (w_tables s) old = Some ot ->
  (forall j, mk_get m0 j = true -> j < length (w_reg s)) -> (forall c, In c add -> c < length (w_reg s)) ->
  sd_XR (w_filters s) (state_of (find_or_create_table old add rem [] m0 s)).
Proof.
  intros s old ot add rem m0 HS HX Hot Hm Hadd. split; [eapply sd_finder_exchange; eauto|].
  pose proof (find_or_create_table_spec s old ot add rem m0 HS Hot Hm Hadd) as H.
  destruct (find_or_create_table old add rem [] m0 s) as [[[[tid aid] m] rr] s1|er s1]; cbn [state_of].
  - destruct H as ((H & _ & _ & HF & _) & _). split; [apply H|apply HF].
  - destruct H as (H & _ & _ & HF). split; [apply H|apply HF].
Qed.

Lemma sd_ss_fire_remove_events : forall e old new rr, sd_ss (fire_remove_events e old new rr).
Proof. intros. apply sd_ss_sp. exact (fire_remove_events_storage e old new rr). Qed.
Lemma sd_ss_fire_add : forall evt e old new, sd_ss (fire_add_if_has evt e old new).
Proof. intros. apply sd_ss_sp. exact (fire_add_if_has_storage evt e old new). Qed.
Lemma sd_ss_fire_create : forall e m, sd_ss (fire_create_entity_if_has e m).
Proof. intros. apply sd_ss_sp. exact (fire_create_entity_if_has_storage e m). Qed.

Lemma sd_ss_copy_entity : forall e, sd_ss (w_copy_entity e).
Proof.
  intros e. unfold w_copy_entity.
  apply sd_ss_bind; [sd_tac|]. intros _.
  apply sd_ss_bind; [sd_tac|]. intros s0.
  apply sd_ss_bind; [sd_tac|]. intros _.
  apply sd_ss_bind; [apply sd_ss_pool_getM|]. intros ne.
  apply sd_ss_bind; [sd_tac|]. intros [tid row].
  apply sd_ss_bind; [apply sd_ss_tbl_addM|]. intros idx.
  apply sd_ss_bind; [apply sd_ss_set_index|]. intros _.
  apply sd_ss_bind; [apply sd_ss_copy_all|]. intros _.
  apply sd_ss_bind; [sd_tac|]. intros t.
  apply sd_ss_bind; [sd_tac|]. intros a.
  apply sd_ss_bind; [apply sd_ss_fire_create|]. intros _.
  apply sd_ss_bind; [|intros _; apply sd_ss_ret].
  apply sd_ss_whenM. apply sd_ss_sp. apply sc_sp_fire_create_rel.
Qed.

Lemma sd_ss_remove_entity : forall e, sd_ss (storage_remove_entity e).
Proof.
  intros e. unfold storage_remove_entity.
  apply sd_ss_bind; [sd_tac|]. intros s0.
  apply sd_ss_bind; [sd_tac|]. intros _.
  apply sd_ss_bind; [sd_tac|]. intros [tid row].
  apply sd_ss_bind; [sd_tac|]. intros t.
  apply sd_ss_bind; [sd_tac|]. intros m.
  apply sd_ss_bind; [apply sd_ss_sp; exact (sb3_pres_events _ _ e m)|]. intros _.
  apply sd_getT_bind. intros s1 t1 Hr1 Ht1.
  assert (E1 : t_arch (snd (tbl_remove t1 row)) = t_arch t1) by reflexivity.
  assert (E2 : t_targets (snd (tbl_remove t1 row)) = t_targets t1) by reflexivity.
  destruct (tbl_remove t1 row) as [sw t']. cbn [snd] in *.
  apply (sd_setT_then _ s1 tid t1 t'); auto.
  apply sd_ss_bind; [apply sd_ss_pool_recycleM|]. intros _.
  apply sd_ss_bind; [sd_tac|]. intros _.
  apply sd_ss_bind; [sd_tac|]. intros _.
  apply sd_ss_bind; [sd_tac|]. intros s2.
  apply sd_ss_whenM. apply sd_ss_bind; [apply sd_ss_cleanup|]. intros _. sd_tac.
Qed.

Lemma sd_ss_write_cell : forall tid ci row v, sd_ss (write_cell tid ci row v).
Proof. intros. unfold write_cell. sd_tac. Qed.

Lemma sd_ss_cell_of : forall debug e c, sd_ss (cell_of debug e c).
Proof. intros. apply sd_ss_ro, sc_ro_cell_of. Qed.

Section sd_ops.
Variables (debug : bool) (s : W).
Hypothesis HSt : St s.
Hypothesis HX : T s.
Let HW : WF s := proj1 HSt.
Let HXR : sd_XR (w_filters s) s := conj HX (conj (proj2 (proj2 (proj2 (proj2 HSt)))) eq_refl).

(** The facts the common prefix (index lookup, old mask) provides. *)
Lemma sd_prefix_facts : forall otid om, arch_mask_of_table otid s = Ok om s ->
  exists ot, nth_error (w_tables s) otid = Some ot /\ forall j, mk_get om j = true -> j < length (w_reg s).
Proof.
  intros otid om Em. destruct (sd_arch_mask_inv _ _ _ Em) as (t & a & Ht & Ha & ->).
  exists t. split; [exact Ht|]. destruct (wf_arch_comps _ HW _ _ Ha) as (_ & B & _). exact B.
Qed.

Lemma sd_w_add : forall e ids, registered s ids -> sd_XR (w_filters s) (state_of (w_add e ids [] s)).
Proof.
  intros e ids Hreg. unfold w_add.
  apply sd_ro_bind; [apply sc_ro_check_locked|exact HXR|intros _ _].
  apply sd_ro_bind; [apply readonly_get|exact HXR|intros s0 _].
  apply sd_ro_bind; [apply readonly_guard|exact HXR|intros _ _].
  apply sd_ro_bind; [apply readonly_guard|exact HXR|intros _ _].
  apply sd_ro_bind; [apply readonly_get_index|exact HXR|intros [otid row] Ei].
  apply sd_ro_bind; [apply sc_ro_arch_mask|exact HXR|intros om Em].
  destruct (sd_prefix_facts otid om Em) as (ot & Hot & Hb).
  apply sd_then_ss.
  - eapply sd_finder_add_XR; eauto.
  - intros [[ntid naid] m]. apply sd_ss_bind; [apply sd_ss_tbl_addM|]. intros nidx.
    apply sd_ss_bind; [apply sd_ss_copy_row|]. intros _.
    apply sd_ss_bind; [apply sd_ss_remove_row|]. intros _.
    apply sd_ss_bind; [apply sd_ss_set_index_direct|]. intros _.
    apply sd_ss_bind; [apply sd_ss_register_targets|]. intros _. sd_tac.
Qed.

Lemma sd_w_remove : forall e ids, sd_XR (w_filters s) (state_of (w_remove e ids s)).
Proof.
  intros e ids. unfold w_remove.
  apply sd_ro_bind; [apply sc_ro_check_locked|exact HXR|intros _ _].
  apply sd_ro_bind; [apply readonly_get|exact HXR|intros s0 _].
  apply sd_ro_bind; [apply readonly_guard|exact HXR|intros _ _].
  apply sd_ro_bind; [apply readonly_guard|exact HXR|intros _ _].
  apply sd_ro_bind; [apply readonly_get_index|exact HXR|intros [otid row] Ei].
  apply sd_ro_bind; [apply sc_ro_arch_mask|exact HXR|intros om Em].
  destruct (sd_prefix_facts otid om Em) as (ot & Hot & Hb).
  apply sd_then_ss.
  - eapply sd_finder_remove_XR; eauto.
  - intros [[[ntid naid] m] rr]. apply sd_ss_bind; [apply sd_ss_fire_remove_events|]. intros _.
    apply sd_ss_bind; [apply sd_ss_tbl_addM|]. intros nidx.
    apply sd_ss_bind; [apply sd_ss_copy_row|]. intros _.
    apply sd_ss_bind; [apply sd_ss_remove_row|]. intros _. apply sd_ss_set_index_direct.
Qed.

Lemma sd_w_exchange : forall e add rem, registered s add -> sd_XR (w_filters s) (state_of (w_exchange e add rem [] s)).
Proof.
  intros e add rem Hreg. unfold w_exchange.
  apply sd_ro_bind; [apply sc_ro_check_locked|exact HXR|intros _ _].
  apply sd_ro_bind; [apply readonly_get|exact HXR|intros s0 _].
  apply sd_ro_bind; [apply readonly_guard|exact HXR|intros _ _].
  apply sd_ro_bind; [apply readonly_guard|exact HXR|intros _ _].
  apply sd_ro_bind; [apply readonly_get_index|exact HXR|intros [otid row] Ei].
  apply sd_ro_bind; [apply sc_ro_arch_mask|exact HXR|intros om Em].
  destruct (sd_prefix_facts otid om Em) as (ot & Hot & Hb).
  apply sd_then_ss.
  - eapply sd_finder_exchange_XR; eauto.
  - intros [[[ntid naid] m] rr]. apply sd_ss_bind; [apply sd_ss_whenM, sd_ss_fire_remove_events|]. intros _.
    apply sd_ss_bind; [apply sd_ss_tbl_addM|]. intros nidx.
    apply sd_ss_bind; [apply sd_ss_copy_row|]. intros _.
    apply sd_ss_bind; [apply sd_ss_remove_row|]. intros _.
    apply sd_ss_bind; [apply sd_ss_set_index_direct|]. intros _.
    apply sd_ss_bind; [apply sd_ss_register_targets|]. intros _. sd_tac.
Qed.

Lemma sd_new_entity : forall ids, registered s ids -> sd_XR (w_filters s) (state_of (new_entity ids [] s)).
Proof.
  intros ids Hreg. unfold new_entity.
  apply sd_ro_bind; [apply sc_ro_check_locked|exact HXR|intros _ _].
  destruct (wf_arch0 _ HW) as (a0 & Ha0 & Hm0 & t0 & Ht0 & Hta0).
  assert (Hz : forall j, mk_get 0%N j = true -> j < length (w_reg s)).
  { intros j Hj. rewrite sa_mk_get_0 in Hj. discriminate. }
  apply sd_then_ss.
  - eapply sd_finder_add_XR; eauto.
  - intros [[tid aid] m]. apply sd_ss_bind; [apply sd_ss_pool_getM|]. intros e.
    apply sd_ss_bind; [apply sd_ss_tbl_addM|]. intros idx.
    apply sd_ss_bind; [apply sd_ss_set_index|]. intros _.
    apply sd_ss_bind; [apply sd_ss_register_targets|]. intros _. sd_tac.
Qed.

(** The common prefix [resolveH h ;; get ;; guard alive]. *)
Lemma sd_guarded : forall h (k : ent -> MW (list Z)),
  (forall e, sd_XR (w_filters s) (state_of (k e s))) ->
  sd_XR (w_filters s) (state_of ((e <- resolveH h ;; s0 <- get ;; guard (alive s0 e) EDead ;;; k e) s)).
Proof.
  intros h k H.
  apply sd_ro_bind; [apply readonly_resolveH|exact HXR|intros e _].
  apply sd_ro_bind; [apply readonly_get|exact HXR|intros s0 _].
  apply sd_ro_bind; [apply readonly_guard|exact HXR|intros _ _]. apply H.
Qed.

(** Every core operation keeps the four clauses. *)
Lemma sd_op_XR : forall o, core_op o = true -> registered s (op_ids o) -> sd_XR (w_filters s) (state_of (step_op debug o s)).
Proof.
  intros o Hc Hreg. destruct o; try discriminate Hc; cbn [op_ids] in Hreg; cbn [step_op].
  - (* ONewEntity *) apply sd_tail; [exact HXR|].
    apply sd_ss_bind; [sd_tac|]. intros _. apply sd_ss_bind; [apply sd_ss_create_entity|]. intros e.
    apply sd_ss_bind; [sd_tac|]. intros m. apply sd_ss_bind; [apply sd_ss_fire_create|]. intros _. sd_tac.
  - (* OUNew *) apply sd_then_ss; [apply sd_new_entity; exact Hreg|].
    intros [e m]. apply sd_ss_bind; [apply sd_ss_fire_create|]. intros _. sd_tac.
  - (* OCopy *) apply sd_tail; [exact HXR|].
    apply sd_ss_bind; [sd_tac|]. intros e. apply sd_ss_bind; [apply sd_ss_copy_entity|]. intros ne. sd_tac.
  - (* OUAdd *)
    apply (sd_guarded h (fun e => r <- w_add e ids [] ;; fire_add_if_has EvAddComponents e (fst r) (snd r) ;;; ret [])).
    intros e. apply sd_then_ss; [apply sd_w_add; exact Hreg|].
    intros r. apply sd_ss_bind; [apply sd_ss_fire_add|]. intros _. sd_tac.
  - (* OURemove *)
    apply (sd_guarded h (fun e => w_remove e ids ;;; ret [])).
    intros e. apply sd_then_ss; [apply sd_w_remove|]. intros _. sd_tac.
  - (* OUExchange *) destruct rels; [|discriminate Hc].
    apply (sd_guarded h (fun e => rels <- resolveR [] ;; r <- w_exchange e add rem rels ;;
      whenM (negb (is_nil add)) (
        fire_add_if_has EvAddComponents e (fst r) (snd r) ;;;
        whenM (negb (is_nil rels)) (fire_add_if_has EvAddRelations e (fst r) (snd r))) ;;;
      ret [])).
    intros e. unfold resolveR. cbn [mapM]. rewrite sb2_bind_ret. cbv beta.
    apply sd_then_ss; [apply sd_w_exchange; intros c Hin; apply Hreg, in_or_app; auto|].
    intros r. apply sd_ss_bind; [|intros _; sd_tac].
    apply sd_ss_whenM. apply sd_ss_bind; [apply sd_ss_fire_add|]. intros _. apply sd_ss_whenM, sd_ss_fire_add.
  - (* OWrite *) apply sd_tail; [exact HXR|].
    apply sd_ss_bind; [sd_tac|]. intros e. apply sd_ss_bind; [apply sd_ss_cell_of|]. intros [[tid ci] row].
    apply sd_ss_bind; [apply sd_ss_write_cell|]. intros _. sd_tac.
  - (* ORemoveEntity *) apply sd_tail; [exact HXR|].
    apply sd_ss_bind; [sd_tac|]. intros e. apply sd_ss_bind; [sd_tac|]. intros _.
    apply sd_ss_bind; [apply sd_ss_remove_entity|]. intros _. sd_tac.
  - (* OObsNew *) apply sd_tail; [exact HXR|]. sd_tac.
  - (* OObsRegister *) apply sd_tail; [exact HXR|]. apply sd_ss_sp.
    apply sa_sp_bind; [apply sc_sp_add_observer|intros; apply sa_sp_ret].
  - (* OObsUnregister *) apply sd_tail; [exact HXR|]. apply sd_ss_sp.
    apply sa_sp_bind; [apply sa_sp_remove_observer|intros; apply sa_sp_ret].
  - change (sd_XR (w_filters s) (state_of (step_op debug (OAlive h) s))).
    rewrite (reads_do_not_change_state debug (OAlive h) s eq_refl). exact HXR.
  - change (sd_XR (w_filters s) (state_of (step_op debug (OHas h c) s))).
    rewrite (reads_do_not_change_state debug (OHas h c) s eq_refl). exact HXR.
  - apply sd_tail; [exact HXR|]. apply sd_ss_ro. cbn [step_op].
    apply readonly_bind; [apply readonly_resolveH|]. intros e.
    apply readonly_bind; [apply sc_ro_cell_of|]. intros [[tid ci] row].
    apply readonly_bind; [apply readonly_getT|]. intros t. ro.
  - change (sd_XR (w_filters s) (state_of (step_op debug (OIDs h) s))).
    rewrite (reads_do_not_change_state debug (OIDs h) s eq_refl). exact HXR.
  - apply sd_tail; [exact HXR|]. apply sd_ss_ro. cbn [step_op].
    apply readonly_bind; [apply readonly_resolveH|]. intros e.
    apply readonly_bind; [apply sc_ro_cell_of|]. intros [[tid ci] row].
    apply readonly_bind; [apply readonly_getT|]. intros t. ro.
  - change (sd_XR (w_filters s) (state_of (step_op debug OStats s))).
    rewrite (reads_do_not_change_state debug OStats s eq_refl). exact HXR.
Qed.
End sd_ops.

(** *** One step of the operation language *)
Lemma sd_issue_same : forall o (r : res W (list Z)), sd_same (state_of r) (sc_issue o r).
Proof.
  intros o r. unfold sc_issue. destruct r as [[|i [|g rest]] s1|er s1]; cbn [state_of]; try apply sd_same_refl.
  destruct (returns_entity o); [|apply sd_same_refl]. unfold sd_same. repeat split.
Qed.

Lemma sd_log_same : forall (s : W) l, sd_same s (s <| w_log := l |>).
Proof. intros s l. unfold sd_same. repeat split. Qed.

Lemma sd_step_T : forall debug wd s line o, St s -> T s -> decode_op line = Some o -> core_op o = true ->
  (forall c, In c (op_ids o) -> c < length (w_reg s)) ->
  T (fst (step debug wd s line)) /\ w_filters (fst (step debug wd s line)) = w_filters s.
Proof.
  intros debug wd s line o HS HX Hd Hc Hreg. rewrite (sc_step_state debug wd s line o Hd Hc).
  set (s0 := s <| w_log := [] |>).
  assert (HS0 : St s0) by (apply sc_St_log; exact HS).
  assert (HX0 : T s0) by (eapply T_same; [apply sd_log_same|exact HX]).
  pose proof (sd_op_XR debug s0 HS0 HX0 o Hc Hreg) as H.
  assert (H' : sd_XR (w_filters s) (sc_issue o (step_op debug o s0) <| w_log := [] |>)).
  { eapply sd_XR_same; [apply sd_log_same|]. eapply sd_XR_same; [apply sd_issue_same|]. exact H. }
  split; [apply H'|apply H'].
Qed.

End sd_track.

Lemma sd_step_X : forall b debug wd s line o, St s -> sd_X b s -> decode_op line = Some o -> core_op o = true ->
  (forall c, In c (op_ids o) -> c < length (w_reg s)) ->
  sd_X b (fst (step debug wd s line)) /\ w_filters (fst (step debug wd s line)) = w_filters s.
Proof. intros b. exact (sd_step_T (sd_X b) (sd_X_same b) (sd_finder_tail_X b)). Qed.

(** ** The strengthened invariant in every reachable state of the core histories *)
Lemma sd_Inv3_X : forall s n, Inv3 s n <-> Inv s n /\ sd_X false s.
Proof.
  intros s n. unfold Inv3, sd_X. split.
  - intros (H & H1 & H2 & H3). split; [exact H|]. split; [exact H1|]. split; [exact H2|]. split; [exact H3|].
    intros E; discriminate E.
  - intros (H & H1 & H2 & H3 & _). auto.
Qed.
Lemma sd_Inv4_X : forall s n, Inv4 s n <-> Inv s n /\ sd_X true s.
Proof.
  intros s n. unfold Inv4, Inv3, sd_X. split.
  - intros ((H & H1 & H2 & H3) & H4). split; [exact H|]. split; [exact H1|]. split; [exact H2|]. split; [exact H3|].
    intros _; exact H4.
  - intros (H & H1 & H2 & H3 & H4). split; [|apply H4; reflexivity]. auto.
Qed.

Lemma Inv3_init : forall c, cfg_ok c -> Inv3 (init_world c) 0.
Proof. intros c Hc. apply sd_Inv3_X. split; [apply sc_init_inv; exact Hc|apply sd_init_X]. Qed.
Lemma Inv4_init : forall c, cfg_ok c -> Inv4 (init_world c) 0.
Proof. intros c Hc. apply sd_Inv4_X. split; [apply sc_init_inv; exact Hc|apply sd_init_X]. Qed.

Theorem step_inv3 : forall debug wd s n line o,
  Inv3 s n -> n + 4 < Nat.pow 2 31 -> decode_op line = Some o -> core_op o = true ->
  (forall c, In c (op_ids o) -> c < length (w_reg s)) ->
  Inv3 (fst (step debug wd s line)) (S n) /\ w_reg (fst (step debug wd s line)) = w_reg s.
Proof.
  intros debug wd s n line o H Hn Hd Hc Hreg. apply sd_Inv3_X in H. destruct H as (HI & HX).
  destruct (step_inv debug wd s n line o HI Hn Hd Hc Hreg) as (HI' & Hr). split; [|exact Hr].
  apply sd_Inv3_X. split; [exact HI'|]. eapply (sd_step_X false); eauto. apply HI.
Qed.

Theorem step_inv4 : forall debug wd s n line o,
  Inv4 s n -> n + 4 < Nat.pow 2 31 -> decode_op line = Some o -> core_op o = true ->
  (forall c, In c (op_ids o) -> c < length (w_reg s)) ->
  Inv4 (fst (step debug wd s line)) (S n) /\ w_reg (fst (step debug wd s line)) = w_reg s.
Proof.
  intros debug wd s n line o H Hn Hd Hc Hreg. apply sd_Inv4_X in H. destruct H as (HI & HX).
  destruct (step_inv debug wd s n line o HI Hn Hd Hc Hreg) as (HI' & Hr). split; [|exact Hr].
  apply sd_Inv4_X. split; [exact HI'|]. eapply (sd_step_X true); eauto. apply HI.
Qed.

Lemma sd_run_inv4 : forall c, cfg_ok c -> forall lines,
  Forall (core_line (length (sc_kinds c))) lines -> length lines + 4 < Nat.pow 2 31 ->
  Inv4 (run_core c lines) (length lines) /\ w_reg (run_core c lines) = sc_kinds c.
Proof.
  intros c Hc lines. induction lines as [|l lines IH] using rev_ind; intros HF Hb.
  - split; [apply Inv4_init; exact Hc|reflexivity].
  - apply Forall_app in HF. destruct HF as (HF & Hl). inversion Hl as [|? ? (o & Hd & Hco & Hids) _]; subst.
    rewrite app_length in *. cbn [length] in *. rewrite Nat.add_1_r in *.
    destruct IH as (IH1 & IH2); [exact HF|lia|].
    unfold run_core in *. rewrite fold_left_app. cbn [fold_left].
    destruct (step_inv4 (sc_debug c) false _ (length lines) l o IH1) as (S1 & S2); auto; try lia.
    { rewrite IH2. exact Hids. }
    split; [exact S1|congruence].
Qed.

Theorem reachable_inv4 : forall c lines,
  cfg_ok c -> Forall (core_line (length (sc_kinds c))) lines -> length lines + 4 < Nat.pow 2 31 ->
  Inv4 (run_core c lines) (length lines).
Proof. intros c lines Hc Hl Hb. apply (sd_run_inv4 c Hc lines Hl Hb). Qed.

Theorem reachable_inv3 : forall c lines,
  cfg_ok c -> Forall (core_line (length (sc_kinds c))) lines -> length lines + 4 < Nat.pow 2 31 ->
  Inv3 (run_core c lines) (length lines).
Proof. intros c lines Hc Hl Hb. apply (reachable_inv4 c lines Hc Hl Hb). Qed.

(** ** Completeness of the rare-component preselection of typed queries *)

(** Archetype [aid] exists and its mask matches the filter. *)
Definition sd_matching (s : W) (f : fobj) (aid : nat) : bool :=
  match nth_error (w_archs s) aid with Some a => filter_matches f (a_mask a) | None => false end.

(** The result of a computation without the state it ends in. *)
Definition sd_val {A} (r : res W A) : A + err := match r with Ok a _ => inl a | Err e _ => inr e end.

(** The same world with the rare-component hint of query [qi] removed: that query walks all archetypes. *)
Definition sd_unrare (qi : nat) (s : W) : W := s <| w_queries ::= updf qi (fun q => q <| q_rare := None |>) |>.

Lemma sd_matches_has : forall f m c, mk_get (f_mask f) c = true -> filter_matches f m = true -> mk_get m c = true.
Proof.
  intros f m c Hc H. unfold filter_matches in H. apply andb_true_iff in H. destruct H as (H & _).
  rewrite mk_contains_spec in H. apply H. exact Hc.
Qed.

Lemma sd_filter_filter : forall A (p q : A -> bool) l, (forall x, p x = true -> q x = true) ->
  filter p (filter q l) = filter p l.
Proof.
  intros A p q l H. induction l as [|a l IH]; [reflexivity|]. cbn. destruct (q a) eqn:Eq; cbn.
  - rewrite IH. reflexivity.
  - destruct (p a) eqn:Ep; [|exact IH]. rewrite (H a Ep) in Eq. discriminate.
Qed.

Lemma sd_bind_ro_ext : forall A B (m : MW A) (k1 k2 : A -> MW B) s, readonly m ->
  (forall a, k1 a s = k2 a s) -> bind m k1 s = bind m k2 s.
Proof.
  intros A B m k1 k2 s Hm H. unfold bind. specialize (Hm s). destruct (m s) as [a s1|e s1]; cbn in Hm; subst; auto.
Qed.

Lemma sd_bind_ro_val : forall A B (m : MW A) (k : A -> MW B) s, readonly m ->
  bind m k s = match m s with Ok a _ => k a s | Err e _ => Err e s end.
Proof.
  intros A B m k s Hm. unfold bind. specialize (Hm s). destruct (m s) as [a s1|e s1]; cbn in Hm; subst; reflexivity.
Qed.

(** Walking the archetypes that contain [c] (in the given order) is walking all of them, when the
    filter demands [c]: the others do not match. *)
Lemma sd_walk_go_pre : forall f q c s, mk_get (f_mask f) c = true ->
  forall L acc, (forall x, In x L -> x < length (w_archs s)) ->
  q_walk_go f q (filter (sd_has s c) L) acc s = q_walk_go f q L acc s.
Proof.
  intros f q c s Hc L. induction L as [|aid rest IH]; intros acc HL; [reflexivity|].
  assert (HL' : forall x, In x rest -> x < length (w_archs s)) by (intros x Hx; apply HL; right; exact Hx).
  cbn [filter]. destruct (sd_has s c aid) eqn:Eh.
  - rewrite !q_walk_go_cons. apply sd_bind_ro_ext; [apply q_ro_getA|]. intros a.
    destruct (negb (filter_matches f (a_mask a))); [apply IH; exact HL'|].
    destruct (negb (arch_has_rels a)).
    + destruct (a_tables a) as [|t0 tl]; [reflexivity|].
      apply sd_bind_ro_ext; [apply readonly_getT|]. intros t. apply IH; exact HL'.
    + apply sd_bind_ro_ext; [apply readonly_of_opt|]. intros cand.
      apply sd_bind_ro_ext; [apply q_ro_count_tables|]. intros ts. apply IH; exact HL'.
  - rewrite (q_walk_go_cons f q aid rest acc).
    destruct (nth_error (w_archs s) aid) as [a|] eqn:Ea.
    2:{ apply nth_error_None in Ea. specialize (HL aid (or_introl eq_refl)). lia. }
    rewrite (q_bind_getA _ s aid a _ Ea). unfold sd_has in Eh. rewrite Ea in Eh.
    destruct (filter_matches f (a_mask a)) eqn:Em.
    + rewrite (sd_matches_has f _ c Hc Em) in Eh. discriminate.
    + cbn [negb]. apply IH; exact HL'.
Qed.

(** The same matching archetypes, in the same order. *)
Theorem preselection_same_archetypes : forall s q f c, compindex_ok s ->
  q_rare q = Some c -> mk_get (f_mask f) c = true ->
  filter (sd_matching s f) (query_archetypes s q) = filter (sd_matching s f) (seq 0 (length (w_archs s))).
Proof.
  intros s q f c HC Hr Hc. unfold query_archetypes. rewrite Hr, (HC c). apply sd_filter_filter.
  intros aid H. unfold sd_matching in H. unfold sd_has. destruct (nth_error (w_archs s) aid) as [a|]; [|discriminate].
  eapply sd_matches_has; eauto.
Qed.

(** The walk of a typed uncached query with preselection is the walk over all archetypes. *)
Theorem preselection_walk_all : forall s qi q f c, compindex_ok s ->
  nth_error (w_queries s) qi = Some q -> q_cache q = None -> q_rare q = Some c ->
  nth_error (w_filters s) (q_filter q) = Some f -> mk_get (f_mask f) c = true ->
  query_walk qi s = q_walk_go f q (seq 0 (length (w_archs s))) [] s.
Proof.
  intros s qi q f c HC Hq Hca Hr Hf Hc. rewrite q_walk_eq.
  rewrite (q_bind_getQ _ s qi q _ Hq), q_bind_get, Hca, (q_bind_getF _ s _ f _ Hf).
  unfold query_archetypes. rewrite Hr, (HC c). apply sd_walk_go_pre; [exact Hc|].
  intros x Hx. apply in_seq in Hx. lia.
Qed.

(** The walk only reads the archetypes, the tables and the query's relation targets. *)
Lemma sd_tm_go_dep : forall s s' rels ne, w_tables s' = w_tables s -> forall l acc,
  sd_val (q_tm_go s' rels ne l acc) = sd_val (q_tm_go s rels ne l acc).
Proof.
  intros s s' rels ne E l. induction l as [|tid rest IH]; intros acc; [reflexivity|].
  rewrite !q_tm_go_cons, E. destruct (nth_error (w_tables s) tid) as [t|]; [|reflexivity].
  destruct (ne && Nat.eqb (t_len t) 0)%bool; [apply IH|].
  destruct (tbl_matches t rels) as [[|]|]; [apply IH|apply IH|reflexivity].
Qed.

Lemma sd_count_tables_dep : forall s s' tabs rels ne, w_tables s' = w_tables s ->
  sd_val (count_tables s' tabs rels ne) = sd_val (count_tables s tabs rels ne).
Proof.
  intros s s' tabs rels ne E. unfold count_tables. rewrite !q_tables_matching_eq.
  pose proof (sd_tm_go_dep s s' rels ne E tabs []) as H.
  destruct (q_tm_go s' rels ne tabs []) as [l1 s1|e1 s1], (q_tm_go s rels ne tabs []) as [l2 s2|e2 s2];
    cbn in H |- *; inversion H; subst; rewrite ?E; reflexivity.
Qed.

Lemma sd_bind_getA_none : forall B s aid (k : arch -> MW B), nth_error (w_archs s) aid = None ->
  bind (getA aid) k s = Err EIndex s.
Proof. intros B s aid k H. unfold getA, bind, get, of_opt. rewrite H. reflexivity. Qed.
Lemma sd_bind_getT_none : forall B s tid (k : table -> MW B), nth_error (w_tables s) tid = None ->
  bind (getT tid) k s = Err EIndex s.
Proof. intros B s tid k H. unfold getT, bind, get, of_opt. rewrite H. reflexivity. Qed.

Lemma sd_walk_go_dep : forall f q q' s s', w_archs s' = w_archs s -> w_tables s' = w_tables s ->
  q_rels q' = q_rels q -> forall L acc,
  sd_val (q_walk_go f q' L acc s') = sd_val (q_walk_go f q L acc s).
Proof.
  intros f q q' s s' EA ET ER L. induction L as [|aid rest IH]; intros acc; [reflexivity|].
  rewrite !q_walk_go_cons. destruct (nth_error (w_archs s) aid) as [a|] eqn:Ea.
  2:{ rewrite !sd_bind_getA_none by congruence. reflexivity. }
  rewrite (q_bind_getA _ s aid a _ Ea), (q_bind_getA _ s' aid a) by congruence.
  destruct (negb (filter_matches f (a_mask a))); [apply IH|].
  destruct (negb (arch_has_rels a)).
  - destruct (a_tables a) as [|t0 tl]; [reflexivity|].
    destruct (nth_error (w_tables s) t0) as [t|] eqn:Et.
    + rewrite (q_bind_getT _ s t0 t _ Et), (q_bind_getT _ s' t0 t) by congruence. apply IH.
    + rewrite !sd_bind_getT_none by congruence. reflexivity.
  - rewrite ER. destruct (arch_get_tables a (q_rels q)) as [cand|]; [|reflexivity].
    cbn [of_opt]. rewrite !q_bind_ret.
    rewrite (sd_bind_ro_val _ _ _ _ s' (q_ro_count_tables cand (q_rels q) false)).
    rewrite (sd_bind_ro_val _ _ _ _ s (q_ro_count_tables cand (q_rels q) false)).
    pose proof (sd_count_tables_dep s s' cand (q_rels q) false ET) as H.
    destruct (count_tables s' cand (q_rels q) false) as [l1 s1|e1 s1], (count_tables s cand (q_rels q) false) as [l2 s2|e2 s2];
      cbn in H; inversion H; subst; [apply IH|reflexivity].
Qed.

Lemma sd_readonly_val : forall A (m : MW A) s a, readonly m -> sd_val (m s) = inl a -> m s = Ok a s.
Proof. intros A m s a Hm H. specialize (Hm s). destruct (m s) as [x s1|e s1]; cbn in *; inversion H; subst; reflexivity. Qed.

Lemma sd_walk_rows_dep : forall s s' w, w_tables s' = w_tables s -> walk_rows s' w = walk_rows s w.
Proof. intros s s' w E. unfold walk_rows. rewrite E. reflexivity. Qed.

(** The main statement: with the component index complete, the walk (hence Count, and the rows a drain
    yields) of a typed uncached query whose rare component belongs to the filter's mask is the walk
    of the same query without preselection, including the panics. *)
Theorem preselection_complete : forall s qi q f c, compindex_ok s ->
  nth_error (w_queries s) qi = Some q -> q_cache q = None -> q_rare q = Some c ->
  nth_error (w_filters s) (q_filter q) = Some f -> mk_get (f_mask f) c = true ->
  filter (sd_matching s f) (query_archetypes s q) = filter (sd_matching s f) (seq 0 (length (w_archs s))) /\
  sd_val (query_walk qi s) = sd_val (query_walk qi (sd_unrare qi s)) /\
  sd_val (query_count qi s) = sd_val (query_count qi (sd_unrare qi s)) /\
  (forall w, query_walk qi s = Ok w s <-> query_walk qi (sd_unrare qi s) = Ok w (sd_unrare qi s)) /\
  (forall w, walk_rows (sd_unrare qi s) w = walk_rows s w).
Proof.
  intros s qi q f c HC Hq Hca Hr Hf Hc.
  assert (HW : sd_val (query_walk qi s) = sd_val (query_walk qi (sd_unrare qi s))).
  { rewrite (preselection_walk_all s qi q f c HC Hq Hca Hr Hf Hc).
    set (s0 := sd_unrare qi s). set (q0 := q <| q_rare := None |>).
    assert (Hq0 : nth_error (w_queries s0) qi = Some q0).
    { unfold s0, sd_unrare. cbn. rewrite nth_error_updf, Nat.eqb_refl, Hq. reflexivity. }
    rewrite q_walk_eq. rewrite (q_bind_getQ _ s0 qi q0 _ Hq0), q_bind_get.
    change (q_cache q0) with (q_cache q). rewrite Hca.
    change (q_filter q0) with (q_filter q). rewrite (q_bind_getF _ s0 _ f _ Hf).
    unfold query_archetypes. cbn [q_rare q0]. change (w_archs s0) with (w_archs s).
    symmetry. apply sd_walk_go_dep; reflexivity. }
  split; [apply (preselection_same_archetypes s q f c); auto|]. split; [exact HW|]. split; [|split].
  - unfold query_count, bind. destruct (query_walk qi s) as [w s1|e s1], (query_walk qi (sd_unrare qi s)) as [w' s1'|e' s1'];
      cbn in HW |- *; inversion HW; subst; reflexivity.
  - intros w. split; intros H.
    + apply sd_readonly_val; [apply q_ro_walk|]. rewrite <- HW, H. reflexivity.
    + apply sd_readonly_val; [apply q_ro_walk|]. rewrite HW, H. reflexivity.
  - intros w. apply sd_walk_rows_dep. reflexivity.
Qed.

(** Composition with [drain_is_walk]: iterating the preselected query yields exactly the rows of the
    walk over ALL archetypes. *)
Corollary preselection_drain : forall d qi s q f c w,
  WF s -> compindex_ok s -> nth_error (w_queries s) qi = Some q ->
  q_cache q = None -> q_rare q = Some c ->
  nth_error (w_filters s) (q_filter q) = Some f -> mk_get (f_mask f) c = true ->
  q_arch q = 1 -> q_tab q = 1 -> q_max q = None -> q_index q = 0 -> q_table q = None -> q_tables q = [] ->
  mk_get (lk_mask (w_lock s)) (q_lock q) = true ->
  query_walk qi (sd_unrare qi s) = Ok w (sd_unrare qi s) ->
  forall fuel, length (walk_rows s w) < fuel ->
  match drain d fuel qi s with
  | Ok es s' => es = walk_rows s w /\ query_frame s s' /\
                (exists q', nth_error (w_queries s') qi = Some q' /\ q_tab q' = 0) /\
                mk_get (lk_mask (w_lock s')) (q_lock q) = false
  | Err _ _ => False
  end.
Proof.
  intros d qi s q f c w HW HC Hq Hca Hr Hf Hc Ha Ht Hm Hi Htb Hts Hl Hw fuel Hfuel.
  destruct (preselection_complete s qi q f c HC Hq Hca Hr Hf Hc) as (_ & _ & _ & P & _).
  apply (drain_is_walk d qi s q w HW Hq Ha Ht Hm Hi Htb Hts Hl (proj2 (P w) Hw) fuel Hfuel).
Qed.

Corollary preselection_count : forall qi s q f c w, compindex_ok s ->
  nth_error (w_queries s) qi = Some q -> q_cache q = None -> q_rare q = Some c ->
  nth_error (w_filters s) (q_filter q) = Some f -> mk_get (f_mask f) c = true ->
  query_walk qi (sd_unrare qi s) = Ok w (sd_unrare qi s) ->
  query_count qi s = Ok (fold_left (fun acc p => acc + snd p) w 0) s.
Proof.
  intros qi s q f c w HC Hq Hca Hr Hf Hc Hw.
  destruct (preselection_complete s qi q f c HC Hq Hca Hr Hf Hc) as (_ & _ & _ & P & _).
  apply query_count_is_walk_sum. apply P. exact Hw.
Qed.

(** The rare component a typed query is opened with is one of the filter's components. *)
Lemma sd_rare_step : forall s ids c b, In (fst (fold_left (fun (best : nat * option nat) c =>
                    let cnt := nth c (w_archcount s) 0 in
                    match snd best with
                    | None => (c, Some cnt)
                    | Some b => if Nat.ltb cnt b then (c, Some cnt) else best
                    end) ids (c, Some b))) (c :: ids).
Proof.
  intros s ids. induction ids as [|x ids IH]; intros c b; cbn [fold_left]; [left; reflexivity|].
  cbn [snd]. destruct (Nat.ltb (nth x (w_archcount s) 0) b).
  - destruct (IH x (nth x (w_archcount s) 0)) as [H|H]; [right; left; exact H|right; right; exact H].
  - destruct (IH c b) as [H|H]; [left; exact H|right; right; exact H].
Qed.

Lemma rare_component_in : forall s ids, ids <> [] -> In (rare_component s ids) ids.
Proof.
  intros s [|x ids] H; [congruence|]. unfold rare_component. cbn [fold_left snd]. apply sd_rare_step.
Qed.

(** ** Histories that also create filters and run queries

    Filter creation and all query operations only touch the filter list, the query objects and the
    lock; the invariant (with the additional clauses) is kept, so the theorems about queries and batch
    selections below speak about reachable states that actually contain filters and queries. *)
Definition query_op (o : op) : bool :=
  match o with
  | OFilterNew _ _ _ _ _ | OQueryAll _ _ | OQueryOpen _ _ | OQueryNext _ | OQueryClose _ | OQueryCount _
  | OQueryEntityAt _ _ | OQueryEntity _ => true
  | _ => false
  end.
Definition ext_op (o : op) : bool := (core_op o || query_op o)%bool.

(** What such an operation may change: nothing the invariant mentions, except that filters are appended. *)
Definition sd_uf (s s' : W) : Prop :=
  w_cfg s' = w_cfg s /\ w_reg s' = w_reg s /\ w_pool s' = w_pool s /\ w_index s' = w_index s /\
  w_istarget s' = w_istarget s /\ w_archs s' = w_archs s /\ w_tables s' = w_tables s /\
  w_relarchs s' = w_relarchs s /\ w_compindex s' = w_compindex s /\ w_archcount s' = w_archcount s /\
  w_cheap s' = w_cheap s /\ w_centries s' = w_centries s /\ w_issued s' = w_issued s /\
  (forall i f, nth_error (w_filters s) i = Some f -> nth_error (w_filters s') i = Some f).

Lemma sd_uf_filters_len : forall s s', sd_uf s s' -> length (w_filters s) <= length (w_filters s').
Proof.
  intros s s' (_ & _ & _ & _ & _ & _ & _ & _ & _ & _ & _ & _ & _ & H).
  destruct (Nat.le_gt_cases (length (w_filters s)) (length (w_filters s'))) as [L|L]; [exact L|].
  destruct (nth_error (w_filters s) (length (w_filters s'))) as [f|] eqn:E.
  - apply H in E. apply sa_nth_error_lt in E. lia.
  - apply nth_error_None in E. lia.
Qed.

Lemma sd_uf_refl : forall s, sd_uf s s.
Proof. intros s. unfold sd_uf. repeat split. auto. Qed.
Lemma sd_uf_trans : forall s1 s2 s3, sd_uf s1 s2 -> sd_uf s2 s3 -> sd_uf s1 s3.
Proof.
  intros s1 s2 s3 (A1 & A2 & A3 & A4 & A5 & A6 & A7 & A8 & A9 & A10 & A11 & A12 & A13 & A14)
    (B1 & B2 & B3 & B4 & B5 & B6 & B7 & B8 & B9 & B10 & B11 & B12 & B13 & B14).
  unfold sd_uf. repeat split; try congruence. auto.
Qed.
Lemma sd_uf_query_frame : forall s s', query_frame s s' -> sd_uf s s'.
Proof.
  intros s s' (E1 & E2 & E3 & E4 & E5 & E6 & E7 & E8 & E9 & E10 & E11 & E12 & E13 & E14 & E15 & E16 & E17 & _).
  unfold sd_uf. rewrite E15. repeat split; auto.
Qed.
Lemma sd_X_uf : forall b s s', sd_uf s s' -> sd_X b s -> sd_X b s'.
Proof.
  intros b s s' (E1 & E2 & E3 & E4 & E5 & E6 & E7 & E8 & E9 & _) (X1 & X2 & X3 & X4).
  unfold sd_X, tables_listed_all, v_targets_zero, compindex_ok, bo_archs_tabled. rewrite E6, E7, E9.
  split; [exact X1|]. split; [exact X2|]. split; [|exact X4].
  intros c. rewrite (X3 c). apply sd_filter_ext_in. intros x _. symmetry. apply sd_has_archs. exact E6.
Qed.

Lemma sd_uf_WF : forall s s', sd_uf s s' -> WF s -> WF s'.
Proof.
  intros s s' U H. pose proof (sd_uf_filters_len s s' U) as E14'.
  destruct U as (E1 & E2 & E3 & E4 & E5 & E6 & E7 & E8 & E9 & E10 & E11 & E12 & E13 & E14).
  assert (K : forall c, kind_of s' c = kind_of s c) by (apply sa_kind_of_ext; auto).
  assert (L : forall e, loc s' e = loc s e) by (apply sa_loc_ext; auto).
  assert (KM : forall l, map (kind_of s') l = map (kind_of s) l) by (intros; apply map_ext; auto).
  destruct H. constructor; rewrite ?E1, ?E2, ?E3, ?E4, ?E5, ?E6, ?E7, ?E8, ?E9, ?E10, ?E11, ?E12; auto.
  - intros tid t Ht. destruct (wf_layout tid t Ht) as (a & A1 & A2 & A3 & A4). exists a. rewrite KM. auto.
  - intros aid a Ha. destruct (wf_arch_comps aid a Ha) as (A1 & A2 & A3 & A4 & A5).
    repeat split; auto. rewrite A3. apply map_ext. intros c. rewrite K. reflexivity.
  - intros tid t r Ht Hr. rewrite L. auto.
  - intros addr Hin. destruct (wf_cache addr Hin) as (e & He & Fe). exists e. split; [exact He|lia].
Qed.

Lemma sd_uf_St : forall s s', sd_uf s s' -> St s -> St s'.
Proof.
  intros s s' U [HW HN]. split; [eapply sd_uf_WF; eauto|].
  destruct U as (E1 & E2 & E3 & E4 & E5 & E6 & E7 & E8 & _). apply (sa_NoRel_ext s s'); auto.
Qed.

Lemma sd_uf_live : forall s s', sd_uf s s' -> forall x, live s' x = live s x.
Proof.
  intros s s' (E1 & E2 & E3 & E4 & E5 & E6 & E7 & _) x. unfold live, loc. rewrite E4, E7. reflexivity.
Qed.

Lemma sd_uf_Inv : forall s s' n, sd_uf s s' -> Inv s n -> Inv s' (S n).
Proof.
  intros s s' n U (HS & I1 & I2 & I3). split; [eapply sd_uf_St; eauto|].
  pose proof (sd_uf_live s s' U) as HL. destruct U as (E1 & E2 & E3 & E4 & E5 & E6 & E7 & E8 & E9 & E10 & E11 & E12 & E13 & E14).
  unfold issued_ok. rewrite E13, E3. split; [|split].
  - intros e He. destruct (I1 e He) as (R & D). split; [exact R|]. rewrite HL. exact D.
  - intros i l g E Hi. pose proof (I2 i l g E Hi). lia.
  - lia.
Qed.

Definition sd_ufm {A} (m : MW A) : Prop := forall s, sd_uf s (state_of (m s)).
Lemma sd_ufm_ro : forall A (m : MW A), readonly m -> sd_ufm m.
Proof. intros A m H s. rewrite (H s). apply sd_uf_refl. Qed.
Lemma sd_ufm_fr : forall A (m : MW A), q_fr m -> sd_ufm m.
Proof. intros A m H s. apply sd_uf_query_frame, H. Qed.
Lemma sd_ufm_bind : forall A B (m : MW A) (k : A -> MW B), sd_ufm m -> (forall a, sd_ufm (k a)) -> sd_ufm (bind m k).
Proof.
  intros A B m k Hm Hk s. unfold bind. specialize (Hm s). destruct (m s) as [a s1|e s1]; cbn [state_of] in *; [|exact Hm].
  eapply sd_uf_trans; [exact Hm|apply Hk].
Qed.

(** The iteration loop of [OQueryAll]. *)
Definition sd_drain_go (debug : bool) (qi : nat) : nat -> list ent -> MW (list ent) :=
  fix go (fuel : nat) (acc : list ent) : MW (list ent) :=
    match fuel with
    | O => ret acc
    | S fu =>
        more <- query_next debug qi ;;
        if more then e <- query_entity debug qi ;; go fu (acc ++ [e]) else ret acc
    end.

Lemma sd_step_op_QueryAll : forall d f hrels, step_op d (OQueryAll f hrels) =
  (rels <- resolveR hrels ;;
   rels <- resolve_relidx f rels ;;
   check_unsafe_rels f rels ;;;
   qi <- query_open f rels ;;
   cnt <- query_count qi ;;
   es <- sd_drain_go d qi (S cnt) [] ;;
   query_close qi ;;;
   ret (Zn cnt :: Zn (length es) :: flat_map Zent es)).
Proof. reflexivity. Qed.

Lemma sd_ro_query_entity : forall d qi, readonly (query_entity d qi).
Proof. intros d qi s. apply query_entity_readonly. Qed.
Lemma sd_ro_query_count : forall qi, readonly (query_count qi).
Proof. intros qi s. apply query_count_readonly. Qed.
Lemma sd_ro_query_entity_at : forall qi i, readonly (query_entity_at qi i).
Proof. intros qi i s. apply query_entity_at_readonly. Qed.

Lemma sd_ufm_drain_go : forall d qi fuel acc, sd_ufm (sd_drain_go d qi fuel acc).
Proof.
  intros d qi fuel. induction fuel as [|fu IH]; intros acc; [apply sd_ufm_ro, readonly_ret|].
  cbn [sd_drain_go]. apply sd_ufm_bind; [apply sd_ufm_fr; intros s; apply query_next_frame|]. intros more.
  destruct more; [|apply sd_ufm_ro, readonly_ret].
  apply sd_ufm_bind; [apply sd_ufm_ro, sd_ro_query_entity|]. intros e. apply IH.
Qed.

Lemma sd_qop_uf : forall debug o, query_op o = true -> sd_ufm (step_op debug o).
Proof.
  intros debug o Hq. destruct o; try discriminate Hq; [| rewrite sd_step_op_QueryAll | cbn [step_op] ..].
  - (* OFilterNew *) cbn [step_op].
    apply sd_ufm_bind; [apply sd_ufm_ro, readonly_resolveR|]. intros rl.
    apply sd_ufm_bind; [apply sd_ufm_ro, readonly_get|]. intros s0.
    apply sd_ufm_bind; [apply sd_ufm_ro; destruct (negb unsafe); [apply readonly_to_relations|apply readonly_ret]|]. intros _.
    apply sd_ufm_bind; [|intros _; apply sd_ufm_ro, readonly_ret].
    intros s. unfold modify, sd_uf. cbn. repeat split. intros i f0 H. apply sa_nth_error_snoc_old. exact H.
  - (* OQueryAll *)
    apply sd_ufm_bind; [apply sd_ufm_ro, readonly_resolveR|]. intros rl.
    apply sd_ufm_bind; [apply sd_ufm_ro, readonly_resolve_relidx|]. intros ?rl.
    apply sd_ufm_bind; [apply sd_ufm_ro, readonly_check_unsafe_rels|]. intros _.
    apply sd_ufm_bind; [apply sd_ufm_fr; intros s; apply query_open_frame|]. intros qi.
    apply sd_ufm_bind; [apply sd_ufm_ro, sd_ro_query_count|]. intros cnt.
    apply sd_ufm_bind; [apply sd_ufm_drain_go|]. intros es.
    apply sd_ufm_bind; [apply sd_ufm_fr; intros s; apply query_close_frame|]. intros _. apply sd_ufm_ro, readonly_ret.
  - (* OQueryOpen *)
    apply sd_ufm_bind; [apply sd_ufm_ro, readonly_resolveR|]. intros rl.
    apply sd_ufm_bind; [apply sd_ufm_ro, readonly_resolve_relidx|]. intros ?rl.
    apply sd_ufm_bind; [apply sd_ufm_ro, readonly_check_unsafe_rels|]. intros _.
    apply sd_ufm_bind; [apply sd_ufm_fr; intros s; apply query_open_frame|]. intros qi. apply sd_ufm_ro, readonly_ret.
  - apply sd_ufm_bind; [apply sd_ufm_fr; intros s; apply query_next_frame|]. intros b. apply sd_ufm_ro, readonly_ret.
  - apply sd_ufm_bind; [apply sd_ufm_fr; intros s; apply query_close_frame|]. intros b. apply sd_ufm_ro, readonly_ret.
  - apply sd_ufm_bind; [apply sd_ufm_ro, sd_ro_query_count|]. intros b. apply sd_ufm_ro, readonly_ret.
  - apply sd_ufm_bind; [apply sd_ufm_ro, sd_ro_query_entity_at|]. intros b. apply sd_ufm_ro, readonly_ret.
  - apply sd_ufm_bind; [apply sd_ufm_ro, sd_ro_query_entity|]. intros b. apply sd_ufm_ro, readonly_ret.
Qed.

Lemma sd_step_state_q : forall debug wd s line o, decode_op line = Some o -> query_op o = true ->
  fst (step debug wd s line) = state_of (step_op debug o (s <| w_log := [] |>)) <| w_log := [] |>.
Proof.
  intros debug wd s line o Hd Hq. unfold step. rewrite Hd. cbv zeta.
  assert (Hi : issues_from_log o = false) by (destruct o; try discriminate Hq; reflexivity).
  assert (Hre : returns_entity o = false) by (destruct o; try discriminate Hq; reflexivity).
  rewrite Hi, Hre. cbn [andb fst].
  destruct (step_op debug o (s <| w_log := [] |>)) as [[|i [|g rest]] s1|er s1]; reflexivity.
Qed.

Lemma sd_log_uf : forall (s : W) l, sd_uf s (s <| w_log := l |>).
Proof. intros s l. unfold sd_uf. repeat split. auto. Qed.

Lemma sd_step_q_uf : forall debug wd s line o, decode_op line = Some o -> query_op o = true ->
  sd_uf s (fst (step debug wd s line)).
Proof.
  intros debug wd s line o Hd Hq. rewrite (sd_step_state_q debug wd s line o Hd Hq).
  eapply sd_uf_trans; [apply sd_log_uf|]. eapply sd_uf_trans; [apply (sd_qop_uf debug o Hq)|]. apply sd_log_uf.
Qed.

Lemma sd_ext_cases : forall o, ext_op o = true -> core_op o = true \/ query_op o = true.
Proof. intros o H. unfold ext_op in H. apply orb_true_iff in H. exact H. Qed.

Theorem step_inv3_ext : forall debug wd s n line o,
  Inv3 s n -> n + 4 < Nat.pow 2 31 -> decode_op line = Some o -> ext_op o = true ->
  (forall c, In c (op_ids o) -> c < length (w_reg s)) ->
  Inv3 (fst (step debug wd s line)) (S n) /\ w_reg (fst (step debug wd s line)) = w_reg s.
Proof.
  intros debug wd s n line o H Hn Hd He Hreg. destruct (sd_ext_cases o He) as [Hc|Hq]; [apply (step_inv3 debug wd s n line o); auto|].
  pose proof (sd_step_q_uf debug wd s line o Hd Hq) as U. apply sd_Inv3_X in H. destruct H as (HI & HX).
  split; [|apply U]. apply sd_Inv3_X. split; [eapply sd_uf_Inv; eauto|].
  eapply sd_X_uf; [exact U|exact HX].
Qed.

Theorem step_inv4_ext : forall debug wd s n line o,
  Inv4 s n -> n + 4 < Nat.pow 2 31 -> decode_op line = Some o -> ext_op o = true ->
  (forall c, In c (op_ids o) -> c < length (w_reg s)) ->
  Inv4 (fst (step debug wd s line)) (S n) /\ w_reg (fst (step debug wd s line)) = w_reg s.
Proof.
  intros debug wd s n line o H Hn Hd He Hreg. destruct (sd_ext_cases o He) as [Hc|Hq]; [apply (step_inv4 debug wd s n line o); auto|].
  pose proof (sd_step_q_uf debug wd s line o Hd Hq) as U. apply sd_Inv4_X in H. destruct H as (HI & HX).
  split; [|apply U]. apply sd_Inv4_X. split; [eapply sd_uf_Inv; eauto|].
  eapply sd_X_uf; [exact U|exact HX].
Qed.

Definition ext_line (nreg : nat) (line : list Z) : Prop :=
  exists o, decode_op line = Some o /\ ext_op o = true /\ forall c, In c (op_ids o) -> c < nreg.

Lemma core_line_ext : forall nreg line, core_line nreg line -> ext_line nreg line.
Proof.
  intros nreg line (o & Hd & Hc & Hi). exists o. split; [exact Hd|]. split; [|exact Hi].
  unfold ext_op. rewrite Hc. reflexivity.
Qed.

Lemma sd_run_inv4_ext : forall c, cfg_ok c -> forall lines,
  Forall (ext_line (length (sc_kinds c))) lines -> length lines + 4 < Nat.pow 2 31 ->
  Inv4 (run_core c lines) (length lines) /\ w_reg (run_core c lines) = sc_kinds c.
Proof.
  intros c Hc lines. induction lines as [|l lines IH] using rev_ind; intros HF Hb.
  - split; [apply Inv4_init; exact Hc|reflexivity].
  - apply Forall_app in HF. destruct HF as (HF & Hl). inversion Hl as [|? ? (o & Hd & Hco & Hids) _]; subst.
    rewrite app_length in *. cbn [length] in *. rewrite Nat.add_1_r in *.
    destruct IH as (IH1 & IH2); [exact HF|lia|].
    unfold run_core in *. rewrite fold_left_app. cbn [fold_left].
    destruct (step_inv4_ext (sc_debug c) false _ (length lines) l o IH1) as (S1 & S2); auto; try lia.
    { rewrite IH2. exact Hids. }
    split; [exact S1|congruence].
Qed.

Theorem reachable_inv4_ext : forall c lines,
  cfg_ok c -> Forall (ext_line (length (sc_kinds c))) lines -> length lines + 4 < Nat.pow 2 31 ->
  Inv4 (run_core c lines) (length lines).
Proof. intros c lines Hc Hl Hb. apply (sd_run_inv4_ext c Hc lines Hl Hb). Qed.

Theorem reachable_inv3_ext : forall c lines,
  cfg_ok c -> Forall (ext_line (length (sc_kinds c))) lines -> length lines + 4 < Nat.pow 2 31 ->
  Inv3 (run_core c lines) (length lines).
Proof. intros c lines Hc Hl Hb. apply (reachable_inv4_ext c lines Hc Hl Hb). Qed.

(** ** The [_partial] theorems without their extra hypotheses *)

Section sd_corollaries.
Variables (s : W) (n : nat).
Hypothesis H3 : Inv3 s n.
Let HSt : St s := proj1 (proj1 H3).

Lemma inv3_v_tables_listed : v_tables_listed s.
Proof. apply tables_listed_all_v; [exact HSt|apply H3]. Qed.
Lemma inv3_tables_listed : tables_listed s.
Proof. apply tables_listed_all_listed. apply H3. Qed.
Lemma inv3_targets_zero : v_targets_zero s.
Proof. apply H3. Qed.
Lemma inv3_compindex : compindex_ok s.
Proof. apply H3. Qed.

(** C19: the per-archetype sizes sum to the number of rows. *)
Theorem inv3_sizes_sum :
  fold_left (fun acc a => acc + fold_left (fun acc tid => acc + match nth_error (w_tables s) tid with Some t => t_len t | None => 0 end) (a_tables a) 0) (w_archs s) 0
  = total_rows s.
Proof. apply stats_sizes_sum_partial; [exact HSt|exact inv3_v_tables_listed]. Qed.

(** C09: a live entity is seen exactly once by a full query (what a callback counts). *)
Theorem inv3_live_seen_exactly_once : forall e, live s e = true -> count_in_world s e = 1.
Proof. intros e. apply live_counted_once_partial; [exact HSt|exact inv3_v_tables_listed]. Qed.

(** C09: the snapshot a callback logs is the content of the entity (targets all zero). *)
Theorem inv3_snapshot_is_content : forall e l, live s e = true -> snapshot_entity s e = Some l ->
  exists ids, comps_of s e = Some ids /\ l = Zn (length ids) :: flat_map (fun c =>
     [Zn c; match val s e c with Some v => v | None => 0%Z end; 0%Z; 0%Z]) ids.
Proof. intros e l. apply snapshot_is_content_partial; [exact HSt|exact inv3_targets_zero]. Qed.

(** C06: an unregistered filter selects exactly the live entities whose component set matches it. *)
Theorem inv3_batch_selection_exact : forall fi f tabs,
  nth_error (w_filters s) fi = Some f -> f_cache f = None -> get_batch_tables fi [] s = Ok tabs s ->
  forall e, live s e = true -> (bo_in_tabs s tabs e <-> bo_ent_matches s f e).
Proof.
  intros fi f tabs Hf Hc Hg e Hl.
  destruct (batch_selection_uncached s fi f tabs HSt Hf Hc Hg e Hl) as (A & B).
  split; [exact A|apply B; exact inv3_tables_listed].
Qed.

(** C03: the preselection of every typed uncached query whose rare component is in its filter's mask is complete. *)
Theorem inv3_preselection_complete : forall qi q f c,
  nth_error (w_queries s) qi = Some q -> q_cache q = None -> q_rare q = Some c ->
  nth_error (w_filters s) (q_filter q) = Some f -> mk_get (f_mask f) c = true ->
  filter (sd_matching s f) (query_archetypes s q) = filter (sd_matching s f) (seq 0 (length (w_archs s))) /\
  sd_val (query_walk qi s) = sd_val (query_walk qi (sd_unrare qi s)) /\
  sd_val (query_count qi s) = sd_val (query_count qi (sd_unrare qi s)) /\
  (forall w, query_walk qi s = Ok w s <-> query_walk qi (sd_unrare qi s) = Ok w (sd_unrare qi s)) /\
  (forall w, walk_rows (sd_unrare qi s) w = walk_rows s w).
Proof. intros qi q f c. apply preselection_complete. exact inv3_compindex. Qed.
End sd_corollaries.

(** With "every archetype has its table" the selection of an unregistered filter always succeeds. *)
Theorem inv4_batch_selection_exact : forall s n fi f, Inv4 s n ->
  nth_error (w_filters s) fi = Some f -> f_cache f = None ->
  exists tabs, get_batch_tables fi [] s = Ok tabs s /\
    forall e, live s e = true -> (bo_in_tabs s tabs e <-> bo_ent_matches s f e).
Proof.
  intros s n fi f (H3 & HT) Hf Hc.
  destruct (batch_tables_uncached_ok s fi f (proj2 (proj1 (proj1 H3))) Hf Hc HT) as (tabs & Hg).
  exists tabs. split; [exact Hg|]. exact (inv3_batch_selection_exact s n H3 fi f tabs Hf Hc Hg).
Qed.

(** *** ... in every reachable state *)
Section sd_reachable.
Variables (c : script_cfg) (lines : list (list Z)).
Hypothesis Hc : cfg_ok c.
Hypothesis Hl : Forall (ext_line (length (sc_kinds c))) lines.
Hypothesis Hb : length lines + 4 < Nat.pow 2 31.
Let s := run_core c lines.
Let H4 : Inv4 s (length lines) := reachable_inv4_ext c lines Hc Hl Hb.

Theorem reachable_sizes_sum :
  fold_left (fun acc a => acc + fold_left (fun acc tid => acc + match nth_error (w_tables s) tid with Some t => t_len t | None => 0 end) (a_tables a) 0) (w_archs s) 0
  = total_rows s.
Proof. exact (inv3_sizes_sum s _ (proj1 H4)). Qed.

Theorem reachable_live_seen_exactly_once : forall e, live s e = true -> count_in_world s e = 1.
Proof. exact (inv3_live_seen_exactly_once s _ (proj1 H4)). Qed.

Theorem reachable_snapshot_is_content : forall e l, live s e = true -> snapshot_entity s e = Some l ->
  exists ids, comps_of s e = Some ids /\ l = Zn (length ids) :: flat_map (fun c =>
     [Zn c; match val s e c with Some v => v | None => 0%Z end; 0%Z; 0%Z]) ids.
Proof. exact (inv3_snapshot_is_content s _ (proj1 H4)). Qed.

Theorem reachable_batch_selection_exact : forall fi f,
  nth_error (w_filters s) fi = Some f -> f_cache f = None ->
  exists tabs, get_batch_tables fi [] s = Ok tabs s /\
    forall e, live s e = true -> (bo_in_tabs s tabs e <-> bo_ent_matches s f e).
Proof. intros fi f. exact (inv4_batch_selection_exact s _ fi f H4). Qed.

Theorem reachable_preselection_complete : forall qi q f k,
  nth_error (w_queries s) qi = Some q -> q_cache q = None -> q_rare q = Some k ->
  nth_error (w_filters s) (q_filter q) = Some f -> mk_get (f_mask f) k = true ->
  filter (sd_matching s f) (query_archetypes s q) = filter (sd_matching s f) (seq 0 (length (w_archs s))) /\
  sd_val (query_walk qi s) = sd_val (query_walk qi (sd_unrare qi s)) /\
  sd_val (query_count qi s) = sd_val (query_count qi (sd_unrare qi s)) /\
  (forall w, query_walk qi s = Ok w s <-> query_walk qi (sd_unrare qi s) = Ok w (sd_unrare qi s)) /\
  (forall w, walk_rows (sd_unrare qi s) w = walk_rows s w).
Proof. exact (inv3_preselection_complete s _ (proj1 H4)). Qed.
End sd_reachable.

(** ** Filters and queries of the extended histories

    No filter is registered (there is no registration in the class), every filter's mask is the set
    of its component list, and every query object is uncached with a rare component (if any) that
    belongs to the mask of its filter: the hypothesis of [preselection_complete] holds for every
    query of every reachable state. *)
Definition filters_plain (s : W) : Prop :=
  forall fi f, nth_error (w_filters s) fi = Some f -> f_cache f = None /\ f_mask f = mk_of_list (f_ids f).

Definition sd_qP (F : list fobj) (q : qobj) : Prop :=
  q_cache q = None /\
  forall k, q_rare q = Some k -> exists f, nth_error F (q_filter q) = Some f /\ mk_get (f_mask f) k = true.

Definition queries_plain (s : W) : Prop :=
  forall qi q, nth_error (w_queries s) qi = Some q -> sd_qP (w_filters s) q.

Definition Inv5 (s : W) (n : nat) : Prop := Inv4 s n /\ filters_plain s /\ queries_plain s.

Definition sd_QP (F : list fobj) (s : W) : Prop :=
  w_filters s = F /\ forall k q, nth_error (w_queries s) k = Some q -> sd_qP F q.

Definition sd_qp (F : list fobj) {A} (m : MW A) : Prop := forall s, sd_QP F s -> sd_QP F (state_of (m s)).

Lemma sd_qp_ro : forall F A (m : MW A), readonly m -> sd_qp F m.
Proof. intros F A m H s HS. rewrite (H s). exact HS. Qed.
Lemma sd_qp_ret : forall F A (a : A), sd_qp F (ret a).
Proof. intros. apply sd_qp_ro, readonly_ret. Qed.
Lemma sd_qp_bind : forall F A B (m : MW A) (k : A -> MW B), sd_qp F m -> (forall a, sd_qp F (k a)) -> sd_qp F (bind m k).
Proof.
  intros F A B m k Hm Hk s HS. unfold bind. specialize (Hm s HS). destruct (m s) as [a s1|e s1]; cbn [state_of] in *; [|exact Hm].
  apply Hk. exact Hm.
Qed.
Lemma sd_qp_whenM : forall F b m, sd_qp F m -> sd_qp F (whenM b m).
Proof. intros F b m H. destruct b; [exact H|apply sd_qp_ret]. Qed.
Lemma sd_QP_updf : forall F s qi g, (forall q, sd_qP F q -> sd_qP F (g q)) -> sd_QP F s ->
  sd_QP F (s <| w_queries ::= updf qi g |>).
Proof.
  intros F s qi g Hg (HF & HQ). split; [exact HF|]. intros k q H. cbn in H. rewrite nth_error_updf in H.
  destruct (Nat.eqb qi k).
  - destruct (nth_error (w_queries s) k) as [q0|] eqn:E; [|discriminate]. cbn in H. inversion H; subst.
    apply Hg. exact (HQ k q0 E).
  - exact (HQ k q H).
Qed.
Lemma sd_qp_modQ : forall F qi g, (forall q, sd_qP F q -> sd_qP F (g q)) -> sd_qp F (modQ qi g).
Proof. intros F qi g Hg s HS. unfold modQ, modify. cbn [state_of]. apply sd_QP_updf; assumption. Qed.
Lemma sd_qp_lockM : forall F, sd_qp F lockM.
Proof.
  intros F s HS. unfold lockM, bind, get, put, ret, fail. destruct (lock_lock (w_lock s)) as [[b l']|]; cbn; exact HS.
Qed.
Lemma sd_qp_unlockM : forall F b, sd_qp F (unlockM b).
Proof.
  intros F b s HS. unfold unlockM, bind, get, put, fail. destruct (lock_unlock (w_lock s) b) as [l'|]; cbn; exact HS.
Qed.
Lemma sd_qp_on_err : forall F A (m : MW A) h, sd_qp F m -> (forall s, sd_QP F s -> sd_QP F (h s)) -> sd_qp F (on_err m h).
Proof.
  intros F A m h Hm Hh s HS. unfold on_err. specialize (Hm s HS). destruct (m s) as [a s1|e s1]; cbn [state_of] in *; [exact Hm|].
  apply Hh. exact Hm.
Qed.

(** The cursor updates keep filter, cache and rare component (closing drops the cache pointer). *)
Ltac sd_qstat := let q := fresh "q" in let A := fresh "A" in let B := fresh "B" in
  intros q (A & B); split; [cbn; first [reflexivity|exact A]|exact B].

Lemma sd_qp_close : forall F qi, sd_qp F (query_close qi).
Proof.
  intros F qi. unfold query_close. apply sd_qp_bind; [apply sd_qp_ro, q_ro_getQ|]. intros q.
  destruct (Nat.ltb (q_tab q) 1); [apply sd_qp_ret|].
  apply sd_qp_bind; [apply sd_qp_modQ; sd_qstat|]. intros _. apply sd_qp_unlockM.
Qed.

Lemma sd_qp_set_table : forall F qi pos tid, sd_qp F (query_set_table qi pos tid).
Proof.
  intros F qi pos tid. unfold query_set_table. apply sd_qp_bind; [apply sd_qp_ro, readonly_getT|]. intros t.
  apply sd_qp_modQ. sd_qstat.
Qed.

Lemma sd_qp_next_table : forall F qi tables cached, sd_qp F (query_next_table qi tables cached).
Proof.
  intros F qi tables cached. rewrite q_next_table_eq. apply sd_qp_bind; [apply sd_qp_ro, q_ro_getQ|]. intros q.
  apply sd_qp_bind.
  { apply sd_qp_on_err; [apply sd_qp_ro, q_ro_nt_go|]. intros s HS. apply sd_QP_updf; [sd_qstat|exact HS]. }
  intros [[pos tid]|].
  - apply sd_qp_bind; [apply sd_qp_set_table|]. intros _. apply sd_qp_ret.
  - apply sd_qp_bind; [apply sd_qp_modQ; sd_qstat|]. intros _.
    apply sd_qp_bind; [apply sd_qp_whenM, sd_qp_close|]. intros _. apply sd_qp_ret.
Qed.

Lemma sd_qp_na_go : forall F qi archs f fuel pos, sd_qp F (q_na_go qi archs f fuel pos).
Proof.
  intros F qi archs f fuel. induction fuel as [|fu IH]; intros pos; [rewrite q_na_go_0; apply sd_qp_ret|rewrite q_na_go_S].
  destruct (nth_error archs pos) as [aid|]; [|apply sd_qp_ret].
  apply sd_qp_bind; [apply sd_qp_modQ; sd_qstat|]. intros _.
  apply sd_qp_bind; [apply sd_qp_ro, q_ro_getA|]. intros a.
  destruct (negb (filter_matches f (a_mask a))); [apply IH|].
  destruct (negb (arch_has_rels a)).
  - destruct (a_tables a) as [|t0 tl]; [apply sd_qp_ro, readonly_fail|].
    apply sd_qp_bind; [apply sd_qp_ro, readonly_getT|]. intros t.
    destruct (Nat.ltb 0 (t_len t)); [|apply IH].
    apply sd_qp_bind; [apply sd_qp_set_table|]. intros _. apply sd_qp_ret.
  - apply sd_qp_bind; [apply sd_qp_ro, q_ro_getQ|]. intros q.
    apply sd_qp_bind; [apply sd_qp_ro, readonly_of_opt|]. intros tabs.
    apply sd_qp_bind; [apply sd_qp_modQ; sd_qstat|]. intros _.
    apply sd_qp_bind; [apply sd_qp_next_table|]. intros found.
    destruct found; [apply sd_qp_ret|apply IH].
Qed.

Lemma sd_qp_next_archetype : forall F qi, sd_qp F (query_next_archetype qi).
Proof.
  intros F qi. rewrite q_next_archetype_eq.
  apply sd_qp_bind; [apply sd_qp_modQ; sd_qstat|]. intros _.
  apply sd_qp_bind; [apply sd_qp_ro, q_ro_getQ|]. intros q.
  apply sd_qp_bind; [apply sd_qp_ro, readonly_guard|]. intros _.
  apply sd_qp_bind; [apply sd_qp_ro, readonly_get|]. intros s0.
  apply sd_qp_bind; [apply sd_qp_ro, readonly_getF|]. intros f.
  apply sd_qp_bind; [apply sd_qp_na_go|]. intros r.
  destruct r; [apply sd_qp_ret|]. apply sd_qp_bind; [apply sd_qp_close|]. intros _. apply sd_qp_ret.
Qed.

Lemma sd_qp_next_toa : forall F qi, sd_qp F (query_next_table_or_archetype qi).
Proof.
  intros F qi. unfold query_next_table_or_archetype.
  apply sd_qp_bind; [apply sd_qp_ro, q_ro_getQ|]. intros q.
  apply sd_qp_bind; [apply sd_qp_ro, readonly_guard|]. intros _.
  destruct (q_cache q) as [addr|].
  - apply sd_qp_bind; [apply sd_qp_ro, readonly_get|]. intros s0.
    apply sd_qp_bind; [apply sd_qp_ro, readonly_of_opt|]. intros e. apply sd_qp_next_table.
  - destruct (Nat.leb 2 (q_arch q)); [|apply sd_qp_next_archetype].
    apply sd_qp_bind; [apply sd_qp_next_table|]. intros found.
    destruct found; [apply sd_qp_ret|apply sd_qp_next_archetype].
Qed.

Lemma sd_qp_next : forall F d qi, sd_qp F (query_next d qi).
Proof.
  intros F d qi. unfold query_next.
  apply sd_qp_bind; [apply sd_qp_ro, q_ro_getQ|]. intros q.
  apply sd_qp_bind; [apply sd_qp_whenM, sd_qp_ro, readonly_guard|]. intros _.
  destruct (q_max q) as [mx|]; [|apply sd_qp_next_toa].
  destruct (Nat.ltb (q_index q) mx); [|apply sd_qp_next_toa].
  apply sd_qp_bind; [apply sd_qp_modQ; sd_qstat|]. intros _. apply sd_qp_ret.
Qed.

Lemma sd_qp_drain_go : forall F d qi fuel acc, sd_qp F (sd_drain_go d qi fuel acc).
Proof.
  intros F d qi fuel. induction fuel as [|fu IH]; intros acc; [apply sd_qp_ret|]. cbn [sd_drain_go].
  apply sd_qp_bind; [apply sd_qp_next|]. intros more. destruct more; [|apply sd_qp_ret].
  apply sd_qp_bind; [apply sd_qp_ro, sd_ro_query_entity|]. intros e. apply IH.
Qed.

(** Opening a query on a plain filter. *)
Lemma sd_qp_open : forall F fi rels, (forall i f, nth_error F i = Some f -> f_cache f = None /\ f_mask f = mk_of_list (f_ids f)) ->
  sd_qp F (query_open fi rels).
Proof.
  intros F fi rels HFP s HS. unfold query_open.
  apply sd_ro_bind; [apply readonly_getF|exact HS|intros f Ef].
  apply q_getF_inv in Ef. destruct Ef as (_ & Ef). pose proof HS as (HF & HQ). rewrite HF in Ef.
  destruct (HFP fi f Ef) as (Hca & Hmask).
  apply sd_ro_bind; [destruct (negb (f_unsafe f)); [apply readonly_to_relations|apply readonly_ret]|exact HS|intros _ _].
  rewrite q_bind_get. rewrite Hca. rewrite q_bind_ret.
  unfold lockM, bind, get, put, ret, fail. destruct (lock_lock (w_lock s)) as [[b l']|]; cbn [state_of]; [|exact HS].
  split; [exact HF|]. intros k q H. cbn in H. apply sa_nth_error_snoc in H. destruct H as [[_ H]|[_ ->]]; [exact (HQ k q H)|].
  split; [reflexivity|]. cbn [q_rare q_filter]. intros c Hc. exists f. split; [exact Ef|].
  destruct (f_unsafe f || is_nil (f_ids f))%bool eqn:Eb; [discriminate|]. inversion Hc; subst c.
  apply orb_false_iff in Eb. destruct Eb as (_ & Eb). rewrite Hmask. apply mk_get_of_list.
  apply rare_component_in. intros E. rewrite E in Eb. discriminate.
Qed.

(** The query operations keep the two clauses (filters unchanged). *)
Lemma sd_qop_QP : forall debug o F, (forall i f, nth_error F i = Some f -> f_cache f = None /\ f_mask f = mk_of_list (f_ids f)) ->
  be_query_op o = true -> sd_qp F (step_op debug o).
Proof.
  intros debug o F HFP Hq. destruct o; try discriminate Hq; [rewrite sd_step_op_QueryAll | cbn [step_op] ..].
  - apply sd_qp_bind; [apply sd_qp_ro, readonly_resolveR|]. intros rl.
    apply sd_qp_bind; [apply sd_qp_ro, readonly_resolve_relidx|]. intros ?rl.
    apply sd_qp_bind; [apply sd_qp_ro, readonly_check_unsafe_rels|]. intros _.
    apply sd_qp_bind; [apply sd_qp_open; exact HFP|]. intros qi.
    apply sd_qp_bind; [apply sd_qp_ro, sd_ro_query_count|]. intros cnt.
    apply sd_qp_bind; [apply sd_qp_drain_go|]. intros es.
    apply sd_qp_bind; [apply sd_qp_close|]. intros _. apply sd_qp_ret.
  - apply sd_qp_bind; [apply sd_qp_ro, readonly_resolveR|]. intros rl.
    apply sd_qp_bind; [apply sd_qp_ro, readonly_resolve_relidx|]. intros ?rl.
    apply sd_qp_bind; [apply sd_qp_ro, readonly_check_unsafe_rels|]. intros _.
    apply sd_qp_bind; [apply sd_qp_open; exact HFP|]. intros qi. apply sd_qp_ret.
  - apply sd_qp_bind; [apply sd_qp_next|]. intros b. apply sd_qp_ret.
  - apply sd_qp_bind; [apply sd_qp_close|]. intros b. apply sd_qp_ret.
  - apply sd_qp_bind; [apply sd_qp_ro, sd_ro_query_count|]. intros b. apply sd_qp_ret.
  - apply sd_qp_bind; [apply sd_qp_ro, sd_ro_query_entity_at|]. intros b. apply sd_qp_ret.
  - apply sd_qp_bind; [apply sd_qp_ro, sd_ro_query_entity|]. intros b. apply sd_qp_ret.
Qed.

Lemma sd_filter_new_shape : forall debug u ids wo ex hrels s,
  w_queries (state_of (step_op debug (OFilterNew u ids wo ex hrels) s)) = w_queries s /\
  (w_filters (state_of (step_op debug (OFilterNew u ids wo ex hrels) s)) = w_filters s \/
   exists f, w_filters (state_of (step_op debug (OFilterNew u ids wo ex hrels) s)) = w_filters s ++ [f] /\
             f_cache f = None /\ f_mask f = mk_of_list (f_ids f)).
Proof.
  intros debug u ids wo ex hrels s. cbn [step_op].
  set (Q := fun s' : W => w_queries s' = w_queries s /\
     (w_filters s' = w_filters s \/ exists f, w_filters s' = w_filters s ++ [f] /\ f_cache f = None /\ f_mask f = mk_of_list (f_ids f))).
  assert (HQ : Q s) by (split; [reflexivity|left; reflexivity]).
  change (Q (state_of ((rels <- resolveR hrels ;;
      let m := mk_of_list ids in
      s0 <- get ;;
      whenM (negb u) (to_relations m rels) ;;;
      let f := {| f_ids := ids; f_mask := m;
                  f_without := if ex then mk_not (cf_bits (w_cfg s0)) m else mk_of_list wo;
                  f_haswithout := (ex || negb (is_nil wo))%bool;
                  f_cache := None; f_rels := rels; f_unsafe := u |} in
      modify (fun s1 => s1 <| w_filters ::= fun l => l ++ [f] |>) ;;;
      ret [Zn (length (w_filters s0))]) s))).
  apply sd_ro_bind; [apply readonly_resolveR|exact HQ|intros rl _]. cbv zeta.
  apply sd_ro_bind; [apply readonly_get|exact HQ|intros s0 _].
  apply sd_ro_bind; [destruct (negb u); [apply readonly_to_relations|apply readonly_ret]|exact HQ|intros _ _].
  unfold bind, modify, ret. cbn [state_of]. split; [reflexivity|]. right. eexists. split; [reflexivity|]. split; reflexivity.
Qed.

Lemma sd_issue_queries : forall o (r : res W (list Z)),
  w_queries (sc_issue o r) = w_queries (state_of r) /\ w_filters (sc_issue o r) = w_filters (state_of r).
Proof.
  intros o r. unfold sc_issue. destruct r as [[|i [|g rest]] s1|er s1]; cbn [state_of]; try (split; reflexivity).
  destruct (returns_entity o); split; reflexivity.
Qed.

Lemma sd_core_not_query : forall o, core_op o = true -> be_query_op o = false.
Proof. intros o H. destruct o; try discriminate H; reflexivity. Qed.

Lemma sd_step_core_queries : forall debug wd s line o, decode_op line = Some o -> core_op o = true ->
  w_queries (fst (step debug wd s line)) = w_queries s.
Proof.
  intros debug wd s line o Hd Hc. rewrite (sc_step_state debug wd s line o Hd Hc).
  change (w_queries (sc_issue o (step_op debug o (s <| w_log := [] |>))) = w_queries s).
  rewrite (proj1 (sd_issue_queries o _)).
  apply (be_kq_step_op debug o (w_queries s) (sd_core_not_query o Hc) (s <| w_log := [] |>)). reflexivity.
Qed.

Lemma sd_plain_same : forall s s', w_filters s' = w_filters s -> w_queries s' = w_queries s ->
  filters_plain s /\ queries_plain s -> filters_plain s' /\ queries_plain s'.
Proof. intros s s' EF EQ (HF & HQ). unfold filters_plain, queries_plain. rewrite EF, EQ. auto. Qed.

Lemma sd_step_q_plain : forall debug wd s line o, decode_op line = Some o -> query_op o = true ->
  filters_plain s /\ queries_plain s ->
  filters_plain (fst (step debug wd s line)) /\ queries_plain (fst (step debug wd s line)).
Proof.
  intros debug wd s line o Hd Hq (HF & HQ). rewrite (sd_step_state_q debug wd s line o Hd Hq).
  set (s0 := s <| w_log := [] |>).
  assert (HF0 : filters_plain s0) by exact HF. assert (HQ0 : queries_plain s0) by exact HQ.
  cut (filters_plain (state_of (step_op debug o s0)) /\ queries_plain (state_of (step_op debug o s0))).
  { intros H. exact H. }
  destruct (be_query_op o) eqn:Eb.
  - destruct (sd_qop_QP debug o (w_filters s0) HF0 Eb s0 (conj eq_refl HQ0)) as (EF & P).
    split; [unfold filters_plain; rewrite EF; exact HF0|]. unfold queries_plain. rewrite EF. exact P.
  - destruct o; try discriminate Hq; try discriminate Eb.
    destruct (sd_filter_new_shape debug unsafe ids without excl rels s0) as (EQ & [EF|(f & EF & Fc & Fm)]).
    + apply (sd_plain_same s0); auto.
    + split.
      * intros fi f0 H. rewrite EF in H. apply sa_nth_error_snoc in H. destruct H as [[_ H]|[_ ->]]; [exact (HF0 fi f0 H)|auto].
      * intros qi q H. rewrite EQ in H. destruct (HQ0 qi q H) as (A & B). split; [exact A|].
        intros k Hk. destruct (B k Hk) as (f0 & Hf0 & Hm). exists f0. split; [|exact Hm].
        rewrite EF. apply sa_nth_error_snoc_old. exact Hf0.
Qed.

Theorem step_inv5_ext : forall debug wd s n line o,
  Inv5 s n -> n + 4 < Nat.pow 2 31 -> decode_op line = Some o -> ext_op o = true ->
  (forall c, In c (op_ids o) -> c < length (w_reg s)) ->
  Inv5 (fst (step debug wd s line)) (S n) /\ w_reg (fst (step debug wd s line)) = w_reg s.
Proof.
  intros debug wd s n line o (H4 & HP) Hn Hd He Hreg.
  destruct (step_inv4_ext debug wd s n line o H4 Hn Hd He Hreg) as (H4' & Hr). split; [|exact Hr].
  split; [exact H4'|]. destruct (sd_ext_cases o He) as [Hc|Hq].
  - apply (sd_plain_same s); [|apply (sd_step_core_queries debug wd s line o Hd Hc)|exact HP].
    apply sd_Inv4_X in H4. destruct H4 as (HI & HX).
    apply (sd_step_X true debug wd s line o (proj1 HI) HX Hd Hc Hreg).
  - apply (sd_step_q_plain debug wd s line o Hd Hq HP).
Qed.

Lemma Inv5_init : forall c, cfg_ok c -> Inv5 (init_world c) 0.
Proof.
  intros c Hc. split; [apply Inv4_init; exact Hc|]. split.
  - intros [|fi] f H; discriminate H.
  - intros [|qi] q H; discriminate H.
Qed.

Lemma sd_run_inv5_ext : forall c, cfg_ok c -> forall lines,
  Forall (ext_line (length (sc_kinds c))) lines -> length lines + 4 < Nat.pow 2 31 ->
  Inv5 (run_core c lines) (length lines) /\ w_reg (run_core c lines) = sc_kinds c.
Proof.
  intros c Hc lines. induction lines as [|l lines IH] using rev_ind; intros HF Hb.
  - split; [apply Inv5_init; exact Hc|reflexivity].
  - apply Forall_app in HF. destruct HF as (HF & Hl). inversion Hl as [|? ? (o & Hd & Hco & Hids) _]; subst.
    rewrite app_length in *. cbn [length] in *. rewrite Nat.add_1_r in *.
    destruct IH as (IH1 & IH2); [exact HF|lia|].
    unfold run_core in *. rewrite fold_left_app. cbn [fold_left].
    destruct (step_inv5_ext (sc_debug c) false _ (length lines) l o IH1) as (S1 & S2); auto; try lia.
    { rewrite IH2. exact Hids. }
    split; [exact S1|congruence].
Qed.

Theorem reachable_inv5_ext : forall c lines,
  cfg_ok c -> Forall (ext_line (length (sc_kinds c))) lines -> length lines + 4 < Nat.pow 2 31 ->
  Inv5 (run_core c lines) (length lines).
Proof. intros c lines Hc Hl Hb. apply (sd_run_inv5_ext c Hc lines Hl Hb). Qed.

(** C03, closing the gap left to the correspondence stream: in every reachable state of the extended
    histories, EVERY query object with a rare-component hint walks exactly what the same query
    without the hint walks (same matching archetypes in the same order, same walk, same Count,
    same rows), including the outcomes in which the walk panics. *)
Theorem reachable_queries_preselection_complete : forall c lines qi q k,
  cfg_ok c -> Forall (ext_line (length (sc_kinds c))) lines -> length lines + 4 < Nat.pow 2 31 ->
  let s := run_core c lines in
  nth_error (w_queries s) qi = Some q -> q_rare q = Some k ->
  exists f, nth_error (w_filters s) (q_filter q) = Some f /\ q_cache q = None /\ mk_get (f_mask f) k = true /\
    filter (sd_matching s f) (query_archetypes s q) = filter (sd_matching s f) (seq 0 (length (w_archs s))) /\
    sd_val (query_walk qi s) = sd_val (query_walk qi (sd_unrare qi s)) /\
    sd_val (query_count qi s) = sd_val (query_count qi (sd_unrare qi s)) /\
    (forall w, query_walk qi s = Ok w s <-> query_walk qi (sd_unrare qi s) = Ok w (sd_unrare qi s)) /\
    (forall w, walk_rows (sd_unrare qi s) w = walk_rows s w).
Proof.
  intros c lines qi q k Hc Hl Hb s Hq Hr.
  destruct (reachable_inv5_ext c lines Hc Hl Hb) as (H4 & HF & HQ). fold s in H4, HF, HQ.
  destruct (HQ qi q Hq) as (Hca & B). destruct (B k Hr) as (f & Hf & Hm).
  exists f. split; [exact Hf|]. split; [exact Hca|]. split; [exact Hm|].
  exact (inv3_preselection_complete s _ (proj1 H4) qi q f k Hq Hca Hr Hf Hm).
Qed.

(** ** The filter cache: exactness is kept by every core operation, by filter creation and by queries

    [sd_C]: the registered entries are distinct and each lists exactly the tables of the archetypes
    its filter matches (the tolerant form [k_cache_exact_tol] of CacheProofs). Instance of the tracked
    predicate: appending an archetype without table changes no walk, and the creation of its table is
    [k_get_or_create_table_cache_exact_tol]. *)
Definition sd_C (s : W) : Prop := NoDup (w_centries s) /\ k_cache_exact_tol s.

Lemma sd_C_same : forall s s', sd_same s s' -> sd_C s -> sd_C s'.
Proof.
  intros s s' (E1 & _ & _ & _ & _ & E6 & E7 & E8) (ND & HC). unfold sd_C, k_cache_exact_tol.
  rewrite E1, E6, E7, E8. auto.
Qed.

Lemma sd_selt_snoc : forall f l a, a_tables a = [] -> k_selt f (l ++ [a]) = k_selt f l.
Proof.
  intros f l a Ha. induction l as [|b l IH]; cbn [app k_selt].
  - rewrite Ha. destruct (filter_matches f (a_mask a)); reflexivity.
  - rewrite IH. reflexivity.
Qed.

Lemma sd_C_tail : forall s m, St s -> sd_C s -> (forall j, mk_get m j = true -> j < length (w_reg s)) ->
  forall aid s1 tid s2, find_or_create_arch m s = Ok aid s1 -> get_or_create_table aid [] s1 = Ok tid s2 -> sd_C s2.
Proof.
  intros s m HS (ND & HC) Hm aid s1' tid s2 E1' E4'.
  destruct (sa_finder_tail_bare s m aid s1' tid s2 HS Hm E1' E4') as (s1 & a & E1 & HS1 & Ha & _ & E4).
  assert (C1 : sd_C s1).
  { destruct (sd_foca_shape _ _ _ _ E1) as [(-> & _)|(_ & a0 & EA & Ma & Ta & ET & EC & E7 & E8 & E9)]; [split; assumption|].
    unfold sd_C, k_cache_exact_tol. rewrite E7, E8, E9, EA. split; [exact ND|].
    intros addr e f Hin He Hf. rewrite sd_selt_snoc by exact Ta. exact (HC addr e f Hin He Hf). }
  destruct C1 as (ND1 & HC1).
  pose proof (k_get_or_create_table_cache_exact_tol s1 aid a HS1 HC1 Ha ND1) as K. rewrite E4 in K.
  split; [|exact K].
  destruct (sd_goct_shape s1 aid a HS1 Ha) as [(t0 & tl & Ta & E)|(Ta & s2' & t & E & _ & _ & _ & _ & _ & EC)];
    rewrite E in E4; injection E4 as <- <-; [exact ND1|rewrite EC; exact ND1].
Qed.

Lemma sd_step_C : forall debug wd s line o, St s -> sd_C s -> decode_op line = Some o -> core_op o = true ->
  (forall c, In c (op_ids o) -> c < length (w_reg s)) ->
  sd_C (fst (step debug wd s line)) /\ w_filters (fst (step debug wd s line)) = w_filters s.
Proof. exact (sd_step_T sd_C sd_C_same sd_C_tail). Qed.

Lemma sd_C_uf : forall s s', WF s -> sd_uf s s' -> sd_C s -> sd_C s'.
Proof.
  intros s s' HW (E1 & E2 & E3 & E4 & E5 & E6 & E7 & E8 & E9 & E10 & E11 & E12 & E13 & E14) (ND & HC).
  unfold sd_C, k_cache_exact_tol. rewrite E6, E11, E12. split; [exact ND|].
  intros addr e f Hin He Hf. destruct (wf_cache _ HW addr Hin) as (e0 & He0 & Lt).
  rewrite He in He0. inversion He0; subst e0.
  destruct (nth_error (w_filters s) (ce_filter e)) as [f0|] eqn:Ef0; [|apply nth_error_None in Ef0; lia].
  pose proof (E14 _ _ Ef0) as Ef0'. rewrite Hf in Ef0'. inversion Ef0'; subst f0.
  exact (HC addr e f Hin He Ef0).
Qed.

(** One step of the extended class keeps the cache clauses (whatever entries are registered). *)
Theorem step_cache_exact_ext : forall debug wd s n line o,
  Inv s n -> sd_C s -> decode_op line = Some o -> ext_op o = true ->
  (forall c, In c (op_ids o) -> c < length (w_reg s)) ->
  sd_C (fst (step debug wd s line)).
Proof.
  intros debug wd s n line o HI HC Hd He Hreg. destruct (sd_ext_cases o He) as [Hc|Hq].
  - apply (sd_step_C debug wd s line o (proj1 HI) HC Hd Hc Hreg).
  - apply (sd_C_uf s); [apply HI|apply (sd_step_q_uf debug wd s line o Hd Hq)|exact HC].
Qed.

(** ** Histories with filter registration

    [OFilterRegister] / [OFilterUnregister] join the class; the invariant [Inv4] and the cache clauses
    [sd_C] hold in every reachable state (the clauses [filters_plain] / [queries_plain] of [Inv5] do
    not: queries on registered filters are cached). *)
Definition reg_op (o : op) : bool :=
  (ext_op o || match o with OFilterRegister _ | OFilterUnregister _ => true | _ => false end)%bool.

Definition Inv6 (s : W) (n : nat) : Prop := Inv4 s n /\ sd_C s.

Lemma sd_X_ext : forall b s s', w_archs s' = w_archs s -> w_tables s' = w_tables s ->
  w_compindex s' = w_compindex s -> sd_X b s -> sd_X b s'.
Proof.
  intros b s s' E6 E7 E9 (X1 & X2 & X3 & X4).
  unfold sd_X, tables_listed_all, v_targets_zero, compindex_ok, bo_archs_tabled. rewrite E6, E7, E9.
  split; [exact X1|]. split; [exact X2|]. split; [|exact X4].
  intros c. rewrite (X3 c). apply sd_filter_ext_in. intros x _. symmetry. apply sd_has_archs. exact E6.
Qed.

(** Changing only the cache fields and the filter objects: the invariant needs [wf_cache] again. *)
Lemma sd_Inv_cache : forall s s' n,
  w_cfg s' = w_cfg s -> w_reg s' = w_reg s -> w_pool s' = w_pool s -> w_index s' = w_index s ->
  w_istarget s' = w_istarget s -> w_archs s' = w_archs s -> w_tables s' = w_tables s ->
  w_relarchs s' = w_relarchs s -> w_compindex s' = w_compindex s -> w_archcount s' = w_archcount s ->
  w_issued s' = w_issued s ->
  (forall addr, In addr (w_centries s') -> exists e, nth_error (w_cheap s') addr = Some e /\ ce_filter e < length (w_filters s')) ->
  Inv s n -> Inv s' (S n).
Proof.
  intros s s' n E1 E2 E3 E4 E5 E6 E7 E8 E9 E10 E13 HCa ((H & HN) & I1 & I2 & I3).
  assert (K : forall c, kind_of s' c = kind_of s c) by (apply sa_kind_of_ext; auto).
  assert (L : forall e, loc s' e = loc s e) by (apply sa_loc_ext; auto).
  assert (KM : forall l, map (kind_of s') l = map (kind_of s) l) by (intros; apply map_ext; auto).
  assert (HL : forall x, live s' x = live s x) by (intros x; unfold live, loc; rewrite E4, E7; reflexivity).
  split; [split|].
  - destruct H. constructor; rewrite ?E1, ?E2, ?E3, ?E4, ?E5, ?E6, ?E7, ?E8, ?E9, ?E10; auto.
    + intros tid t Ht. destruct (wf_layout tid t Ht) as (a & A1 & A2 & A3 & A4). exists a. rewrite KM. auto.
    + intros aid a Ha. destruct (wf_arch_comps aid a Ha) as (A1 & A2 & A3 & A4 & A5).
      repeat split; auto. rewrite A3. apply map_ext. intros c. rewrite K. reflexivity.
    + intros tid t r Ht Hr. rewrite L. auto.
  - apply (sa_NoRel_ext s s'); auto.
  - unfold issued_ok. rewrite E13, E3. split; [|split].
    + intros e He. destruct (I1 e He) as (R & D). split; [exact R|]. rewrite HL. exact D.
    + intros i l g E Hi. pose proof (I2 i l g E Hi). lia.
    + lia.
Qed.

Lemma sd_matches_cache : forall f c m, filter_matches (f <| f_cache := c |>) m = filter_matches f m.
Proof. reflexivity. Qed.

Lemma sd_selt_ext : forall f f' l, (forall m, filter_matches f' m = filter_matches f m) -> k_selt f' l = k_selt f l.
Proof.
  intros f f' l H. induction l as [|a l IH]; [reflexivity|]. cbn [k_selt]. rewrite H, IH. reflexivity.
Qed.

(** The filter found at an index after [f_cache] of filter [fi] was overwritten walks the same tables. *)
Lemma sd_filters_updf_cache : forall (F : list fobj) fi c i f', nth_error (updf fi (fun f0 => f0 <| f_cache := c |>) F) i = Some f' ->
  exists f, nth_error F i = Some f /\ forall l, k_selt f' l = k_selt f l.
Proof.
  intros F fi c i f' H. rewrite nth_error_updf in H. destruct (Nat.eqb fi i).
  - destruct (nth_error F i) as [f|]; [|discriminate]. cbn in H. inversion H; subst f'. exists f. split; [reflexivity|].
    intros l. apply sd_selt_ext. intros m. apply sd_matches_cache.
  - exists f'. auto.
Qed.

Lemma sd_sel_selt : forall f l acc r, k_sel f l acc = Some r -> r = acc ++ k_selt f l.
Proof.
  intros f l. induction l as [|a l IH]; intros acc r H; cbn [k_sel k_selt] in *.
  - inversion H. rewrite app_nil_r. reflexivity.
  - destruct (filter_matches f (a_mask a)); cbn [negb] in H; [|apply IH; exact H].
    destruct (a_tables a) as [|t0 tl]; [discriminate|]. rewrite (IH _ _ H), <- app_assoc. reflexivity.
Qed.

Lemma sd_NoDup_app_disj : forall A (l1 l2 : list A), NoDup (l1 ++ l2) -> forall x, In x l1 -> ~ In x l2.
Proof.
  intros A l1 l2. induction l1 as [|a l1 IH]; intros H x Hx; [destruct Hx|]. cbn in H. inversion H as [|? ? Hn H']; subst.
  destruct Hx as [<-|Hx]; [intros H2; apply Hn, in_or_app; right; exact H2|apply IH; assumption].
Qed.

Lemma sd_NoDup_app_r : forall A (l1 l2 : list A), NoDup (l1 ++ l2) -> NoDup l2.
Proof.
  intros A l1 l2. induction l1 as [|a l1 IH]; intros H; [exact H|]. cbn in H. inversion H; subst. auto.
Qed.

Lemma sd_selt_sub : forall f l x, In x (k_selt f l) -> In x (flat_map a_tables l).
Proof.
  intros f l x H. apply k_selt_in in H. destruct H as (i & a & Hi & Hx). apply in_flat_map. exists a.
  split; [eapply nth_error_In; eauto|exact Hx].
Qed.

Lemma sd_selt_NoDup : forall f l, NoDup (flat_map a_tables l) -> NoDup (k_selt f l).
Proof.
  intros f l. induction l as [|a l IH]; intros H; [constructor|]. cbn [flat_map k_selt] in *.
  pose proof (sd_NoDup_app_r _ _ _ H) as H2. specialize (IH H2).
  destruct (filter_matches f (a_mask a)); [|exact IH].
  destruct (a_tables a) as [|t0 tl] eqn:E; [exact IH|]. constructor; [|exact IH].
  intros Hin. apply sd_selt_sub in Hin. apply (sd_NoDup_app_disj _ _ _ H t0); [left; reflexivity|exact Hin].
Qed.

Lemma sd_NoDup_snoc : forall A (l : list A) x, NoDup l -> ~ In x l -> NoDup (l ++ [x]).
Proof.
  intros A l x ND Hn. pose proof (Add_app x l []) as AD. rewrite app_nil_r in AD.
  apply (NoDup_Add AD). split; assumption.
Qed.

(** Registration: the three possible final states. *)
Lemma sd_register_shape : forall fi s,
  state_of (filter_register fi s) = s \/
  exists f id p', nth_error (w_filters s) fi = Some f /\
    (state_of (filter_register fi s) =
       s <| w_cpool := p' |> <| w_filters ::= updf fi (fun f0 => f0 <| f_cache := Some id |>) |> \/
     exists tabs, uncached_tables f (f_rels f) s = Ok tabs s /\
       state_of (filter_register fi s) =
         s <| w_cpool := p' |> <| w_filters ::= updf fi (fun f0 => f0 <| f_cache := Some id |>) |>
           <| w_centries ::= fun l => l ++ [length (w_cheap s)] |>
           <| w_cheap ::= fun h => h ++ [{| ce_id := id; ce_filter := fi; ce_rels := f_rels f; ce_tables := tabs |}] |>).
Proof.
  intros fi s. unfold filter_register.
  destruct (nth_error (w_filters s) fi) as [f|] eqn:Hf.
  2:{ left. assert (EF : getF fi s = Err EIndex s) by (unfold getF, bind, get, of_opt; rewrite Hf; reflexivity).
      rewrite (sa_bind_err EF). reflexivity. }
  assert (EF : getF fi s = Ok f s) by (unfold getF, bind, get, of_opt; rewrite Hf; reflexivity).
  rewrite (sa_bind_ok EF). destruct (f_cache f) as [cid|] eqn:Hc; cbn [guard].
  { left. reflexivity. }
  rewrite (sa_bind_ok (m := ret tt) (s := s) eq_refl).
  rewrite (sa_bind_ok (m := get) (s := s) eq_refl).
  destruct (ipool_get None (w_cpool s)) as [[id p']|]; [|left; reflexivity].
  right. exists f, id, p'. split; [reflexivity|].
  rewrite (sa_bind_ok (m := put _) (s := s) eq_refl).
  set (s1 := s <| w_cpool := p' |>).
  rewrite (sa_bind_ok (m := modify _) (s := s1) eq_refl).
  set (s2 := s1 <| w_filters ::= updf fi (fun f0 => f0 <| f_cache := Some id |>) |>).
  destruct (uncached_tables f (f_rels f) s2) as [tabs s3|e s3] eqn:EU.
  - rewrite (sa_bind_ok EU). pose proof (k_uncached_state _ _ _ _ _ EU) as ->. right. exists tabs.
    split; [apply (k_uncached_frame f (f_rels f) s s2); [reflexivity|reflexivity|exact EU]|]. reflexivity.
  - rewrite (sa_bind_err EU). left. cbn [state_of].
    assert (E3 : s3 = s2).
    { pose proof (k_uncached_pure f (f_rels f) s2) as P. rewrite EU in P.
      destruct (k_upure (w_tables s2) f (f_rels f) (w_archs s2) []); cbn [k_inj] in P; inversion P; reflexivity. }
    rewrite E3. reflexivity.
Qed.

Lemma sd_register_step : forall b fi s n, Inv s n -> sd_X b s -> sd_C s ->
  let s' := state_of (filter_register fi s) in
  Inv s' (S n) /\ sd_X b s' /\ sd_C s' /\ w_reg s' = w_reg s.
Proof.
  intros b fi s n HI HX (ND & HC) s'. pose proof HI as ((HW & HN) & _).
  destruct (sd_register_shape fi s) as [E|(f & id & p' & Hf & [E|(tabs & EU & E)])]; unfold s'; rewrite E; clear s' E.
  - split; [|split; [exact HX|split; [split; assumption|reflexivity]]].
    apply (sd_uf_Inv s s); [apply sd_uf_refl|exact HI].
  - split; [|split; [|split; [|reflexivity]]].
    + apply (sd_Inv_cache s); try reflexivity; [|exact HI]. cbn. intros addr Hin.
      destruct (wf_cache _ HW addr Hin) as (e & He & Lt). exists e. split; [exact He|]. rewrite updf_length. exact Lt.
    + apply (sd_X_ext b s); try reflexivity. exact HX.
    + split; [exact ND|]. intros addr e f' Hin He Hf'. cbn in Hin, He, Hf'.
      destruct (sd_filters_updf_cache _ _ _ _ _ Hf') as (f0 & Hf0 & Es). cbn [w_archs]. rewrite Es.
      exact (HC addr e f0 Hin He Hf0).
  - assert (Hfi : fi < length (w_filters s)) by (eapply sa_nth_error_lt; eauto).
    assert (Hfresh : ~ In (length (w_cheap s)) (w_centries s)).
    { intros Hin. destruct (wf_cache _ HW _ Hin) as (e & He & _). apply sa_nth_error_lt in He. lia. }
    split; [|split; [|split; [|reflexivity]]].
    + apply (sd_Inv_cache s); try reflexivity; [|exact HI]. cbn. intros addr Hin.
      apply in_app_or in Hin. destruct Hin as [Hin|[<-|[]]].
      * destruct (wf_cache _ HW addr Hin) as (e & He & Lt). exists e.
        split; [apply sa_nth_error_snoc_old; exact He|]. rewrite updf_length. exact Lt.
      * eexists. split; [apply sa_nth_error_snoc_new|]. cbn. rewrite updf_length. exact Hfi.
    + apply (sd_X_ext b s); try reflexivity. exact HX.
    + split; [cbn; apply sd_NoDup_snoc; assumption|].
      intros addr e f' Hin He Hf'. cbn in Hin, He, Hf'. cbn [w_archs].
      destruct (sd_filters_updf_cache _ _ _ _ _ Hf') as (f0 & Hf0 & Es). rewrite Es.
      apply in_app_or in Hin. destruct Hin as [Hin|[<-|[]]].
      * destruct (wf_cache _ HW addr Hin) as (e0 & He0 & _).
        rewrite (sa_nth_error_snoc_old _ _ _ _ _ He0) in He. inversion He; subst e0.
        exact (HC addr e f0 Hin He0 Hf0).
      * rewrite sa_nth_error_snoc_new in He. inversion He; subst e. cbn [ce_filter ce_tables] in *.
        rewrite Hf in Hf0. inversion Hf0; subst f0.
        rewrite (k_uncached_sel f (f_rels f) s HN) in EU.
        destruct (k_sel f (w_archs s) []) as [r|] eqn:Er; [|discriminate]. inversion EU; subst r.
        apply sd_sel_selt in Er. cbn [app] in Er. subst tabs.
        assert (NDs : NoDup (k_selt f (w_archs s))) by (apply sd_selt_NoDup; apply (v_listed_NoDup s); split; assumption).
        split; [exact NDs|]. split; [exact NDs|]. intros t. reflexivity.
Qed.

(** Unregistration: the entry is swap-removed from the list of registered entries. *)
Definition sd_swap_removed (idx : nat) (l : list nat) : list nat :=
  firstn (length l - 1)
    (if Nat.eqb idx (length l - 1) then l
     else match nth_error l (length l - 1) with Some x => upd idx x l | None => l end).

Lemma sd_unregister_shape : forall fi s,
  state_of (filter_unregister fi s) = s \/
  exists idx, idx < length (w_centries s) /\
    state_of (filter_unregister fi s) =
      s <| w_filters ::= updf fi (fun f => f <| f_cache := None |>) |>
        <| w_centries := sd_swap_removed idx (w_centries s) |>.
Proof.
  intros fi s. unfold filter_unregister.
  destruct (nth_error (w_filters s) fi) as [f|] eqn:Hf.
  2:{ left. assert (EF : getF fi s = Err EIndex s) by (unfold getF, bind, get, of_opt; rewrite Hf; reflexivity).
      rewrite (sa_bind_err EF). reflexivity. }
  assert (EF : getF fi s = Ok f s) by (unfold getF, bind, get, of_opt; rewrite Hf; reflexivity).
  rewrite (sa_bind_ok EF). destruct (f_cache f) as [cid|] eqn:Hc; [|left; reflexivity].
  rewrite (sa_bind_ok (m := get) (s := s) eq_refl).
  fold (k_pos_go (w_cheap s) cid).
  destruct (k_pos_go (w_cheap s) cid (w_centries s) 0) as [idx|] eqn:EP; cbn [of_opt]; [|left; reflexivity].
  rewrite (sa_bind_ok (m := ret idx) (s := s) eq_refl).
  apply k_pos_go_bound in EP. right. exists idx. split; [lia|].
  rewrite (sa_bind_ok (m := modify _) (s := s) eq_refl). reflexivity.
Qed.

Lemma sd_index_of_nth : forall l idx a, NoDup l -> nth_error l idx = Some a -> index_of a l = Some idx.
Proof.
  induction l as [|h l IH]; intros idx a ND H; [destruct idx; discriminate|]. inversion ND as [|? ? Hn ND']; subst.
  destruct idx as [|idx]; cbn in H.
  - inversion H; subst. cbn. rewrite Nat.eqb_refl. reflexivity.
  - cbn. destruct (Nat.eqb_spec h a) as [->|Hne].
    + exfalso. apply Hn. eapply nth_error_In; eauto.
    + rewrite (IH idx a ND' H). reflexivity.
Qed.

Lemma sd_swap_removed_spec : forall idx l, NoDup l -> idx < length l ->
  NoDup (sd_swap_removed idx l) /\ forall x, In x (sd_swap_removed idx l) -> In x l.
Proof.
  intros idx l ND Hi. destruct (nth_error l idx) as [a|] eqn:Ea; [|apply nth_error_None in Ea; lia].
  pose proof (tids_remove_spec a l ND) as (H1 & H2). unfold tids_remove in H1, H2.
  rewrite (sd_index_of_nth l idx a ND Ea) in H1, H2. cbv zeta in H1, H2.
  split; [exact H1|]. intros x Hx. apply H2 in Hx. apply Hx.
Qed.

Lemma sd_unregister_step : forall b fi s n, Inv s n -> sd_X b s -> sd_C s ->
  let s' := state_of (filter_unregister fi s) in
  Inv s' (S n) /\ sd_X b s' /\ sd_C s' /\ w_reg s' = w_reg s.
Proof.
  intros b fi s n HI HX (ND & HC) s'. pose proof HI as ((HW & HN) & _).
  destruct (sd_unregister_shape fi s) as [E|(idx & Hidx & E)]; unfold s'; rewrite E; clear s' E.
  - split; [|split; [exact HX|split; [split; assumption|reflexivity]]].
    apply (sd_uf_Inv s s); [apply sd_uf_refl|exact HI].
  - destruct (sd_swap_removed_spec idx (w_centries s) ND Hidx) as (ND' & Sub).
    split; [|split; [|split; [|reflexivity]]].
    + apply (sd_Inv_cache s); try reflexivity; [|exact HI]. cbn. intros addr Hin.
      destruct (wf_cache _ HW addr (Sub addr Hin)) as (e & He & Lt). exists e. split; [exact He|].
      rewrite updf_length. exact Lt.
    + apply (sd_X_ext b s); try reflexivity. exact HX.
    + split; [exact ND'|]. intros addr e f' Hin He Hf'. cbn in Hin, He, Hf'. cbn [w_archs].
      destruct (sd_filters_updf_cache _ _ _ _ _ Hf') as (f0 & Hf0 & Es). rewrite Es.
      exact (HC addr e f0 (Sub addr Hin) He Hf0).
Qed.

(** *** One step and all reachable states of the class with registration *)
Lemma sd_step_state_plain : forall debug wd s line o, decode_op line = Some o ->
  issues_from_log o = false -> returns_entity o = false ->
  fst (step debug wd s line) = state_of (step_op debug o (s <| w_log := [] |>)) <| w_log := [] |>.
Proof.
  intros debug wd s line o Hd Hi Hre. unfold step. rewrite Hd. cbv zeta. rewrite Hi, Hre. cbn [andb fst].
  destruct (step_op debug o (s <| w_log := [] |>)) as [[|i [|g rest]] s1|er s1]; reflexivity.
Qed.

Lemma sd_state_bind_ret : forall A B (m : MW A) (b : B) s, state_of ((m ;;; ret b) s) = state_of (m s).
Proof. intros A B m b s. unfold bind. destruct (m s); reflexivity. Qed.

Lemma sd_Inv6_X : forall s n, Inv6 s n <-> Inv s n /\ sd_X true s /\ sd_C s.
Proof.
  intros s n. unfold Inv6. rewrite sd_Inv4_X. tauto.
Qed.

Lemma sd_log_X : forall b (s : W) l, sd_X b s -> sd_X b (s <| w_log := l |>).
Proof. intros b s l. apply sd_X_ext; reflexivity. Qed.
Lemma sd_log_C : forall (s : W) l, sd_C s -> sd_C (s <| w_log := l |>).
Proof. intros s l. apply sd_C_same, sd_log_same. Qed.

Theorem step_inv6_reg : forall debug wd s n line o,
  Inv6 s n -> n + 4 < Nat.pow 2 31 -> decode_op line = Some o -> reg_op o = true ->
  (forall c, In c (op_ids o) -> c < length (w_reg s)) ->
  Inv6 (fst (step debug wd s line)) (S n) /\ w_reg (fst (step debug wd s line)) = w_reg s.
Proof.
  intros debug wd s n line o H6 Hn Hd Hr Hreg. unfold reg_op in Hr. apply orb_true_iff in Hr.
  destruct Hr as [He|Hr].
  - destruct H6 as (H4 & HC). destruct (step_inv4_ext debug wd s n line o H4 Hn Hd He Hreg) as (H4' & Er).
    split; [|exact Er]. split; [exact H4'|].
    apply (step_cache_exact_ext debug wd s n line o (proj1 (proj1 H4)) HC Hd He Hreg).
  - apply sd_Inv6_X in H6. destruct H6 as (HI & HX & HC).
    pose proof (sc_Inv_log s n [] HI) as HI0. pose proof (sd_log_X true s [] HX) as HX0. pose proof (sd_log_C s [] HC) as HC0.
    set (s0 := s <| w_log := [] |>) in *.
    destruct o; try discriminate Hr; rewrite (sd_step_state_plain debug wd s line _ Hd eq_refl eq_refl); fold s0;
      cbn [step_op]; rewrite sd_state_bind_ret.
    + destruct (sd_register_step true f s0 n HI0 HX0 HC0) as (A & B & C & D).
      split; [|exact D]. apply sd_Inv6_X. split; [apply sc_Inv_log; exact A|]. split; [apply sd_log_X; exact B|apply sd_log_C; exact C].
    + destruct (sd_unregister_step true f s0 n HI0 HX0 HC0) as (A & B & C & D).
      split; [|exact D]. apply sd_Inv6_X. split; [apply sc_Inv_log; exact A|]. split; [apply sd_log_X; exact B|apply sd_log_C; exact C].
Qed.

Definition reg_line (nreg : nat) (line : list Z) : Prop :=
  exists o, decode_op line = Some o /\ reg_op o = true /\ forall c, In c (op_ids o) -> c < nreg.

Lemma Inv6_init : forall c, cfg_ok c -> Inv6 (init_world c) 0.
Proof.
  intros c Hc. split; [apply Inv4_init; exact Hc|]. split; [constructor|]. intros addr e f [].
Qed.

Lemma sd_run_inv6_reg : forall c, cfg_ok c -> forall lines,
  Forall (reg_line (length (sc_kinds c))) lines -> length lines + 4 < Nat.pow 2 31 ->
  Inv6 (run_core c lines) (length lines) /\ w_reg (run_core c lines) = sc_kinds c.
Proof.
  intros c Hc lines. induction lines as [|l lines IH] using rev_ind; intros HF Hb.
  - split; [apply Inv6_init; exact Hc|reflexivity].
  - apply Forall_app in HF. destruct HF as (HF & Hl). inversion Hl as [|? ? (o & Hd & Hco & Hids) _]; subst.
    rewrite app_length in *. cbn [length] in *. rewrite Nat.add_1_r in *.
    destruct IH as (IH1 & IH2); [exact HF|lia|].
    unfold run_core in *. rewrite fold_left_app. cbn [fold_left].
    destruct (step_inv6_reg (sc_debug c) false _ (length lines) l o IH1) as (S1 & S2); auto; try lia.
    { rewrite IH2. exact Hids. }
    split; [exact S1|congruence].
Qed.

(** Every reachable state of the histories with registration: the storage invariant, all additional
    clauses, distinct cache entries, and every registered entry lists exactly the tables its filter
    selects ([cache_exact] of CacheProofs, since every archetype has its table). *)
Theorem reachable_inv6_reg : forall c lines,
  cfg_ok c -> Forall (reg_line (length (sc_kinds c))) lines -> length lines + 4 < Nat.pow 2 31 ->
  Inv6 (run_core c lines) (length lines).
Proof. intros c lines Hc Hl Hb. apply (sd_run_inv6_reg c Hc lines Hl Hb). Qed.

Theorem reachable_cache_exact : forall c lines,
  cfg_ok c -> Forall (reg_line (length (sc_kinds c))) lines -> length lines + 4 < Nat.pow 2 31 ->
  NoDup (w_centries (run_core c lines)) /\ k_cache_exact_tol (run_core c lines) /\ cache_exact (run_core c lines).
Proof.
  intros c lines Hc Hl Hb. destruct (reachable_inv6_reg c lines Hc Hl Hb) as ((H3 & HT) & ND & HC).
  split; [exact ND|]. split; [exact HC|].
  apply k_cache_exact_tol_exact; [apply (proj1 (proj1 H3))|exact HT|exact HC].
Qed.

(** ** Non-vacuity: executable forms of the clauses, and a reachable world with filters and queries *)
Fixpoint sd_leqb (a b : list nat) : bool :=
  match a, b with
  | [], [] => true
  | x :: a', y :: b' => (Nat.eqb x y && sd_leqb a' b')%bool
  | _, _ => false
  end.
Lemma sd_leqb_eq : forall a b, sd_leqb a b = true -> a = b.
Proof.
  induction a as [|x a IH]; intros [|y b] H; cbn in H; try discriminate; [reflexivity|].
  apply andb_true_iff in H. destruct H as (H1 & H2). apply Nat.eqb_eq in H1. subst. f_equal. auto.
Qed.

Definition ext_line_b (nreg : nat) (line : list Z) : bool :=
  match decode_op line with
  | Some o => (ext_op o && forallb (fun c => Nat.ltb c nreg) (op_ids o))%bool
  | None => false
  end.
Lemma ext_line_b_ok : forall nreg line, ext_line_b nreg line = true -> ext_line nreg line.
Proof.
  intros nreg line H. unfold ext_line_b in H. destruct (decode_op line) as [o|] eqn:E; [|discriminate].
  apply andb_true_iff in H. destruct H as (H1 & H2). exists o. split; [exact E|]. split; [exact H1|].
  intros c Hc. rewrite forallb_forall in H2. apply Nat.ltb_lt. apply H2. exact Hc.
Qed.
Lemma ext_lines_b_ok : forall nreg lines, forallb (ext_line_b nreg) lines = true -> Forall (ext_line nreg) lines.
Proof.
  intros nreg lines H. apply Forall_forall. intros l Hl. apply ext_line_b_ok. rewrite forallb_forall in H. auto.
Qed.

(** Three plain components; entities in four archetypes, failing operations in between (duplicate
    add, removal of a missing component, a stale handle), an observer, a filter over component 1 and
    an open query on it (rare component 1), a second filter over components 0 and 2 and its query. *)
Definition sd_cfg : script_cfg :=
  {| sc_cap := 2; sc_caprel := 1; sc_bits := 256; sc_debug := false; sc_kinds := map kind_of_code [0; 1; 2]%Z |}.
Definition sd_script : list (list Z) :=
  [[0]; [1; 2; 0; 1]; [1; 1; 2]; [5; 0; 1; 1]; [5; 0; 1; 1]; [7; 2; 1; 0]; [8; 1; 1; 2; 1; 0; 0]; [4; 1]; [9; 1; 2; 5];
   [11; 0]; [5; 0; 1; 2]; [1; 3; 0; 1; 2]; [25; 251; 0; 0; 0; 0; 0]; [26; 0]; [5; 2; 1; 0];
   [15; 0; 1; 1; 0; 0; 0]; [19; 0; 0]; [15; 0; 2; 0; 2; 0; 0; 0]; [18; 1; 0]; [19; 1; 0]; [20; 0]]%Z.
Definition sd_world : W := run_core sd_cfg sd_script.

Lemma sd_cfg_ok : cfg_ok sd_cfg.
Proof. unfold cfg_ok, sd_cfg. cbn. repeat split; try lia. repeat constructor. Qed.
Lemma sd_script_ok : Forall (ext_line (length (sc_kinds sd_cfg))) sd_script.
Proof. apply ext_lines_b_ok. vm_compute. reflexivity. Qed.
Lemma sd_script_short : length sd_script + 4 < Nat.pow 2 31.
Proof.
  assert (H : 25 < Nat.pow 2 31).
  { rewrite (Nat.pow_succ_r' 2 30), (Nat.pow_succ_r' 2 29), (Nat.pow_succ_r' 2 28), (Nat.pow_succ_r' 2 27), (Nat.pow_succ_r' 2 26).
    pose proof (Nat.pow_nonzero 2 26). lia. }
  exact H.
Qed.

Example sd_world_inv5 : Inv5 sd_world (length sd_script).
Proof. exact (reachable_inv5_ext sd_cfg sd_script sd_cfg_ok sd_script_ok sd_script_short). Qed.

(** What the world looks like: results of the script lines (error flags), the component index, the
    queries with their rare components, and the walk of query 0 with and without preselection. *)
Example sd_world_shape :
  map (fun l => hd 9%Z l) (run_lines false false (init_world sd_cfg) sd_script) =
    [0; 0; 0; 0; 1; 1; 0; 0; 0; 0; 1; 0; 0; 0; 0; 0; 0; 0; 0; 0; 0]%Z /\
  w_compindex sd_world = [[1; 5; 6]; [1; 3; 4; 5]; [2; 4; 5; 6]] /\
  map a_comps (w_archs sd_world) = [[]; [0; 1]; [2]; [1]; [1; 2]; [0; 1; 2]; [0; 2]] /\
  map a_tables (w_archs sd_world) = [[0]; [1]; [2]; [3]; [4]; [5]; [6]] /\
  map q_rare (w_queries sd_world) = [Some 1; Some 0; Some 0] /\
  map f_ids (w_filters sd_world) = [[1]; [0; 2]] /\
  sd_val (query_walk 0 sd_world) = inl [(1, 0); (3, 0); (4, 2); (5, 1)] /\
  sd_val (query_walk 0 (sd_unrare 0 sd_world)) = inl [(1, 0); (3, 0); (4, 2); (5, 1)] /\
  sd_val (query_walk 2 sd_world) = inl [(5, 1); (6, 1)] /\
  sd_val (query_walk 2 (sd_unrare 2 sd_world)) = inl [(5, 1); (6, 1)].
Proof. vm_compute. repeat split. Qed.

(** The theorems instantiated on this world (by the theorems, not by computation). *)
Example sd_world_preselection : forall qi q k, nth_error (w_queries sd_world) qi = Some q -> q_rare q = Some k ->
  sd_val (query_walk qi sd_world) = sd_val (query_walk qi (sd_unrare qi sd_world)).
Proof.
  intros qi q k Hq Hk.
  destruct (reachable_queries_preselection_complete sd_cfg sd_script qi q k sd_cfg_ok sd_script_ok sd_script_short Hq Hk)
    as (f & _ & _ & _ & _ & H & _). exact H.
Qed.
Example sd_world_selection : forall fi f, nth_error (w_filters sd_world) fi = Some f ->
  exists tabs, get_batch_tables fi [] sd_world = Ok tabs sd_world /\
    forall e, live sd_world e = true -> (bo_in_tabs sd_world tabs e <-> bo_ent_matches sd_world f e).
Proof.
  intros fi f Hf. destruct sd_world_inv5 as (H4 & HF & _).
  apply (inv4_batch_selection_exact sd_world _ fi f H4 Hf). apply (HF fi f Hf).
Qed.

(** The selection of a registered filter (the link between the filter and its entry is assumed, as in
    BatchOps / CacheProofs). *)
Corollary inv6_batch_selection_cached : forall s n fi f cid addr ce tabs, Inv6 s n ->
  nth_error (w_filters s) fi = Some f -> f_cache f = Some cid ->
  entry_addr s cid = Some addr -> nth_error (w_cheap s) addr = Some ce -> ce_filter ce = fi -> In addr (w_centries s) ->
  get_batch_tables fi [] s = Ok tabs s ->
  NoDup tabs /\ forall e, live s e = true -> (bo_in_tabs s tabs e <-> bo_ent_matches s f e).
Proof.
  intros s n fi f cid addr ce tabs ((H3 & HT) & ND & HC) Hf Hc Hea Hce Hfi Hin Hg.
  destruct (batch_selection_cached s fi f cid addr ce tabs (proj1 (proj1 H3)) HC Hf Hc Hea Hce Hfi Hin Hg) as (N & P).
  split; [exact N|]. intros e Hl. destruct (P e Hl) as (A & B). split; [exact A|apply B].
  apply (inv3_tables_listed s n H3).
Qed.

(** A world with registered filters: filter 0 (component 0) is registered before the archetypes it
    matches exist, filter 1 (component 1) after; filter 0 is unregistered and registered again. *)
Definition reg_line_b (nreg : nat) (line : list Z) : bool :=
  match decode_op line with
  | Some o => (reg_op o && forallb (fun c => Nat.ltb c nreg) (op_ids o))%bool
  | None => false
  end.
Lemma reg_lines_b_ok : forall nreg lines, forallb (reg_line_b nreg) lines = true -> Forall (reg_line nreg) lines.
Proof.
  intros nreg lines H. apply Forall_forall. intros l Hl. rewrite forallb_forall in H. specialize (H l Hl).
  unfold reg_line_b in H. destruct (decode_op l) as [o|] eqn:E; [|discriminate].
  apply andb_true_iff in H. destruct H as (H1 & H2). exists o. split; [exact E|]. split; [exact H1|].
  intros c Hc. rewrite forallb_forall in H2. apply Nat.ltb_lt. apply H2. exact Hc.
Qed.

Definition sd_script_reg : list (list Z) :=
  [[15; 0; 1; 0; 0; 0; 0]; [16; 0]; [1; 1; 0]; [1; 2; 0; 1]; [1; 1; 1]; [15; 0; 1; 1; 0; 0; 0]; [16; 1];
   [5; 2; 1; 2]; [17; 0]; [1; 3; 0; 1; 2]; [16; 0]; [16; 0]; [8; 0; 1; 2; 1; 0; 0]; [19; 0; 0]; [20; 0]; [21; 0]]%Z.
Definition sd_world_reg : W := run_core sd_cfg sd_script_reg.
Lemma sd_script_reg_ok : Forall (reg_line (length (sc_kinds sd_cfg))) sd_script_reg.
Proof. apply reg_lines_b_ok. vm_compute. reflexivity. Qed.
Lemma sd_script_reg_short : length sd_script_reg + 4 < Nat.pow 2 31.
Proof. pose proof sd_script_short as H. cbn [length sd_script sd_script_reg] in *. lia. Qed.

Example sd_world_reg_exact : NoDup (w_centries sd_world_reg) /\ k_cache_exact_tol sd_world_reg /\ cache_exact sd_world_reg.
Proof. exact (reachable_cache_exact sd_cfg sd_script_reg sd_cfg_ok sd_script_reg_ok sd_script_reg_short). Qed.

Example sd_world_reg_shape :
  map (fun l => hd 9%Z l) (run_lines false false (init_world sd_cfg) sd_script_reg) =
    [0; 0; 0; 0; 0; 0; 0; 0; 0; 0; 0; 1; 0; 0; 0; 0]%Z /\
  w_centries sd_world_reg = [1; 2] /\
  map (fun e => (ce_filter e, ce_tables e)) (w_cheap sd_world_reg) = [(0, [1; 2]); (1, [2; 3; 4; 5]); (0, [1; 2; 5])] /\
  map a_comps (w_archs sd_world_reg) = [[]; [0]; [0; 1]; [1]; [1; 2]; [0; 1; 2]; [2]].
Proof. vm_compute. repeat split. Qed.

(** ** Every archetype has its table: the clause of WF.v, and Reset

    [Inv4] carries "every archetype has its table" ([bo_archs_tabled]; in a relation-free world this is
    [archs_tabled_norel] of WF.v). Since the repair of createArchetype (the table of an archetype without
    relation components is created together with the archetype) the clause is kept by every finder
    whatever happens afterwards ([find_or_create_table*_tabled] of StorageA); here it is part of the
    invariant of all three history classes. Consequence for Reset: conditions (A) "every archetype has a
    table" and (B) "every non-empty table is listed" of [reset_empty_partial] (ResetShrinkProofs; C16)
    hold in every reachable state, so Reset succeeds there given the two remaining conditions on the
    filter registration (C) and the observer manager (D, here as [MInv]). *)
Theorem inv4_archs_tabled : forall s n, Inv4 s n -> archs_tabled_norel s.
Proof. intros s n (_ & HT). apply bo_archs_tabled_norel. exact HT. Qed.

Theorem reachable_archs_tabled : forall c lines,
  cfg_ok c -> Forall (reg_line (length (sc_kinds c))) lines -> length lines + 4 < Nat.pow 2 31 ->
  archs_tabled_norel (run_core c lines).
Proof. intros c lines Hc Hl Hb. destruct (reachable_inv6_reg c lines Hc Hl Hb) as (H4 & _). exact (inv4_archs_tabled _ _ H4). Qed.

Theorem inv4_reset_empty : forall s n, Inv4 s n -> is_locked s = false ->
  (* (C) *) (forall fi f, nth_error (w_filters s) fi = Some f -> f_cache f <> None ->
               exists addr e, In addr (w_centries s) /\ nth_error (w_cheap s) addr = Some e /\ ce_filter e = fi) ->
  (* (D) *) ObsProofs.MInv s ->
  exists s', w_reset s = Ok tt s' /\ St s' /\ (forall e, live s' e = false) /\
             pe (w_pool s') = [(0, max_u32); (1, max_u32)] /\ pavail (w_pool s') = 0 /\
             w_centries s' = [] /\ (forall f, In f (w_filters s') -> f_cache f = None) /\
             w_ototal s' = 0 /\ (forall evt, olist s' evt = [] \/ has_obs s' evt = false) /\
             is_locked s' = false /\ Forall (fun b => b = false) (w_res s') /\
             w_reg s' = w_reg s /\ w_cfg s' = w_cfg s /\ length (w_archs s') = length (w_archs s) /\
             (forall tid t, nth_error (w_tables s') tid = Some t -> t_len t = 0).
Proof.
  intros s n (((HS & _) & HL & _ & _) & HT) Hlk HC HM.
  apply (ResetShrinkProofs.reset_empty_partial_MInv s HS Hlk); [exact HT| |exact HC|exact HM].
  intros tid t Ht _. destruct (HL tid t Ht) as (a & Ha & Hin). exists (t_arch t), a. auto.
Qed.

(** ** Assumption audit *)
Definition sd_all := (inv4_archs_tabled, reachable_archs_tabled, inv4_reset_empty, tables_listed_all_listed, tables_listed_all_v, v_tables_listed_all,
  Inv3_init, Inv4_init, Inv5_init, step_inv3, step_inv4, reachable_inv3, reachable_inv4,
  step_inv3_ext, step_inv4_ext, step_inv5_ext, reachable_inv3_ext, reachable_inv4_ext, reachable_inv5_ext,
  preselection_same_archetypes, preselection_walk_all, preselection_complete, preselection_drain, preselection_count,
  rare_component_in, inv3_sizes_sum, inv3_live_seen_exactly_once, inv3_snapshot_is_content,
  inv3_batch_selection_exact, inv3_preselection_complete, inv4_batch_selection_exact,
  reachable_sizes_sum, reachable_live_seen_exactly_once, reachable_snapshot_is_content,
  reachable_batch_selection_exact, reachable_preselection_complete, reachable_queries_preselection_complete,
  step_cache_exact_ext, step_inv6_reg, reachable_inv6_reg, reachable_cache_exact, sd_world_inv5, sd_world_shape, sd_world_preselection, sd_world_selection).
Print Assumptions sd_all.
