(** * QueryExactIdx: the component index ([w_compindex], used by the rare-component preselection of
    typed queries) is EXACT in every state of the histories of Rel2HistQ (worlds WITH relation
    components; filters, registrations, queries, locked states). Helper prefix [qx_].

    [r2k_cidx_ok] (Rel2Cache) is added to the invariant: [Inv2QC s n := Inv2Q s n /\ r2k_cidx_ok s],
    [step_inv2QC], [reachable_inv2QC].

    Method. [r2k_cidx_ok s] speaks about EVERY component number [c], also those beyond the registry;
    for these it holds only because no archetype mask has such a bit (a clause of [WF]). Inside an
    operation [WF] is not available, so the clause tracked through the operations is the index
    restricted to registered components, [qx_CIw]; at operation boundaries the two agree
    ([qx_CIw_of_ok], [qx_ok_of_CIw]). [qx_CIw] is kept by a purely syntactic frame calculus
    ([qx_ckp], after [r2e_hkp] of Rel2Hist): the only writers of [w_archs] are [modA] with functions
    that keep [a_mask], and [create_archetype_bare], which appends the archetype AND enters it into
    the index of each of its (registered) components ([qx_ckp_create_archetype_bare], no hypothesis on
    the mask). Nothing else writes [w_compindex] or [w_reg].

    A second clause, [qx_FL], on the user-side filter objects and the filter cache is carried along; the
    end-to-end query theorem (QueryExact.v) needs it and neither [WF] nor [St2] provides it:
    every filter's mask is the mask of its id list (filters are built from ids), and the cache is LINKED:
    a filter object whose cache id is the id of a registered entry IS that entry's filter, with the same
    fixed relations (ids are never reused in this class: Unregister does not recycle them and only Reset
    resets the id pool), and every registered filter object HAS its entry ([qx_has]; this one needs the invariants
    at Register - the walk filling the new entry must not fail, [qx_walk_ok_inv] - so the three filter operations
    are treated by state-level lemmas [qx_keep_*], the other operations by the calculus, whose second component
    is simply the equality of the fields the clause reads, [qx_feq]).
    [Inv2QF s n := Inv2QC s n /\ qx_FL s], [step_inv2QF], [reachable_inv2QF]. *)
From Ark Require Import Model.Base Model.Mask Model.Pool Model.Util Model.World Model.Run.
From Ark Require Import Proofs.TableProofs Proofs.MaskProofs Proofs.Hoare Proofs.WF Proofs.StorageA Proofs.StorageBDefs
  Proofs.StorageB_sb1 Proofs.StorageB_sb2 Proofs.StorageB_sb3 Proofs.LockWorld Proofs.StorageC Proofs.RelProofs
  Proofs.CacheProofs Proofs.QueryProofs Proofs.ResetShrinkProofs
  Proofs.Rel2Defs Proofs.Rel2Struct Proofs.Rel2Remove Proofs.Rel2SetRel Proofs.Rel2Ops Proofs.Rel2Maint Proofs.Rel2Hist
  Proofs.Rel2Cache Proofs.Rel2HistQ.
From Ark Require Properties.Common Proofs.Rel2Check Proofs.StorageD.
From RecordUpdate Require Import RecordSet.
Import RecordSetNotations.
From Coq Require Import Lia.
Close Scope Z_scope.

(* ================================================================================================ *)
(** * Part 1: the index restricted to registered components *)

Definition qx_CIw (s : W) : Prop :=
  length (w_compindex s) = length (w_reg s) /\
  forall c, c < length (w_reg s) ->
    NoDup (nth c (w_compindex s) []) /\
    forall aid, In aid (nth c (w_compindex s) []) <->
                exists a, nth_error (w_archs s) aid = Some a /\ mk_get (a_mask a) c = true.

Lemma qx_CIw_of_ok : forall s, WF s -> r2k_cidx_ok s -> qx_CIw s.
Proof.
  intros s HW H. split; [apply (wf_index_lists s HW)|]. intros c _. apply (H c).
Qed.

Lemma qx_ok_of_CIw : forall s, WF s -> qx_CIw s -> r2k_cidx_ok s.
Proof.
  intros s HW (Hlen & H) c. destruct (Nat.lt_ge_cases c (length (w_reg s))) as [Hc|Hc]; [apply (H c Hc)|].
  rewrite (nth_overflow (w_compindex s) []) by lia. split; [constructor|]. intros aid. split; [intros []|].
  intros (a & Ha & Hm). destruct (wf_arch_comps s HW aid a Ha) as (_ & Hlt & _). apply Hlt in Hm. lia.
Qed.

(** ** The clause on filter objects and the filter cache *)

Definition qx_meta (e : centry) : nat * nat * list rel := (ce_id e, ce_filter e, ce_rels e).

Record qx_FL0 (s : W) : Prop := {
  fl_built : forall fi f, nth_error (w_filters s) fi = Some f -> f_mask f = mk_of_list (f_ids f);
  fl_nodup : NoDup (w_centries s);
  fl_valid : forall addr, In addr (w_centries s) -> addr < length (w_cheap s);
  fl_avail : iavail (w_cpool s) = 0;
  fl_fid : forall fi f cid, nth_error (w_filters s) fi = Some f -> f_cache f = Some cid -> cid < length (ip (w_cpool s));
  fl_eid : forall addr e, In addr (w_centries s) -> nth_error (w_cheap s) addr = Some e -> ce_id e < length (ip (w_cpool s));
  fl_link : forall addr e fi f, In addr (w_centries s) -> nth_error (w_cheap s) addr = Some e ->
      nth_error (w_filters s) fi = Some f -> f_cache f = Some (ce_id e) -> ce_filter e = fi /\ ce_rels e = f_rels f;
}.

(** Every registered filter object has its entry (false only in the window inside Register between the marking
    of the filter object and the creation of the entry, which a history never observes: the walk that fills the
    entry does not fail in a state satisfying the invariants). Needed for Reset: [cache_reset] clears the cache
    ids of the ENTRIES' filters and restarts the id pool. *)
Definition qx_has (s : W) : Prop :=
  forall fi f cid, nth_error (w_filters s) fi = Some f -> f_cache f = Some cid ->
    exists addr e, In addr (w_centries s) /\ nth_error (w_cheap s) addr = Some e /\ ce_id e = cid /\ ce_filter e = fi.

Definition qx_FL (s : W) : Prop := qx_FL0 s /\ qx_has s.

Lemma qx_meta_at : forall (l l' : list centry) addr e', map qx_meta l' = map qx_meta l -> nth_error l' addr = Some e' ->
  exists e, nth_error l addr = Some e /\ qx_meta e' = qx_meta e.
Proof.
  intros l l' addr e' Em He'. pose proof (f_equal (fun x => nth_error x addr) Em) as H. cbv beta in H.
  rewrite !nth_error_map, He' in H. destruct (nth_error l addr) as [e|]; [|discriminate]. cbn [option_map] in H.
  exists e. split; [reflexivity|congruence].
Qed.

(** the fields the clause reads *)
Definition qx_feq (s s' : W) : Prop :=
  w_filters s' = w_filters s /\ w_cpool s' = w_cpool s /\ w_centries s' = w_centries s /\
  map qx_meta (w_cheap s') = map qx_meta (w_cheap s).

Lemma qx_feq_refl : forall s, qx_feq s s.
Proof. intros s. repeat split; reflexivity. Qed.
Lemma qx_feq_trans : forall s1 s2 s3, qx_feq s1 s2 -> qx_feq s2 s3 -> qx_feq s1 s3.
Proof. intros s1 s2 s3 (A1 & A2 & A3 & A4) (B1 & B2 & B3 & B4). repeat split; congruence. Qed.
Lemma qx_feq_sym : forall s s', qx_feq s s' -> qx_feq s' s.
Proof. intros s s' (A1 & A2 & A3 & A4). repeat split; congruence. Qed.

Lemma qx_FL0_same : forall s s', qx_feq s s' -> qx_FL0 s -> qx_FL0 s'.
Proof.
  intros s s' (Ef & Ep & Ec & Em) H. destruct H as [B N V A I1 I2 L].
  assert (Hlen : length (w_cheap s') = length (w_cheap s)).
  { pose proof (f_equal (@length _) Em) as Hl. rewrite !map_length in Hl. exact Hl. }
  constructor; rewrite ?Ef, ?Ep, ?Ec, ?Hlen; try assumption.
  - intros addr e' Hin He'. destruct (qx_meta_at _ _ addr e' Em He') as (e & He & Hm). unfold qx_meta in Hm.
    injection Hm as M1 M2 M3. rewrite M1. apply (I2 addr e Hin He).
  - intros addr e' fi f Hin He' Hf Hc. destruct (qx_meta_at _ _ addr e' Em He') as (e & He & Hm). unfold qx_meta in Hm.
    injection Hm as M1 M2 M3. rewrite M1 in Hc. rewrite M2, M3. apply (L addr e fi f Hin He Hf Hc).
Qed.

Lemma qx_has_same : forall s s', qx_feq s s' -> qx_has s -> qx_has s'.
Proof.
  intros s s' HE H fi f cid Hf Hc. pose proof (qx_feq_sym s s' HE) as (Ef & Ep & Ec & Em). destruct HE as (Ef' & _ & Ec' & _).
  rewrite Ef' in Hf. destruct (H fi f cid Hf Hc) as (addr & e & Hin & He & Hid & Hfi).
  destruct (qx_meta_at _ _ addr e Em He) as (e' & He' & Hm). unfold qx_meta in Hm. injection Hm as M1 M2 M3.
  exists addr, e'. rewrite Ec'. repeat split; try assumption; congruence.
Qed.

Lemma qx_FL_same : forall s s', qx_feq s s' -> qx_FL s -> qx_FL s'.
Proof. intros s s' HE (H0 & H1). split; [apply (qx_FL0_same s s' HE H0)|apply (qx_has_same s s' HE H1)]. Qed.

(** ** The frame *)

Definition qx_ck (s s' : W) : Prop := (qx_CIw s -> qx_CIw s') /\ qx_feq s s'.

Lemma qx_ck_refl : forall s, qx_ck s s.
Proof. intros s. split; [intros H; exact H|apply qx_feq_refl]. Qed.
Lemma qx_ck_trans : forall s1 s2 s3, qx_ck s1 s2 -> qx_ck s2 s3 -> qx_ck s1 s3.
Proof. intros s1 s2 s3 (H1 & G1) (H2 & G2). split; [intros H; apply H2, H1, H|apply (qx_feq_trans s1 s2 s3 G1 G2)]. Qed.

Lemma qx_mask_at : forall (l : list arch) aid c,
  (exists a, nth_error l aid = Some a /\ mk_get (a_mask a) c = true) <->
  (exists m, nth_error (map a_mask l) aid = Some m /\ mk_get m c = true).
Proof.
  intros l aid c. rewrite nth_error_map. split.
  - intros (a & Ha & Hm). exists (a_mask a). rewrite Ha. split; [reflexivity|exact Hm].
  - intros (m & Hm & Hc). destruct (nth_error l aid) as [a|]; [|discriminate]. cbn in Hm. injection Hm as <-.
    exists a. split; [reflexivity|exact Hc].
Qed.

Lemma qx_CIw_same : forall s s', w_reg s' = w_reg s -> w_compindex s' = w_compindex s ->
  map a_mask (w_archs s') = map a_mask (w_archs s) -> qx_CIw s -> qx_CIw s'.
Proof.
  intros s s' Er Ec Em (Hlen & H). split; [rewrite Er, Ec; exact Hlen|]. intros c Hc. rewrite Er in Hc. rewrite Ec.
  destruct (H c Hc) as (Hnd & Hin). split; [exact Hnd|]. intros aid. rewrite Hin, !qx_mask_at, Em. tauto.
Qed.

(** Everything but [create_archetype_bare] and the filter operations: registry, index, the archetypes' masks,
    filter objects, id pool, entry list and the entries' id / filter / relations are kept. *)
Lemma qx_ck_same : forall s s', w_reg s' = w_reg s -> w_compindex s' = w_compindex s ->
  map a_mask (w_archs s') = map a_mask (w_archs s) ->
  w_filters s' = w_filters s -> w_cpool s' = w_cpool s -> w_centries s' = w_centries s ->
  map qx_meta (w_cheap s') = map qx_meta (w_cheap s) -> qx_ck s s'.
Proof.
  intros s s' E1 E2 E3 E4 E5 E6 E7. split; [apply qx_CIw_same; assumption|repeat split; assumption].
Qed.

(** what a frame step keeps *)
Definition qx_keep (s s' : W) : Prop := (qx_CIw s -> qx_CIw s') /\ (qx_FL s -> qx_FL s').

Lemma qx_keep_refl : forall s, qx_keep s s.
Proof. intros s. split; intros H; exact H. Qed.
Lemma qx_keep_trans : forall s1 s2 s3, qx_keep s1 s2 -> qx_keep s2 s3 -> qx_keep s1 s3.
Proof. intros s1 s2 s3 (H1 & G1) (H2 & G2). split; intros H; [apply H2, H1, H|apply G2, G1, H]. Qed.
Lemma qx_keep_of_ck : forall s s', qx_ck s s' -> qx_keep s s'.
Proof. intros s s' (H1 & H2). split; [exact H1|apply (qx_FL_same s s' H2)]. Qed.

Definition qx_ckp {A} (m : MW A) : Prop := r2e_pres qx_ck m.

Lemma qx_ckp_ro : forall A (m : MW A), readonly m -> qx_ckp m.
Proof. intros A m H. apply (r2e_pres_ro qx_ck qx_ck_refl). exact H. Qed.
Lemma qx_ckp_bind : forall A B (m : MW A) (k : A -> MW B), qx_ckp m -> (forall a, qx_ckp (k a)) -> qx_ckp (bind m k).
Proof. intros A B m k. apply (r2e_pres_bind qx_ck qx_ck_trans). Qed.
Lemma qx_ckp_forM : forall A (l : list A) (f : A -> MW unit), (forall a, qx_ckp (f a)) -> qx_ckp (forM_ l f).
Proof. intros A l f. apply (r2e_pres_forM qx_ck qx_ck_refl qx_ck_trans). Qed.
Lemma qx_ckp_whenM : forall b m, qx_ckp m -> qx_ckp (whenM b m).
Proof. intros b m. apply (r2e_pres_whenM qx_ck qx_ck_refl). Qed.
Lemma qx_ckp_getbind : forall A (k : W -> MW A), (forall s, qx_ck s (state_of (k s s))) -> qx_ckp (bind get k).
Proof. intros A k. apply (r2e_pres_getbind qx_ck). Qed.

Lemma qx_ckp_sp : forall A (m : MW A), sa_sp m -> qx_ckp m.
Proof.
  intros A m H s. destruct (H s) as (_ & E2 & _ & _ & _ & E6 & _ & _ & E9 & _ & _ & E12 & E13 & E14 & E15 & _).
  apply qx_ck_same; try assumption; [rewrite E6|rewrite E12]; reflexivity.
Qed.

Lemma qx_ckp_fr : forall A (m : MW A), q_fr m -> qx_ckp m.
Proof.
  intros A m H s. destruct (H s) as (_ & E2 & _ & _ & _ & E6 & _ & _ & E9 & _ & _ & E12 & E13 & E14 & E15 & _).
  apply qx_ck_same; try assumption; [rewrite E6|rewrite E12]; reflexivity.
Qed.

Lemma qx_ckp_modify_same : forall f : W -> W,
  (forall s, w_reg (f s) = w_reg s /\ w_compindex (f s) = w_compindex s /\ w_archs (f s) = w_archs s /\
             w_filters (f s) = w_filters s /\ w_cpool (f s) = w_cpool s /\ w_centries (f s) = w_centries s /\
             w_cheap (f s) = w_cheap s) -> qx_ckp (modify f).
Proof.
  intros f H s. unfold modify. cbn [state_of]. destruct (H s) as (E1 & E2 & E3 & E4 & E5 & E6 & E7).
  apply qx_ck_same; try assumption; [rewrite E3|rewrite E7]; reflexivity.
Qed.

Ltac qx_same_mod := apply qx_ckp_modify_same; intros ?; repeat split; reflexivity.

Lemma qx_ckp_modT : forall i f, qx_ckp (modT i f).
Proof. intros. unfold modT. qx_same_mod. Qed.
Lemma qx_ckp_setT : forall i t, qx_ckp (setT i t).
Proof. intros. apply qx_ckp_modT. Qed.

Lemma qx_ckp_modA : forall aid g, (forall a, a_mask (g a) = a_mask a) -> qx_ckp (modA aid g).
Proof.
  intros aid g Hg s. unfold modA, modify. cbn [state_of]. apply qx_ck_same; try reflexivity.
  cbn. apply StorageD.sd_map_updf. exact Hg.
Qed.

(** cache entries: only their table lists are ever rewritten by the core operations *)
Lemma qx_ckp_mod_entry : forall addr (g : centry -> centry), (forall e, qx_meta (g e) = qx_meta e) ->
  qx_ckp (modify (fun s => s <| w_cheap ::= updf addr g |>)).
Proof.
  intros addr g Hg s. unfold modify. cbn [state_of]. apply qx_ck_same; try reflexivity.
  cbn. apply StorageD.sd_map_updf. exact Hg.
Qed.

Lemma qx_fold_updf_length : forall (g : list nat -> list nat) comps (ci : list (list nat)),
  length (fold_left (fun ci c => updf c g ci) comps ci) = length ci.
Proof.
  intros g comps. induction comps as [|x l IH]; intros ci; [reflexivity|].
  cbn [fold_left]. rewrite IH. apply updf_length.
Qed.

(** The writer of the index: the new archetype is appended and entered under each of its registered
    components; masks and lists of the old archetypes are untouched. *)
Lemma qx_CIw_create_bare : forall m s, qx_CIw s -> qx_CIw (state_of (create_archetype_bare m s)).
Proof.
  intros m s (Hlen & H). unfold create_archetype_bare, bind, get, put, ret. cbn [state_of].
  match goal with |- context [RecordSet.set w_archs (fun l => l ++ [?a0])] => set (na := a0) end.
  assert (Hna : a_mask na = m) by reflexivity. clearbody na.
  split.
  - cbn. rewrite qx_fold_updf_length. exact Hlen.
  - intros c Hc.
    match goal with |- context [RecordSet.set w_relarchs ?F ?S0] =>
      change (w_compindex (RecordSet.set w_relarchs F S0)) with
        (fold_left (fun ci c => updf c (fun l => l ++ [length (w_archs s)]) ci) (mk_to_list m (length (w_reg s))) (w_compindex s));
      change (w_archs (RecordSet.set w_relarchs F S0)) with (w_archs s ++ [na]);
      change (w_reg (RecordSet.set w_relarchs F S0)) with (w_reg s) in Hc
    end.
    destruct (H c Hc) as (Hnd & Hin).
    rewrite r2k_nth_default, (r2k_fold_updf _ _ _ c (proj1 (mk_to_list_sorted m (length (w_reg s))))).
    rewrite r2k_nth_default in Hnd, Hin.
    assert (Hold : forall aid, (exists a0, nth_error (w_archs s) aid = Some a0 /\ mk_get (a_mask a0) c = true) -> aid < length (w_archs s)).
    { intros aid (a0 & Ha0 & _). apply (sa_nth_error_lt _ _ _ _ Ha0). }
    destruct (memb c (mk_to_list m (length (w_reg s)))) eqn:Emb.
    + apply sa_memb_in, mk_to_list_spec in Emb. destruct Emb as (_ & Hmc).
      destruct (nth_error (w_compindex s) c) as [l|] eqn:El; [|apply nth_error_None in El; lia]. cbn [option_map].
      split.
      * apply r2k_nodup_app; [exact Hnd|constructor; [intros []|constructor]|]. intros x Hx [<-|[]].
        apply Hin, Hold in Hx. lia.
      * intros aid. rewrite in_app_iff, Hin. split.
        -- intros [(a0 & Ha0 & Hc0)|[<-|[]]].
           ++ exists a0. split; [rewrite nth_error_app1 by (apply (sa_nth_error_lt _ _ _ _ Ha0)); exact Ha0|exact Hc0].
           ++ exists na. split; [rewrite nth_error_app2 by lia; rewrite Nat.sub_diag; reflexivity|]. rewrite Hna. exact Hmc.
        -- intros (a0 & Ha0 & Hc0). destruct (Nat.lt_ge_cases aid (length (w_archs s))) as [Hlt|Hge].
           ++ left. exists a0. split; [rewrite nth_error_app1 in Ha0 by exact Hlt; exact Ha0|exact Hc0].
           ++ right. left. pose proof (sa_nth_error_lt _ _ _ _ Ha0) as Hl. rewrite app_length in Hl. cbn [length] in Hl. lia.
    + assert (Hnm : mk_get m c = false).
      { destruct (mk_get m c) eqn:Eg; [|reflexivity]. exfalso.
        assert (Hi : In c (mk_to_list m (length (w_reg s)))) by (apply mk_to_list_spec; split; [exact Hc|exact Eg]).
        apply sa_memb_in in Hi. congruence. }
      split; [exact Hnd|]. intros aid. rewrite Hin. split.
      * intros (a0 & Ha0 & Hc0). exists a0. split; [rewrite nth_error_app1 by (apply (sa_nth_error_lt _ _ _ _ Ha0)); exact Ha0|exact Hc0].
      * intros (a0 & Ha0 & Hc0). destruct (Nat.lt_ge_cases aid (length (w_archs s))) as [Hlt|Hge].
        -- exists a0. split; [rewrite nth_error_app1 in Ha0 by exact Hlt; exact Ha0|exact Hc0].
        -- exfalso. rewrite nth_error_app2 in Ha0 by exact Hge. destruct (aid - length (w_archs s)) as [|k]; cbn in Ha0.
           ++ injection Ha0 as <-. rewrite Hna in Hc0. congruence.
           ++ destruct k; discriminate.
Qed.

Lemma qx_ckp_create_archetype_bare : forall m, qx_ckp (create_archetype_bare m).
Proof. intros m s. split; [apply qx_CIw_create_bare|repeat split; reflexivity]. Qed.

(* ================================================================================================ *)
(** * Part 2: the frame through the operations of the core class *)

Ltac qx_ck_step :=
  match goal with
  | |- qx_ckp (ret _) => apply qx_ckp_ro, readonly_ret
  | |- qx_ckp (fail _) => apply qx_ckp_ro, readonly_fail
  | |- qx_ckp get => apply qx_ckp_ro, readonly_get
  | |- qx_ckp (guard _ _) => apply qx_ckp_ro, readonly_guard
  | |- qx_ckp (of_opt _ _) => apply qx_ckp_ro, readonly_of_opt
  | |- qx_ckp (getT _) => apply qx_ckp_ro, readonly_getT
  | |- qx_ckp (getA _) => apply qx_ckp_ro, r2e_ro_getA
  | |- qx_ckp (getF _) => apply qx_ckp_ro, readonly_getF
  | |- qx_ckp (modT _ _) => apply qx_ckp_modT
  | |- qx_ckp (setT _ _) => apply qx_ckp_setT
  | |- qx_ckp (get_index _) => apply qx_ckp_ro, readonly_get_index
  | |- qx_ckp check_locked => apply qx_ckp_ro, sc_ro_check_locked
  | |- qx_ckp (arch_mask_of_table _) => apply qx_ckp_ro, sc_ro_arch_mask
  | |- qx_ckp (whenM _ _) => apply qx_ckp_whenM
  | |- qx_ckp (forM_ _ _) => apply qx_ckp_forM; intros ?
  | |- qx_ckp (bind _ _) => apply qx_ckp_bind; [|intros ?]
  | |- qx_ckp (let '(_, _) := ?x in _) => destruct x
  | |- qx_ckp (match ?x with _ => _ end) => destruct x
  | |- qx_ckp (if ?x then _ else _) => destruct x
  end.
Ltac qx_ck_tac := repeat qx_ck_step.

Lemma qx_ckp_tbl_addM : forall tid e, qx_ckp (tbl_addM tid e).
Proof. intros. unfold tbl_addM. qx_ck_tac. Qed.
Lemma qx_ckp_remove_row : forall tid row, qx_ckp (remove_row tid row).
Proof. intros. unfold remove_row. qx_ck_tac. all: try qx_same_mod. Qed.
Lemma qx_ckp_copy_row : forall old new m row nidx, qx_ckp (copy_row old new m row nidx).
Proof. intros. unfold copy_row. qx_ck_tac. Qed.
Lemma qx_ckp_copy_all : forall src dst row nidx, qx_ckp (copy_all src dst row nidx).
Proof. intros. unfold copy_all. qx_ck_tac. Qed.
Lemma qx_ckp_move_entities : forall src dst n, qx_ckp (move_entities src dst n).
Proof. intros. unfold move_entities. qx_ck_tac. all: try qx_same_mod. Qed.
Lemma qx_ckp_set_index : forall id v, qx_ckp (set_index id v).
Proof.
  intros id v. unfold set_index. apply qx_ckp_modify_same. intros s. destruct (Nat.eqb id (length (w_index s))); repeat split; reflexivity.
Qed.
Lemma qx_ckp_set_index_direct : forall e tid row, qx_ckp (set_index_direct e tid row).
Proof. intros. unfold set_index_direct. qx_same_mod. Qed.
Lemma qx_ckp_pool_getM : qx_ckp pool_getM.
Proof.
  intros s. unfold pool_getM, bind, get. destruct (pool_get (w_pool s)) as [e p']. unfold put, ret. cbn [state_of].
  apply qx_ck_same; reflexivity.
Qed.
Lemma qx_ckp_pool_recycleM : forall e, qx_ckp (pool_recycleM e).
Proof.
  intros e s. unfold pool_recycleM, bind, get. destruct (pool_recycle (w_pool s) e) as [p'|]; cbn [state_of put fail].
  - apply qx_ck_same; reflexivity.
  - apply qx_ck_refl.
Qed.
Lemma qx_ckp_register_targets : forall rels, qx_ckp (register_targets rels).
Proof. intros. unfold register_targets. qx_ck_tac. qx_same_mod. Qed.
Lemma qx_ckp_cache_add_table : forall tid t am, qx_ckp (cache_add_table tid t am).
Proof. intros. unfold cache_add_table. qx_ck_tac. apply qx_ckp_mod_entry. intros; reflexivity. Qed.
Lemma qx_ckp_cache_remove_table : forall tid, qx_ckp (cache_remove_table tid).
Proof. intros. unfold cache_remove_table. qx_ck_tac. apply qx_ckp_mod_entry. intros; reflexivity. Qed.

Lemma qx_mask_add_table : forall a tid t, a_mask (arch_add_table a tid t) = a_mask a.
Proof.
  intros. unfold arch_add_table. destruct (negb (arch_has_rels a)); [reflexivity|].
  destruct (r2_atc_fields tid (t_kinds t) (t_targets t) 0 (a <| a_tables ::= fun l => l ++ [tid] |>)) as (E & _).
  exact E.
Qed.
Lemma qx_mask_free_table : forall a tid, a_mask (arch_free_table a tid) = a_mask a.
Proof. intros. apply (r2_aft_fields a tid). Qed.
Lemma qx_mask_rft : forall tid kinds i targets a, a_mask (remove_from_targets_cols tid i kinds targets a) = a_mask a.
Proof.
  intros tid kinds. induction kinds as [|k ks IH]; intros i targets a; [reflexivity|].
  destruct targets as [|tg tgs]; [reflexivity|]. cbn [remove_from_targets_cols]. rewrite IH. destruct (ck_rel k); reflexivity.
Qed.

Lemma qx_ckp_create_table : forall aid rels, qx_ckp (create_table aid rels).
Proof.
  intros aid rels. unfold create_table. qx_ck_tac.
  all: try apply qx_ckp_register_targets; try apply qx_ckp_cache_add_table.
  all: try solve [apply qx_ckp_ro; unfold check_rel; ro].
  all: try (apply qx_ckp_modA; intros ?; first [reflexivity|apply qx_mask_add_table]).
  all: try qx_same_mod.
Qed.

Lemma qx_ckp_create_archetype : forall m, qx_ckp (create_archetype m).
Proof.
  intros m. unfold create_archetype. qx_ck_tac; try apply qx_ckp_create_archetype_bare; try apply qx_ckp_create_table.
Qed.

Lemma qx_ckp_find_or_create_arch : forall m, qx_ckp (find_or_create_arch m).
Proof.
  intros m. unfold find_or_create_arch. apply qx_ckp_getbind. intros s.
  destruct (find_arch s m); [apply qx_ck_refl|apply qx_ckp_create_archetype].
Qed.

Lemma qx_ckp_goc : forall aid rels, qx_ckp (get_or_create_table aid rels).
Proof.
  intros. unfold get_or_create_table. qx_ck_tac; [apply qx_ckp_ro, r2e_ro_arch_get_table|apply qx_ckp_create_table].
Qed.

Lemma qx_ckp_find_add : forall old add rels m0, qx_ckp (find_or_create_table_add old add rels m0).
Proof.
  intros. unfold find_or_create_table_add. qx_ck_tac; try apply qx_ckp_goc; try apply qx_ckp_find_or_create_arch.
  all: apply qx_ckp_ro, r2e_ro_gf_add.
Qed.
Lemma qx_ckp_find_remove : forall old rem m0, qx_ckp (find_or_create_table_remove old rem m0).
Proof.
  intros. unfold find_or_create_table_remove. qx_ck_tac; try apply qx_ckp_goc; try apply qx_ckp_find_or_create_arch.
  all: apply qx_ckp_ro, r2e_ro_gf_remove.
Qed.
Lemma qx_ckp_find_exchange : forall old add rem rels m0, qx_ckp (find_or_create_table old add rem rels m0).
Proof.
  intros. unfold find_or_create_table. qx_ck_tac; try apply qx_ckp_goc; try apply qx_ckp_find_or_create_arch.
  all: first [apply qx_ckp_ro, r2e_ro_gf_add|apply qx_ckp_ro, r2e_ro_gf_remove].
Qed.

Lemma qx_ckp_fire : forall evt early pred e eo, qx_ckp (fire evt early pred e eo).
Proof. intros. apply qx_ckp_sp, sa_sp_fire. Qed.
Lemma qx_ckp_fire_create : forall e m, qx_ckp (fire_create_entity_if_has e m).
Proof. intros e m. apply qx_ckp_sp. intros s. apply fire_create_entity_if_has_storage. Qed.
Lemma qx_ckp_fire_create_rel : forall e m, qx_ckp (fire_create_entity_rel_if_has e m).
Proof.
  intros e m. apply qx_ckp_sp. unfold fire_create_entity_rel_if_has, fire_create_entity_rel. sa_sp_tac; apply sa_sp_fire.
Qed.
Lemma qx_ckp_fire_add : forall evt e o n, qx_ckp (fire_add_if_has evt e o n).
Proof. intros evt e o n. apply qx_ckp_sp. intros s. apply fire_add_if_has_storage. Qed.
Lemma qx_ckp_fire_remove_events : forall e o n rr, qx_ckp (fire_remove_events e o n rr).
Proof. intros e o n rr. apply qx_ckp_sp. intros s. apply fire_remove_events_storage. Qed.

Lemma qx_ckp_new_entity : forall ids rels, qx_ckp (new_entity ids rels).
Proof.
  intros. unfold new_entity. qx_ck_tac.
  all: first [apply qx_ckp_find_add|apply qx_ckp_pool_getM|apply qx_ckp_tbl_addM|apply qx_ckp_set_index|apply qx_ckp_register_targets].
Qed.
Lemma qx_ckp_create_entity : forall tid, qx_ckp (create_entity tid).
Proof.
  intros. unfold create_entity. qx_ck_tac.
  all: first [apply qx_ckp_pool_getM|apply qx_ckp_tbl_addM|apply qx_ckp_set_index|qx_same_mod].
Qed.
Lemma qx_ckp_copy_entity : forall e, qx_ckp (w_copy_entity e).
Proof.
  intros. unfold w_copy_entity. qx_ck_tac.
  all: first [apply qx_ckp_pool_getM|apply qx_ckp_tbl_addM|apply qx_ckp_set_index|apply qx_ckp_copy_all
             |apply qx_ckp_fire_create|apply qx_ckp_fire_create_rel].
Qed.
Lemma qx_ckp_w_add : forall e add rels, qx_ckp (w_add e add rels).
Proof.
  intros. unfold w_add. qx_ck_tac.
  all: first [apply qx_ckp_find_add|apply qx_ckp_tbl_addM|apply qx_ckp_copy_row|apply qx_ckp_remove_row
             |apply qx_ckp_set_index_direct|apply qx_ckp_register_targets].
Qed.
Lemma qx_ckp_w_remove : forall e rem, qx_ckp (w_remove e rem).
Proof.
  intros. unfold w_remove. qx_ck_tac.
  all: first [apply qx_ckp_find_remove|apply qx_ckp_tbl_addM|apply qx_ckp_copy_row|apply qx_ckp_remove_row
             |apply qx_ckp_set_index_direct|apply qx_ckp_fire_remove_events].
Qed.
Lemma qx_ckp_w_exchange : forall e add rem rels, qx_ckp (w_exchange e add rem rels).
Proof.
  intros. unfold w_exchange. qx_ck_tac.
  all: first [apply qx_ckp_find_exchange|apply qx_ckp_tbl_addM|apply qx_ckp_copy_row|apply qx_ckp_remove_row
             |apply qx_ckp_set_index_direct|apply qx_ckp_register_targets|apply qx_ckp_fire_remove_events].
Qed.
Lemma qx_ckp_w_set_relations : forall e rels, qx_ckp (w_set_relations e rels).
Proof.
  intros e rels. unfold w_set_relations, fire_set. qx_ck_tac.
  all: first [apply qx_ckp_ro, r2e_ro_exchange_targets|apply qx_ckp_goc|apply qx_ckp_tbl_addM|apply qx_ckp_copy_all
             |apply qx_ckp_remove_row|apply qx_ckp_set_index_direct|apply qx_ckp_register_targets|apply qx_ckp_fire
             |apply qx_ckp_sp, sa_sp_lockM|apply qx_ckp_sp, sa_sp_unlockM].
Qed.

Lemma qx_ckp_free_table : forall aid tid, qx_ckp (free_table aid tid).
Proof.
  intros. unfold free_table. qx_ck_tac. apply qx_ckp_modA; intros; apply qx_mask_free_table.
Qed.

Lemma qx_ckp_cleanup : forall e, qx_ckp (cleanup_archetypes e).
Proof.
  intros e. unfold cleanup_archetypes. qx_ck_tac.
  all: first [apply qx_ckp_ro, r2e_ro_etu|apply qx_ckp_goc|apply qx_ckp_move_entities|apply qx_ckp_free_table
             |apply qx_ckp_cache_remove_table|apply qx_ckp_modA; intros; reflexivity].
Qed.

Lemma qx_ckp_remove_entity : forall e, qx_ckp (storage_remove_entity e).
Proof.
  intros e. unfold storage_remove_entity, fire_remove_entity, fire_remove_entity_rel. qx_ck_tac.
  all: first [apply qx_ckp_sp, sa_sp_lockM|apply qx_ckp_sp, sa_sp_unlockM|apply qx_ckp_fire
             |apply qx_ckp_pool_recycleM|apply qx_ckp_cleanup|qx_same_mod].
Qed.

Lemma qx_ckp_any1 : forall idx any t s0, qx_ckp (ResetShrinkProofs.r_any1 idx any t s0).
Proof.
  intros. unfold ResetShrinkProofs.r_any1. qx_ck_tac.
  all: first [apply qx_ckp_free_table|apply qx_ckp_cache_remove_table|apply qx_ckp_modA; intros; apply qx_mask_rft].
Qed.

Lemma qx_ckp_go_clock : forall clock fuel idx any, qx_ckp (ResetShrinkProofs.r_go_clock clock fuel idx any).
Proof.
  intros clock fuel. induction fuel as [|f IH]; intros idx any; cbn [ResetShrinkProofs.r_go_clock]; [apply qx_ckp_ro, readonly_ret|].
  apply qx_ckp_bind; [apply qx_ckp_ro, readonly_getT|]. intros t.
  apply qx_ckp_getbind. intros s.
  assert (X : qx_ckp (any1 <- ResetShrinkProofs.r_any1 idx any t s;;
    (if (any1 && clock idx)%bool then ret (idx, any1) else match f with 0 => ret (idx, any1) | S _ => ResetShrinkProofs.r_go_clock clock f (S idx) any1 end))).
  { apply qx_ckp_bind; [apply qx_ckp_any1|]. intros any1.
    destruct (any1 && clock idx)%bool; [apply qx_ckp_ro, readonly_ret|]. destruct f; [apply qx_ckp_ro, readonly_ret|apply IH]. }
  apply X.
Qed.

Lemma qx_ckp_shrink_clock : forall clock, qx_ckp (w_shrink_clock clock).
Proof.
  intros clock s. rewrite ResetShrinkProofs.r_shrink_eq_clock. pose proof (qx_ckp_go_clock clock (length (w_tables s)) 0 false s) as H.
  destruct (ResetShrinkProofs.r_go_clock clock (length (w_tables s)) 0 false s); exact H.
Qed.

Lemma qx_ckp_shrink : forall stop0, qx_ckp (w_shrink stop0).
Proof.
  intros stop0. unfold w_shrink, w_shrink_core. apply qx_ckp_bind; [apply qx_ckp_ro, sc_ro_check_locked|]. intros _.
  apply qx_ckp_shrink_clock.
Qed.

Lemma qx_ckp_write_cell : forall tid ci row v, qx_ckp (write_cell tid ci row v).
Proof. intros. unfold write_cell. qx_ck_tac. Qed.

(** One operation of the core class keeps the frame, whatever its outcome. *)
Theorem qx_ckp_step_op : forall debug o, rel_core_op o = true -> qx_ckp (step_op debug o).
Proof.
  intros debug o Hc. destruct o; cbn [rel_core_op] in Hc; try discriminate Hc; cbn [step_op]; qx_ck_tac.
  all: first [apply qx_ckp_ro, readonly_resolveH|apply qx_ckp_ro, readonly_resolveR|apply qx_ckp_ro, sc_ro_cell_of
             |apply qx_ckp_create_entity|apply qx_ckp_new_entity|apply qx_ckp_copy_entity
             |apply qx_ckp_w_add|apply qx_ckp_w_remove|apply qx_ckp_w_exchange|apply qx_ckp_w_set_relations
             |apply qx_ckp_remove_entity|apply qx_ckp_shrink|apply qx_ckp_write_cell
             |apply qx_ckp_fire_create|apply qx_ckp_fire_create_rel|apply qx_ckp_fire_add|idtac].
Qed.

(** ** The three filter operations (they write the filter objects and the cache: state-level lemmas) *)

Lemma qx_nth_updf_cache : forall (F : list fobj) fi c i f', nth_error (updf fi (fun f0 => f0 <| f_cache := c |>) F) i = Some f' ->
  exists f, nth_error F i = Some f /\ f_ids f' = f_ids f /\ f_mask f' = f_mask f /\ f_rels f' = f_rels f /\
            ((i <> fi /\ f_cache f' = f_cache f) \/ (i = fi /\ f_cache f' = c)).
Proof.
  intros F fi c i f' H. rewrite nth_error_updf in H. destruct (Nat.eqb_spec fi i) as [<-|Hne].
  - destruct (nth_error F fi) as [f|]; [|discriminate]. cbn in H. injection H as <-. exists f.
    repeat split; try reflexivity. right. split; reflexivity.
  - exists f'. repeat split; try reflexivity; [exact H|left; split; [congruence|reflexivity]].
Qed.

Definition qx_kpp {A} (m : MW A) : Prop := r2e_pres qx_keep m.
Lemma qx_kpp_ck : forall A (m : MW A), qx_ckp m -> qx_kpp m.
Proof. intros A m H s. apply qx_keep_of_ck. apply H. Qed.
Lemma qx_kpp_bind : forall A B (m : MW A) (k : A -> MW B), qx_kpp m -> (forall a, qx_kpp (k a)) -> qx_kpp (bind m k).
Proof. intros A B m k. apply (r2e_pres_bind qx_keep qx_keep_trans). Qed.

(** Filter creation: the new object is built from its id list and is not registered. *)
Lemma qx_kpp_new_filter : forall f, f_mask f = mk_of_list (f_ids f) -> f_cache f = None ->
  qx_kpp (modify (fun s => s <| w_filters ::= fun l => l ++ [f] |>)).
Proof.
  intros f Hm Hc s. unfold modify. cbn [state_of]. split; [apply qx_CIw_same; reflexivity|].
  intros ([B N V A I1 I2 L] & HX). split.
  - constructor; cbn; try assumption.
    + intros fi f0 Hf0. apply sa_nth_error_snoc in Hf0. destruct Hf0 as [(_ & Hf0)|(_ & ->)]; [apply (B fi f0 Hf0)|exact Hm].
    + intros fi f0 cid Hf0 Hc0. apply sa_nth_error_snoc in Hf0. destruct Hf0 as [(_ & Hf0)|(_ & ->)]; [apply (I1 fi f0 cid Hf0 Hc0)|congruence].
    + intros addr e fi f0 Hin He Hf0 Hc0. apply sa_nth_error_snoc in Hf0. destruct Hf0 as [(_ & Hf0)|(_ & ->)]; [apply (L addr e fi f0 Hin He Hf0 Hc0)|congruence].
  - intros fi f0 cid Hf0 Hc0. cbn in Hf0. apply sa_nth_error_snoc in Hf0. destruct Hf0 as [(_ & Hf0)|(_ & ->)]; [|congruence].
    apply (HX fi f0 cid Hf0 Hc0).
Qed.

Lemma qx_keep_OFilterNew : forall debug u ids wo ex hrels, qx_kpp (step_op debug (OFilterNew u ids wo ex hrels)).
Proof.
  intros. cbn [step_op].
  apply qx_kpp_bind; [apply qx_kpp_ck, qx_ckp_ro, readonly_resolveR|]. intros rels.
  apply qx_kpp_bind; [apply qx_kpp_ck, qx_ckp_ro, readonly_get|]. intros s0.
  apply qx_kpp_bind; [apply qx_kpp_ck, qx_ckp_whenM, qx_ckp_ro, readonly_to_relations|]. intros _.
  apply qx_kpp_bind; [apply qx_kpp_new_filter; reflexivity|]. intros _. apply qx_kpp_ck, qx_ckp_ro, readonly_ret.
Qed.

(** Register, first half: a fresh id is taken and written into the filter object. *)
Lemma qx_FL_mark : forall s fi f id p', qx_FL0 s -> nth_error (w_filters s) fi = Some f -> f_cache f = None ->
  ipool_get None (w_cpool s) = Some (id, p') ->
  id = length (ip (w_cpool s)) /\
  qx_FL0 (s <| w_cpool := p' |> <| w_filters ::= updf fi (fun f0 => f0 <| f_cache := Some id |>) |>).
Proof.
  intros s fi f id p' [B N V A I1 I2 L] Hf Hc Hg. unfold ipool_get in Hg. rewrite A in Hg. cbn in Hg.
  injection Hg as <- <-. split; [reflexivity|]. constructor; cbn; try assumption; try reflexivity.
  - intros i f' Hf'. destruct (qx_nth_updf_cache _ _ _ _ _ Hf') as (f0 & Hf0 & E1 & E2 & _). rewrite E1, E2. apply (B i f0 Hf0).
  - intros i f' cid Hf' Hc'. rewrite app_length. cbn [length].
    destruct (qx_nth_updf_cache _ _ _ _ _ Hf') as (f0 & Hf0 & _ & _ & _ & [(_ & E)|(_ & E)]).
    + rewrite E in Hc'. pose proof (I1 i f0 cid Hf0 Hc'). lia.
    + rewrite E in Hc'. injection Hc' as <-. lia.
  - intros addr e Hin He. rewrite app_length. cbn [length]. pose proof (I2 addr e Hin He). lia.
  - intros addr e i f' Hin He Hf' Hc'.
    destruct (qx_nth_updf_cache _ _ _ _ _ Hf') as (f0 & Hf0 & _ & _ & E3 & [(_ & E)|(_ & E)]).
    + rewrite E in Hc'. rewrite E3. apply (L addr e i f0 Hin He Hf0 Hc').
    + rewrite E in Hc'. injection Hc' as Hid. pose proof (I2 addr e Hin He). lia.
Qed.

(** Register, second half: the entry is appended under the fresh id. *)
Lemma qx_FL_entry : forall s fi f0 rels id tabs, qx_FL0 s -> nth_error (w_filters s) fi = Some f0 -> f_rels f0 = rels ->
  id < length (ip (w_cpool s)) ->
  (forall addr e, In addr (w_centries s) -> nth_error (w_cheap s) addr = Some e -> ce_id e <> id) ->
  (forall i f', nth_error (w_filters s) i = Some f' -> f_cache f' = Some id -> i = fi) ->
  qx_FL0 (s <| w_centries ::= fun l => l ++ [length (w_cheap s)] |>
            <| w_cheap ::= fun h => h ++ [{| ce_id := id; ce_filter := fi; ce_rels := rels; ce_tables := tabs |}] |>).
Proof.
  intros s fi f0 rels id tabs [B N V A I1 I2 L] Hf Hrels Hid Hfresh Honly. constructor; cbn; try assumption.
  - apply StorageD.sd_NoDup_snoc; [exact N|]. intros Hin. apply V in Hin. lia.
  - intros addr Hin. rewrite app_length. cbn [length]. apply in_app_or in Hin. destruct Hin as [Hin|[<-|[]]]; [apply V in Hin|]; lia.
  - intros addr e Hin He. apply in_app_or in Hin. destruct Hin as [Hin|[<-|[]]].
    + rewrite nth_error_app1 in He by (apply V; exact Hin). apply (I2 addr e Hin He).
    + rewrite nth_error_app2, Nat.sub_diag in He by lia. cbn in He. injection He as <-. cbn. exact Hid.
  - intros addr e i f' Hin He Hf' Hc'. apply in_app_or in Hin. destruct Hin as [Hin|[<-|[]]].
    + rewrite nth_error_app1 in He by (apply V; exact Hin). apply (L addr e i f' Hin He Hf' Hc').
    + rewrite nth_error_app2, Nat.sub_diag in He by lia. cbn in He. injection He as <-. cbn in Hc' |- *.
      pose proof (Honly i f' Hf' Hc') as ->. rewrite Hf in Hf'. injection Hf' as <-. split; [reflexivity|symmetry; exact Hrels].
Qed.

(** "The walk that fills a new cache entry succeeds" - a consequence of the invariants ([qx_walk_ok_inv]). *)
Definition qx_walk_ok (s : W) : Prop :=
  forall fi f, nth_error (w_filters s) fi = Some f -> exists tabs, uncached_tables f (f_rels f) s = Ok tabs s.

Lemma qx_walk_ok_inv : forall s, St2 s -> archs_tabled_norel s -> r2q_filters_ok s -> qx_walk_ok s.
Proof.
  intros s HS HT HF fi f Hf. apply (r2k_uncached_ok s f (f_rels f) HS (HF fi f Hf)).
  intros aid a Ha _ Hn. apply (HT aid a Ha Hn).
Qed.

Lemma qx_keep_register : forall fi s, qx_walk_ok s -> qx_keep s (state_of (filter_register fi s)).
Proof.
  intros fi s Hwalk. split.
  { destruct (StorageD.sd_register_shape fi s) as [E|(f & id & p' & _ & [E|(tabs & _ & E)])]; rewrite E; clear E;
      [intros H; exact H|apply qx_CIw_same; reflexivity|apply qx_CIw_same; reflexivity]. }
  intros (HF & HX). unfold filter_register.
  destruct (nth_error (w_filters s) fi) as [f|] eqn:Hf.
  2:{ assert (EF : getF fi s = Err EIndex s) by (unfold getF, bind, get, of_opt; rewrite Hf; reflexivity).
      rewrite (sa_bind_err EF). split; assumption. }
  assert (EF : getF fi s = Ok f s) by (unfold getF, bind, get, of_opt; rewrite Hf; reflexivity).
  rewrite (sa_bind_ok EF). destruct (f_cache f) as [cid|] eqn:Hc; cbn [guard]; [split; assumption|].
  rewrite (sa_bind_ok (m := ret tt) (s := s) eq_refl).
  rewrite (sa_bind_ok (m := get) (s := s) eq_refl).
  destruct (ipool_get None (w_cpool s)) as [[id p']|] eqn:Eg; [|split; assumption].
  destruct (qx_FL_mark s fi f id p' HF Hf Hc Eg) as (Eid & HF2).
  rewrite (sa_bind_ok (m := put _) (s := s) eq_refl).
  set (s1 := s <| w_cpool := p' |>).
  rewrite (sa_bind_ok (m := modify _) (s := s1) eq_refl).
  set (s2 := s1 <| w_filters ::= updf fi (fun f0 => f0 <| f_cache := Some id |>) |>). fold s1 in HF2. fold s2 in HF2.
  destruct (Hwalk fi f Hf) as (tabs & EU0).
  assert (EU : uncached_tables f (f_rels f) s2 = Ok tabs s2).
  { rewrite k_uncached_pure in EU0 |- *. change (w_tables s2) with (w_tables s). change (w_archs s2) with (w_archs s).
    destruct (k_upure (w_tables s) f (f_rels f) (w_archs s) []); cbn [k_inj] in EU0 |- *; [discriminate|].
    injection EU0 as ->. reflexivity. }
  rewrite (sa_bind_ok EU). unfold modify. cbn [state_of].
  assert (Hp' : length (ip p') = S (length (ip (w_cpool s)))).
  { destruct HF as [_ _ _ A _ _ _]. unfold ipool_get in Eg. rewrite A in Eg. cbn in Eg. injection Eg as _ <-. cbn.
    rewrite app_length. cbn. lia. }
  split.
  - apply (qx_FL_entry s2 fi (f <| f_cache := Some id |>) (f_rels f) id tabs HF2).
    + cbn. rewrite nth_error_updf, Nat.eqb_refl, Hf. reflexivity.
    + reflexivity.
    + cbn. rewrite Hp'. lia.
    + intros addr e Hin He. cbn in Hin, He. destruct HF as [_ _ _ _ _ I2 _]. pose proof (I2 addr e Hin He). lia.
    + intros i f' Hf' Hc'. cbn in Hf'.
      destruct (qx_nth_updf_cache _ _ _ _ _ Hf') as (f0 & Hf0 & _ & _ & _ & [(_ & E)|(Ei & _)]); [|exact Ei].
      rewrite E in Hc'. destruct HF as [_ _ _ _ I1 _ _]. pose proof (I1 i f0 id Hf0 Hc'). lia.
  - (* every registered filter has its entry: the new one at the end, the others where they were *)
    intros i f' cid' Hf' Hc'. cbn in Hf'. cbn [w_centries w_cheap].
    destruct (qx_nth_updf_cache _ _ _ _ _ Hf') as (f0 & Hf0 & _ & _ & _ & [(Hne & E)|(Ei & E)]).
    + rewrite E in Hc'. destruct (HX i f0 cid' Hf0 Hc') as (addr & e & Hin & He & Hid & Hfi).
      exists addr, e. cbn. split; [apply in_or_app; left; exact Hin|]. split; [|split; assumption].
      rewrite nth_error_app1; [exact He|]. destruct HF as [_ _ V _ _ _ _]. apply V. exact Hin.
    + rewrite E in Hc'. injection Hc' as <-. subst i. eexists. eexists. cbn.
      split; [apply in_or_app; right; left; reflexivity|]. split; [apply sa_nth_error_snoc_new|]. split; reflexivity.
Qed.

Lemma qx_pos_go_spec : forall h cid l i idx, k_pos_go h cid l i = Some idx ->
  exists addr e, nth_error l (idx - i) = Some addr /\ nth_error h addr = Some e /\ ce_id e = cid.
Proof.
  intros h cid l. induction l as [|addr t IH]; intros i idx H; [discriminate|].
  pose proof (k_pos_go_bound h cid _ i idx H) as Hb. cbn [k_pos_go] in H.
  assert (Hrec : k_pos_go h cid t (S i) = Some idx ->
            exists addr0 e, nth_error (addr :: t) (idx - i) = Some addr0 /\ nth_error h addr0 = Some e /\ ce_id e = cid).
  { intros H'. pose proof (k_pos_go_bound h cid _ _ idx H') as Hb'. destruct (IH (S i) idx H') as (a0 & e & H1 & H2 & H3).
    exists a0, e. replace (idx - i) with (S (idx - S i)) by lia. cbn. repeat split; assumption. }
  destruct (nth_error h addr) as [e|] eqn:Ee; [|apply Hrec; exact H].
  destruct (Nat.eqb (ce_id e) cid) eqn:Eq; [|apply Hrec; exact H].
  injection H as <-. rewrite Nat.sub_diag. exists addr, e. apply Nat.eqb_eq in Eq. repeat split; assumption.
Qed.

(** Unregister, with the entry that is removed: the FIRST entry carrying the filter's cache id. *)
Lemma qx_unregister_shape : forall fi s,
  state_of (filter_unregister fi s) = s \/
  exists f cid idx addr e, nth_error (w_filters s) fi = Some f /\ f_cache f = Some cid /\
    nth_error (w_centries s) idx = Some addr /\ nth_error (w_cheap s) addr = Some e /\ ce_id e = cid /\
    state_of (filter_unregister fi s) =
      s <| w_filters ::= updf fi (fun f => f <| f_cache := None |>) |>
        <| w_centries := StorageD.sd_swap_removed idx (w_centries s) |>.
Proof.
  intros fi s. unfold filter_unregister.
  destruct (nth_error (w_filters s) fi) as [f|] eqn:Hf.
  2:{ left. assert (EF : getF fi s = Err EIndex s) by (unfold getF, bind, get, of_opt; rewrite Hf; reflexivity).
      rewrite (sa_bind_err EF). reflexivity. }
  assert (EF : getF fi s = Ok f s) by (unfold getF, bind, get, of_opt; rewrite Hf; reflexivity).
  rewrite (sa_bind_ok EF). destruct (f_cache f) as [cid|] eqn:Hc; [|left; reflexivity].
  rewrite (sa_bind_ok (m := get) (s := s) eq_refl).
  fold (k_pos_go (w_cheap s) cid).
  destruct (k_pos_go (w_cheap s) cid (w_centries s) 0) as [idx|] eqn:EP; cbn [of_opt]; [|left; reflexivity].
  rewrite (sa_bind_ok (m := ret idx) (s := s) eq_refl).
  destruct (qx_pos_go_spec _ _ _ _ _ EP) as (addr & e & H1 & H2 & H3). rewrite Nat.sub_0_r in H1.
  right. exists f, cid, idx, addr, e. repeat (split; [first [assumption|reflexivity]|]).
  rewrite (sa_bind_ok (m := modify _) (s := s) eq_refl). reflexivity.
Qed.

Lemma qx_keep_unregister : forall fi s, qx_keep s (state_of (filter_unregister fi s)).
Proof.
  intros fi s. destruct (qx_unregister_shape fi s) as [E|(f & cid & idx & addr0 & e0 & Hf & Hc & Hidx & He0 & Hid0 & E)];
    rewrite E; clear E; [apply qx_keep_refl|].
  split; [apply qx_CIw_same; reflexivity|]. intros ([B N V A I1 I2 L] & HX).
  assert (Hlt : idx < length (w_centries s)) by (eapply sa_nth_error_lt; exact Hidx).
  destruct (StorageD.sd_swap_removed_spec idx (w_centries s) N Hlt) as (N' & Sub).
  assert (Hkeep : forall x, In x (w_centries s) -> x <> addr0 -> In x (StorageD.sd_swap_removed idx (w_centries s))).
  { intros x Hx Hne. pose proof (tids_remove_spec addr0 (w_centries s) N) as (_ & H2). unfold tids_remove in H2.
    rewrite (StorageD.sd_index_of_nth _ idx addr0 N Hidx) in H2. apply H2. split; assumption. }
  assert (Hin0 : In addr0 (w_centries s)) by (eapply nth_error_In; exact Hidx).
  split.
  - constructor; cbn; try assumption.
    + intros i f' Hf'. destruct (qx_nth_updf_cache _ _ _ _ _ Hf') as (f0 & Hf0 & E1 & E2 & _). rewrite E1, E2. apply (B i f0 Hf0).
    + intros addr Hin. apply V, Sub, Hin.
    + intros i f' cid' Hf' Hc'. destruct (qx_nth_updf_cache _ _ _ _ _ Hf') as (f0 & Hf0 & _ & _ & _ & [(_ & E)|(_ & E)]).
      * rewrite E in Hc'. apply (I1 i f0 cid' Hf0 Hc').
      * rewrite E in Hc'. discriminate.
    + intros addr e Hin He. apply (I2 addr e (Sub addr Hin) He).
    + intros addr e i f' Hin He Hf' Hc'. destruct (qx_nth_updf_cache _ _ _ _ _ Hf') as (f0 & Hf0 & _ & _ & E3 & [(_ & E)|(_ & E)]).
      * rewrite E in Hc'. rewrite E3. apply (L addr e i f0 (Sub addr Hin) He Hf0 Hc').
      * rewrite E in Hc'. discriminate.
  - intros i f' cid' Hf' Hc'. cbn in Hf'. cbn [w_centries w_cheap].
    destruct (qx_nth_updf_cache _ _ _ _ _ Hf') as (f0 & Hf0 & _ & _ & _ & [(Hne & E)|(Ei & E)]); [|rewrite E in Hc'; discriminate].
    rewrite E in Hc'. destruct (HX i f0 cid' Hf0 Hc') as (addr & e & Hin & He & Hid & Hfi).
    exists addr, e. cbn. split; [|repeat split; assumption]. apply Hkeep; [exact Hin|].
    intros ->. rewrite He0 in He. injection He as <-.
    (* the removed entry is the entry of filter [fi]; is [i] that filter? then its cache id was just cleared *)
    assert (Hc0 : f_cache f = Some (ce_id e0)) by (rewrite Hid0; exact Hc).
    destruct (L addr0 e0 fi f Hin0 He0 Hf Hc0) as (Efi & _). rewrite Hfi in Efi. apply Hne. exact Efi.
Qed.

Theorem qx_keep_new_op : forall debug o s, r2q_new_op o = true -> qx_walk_ok s -> qx_keep s (state_of (step_op debug o s)).
Proof.
  intros debug o s Hn Hwalk. destruct (r2q_query_op o) eqn:Hq.
  - apply qx_keep_of_ck. apply (qx_ckp_fr _ _ (r2q_fr_step_op debug o Hq) s).
  - destruct o; try discriminate Hn; try discriminate Hq.
    + apply (qx_keep_OFilterNew debug _ _ _ _ _ s).
    + cbn [step_op]. rewrite r2q_state_bind_ret. apply (qx_keep_register f s Hwalk).
    + cbn [step_op]. rewrite r2q_state_bind_ret. apply (qx_keep_unregister f s).
Qed.

(* ================================================================================================ *)
(** * Part 3: one step, all histories *)

Definition Inv2QC (s : W) (n : nat) : Prop := Inv2Q s n /\ r2k_cidx_ok s.
Definition Inv2QF (s : W) (n : nat) : Prop := Inv2QC s n /\ qx_FL s.

Lemma qx_keep_ext : forall s s1 s1', qx_keep s s1 -> w_reg s1' = w_reg s1 -> w_compindex s1' = w_compindex s1 ->
  w_archs s1' = w_archs s1 -> w_filters s1' = w_filters s1 -> w_cpool s1' = w_cpool s1 -> w_centries s1' = w_centries s1 ->
  w_cheap s1' = w_cheap s1 -> qx_keep s s1'.
Proof.
  intros s s1 s1' H E1 E2 E3 E4 E5 E6 E7. apply (qx_keep_trans s s1 s1' H). apply qx_keep_of_ck.
  apply qx_ck_same; try assumption; [rewrite E3|rewrite E7]; reflexivity.
Qed.

Lemma qx_walk_ok_log : forall (s : W) l, qx_walk_ok s -> qx_walk_ok (s <| w_log := l |>).
Proof.
  intros s l H fi f Hf. destruct (H fi f Hf) as (tabs & E). exists tabs.
  rewrite k_uncached_pure in E |- *. cbn. destruct (k_upure (w_tables s) f (f_rels f) (w_archs s) []); cbn [k_inj] in E |- *; [discriminate|].
  injection E as ->. reflexivity.
Qed.

(** The two clauses across one step of a decoded line of the class (both outcomes). *)
Lemma qx_step_keep : forall debug wd s line o, decode_op line = Some o -> rel_q_op o = true -> qx_walk_ok s ->
  qx_keep s (fst (step debug wd s line)).
Proof.
  intros debug wd s line o Hd Hop Hwalk. set (s0 := s <| w_log := [] |>).
  assert (H0 : qx_keep s s0) by (apply qx_keep_of_ck, qx_ck_same; reflexivity).
  apply (qx_keep_trans s s0 _ H0). unfold rel_q_op in Hop. destruct (rel_core_op o) eqn:Hc.
  - rewrite (r2e_step_state debug wd s line o Hd Hc). fold s0.
    pose proof (qx_keep_of_ck _ _ (qx_ckp_step_op debug o Hc s0)) as H1.
    apply (qx_keep_ext s0 _ _ H1).
    all: unfold sc_issue; destruct (step_op debug o s0) as [[|i [|g rest]] s1|er s1]; try reflexivity; destruct (returns_entity o); reflexivity.
  - cbn [orb] in Hop. rewrite (r2q_step_state_new debug wd s line o Hd Hop). fold s0.
    pose proof (qx_keep_new_op debug o s0 Hop (qx_walk_ok_log s [] Hwalk)) as H1.
    apply (qx_keep_ext s0 _ _ H1); reflexivity.
Qed.

Theorem step_inv2QC : forall debug wd s n line o,
  Inv2QC s n -> n + 4 < Nat.pow 2 31 -> decode_op line = Some o -> rel_q_op o = true ->
  (forall c, In c (rel_op_ids o) -> c < length (w_reg s)) -> rel_q_flt_ok (w_reg s) o ->
  let s' := fst (step debug wd s line) in
  Inv2QC s' (S n) /\ w_reg s' = w_reg s /\
  (w_issued s' = w_issued s \/ exists e, w_issued s' = w_issued s ++ [e] /\ live s' e = true /\ live s e = false).
Proof.
  intros debug wd s n line o (HI & HC) Hn Hd Hop Hreg Hflt. cbv zeta.
  destruct (step_inv2Q debug wd s n line o HI Hn Hd Hop Hreg Hflt) as (S1 & S2 & S3).
  split; [|split; assumption]. split; [exact S1|].
  pose proof S1 as ((HW' & _) & _). pose proof HI as (HS & _ & _ & _ & HT & HFo). pose proof HS as (HW & _).
  apply (qx_ok_of_CIw _ HW'). apply (proj1 (qx_step_keep debug wd s line o Hd Hop (qx_walk_ok_inv s HS HT HFo))).
  apply (qx_CIw_of_ok s HW HC).
Qed.

Theorem step_inv2QF : forall debug wd s n line o,
  Inv2QF s n -> n + 4 < Nat.pow 2 31 -> decode_op line = Some o -> rel_q_op o = true ->
  (forall c, In c (rel_op_ids o) -> c < length (w_reg s)) -> rel_q_flt_ok (w_reg s) o ->
  let s' := fst (step debug wd s line) in
  Inv2QF s' (S n) /\ w_reg s' = w_reg s /\
  (w_issued s' = w_issued s \/ exists e, w_issued s' = w_issued s ++ [e] /\ live s' e = true /\ live s e = false).
Proof.
  intros debug wd s n line o (HI & HF) Hn Hd Hop Hreg Hflt. cbv zeta.
  destruct (step_inv2QC debug wd s n line o HI Hn Hd Hop Hreg Hflt) as (S1 & S2 & S3).
  split; [|split; assumption]. split; [exact S1|]. destruct HI as ((HS & _ & _ & _ & HT & HFo) & _).
  apply (proj2 (qx_step_keep debug wd s line o Hd Hop (qx_walk_ok_inv s HS HT HFo))). exact HF.
Qed.

Lemma qx_FL_init : forall c, qx_FL (init_world c).
Proof.
  intros c. split.
  - constructor; cbn; try (intros; contradiction); try reflexivity; try constructor.
    + intros fi f H. destruct fi; discriminate.
    + intros fi f cid H. destruct fi; discriminate.
  - intros fi f cid H. destruct fi; discriminate.
Qed.

Theorem qx_init : forall c, cfg_ok2 c -> Inv2QF (init_world c) 0.
Proof. intros c Hc. split; [split; [apply r2q_init; exact Hc|apply r2k_cidx_init]|apply qx_FL_init]. Qed.

Lemma qx_run_inv : forall c, cfg_ok2 c -> forall lines,
  Forall (rel_q_line (sc_kinds c)) lines -> length lines + 4 < Nat.pow 2 31 ->
  Inv2QF (Properties.Common.exec c lines) (length lines) /\ w_reg (Properties.Common.exec c lines) = sc_kinds c.
Proof.
  intros c Hc lines. induction lines as [|l lines IH] using rev_ind; intros HF Hb.
  - split; [apply qx_init; exact Hc|reflexivity].
  - apply Forall_app in HF. destruct HF as (HF & Hl). inversion Hl as [|? ? (o & Hd & Hco & Hids & Hflt) _]; subst.
    rewrite app_length in *. cbn [length] in *. rewrite Nat.add_1_r in *.
    destruct IH as (IH1 & IH2); [exact HF|lia|].
    unfold Properties.Common.exec in *. rewrite fold_left_app. cbn [fold_left].
    destruct (step_inv2QF (sc_debug c) false _ (length lines) l o IH1) as (S1 & S2 & _); auto; try lia.
    { rewrite IH2. exact Hids. }
    { rewrite IH2. exact Hflt. }
    split; [exact S1|congruence].
Qed.

(** In every state of a history with filters, registrations and queries over a world with relation
    components (locked states included) the relation-tier invariant holds, the component index is exact,
    every filter is built from its ids and the filter cache is linked. *)
Theorem reachable_inv2QF : forall c lines,
  cfg_ok2 c -> Forall (rel_q_line (sc_kinds c)) lines -> length lines + 4 < Nat.pow 2 31 ->
  Inv2QF (Properties.Common.exec c lines) (length lines).
Proof. intros c lines Hc Hl Hb. apply (qx_run_inv c Hc lines Hl Hb). Qed.

Theorem reachable_inv2QC : forall c lines,
  cfg_ok2 c -> Forall (rel_q_line (sc_kinds c)) lines -> length lines + 4 < Nat.pow 2 31 ->
  Inv2QC (Properties.Common.exec c lines) (length lines).
Proof. intros c lines Hc Hl Hb. apply (reachable_inv2QF c lines Hc Hl Hb). Qed.

(** Non-vacuity: the script of Rel2HistQ (relation component, registered filters, open queries, rejected
    structural calls in the locked window), its end state and its LOCKED middle state. *)
Example qx_script_inv : Inv2QF (Properties.Common.exec Rel2Check.r2_cfg r2q_script) (length r2q_script).
Proof.
  apply reachable_inv2QF; [exact r2q_cfg_ok|exact r2q_script_lines|].
  apply r2_N_small. vm_compute. reflexivity.
Qed.

Example qx_mid_inv : Inv2QF r2q_mid 13 /\ is_locked r2q_mid = true /\ w_compindex r2q_mid <> repeat [] (length (w_reg r2q_mid)) /\
  w_centries r2q_mid <> [].
Proof.
  split; [|split; [vm_compute; reflexivity|split; vm_compute; discriminate]].
  apply (reachable_inv2QF Rel2Check.r2_cfg (firstn 13 r2q_script)); [exact r2q_cfg_ok|apply r2q_firstn_lines|].
  apply r2_N_small. vm_compute. reflexivity.
Qed.

Definition qx_idx_all := (qx_CIw_of_ok, qx_ok_of_CIw, qx_ckp_create_archetype_bare, qx_ckp_step_op, qx_keep_new_op, qx_walk_ok_inv,
  step_inv2QC, step_inv2QF, qx_init, reachable_inv2QC, reachable_inv2QF, qx_script_inv, qx_mid_inv).
Print Assumptions qx_idx_all.
