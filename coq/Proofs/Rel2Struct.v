(** * Rel2Struct: the structure-level operations of the relation bookkeeping preserve [St2G] and
    what they do to the lookups.

    - [r2_register_targets_spec]: only flags change; pending registrations are discharged;
    - [r2_arch_remove_target_spec]: dropping a key all of whose tables are free;
    - [r2_free_table_spec]: freeing an active empty table (lookups cleaned if there are several
      relation components, stale entries left under the table's own target ids otherwise);
    - [r2_create_table_spec]: creation with arbitrary valid relations, fresh and recycle path; the
      targets are registered by createTable itself, so no registration is pending afterwards
      ([r2_create_tail_spec] is the part after the registration, [r2_flags_reg] what happens to the flags);
    - [r2_get_or_create_table_spec].
    Everything is stated for the parametrised invariant of Rel2Defs, so that the lemmas apply inside
    operations (dying targets [D], pending registrations [P], not yet uncached tables [X]). *)
From Ark Require Import Model.Base Model.Mask Model.Pool Model.Util Model.World Model.Run.
From Ark Require Import Proofs.TableProofs Proofs.MaskProofs Proofs.WF Proofs.StorageA Proofs.RelProofs Proofs.Rel2Defs.
From RecordUpdate Require Import RecordSet.
Import RecordSetNotations.
From Coq Require Import Lia.

(** ** Association lists *)

Definition r2_look (k : nat) (m : list (nat * list nat)) : list nat :=
  match afind k m with Some l => l | None => [] end.

Lemma r2_afind_aset : forall V k k' (v : V) m,
  afind k (aset k' v m) = if Nat.eqb k k' then Some v else afind k m.
Proof.
  induction m as [|[k0 v0] t IH]; cbn [aset afind].
  - rewrite (Nat.eqb_sym k' k). destruct (Nat.eqb k k'); reflexivity.
  - destruct (Nat.eqb k0 k') eqn:E0.
    + apply Nat.eqb_eq in E0. subst k0. cbn [afind]. rewrite (Nat.eqb_sym k' k).
      destruct (Nat.eqb k k'); reflexivity.
    + cbn [afind]. destruct (Nat.eqb k0 k) eqn:E1.
      * apply Nat.eqb_eq in E1. subst k0. rewrite E0. reflexivity.
      * exact IH.
Qed.

Lemma r2_afind_snoc : forall V k k' (v : V) m,
  afind k (m ++ [(k', v)]) = match afind k m with Some x => Some x | None => if Nat.eqb k k' then Some v else None end.
Proof.
  induction m as [|[k0 v0] t IH]; cbn [app afind].
  - rewrite (Nat.eqb_sym k' k). reflexivity.
  - destruct (Nat.eqb k0 k); [reflexivity|exact IH].
Qed.

Lemma r2_afind_aappend : forall k k' t m,
  afind k (aappend k' t m) = if Nat.eqb k k' then Some (r2_look k' m ++ [t]) else afind k m.
Proof.
  intros k k' t m. unfold aappend, r2_look. destruct (afind k' m) as [l|] eqn:E.
  - apply r2_afind_aset.
  - rewrite r2_afind_snoc. destruct (Nat.eqb k k') eqn:Ek.
    + apply Nat.eqb_eq in Ek. subst k. rewrite E. reflexivity.
    + destruct (afind k m); reflexivity.
Qed.

Lemma r2_afind_aappend_new : forall k k' t m,
  afind k (aappend_new k' t m) =
  if Nat.eqb k k' then Some (if memb t (r2_look k' m) then r2_look k' m else r2_look k' m ++ [t]) else afind k m.
Proof.
  intros k k' t m. unfold aappend_new, r2_look. destruct (afind k' m) as [l|] eqn:E.
  - destruct (memb t l) eqn:Em.
    + destruct (Nat.eqb k k') eqn:Ek; [|reflexivity]. apply Nat.eqb_eq in Ek. subst k. exact E.
    + apply r2_afind_aset.
  - cbn [memb index_of]. rewrite r2_afind_snoc. destruct (Nat.eqb k k') eqn:Ek.
    + apply Nat.eqb_eq in Ek. subst k. rewrite E. reflexivity.
    + destruct (afind k m); reflexivity.
Qed.

Lemma r2_nth_error_upd : forall A (l : list A) i j x,
  nth_error (upd i x l) j = if Nat.eqb i j then (match nth_error l j with Some _ => Some x | None => None end) else nth_error l j.
Proof. intros. apply nth_error_upd. Qed.

Lemma r2_updf_some : forall A (l : list A) i f a, nth_error l i = Some a -> updf i f l = upd i (f a) l.
Proof. intros A l i f a H. unfold updf. rewrite H. reflexivity. Qed.

(** ** Frames *)

Lemma r2_tbl_ok_same_data : forall t t', table_same_data t t' -> tbl_ok t -> tbl_ok t'.
Proof.
  intros t t' (E1 & E2 & E3 & E4 & E5 & E6 & E7) H.
  apply tbl_ok_elim in H. destruct H as (H1 & H2 & H3 & H4 & H5).
  apply tbl_ok_intro.
  - rewrite E1, E2. exact H1.
  - rewrite E3, E2. exact H2.
  - rewrite E4, E5. exact H3.
  - rewrite E6, E5. exact H4.
  - intros i c Hc. rewrite E4 in Hc. rewrite E2, E1, E6. apply H5. exact Hc.
Qed.

Lemma r2_same_data_refl : forall t, table_same_data t t.
Proof. intros t. unfold table_same_data. repeat split. Qed.

(** What every structure-level operation of this file does to a world: the tables keep their data
    (new tables are empty and laid out like their archetype), the archetypes keep mask, components
    and relation flags; only table lists, lookups, relation labels, flags and cache lists move. *)
Record r2_relabel (s s' : W) : Prop := {
  rl_cfg : w_cfg s' = w_cfg s;
  rl_reg : w_reg s' = w_reg s;
  rl_pool : w_pool s' = w_pool s;
  rl_index : w_index s' = w_index s;
  rl_istarget : length (w_istarget s') = length (w_istarget s);
  rl_compindex : w_compindex s' = w_compindex s;
  rl_archcount : w_archcount s' = w_archcount s;
  rl_centries : w_centries s' = w_centries s;
  rl_filters : w_filters s' = w_filters s;
  rl_cheap : sa_cheap_rel (w_cheap s) (w_cheap s');
  rl_tables_old : forall tid t, nth_error (w_tables s) tid = Some t ->
      exists t', nth_error (w_tables s') tid = Some t' /\ table_same_data t t' /\
                 length (t_targets t') = length (t_ids t');
  rl_tables_new : forall tid t', nth_error (w_tables s') tid = Some t' -> nth_error (w_tables s) tid = None ->
      tbl_ok t' /\ t_len t' = 0 /\
      exists a, nth_error (w_archs s) (t_arch t') = Some a /\ t_ids t' = a_comps a /\
                t_kinds t' = map (kind_of s) (t_ids t') /\ length (t_targets t') = length (t_ids t');
  rl_archs_len : length (w_archs s') = length (w_archs s);
  rl_archs : forall aid a, nth_error (w_archs s) aid = Some a ->
      exists a', nth_error (w_archs s') aid = Some a' /\ a_mask a' = a_mask a /\ a_comps a' = a_comps a /\
                 a_isrel a' = a_isrel a /\ a_numrel a' = a_numrel a /\ length (a_reltabs a') = length (a_reltabs a);
}.

Lemma r2_relabel_archs_rev : forall s s', r2_relabel s s' -> forall aid a', nth_error (w_archs s') aid = Some a' ->
  exists a, nth_error (w_archs s) aid = Some a /\ a_mask a' = a_mask a /\ a_comps a' = a_comps a /\
            a_isrel a' = a_isrel a /\ a_numrel a' = a_numrel a /\ length (a_reltabs a') = length (a_reltabs a).
Proof.
  intros s s' R aid a' Ha'. pose proof (sa_nth_error_lt _ _ _ _ Ha') as Hlt. rewrite (rl_archs_len _ _ R) in Hlt.
  destruct (nth_error (w_archs s) aid) as [a|] eqn:Ea; [|apply nth_error_None in Ea; lia].
  destruct (rl_archs _ _ R aid a Ea) as (a'' & E1 & E2). rewrite Ha' in E1. injection E1 as <-.
  exists a. split; [reflexivity|exact E2].
Qed.

Lemma r2_relabel_tables_rev : forall s s', r2_relabel s s' -> forall tid t', nth_error (w_tables s') tid = Some t' ->
  (exists t, nth_error (w_tables s) tid = Some t /\ table_same_data t t') \/ nth_error (w_tables s) tid = None.
Proof.
  intros s s' R tid t' Ht'. destruct (nth_error (w_tables s) tid) as [t|] eqn:Et; [left|right; reflexivity].
  destruct (rl_tables_old _ _ R tid t Et) as (t'' & E1 & E2 & _). rewrite Ht' in E1. injection E1 as <-.
  exists t. split; [reflexivity|exact E2].
Qed.

Lemma r2_kind_of_ext : forall s s', w_reg s' = w_reg s -> forall c, kind_of s' c = kind_of s c.
Proof. intros s s' E c. unfold kind_of. rewrite E. reflexivity. Qed.

Theorem r2_WF_relabel : forall s s', WF s -> r2_relabel s s' ->
  (forall aid a' tid, nth_error (w_archs s') aid = Some a' ->
     (In tid (a_tables a') \/ In tid (a_free a') \/
      (exists i m k l, nth_error (a_reltabs a') i = Some m /\ afind k m = Some l /\ In tid l) \/
      (exists k l, afind k (a_tgttabs a') = Some l /\ In tid l)) ->
     exists t', nth_error (w_tables s') tid = Some t' /\ t_arch t' = aid) ->
  (forall aid a', nth_error (w_archs s') aid = Some a' -> a_numrel a' = 0 -> length (a_tables a') <= 1) ->
  WF s'.
Proof.
  intros s s' HW R HL HN. pose proof (r2_relabel_archs_rev _ _ R) as RA. pose proof (r2_relabel_tables_rev _ _ R) as RT.
  constructor.
  - apply Forall_nth_error. intros tid t' Ht'. destruct (RT tid t' Ht') as [(t & Et & Sd)|En].
    + apply (r2_tbl_ok_same_data t t' Sd). pose proof (wf_tables _ HW) as F. rewrite Forall_nth_error in F. apply (F tid t Et).
    + apply (rl_tables_new _ _ R tid t' Ht' En).
  - intros tid t' Ht'. destruct (RT tid t' Ht') as [(t & Et & Sd)|En].
    + destruct (rl_tables_old _ _ R tid t Et) as (t'' & E1 & _ & Lt). rewrite Ht' in E1. injection E1 as <-.
      destruct Sd as (S1 & S2 & S3 & S4 & S5 & S6 & S7).
      destruct (wf_layout _ HW tid t Et) as (a & Ea & L1 & L2 & L3).
      destruct (rl_archs _ _ R _ a Ea) as (a' & Ea' & A1 & A2 & A3 & A4 & A5).
      exists a'. rewrite S7. split; [exact Ea'|]. split; [rewrite S5, A2; exact L1|]. split; [|exact Lt].
      rewrite S6, S5, L2. apply map_ext. intros c. symmetry. apply r2_kind_of_ext. apply (rl_reg _ _ R).
    + destruct (rl_tables_new _ _ R tid t' Ht' En) as (_ & _ & a & Ea & L1 & L2 & L3).
      destruct (rl_archs _ _ R _ a Ea) as (a' & Ea' & A1 & A2 & A3 & A4 & A5).
      exists a'. split; [exact Ea'|]. split; [rewrite A2; exact L1|]. split; [|exact L3].
      rewrite L2. apply map_ext. intros c. symmetry. apply r2_kind_of_ext. apply (rl_reg _ _ R).
  - intros aid a' Ha'. destruct (RA aid a' Ha') as (a & Ea & A1 & A2 & A3 & A4 & A5).
    destruct (wf_arch_comps _ HW aid a Ea) as (C1 & C2 & C3 & C4 & C5).
    rewrite A1, A2, A3, A4, A5, (rl_reg _ _ R). split; [exact C1|]. split; [exact C2|]. split; [|split; [exact C4|exact C5]].
    rewrite C3. apply map_ext. intros c. f_equal. symmetry. apply r2_kind_of_ext. apply (rl_reg _ _ R).
  - intros i j a' b' Ha' Hb' Em. destruct (RA i a' Ha') as (a & Ea & A1 & _). destruct (RA j b' Hb') as (b & Eb & B1 & _).
    apply (wf_arch_unique _ HW i j a b Ea Eb). rewrite <- A1, <- B1. exact Em.
  - exact HL.
  - exact HN.
  - destruct (wf_arch0 _ HW) as (a0 & E0 & M0 & t0 & T0 & Ar0).
    destruct (rl_archs _ _ R 0 a0 E0) as (a0' & E0' & A1 & _).
    destruct (rl_tables_old _ _ R 0 t0 T0) as (t0' & T0' & Sd & _).
    exists a0'. split; [exact E0'|]. split; [rewrite A1; exact M0|]. exists t0'. split; [exact T0'|].
    destruct Sd as (_ & _ & _ & _ & _ & _ & S7). rewrite S7. exact Ar0.
  - rewrite (rl_compindex _ _ R), (rl_archcount _ _ R), (rl_reg _ _ R), (rl_cfg _ _ R). apply (wf_index_lists _ HW).
  - rewrite (rl_index _ _ R), (rl_pool _ _ R), (rl_istarget _ _ R). apply (wf_index_len _ HW).
  - intros tid t' r Ht' Hr. destruct (RT tid t' Ht') as [(t & Et & Sd)|En].
    + destruct Sd as (S1 & S2 & S3 & S4 & S5 & S6 & S7). rewrite S1 in Hr.
      destruct (wf_rows _ HW tid t r Et Hr) as (W1 & W2).
      assert (Er : row_ent t' r = row_ent t r) by (unfold row_ent; rewrite S3; reflexivity).
      rewrite Er, (rl_pool _ _ R). split; [|exact W2].
      rewrite (sa_loc_ext s s' (rl_index _ _ R)). exact W1.
    + destruct (rl_tables_new _ _ R tid t' Ht' En) as (_ & L0 & _). lia.
  - intros id tid r Hi. rewrite (rl_index _ _ R) in Hi. destruct (wf_index _ HW id tid r Hi) as (t & Et & Hr & Hf).
    destruct (rl_tables_old _ _ R tid t Et) as (t' & Et' & Sd & _). destruct Sd as (S1 & S2 & S3 & S4 & S5 & S6 & S7).
    exists t'. split; [exact Et'|]. split; [rewrite S1; exact Hr|]. unfold row_ent. rewrite S3. exact Hf.
  - rewrite (rl_pool _ _ R), (rl_index _ _ R). apply (wf_pool _ HW).
  - rewrite (rl_pool _ _ R), (rl_index _ _ R). apply (wf_reserved _ HW).
  - rewrite (rl_pool _ _ R). apply (wf_small _ HW).
  - intros addr Hin. rewrite (rl_centries _ _ R) in Hin. destruct (wf_cache _ HW addr Hin) as (e & He & Hf).
    destruct (rl_cheap _ _ R addr e He) as (e' & He' & Ef). exists e'. split; [exact He'|].
    rewrite Ef, (rl_filters _ _ R). exact Hf.
Qed.

(** ** Extensionality and monotonicity of the invariants *)

Lemma r2_live_ext : forall s s', w_index s' = w_index s -> w_tables s' = w_tables s -> forall e, live s' e = live s e.
Proof. intros s s' Ei Et e. unfold live. rewrite (sa_loc_ext s s' Ei), Et. reflexivity. Qed.

Lemma r2_RelInvG_ext : forall s s' D,
  w_archs s' = w_archs s -> w_tables s' = w_tables s -> w_relarchs s' = w_relarchs s -> w_index s' = w_index s ->
  RelInvG D s -> RelInvG D s'.
Proof.
  intros s s' D Ea Et Er Ei H. destruct H. constructor; rewrite ?Ea, ?Et, ?Er; try assumption.
  intros tid t r Ht Hf Hin. destruct (ri_targets_ok tid t r Ht Hf Hin) as [Hz|[Hl|Hd]].
  - left. exact Hz.
  - right. left. rewrite (r2_live_ext s s' Ei Et). exact Hl.
  - right. right. exact Hd.
Qed.

Lemma r2_RelInvG_mono : forall s (D D' : nat -> Prop), (forall k, D k -> D' k) -> RelInvG D s -> RelInvG D' s.
Proof.
  intros s D D' HD H. destruct H. constructor; try assumption.
  - intros aid a i m k l Ha Hm Hk. destruct (ri_reltabs aid a i m k l Ha Hm Hk) as (N & Rc & Hall).
    split; [exact N|]. split; [exact Rc|]. intros tid Hin. destruct (Hall tid Hin) as (t & Ht & Hg & Hfree).
    exists t. split; [exact Ht|]. split; [exact Hg|]. intros Hf. destruct (Hfree Hf) as [H1 H2]. split; [apply HD; exact H1|exact H2].
  - intros aid a k l Ha Hk. destruct (ri_tgttabs aid a k l Ha Hk) as (N & Hall).
    split; [exact N|]. intros tid Hin. destruct (Hall tid Hin) as (t & Ht & Hg & Hfree).
    exists t. split; [exact Ht|]. split; [exact Hg|]. intros Hf. destruct (Hfree Hf) as [H1 H2]. split; [apply HD; exact H1|exact H2].
  - intros tid t r Ht Hf Hin. destruct (ri_targets_ok tid t r Ht Hf Hin) as [Hz|[Hl|Hd]].
    + left. exact Hz.
    + right. left. exact Hl.
    + right. right. apply HD. exact Hd.
Qed.

Lemma r2_TargetFlagsG_mono : forall s (P P' : nat -> Prop), (forall k, P k -> P' k) -> TargetFlagsG P s -> TargetFlagsG P' s.
Proof.
  intros s P P' HP H aid a k l Ha Hk. destruct (H aid a k l Ha Hk) as [H0|[H1|H2]]; [left; exact H0|right; left; exact H1|right; right; apply HP; exact H2].
Qed.

Lemma r2_CacheInvG_ext : forall s s' X,
  w_centries s' = w_centries s -> w_cheap s' = w_cheap s -> w_filters s' = w_filters s ->
  w_tables s' = w_tables s -> w_archs s' = w_archs s -> CacheInvG X s -> CacheInvG X s'.
Proof.
  intros s s' X Ec Eh Ef Et Ea H. destruct H. constructor; rewrite ?Ec; [assumption|].
  intros addr e f Hin He Hf. rewrite Eh in He. rewrite Ef in Hf.
  destruct (ci_entry addr e f Hin He Hf) as (N & M & B & I). split; [exact N|]. split; [exact M|]. split.
  - rewrite Et. exact B.
  - intros tid HX. rewrite (I tid HX). unfold r2_cache_member. rewrite Et, Ea. tauto.
Qed.

Lemma r2_CacheInvG_mono : forall s (X X' : nat -> Prop), (forall k, X k -> X' k) -> CacheInvG X s -> CacheInvG X' s.
Proof.
  intros s X X' HX H. destruct H. constructor; [assumption|].
  intros addr e f Hin He Hf. destruct (ci_entry addr e f Hin He Hf) as (N & M & B & I).
  split; [exact N|]. split; [exact M|]. split; [exact B|]. intros tid Hn. apply I. intros Hx. apply Hn. apply HX. exact Hx.
Qed.

(** A world that differs from a well-formed one only in flags is a relabelling. *)
Lemma r2_relabel_flags : forall s s', WF s ->
  w_cfg s' = w_cfg s -> w_reg s' = w_reg s -> w_pool s' = w_pool s -> w_index s' = w_index s ->
  length (w_istarget s') = length (w_istarget s) -> w_compindex s' = w_compindex s -> w_archcount s' = w_archcount s ->
  w_centries s' = w_centries s -> w_filters s' = w_filters s -> w_cheap s' = w_cheap s ->
  w_tables s' = w_tables s -> w_archs s' = w_archs s -> r2_relabel s s'.
Proof.
  intros s s' HW E1 E2 E3 E4 E5 E6 E7 E8 E9 E10 E11 E12. constructor; try assumption.
  - rewrite E10. apply sa_cheap_rel_refl.
  - intros tid t Ht. exists t. rewrite E11. split; [exact Ht|]. split; [apply r2_same_data_refl|].
    destruct (wf_layout _ HW tid t Ht) as (a & _ & _ & _ & L). exact L.
  - intros tid t' Ht' Hn. rewrite E11, Hn in Ht'. discriminate.
  - rewrite E12. reflexivity.
  - intros aid a Ha. exists a. rewrite E12. repeat split; [exact Ha].
Qed.

Lemma r2_WF_flags : forall s s', WF s ->
  w_cfg s' = w_cfg s -> w_reg s' = w_reg s -> w_pool s' = w_pool s -> w_index s' = w_index s ->
  length (w_istarget s') = length (w_istarget s) -> w_compindex s' = w_compindex s -> w_archcount s' = w_archcount s ->
  w_centries s' = w_centries s -> w_filters s' = w_filters s -> w_cheap s' = w_cheap s ->
  w_tables s' = w_tables s -> w_archs s' = w_archs s -> WF s'.
Proof.
  intros s s' HW E1 E2 E3 E4 E5 E6 E7 E8 E9 E10 E11 E12.
  apply (r2_WF_relabel s s' HW).
  - apply r2_relabel_flags; assumption.
  - rewrite E12, E11. apply (wf_arch_tables _ HW).
  - rewrite E12. apply (wf_arch_norel_table _ HW).
Qed.

(** ** register_targets *)

Lemma r2_set_istarget_id : forall s : W, s <| w_istarget := w_istarget s |> = s.
Proof. intros s. destruct s. reflexivity. Qed.

Lemma r2_nth_upd_true : forall (l : list bool) i k, nth k l false = true -> nth k (upd i true l) false = true.
Proof.
  intros l i k H. rewrite nth_upd. destruct ((i =? k) && (i <? length l))%bool; [reflexivity|exact H].
Qed.

Lemma r2_register_targets_gen : forall rels s, exists l',
  state_of (register_targets rels s) = s <| w_istarget := l' |> /\
  length l' = length (w_istarget s) /\
  (forall k, nth k (w_istarget s) false = true -> nth k l' false = true) /\
  (is_err (register_targets rels s) = false -> forall r, In r rels -> nth (fst (snd r)) l' false = true) /\
  (is_err (register_targets rels s) = true -> exists r, In r rels /\ length (w_istarget s) <= fst (snd r)).
Proof.
  induction rels as [|r rest IH]; intros s.
  - exists (w_istarget s). cbn. rewrite r2_set_istarget_id.
    split; [reflexivity|]. split; [reflexivity|]. split; [auto|]. split; [intros _ r []|discriminate].
  - unfold register_targets. cbn [forM_]. fold (register_targets rest).
    set (k := fst (snd r)).
    destruct (Nat.ltb k (length (w_istarget s))) eqn:Ek.
    + set (s1 := s <| w_istarget ::= upd k true |>).
      assert (E1 : (s0 <- get ;; guard (Nat.ltb (fst (snd r)) (length (w_istarget s0))) EIndex ;;;
                    modify (fun s2 => s2 <| w_istarget ::= upd (fst (snd r)) true |>)) s = Ok tt s1).
      { unfold bind, get. fold k. rewrite Ek. reflexivity. }
      rewrite (sa_bind_ok E1). destruct (IH s1) as (l' & S1 & L1 & M1 & O1 & F1).
      assert (Ls1 : length (w_istarget s1) = length (w_istarget s)) by (unfold s1; cbn; apply upd_length).
      exists l'. split; [rewrite S1; reflexivity|]. split; [rewrite L1; exact Ls1|]. split; [|split].
      * intros k0 H0. apply M1. unfold s1. cbn. apply r2_nth_upd_true. exact H0.
      * intros Hok r0 [<-|Hin]; [|apply O1; assumption].
        apply M1. unfold s1. cbn. apply nth_upd_eq. apply Nat.ltb_lt. exact Ek.
      * intros Her. destruct (F1 Her) as (r0 & Hin & Hle). exists r0. split; [right; exact Hin|]. rewrite <- Ls1. exact Hle.
    + assert (E1 : (s0 <- get ;; guard (Nat.ltb (fst (snd r)) (length (w_istarget s0))) EIndex ;;;
                    modify (fun s2 => s2 <| w_istarget ::= upd (fst (snd r)) true |>)) s = Err EIndex s).
      { unfold bind, get. fold k. rewrite Ek. reflexivity. }
      rewrite (sa_bind_err E1). exists (w_istarget s). cbn. rewrite r2_set_istarget_id.
      split; [reflexivity|]. split; [reflexivity|]. split; [auto|]. split; [discriminate|].
      intros _. exists r. split; [left; reflexivity|]. apply Nat.ltb_ge. exact Ek.
Qed.

(** flags of ids that are not registered do not change *)
Lemma r2_register_targets_frame : forall rels s k, ~ In k (map (fun r : rel => fst (snd r)) rels) ->
  nth k (w_istarget (state_of (register_targets rels s))) false = nth k (w_istarget s) false.
Proof.
  induction rels as [|r rest IH]; intros s k Hk; [reflexivity|].
  unfold register_targets. cbn [forM_]. fold (register_targets rest).
  destruct (Nat.ltb (fst (snd r)) (length (w_istarget s))) eqn:Ek.
  - set (s1 := s <| w_istarget ::= upd (fst (snd r)) true |>).
    assert (E1 : (s0 <- get ;; guard (Nat.ltb (fst (snd r)) (length (w_istarget s0))) EIndex ;;;
                  modify (fun s2 => s2 <| w_istarget ::= upd (fst (snd r)) true |>)) s = Ok tt s1).
    { unfold bind, get. rewrite Ek. reflexivity. }
    rewrite (sa_bind_ok E1). rewrite IH; [|intros Hc; apply Hk; right; exact Hc].
    unfold s1. cbn. rewrite nth_upd. destruct (Nat.eqb_spec (fst (snd r)) k) as [Heq|Hne]; [|reflexivity].
    exfalso. apply Hk. left. exact Heq.
  - assert (E1 : (s0 <- get ;; guard (Nat.ltb (fst (snd r)) (length (w_istarget s0))) EIndex ;;;
                  modify (fun s2 => s2 <| w_istarget ::= upd (fst (snd r)) true |>)) s = Err EIndex s).
    { unfold bind, get. rewrite Ek. reflexivity. }
    rewrite (sa_bind_err E1). reflexivity.
Qed.

Lemma r2_St2G_flags : forall D P P' X s l', St2G D P X s -> length l' = length (w_istarget s) ->
  (forall aid a k l, nth_error (w_archs s) aid = Some a -> afind k (a_tgttabs a) = Some l ->
     k = 0 \/ nth k l' false = true \/ P' k) ->
  St2G D P' X (s <| w_istarget := l' |>).
Proof.
  intros D P P' X s l' (HW & HR & HT & HC) Hl HF. split; [|split; [|split]].
  - apply (r2_WF_flags s _ HW); try reflexivity. exact Hl.
  - apply (r2_RelInvG_ext s _ D); try reflexivity. exact HR.
  - exact HF.
  - apply (r2_CacheInvG_ext s _ X); try reflexivity. exact HC.
Qed.

(** Registration only sets flags; it discharges the pending registrations of the named targets. It
    fails only for a target id beyond the entity index (impossible for zero or live targets), and
    then too the invariant is kept. *)
Theorem r2_register_targets_spec : forall D P X rels s, St2G D P X s ->
  match register_targets rels s with
  | Ok _ s' => St2G D (fun k => P k /\ ~ In k (map (fun r : rel => fst (snd r)) rels)) X s' /\
               exists l', s' = s <| w_istarget := l' |>
  | Err _ s' => St2G D P X s' /\ (exists l', s' = s <| w_istarget := l' |>) /\
                exists r, In r rels /\ length (w_istarget s) <= fst (snd r)
  end.
Proof.
  intros D P X rels s HS. destruct (r2_register_targets_gen rels s) as (l' & S1 & L1 & M1 & O1 & F1).
  pose proof HS as (HW & HR & HT & HC).
  destruct (register_targets rels s) as [u s'|e s'] eqn:E; cbn [state_of is_err] in *.
  - subst s'. split; [|exists l'; reflexivity].
    apply (r2_St2G_flags D P _ X s l' HS L1). intros aid a k l Ha Hk.
    destruct (HT aid a k l Ha Hk) as [H0|[H1|H2]]; [left; exact H0|right; left; apply M1; exact H1|].
    destruct (in_dec Nat.eq_dec k (map (fun r : rel => fst (snd r)) rels)) as [Hin|Hnin].
    + apply in_map_iff in Hin. destruct Hin as (r & <- & Hr). right. left. apply O1; [reflexivity|exact Hr].
    + right. right. split; assumption.
  - subst s'. split; [|split; [exists l'; reflexivity|apply F1; reflexivity]].
    apply (r2_St2G_flags D P _ X s l' HS L1). intros aid a k l Ha Hk.
    destruct (HT aid a k l Ha Hk) as [H0|[H1|H2]]; [left; exact H0|right; left; apply M1; exact H1|right; right; exact H2].
Qed.

(** ** Updating one archetype *)

Lemma r2_upd_cases : forall A (l : list A) i j (x b : A), nth_error (upd i x l) j = Some b ->
  (j = i /\ b = x /\ i < length l) \/ (j <> i /\ nth_error l j = Some b).
Proof.
  intros A l i j x b H. rewrite nth_error_upd in H. destruct (Nat.eqb_spec i j) as [->|Hne].
  - left. destruct (nth_error l j) eqn:E; [|discriminate]. injection H as <-.
    split; [reflexivity|]. split; [reflexivity|]. eapply sa_nth_error_lt. exact E.
  - right. split; [intros ->; apply Hne; reflexivity|exact H].
Qed.

Lemma r2_upd_same : forall A (l : list A) i (x a : A), nth_error l i = Some a -> nth_error (upd i x l) i = Some x.
Proof. intros A l i x a H. rewrite nth_error_upd, Nat.eqb_refl, H. reflexivity. Qed.

Lemma r2_upd_other : forall A (l : list A) i j (x : A), j <> i -> nth_error (upd i x l) j = nth_error l j.
Proof. intros A l i j x H. rewrite nth_error_upd. destruct (Nat.eqb_spec i j) as [->|_]; [contradiction|reflexivity]. Qed.

(** Archetype [a'] replaces [a] at [aid]; identity, relation flags kept; tables untouched. *)
Lemma r2_relabel_arch_upd : forall s s' aid a a', WF s ->
  nth_error (w_archs s) aid = Some a ->
  w_archs s' = upd aid a' (w_archs s) ->
  a_mask a' = a_mask a -> a_comps a' = a_comps a -> a_isrel a' = a_isrel a -> a_numrel a' = a_numrel a ->
  length (a_reltabs a') = length (a_reltabs a) ->
  w_cfg s' = w_cfg s -> w_reg s' = w_reg s -> w_pool s' = w_pool s -> w_index s' = w_index s ->
  length (w_istarget s') = length (w_istarget s) -> w_compindex s' = w_compindex s -> w_archcount s' = w_archcount s ->
  w_centries s' = w_centries s -> w_filters s' = w_filters s -> w_cheap s' = w_cheap s ->
  w_tables s' = w_tables s -> r2_relabel s s'.
Proof.
  intros s s' aid a a' HW Ha EA M1 M2 M3 M4 M5 E1 E2 E3 E4 E5 E6 E7 E8 E9 E10 E11. constructor; try assumption.
  - rewrite E10. apply sa_cheap_rel_refl.
  - intros tid t Ht. exists t. rewrite E11. split; [exact Ht|]. split; [apply r2_same_data_refl|].
    destruct (wf_layout _ HW tid t Ht) as (a0 & _ & _ & _ & L). exact L.
  - intros tid t' Ht' Hn. rewrite E11, Hn in Ht'. discriminate.
  - rewrite EA. apply upd_length.
  - intros i b Hb. rewrite EA. destruct (Nat.eq_dec i aid) as [->|Hne].
    + rewrite Hb in Ha. injection Ha as ->. exists a'. rewrite (r2_upd_same _ _ _ _ _ Hb). repeat split; assumption.
    + exists b. rewrite (r2_upd_other _ _ _ _ _ Hne). repeat split; exact Hb.
Qed.

Lemma r2_cache_member_ext : forall s s' f rels tid,
  w_tables s' = w_tables s ->
  (forall aid a, nth_error (w_archs s) aid = Some a -> exists a', nth_error (w_archs s') aid = Some a' /\ a_mask a' = a_mask a) ->
  (forall aid a', nth_error (w_archs s') aid = Some a' -> exists a, nth_error (w_archs s) aid = Some a /\ a_mask a' = a_mask a) ->
  (r2_cache_member s' f rels tid <-> r2_cache_member s f rels tid).
Proof.
  intros s s' f rels tid Et F B. unfold r2_cache_member. rewrite Et. split.
  - intros (t & a' & Ht & Hf & Ha' & Hm & Hr). destruct (B _ _ Ha') as (a & Ha & Em).
    exists t, a. rewrite <- Em. repeat split; assumption.
  - intros (t & a & Ht & Hf & Ha & Hm & Hr). destruct (F _ _ Ha) as (a' & Ha' & Em).
    exists t, a'. rewrite Em. repeat split; assumption.
Qed.

Lemma r2_CacheInvG_masks : forall s s' X,
  w_centries s' = w_centries s -> w_cheap s' = w_cheap s -> w_filters s' = w_filters s -> w_tables s' = w_tables s ->
  (forall aid a, nth_error (w_archs s) aid = Some a -> exists a', nth_error (w_archs s') aid = Some a' /\ a_mask a' = a_mask a) ->
  (forall aid a', nth_error (w_archs s') aid = Some a' -> exists a, nth_error (w_archs s) aid = Some a /\ a_mask a' = a_mask a) ->
  CacheInvG X s -> CacheInvG X s'.
Proof.
  intros s s' X Ec Eh Ef Et F B H. destruct H. constructor; rewrite ?Ec; [assumption|].
  intros addr e f Hin He Hf. rewrite Eh in He. rewrite Ef in Hf.
  destruct (ci_entry addr e f Hin He Hf) as (N & M & Bd & I). split; [exact N|]. split; [exact M|]. split.
  - rewrite Et. exact Bd.
  - intros tid HX. rewrite (I tid HX). symmetry. apply r2_cache_member_ext; assumption.
Qed.

Lemma r2_masks_upd : forall (l : list arch) aid a a', nth_error l aid = Some a -> a_mask a' = a_mask a ->
  (forall i b, nth_error l i = Some b -> exists b', nth_error (upd aid a' l) i = Some b' /\ a_mask b' = a_mask b) /\
  (forall i b', nth_error (upd aid a' l) i = Some b' -> exists b, nth_error l i = Some b /\ a_mask b' = a_mask b).
Proof.
  intros l aid a a' Ha Em. split.
  - intros i b Hb. destruct (Nat.eq_dec i aid) as [->|Hne].
    + rewrite Hb in Ha. injection Ha as ->. exists a'. rewrite (r2_upd_same _ _ _ _ _ Hb). split; [reflexivity|exact Em].
    + exists b. rewrite (r2_upd_other _ _ _ _ _ Hne). split; [exact Hb|reflexivity].
  - intros i b' Hb'. destruct (r2_upd_cases _ _ _ _ _ _ Hb') as [(-> & -> & _)|(Hne & Hb)].
    + exists a. split; [exact Ha|exact Em].
    + exists b'. split; [exact Hb|reflexivity].
Qed.

(** Only the lookups of one archetype change: the invariant follows from the five lookup clauses
    for the new lookups. (Used for [arch_remove_target]; also fits [remove_from_targets_cols].) *)
Lemma r2_RelInvG_lookups : forall D s s' aid a a',
  RelInvG D s -> nth_error (w_archs s) aid = Some a ->
  w_archs s' = upd aid a' (w_archs s) -> w_tables s' = w_tables s -> w_relarchs s' = w_relarchs s ->
  w_index s' = w_index s ->
  a_comps a' = a_comps a -> a_isrel a' = a_isrel a -> a_numrel a' = a_numrel a ->
  a_tables a' = a_tables a -> a_free a' = a_free a ->
  (a_numrel a = 0 -> a_tgttabs a' = [] /\ Forall (fun m : list (nat * list nat) => m = []) (a_reltabs a')) ->
  (forall i m k l, nth_error (a_reltabs a') i = Some m -> afind k m = Some l ->
     NoDup l /\ r2_relcol a i /\
     forall tid, In tid l -> exists t, nth_error (w_tables s) tid = Some t /\
       (exists g, nth_error (t_targets t) i = Some (k, g)) /\ (t_free t = true -> D k /\ a_numrel a <= 1)) ->
  (forall tid t i x, nth_error (w_tables s) tid = Some t -> t_free t = false -> t_arch t = aid ->
     r2_relcol a i -> nth_error (t_targets t) i = Some x ->
     exists m l, nth_error (a_reltabs a') i = Some m /\ afind (fst x) m = Some l /\ In tid l) ->
  (forall k l, afind k (a_tgttabs a') = Some l ->
     NoDup l /\ forall tid, In tid l -> exists t, nth_error (w_tables s) tid = Some t /\ r2_has_target a t k /\
       (t_free t = true -> D k /\ a_numrel a <= 1)) ->
  (forall tid t i x, nth_error (w_tables s) tid = Some t -> t_free t = false -> t_arch t = aid ->
     r2_relcol a i -> nth_error (t_targets t) i = Some x ->
     exists l, afind (fst x) (a_tgttabs a') = Some l /\ In tid l) ->
  (forall i m k l, nth_error (a_reltabs a') i = Some m -> afind k m = Some l -> exists l', afind k (a_tgttabs a') = Some l') ->
  RelInvG D s'.
Proof.
  intros D s s' aid a a' H Ha EA ET ER EI C1 C2 C3 C4 C5 L0 L1 L2 L3 L4 L5. destruct H.
  assert (RC : forall i, r2_relcol a' i <-> r2_relcol a i) by (intros i; unfold r2_relcol; rewrite C2; tauto).
  assert (HT : forall t k, r2_has_target a' t k <-> r2_has_target a t k).
  { intros t k. unfold r2_has_target. split; intros (i & g & H1 & H2); exists i, g; (split; [apply RC; exact H1|exact H2]). }
  constructor; rewrite ?ET, ?ER.
  - intros i b Hb. rewrite EA in Hb. destruct (r2_upd_cases _ _ _ _ _ _ Hb) as [(-> & -> & _)|(Hne & Hb')].
    + rewrite C4, C5. apply (ri_nodup aid a Ha).
    + apply (ri_nodup i b Hb').
  - intros i b tid t Hb Hin Ht. rewrite EA in Hb. destruct (r2_upd_cases _ _ _ _ _ _ Hb) as [(-> & -> & _)|(Hne & Hb')].
    + rewrite C4 in Hin. apply (ri_active aid a tid t Ha Hin Ht).
    + apply (ri_active i b tid t Hb' Hin Ht).
  - intros i b tid t Hb Hin Ht. rewrite EA in Hb. destruct (r2_upd_cases _ _ _ _ _ _ Hb) as [(-> & -> & _)|(Hne & Hb')].
    + rewrite C5 in Hin. apply (ri_freed aid a tid t Ha Hin Ht).
    + apply (ri_freed i b tid t Hb' Hin Ht).
  - intros tid t Ht. destruct (ri_listed tid t Ht) as (b & Hb & Hl). rewrite EA.
    destruct (Nat.eq_dec (t_arch t) aid) as [E|Hne].
    + rewrite E in Hb. rewrite Hb in Ha. injection Ha as ->. exists a'. rewrite E, (r2_upd_same _ _ _ _ _ Hb).
      split; [reflexivity|]. rewrite C4, C5. exact Hl.
    + exists b. rewrite (r2_upd_other _ _ _ _ _ Hne). split; [exact Hb|exact Hl].
  - intros i b Hb Hn. rewrite EA in Hb. destruct (r2_upd_cases _ _ _ _ _ _ Hb) as [(-> & -> & _)|(Hne & Hb')].
    + rewrite C3 in Hn. destruct (ri_norel aid a Ha Hn) as (F & _ & _). rewrite C5. split; [exact F|]. apply L0. exact Hn.
    + apply (ri_norel i b Hb' Hn).
  - intros tid t b Ht Hb. rewrite EA in Hb. destruct (r2_upd_cases _ _ _ _ _ _ Hb) as [(E & -> & _)|(Hne & Hb')].
    + rewrite <- E in Ha. destruct (ri_shape tid t a Ht Ha) as (S1 & S2 & S3 & S4). split; [exact S1|]. split; [|split].
      * intros c x. rewrite (S2 c x). rewrite C1. split; intros (i & H1 & H2 & H3); exists i; (split; [exact H1|split; [apply RC; exact H2|exact H3]]).
      * rewrite C2. exact S3.
      * rewrite C3. exact S4.
    + apply (ri_shape tid t b Ht Hb').
  - exact ri_unique.
  - intros i b j m k l Hb Hm Hk. rewrite EA in Hb. destruct (r2_upd_cases _ _ _ _ _ _ Hb) as [(-> & -> & _)|(Hne & Hb')].
    + destruct (L1 j m k l Hm Hk) as (N & Rc & Hall). split; [exact N|]. split; [apply RC; exact Rc|].
      rewrite C3. exact Hall.
    + apply (ri_reltabs i b j m k l Hb' Hm Hk).
  - intros tid t b i x Ht Hf Hb Hr Hx. rewrite EA in Hb. destruct (r2_upd_cases _ _ _ _ _ _ Hb) as [(E & -> & _)|(Hne & Hb')].
    + apply (L2 tid t i x Ht Hf E); [apply RC; exact Hr|exact Hx].
    + apply (ri_reltabs_complete tid t b i x Ht Hf Hb' Hr Hx).
  - intros i b k l Hb Hk. rewrite EA in Hb. destruct (r2_upd_cases _ _ _ _ _ _ Hb) as [(-> & -> & _)|(Hne & Hb')].
    + destruct (L3 k l Hk) as (N & Hall). split; [exact N|]. intros tid Hin. destruct (Hall tid Hin) as (t & Ht & Hg & Hfr).
      exists t. split; [exact Ht|]. split; [apply HT; exact Hg|]. rewrite C3. exact Hfr.
    + apply (ri_tgttabs i b k l Hb' Hk).
  - intros tid t b i x Ht Hf Hb Hr Hx. rewrite EA in Hb. destruct (r2_upd_cases _ _ _ _ _ _ Hb) as [(E & -> & _)|(Hne & Hb')].
    + apply (L4 tid t i x Ht Hf E); [apply RC; exact Hr|exact Hx].
    + apply (ri_tgttabs_complete tid t b i x Ht Hf Hb' Hr Hx).
  - intros i b j m k l Hb Hm Hk. rewrite EA in Hb. destruct (r2_upd_cases _ _ _ _ _ _ Hb) as [(-> & -> & _)|(Hne & Hb')].
    + apply (L5 j m k l Hm Hk).
    + apply (ri_keys i b j m k l Hb' Hm Hk).
  - destruct ri_relarchs as (N & I). split; [exact N|]. intros i. rewrite (I i). rewrite EA. split.
    + intros (b & Hb & Hn). destruct (Nat.eq_dec i aid) as [->|Hne].
      * rewrite Hb in Ha. injection Ha as ->. exists a'. rewrite (r2_upd_same _ _ _ _ _ Hb). split; [reflexivity|]. rewrite C3. exact Hn.
      * exists b. rewrite (r2_upd_other _ _ _ _ _ Hne). split; [exact Hb|exact Hn].
    + intros (b & Hb & Hn). destruct (r2_upd_cases _ _ _ _ _ _ Hb) as [(-> & -> & _)|(Hne & Hb')].
      * exists a. split; [exact Ha|]. rewrite <- C3. exact Hn.
      * exists b. split; [exact Hb'|exact Hn].
  - intros tid t r Ht Hf Hin. destruct (ri_targets_ok tid t r Ht Hf Hin) as [Hz|[Hl|Hd]].
    + left. exact Hz.
    + right. left. rewrite (r2_live_ext s s' EI ET). exact Hl.
    + right. right. exact Hd.
Qed.

(** ** arch_remove_target *)

Lemma r2_art_fields : forall a k,
  a_mask (arch_remove_target a k) = a_mask a /\ a_comps (arch_remove_target a k) = a_comps a /\
  a_isrel (arch_remove_target a k) = a_isrel a /\ a_tables (arch_remove_target a k) = a_tables a /\
  a_free (arch_remove_target a k) = a_free a /\ a_numrel (arch_remove_target a k) = a_numrel a /\
  a_tgttabs (arch_remove_target a k) = adel k (a_tgttabs a) /\
  a_reltabs (arch_remove_target a k) = map2 (fun (r : bool) m => if r then adel k m else m) (a_isrel a) (a_reltabs a).
Proof. intros a k. repeat split. Qed.

Lemma r2_art_reltabs : forall a k i m', nth_error (a_reltabs (arch_remove_target a k)) i = Some m' ->
  exists r m, nth_error (a_isrel a) i = Some r /\ nth_error (a_reltabs a) i = Some m /\ m' = if r then adel k m else m.
Proof.
  intros a k i m' H. destruct (r2_art_fields a k) as (_ & _ & _ & _ & _ & _ & _ & E). rewrite E, nth_error_map2 in H.
  destruct (nth_error (a_isrel a) i) as [r|]; [|discriminate]. destruct (nth_error (a_reltabs a) i) as [m|]; [|discriminate].
  injection H as <-. exists r, m. repeat split.
Qed.

Lemma r2_isrel_len : forall s aid a, WF s -> nth_error (w_archs s) aid = Some a ->
  length (a_isrel a) = length (a_comps a) /\ length (a_reltabs a) = length (a_comps a).
Proof.
  intros s aid a HW Ha. destruct (wf_arch_comps _ HW aid a Ha) as (_ & _ & C3 & _ & C5).
  split; [rewrite C3; apply map_length|exact C5].
Qed.

(** Dropping the key of a dead target: allowed once every table still listed under it is free.
    The state afterwards is given explicitly. *)
Theorem r2_arch_remove_target_spec : forall D P X s aid a k,
  St2G D P X s -> nth_error (w_archs s) aid = Some a ->
  (forall l tid t, afind k (a_tgttabs a) = Some l -> In tid l -> nth_error (w_tables s) tid = Some t -> t_free t = true) ->
  modA aid (fun a0 => arch_remove_target a0 k) s = Ok tt (s <| w_archs := upd aid (arch_remove_target a k) (w_archs s) |>) /\
  St2G D P X (s <| w_archs := upd aid (arch_remove_target a k) (w_archs s) |>).
Proof.
  intros D P X s aid a k (HW & HR & HT & HC) Ha Hfree.
  set (a' := arch_remove_target a k). set (s' := s <| w_archs := upd aid a' (w_archs s) |>).
  split.
  { unfold modA, modify. f_equal. unfold s', a'. rewrite <- (r2_updf_some _ _ _ (fun a0 => arch_remove_target a0 k) _ Ha). reflexivity. }
  destruct (r2_art_fields a k) as (F1 & F2 & F3 & F4 & F5 & F6 & F7 & F8). fold a' in F1, F2, F3, F4, F5, F6, F7, F8.
  destruct (r2_isrel_len s aid a HW Ha) as (LI & LR).
  assert (EA : w_archs s' = upd aid a' (w_archs s)) by reflexivity.
  (* a non-free table of this archetype does not name target id k *)
  assert (NK : forall tid t i x, nth_error (w_tables s) tid = Some t -> t_free t = false -> t_arch t = aid ->
                r2_relcol a i -> nth_error (t_targets t) i = Some x -> fst x <> k).
  { intros tid t i x Ht Hf Earch Hr Hx Ek. rewrite <- Earch in Ha.
    destruct (ri_tgttabs_complete _ _ HR tid t a i x Ht Hf Ha Hr Hx) as (l & Hl & Hin).
    rewrite Ek in Hl. rewrite (Hfree l tid t Hl Hin Ht) in Hf. discriminate. }
  assert (HR' : RelInvG D s').
  { apply (r2_RelInvG_lookups D s s' aid a a' HR Ha EA); try reflexivity; try assumption.
    - intros Hn. destruct (ri_norel _ _ HR aid a Ha Hn) as (_ & G1 & G2). rewrite F7, G1. split; [reflexivity|].
      apply Forall_nth_error. intros i m' Hm'. destruct (r2_art_reltabs a k i m' Hm') as (r & m & _ & Hm & ->).
      rewrite Forall_nth_error in G2. rewrite (G2 i m Hm). destruct r; reflexivity.
    - intros i m' k' l Hm' Hk'. destruct (r2_art_reltabs a k i m' Hm') as (r & m & Hr & Hm & ->).
      destruct r.
      + rewrite rl_afind_adel in Hk'. destruct (Nat.eqb k' k); [discriminate|].
        apply (ri_reltabs _ _ HR aid a i m k' l Ha Hm Hk').
      + apply (ri_reltabs _ _ HR aid a i m k' l Ha Hm Hk').
    - intros tid t i x Ht Hf Earch Hr Hx. pose proof (NK tid t i x Ht Hf Earch Hr Hx) as Hne.
      pose proof Ha as Ha2. rewrite <- Earch in Ha2.
      destruct (ri_reltabs_complete _ _ HR tid t a i x Ht Hf Ha2 Hr Hx) as (m & l & Hm & Hl & Hin).
      exists (adel k m), l. split; [|split; [|exact Hin]].
      + rewrite F8, nth_error_map2. unfold r2_relcol in Hr. rewrite Hr, Hm. reflexivity.
      + rewrite rl_afind_adel. apply Nat.eqb_neq in Hne. rewrite Hne. exact Hl.
    - intros k' l Hk'. rewrite F7, rl_afind_adel in Hk'. destruct (Nat.eqb k' k); [discriminate|].
      apply (ri_tgttabs _ _ HR aid a k' l Ha Hk').
    - intros tid t i x Ht Hf Earch Hr Hx. pose proof (NK tid t i x Ht Hf Earch Hr Hx) as Hne.
      pose proof Ha as Ha2. rewrite <- Earch in Ha2.
      destruct (ri_tgttabs_complete _ _ HR tid t a i x Ht Hf Ha2 Hr Hx) as (l & Hl & Hin).
      exists l. split; [|exact Hin]. rewrite F7, rl_afind_adel. apply Nat.eqb_neq in Hne. rewrite Hne. exact Hl.
    - intros i m' k' l Hm' Hk'. destruct (r2_art_reltabs a k i m' Hm') as (r & m & Hr & Hm & ->).
      assert (Hk2 : afind k' m = Some l /\ k' <> k).
      { destruct r.
        - rewrite rl_afind_adel in Hk'. destruct (Nat.eqb_spec k' k); [discriminate|]. split; assumption.
        - destruct (ri_reltabs _ _ HR aid a i m k' l Ha Hm Hk') as (_ & Rc & _). unfold r2_relcol in Rc.
          rewrite Rc in Hr. discriminate. }
      destruct Hk2 as (Hk2 & Hne). destruct (ri_keys _ _ HR aid a i m k' l Ha Hm Hk2) as (l' & Hl').
      exists l'. rewrite F7, rl_afind_adel. apply Nat.eqb_neq in Hne. rewrite Hne. exact Hl'. }
  destruct (r2_masks_upd (w_archs s) aid a a' Ha F1) as (MF & MB).
  split; [|split; [exact HR'|split]].
  - apply (r2_WF_relabel s s' HW).
    + apply (r2_relabel_arch_upd s s' aid a a' HW Ha EA); try reflexivity; try assumption.
      rewrite F8, map2_length, LI, LR. apply Nat.min_id.
    + intros i b tid Hb Hl. rewrite EA in Hb. destruct (r2_upd_cases _ _ _ _ _ _ Hb) as [(-> & -> & _)|(Hne & Hb')].
      * apply (wf_arch_tables _ HW aid a tid Ha). rewrite F4, F5 in Hl.
        destruct Hl as [Hl|[Hl|[Hl|Hl]]]; [left; exact Hl|right; left; exact Hl|right; right; left|right; right; right].
        -- destruct Hl as (i & m' & k' & l & Hm' & Hk' & Hin). destruct (r2_art_reltabs a k i m' Hm') as (r & m & Hr & Hm & ->).
           exists i, m, k', l. split; [exact Hm|]. split; [|exact Hin]. destruct r; [|exact Hk'].
           rewrite rl_afind_adel in Hk'. destruct (Nat.eqb k' k); [discriminate|exact Hk'].
        -- destruct Hl as (k' & l & Hk' & Hin). exists k', l. split; [|exact Hin].
           rewrite F7, rl_afind_adel in Hk'. destruct (Nat.eqb k' k); [discriminate|exact Hk'].
      * apply (wf_arch_tables _ HW i b tid Hb' Hl).
    + intros i b Hb Hn. rewrite EA in Hb. destruct (r2_upd_cases _ _ _ _ _ _ Hb) as [(-> & -> & _)|(Hne & Hb')].
      * rewrite F4. rewrite F6 in Hn. apply (wf_arch_norel_table _ HW aid a Ha Hn).
      * apply (wf_arch_norel_table _ HW i b Hb' Hn).
  - intros i b k' l Hb Hk'. rewrite EA in Hb. destruct (r2_upd_cases _ _ _ _ _ _ Hb) as [(-> & -> & _)|(Hne & Hb')].
    + rewrite F7, rl_afind_adel in Hk'. destruct (Nat.eqb k' k); [discriminate|]. apply (HT aid a k' l Ha Hk').
    + apply (HT i b k' l Hb' Hk').
  - apply (r2_CacheInvG_masks s s' X); try reflexivity; try assumption.
Qed.

(** ** free_table *)

Lemma r2_aft_fields : forall a tid,
  a_mask (arch_free_table a tid) = a_mask a /\ a_comps (arch_free_table a tid) = a_comps a /\
  a_isrel (arch_free_table a tid) = a_isrel a /\ a_numrel (arch_free_table a tid) = a_numrel a /\
  a_tables (arch_free_table a tid) = tids_remove tid (a_tables a) /\
  a_free (arch_free_table a tid) = a_free a ++ [tid] /\
  a_reltabs (arch_free_table a tid) =
    (if Nat.leb (a_numrel a) 1 then a_reltabs a else map (amap_vals (tids_remove tid)) (a_reltabs a)) /\
  a_tgttabs (arch_free_table a tid) =
    (if Nat.leb (a_numrel a) 1 then a_tgttabs a else amap_vals (tids_remove tid) (a_tgttabs a)).
Proof. intros a tid. unfold arch_free_table. destruct (Nat.leb (a_numrel a) 1); repeat split. Qed.

(** the list found under a key after FreeTable, in terms of the list found before *)
Lemma r2_aft_reltabs : forall a tid i m' k l', nth_error (a_reltabs (arch_free_table a tid)) i = Some m' ->
  afind k m' = Some l' ->
  exists m l0, nth_error (a_reltabs a) i = Some m /\ afind k m = Some l0 /\
    ((a_numrel a <= 1 /\ l' = l0) \/ (2 <= a_numrel a /\ l' = tids_remove tid l0)).
Proof.
  intros a tid i m' k l' Hm' Hk. destruct (r2_aft_fields a tid) as (_ & _ & _ & _ & _ & _ & E & _). rewrite E in Hm'.
  destruct (Nat.leb_spec (a_numrel a) 1) as [Hle|Hgt].
  - exists m', l'. split; [exact Hm'|]. split; [exact Hk|]. left. split; [exact Hle|reflexivity].
  - rewrite nth_error_map in Hm'. destruct (nth_error (a_reltabs a) i) as [m|] eqn:Em; [|discriminate]. cbn in Hm'. injection Hm' as <-.
    rewrite rl_afind_amap_vals in Hk. destruct (afind k m) as [l0|] eqn:El; [|discriminate]. cbn in Hk. injection Hk as <-.
    exists m, l0. split; [reflexivity|]. split; [exact El|]. right. split; [lia|reflexivity].
Qed.

Lemma r2_aft_reltabs_fwd : forall a tid i m k l0, nth_error (a_reltabs a) i = Some m -> afind k m = Some l0 ->
  exists m', nth_error (a_reltabs (arch_free_table a tid)) i = Some m' /\
    afind k m' = Some (if Nat.leb (a_numrel a) 1 then l0 else tids_remove tid l0).
Proof.
  intros a tid i m k l0 Hm Hk. destruct (r2_aft_fields a tid) as (_ & _ & _ & _ & _ & _ & E & _). rewrite E.
  destruct (Nat.leb (a_numrel a) 1).
  - exists m. split; assumption.
  - exists (amap_vals (tids_remove tid) m). rewrite nth_error_map, Hm. split; [reflexivity|].
    rewrite rl_afind_amap_vals, Hk. reflexivity.
Qed.

Lemma r2_aft_tgttabs : forall a tid k,
  afind k (a_tgttabs (arch_free_table a tid)) =
  if Nat.leb (a_numrel a) 1 then afind k (a_tgttabs a) else option_map (tids_remove tid) (afind k (a_tgttabs a)).
Proof.
  intros a tid k. destruct (r2_aft_fields a tid) as (_ & _ & _ & _ & _ & _ & _ & E). rewrite E.
  destruct (Nat.leb (a_numrel a) 1); [reflexivity|apply rl_afind_amap_vals].
Qed.

Lemma r2_live_relabel : forall s s', r2_relabel s s' -> forall e, live s e = true -> live s' e = true.
Proof.
  intros s s' R e H. unfold live in *. rewrite (sa_loc_ext s s' (rl_index _ _ R)).
  destruct (loc s e) as [[tid r]|]; [|discriminate]. destruct (nth_error (w_tables s) tid) as [t|] eqn:Et; [|discriminate].
  destruct (rl_tables_old _ _ R tid t Et) as (t' & Et' & (S1 & S2 & S3 & _) & _). rewrite Et'.
  unfold row_ent in *. rewrite S1, S3. exact H.
Qed.

Lemma r2_set_free_data : forall t b, table_same_data t (t <| t_free := b |>).
Proof. intros t b. unfold table_same_data. repeat split. Qed.

Lemma r2_NoDup_snoc : forall A (l : list A) x, NoDup l -> ~ In x l -> NoDup (l ++ [x]).
Proof.
  induction l as [|y t IH]; intros x Hn Hx; cbn; [constructor; [intros []|constructor]|].
  inversion Hn as [|? ? Hy Ht]; subst. constructor.
  - intros Hc. apply in_app_iff in Hc. destruct Hc as [Hc|[<-|[]]]; [contradiction|]. apply Hx. left. reflexivity.
  - apply IH; [exact Ht|]. intros Hc. apply Hx. right. exact Hc.
Qed.

Definition r2_add1 (X : nat -> Prop) (x : nat) : nat -> Prop := fun y => X y \/ y = x.

(** Freeing an active, empty table of a relation archetype. With at most one relation component
    FreeTable leaves the table in the lookups: this is only sound if the table's own target ids
    are dying ([D]), i.e. the keys are about to be dropped. The cache may still list the table. *)
Theorem r2_free_table_spec : forall D P X s aid a tid t,
  St2G D P X s -> nth_error (w_archs s) aid = Some a -> nth_error (w_tables s) tid = Some t ->
  t_arch t = aid -> t_free t = false -> t_len t = 0 -> 0 < a_numrel a ->
  (a_numrel a <= 1 -> forall i x, r2_relcol a i -> nth_error (t_targets t) i = Some x -> D (fst x)) ->
  let s' := s <| w_archs := upd aid (arch_free_table a tid) (w_archs s) |>
              <| w_tables := upd tid (t <| t_free := true |>) (w_tables s) |> in
  free_table aid tid s = Ok tt s' /\ St2G D P (r2_add1 X tid) s'.
Proof.
  intros D P X s aid a tid t (HW & HR & HT & HC) Ha Ht Earch Hfree Hlen Hnr HD s'.
  split.
  { unfold free_table, modA, modT, modify, bind. f_equal. unfold s'.
    rewrite <- (r2_updf_some _ _ _ (fun a0 => arch_free_table a0 tid) _ Ha).
    rewrite <- (r2_updf_some _ _ _ (fun t0 => t0 <| t_free := true |>) _ Ht). reflexivity. }
  set (a' := arch_free_table a tid) in *. set (t' := t <| t_free := true |>) in *.
  destruct (r2_aft_fields a tid) as (F1 & F2 & F3 & F4 & F5 & F6 & F7 & F8). fold a' in F1, F2, F3, F4, F5, F6, F7, F8.
  assert (TG : forall k, afind k (a_tgttabs a') =
            if Nat.leb (a_numrel a) 1 then afind k (a_tgttabs a) else option_map (tids_remove tid) (afind k (a_tgttabs a)))
    by (intros k; apply r2_aft_tgttabs).
  assert (EA : w_archs s' = upd aid a' (w_archs s)) by reflexivity.
  assert (ET : w_tables s' = upd tid t' (w_tables s)) by reflexivity.
  assert (Earch' : t_arch t' = aid) by exact Earch.
  assert (Hfree' : t_free t' = true) by reflexivity.
  assert (AA : nth_error (w_archs s') aid = Some a') by (rewrite EA; apply (r2_upd_same _ _ _ _ _ Ha)).
  assert (TT : nth_error (w_tables s') tid = Some t') by (rewrite ET; apply (r2_upd_same _ _ _ _ _ Ht)).
  assert (TS : forall x, x <> tid -> nth_error (w_tables s') x = nth_error (w_tables s) x) by (intros x Hx; rewrite ET; apply r2_upd_other; exact Hx).
  assert (AS : forall i, i <> aid -> nth_error (w_archs s') i = nth_error (w_archs s) i) by (intros i Hi; rewrite EA; apply r2_upd_other; exact Hi).
  assert (TC : forall x tx', nth_error (w_tables s') x = Some tx' ->
                 (x = tid /\ tx' = t') \/ (x <> tid /\ nth_error (w_tables s) x = Some tx')).
  { intros x tx' Hx. rewrite ET in Hx. destruct (r2_upd_cases _ _ _ _ _ _ Hx) as [(-> & -> & _)|(Hne & Hx')]; [left|right]; split; auto. }
  assert (AC : forall i b', nth_error (w_archs s') i = Some b' ->
                 (i = aid /\ b' = a') \/ (i <> aid /\ nth_error (w_archs s) i = Some b')).
  { intros i b' Hb. rewrite EA in Hb. destruct (r2_upd_cases _ _ _ _ _ _ Hb) as [(-> & -> & _)|(Hne & Hb')]; [left|right]; split; auto. }
  (* tables listed by other archetypes are not tid *)
  assert (OT : forall i b x, i <> aid -> nth_error (w_archs s) i = Some b ->
            (In x (a_tables b) \/ In x (a_free b) \/
             (exists j m k l, nth_error (a_reltabs b) j = Some m /\ afind k m = Some l /\ In x l) \/
             (exists k l, afind k (a_tgttabs b) = Some l /\ In x l)) -> x <> tid).
  { intros i b x Hi Hb Hl ->. destruct (wf_arch_tables _ HW i b tid Hb Hl) as (t0 & Ht0 & Ea0).
    rewrite Ht in Ht0. injection Ht0 as <-. apply Hi. rewrite <- Ea0, Earch. reflexivity. }
  destruct (ri_nodup _ _ HR aid a Ha) as (ND1 & ND2).
  destruct (tids_remove_spec tid (a_tables a) ND1) as (NR1 & NR2).
  assert (Hin_tid : In tid (a_tables a)).
  { destruct (ri_listed _ _ HR tid t Ht) as (b & Hb & Hl). rewrite Earch, Ha in Hb. injection Hb as <-. rewrite Hfree in Hl. exact Hl. }
  assert (Hnf : ~ In tid (a_free a)).
  { intros Hc. destruct (ri_freed _ _ HR aid a tid t Ha Hc Ht) as (Hc1 & _). rewrite Hc1 in Hfree. discriminate. }
  assert (RC : forall i, r2_relcol a' i <-> r2_relcol a i) by (intros i; unfold r2_relcol; rewrite F3; tauto).
  assert (R : r2_relabel s s').
  { constructor; try reflexivity.
    - apply sa_cheap_rel_refl.
    - intros x tx Hx. destruct (Nat.eq_dec x tid) as [->|Hne].
      + rewrite Ht in Hx. injection Hx as <-. exists t'. split; [exact TT|]. split; [apply r2_set_free_data|].
        destruct (wf_layout _ HW tid t Ht) as (a0 & _ & _ & _ & L). exact L.
      + exists tx. rewrite (TS x Hne). split; [exact Hx|]. split; [apply r2_same_data_refl|].
        destruct (wf_layout _ HW x tx Hx) as (a0 & _ & _ & _ & L). exact L.
    - intros x tx' Hx Hn. destruct (TC x tx' Hx) as [(-> & _)|(_ & Hx')]; [rewrite Ht in Hn|rewrite Hx' in Hn]; discriminate.
    - rewrite EA. apply upd_length.
    - intros i b Hb. destruct (Nat.eq_dec i aid) as [->|Hne].
      + rewrite Ha in Hb. injection Hb as <-. exists a'. split; [exact AA|]. repeat split; try assumption.
        rewrite F7. destruct (Nat.leb (a_numrel a) 1); [reflexivity|apply map_length].
      + exists b. rewrite (AS i Hne). repeat split; exact Hb. }
  assert (HR' : RelInvG D s').
  { constructor.
    - (* nodup *) intros i b' Hb. destruct (AC i b' Hb) as [(-> & ->)|(Hne & Hb')]; [|apply (ri_nodup _ _ HR i b' Hb')].
      rewrite F5, F6. split; [exact NR1|]. apply r2_NoDup_snoc; assumption.
    - (* active *) intros i b' x tx' Hb Hin Hx. destruct (AC i b' Hb) as [(-> & ->)|(Hne & Hb')].
      + rewrite F5 in Hin. apply NR2 in Hin. destruct Hin as (Hin & Hne). rewrite (TS x Hne) in Hx.
        apply (ri_active _ _ HR aid a x tx' Ha Hin Hx).
      + assert (Hx' : x <> tid) by (apply (OT i b' x Hne Hb'); left; exact Hin). rewrite (TS x Hx') in Hx.
        apply (ri_active _ _ HR i b' x tx' Hb' Hin Hx).
    - (* freed *) intros i b' x tx' Hb Hin Hx. destruct (AC i b' Hb) as [(-> & ->)|(Hne & Hb')].
      + rewrite F6 in Hin. apply in_app_iff in Hin. destruct Hin as [Hin|[<-|[]]].
        * assert (Hx' : x <> tid) by (intros ->; exact (Hnf Hin)). rewrite (TS x Hx') in Hx.
          apply (ri_freed _ _ HR aid a x tx' Ha Hin Hx).
        * rewrite TT in Hx. injection Hx as <-. split; [reflexivity|exact Hlen].
      + assert (Hx' : x <> tid) by (apply (OT i b' x Hne Hb'); right; left; exact Hin). rewrite (TS x Hx') in Hx.
        apply (ri_freed _ _ HR i b' x tx' Hb' Hin Hx).
    - (* listed *) intros x tx' Hx. destruct (TC x tx' Hx) as [(-> & ->)|(Hne & Hx')].
      + exists a'. rewrite Earch'. split; [exact AA|]. rewrite Hfree'. rewrite F6. apply in_app_iff. right. left. reflexivity.
      + destruct (ri_listed _ _ HR x tx' Hx') as (b & Hb & Hl). destruct (Nat.eq_dec (t_arch tx') aid) as [E|Hna].
        * rewrite E in Hb. rewrite Ha in Hb. injection Hb as <-. exists a'. rewrite E. split; [exact AA|].
          destruct (t_free tx'); [rewrite F6; apply in_app_iff; left; exact Hl|rewrite F5; apply NR2; split; assumption].
        * exists b. rewrite (AS _ Hna). split; [exact Hb|exact Hl].
    - (* norel *) intros i b' Hb Hn. destruct (AC i b' Hb) as [(-> & ->)|(Hne & Hb')]; [rewrite F4 in Hn; lia|].
      apply (ri_norel _ _ HR i b' Hb' Hn).
    - (* shape *) intros x tx' b' Hx Hb.
      assert (Hsh : exists tx b, nth_error (w_tables s) x = Some tx /\ nth_error (w_archs s) (t_arch tx) = Some b /\
                      t_rels tx' = t_rels tx /\ t_targets tx' = t_targets tx /\ a_comps b' = a_comps b /\ a_isrel b' = a_isrel b /\
                      a_numrel b' = a_numrel b).
      { destruct (TC x tx' Hx) as [(-> & ->)|(Hne & Hx')].
        - exists t, a. rewrite Earch' in Hb. rewrite AA in Hb. injection Hb as <-. rewrite Earch. repeat split; first [assumption|reflexivity].
        - destruct (AC _ b' Hb) as [(E & ->)|(Hna & Hb')].
          + exists tx', a. rewrite E. repeat split; first [assumption|reflexivity].
          + exists tx', b'. repeat split; first [assumption|reflexivity]. }
      destruct Hsh as (tx & b & Hx0 & Hb0 & E1 & E2 & E3 & E4 & E5).
      destruct (ri_shape _ _ HR x tx b Hx0 Hb0) as (S1 & S2 & S3 & S4). rewrite E1, E2, E3, E5. unfold r2_relcol. rewrite E4.
      split; [exact S1|]. split; [exact S2|]. split; [exact S3|exact S4].
    - (* unique *) intros x1 x2 t1 t2 H1 H2 Hf1 Hf2 Ea Etg.
      destruct (TC x1 t1 H1) as [(-> & ->)|(Hn1 & H1')]; [discriminate|].
      destruct (TC x2 t2 H2) as [(-> & ->)|(Hn2 & H2')]; [discriminate|].
      apply (ri_unique _ _ HR x1 x2 t1 t2 H1' H2' Hf1 Hf2 Ea Etg).
    - (* reltabs *) intros i b' j m' k l' Hb Hm Hk. destruct (AC i b' Hb) as [(-> & ->)|(Hne & Hb')].
      + destruct (r2_aft_reltabs a tid j m' k l' Hm Hk) as (m & l0 & Hm0 & Hk0 & Hcase).
        destruct (ri_reltabs _ _ HR aid a j m k l0 Ha Hm0 Hk0) as (N0 & Rc & Hall).
        destruct (tids_remove_spec tid l0 N0) as (N1 & N2).
        split; [destruct Hcase as [(_ & ->)|(_ & ->)]; assumption|]. split; [apply RC; exact Rc|].
        intros x Hin. rewrite F4.
        assert (Hin0 : In x l0) by (destruct Hcase as [(_ & ->)|(_ & ->)]; [exact Hin|apply N2 in Hin; apply Hin]).
        destruct (Hall x Hin0) as (tx & Hx & Hg & Hfr). destruct (Nat.eq_dec x tid) as [->|Hne].
        * rewrite Ht in Hx. injection Hx as <-. exists t'. split; [exact TT|]. split; [exact Hg|]. intros _.
          destruct Hcase as [(Hle & _)|(Hge & ->)].
          -- split; [|exact Hle]. destruct Hg as (g & Hg). apply (HD Hle j (k, g) Rc Hg).
          -- apply N2 in Hin. destruct Hin as (_ & Hc). contradiction.
        * exists tx. rewrite (TS x Hne). split; [exact Hx|]. split; [exact Hg|exact Hfr].
      + destruct (ri_reltabs _ _ HR i b' j m' k l' Hb' Hm Hk) as (N0 & Rc & Hall). split; [exact N0|]. split; [exact Rc|].
        intros x Hin. destruct (Hall x Hin) as (tx & Hx & Hg & Hfr).
        assert (Hx' : x <> tid) by (apply (OT i b' x Hne Hb'); right; right; left; exists j, m', k, l'; repeat split; assumption).
        exists tx. rewrite (TS x Hx'). split; [exact Hx|]. split; [exact Hg|exact Hfr].
    - (* reltabs complete *) intros x tx' b' i y Hx Hf Hb Hr Hy.
      destruct (TC x tx' Hx) as [(-> & ->)|(Hne & Hx')]; [discriminate|].
      destruct (AC _ b' Hb) as [(E & ->)|(Hna & Hb')].
      + rewrite <- E in Ha. apply RC in Hr. destruct (ri_reltabs_complete _ _ HR x tx' a i y Hx' Hf Ha Hr Hy) as (m & l0 & Hm & Hk & Hin).
        destruct (r2_aft_reltabs_fwd a tid i m (fst y) l0 Hm Hk) as (m' & Hm' & Hk'). exists m'. eexists. split; [exact Hm'|]. split; [exact Hk'|].
        destruct (Nat.leb (a_numrel a) 1); [exact Hin|].
        rewrite E in Ha. destruct (ri_reltabs _ _ HR aid a i m (fst y) l0 Ha Hm Hk) as (N0 & _ & _).
        apply (tids_remove_spec tid l0 N0). split; assumption.
      + apply (ri_reltabs_complete _ _ HR x tx' b' i y Hx' Hf Hb' Hr Hy).
    - (* tgttabs *) intros i b' k l' Hb Hk. destruct (AC i b' Hb) as [(-> & ->)|(Hne & Hb')].
      + rewrite TG in Hk.
        assert (Hc : exists l0, afind k (a_tgttabs a) = Some l0 /\
                       ((a_numrel a <= 1 /\ l' = l0) \/ (2 <= a_numrel a /\ l' = tids_remove tid l0))).
        { destruct (Nat.leb_spec (a_numrel a) 1) as [Hle|Hgt].
          - exists l'. split; [exact Hk|]. left. split; [exact Hle|reflexivity].
          - destruct (afind k (a_tgttabs a)) as [l0|]; [|discriminate]. cbn in Hk. injection Hk as <-.
            exists l0. split; [reflexivity|]. right. split; [lia|reflexivity]. }
        destruct Hc as (l0 & Hk0 & Hcase). destruct (ri_tgttabs _ _ HR aid a k l0 Ha Hk0) as (N0 & Hall).
        destruct (tids_remove_spec tid l0 N0) as (N1 & N2).
        split; [destruct Hcase as [(_ & ->)|(_ & ->)]; assumption|].
        intros x Hin. rewrite F4.
        assert (Hin0 : In x l0) by (destruct Hcase as [(_ & ->)|(_ & ->)]; [exact Hin|apply N2 in Hin; apply Hin]).
        destruct (Hall x Hin0) as (tx & Hx & Hg & Hfr).
        assert (Hg' : r2_has_target a' tx k) by (destruct Hg as (j & g & G1 & G2); exists j, g; split; [apply RC; exact G1|exact G2]).
        destruct (Nat.eq_dec x tid) as [->|Hne].
        * rewrite Ht in Hx. injection Hx as <-. exists t'. split; [exact TT|]. split; [exact Hg'|]. intros _.
          destruct Hcase as [(Hle & _)|(Hge & ->)].
          -- split; [|exact Hle]. destruct Hg as (j & g & G1 & G2). apply (HD Hle j (k, g) G1 G2).
          -- apply N2 in Hin. destruct Hin as (_ & Hc). contradiction.
        * exists tx. rewrite (TS x Hne). split; [exact Hx|]. split; [exact Hg'|exact Hfr].
      + destruct (ri_tgttabs _ _ HR i b' k l' Hb' Hk) as (N0 & Hall). split; [exact N0|].
        intros x Hin. destruct (Hall x Hin) as (tx & Hx & Hg & Hfr).
        assert (Hx' : x <> tid) by (apply (OT i b' x Hne Hb'); right; right; right; exists k, l'; split; assumption).
        exists tx. rewrite (TS x Hx'). split; [exact Hx|]. split; [exact Hg|exact Hfr].
    - (* tgttabs complete *) intros x tx' b' i y Hx Hf Hb Hr Hy.
      destruct (TC x tx' Hx) as [(-> & ->)|(Hne & Hx')]; [discriminate|].
      destruct (AC _ b' Hb) as [(E & ->)|(Hna & Hb')].
      + rewrite <- E in Ha. apply RC in Hr. destruct (ri_tgttabs_complete _ _ HR x tx' a i y Hx' Hf Ha Hr Hy) as (l0 & Hk & Hin).
        rewrite TG, Hk. rewrite E in Ha. destruct (ri_tgttabs _ _ HR aid a (fst y) l0 Ha Hk) as (N0 & _).
        destruct (Nat.leb (a_numrel a) 1); [exists l0; split; [reflexivity|exact Hin]|].
        exists (tids_remove tid l0). split; [reflexivity|]. apply (tids_remove_spec tid l0 N0). split; assumption.
      + apply (ri_tgttabs_complete _ _ HR x tx' b' i y Hx' Hf Hb' Hr Hy).
    - (* keys *) intros i b' j m' k l' Hb Hm Hk. destruct (AC i b' Hb) as [(-> & ->)|(Hne & Hb')].
      + destruct (r2_aft_reltabs a tid j m' k l' Hm Hk) as (m & l0 & Hm0 & Hk0 & _).
        destruct (ri_keys _ _ HR aid a j m k l0 Ha Hm0 Hk0) as (l2 & Hl2). rewrite TG, Hl2.
        destruct (Nat.leb (a_numrel a) 1); eexists; reflexivity.
      + apply (ri_keys _ _ HR i b' j m' k l' Hb' Hm Hk).
    - (* relarchs *) destruct (ri_relarchs _ _ HR) as (N & I). split; [exact N|]. intros i. change (w_relarchs s') with (w_relarchs s).
      rewrite (I i). split.
      + intros (b & Hb & Hn). destruct (Nat.eq_dec i aid) as [->|Hne].
        * rewrite Ha in Hb. injection Hb as <-. exists a'. split; [exact AA|]. rewrite F4. exact Hn.
        * exists b. rewrite (AS i Hne). split; assumption.
      + intros (b' & Hb & Hn). destruct (AC i b' Hb) as [(-> & ->)|(Hne & Hb')].
        * exists a. split; [exact Ha|]. rewrite <- F4. exact Hn.
        * exists b'. split; assumption.
    - (* targets ok *) intros x tx' r Hx Hf Hin. destruct (TC x tx' Hx) as [(-> & ->)|(Hne & Hx')]; [discriminate|].
      destruct (ri_targets_ok _ _ HR x tx' r Hx' Hf Hin) as [Hz|[Hl|Hd]]; [left; exact Hz|right; left|right; right; exact Hd].
      apply (r2_live_relabel s s' R). exact Hl. }
  destruct (r2_masks_upd (w_archs s) aid a a' Ha F1) as (MF & MB).
  split; [|split; [exact HR'|split]].
  - apply (r2_WF_relabel s s' HW R).
    + intros i b' x Hb Hl.
      assert (Hold : exists tx, nth_error (w_tables s) x = Some tx /\ t_arch tx = i).
      { destruct (AC i b' Hb) as [(-> & ->)|(Hne & Hb')]; [|apply (wf_arch_tables _ HW i b' x Hb' Hl)].
        destruct Hl as [Hl|[Hl|[Hl|Hl]]].
        - rewrite F5 in Hl. apply NR2 in Hl. apply (wf_arch_tables _ HW aid a x Ha). left. apply Hl.
        - rewrite F6 in Hl. apply in_app_iff in Hl. destruct Hl as [Hl|[<-|[]]].
          + apply (wf_arch_tables _ HW aid a x Ha). right. left. exact Hl.
          + exists t. split; assumption.
        - destruct Hl as (j & m' & k & l' & Hm & Hk & Hin). destruct (r2_aft_reltabs a tid j m' k l' Hm Hk) as (m & l0 & Hm0 & Hk0 & Hcase).
          destruct (ri_reltabs _ _ HR aid a j m k l0 Ha Hm0 Hk0) as (N0 & _ & _).
          apply (wf_arch_tables _ HW aid a x Ha). right. right. left. exists j, m, k, l0. split; [exact Hm0|]. split; [exact Hk0|].
          destruct Hcase as [(_ & ->)|(_ & ->)]; [exact Hin|]. apply (tids_remove_spec tid l0 N0) in Hin. apply Hin.
        - destruct Hl as (k & l' & Hk & Hin). rewrite TG in Hk.
          apply (wf_arch_tables _ HW aid a x Ha). right. right. right.
          destruct (Nat.leb (a_numrel a) 1); [exists k, l'; split; assumption|].
          destruct (afind k (a_tgttabs a)) as [l0|] eqn:Hk0; [|discriminate]. cbn in Hk. injection Hk as <-.
          destruct (ri_tgttabs _ _ HR aid a k l0 Ha Hk0) as (N0 & _). exists k, l0. split; [exact Hk0|].
          apply (tids_remove_spec tid l0 N0) in Hin. apply Hin. }
      destruct Hold as (tx & Hx & Ex). destruct (rl_tables_old _ _ R x tx Hx) as (tx' & Hx' & Sd & _).
      exists tx'. split; [exact Hx'|]. destruct Sd as (_ & _ & _ & _ & _ & _ & S7). rewrite S7. exact Ex.
    + intros i b' Hb Hn. destruct (AC i b' Hb) as [(-> & ->)|(Hne & Hb')]; [rewrite F4 in Hn; lia|].
      apply (wf_arch_norel_table _ HW i b' Hb' Hn).
  - intros i b' k l' Hb Hk. destruct (AC i b' Hb) as [(-> & ->)|(Hne & Hb')]; [|apply (HT i b' k l' Hb' Hk)].
    rewrite TG in Hk. destruct (Nat.leb (a_numrel a) 1); [apply (HT aid a k l' Ha Hk)|].
    destruct (afind k (a_tgttabs a)) as [l0|] eqn:Hk0; [|discriminate]. apply (HT aid a k l0 Ha Hk0).
  - destruct HC as [CN CE]. constructor; [exact CN|].
    intros addr e f Hin He Hf. destruct (CE addr e f Hin He Hf) as (N & M & Bd & I).
    split; [exact N|]. split; [exact M|]. split.
    + intros x Hx. rewrite ET, upd_length. apply Bd. exact Hx.
    + intros x Hnx. assert (Hx1 : ~ X x) by (intros Hc; apply Hnx; left; exact Hc).
      assert (Hx2 : x <> tid) by (intros ->; apply Hnx; right; reflexivity).
      rewrite (I x Hx1). unfold r2_cache_member. rewrite (TS x Hx2). split.
      * intros (tx & b & H1 & H2 & H3 & H4 & H5). destruct (MF _ _ H3) as (b' & Hb' & Em). exists tx, b'.
        rewrite Em. repeat split; assumption.
      * intros (tx & b' & H1 & H2 & H3 & H4 & H5). destruct (MB _ _ H3) as (b & Hb & Em). exists tx, b.
        rewrite <- Em. repeat split; assumption.
Qed.

(** ** place_targets *)

Lemma r2_place_targets_len : forall a rels tg0 tg, place_targets a rels tg0 = Some tg -> length tg = length tg0.
Proof.
  intros a rels. induction rels as [|[c x] rest IH]; intros tg0 tg H; cbn [place_targets] in H.
  - injection H as <-. reflexivity.
  - destruct (index_of c (a_comps a)) as [idx|]; [|discriminate]. rewrite (IH _ _ H). apply upd_length.
Qed.

Lemma r2_place_targets_other : forall a rels tg0 tg i, place_targets a rels tg0 = Some tg ->
  (forall r, In r rels -> index_of (fst r) (a_comps a) <> Some i) -> nth_error tg i = nth_error tg0 i.
Proof.
  intros a rels. induction rels as [|[c x] rest IH]; intros tg0 tg i H Hno; cbn [place_targets] in H.
  - injection H as <-. reflexivity.
  - destruct (index_of c (a_comps a)) as [idx|] eqn:Ei; [|discriminate].
    rewrite (IH _ _ i H); [|intros r Hr; apply Hno; right; exact Hr].
    apply r2_upd_other. intros ->. apply (Hno (c, x)); [left; reflexivity|exact Ei].
Qed.

Lemma r2_place_targets_hit : forall a rels tg0 tg, place_targets a rels tg0 = Some tg -> NoDup (map fst rels) ->
  forall c x i, In (c, x) rels -> index_of c (a_comps a) = Some i -> i < length tg0 -> nth_error tg i = Some x.
Proof.
  intros a rels. induction rels as [|[c0 x0] rest IH]; intros tg0 tg H Hnd c x i Hin Hi Hlt; [destruct Hin|].
  cbn [place_targets] in H. destruct (index_of c0 (a_comps a)) as [idx|] eqn:Ei; [|discriminate].
  cbn [map fst] in Hnd. inversion Hnd as [|? ? Hc0 Hnd']; subst.
  destruct Hin as [Heq|Hin].
  - injection Heq as -> ->. rewrite Ei in Hi. injection Hi as ->.
    rewrite (r2_place_targets_other a rest _ tg i H).
    + rewrite nth_error_upd, Nat.eqb_refl. destruct (nth_error tg0 i) eqn:En; [reflexivity|].
      apply nth_error_None in En. lia.
    + intros r Hr Hri. apply Hc0. apply rl_index_of_some in Hri. apply rl_index_of_some in Ei.
      rewrite Ei in Hri. injection Hri as ->. apply in_map. exact Hr.
  - apply (IH _ _ H Hnd' c x i Hin Hi). rewrite upd_length. exact Hlt.
Qed.

Lemma r2_place_targets_some : forall a rels tg0,
  (forall r, In r rels -> exists i, index_of (fst r) (a_comps a) = Some i) -> exists tg, place_targets a rels tg0 = Some tg.
Proof.
  intros a rels. induction rels as [|[c x] rest IH]; intros tg0 H; cbn [place_targets].
  - exists tg0. reflexivity.
  - destruct (H (c, x)) as (i & Hi); [left; reflexivity|]. cbn [fst] in Hi. rewrite Hi.
    apply IH. intros r Hr. apply H. right. exact Hr.
Qed.

(** ** arch_add_table *)

Fixpoint r2_hit_keys (kinds : list ckind) (targets : list ent) : list nat :=
  match kinds, targets with
  | k :: ks, tg :: tgs => if ck_rel k then fst tg :: r2_hit_keys ks tgs else r2_hit_keys ks tgs
  | _, _ => []
  end.

Lemma r2_hit_keys_in : forall kinds targets k, In k (r2_hit_keys kinds targets) <->
  exists j kd x, nth_error kinds j = Some kd /\ ck_rel kd = true /\ nth_error targets j = Some x /\ fst x = k.
Proof.
  induction kinds as [|kd ks IH]; intros targets k.
  - cbn. split; [intros []|]. intros (j & kd & x & H & _). destruct j; discriminate.
  - destruct targets as [|x xs]; cbn [r2_hit_keys].
    + split; [intros []|]. intros (j & kd' & x & _ & _ & H & _). destruct j; discriminate.
    + destruct (ck_rel kd) eqn:Er.
      * split.
        -- intros [<-|Hin]; [exists 0, kd, x; repeat split; assumption|].
           apply IH in Hin. destruct Hin as (j & kd' & x' & H1 & H2 & H3 & H4). exists (S j), kd', x'. repeat split; assumption.
        -- intros (j & kd' & x' & H1 & H2 & H3 & H4). destruct j as [|j].
           ++ cbn in H1, H3. injection H3 as <-. left. exact H4.
           ++ right. apply IH. exists j, kd', x'. repeat split; assumption.
      * rewrite IH. split.
        -- intros (j & kd' & x' & H1 & H2 & H3 & H4). exists (S j), kd', x'. repeat split; assumption.
        -- intros (j & kd' & x' & H1 & H2 & H3 & H4). destruct j as [|j].
           ++ cbn in H1. injection H1 as <-. rewrite Er in H2. discriminate.
           ++ exists j, kd', x'. repeat split; assumption.
Qed.

Lemma r2_atc_fields : forall tid kinds targets i a,
  a_mask (add_table_cols tid i kinds targets a) = a_mask a /\ a_comps (add_table_cols tid i kinds targets a) = a_comps a /\
  a_isrel (add_table_cols tid i kinds targets a) = a_isrel a /\ a_tables (add_table_cols tid i kinds targets a) = a_tables a /\
  a_free (add_table_cols tid i kinds targets a) = a_free a /\ a_numrel (add_table_cols tid i kinds targets a) = a_numrel a /\
  length (a_reltabs (add_table_cols tid i kinds targets a)) = length (a_reltabs a).
Proof.
  intros tid kinds. induction kinds as [|kd ks IH]; intros targets i a; [cbn; repeat split|].
  destruct targets as [|x xs]; [cbn; repeat split|]. cbn [add_table_cols].
  destruct (ck_rel kd).
  - destruct (IH xs (S i) (a <| a_reltabs ::= updf i (aappend (fst x) tid) |> <| a_tgttabs ::= aappend_new (fst x) tid |>))
      as (E1 & E2 & E3 & E4 & E5 & E6 & E7).
    rewrite E1, E2, E3, E4, E5, E6, E7. repeat split. cbn. apply updf_length.
  - apply IH.
Qed.

Lemma r2_atc_tgttabs : forall tid kinds targets i a,
  a_tgttabs (add_table_cols tid i kinds targets a) =
  fold_left (fun m k0 => aappend_new k0 tid m) (r2_hit_keys kinds targets) (a_tgttabs a).
Proof.
  intros tid kinds. induction kinds as [|kd ks IH]; intros targets i a; [reflexivity|].
  destruct targets as [|x xs]; [reflexivity|]. cbn [add_table_cols r2_hit_keys].
  destruct (ck_rel kd); [|apply IH]. rewrite IH. reflexivity.
Qed.

Lemma r2_atc_reltabs : forall tid kinds targets i a j,
  nth_error (a_reltabs (add_table_cols tid i kinds targets a)) j =
  match nth_error (a_reltabs a) j with
  | None => None
  | Some m => Some (if Nat.leb i j
                    then match nth_error kinds (j - i), nth_error targets (j - i) with
                         | Some kd, Some x => if ck_rel kd then aappend (fst x) tid m else m
                         | _, _ => m
                         end
                    else m)
  end.
Proof.
  intros tid kinds. induction kinds as [|kd ks IH]; intros targets i a j.
  - cbn [add_table_cols]. destruct (nth_error (a_reltabs a) j); [|reflexivity].
    destruct (Nat.leb i j); [|reflexivity]. destruct (j - i); reflexivity.
  - destruct targets as [|x xs].
    + cbn [add_table_cols]. destruct (nth_error (a_reltabs a) j); [|reflexivity].
      destruct (Nat.leb i j); [|reflexivity]. destruct (nth_error (kd :: ks) (j - i)); [|reflexivity]. destruct (j - i); reflexivity.
    + cbn [add_table_cols]. rewrite IH.
      assert (E : nth_error (a_reltabs (if ck_rel kd
                    then a <| a_reltabs ::= updf i (aappend (fst x) tid) |> <| a_tgttabs ::= aappend_new (fst x) tid |>
                    else a)) j =
                  if (ck_rel kd && Nat.eqb i j)%bool then option_map (aappend (fst x) tid) (nth_error (a_reltabs a) j)
                  else nth_error (a_reltabs a) j).
      { destruct (ck_rel kd); [|reflexivity]. cbn [andb]. apply nth_error_updf. }
      rewrite E. destruct (nth_error (a_reltabs a) j) as [m|] eqn:Em.
      * destruct (Nat.eqb_spec i j) as [->|Hne].
        -- rewrite andb_true_r. replace (Nat.leb (S j) j) with false by (symmetry; apply Nat.leb_gt; lia).
           rewrite Nat.leb_refl, Nat.sub_diag. cbn [nth_error option_map]. destruct (ck_rel kd); reflexivity.
        -- rewrite andb_false_r. destruct (Nat.leb_spec (S i) j) as [Hle|Hgt].
           ++ replace (Nat.leb i j) with true by (symmetry; apply Nat.leb_le; lia).
              replace (j - i) with (S (j - S i)) by lia. reflexivity.
           ++ replace (Nat.leb i j) with false by (symmetry; apply Nat.leb_gt; lia). reflexivity.
      * destruct (ck_rel kd && Nat.eqb i j)%bool; reflexivity.
Qed.

(** the archetype-wide lookup after adding [tid] under the keys [ks] (each table once per key) *)
Lemma r2_fold_aappend_new : forall tid ks (m0 : list (nat * list nat)),
  (forall k l, afind k m0 = Some l -> ~ In tid l) ->
  forall k, afind k (fold_left (fun m k0 => aappend_new k0 tid m) ks m0) =
            if memb k ks then Some (r2_look k m0 ++ [tid]) else afind k m0.
Proof.
  intros tid ks m0 Hno.
  assert (G : forall ks done m,
            (forall k, afind k m = if memb k done then Some (r2_look k m0 ++ [tid]) else afind k m0) ->
            forall k, afind k (fold_left (fun m k0 => aappend_new k0 tid m) ks m) =
                      if memb k (done ++ ks) then Some (r2_look k m0 ++ [tid]) else afind k m0).
  { induction ks0 as [|k0 rest IH]; intros done m Q k.
    - rewrite app_nil_r. apply Q.
    - cbn [fold_left]. replace (done ++ k0 :: rest) with ((done ++ [k0]) ++ rest) by (rewrite <- app_assoc; reflexivity).
      apply IH. intros k1. rewrite r2_afind_aappend_new.
      assert (Mb : memb k1 (done ++ [k0]) = (memb k1 done || Nat.eqb k1 k0)%bool).
      { destruct (memb k1 (done ++ [k0])) eqn:E1.
        - apply sa_memb_in in E1. apply in_app_iff in E1. symmetry. apply orb_true_iff. destruct E1 as [E1|[->|[]]].
          + left. apply sa_memb_in. exact E1.
          + right. apply Nat.eqb_refl.
        - symmetry. apply orb_false_iff. split.
          + destruct (memb k1 done) eqn:E2; [|reflexivity]. apply sa_memb_in in E2.
            assert (E3 : memb k1 (done ++ [k0]) = true) by (apply sa_memb_in; apply in_app_iff; left; exact E2). congruence.
          + destruct (Nat.eqb_spec k1 k0) as [->|]; [|reflexivity].
            assert (E3 : memb k0 (done ++ [k0]) = true) by (apply sa_memb_in; apply in_app_iff; right; left; reflexivity). congruence. }
      rewrite Mb. clear Mb. destruct (Nat.eqb_spec k1 k0) as [Ek|Hne].
      + subst k1. rewrite orb_true_r. unfold r2_look at 1 2 3. rewrite (Q k0). destruct (memb k0 done) eqn:Ed.
        * assert (Hm : memb tid (r2_look k0 m0 ++ [tid]) = true) by (apply sa_memb_in; apply in_app_iff; right; left; reflexivity).
          rewrite Hm. reflexivity.
        * assert (Hm : memb tid (match afind k0 m0 with Some l => l | None => [] end) = false).
          { destruct (memb tid _) eqn:E; [|reflexivity]. apply sa_memb_in in E.
            destruct (afind k0 m0) as [l|] eqn:El; [|destruct E]. exfalso. apply (Hno k0 l El E). }
          rewrite Hm. reflexivity.
      + rewrite orb_false_r. apply Q. }
  intros k. apply (G ks [] m0). intros k1. reflexivity.
Qed.

(** ** cache_add_table for tables with relations *)

Definition r2_cache_hit (t : table) (am : mask) (F : list fobj) (e : centry) : bool :=
  match nth_error F (ce_filter e) with
  | Some f => (filter_matches f am && (negb (tbl_has_rels t) || r2_is_some_true (tbl_matches t (ce_rels e))))%bool
  | None => false
  end.

Definition r2_entry_upd (tid : nat) (t : table) (am : mask) (F : list fobj) (L : list nat) (addr : nat) (e e' : centry) : Prop :=
  ce_id e' = ce_id e /\ ce_filter e' = ce_filter e /\ ce_rels e' = ce_rels e /\
  ce_tables e' = if (memb addr L && r2_cache_hit t am F e)%bool then ce_tables e ++ [tid] else ce_tables e.

Lemma r2_cache_loop : forall tid t am L s,
  NoDup L ->
  (forall addr, In addr L -> exists e f, nth_error (w_cheap s) addr = Some e /\
     nth_error (w_filters s) (ce_filter e) = Some f /\
     (filter_matches f am = true -> tbl_has_rels t = true -> tbl_matches t (ce_rels e) <> None)) ->
  exists l', forM_ L (sa_cache_body tid t am) s = Ok tt (s <| w_cheap := l' |>) /\
    length l' = length (w_cheap s) /\
    forall addr e, nth_error (w_cheap s) addr = Some e ->
      exists e', nth_error l' addr = Some e' /\ r2_entry_upd tid t am (w_filters s) L addr e e'.
Proof.
  intros tid t am L. induction L as [|a0 L IH]; intros s ND H.
  - exists (w_cheap s). cbn [forM_]. unfold ret. rewrite sa_set_cheap_id. split; [reflexivity|]. split; [reflexivity|].
    intros addr e He. exists e. split; [exact He|]. unfold r2_entry_upd. cbn. auto.
  - cbn [forM_]. destruct (H a0 (or_introl eq_refl)) as (e0 & f0 & He0 & EF & Hm0).
    inversion ND as [|x y Hnin ND']; subst x y.
    assert (Hnm : memb a0 L = false).
    { destruct (memb a0 L) eqn:E; [|reflexivity]. apply sa_memb_in in E. contradiction. }
    assert (Hhit : r2_cache_hit t am (w_filters s) e0 =
                   (filter_matches f0 am && (negb (tbl_has_rels t) || r2_is_some_true (tbl_matches t (ce_rels e0))))%bool).
    { unfold r2_cache_hit. rewrite EF. reflexivity. }
    destruct (r2_cache_hit t am (w_filters s) e0) eqn:EH.
    + (* the entry is extended *)
      set (s1 := s <| w_cheap ::= updf a0 (fun e => e <| ce_tables ::= fun l => l ++ [tid] |>) |>).
      symmetry in Hhit. apply andb_true_iff in Hhit. destruct Hhit as [EM Hr].
      assert (E : sa_cache_body tid t am a0 s = Ok tt s1).
      { unfold sa_cache_body, bind, get. rewrite He0, EF, EM. cbn [negb].
        destruct (tbl_has_rels t); [|reflexivity]. cbn [negb orb] in Hr.
        destruct (tbl_matches t (ce_rels e0)) as [[|]|]; try discriminate. reflexivity. }
      rewrite (sa_bind_ok E).
      assert (C1 : forall i, nth_error (w_cheap s1) i =
                     if Nat.eqb a0 i then option_map (fun e => e <| ce_tables ::= fun l => l ++ [tid] |>) (nth_error (w_cheap s) i)
                     else nth_error (w_cheap s) i).
      { intros i. unfold s1. cbn. apply nth_error_updf. }
      destruct (IH s1 ND') as (l' & E' & LL & Pp).
      { intros a Ha0. destruct (H a (or_intror Ha0)) as (x & fx & Hx & Fx & Mx). rewrite C1.
        destruct (Nat.eqb_spec a0 a) as [->|_]; [contradiction|]. exists x, fx. repeat split; assumption. }
      exists l'. split; [rewrite E'; reflexivity|]. split.
      { rewrite LL. unfold s1. cbn. apply updf_length. }
      intros addr e He. specialize (C1 addr). rewrite He in C1.
      destruct (Nat.eqb_spec a0 addr) as [<-|Ne].
      * cbn in C1. destruct (Pp _ _ C1) as (e' & He' & U1 & U2 & U3 & U4). exists e'. split; [exact He'|].
        rewrite He0 in He. injection He as <-.
        unfold r2_entry_upd. rewrite sa_memb_cons, Nat.eqb_refl. rewrite Hnm in U4. cbn in U1, U2, U3, U4 |- *.
        rewrite EH. auto.
      * destruct (Pp _ _ C1) as (e' & He' & U1 & U2 & U3 & U4). exists e'. split; [exact He'|].
        unfold r2_entry_upd. rewrite sa_memb_cons. destruct (Nat.eqb_spec a0 addr) as [|_]; [contradiction|].
        cbn [orb]. auto.
    + (* no match: the state is unchanged *)
      assert (E : sa_cache_body tid t am a0 s = Ok tt s).
      { unfold sa_cache_body, bind, get. rewrite He0, EF. destruct (filter_matches f0 am) eqn:EM; [|reflexivity].
        cbn [negb]. cbn [andb] in Hhit. destruct (tbl_has_rels t) eqn:Eh; [|discriminate]. cbn [negb orb] in Hhit.
        specialize (Hm0 eq_refl eq_refl). destruct (tbl_matches t (ce_rels e0)) as [[|]|]; [discriminate|reflexivity|contradiction]. }
      rewrite (sa_bind_ok E).
      destruct (IH s ND') as (l' & E' & LL & Pp).
      { intros a Ha0. apply H. right. exact Ha0. }
      exists l'. split; [exact E'|]. split; [exact LL|].
      intros addr e He. destruct (Pp _ _ He) as (e' & He' & U1 & U2 & U3 & U4). exists e'. split; [exact He'|].
      unfold r2_entry_upd. rewrite sa_memb_cons. destruct (Nat.eqb_spec a0 addr) as [<-|Ne].
      * rewrite He0 in He. injection He as <-. rewrite EH in U4 |- *. rewrite Bool.andb_false_r in U4 |- *. auto.
      * cbn [orb]. auto.
Qed.

Lemma r2_cache_add_table_gen : forall s tid t am,
  NoDup (w_centries s) ->
  (forall addr, In addr (w_centries s) -> exists e f, nth_error (w_cheap s) addr = Some e /\
     nth_error (w_filters s) (ce_filter e) = Some f /\
     (filter_matches f am = true -> tbl_has_rels t = true -> tbl_matches t (ce_rels e) <> None)) ->
  exists l', cache_add_table tid t am s = Ok tt (s <| w_cheap := l' |>) /\
    length l' = length (w_cheap s) /\
    forall addr e, nth_error (w_cheap s) addr = Some e ->
      exists e', nth_error l' addr = Some e' /\ r2_entry_upd tid t am (w_filters s) (w_centries s) addr e e'.
Proof.
  intros s tid t am ND H. rewrite sa_cache_add_table_unfold. unfold bind at 1. unfold get at 1.
  apply r2_cache_loop; auto.
Qed.

Definition r2_hitb (a : arch) (targets : list ent) (j k : nat) : bool :=
  match nth_error (a_isrel a) j, nth_error targets j with
  | Some true, Some x => Nat.eqb (fst x) k
  | _, _ => false
  end.

Definition r2_anyhit (a : arch) (targets : list ent) (k : nat) : Prop :=
  exists j x, r2_relcol a j /\ nth_error targets j = Some x /\ fst x = k.

Lemma r2_hitb_true : forall a targets j k, r2_hitb a targets j k = true <->
  r2_relcol a j /\ exists g, nth_error targets j = Some (k, g).
Proof.
  intros a targets j k. unfold r2_hitb, r2_relcol. split.
  - destruct (nth_error (a_isrel a) j) as [[|]|]; try discriminate. destruct (nth_error targets j) as [[k' g]|]; try discriminate.
    cbn [fst]. intros H. apply Nat.eqb_eq in H. subst k'. split; [reflexivity|exists g; reflexivity].
  - intros (Hr & g & Hx). rewrite Hr, Hx. cbn [fst]. apply Nat.eqb_refl.
Qed.

(** AddTable: what it does to the table list and the lookups. *)
Lemma r2_arch_add_table_spec : forall a tid t,
  (forall j kd, nth_error (t_kinds t) j = Some kd -> nth_error (a_isrel a) j = Some (ck_rel kd)) ->
  length (t_kinds t) = length (a_isrel a) ->
  (a_numrel a = 0 -> forall j, ~ r2_relcol a j) ->
  (forall k l, afind k (a_tgttabs a) = Some l -> ~ In tid l) ->
  a_mask (arch_add_table a tid t) = a_mask a /\ a_comps (arch_add_table a tid t) = a_comps a /\
  a_isrel (arch_add_table a tid t) = a_isrel a /\ a_numrel (arch_add_table a tid t) = a_numrel a /\
  a_tables (arch_add_table a tid t) = a_tables a ++ [tid] /\ a_free (arch_add_table a tid t) = a_free a /\
  length (a_reltabs (arch_add_table a tid t)) = length (a_reltabs a) /\
  (forall j m', nth_error (a_reltabs (arch_add_table a tid t)) j = Some m' ->
     exists m, nth_error (a_reltabs a) j = Some m /\
       forall k, afind k m' = if r2_hitb a (t_targets t) j k then Some (r2_look k m ++ [tid]) else afind k m) /\
  (forall k, (r2_anyhit a (t_targets t) k -> afind k (a_tgttabs (arch_add_table a tid t)) = Some (r2_look k (a_tgttabs a) ++ [tid])) /\
             (~ r2_anyhit a (t_targets t) k -> afind k (a_tgttabs (arch_add_table a tid t)) = afind k (a_tgttabs a))).
Proof.
  intros a tid t HK HKL H0 Hno. unfold arch_add_table, arch_has_rels.
  destruct (Nat.eqb_spec (a_numrel a) 0) as [Hz|Hnz]; cbn [negb].
  - repeat split.
    + intros j m' Hm'. exists m'. split; [exact Hm'|]. intros k.
      destruct (r2_hitb a (t_targets t) j k) eqn:Eh; [|reflexivity]. apply r2_hitb_true in Eh. destruct Eh as (Hr & _).
      exfalso. apply (H0 Hz j Hr).
    + intros (j & x & Hr & _). exfalso. apply (H0 Hz j Hr).
  - set (a1 := a <| a_tables ::= fun l => l ++ [tid] |>).
    destruct (r2_atc_fields tid (t_kinds t) (t_targets t) 0 a1) as (E1 & E2 & E3 & E4 & E5 & E6 & E7).
    rewrite E1, E2, E3, E4, E5, E6, E7.
    split; [reflexivity|]. split; [reflexivity|]. split; [reflexivity|]. split; [reflexivity|].
    split; [reflexivity|]. split; [reflexivity|]. split; [reflexivity|]. split.
    + intros j m' Hm'. rewrite r2_atc_reltabs in Hm'. change (a_reltabs a1) with (a_reltabs a) in Hm'.
      destruct (nth_error (a_reltabs a) j) as [m|] eqn:Em; [|discriminate]. exists m. split; [reflexivity|].
      cbn [Nat.leb] in Hm'. rewrite Nat.sub_0_r in Hm'. injection Hm' as <-. intros k. unfold r2_hitb.
      destruct (nth_error (t_kinds t) j) as [kd|] eqn:Ek.
      * rewrite (HK j kd Ek). destruct (nth_error (t_targets t) j) as [x|] eqn:Ex.
        -- destruct (ck_rel kd); [|reflexivity]. rewrite r2_afind_aappend. rewrite (Nat.eqb_sym k (fst x)).
           destruct (Nat.eqb_spec (fst x) k) as [->|]; reflexivity.
        -- destruct (ck_rel kd); reflexivity.
      * assert (Hn : nth_error (a_isrel a) j = None).
        { apply nth_error_None. apply nth_error_None in Ek. lia. }
        rewrite Hn. reflexivity.
    + intros k. rewrite r2_atc_tgttabs. change (a_tgttabs a1) with (a_tgttabs a).
      rewrite (r2_fold_aappend_new tid _ (a_tgttabs a) Hno k).
      assert (Hiff : memb k (r2_hit_keys (t_kinds t) (t_targets t)) = true <-> r2_anyhit a (t_targets t) k).
      { rewrite sa_memb_in, r2_hit_keys_in. unfold r2_anyhit, r2_relcol. split.
        - intros (j & kd & x & H1 & H2 & H3 & H4). exists j, x. rewrite (HK j kd H1), H2. repeat split; assumption.
        - intros (j & x & H1 & H2 & H3). destruct (nth_error (t_kinds t) j) as [kd|] eqn:Ek.
          + exists j, kd, x. rewrite (HK j kd Ek) in H1. injection H1 as H1. repeat split; assumption.
          + apply nth_error_None in Ek. assert (Hlt : j < length (a_isrel a)) by (eapply sa_nth_error_lt; exact H1). lia. }
      split.
      * intros Ha. apply Hiff in Ha. rewrite Ha. reflexivity.
      * intros Hna. destruct (memb k (r2_hit_keys (t_kinds t) (t_targets t))) eqn:Em; [|reflexivity].
        exfalso. apply Hna. apply Hiff. reflexivity.
Qed.

Lemma r2_exi_complete : forall A (f : nat -> A -> bool) l i0 i x,
  nth_error l i = Some x -> f (i0 + i) x = true -> r2_exi f i0 l = true.
Proof.
  induction l as [|y t IH]; intros i0 i x Hn Hf; [destruct i; discriminate|].
  cbn [r2_exi]. apply orb_true_iff. destruct i as [|i].
  - cbn in Hn. injection Hn as ->. left. rewrite Nat.add_0_r in Hf. exact Hf.
  - right. cbn in Hn. apply (IH (S i0) i x Hn). replace (S i0 + i) with (i0 + S i) by lia. exact Hf.
Qed.

Lemma r2_has_target_b_iff : forall a t k, r2_has_target_b a t k = true <-> r2_has_target a t k.
Proof.
  intros a t k. split; [apply r2_has_target_b_sound|].
  intros (i & g & Hr & Hx). unfold r2_has_target_b. apply (r2_exi_complete _ _ _ 0 i true Hr).
  cbn [Nat.add andb]. rewrite Hx. cbn [fst]. apply Nat.eqb_refl.
Qed.

Lemma r2_anyhit_iff : forall a t k, r2_anyhit a (t_targets t) k <-> r2_has_target a t k.
Proof.
  intros a t k. unfold r2_anyhit, r2_has_target. split.
  - intros (j & [k' g] & H1 & H2 & H3). cbn [fst] in H3. subst k'. exists j, g. split; assumption.
  - intros (j & g & H1 & H2). exists j, (k, g). repeat split; assumption.
Qed.

Lemma r2_add_table_tgttabs_b : forall a tid t,
  (forall j kd, nth_error (t_kinds t) j = Some kd -> nth_error (a_isrel a) j = Some (ck_rel kd)) ->
  length (t_kinds t) = length (a_isrel a) ->
  (a_numrel a = 0 -> forall j, ~ r2_relcol a j) ->
  (forall k l, afind k (a_tgttabs a) = Some l -> ~ In tid l) ->
  forall k, afind k (a_tgttabs (arch_add_table a tid t)) =
            if r2_has_target_b a t k then Some (r2_look k (a_tgttabs a) ++ [tid]) else afind k (a_tgttabs a).
Proof.
  intros a tid t H1 H2 H3 H4 k.
  destruct (r2_arch_add_table_spec a tid t H1 H2 H3 H4) as (_ & _ & _ & _ & _ & _ & _ & _ & LT).
  destruct (LT k) as (L1 & L2). destruct (r2_has_target_b a t k) eqn:E.
  - apply L1. apply r2_anyhit_iff. apply r2_has_target_b_iff. exact E.
  - apply L2. intros Hc. apply r2_anyhit_iff in Hc. apply r2_has_target_b_iff in Hc. congruence.
Qed.

(** ** Valid relation lists *)

(** [rels] names every relation component of the archetype exactly once, with targets that are the
    zero entity or stored entities. (createTable checks the length, that no component is named
    twice ([rels_distinct], see Rel2Check N2 for the defect this repaired), the components and the
    targets' liveness.) *)
Definition r2_rels_valid (s : W) (a : arch) (rels : list rel) : Prop :=
  NoDup (map fst rels) /\ length rels = a_numrel a /\
  (forall c, In c (map fst rels) <-> exists i, nth_error (a_comps a) i = Some c /\ r2_relcol a i) /\
  (forall r, In r rels -> snd r = zero_ent \/ live s (snd r) = true).

Lemma r2_rels_distinct_nodup : forall rels : list rel, NoDup (map fst rels) -> rels_distinct rels = true.
Proof.
  induction rels as [|r rest IH]; intros H; [reflexivity|]. cbn [rels_distinct map] in *.
  inversion H as [|x xs Hn Hnd]; subst. rewrite (IH Hnd), andb_true_r.
  apply negb_true_iff. destruct (memb (fst r) (map fst rest)) eqn:E; [|reflexivity].
  apply sa_memb_in in E. contradiction.
Qed.

Definition r2_ids (rels : list rel) : list nat := map (fun r : rel => fst (snd r)) rels.
Definition r2_addl (P : nat -> Prop) (l : list nat) : nat -> Prop := fun k => P k \/ In k l.

Lemma r2_comps_nodup : forall s aid a, WF s -> nth_error (w_archs s) aid = Some a -> NoDup (a_comps a).
Proof.
  intros s aid a HW Ha. destruct (wf_arch_comps _ HW aid a Ha) as (C1 & _). rewrite C1. apply mk_to_list_sorted.
Qed.

Lemma r2_index_of_nth : forall l c i, NoDup l -> nth_error l i = Some c -> index_of c l = Some i.
Proof.
  intros l c i Hnd Hn. destruct (sa_in_index_of c l (nth_error_In _ _ Hn)) as (i' & Hi').
  pose proof (rl_index_of_some _ _ _ Hi') as Hn'. rewrite Hi'. f_equal.
  apply (proj1 (NoDup_nth_error l) Hnd); [eapply sa_nth_error_lt; exact Hn'|congruence].
Qed.

Lemma r2_valid_shape : forall s aid a rels tg, WF s -> nth_error (w_archs s) aid = Some a ->
  r2_rels_valid s a rels -> place_targets a rels (repeat zero_ent (length (a_comps a))) = Some tg ->
  length tg = length (a_comps a) /\
  (forall c x, In (c, x) rels <-> exists i, nth_error (a_comps a) i = Some c /\ r2_relcol a i /\ nth_error tg i = Some x) /\
  (forall i, nth_error (a_isrel a) i = Some false -> nth_error tg i = Some zero_ent).
Proof.
  intros s aid a rels tg HW Ha (V1 & V2 & V3 & V4) Hp.
  pose proof (r2_comps_nodup s aid a HW Ha) as ND. destruct (r2_isrel_len s aid a HW Ha) as (LI & LR).
  assert (Hlen : length tg = length (a_comps a)) by (rewrite (r2_place_targets_len _ _ _ _ Hp); apply repeat_length).
  assert (Fwd : forall c x, In (c, x) rels -> exists i, nth_error (a_comps a) i = Some c /\ r2_relcol a i /\ nth_error tg i = Some x).
  { intros c x Hin. assert (Hc : In c (map fst rels)) by (apply in_map_iff; exists (c, x); split; [reflexivity|exact Hin]).
    apply V3 in Hc. destruct Hc as (i & Hi & Hr). exists i. split; [exact Hi|]. split; [exact Hr|].
    apply (r2_place_targets_hit a rels _ tg Hp V1 c x i Hin (r2_index_of_nth _ _ _ ND Hi)).
    rewrite repeat_length. eapply sa_nth_error_lt. exact Hi. }
  split; [exact Hlen|]. split.
  - intros c x. split; [apply Fwd|]. intros (i & Hi & Hr & Hx).
    assert (Hc : In c (map fst rels)) by (apply V3; exists i; split; assumption).
    apply in_map_iff in Hc. destruct Hc as ([c' x'] & Ec & Hin). cbn [fst] in Ec. subst c'.
    destruct (Fwd c x' Hin) as (i2 & Hi2 & _ & Hx2).
    assert (Ei : i2 = i) by (apply (proj1 (NoDup_nth_error _) ND); [eapply sa_nth_error_lt; exact Hi2|congruence]).
    subst i2. rewrite Hx in Hx2. injection Hx2 as ->. exact Hin.
  - intros i Hi. rewrite (r2_place_targets_other a rels _ tg i Hp).
    + apply nth_error_repeat. rewrite <- LI. eapply sa_nth_error_lt. exact Hi.
    + intros r Hr Hidx. apply rl_index_of_some in Hidx.
      assert (Hc : In (fst r) (map fst rels)) by (apply in_map; exact Hr). apply V3 in Hc. destruct Hc as (i2 & Hi2 & Hr2).
      assert (Ei : i2 = i) by (apply (proj1 (NoDup_nth_error _) ND); [eapply sa_nth_error_lt; exact Hi2|congruence]).
      subst i2. unfold r2_relcol in Hr2. rewrite Hr2 in Hi. discriminate.
Qed.

(** ** create_table: the invariant after the effects of createTable

    [s'] is described by what createTable did: table [tid] (new, or the top of the archetype's free
    stack) now is the empty active table [t'] with the given relations, the archetype lists it and
    the lookups have it under its target ids, the cache entries that match have it appended. *)
Lemma r2_create_inv : forall D P X s s' aid a a2 tid t' rels,
  St2G D P X s -> nth_error (w_archs s) aid = Some a ->
  r2_rels_valid s a rels ->
  (forall x tx, nth_error (w_tables s) x = Some tx -> t_arch tx = aid -> t_free tx = false -> t_targets tx <> t_targets t') ->
  (a_numrel a = 0 -> a_tables a = []) ->
  nth_error (w_tables s') tid = Some t' ->
  (forall x, x <> tid -> nth_error (w_tables s') x = nth_error (w_tables s) x) ->
  t_arch t' = aid -> t_ids t' = a_comps a -> t_kinds t' = map (kind_of s) (a_comps a) -> t_len t' = 0 -> t_free t' = false ->
  place_targets a rels (repeat zero_ent (length (a_comps a))) = Some (t_targets t') -> t_rels t' = rels -> tbl_ok t' ->
  ((nth_error (w_tables s) tid = None /\ a_free a2 = a_free a) \/
   (exists t0, nth_error (w_tables s) tid = Some t0 /\ table_same_data t0 t' /\ t_free t0 = true /\ a_free a = a_free a2 ++ [tid])) ->
  (forall k l, afind k (a_tgttabs a) = Some l -> ~ In tid l) ->
  (forall i m k l, nth_error (a_reltabs a) i = Some m -> afind k m = Some l -> ~ In tid l) ->
  (forall t0, nth_error (w_tables s) tid = Some t0 -> ~ X tid) ->
  w_archs s' = upd aid a2 (w_archs s) ->
  a_mask a2 = a_mask a -> a_comps a2 = a_comps a -> a_isrel a2 = a_isrel a -> a_numrel a2 = a_numrel a ->
  a_tables a2 = a_tables a ++ [tid] -> length (a_reltabs a2) = length (a_reltabs a) ->
  (forall j m', nth_error (a_reltabs a2) j = Some m' -> exists m, nth_error (a_reltabs a) j = Some m /\
     forall k, afind k m' = if r2_hitb a (t_targets t') j k then Some (r2_look k m ++ [tid]) else afind k m) ->
  (forall k, afind k (a_tgttabs a2) =
     if r2_has_target_b a t' k then Some (r2_look k (a_tgttabs a) ++ [tid]) else afind k (a_tgttabs a)) ->
  w_centries s' = w_centries s -> w_filters s' = w_filters s -> length (w_cheap s') = length (w_cheap s) ->
  (forall addr e, nth_error (w_cheap s) addr = Some e -> exists e', nth_error (w_cheap s') addr = Some e' /\
     r2_entry_upd tid t' (a_mask a) (w_filters s) (w_centries s) addr e e') ->
  w_cfg s' = w_cfg s -> w_reg s' = w_reg s -> w_pool s' = w_pool s -> w_index s' = w_index s ->
  w_istarget s' = w_istarget s -> w_compindex s' = w_compindex s -> w_archcount s' = w_archcount s ->
  w_relarchs s' = w_relarchs s ->
  St2G D (r2_addl P (r2_ids rels)) X s' /\ r2_relabel s s'.
Proof.
  intros D P X s s' aid a a2 tid t' rels (HW & HR & HT & HC) Ha HV Huniq Hnorel Htid Hoth
         Tarch Tids Tkinds Tlen Tfree Tplace Trels Tok Hcase NL1 NL2 HXt EA F1 F2 F3 F4 F5 F7 LR LT
         Ece Efi Elc Hcheap E1 E2 E3 E4 E5 E6 E7 E8.
  pose proof HV as (V1 & V2 & V3 & V4).
  destruct (r2_valid_shape s aid a rels (t_targets t') HW Ha HV Tplace) as (SL & SH1 & SH2).
  destruct (r2_isrel_len s aid a HW Ha) as (LI & LRl).
  assert (AA : nth_error (w_archs s') aid = Some a2) by (rewrite EA; apply (r2_upd_same _ _ _ _ _ Ha)).
  assert (AS : forall i, i <> aid -> nth_error (w_archs s') i = nth_error (w_archs s) i) by (intros i Hi; rewrite EA; apply r2_upd_other; exact Hi).
  assert (AC : forall i b', nth_error (w_archs s') i = Some b' ->
                 (i = aid /\ b' = a2) \/ (i <> aid /\ nth_error (w_archs s) i = Some b')).
  { intros i b' Hb. rewrite EA in Hb. destruct (r2_upd_cases _ _ _ _ _ _ Hb) as [(-> & -> & _)|(Hne & Hb')]; [left|right]; split; auto. }
  assert (TC : forall x tx', nth_error (w_tables s') x = Some tx' ->
                 (x = tid /\ tx' = t') \/ (x <> tid /\ nth_error (w_tables s) x = Some tx')).
  { intros x tx' Hx. destruct (Nat.eq_dec x tid) as [->|Hne]; [left|right].
    - rewrite Htid in Hx. injection Hx as <-. split; reflexivity.
    - rewrite (Hoth x Hne) in Hx. split; assumption. }
  assert (Told : forall tx, nth_error (w_tables s) tid = Some tx -> t_arch tx = aid /\ t_free tx = true).
  { intros tx Hx. destruct Hcase as [(Hn & _)|(t0 & Ht0 & Sd & Hf0 & _)]; [rewrite Hn in Hx; discriminate|].
    rewrite Ht0 in Hx. injection Hx as <-. destruct Sd as (_ & _ & _ & _ & _ & _ & S7). split; [rewrite <- S7; exact Tarch|exact Hf0]. }
  assert (OT : forall i b x, i <> aid -> nth_error (w_archs s) i = Some b ->
            (In x (a_tables b) \/ In x (a_free b) \/
             (exists j m k l, nth_error (a_reltabs b) j = Some m /\ afind k m = Some l /\ In x l) \/
             (exists k l, afind k (a_tgttabs b) = Some l /\ In x l)) -> x <> tid).
  { intros i b x Hi Hb Hl ->. destruct (wf_arch_tables _ HW i b tid Hb Hl) as (t0 & Ht0 & Ea0).
    destruct (Told t0 Ht0) as (Et0 & _). apply Hi. rewrite <- Ea0. exact Et0. }
  assert (NT : ~ In tid (a_tables a)).
  { intros Hin. destruct (wf_arch_tables _ HW aid a tid Ha (or_introl Hin)) as (t0 & Ht0 & _).
    destruct (Told t0 Ht0) as (_ & Hf0). rewrite (ri_active _ _ HR aid a tid t0 Ha Hin Ht0) in Hf0. discriminate. }
  assert (RC : forall i, r2_relcol a2 i <-> r2_relcol a i) by (intros i; unfold r2_relcol; rewrite F3; tauto).
  destruct (ri_nodup _ _ HR aid a Ha) as (ND1 & ND2).
  assert (FreeSub : forall x, In x (a_free a2) -> In x (a_free a) /\ x <> tid).
  { intros x Hx. destruct Hcase as [(Hn & Ef)|(t0 & Ht0 & _ & _ & Ef)].
    - rewrite Ef in Hx. split; [exact Hx|]. intros ->.
      destruct (wf_arch_tables _ HW aid a tid Ha (or_intror (or_introl Hx))) as (t0 & Ht0 & _). rewrite Hn in Ht0. discriminate.
    - split; [rewrite Ef; apply in_app_iff; left; exact Hx|]. intros ->. rewrite Ef in ND2.
      apply NoDup_remove_2 in ND2. apply ND2. rewrite app_nil_r. exact Hx. }
  assert (FreeSup : forall x, In x (a_free a) -> x <> tid -> In x (a_free a2)).
  { intros x Hx Hne. destruct Hcase as [(_ & Ef)|(t0 & _ & _ & _ & Ef)]; [rewrite Ef; exact Hx|].
    rewrite Ef in Hx. apply in_app_iff in Hx. destruct Hx as [Hx|[Hx|[]]]; [exact Hx|congruence]. }
  assert (ND2' : NoDup (a_free a2)).
  { destruct Hcase as [(_ & Ef)|(t0 & _ & _ & _ & Ef)]; [rewrite Ef; exact ND2|].
    rewrite Ef in ND2. apply NoDup_remove_1 in ND2. rewrite app_nil_r in ND2. exact ND2. }
  assert (Hcheaprel : sa_cheap_rel (w_cheap s) (w_cheap s')).
  { intros addr e He. destruct (Hcheap addr e He) as (e' & He' & _ & U2 & _). exists e'. split; assumption. }
  assert (R : r2_relabel s s').
  { constructor; try assumption.
    - rewrite E5. reflexivity.
    - intros x tx Hx. destruct (Nat.eq_dec x tid) as [->|Hne].
      + destruct Hcase as [(Hn & _)|(t0 & Ht0 & Sd & _)]; [rewrite Hn in Hx; discriminate|].
        rewrite Ht0 in Hx. injection Hx as <-. exists t'. split; [exact Htid|]. split; [exact Sd|]. rewrite SL, Tids. reflexivity.
      + exists tx. rewrite (Hoth x Hne). split; [exact Hx|]. split; [apply r2_same_data_refl|].
        destruct (wf_layout _ HW x tx Hx) as (a0 & _ & _ & _ & L). exact L.
    - intros x tx' Hx Hn. destruct (TC x tx' Hx) as [(-> & ->)|(Hne & Hx')]; [|rewrite Hx' in Hn; discriminate].
      split; [exact Tok|]. split; [exact Tlen|]. exists a. rewrite Tarch. split; [exact Ha|]. split; [exact Tids|].
      split; [rewrite Tids; exact Tkinds|]. rewrite SL, Tids. reflexivity.
    - rewrite EA. apply upd_length.
    - intros i b Hb. destruct (Nat.eq_dec i aid) as [->|Hne].
      + rewrite Ha in Hb. injection Hb as <-. exists a2. split; [exact AA|]. repeat split; assumption.
      + exists b. rewrite (AS i Hne). repeat split; exact Hb. }
  assert (Hlive : forall e, live s e = true -> live s' e = true) by (apply r2_live_relabel; exact R).
  (* membership in the new lookups *)
  assert (LRold : forall j m k l0, nth_error (a_reltabs a) j = Some m -> afind k m = Some l0 ->
            exists m' l', nth_error (a_reltabs a2) j = Some m' /\ afind k m' = Some l' /\ (forall x, In x l0 -> In x l')).
  { intros j m k l0 Hm Hk. destruct (nth_error (a_reltabs a2) j) as [m'|] eqn:Em'.
    - destruct (LR j m' Em') as (m0 & Hm0 & Hf). rewrite Hm in Hm0. injection Hm0 as <-.
      exists m'. rewrite (Hf k). unfold r2_look. rewrite Hk. destruct (r2_hitb a (t_targets t') j k).
      + eexists. split; [reflexivity|]. split; [reflexivity|]. intros x Hx. apply in_app_iff. left. exact Hx.
      + exists l0. split; [reflexivity|]. split; [reflexivity|]. auto.
    - apply nth_error_None in Em'. pose proof (sa_nth_error_lt _ _ _ _ Hm). lia. }
  assert (HR' : RelInvG D s').
  { constructor.
    - (* nodup *) intros i b' Hb. destruct (AC i b' Hb) as [(-> & ->)|(Hne & Hb')]; [|apply (ri_nodup _ _ HR i b' Hb')].
      rewrite F5. split; [apply r2_NoDup_snoc; assumption|exact ND2'].
    - (* active *) intros i b' x tx' Hb Hin Hx. destruct (AC i b' Hb) as [(-> & ->)|(Hne & Hb')].
      + rewrite F5 in Hin. apply in_app_iff in Hin. destruct Hin as [Hin|[<-|[]]].
        * assert (Hx' : x <> tid) by (intros ->; contradiction). rewrite (Hoth x Hx') in Hx.
          apply (ri_active _ _ HR aid a x tx' Ha Hin Hx).
        * rewrite Htid in Hx. injection Hx as <-. exact Tfree.
      + assert (Hx' : x <> tid) by (apply (OT i b' x Hne Hb'); left; exact Hin). rewrite (Hoth x Hx') in Hx.
        apply (ri_active _ _ HR i b' x tx' Hb' Hin Hx).
    - (* freed *) intros i b' x tx' Hb Hin Hx. destruct (AC i b' Hb) as [(-> & ->)|(Hne & Hb')].
      + destruct (FreeSub x Hin) as (Hin0 & Hx'). rewrite (Hoth x Hx') in Hx. apply (ri_freed _ _ HR aid a x tx' Ha Hin0 Hx).
      + assert (Hx' : x <> tid) by (apply (OT i b' x Hne Hb'); right; left; exact Hin). rewrite (Hoth x Hx') in Hx.
        apply (ri_freed _ _ HR i b' x tx' Hb' Hin Hx).
    - (* listed *) intros x tx' Hx. destruct (TC x tx' Hx) as [(-> & ->)|(Hne & Hx')].
      + exists a2. rewrite Tarch. split; [exact AA|]. rewrite Tfree, F5. apply in_app_iff. right. left. reflexivity.
      + destruct (ri_listed _ _ HR x tx' Hx') as (b & Hb & Hl). destruct (Nat.eq_dec (t_arch tx') aid) as [E|Hna].
        * rewrite E in Hb. rewrite Ha in Hb. injection Hb as <-. exists a2. rewrite E. split; [exact AA|].
          destruct (t_free tx'); [apply FreeSup; assumption|rewrite F5; apply in_app_iff; left; exact Hl].
        * exists b. rewrite (AS _ Hna). split; [exact Hb|exact Hl].
    - (* norel *) intros i b' Hb Hn. destruct (AC i b' Hb) as [(-> & ->)|(Hne & Hb')]; [|apply (ri_norel _ _ HR i b' Hb' Hn)].
      rewrite F4 in Hn. destruct (ri_norel _ _ HR aid a Ha Hn) as (G0 & G1 & G2).
      assert (Hnr : forall j, ~ r2_relcol a j).
      { intros j Hr. destruct (wf_arch_comps _ HW aid a Ha) as (_ & _ & _ & C4 & _). rewrite Hn in C4.
        symmetry in C4. apply length_zero_iff_nil in C4.
        assert (Hin : In true (filter (fun b : bool => b) (a_isrel a))) by (apply filter_In; split; [eapply nth_error_In; exact Hr|reflexivity]).
        rewrite C4 in Hin. destruct Hin. }
      split; [|split].
      + destruct (a_free a2) as [|x0 rest] eqn:Ef; [reflexivity|]. destruct (FreeSub x0) as (Hc & _); [try rewrite Ef; left; reflexivity|].
        rewrite G0 in Hc. destruct Hc.
      + destruct (a_tgttabs a2) as [|[k0 l0] rest] eqn:Eg; [reflexivity|]. exfalso.
        pose proof (LT k0) as Hk. try rewrite Eg in Hk. cbn [afind] in Hk. rewrite Nat.eqb_refl in Hk.
        destruct (r2_has_target_b a t' k0) eqn:Eh.
        * apply r2_has_target_b_iff in Eh. destruct Eh as (j & g & Hr & _). apply (Hnr j Hr).
        * rewrite G1 in Hk. discriminate.
      + apply Forall_nth_error. intros j m' Hm'. destruct (LR j m' Hm') as (m & Hm & Hf).
        rewrite Forall_nth_error in G2. pose proof (G2 j m Hm) as ->.
        destruct m' as [|[k0 l0] rest]; [reflexivity|]. exfalso. pose proof (Hf k0) as Hk. cbn [afind] in Hk. rewrite Nat.eqb_refl in Hk.
        destruct (r2_hitb a (t_targets t') j k0) eqn:Eh; [|discriminate]. apply r2_hitb_true in Eh. destruct Eh as (Hr & _). apply (Hnr j Hr).
    - (* shape *) intros x tx' b' Hx Hb. destruct (TC x tx' Hx) as [(-> & ->)|(Hne & Hx')].
      + rewrite Tarch in Hb. rewrite AA in Hb. injection Hb as <-. rewrite Trels. split; [exact V1|]. split; [|split].
        * intros c y. rewrite (SH1 c y). rewrite F2. split; intros (i & H1 & H2 & H3); exists i; (split; [exact H1|split; [apply RC; exact H2|exact H3]]).
        * rewrite F3. exact SH2.
        * rewrite F4. exact V2.
      + destruct (AC _ b' Hb) as [(E & ->)|(Hna & Hb')]; [|apply (ri_shape _ _ HR x tx' b' Hx' Hb')].
        rewrite <- E in Ha. destruct (ri_shape _ _ HR x tx' a Hx' Ha) as (S1 & S2 & S3 & S4). split; [exact S1|]. split; [|split].
        * intros c y. rewrite (S2 c y). rewrite F2. split; intros (i & H1 & H2 & H3); exists i; (split; [exact H1|split; [apply RC; exact H2|exact H3]]).
        * rewrite F3. exact S3.
        * rewrite F4. exact S4.
    - (* unique *) intros x1 x2 t1 t2 H1 H2 Hf1 Hf2 Earch Etg.
      destruct (TC x1 t1 H1) as [(-> & ->)|(Hn1 & H1')]; destruct (TC x2 t2 H2) as [(-> & ->)|(Hn2 & H2')].
      + reflexivity.
      + exfalso. apply (Huniq x2 t2 H2'); [rewrite <- Earch; exact Tarch|exact Hf2|symmetry; exact Etg].
      + exfalso. apply (Huniq x1 t1 H1'); [rewrite Earch; exact Tarch|exact Hf1|exact Etg].
      + apply (ri_unique _ _ HR x1 x2 t1 t2 H1' H2' Hf1 Hf2 Earch Etg).
    - (* reltabs *) intros i b' j m' k l' Hb Hm Hk. destruct (AC i b' Hb) as [(-> & ->)|(Hne & Hb')].
      + destruct (LR j m' Hm) as (m & Hm0 & Hf). rewrite (Hf k) in Hk. rewrite F4.
        assert (Old : forall l0, afind k m = Some l0 -> NoDup l0 /\ r2_relcol a j /\ ~ In tid l0 /\
                   forall x, In x l0 -> exists tx, nth_error (w_tables s') x = Some tx /\
                     (exists g, nth_error (t_targets tx) j = Some (k, g)) /\ (t_free tx = true -> D k /\ a_numrel a <= 1)).
        { intros l0 Hl0. destruct (ri_reltabs _ _ HR aid a j m k l0 Ha Hm0 Hl0) as (N0 & Rc & Hall).
          split; [exact N0|]. split; [exact Rc|]. split; [apply (NL2 j m k l0 Hm0 Hl0)|].
          intros x Hin. destruct (Hall x Hin) as (tx & Hx & Hg & Hfr). exists tx.
          assert (Hx' : x <> tid) by (intros ->; apply (NL2 j m k l0 Hm0 Hl0 Hin)). rewrite (Hoth x Hx'). split; [exact Hx|]. split; [exact Hg|exact Hfr]. }
        destruct (r2_hitb a (t_targets t') j k) eqn:Eh.
        * injection Hk as <-. apply r2_hitb_true in Eh. destruct Eh as (Rc & g & Hg).
          assert (Hl : NoDup (r2_look k m) /\ ~ In tid (r2_look k m) /\
                    forall x, In x (r2_look k m) -> exists tx, nth_error (w_tables s') x = Some tx /\
                      (exists g, nth_error (t_targets tx) j = Some (k, g)) /\ (t_free tx = true -> D k /\ a_numrel a <= 1)).
          { unfold r2_look. destruct (afind k m) as [l0|] eqn:El0.
            - destruct (Old l0 eq_refl) as (O1 & _ & O3 & O4). repeat split; assumption.
            - split; [constructor|]. split; [intros []|intros x []]. }
          destruct Hl as (L1 & L2 & L3). split; [apply r2_NoDup_snoc; assumption|]. split; [apply RC; exact Rc|].
          intros x Hin. apply in_app_iff in Hin. destruct Hin as [Hin|[<-|[]]]; [apply L3; exact Hin|].
          exists t'. split; [exact Htid|]. split; [exists g; exact Hg|]. intros Hc. rewrite Hc in Tfree. discriminate.
        * destruct (Old l' Hk) as (O1 & O2 & _ & O4). split; [exact O1|]. split; [apply RC; exact O2|exact O4].
      + destruct (ri_reltabs _ _ HR i b' j m' k l' Hb' Hm Hk) as (N0 & Rc & Hall). split; [exact N0|]. split; [exact Rc|].
        intros x Hin. destruct (Hall x Hin) as (tx & Hx & Hg & Hfr).
        assert (Hx' : x <> tid) by (apply (OT i b' x Hne Hb'); right; right; left; exists j, m', k, l'; repeat split; assumption).
        exists tx. rewrite (Hoth x Hx'). split; [exact Hx|]. split; [exact Hg|exact Hfr].
    - (* reltabs complete *) intros x tx' b' i y Hx Hf Hb Hr Hy. destruct (TC x tx' Hx) as [(-> & ->)|(Hne & Hx')].
      + rewrite Tarch in Hb. rewrite AA in Hb. injection Hb as <-. apply RC in Hr.
        assert (Hlt : i < length (a_reltabs a2)) by (rewrite F7, LRl, <- LI; eapply sa_nth_error_lt; exact Hr).
        destruct (nth_error (a_reltabs a2) i) as [m'|] eqn:Em'; [|apply nth_error_None in Em'; lia].
        destruct (LR i m' Em') as (m & Hm0 & Hfm). exists m'. eexists. split; [reflexivity|].
        assert (Eh : r2_hitb a (t_targets t') i (fst y) = true) by (apply r2_hitb_true; split; [exact Hr|exists (snd y); rewrite Hy; destruct y; reflexivity]).
        rewrite (Hfm (fst y)), Eh. split; [reflexivity|]. apply in_app_iff. right. left. reflexivity.
      + destruct (AC _ b' Hb) as [(E & ->)|(Hna & Hb')]; [|apply (ri_reltabs_complete _ _ HR x tx' b' i y Hx' Hf Hb' Hr Hy)].
        rewrite <- E in Ha. apply RC in Hr. destruct (ri_reltabs_complete _ _ HR x tx' a i y Hx' Hf Ha Hr Hy) as (m & l0 & Hm & Hk & Hin).
        destruct (LRold i m (fst y) l0 Hm Hk) as (m' & l' & G1 & G2 & G3). exists m', l'. split; [exact G1|]. split; [exact G2|apply G3; exact Hin].
    - (* tgttabs *) intros i b' k l' Hb Hk. destruct (AC i b' Hb) as [(-> & ->)|(Hne & Hb')].
      + rewrite (LT k) in Hk. rewrite F4.
        assert (HTa : forall tx, r2_has_target a tx k -> r2_has_target a2 tx k).
        { intros tx (j & g & G1 & G2). exists j, g. split; [apply RC; exact G1|exact G2]. }
        assert (Old : forall l0, afind k (a_tgttabs a) = Some l0 -> NoDup l0 /\ ~ In tid l0 /\
                   forall x, In x l0 -> exists tx, nth_error (w_tables s') x = Some tx /\
                     r2_has_target a2 tx k /\ (t_free tx = true -> D k /\ a_numrel a <= 1)).
        { intros l0 Hl0. destruct (ri_tgttabs _ _ HR aid a k l0 Ha Hl0) as (N0 & Hall).
          split; [exact N0|]. split; [apply (NL1 k l0 Hl0)|].
          intros x Hin. destruct (Hall x Hin) as (tx & Hx & Hg & Hfr). exists tx.
          assert (Hx' : x <> tid) by (intros ->; apply (NL1 k l0 Hl0 Hin)). rewrite (Hoth x Hx'). split; [exact Hx|]. split; [apply HTa; exact Hg|exact Hfr]. }
        destruct (r2_has_target_b a t' k) eqn:Eh.
        * injection Hk as <-. apply r2_has_target_b_iff in Eh.
          assert (Hl : NoDup (r2_look k (a_tgttabs a)) /\ ~ In tid (r2_look k (a_tgttabs a)) /\
                    forall x, In x (r2_look k (a_tgttabs a)) -> exists tx, nth_error (w_tables s') x = Some tx /\
                      r2_has_target a2 tx k /\ (t_free tx = true -> D k /\ a_numrel a <= 1)).
          { unfold r2_look. destruct (afind k (a_tgttabs a)) as [l0|] eqn:El0.
            - destruct (Old l0 eq_refl) as (O1 & O3 & O4). repeat split; assumption.
            - split; [constructor|]. split; [intros []|intros x []]. }
          destruct Hl as (L1 & L2 & L3). split; [apply r2_NoDup_snoc; assumption|].
          intros x Hin. apply in_app_iff in Hin. destruct Hin as [Hin|[<-|[]]]; [apply L3; exact Hin|].
          exists t'. split; [exact Htid|]. split; [apply HTa; exact Eh|]. intros Hc. rewrite Hc in Tfree. discriminate.
        * destruct (Old l' Hk) as (O1 & _ & O4). split; [exact O1|exact O4].
      + destruct (ri_tgttabs _ _ HR i b' k l' Hb' Hk) as (N0 & Hall). split; [exact N0|].
        intros x Hin. destruct (Hall x Hin) as (tx & Hx & Hg & Hfr).
        assert (Hx' : x <> tid) by (apply (OT i b' x Hne Hb'); right; right; right; exists k, l'; split; assumption).
        exists tx. rewrite (Hoth x Hx'). split; [exact Hx|]. split; [exact Hg|exact Hfr].
    - (* tgttabs complete *) intros x tx' b' i y Hx Hf Hb Hr Hy. destruct (TC x tx' Hx) as [(-> & ->)|(Hne & Hx')].
      + rewrite Tarch in Hb. rewrite AA in Hb. injection Hb as <-. apply RC in Hr.
        assert (Eh : r2_has_target_b a t' (fst y) = true).
        { apply r2_has_target_b_iff. exists i, (snd y). split; [exact Hr|]. rewrite Hy. destruct y; reflexivity. }
        rewrite (LT (fst y)), Eh. eexists. split; [reflexivity|]. apply in_app_iff. right. left. reflexivity.
      + destruct (AC _ b' Hb) as [(E & ->)|(Hna & Hb')]; [|apply (ri_tgttabs_complete _ _ HR x tx' b' i y Hx' Hf Hb' Hr Hy)].
        rewrite <- E in Ha. apply RC in Hr. destruct (ri_tgttabs_complete _ _ HR x tx' a i y Hx' Hf Ha Hr Hy) as (l0 & Hk & Hin).
        rewrite (LT (fst y)). unfold r2_look. rewrite Hk. destruct (r2_has_target_b a t' (fst y)).
        * eexists. split; [reflexivity|]. apply in_app_iff. left. exact Hin.
        * exists l0. split; [reflexivity|exact Hin].
    - (* keys *) intros i b' j m' k l' Hb Hm Hk. destruct (AC i b' Hb) as [(-> & ->)|(Hne & Hb')]; [|apply (ri_keys _ _ HR i b' j m' k l' Hb' Hm Hk)].
      destruct (LR j m' Hm) as (m & Hm0 & Hf). rewrite (Hf k) in Hk. rewrite (LT k).
      destruct (r2_has_target_b a t' k) eqn:Eh; [eexists; reflexivity|].
      destruct (r2_hitb a (t_targets t') j k) eqn:Eh2.
      + apply r2_hitb_true in Eh2. destruct Eh2 as (Rc & g & Hg).
        assert (Hc : r2_has_target_b a t' k = true) by (apply r2_has_target_b_iff; exists j, g; split; assumption). congruence.
      + apply (ri_keys _ _ HR aid a j m k l' Ha Hm0 Hk).
    - (* relarchs *) destruct (ri_relarchs _ _ HR) as (N & I). rewrite E8. split; [exact N|]. intros i. rewrite (I i). split.
      + intros (b & Hb & Hn). destruct (Nat.eq_dec i aid) as [->|Hne].
        * rewrite Ha in Hb. injection Hb as <-. exists a2. split; [exact AA|]. rewrite F4. exact Hn.
        * exists b. rewrite (AS i Hne). split; assumption.
      + intros (b' & Hb & Hn). destruct (AC i b' Hb) as [(-> & ->)|(Hne & Hb')].
        * exists a. split; [exact Ha|]. rewrite <- F4. exact Hn.
        * exists b'. split; assumption.
    - (* targets ok *) intros x tx' r Hx Hf Hin. destruct (TC x tx' Hx) as [(-> & ->)|(Hne & Hx')].
      + rewrite Trels in Hin. destruct (V4 r Hin) as [Hz|Hl]; [left; exact Hz|right; left; apply Hlive; exact Hl].
      + destruct (ri_targets_ok _ _ HR x tx' r Hx' Hf Hin) as [Hz|[Hl|Hd]]; [left; exact Hz|right; left; apply Hlive; exact Hl|right; right; exact Hd]. }
  split; [|exact R]. split; [|split; [exact HR'|split]].
  - (* WF *) apply (r2_WF_relabel s s' HW R).
    + intros i b' x Hb Hl.
      destruct (AC i b' Hb) as [(-> & ->)|(Hne & Hb')].
      * assert (Hold : x = tid \/ exists tx, nth_error (w_tables s) x = Some tx /\ t_arch tx = aid).
        { destruct Hl as [Hl|[Hl|[Hl|Hl]]].
          - rewrite F5 in Hl. apply in_app_iff in Hl. destruct Hl as [Hl|[<-|[]]]; [right|left; reflexivity].
            apply (wf_arch_tables _ HW aid a x Ha). left. exact Hl.
          - right. apply (wf_arch_tables _ HW aid a x Ha). right. left. apply FreeSub. exact Hl.
          - destruct Hl as (j & m' & k & l' & Hm & Hk & Hin). destruct (LR j m' Hm) as (m & Hm0 & Hf). rewrite (Hf k) in Hk.
            destruct (r2_hitb a (t_targets t') j k).
            + injection Hk as <-. apply in_app_iff in Hin. destruct Hin as [Hin|[<-|[]]]; [right|left; reflexivity].
              unfold r2_look in Hin. destruct (afind k m) as [l0|] eqn:El0; [|destruct Hin].
              apply (wf_arch_tables _ HW aid a x Ha). right. right. left. exists j, m, k, l0. repeat split; assumption.
            + right. apply (wf_arch_tables _ HW aid a x Ha). right. right. left. exists j, m, k, l'. repeat split; assumption.
          - destruct Hl as (k & l' & Hk & Hin). rewrite (LT k) in Hk. destruct (r2_has_target_b a t' k).
            + injection Hk as <-. apply in_app_iff in Hin. destruct Hin as [Hin|[<-|[]]]; [right|left; reflexivity].
              unfold r2_look in Hin. destruct (afind k (a_tgttabs a)) as [l0|] eqn:El0; [|destruct Hin].
              apply (wf_arch_tables _ HW aid a x Ha). right. right. right. exists k, l0. split; assumption.
            + right. apply (wf_arch_tables _ HW aid a x Ha). right. right. right. exists k, l'. split; assumption. }
        destruct Hold as [->|(tx & Hx & Ex)]; [exists t'; split; assumption|].
        destruct (rl_tables_old _ _ R x tx Hx) as (tx' & Hx' & Sd & _). exists tx'. split; [exact Hx'|].
        destruct Sd as (_ & _ & _ & _ & _ & _ & S7). rewrite S7. exact Ex.
      * destruct (wf_arch_tables _ HW i b' x Hb' Hl) as (tx & Hx & Ex).
        destruct (rl_tables_old _ _ R x tx Hx) as (tx' & Hx' & Sd & _). exists tx'. split; [exact Hx'|].
        destruct Sd as (_ & _ & _ & _ & _ & _ & S7). rewrite S7. exact Ex.
    + intros i b' Hb Hn. destruct (AC i b' Hb) as [(-> & ->)|(Hne & Hb')]; [|apply (wf_arch_norel_table _ HW i b' Hb' Hn)].
      rewrite F4 in Hn. rewrite F5, (Hnorel Hn). cbn. lia.
  - (* flags *) intros i b' k l' Hb Hk. destruct (AC i b' Hb) as [(-> & ->)|(Hne & Hb')].
    + rewrite (LT k) in Hk. destruct (r2_has_target_b a t' k) eqn:Eh.
      * right. right. right. apply r2_has_target_b_iff in Eh. destruct Eh as (j & g & Rc & Hg).
        assert (Hc : exists c, nth_error (a_comps a) j = Some c).
        { destruct (nth_error (a_comps a) j) as [c|] eqn:Ec; [exists c; reflexivity|].
          apply nth_error_None in Ec. pose proof (sa_nth_error_lt _ _ _ _ Rc). lia. }
        destruct Hc as (c & Hc). assert (Hin : In (c, (k, g)) rels) by (apply SH1; exists j; repeat split; assumption).
        unfold r2_ids. apply in_map_iff. exists (c, (k, g)). split; [reflexivity|exact Hin].
      * destruct (HT aid a k l' Ha Hk) as [H0|[H1|H2]]; [left; exact H0|right; left; rewrite E5; exact H1|right; right; left; exact H2].
    + destruct (HT i b' k l' Hb' Hk) as [H0|[H1|H2]]; [left; exact H0|right; left; rewrite E5; exact H1|right; right; left; exact H2].
  - (* cache *) destruct HC as [CN CE]. constructor; [rewrite Ece; exact CN|].
    destruct (r2_masks_upd (w_archs s) aid a a2 Ha F1) as (MF & MB). rewrite <- EA in MF, MB.
    intros addr e' f Hin He' Hf. rewrite Ece in Hin. rewrite Efi in Hf.
    assert (He : exists e, nth_error (w_cheap s) addr = Some e).
    { destruct (nth_error (w_cheap s) addr) as [e|] eqn:Ee; [exists e; reflexivity|].
      apply nth_error_None in Ee. pose proof (sa_nth_error_lt _ _ _ _ He'). lia. }
    destruct He as (e & He). destruct (Hcheap addr e He) as (e'' & He'' & U1 & U2 & U3 & U4). rewrite He' in He''. injection He'' as <-.
    rewrite U2 in Hf. destruct (CE addr e f Hin He Hf) as (N & M & Bd & I).
    assert (Hmemb : memb addr (w_centries s) = true) by (apply sa_memb_in; exact Hin).
    rewrite Hmemb in U4. cbn [andb] in U4. unfold r2_cache_hit in U4. rewrite Hf in U4.
    assert (Hnotin : ~ In tid (ce_tables e)).
    { intros Hc. destruct (nth_error (w_tables s) tid) as [t0|] eqn:Et0.
      - apply (I tid (HXt t0 eq_refl)) in Hc. destruct Hc as (t1 & b & Ht1 & Hf1 & _). rewrite Et0 in Ht1. injection Ht1 as <-.
        destruct (Told t0 eq_refl) as (_ & Hc). congruence.
      - apply nth_error_None in Et0. pose proof (Bd tid Hc). lia. }
    assert (Hmem_tid : r2_cache_member s' f (ce_rels e) tid <->
              (filter_matches f (a_mask a) && (negb (tbl_has_rels t') || r2_is_some_true (tbl_matches t' (ce_rels e))))%bool = true).
    { unfold r2_cache_member. split.
      - intros (t1 & b & Ht1 & Hf1 & Hb & Hm & Hr). rewrite Htid in Ht1. injection Ht1 as <-. rewrite Tarch, AA in Hb. injection Hb as <-.
        rewrite F1 in Hm. rewrite Hm. cbn [andb]. unfold tbl_has_rels. destruct (t_rels t') as [|r0 rr] eqn:Er; [reflexivity|].
        cbn [negb orb]. rewrite Hr; [reflexivity|discriminate].
      - intros Hb. apply andb_true_iff in Hb. destruct Hb as (Hm & Hr). exists t', a2. rewrite Tarch, F1. repeat split; try assumption.
        intros Hne. unfold tbl_has_rels in Hr. destruct (t_rels t') as [|r0 rr]; [contradiction|]. cbn [negb orb] in Hr.
        destruct (tbl_matches t' (ce_rels e)) as [[|]|]; try discriminate. reflexivity. }
    rewrite U3. split; [|split; [exact M|split]].
    + rewrite U4. destruct (filter_matches f (a_mask a) && _)%bool; [apply r2_NoDup_snoc; assumption|exact N].
    + intros x Hx. rewrite U4 in Hx.
      assert (Hx0 : In x (ce_tables e) \/ x = tid).
      { destruct (filter_matches f (a_mask a) && _)%bool; [|left; exact Hx]. apply in_app_iff in Hx. destruct Hx as [Hx|[<-|[]]]; auto. }
      destruct Hx0 as [Hx0| ->]; [|eapply sa_nth_error_lt; exact Htid].
      pose proof (Bd x Hx0) as Hb. destruct (nth_error (w_tables s) x) as [tx|] eqn:Ex; [|apply nth_error_None in Ex; lia].
      destruct (rl_tables_old _ _ R x tx Ex) as (tx' & Hx' & _). eapply sa_nth_error_lt. exact Hx'.
    + intros x HXx. destruct (Nat.eq_dec x tid) as [->|Hne].
      * rewrite Hmem_tid, U4. destruct (filter_matches f (a_mask a) && _)%bool.
        -- split; [reflexivity|]. intros _. apply in_app_iff. right. left. reflexivity.
        -- split; [intros Hc; contradiction|discriminate].
      * assert (Hiff : In x (ce_tables e') <-> In x (ce_tables e)).
        { rewrite U4. destruct (filter_matches f (a_mask a) && _)%bool; [|tauto]. rewrite in_app_iff. cbn [In]. split; [intros [H|[H|[]]]; [exact H|congruence]|auto]. }
        rewrite Hiff, (I x HXx). unfold r2_cache_member. rewrite (Hoth x Hne). split.
        -- intros (tx & b & H1 & H2 & H3 & H4 & H5). destruct (MF _ _ H3) as (b' & Hb' & Em). exists tx, b'. rewrite Em. repeat split; assumption.
        -- intros (tx & b' & H1 & H2 & H3 & H4 & H5). destruct (MB _ _ H3) as (b & Hb & Em). exists tx, b. rewrite <- Em. repeat split; assumption.
Qed.

(** ** create_table *)

Definition r2_nostale (a : arch) : Prop :=
  forall x, In x (a_free a) ->
    (forall k l, afind k (a_tgttabs a) = Some l -> ~ In x l) /\
    (forall i m k l, nth_error (a_reltabs a) i = Some m -> afind k m = Some l -> ~ In x l).

Lemma r2_kinds_isrel : forall s aid a, WF s -> nth_error (w_archs s) aid = Some a ->
  (forall j kd, nth_error (map (kind_of s) (a_comps a)) j = Some kd -> nth_error (a_isrel a) j = Some (ck_rel kd)) /\
  length (map (kind_of s) (a_comps a)) = length (a_isrel a).
Proof.
  intros s aid a HW Ha. destruct (wf_arch_comps _ HW aid a Ha) as (_ & _ & C3 & _). rewrite C3. split.
  - intros j kd H. rewrite nth_error_map in H |- *. destruct (nth_error (a_comps a) j) as [c|]; [|discriminate].
    cbn in H |- *. injection H as <-. reflexivity.
  - rewrite !map_length. reflexivity.
Qed.

Lemma r2_norel_cols : forall s aid a, WF s -> nth_error (w_archs s) aid = Some a -> a_numrel a = 0 -> forall j, ~ r2_relcol a j.
Proof.
  intros s aid a HW Ha Hn j Hr. destruct (wf_arch_comps _ HW aid a Ha) as (_ & _ & _ & C4 & _). rewrite Hn in C4.
  symmetry in C4. apply length_zero_iff_nil in C4.
  assert (Hin : In true (filter (fun b : bool => b) (a_isrel a))) by (apply filter_In; split; [eapply nth_error_In; exact Hr|reflexivity]).
  rewrite C4 in Hin. destruct Hin.
Qed.

Lemma r2_is_rel_comp_kind : forall s c, is_rel_comp s c = ck_rel (kind_of s c).
Proof. intros s c. unfold is_rel_comp, kind_of. destruct (nth_error (w_reg s) c); reflexivity. Qed.

Lemma r2_rels_match_defined : forall t rels,
  (forall r, In r rels -> tbl_target t (fst r) <> None) -> rels_match t rels <> None.
Proof.
  intros t rels. induction rels as [|[c x] rest IH]; intros H; cbn [rels_match]; [discriminate|].
  destruct (tbl_target t c) as [y|] eqn:Ey; [|exfalso; apply (H (c, x)); [left; reflexivity|exact Ey]].
  destruct (ent_eqb x y); [apply IH; intros r Hr; apply H; right; exact Hr|discriminate].
Qed.

Lemma r2_tbl_matches_defined : forall t rels,
  (forall r, In r rels -> tbl_target t (fst r) <> None) -> tbl_matches t rels <> None.
Proof.
  intros t rels H. unfold tbl_matches. destruct rels as [|r0 rr]; [discriminate|].
  destruct (tbl_has_rels t); [apply r2_rels_match_defined; exact H|discriminate].
Qed.

(** a registered filter's relations are columns of every table whose archetype it matches *)
Lemma r2_cache_target_defined : forall s aid a t f rs, WF s -> nth_error (w_archs s) aid = Some a ->
  t_ids t = a_comps a -> length (t_targets t) = length (a_comps a) ->
  filter_matches f (a_mask a) = true -> (forall r, In r rs -> mk_get (f_mask f) (fst r) = true) ->
  tbl_matches t rs <> None.
Proof.
  intros s aid a t f rs HW Ha Hids Hlen Hm Hrs. apply r2_tbl_matches_defined. intros r Hr.
  unfold filter_matches in Hm. apply andb_true_iff in Hm. destruct Hm as (Hm & _).
  pose proof (proj1 (mk_contains_spec _ _) Hm (fst r) (Hrs r Hr)) as Hg.
  destruct (wf_arch_comps _ HW aid a Ha) as (C1 & C2 & _).
  assert (Hin : In (fst r) (a_comps a)) by (rewrite C1; apply mk_to_list_spec; split; [apply C2; exact Hg|exact Hg]).
  destruct (sa_in_index_of _ _ Hin) as (i & Hi). unfold tbl_target, tbl_colidx. rewrite Hids, Hi.
  pose proof (rl_index_of_some _ _ _ Hi) as Hn. apply sa_nth_error_lt in Hn.
  destruct (nth_error (t_targets t) i) eqn:E; [discriminate|]. apply nth_error_None in E. lia.
Qed.

Lemma r2_rev_last : forall A (l : list A) f tl, rev l = f :: tl ->
  l = rev tl ++ [f] /\ firstn (length l - 1) l = rev tl.
Proof.
  intros A l f tl H. assert (E : l = rev tl ++ [f]) by (rewrite <- (rev_involutive l), H; reflexivity).
  split; [exact E|]. rewrite E, app_length. cbn [length]. replace (length (rev tl) + 1 - 1) with (length (rev tl) + 0) by lia.
  rewrite firstn_app_2. cbn. apply app_nil_r.
Qed.

Lemma r2_updf_updf : forall A (l : list A) i g h a, nth_error l i = Some a ->
  updf i g (updf i h l) = upd i (g (h a)) l.
Proof.
  intros A l i g h a H. rewrite (r2_updf_some _ l i h a H).
  assert (H2 : nth_error (upd i (h a) l) i = Some (h a)) by (apply (r2_upd_same _ _ _ _ _ H)).
  rewrite (r2_updf_some _ _ i g (h a) H2). clear H2. revert i H. induction l as [|y t IH]; intros i H; [destruct i; discriminate|].
  destruct i as [|i]; cbn; [reflexivity|]. f_equal. apply IH. exact H.
Qed.

Lemma r2_check_rels_ok : forall s aid a rels, WF s -> nth_error (w_archs s) aid = Some a -> r2_rels_valid s a rels ->
  forM_ rels check_rel s = Ok tt s.
Proof.
  intros s aid a rels HW Ha (V1 & V2 & V3 & V4). destruct (rl_forM_check_rel rels s) as [(E & _)|(_ & Hex)]; [exact E|].
  exfalso. apply Exists_exists in Hex. destruct Hex as (r & Hin & Hbad). unfold rl_rel_ok in Hbad.
  apply andb_false_iff in Hbad. destruct Hbad as [Hb|Hb].
  - assert (Hc : In (fst r) (map fst rels)) by (apply in_map; exact Hin). apply V3 in Hc. destruct Hc as (i & Hi & Hr).
    rewrite r2_is_rel_comp_kind in Hb. destruct (wf_arch_comps _ HW aid a Ha) as (_ & _ & C3 & _).
    unfold r2_relcol in Hr. rewrite C3, nth_error_map, Hi in Hr. cbn in Hr. injection Hr as Hr. congruence.
  - apply orb_false_iff in Hb. destruct Hb as (Hb1 & Hb2). destruct (V4 r Hin) as [Hz|Hl].
    + rewrite Hz in Hb1. discriminate.
    + destruct (live_alive s (snd r) HW Hl) as (Hal & _). congruence.
Qed.

(** The part of createTable after the checks and the registration of the targets. *)
Definition r2_create_tail (aid : nat) (a : arch) (rels : list rel) (targets : list ent) : MW nat :=
  s <- get ;;
  tid <- (match rev (a_free a) with
          | f :: _ =>
              modA aid (fun a => a <| a_free ::= fun l => firstn (length l - 1) l |>) ;;;
              modT f (fun t => t <| t_rels := rels |> <| t_targets := targets |> <| t_free := false |>) ;;;
              ret f
          | [] =>
              let tid := length (w_tables s) in
              let cap := if arch_has_rels a then cf_caprel (w_cfg s) else cf_cap (w_cfg s) in
              let kinds := map (kind_of s) (a_comps a) in
              modify (fun s => s <| w_tables ::= fun l => l ++ [new_table aid a kinds cap targets rels] |>) ;;;
              ret tid
          end) ;;
  t <- getT tid ;;
  modA aid (fun a => arch_add_table a tid t) ;;;
  cache_add_table tid t (a_mask a) ;;;
  ret tid.

Lemma r2_create_table_unfold : forall aid rels,
  create_table aid rels =
  (a <- getA aid ;;
   guard (negb (Nat.ltb (length rels) (a_numrel a))) ERelUnspec ;;;
   guard (rels_distinct rels) ERelUnspec ;;;
   targets <- of_opt (place_targets a rels (repeat zero_ent (length (a_comps a)))) EIndex ;;
   forM_ rels check_rel ;;;
   register_targets rels ;;;
   r2_create_tail aid a rels targets).
Proof. reflexivity. Qed.

(** The tail of createTable (both paths: a fresh table is appended, or the top of the archetype's
    free stack is relabelled and reused) preserves the invariant, except that the registrations of the
    table's targets are still required ([r2_addl P (r2_ids rels)]): [r2_create_table_spec] below
    discharges them, because createTable has registered the targets just before. *)
Lemma r2_create_tail_spec : forall D P X s aid a rels tg,
  St2G D P X s -> nth_error (w_archs s) aid = Some a ->
  r2_rels_valid s a rels ->
  place_targets a rels (repeat zero_ent (length (a_comps a))) = Some tg ->
  (forall x tx, nth_error (w_tables s) x = Some tx -> t_arch tx = aid -> t_free tx = false -> t_targets tx <> tg) ->
  (a_numrel a = 0 -> a_tables a = []) ->
  r2_nostale a ->
  (forall x, In x (a_free a) -> ~ X x) ->
  exists tid s' t', r2_create_tail aid a rels tg s = Ok tid s' /\
    St2G D (r2_addl P (r2_ids rels)) X s' /\ r2_relabel s s' /\
    nth_error (w_tables s') tid = Some t' /\ t_arch t' = aid /\ t_rels t' = rels /\ t_free t' = false /\ t_len t' = 0 /\
    t_targets t' = tg /\
    (forall x, x <> tid -> nth_error (w_tables s') x = nth_error (w_tables s) x) /\
    (forall i, i <> aid -> nth_error (w_archs s') i = nth_error (w_archs s) i) /\
    ((tid = length (w_tables s) /\ a_free a = []) \/ (exists fr, a_free a = fr ++ [tid])) /\
    w_istarget s' = w_istarget s /\ w_index s' = w_index s /\ w_pool s' = w_pool s /\ side_same s s' /\ frame_user s s'.
Proof.
  intros D P X s aid a rels tg HS Ha HV Htg Huniq Hnorel Hstale HXf. pose proof HS as (HW & HR & HT & HC). pose proof HV as (V1 & V2 & V3 & V4).
  destruct (r2_isrel_len s aid a HW Ha) as (LI & LRl).
  pose proof (r2_comps_nodup s aid a HW Ha) as NDc.
  destruct (r2_valid_shape s aid a rels tg HW Ha HV Htg) as (SL & _ & _).
  destruct (r2_kinds_isrel s aid a HW Ha) as (HK & HKL).
  pose proof (r2_norel_cols s aid a HW Ha) as Hnc.
  unfold r2_create_tail.
  rewrite (sa_bind_ok (m := get) (s := s) eq_refl).
  set (kinds := map (kind_of s) (a_comps a)) in *.
  destruct (rev (a_free a)) as [|f tl] eqn:Erev.
  - (* fresh table *)
    assert (Efree : a_free a = []) by (rewrite <- (rev_involutive (a_free a)), Erev; reflexivity).
    set (cap := if arch_has_rels a then cf_caprel (w_cfg s) else cf_cap (w_cfg s)).
    set (t' := new_table aid a kinds cap tg rels). set (tid := length (w_tables s)).
    set (s1 := s <| w_tables ::= fun l => l ++ [t'] |>).
    assert (Ev1 : (modify (fun s0 : wstate => s0 <| w_tables ::= fun l => l ++ [t'] |>) ;;; ret tid) s = Ok tid s1) by reflexivity.
    rewrite (sa_bind_ok Ev1).
    assert (T1 : nth_error (w_tables s1) tid = Some t') by (unfold s1; cbn; apply sa_nth_error_snoc_new).
    rewrite (sa_bind_ok (sa_getT_eq _ _ _ T1)).
    set (a2 := arch_add_table a tid t').
    set (s2 := s1 <| w_archs ::= updf aid (fun a0 => arch_add_table a0 tid t') |>).
    assert (Ev2 : modA aid (fun a0 => arch_add_table a0 tid t') s1 = Ok tt s2) by reflexivity.
    rewrite (sa_bind_ok Ev2).
    assert (EA2 : w_archs s2 = upd aid a2 (w_archs s)).
    { unfold s2, s1, a2. cbn. apply (r2_updf_some _ _ _ (fun a0 => arch_add_table a0 tid t') _ Ha). }
    assert (NLt : forall k l, afind k (a_tgttabs a) = Some l -> ~ In tid l).
    { intros k l Hk Hin. destruct (wf_arch_tables _ HW aid a tid Ha) as (t0 & Ht0 & _); [right; right; right; exists k, l; split; assumption|].
      apply sa_nth_error_lt in Ht0. unfold tid in Ht0. lia. }
    assert (NLr : forall i m k l, nth_error (a_reltabs a) i = Some m -> afind k m = Some l -> ~ In tid l).
    { intros i m k l Hm Hk Hin. destruct (wf_arch_tables _ HW aid a tid Ha) as (t0 & Ht0 & _); [right; right; left; exists i, m, k, l; repeat split; assumption|].
      apply sa_nth_error_lt in Ht0. unfold tid in Ht0. lia. }
    destruct (r2_arch_add_table_spec a tid t' HK HKL Hnc NLt) as (G1 & G2 & G3 & G4 & G5 & G6 & G7 & GLR & _).
    pose proof (r2_add_table_tgttabs_b a tid t' HK HKL Hnc NLt) as GLT.
    destruct HC as [CN CE].
    destruct (r2_cache_add_table_gen s2 tid t' (a_mask a)) as (l' & Ev3 & LL & Pp).
    { exact CN. }
    { intros addr Hin. destruct (wf_cache _ HW addr Hin) as (e & He & Hf).
      destruct (nth_error (w_filters s) (ce_filter e)) as [f|] eqn:Ef; [|apply nth_error_None in Ef; lia].
      exists e, f. split; [exact He|]. split; [exact Ef|]. intros Hm _.
      destruct (CE addr e f Hin He Ef) as (_ & M & _).
      apply (r2_cache_target_defined s aid a t' f (ce_rels e) HW Ha); [reflexivity|exact SL|exact Hm|exact M]. }
    rewrite (sa_bind_ok Ev3). unfold ret. set (s3 := s2 <| w_cheap := l' |>).
    exists tid, s3, t'. split; [reflexivity|].
    assert (Hoth : forall x, x <> tid -> nth_error (w_tables s3) x = nth_error (w_tables s) x).
    { intros x Hx. change (w_tables s3) with (w_tables s ++ [t']). destruct (Nat.lt_ge_cases x (length (w_tables s))) as [Hlt|Hge].
      - apply nth_error_app1. exact Hlt.
      - rewrite (proj2 (nth_error_None _ _)); [|rewrite app_length; cbn; unfold tid in Hx; lia].
        symmetry. apply nth_error_None. exact Hge. }
    assert (Htid3 : nth_error (w_tables s3) tid = Some t') by exact T1.
    assert (Hinv : St2G D (r2_addl P (r2_ids rels)) X s3 /\ r2_relabel s s3).
    { apply (r2_create_inv D P X s s3 aid a a2 tid t' rels HS Ha HV); try reflexivity; try assumption.
      - apply new_table_ok. unfold kinds. apply map_length.
      - left. split; [apply nth_error_None; unfold tid; lia|exact G6].
      - intros t0 Ht0. apply sa_nth_error_lt in Ht0. unfold tid in Ht0. lia. }
    destruct Hinv as (HS3 & R3).
    split; [exact HS3|]. split; [exact R3|]. split; [exact Htid3|]. split; [reflexivity|]. split; [reflexivity|].
    split; [reflexivity|]. split; [reflexivity|]. split; [reflexivity|]. split; [exact Hoth|]. split.
    { intros i Hi. change (w_archs s3) with (w_archs s2). rewrite EA2. apply r2_upd_other. exact Hi. }
    split; [left; split; [reflexivity|exact Efree]|].
    split; [reflexivity|]. split; [reflexivity|]. split; [reflexivity|].
    split; [unfold side_same; cbn; repeat split|unfold frame_user; cbn; repeat split].
  - (* recycle the top of the free stack *)
    destruct (r2_rev_last _ (a_free a) f tl Erev) as (Efree & Epop).
    assert (Hfin : In f (a_free a)) by (rewrite Efree; apply in_app_iff; right; left; reflexivity).
    destruct (wf_arch_tables _ HW aid a f Ha (or_intror (or_introl Hfin))) as (t0 & Ht0 & Earch0).
    destruct (ri_freed _ _ HR aid a f t0 Ha Hfin Ht0) as (Hfree0 & Hlen0).
    destruct (wf_layout _ HW f t0 Ht0) as (a0 & Ha0 & Lids & Lkinds & Ltg). rewrite Earch0, Ha in Ha0. injection Ha0 as <-.
    set (pop := fun a0 : arch => a0 <| a_free ::= fun l => firstn (length l - 1) l |>).
    set (relab := fun t : table => t <| t_rels := rels |> <| t_targets := tg |> <| t_free := false |>).
    set (t' := relab t0). set (a1 := pop a).
    set (s1 := s <| w_archs ::= updf aid pop |> <| w_tables ::= updf f relab |>).
    assert (Ev1 : (modA aid pop ;;; modT f relab ;;; ret f) s = Ok f s1) by reflexivity.
    rewrite (sa_bind_ok Ev1).
    assert (T1 : nth_error (w_tables s1) f = Some t').
    { unfold s1. cbn. rewrite (r2_updf_some _ _ _ relab _ Ht0). apply (r2_upd_same _ _ _ _ _ Ht0). }
    rewrite (sa_bind_ok (sa_getT_eq _ _ _ T1)).
    set (a2 := arch_add_table a1 f t').
    set (s2 := s1 <| w_archs ::= updf aid (fun a0 => arch_add_table a0 f t') |>).
    assert (Ev2 : modA aid (fun a0 => arch_add_table a0 f t') s1 = Ok tt s2) by reflexivity.
    rewrite (sa_bind_ok Ev2).
    assert (EA2 : w_archs s2 = upd aid a2 (w_archs s)).
    { unfold s2, s1, a2, a1. cbn. apply (r2_updf_updf _ _ _ (fun a0 => arch_add_table a0 f t') pop _ Ha). }
    destruct (Hstale f Hfin) as (NLt & NLr).
    assert (Tk : t_kinds t' = kinds) by (unfold kinds; rewrite <- Lids; exact Lkinds).
    assert (HK1 : forall j kd, nth_error (t_kinds t') j = Some kd -> nth_error (a_isrel a1) j = Some (ck_rel kd)) by (rewrite Tk; exact HK).
    assert (HKL1 : length (t_kinds t') = length (a_isrel a1)) by (rewrite Tk; exact HKL).
    destruct (r2_arch_add_table_spec a1 f t' HK1 HKL1 Hnc NLt) as (G1 & G2 & G3 & G4 & G5 & G6 & G7 & GLR & _).
    pose proof (r2_add_table_tgttabs_b a1 f t' HK1 HKL1 Hnc NLt) as GLT.
    destruct HC as [CN CE].
    destruct (r2_cache_add_table_gen s2 f t' (a_mask a)) as (l' & Ev3 & LL & Pp).
    { exact CN. }
    { intros addr Hin. destruct (wf_cache _ HW addr Hin) as (e & He & Hf).
      destruct (nth_error (w_filters s) (ce_filter e)) as [fo|] eqn:Ef; [|apply nth_error_None in Ef; lia].
      exists e, fo. split; [exact He|]. split; [exact Ef|]. intros Hm _.
      destruct (CE addr e fo Hin He Ef) as (_ & M & _).
      apply (r2_cache_target_defined s aid a t' fo (ce_rels e) HW Ha); [exact Lids|exact SL|exact Hm|exact M]. }
    rewrite (sa_bind_ok Ev3). unfold ret. set (s3 := s2 <| w_cheap := l' |>).
    exists f, s3, t'. split; [reflexivity|].
    assert (Hoth : forall x, x <> f -> nth_error (w_tables s3) x = nth_error (w_tables s) x).
    { intros x Hx. change (w_tables s3) with (updf f relab (w_tables s)). rewrite (r2_updf_some _ _ _ relab _ Ht0).
      apply r2_upd_other. exact Hx. }
    assert (Htid3 : nth_error (w_tables s3) f = Some t') by exact T1.
    assert (Hinv : St2G D (r2_addl P (r2_ids rels)) X s3 /\ r2_relabel s s3).
    { assert (Sd : table_same_data t0 t') by (unfold table_same_data; repeat split).
      apply (r2_create_inv D P X s s3 aid a a2 f t' rels HS Ha HV); try reflexivity; try assumption.
      - apply (r2_tbl_ok_same_data t0 t' Sd). pose proof (wf_tables _ HW) as Fo. rewrite Forall_nth_error in Fo. apply (Fo f t0 Ht0).
      - right. exists t0. split; [exact Ht0|]. split; [exact Sd|]. split; [exact Hfree0|].
        unfold a2. rewrite G6. change (a_free a1) with (firstn (length (a_free a) - 1) (a_free a)). rewrite Epop. exact Efree.
      - intros _ _. apply (HXf f Hfin). }
    destruct Hinv as (HS3 & R3).
    split; [exact HS3|]. split; [exact R3|]. split; [exact Htid3|]. split; [exact Earch0|]. split; [reflexivity|].
    split; [reflexivity|]. split; [exact Hlen0|]. split; [reflexivity|]. split; [exact Hoth|]. split.
    { intros i Hi. change (w_archs s3) with (w_archs s2). rewrite EA2. apply r2_upd_other. exact Hi. }
    split; [right; exists (rev tl); exact Efree|].
    split; [reflexivity|]. split; [reflexivity|]. split; [reflexivity|].
    split; [unfold side_same; cbn; repeat split|unfold frame_user; cbn; repeat split].
Qed.

(** ** create_table as a whole: the targets are registered together with their table *)

(** What createTable does to the target flags: those of the named targets are set, all others are
    unchanged (in particular no flag is ever cleared). *)
Definition r2_flags_reg (s s' : W) (rels : list rel) : Prop :=
  length (w_istarget s') = length (w_istarget s) /\
  (forall r, In r rels -> nth (fst (snd r)) (w_istarget s') false = true) /\
  (forall k, ~ In k (r2_ids rels) -> nth k (w_istarget s') false = nth k (w_istarget s) false) /\
  (forall k, nth k (w_istarget s) false = true -> nth k (w_istarget s') false = true).

(** the weaker fact that also holds when GetTable finds the table (nothing changes then) *)
Definition r2_flags_mono (s s' : W) (rels : list rel) : Prop :=
  length (w_istarget s') = length (w_istarget s) /\
  (forall k, ~ In k (r2_ids rels) -> nth k (w_istarget s') false = nth k (w_istarget s) false) /\
  (forall k, nth k (w_istarget s) false = true -> nth k (w_istarget s') false = true).

Lemma r2_flags_reg_mono : forall s s' rels, r2_flags_reg s s' rels -> r2_flags_mono s s' rels.
Proof. intros s s' rels (F1 & _ & F3 & F4). repeat split; assumption. Qed.

Lemma r2_flags_mono_refl : forall s rels, r2_flags_mono s s rels.
Proof. intros s rels. repeat split; auto. Qed.

(** a relabelling of a world whose flags were changed first is a relabelling of the original world *)
Lemma r2_relabel_pre : forall s l' s3, length l' = length (w_istarget s) ->
  r2_relabel (s <| w_istarget := l' |>) s3 -> r2_relabel s s3.
Proof.
  intros s l' s3 Hl R. destruct R as [R1 R2 R3 R4 R5 R6 R7 R8 R9 R10 R11 R12 R13 R14].
  constructor; try assumption. rewrite R5. exact Hl.
Qed.

Lemma r2_live_index : forall s e, WF s -> live s e = true -> fst e < length (w_istarget s).
Proof.
  intros s e HW H. unfold live, loc in H. destruct (nth_error (w_index s) (fst e)) as [ix|] eqn:E; [|discriminate].
  destruct (wf_index_len _ HW) as (_ & L). rewrite L. eapply sa_nth_error_lt. exact E.
Qed.

Lemma r2_zero_index : forall s, WF s -> 0 < length (w_istarget s).
Proof.
  intros s HW. destruct (wf_index_len _ HW) as (L1 & L2). destruct (wf_pool _ HW) as (fl & (Hp & _) & _). lia.
Qed.

(** createTable with valid relations never fails and preserves the invariant, and NO registration
    is pending afterwards: the targets are registered (flags set) before the table is entered into
    the archetype's lists. Both paths: a fresh table is appended, or the top of the archetype's free
    stack is relabelled and reused. *)
Theorem r2_create_table_spec : forall D P X s aid a rels,
  St2G D P X s -> nth_error (w_archs s) aid = Some a ->
  r2_rels_valid s a rels ->
  (forall x tx tg, nth_error (w_tables s) x = Some tx -> t_arch tx = aid -> t_free tx = false ->
     place_targets a rels (repeat zero_ent (length (a_comps a))) = Some tg -> t_targets tx <> tg) ->
  (a_numrel a = 0 -> a_tables a = []) ->
  r2_nostale a ->
  (forall x, In x (a_free a) -> ~ X x) ->
  exists tid s' t', create_table aid rels s = Ok tid s' /\
    St2G D P X s' /\ r2_relabel s s' /\
    nth_error (w_tables s') tid = Some t' /\ t_arch t' = aid /\ t_rels t' = rels /\ t_free t' = false /\ t_len t' = 0 /\
    place_targets a rels (repeat zero_ent (length (a_comps a))) = Some (t_targets t') /\
    (forall x, x <> tid -> nth_error (w_tables s') x = nth_error (w_tables s) x) /\
    (forall i, i <> aid -> nth_error (w_archs s') i = nth_error (w_archs s) i) /\
    ((tid = length (w_tables s) /\ a_free a = []) \/ (exists fr, a_free a = fr ++ [tid])) /\
    r2_flags_reg s s' rels /\ w_index s' = w_index s /\ w_pool s' = w_pool s /\ side_same s s' /\ frame_user s s'.
Proof.
  intros D P X s aid a rels HS Ha HV Huniq Hnorel Hstale HXf. pose proof HS as (HW & HR & HT & HC). pose proof HV as (V1 & V2 & V3 & V4).
  pose proof (r2_comps_nodup s aid a HW Ha) as NDc.
  destruct (r2_place_targets_some a rels (repeat zero_ent (length (a_comps a)))) as (tg & Htg).
  { intros r Hr. assert (Hc : In (fst r) (map fst rels)) by (apply in_map; exact Hr). apply V3 in Hc.
    destruct Hc as (i & Hi & _). exists i. apply r2_index_of_nth; assumption. }
  (* the registration *)
  destruct (r2_register_targets_gen rels s) as (l' & S1 & L1 & M1 & O1 & F1).
  assert (Hok : is_err (register_targets rels s) = false).
  { destruct (is_err (register_targets rels s)) eqn:E; [|reflexivity]. exfalso.
    destruct (F1 eq_refl) as (r & Hr & Hle). destruct (V4 r Hr) as [Hz|Hl].
    - rewrite Hz in Hle. cbn in Hle. pose proof (r2_zero_index s HW). lia.
    - pose proof (r2_live_index s (snd r) HW Hl). lia. }
  set (s1 := s <| w_istarget := l' |>) in *.
  assert (Ereg : register_targets rels s = Ok tt s1).
  { destruct (register_targets rels s) as [[] s0|e0 s0]; [|discriminate]. cbn in S1. rewrite S1. reflexivity. }
  assert (Fr : forall k, ~ In k (r2_ids rels) -> nth k l' false = nth k (w_istarget s) false).
  { intros k Hk. pose proof (r2_register_targets_frame rels s k Hk) as Hf. rewrite Ereg in Hf. exact Hf. }
  assert (HS1 : St2G D P X s1).
  { apply (r2_St2G_flags D P P X s l' HS L1). intros i b k l Hb Hk.
    destruct (HT i b k l Hb Hk) as [H0|[H1|H2]]; [left; exact H0|right; left; apply M1; exact H1|right; right; exact H2]. }
  assert (HV1 : r2_rels_valid s1 a rels).
  { split; [exact V1|]. split; [exact V2|]. split; [exact V3|]. intros r Hr. destruct (V4 r Hr) as [Hz|Hl]; [left; exact Hz|right].
    rewrite (r2_live_ext s s1); [exact Hl|reflexivity|reflexivity]. }
  destruct (r2_create_tail_spec D P X s1 aid a rels tg HS1 Ha HV1 Htg)
    as (tid & s' & t' & E & HS' & R & Ht' & Earch & Erels & Hf & Hlen & Etg & Hoth & Haoth & Hcase & I1 & I2 & I3 & I4 & I5).
  { intros x tx Hx Ex Hfx. apply (Huniq x tx tg Hx Ex Hfx Htg). }
  { exact Hnorel. }
  { exact Hstale. }
  { exact HXf. }
  exists tid, s', t'. split.
  { rewrite r2_create_table_unfold.
    rewrite (sa_bind_ok (sa_getA_eq _ _ _ Ha)). rewrite V2, Nat.ltb_irrefl. cbn [negb guard].
    rewrite (sa_bind_ok (m := ret tt) (s := s) eq_refl).
    rewrite (r2_rels_distinct_nodup rels V1). cbn [guard]. rewrite (sa_bind_ok (m := ret tt) (s := s) eq_refl).
    rewrite Htg. cbn [of_opt].
    rewrite (sa_bind_ok (m := ret tg) (s := s) eq_refl).
    rewrite (sa_bind_ok (r2_check_rels_ok s aid a rels HW Ha HV)).
    rewrite (sa_bind_ok Ereg). exact E. }
  assert (Hflag : forall r, In r rels -> nth (fst (snd r)) l' false = true) by (intros r Hr; apply (O1 Hok r Hr)).
  change (w_istarget s1) with l' in I1.
  split.
  { destruct HS' as (HW' & HR' & HT' & HC'). split; [exact HW'|]. split; [exact HR'|]. split; [|exact HC'].
    intros i b k l Hb Hk. destruct (HT' i b k l Hb Hk) as [H0|[H1|[H2|H3]]]; [left; exact H0|right; left; exact H1|right; right; exact H2|].
    right. left. rewrite I1. unfold r2_ids in H3. apply in_map_iff in H3. destruct H3 as (r & <- & Hr). apply Hflag. exact Hr. }
  split; [apply (r2_relabel_pre s l' s' L1 R)|].
  split; [exact Ht'|]. split; [exact Earch|]. split; [exact Erels|]. split; [exact Hf|]. split; [exact Hlen|].
  split; [rewrite Etg; exact Htg|]. split; [exact Hoth|]. split; [exact Haoth|]. split; [exact Hcase|].
  split.
  { unfold r2_flags_reg. rewrite I1. split; [exact L1|]. split; [exact Hflag|]. split; [exact Fr|exact M1]. }
  split; [exact I2|]. split; [exact I3|]. split; [exact I4|exact I5].
Qed.

(** ** What the invariant says about the observable targets (first sentence of C04) *)

(** Every relation target a live entity shows is the zero entity or a stored entity (or, inside an
    operation, an entity that is being removed). *)
Theorem r2_targets_zero_or_live : forall D s e c x, WF s -> RelInvG D s ->
  tgt s e c = Some x -> r2_tgt_ok D s x.
Proof.
  intros D s e c x HW HR H. unfold tgt in H. destruct (live s e) eqn:Hl; [|discriminate].
  unfold live in Hl. unfold target_of in H. destruct (loc s e) as [[tid r]|]; [|discriminate].
  destruct (nth_error (w_tables s) tid) as [t|] eqn:Ht; [|discriminate].
  apply andb_true_iff in Hl. destruct Hl as (Hr & _). apply Nat.ltb_lt in Hr.
  destruct (wf_layout _ HW tid t Ht) as (a & Ha & Lids & _ & Ltg).
  assert (Hnf : t_free t = false).
  { destruct (t_free t) eqn:Ef; [|reflexivity]. destruct (ri_listed _ _ HR tid t Ht) as (a0 & Ha0 & Hin).
    rewrite Ef in Hin. destruct (ri_freed _ _ HR _ a0 tid t Ha0 Hin Ht) as (_ & Hz). lia. }
  unfold tbl_target, tbl_colidx in H. destruct (index_of c (t_ids t)) as [i|] eqn:Ei; [|discriminate].
  pose proof (rl_index_of_some _ _ _ Ei) as Hc. rewrite Lids in Hc.
  destruct (r2_isrel_len s _ a HW Ha) as (LI & _).
  destruct (nth_error (a_isrel a) i) as [[|]|] eqn:Eb.
  - destruct (ri_shape _ _ HR tid t a Ht Ha) as (_ & S2 & _).
    assert (Hin : In (c, x) (t_rels t)) by (apply S2; exists i; repeat split; assumption).
    apply (ri_targets_ok _ _ HR tid t (c, x) Ht Hnf Hin).
  - destruct (ri_shape _ _ HR tid t a Ht Ha) as (_ & _ & S3 & _). rewrite (S3 i Eb) in H. injection H as <-. left. reflexivity.
  - apply nth_error_None in Eb. apply sa_nth_error_lt in Hc. lia.
Qed.

Corollary r2_St2_targets : forall s e c x, St2 s -> tgt s e c = Some x -> x = zero_ent \/ live s x = true.
Proof.
  intros s e c x (HW & (HR & _) & _) H. destruct (r2_targets_zero_or_live r2_none s e c x HW HR H) as [Hz|[Hl|[]]]; auto.
Qed.

(** ** get_or_create_table *)

Lemma r2_rels_match_exact_cases : forall tb l,
  (forall r, In r l -> exists i kd y, tbl_colidx tb (fst r) = Some i /\ nth_error (t_kinds tb) i = Some kd /\
                                      ck_rel kd = true /\ nth_error (t_targets tb) i = Some y) ->
  (rels_match_exact tb l = MTrue /\ forall r, In r l -> tbl_target tb (fst r) = Some (snd r)) \/
  (rels_match_exact tb l = MFalse /\ exists r, In r l /\ tbl_target tb (fst r) <> Some (snd r)).
Proof.
  intros tb l. induction l as [|[c x] rest IH]; intros H.
  - left. split; [reflexivity|intros r []].
  - destruct (H (c, x) (or_introl eq_refl)) as (i & kd & y & Hi & Hk & Hr & Hy). cbn [fst] in Hi.
    cbn [rels_match_exact]. rewrite Hi, Hk, Hy, Hr. cbn [negb].
    assert (Ht : tbl_target tb c = Some y) by (unfold tbl_target; rewrite Hi; exact Hy).
    destruct (ent_eqb x y) eqn:Ee.
    + apply sa_ent_eqb_eq in Ee. subst y. destruct IH as [(E & Hall)|(E & r & Hin & Hne)].
      * intros r Hr0. apply H. right. exact Hr0.
      * left. split; [exact E|]. intros r [<-|Hin]; [exact Ht|apply Hall; exact Hin].
      * right. split; [exact E|]. exists r. split; [right; exact Hin|exact Hne].
    + right. split; [reflexivity|]. exists (c, x). split; [left; reflexivity|]. cbn [fst snd]. rewrite Ht.
      intros Hc. injection Hc as ->. rewrite sa_ent_eqb_refl in Ee. discriminate.
Qed.

Lemma r2_rel_columns : forall s tid tb a (rels : list rel), WF s ->
  nth_error (w_tables s) tid = Some tb -> nth_error (w_archs s) (t_arch tb) = Some a ->
  (forall c, In c (map fst rels) -> exists i, nth_error (a_comps a) i = Some c /\ r2_relcol a i) ->
  forall r, In r rels -> exists i kd y, tbl_colidx tb (fst r) = Some i /\ nth_error (t_kinds tb) i = Some kd /\
                                        ck_rel kd = true /\ nth_error (t_targets tb) i = Some y.
Proof.
  intros s tid tb a rels HW Ht Ha V3 r Hr. destruct (wf_layout _ HW tid tb Ht) as (a0 & Ha0 & Lids & Lk & Ltg).
  rewrite Ha in Ha0. injection Ha0 as <-. destruct (V3 (fst r) (in_map (@fst nat ent) _ _ Hr)) as (i & Hi & Hrc).
  pose proof (r2_comps_nodup s _ a HW Ha) as ND. destruct (r2_kinds_isrel s _ a HW Ha) as (HK & _).
  assert (Hlt : i < length (t_targets tb)) by (rewrite Ltg, Lids; eapply sa_nth_error_lt; exact Hi).
  destruct (nth_error (t_targets tb) i) as [y|] eqn:Ey; [|apply nth_error_None in Ey; lia].
  exists i, (kind_of s (fst r)), y. split; [unfold tbl_colidx; rewrite Lids; apply r2_index_of_nth; assumption|].
  assert (Hkd : nth_error (t_kinds tb) i = Some (kind_of s (fst r))).
  { rewrite Lk, Lids, nth_error_map, Hi. reflexivity. }
  split; [exact Hkd|]. split; [|exact Ey].
  rewrite Lk, Lids in Hkd. pose proof (HK i _ Hkd) as Hb. unfold r2_relcol in Hrc. rewrite Hrc in Hb. injection Hb as Hb. symmetry. exact Hb.
Qed.

Lemma r2_matches_exact_cases : forall D s tid tb a rels, WF s -> RelInvG D s ->
  nth_error (w_tables s) tid = Some tb -> nth_error (w_archs s) (t_arch tb) = Some a -> r2_rels_valid s a rels ->
  (tbl_matches_exact tb rels = MTrue /\ forall r, In r rels -> tbl_target tb (fst r) = Some (snd r)) \/
  (tbl_matches_exact tb rels = MFalse /\ exists r, In r rels /\ tbl_target tb (fst r) <> Some (snd r)).
Proof.
  intros D s tid tb a rels HW HR Ht Ha (V1 & V2 & V3 & V4). unfold tbl_matches_exact.
  destruct (ri_shape _ _ HR tid tb a Ht Ha) as (_ & _ & _ & S4). rewrite S4, V2, Nat.ltb_irrefl.
  apply r2_rels_match_exact_cases. apply (r2_rel_columns s tid tb a rels HW Ht Ha). intros c Hc. apply V3. exact Hc.
Qed.

Lemma r2_find_exact_cases : forall s rels tabs,
  (forall t, In t tabs -> exists tb, nth_error (w_tables s) t = Some tb /\
     (tbl_matches_exact tb rels = MTrue \/ tbl_matches_exact tb rels = MFalse)) ->
  (exists t tb, find_exact s tabs rels = Ok (Some t) s /\ In t tabs /\ nth_error (w_tables s) t = Some tb /\ tbl_matches_exact tb rels = MTrue) \/
  (find_exact s tabs rels = Ok None s /\ forall t tb, In t tabs -> nth_error (w_tables s) t = Some tb -> tbl_matches_exact tb rels = MFalse).
Proof.
  intros s rels tabs. induction tabs as [|t rest IH]; intros H.
  - right. split; [reflexivity|intros t tb []].
  - destruct (H t (or_introl eq_refl)) as (tb & Ht & Hm). cbn [find_exact]. rewrite Ht. destruct Hm as [Hm|Hm]; rewrite Hm.
    + left. exists t, tb. split; [reflexivity|]. split; [left; reflexivity|]. split; assumption.
    + destruct IH as [(t1 & tb1 & E & Hin & Ht1 & Hm1)|(E & Hall)].
      * intros t1 Hin. apply H. right. exact Hin.
      * left. exists t1, tb1. split; [exact E|]. split; [right; exact Hin|]. split; assumption.
      * right. split; [exact E|]. intros t1 tb1 [<-|Hin] Ht1; [rewrite Ht in Ht1; injection Ht1 as <-; exact Hm|apply (Hall t1 tb1 Hin Ht1)].
Qed.

Lemma r2_place_targets_comps : forall a a' rels tg, a_comps a' = a_comps a -> place_targets a' rels tg = place_targets a rels tg.
Proof.
  intros a a' rels. induction rels as [|[c x] rest IH]; intros tg E; cbn [place_targets]; [reflexivity|].
  rewrite E. destruct (index_of c (a_comps a)); [apply IH; exact E|reflexivity].
Qed.

(** a table whose targets are the placed ones matches every relation of the list *)
Lemma r2_placed_matches : forall s aid a rels tg tid tb, WF s -> nth_error (w_archs s) aid = Some a ->
  r2_rels_valid s a rels -> place_targets a rels (repeat zero_ent (length (a_comps a))) = Some tg ->
  nth_error (w_tables s) tid = Some tb -> t_arch tb = aid -> t_targets tb = tg ->
  forall r, In r rels -> tbl_target tb (fst r) = Some (snd r).
Proof.
  intros s aid a rels tg tid tb HW Ha HV Hp Ht Earch Etg r Hr.
  destruct (r2_valid_shape s aid a rels tg HW Ha HV Hp) as (_ & SH1 & _).
  destruct r as [c x]. destruct (proj1 (SH1 c x) Hr) as (i & Hi & _ & Hx).
  destruct (wf_layout _ HW tid tb Ht) as (a0 & Ha0 & Lids & _). rewrite Earch, Ha in Ha0. injection Ha0 as <-.
  unfold tbl_target, tbl_colidx. cbn [fst snd]. rewrite Lids, (r2_index_of_nth _ _ _ (r2_comps_nodup s aid a HW Ha) Hi), Etg. exact Hx.
Qed.

Lemma r2_arch_get_table_eval : forall a s (c : nat) (tg0 : ent) (rrest : list rel) t0 trest idx m,
  a_tables a = t0 :: trest -> a_numrel a <> 0 -> length (@cons rel (c, tg0) rrest) = a_numrel a ->
  NoDup (map fst (@cons rel (c, tg0) rrest)) ->
  index_of c (a_comps a) = Some idx -> nth_error (a_reltabs a) idx = Some m ->
  arch_get_table a (@cons rel (c, tg0) rrest) s =
  match afind (fst tg0) m with None => Ok None s | Some tabs => find_exact s tabs (@cons rel (c, tg0) rrest) end.
Proof.
  intros a s c tg0 rrest t0 trest idx m Etabs Hnz V2 Hnd Hidx Em.
  unfold arch_get_table, arch_has_rels. rewrite Etabs. apply Nat.eqb_neq in Hnz. rewrite Hnz. cbn [negb].
  assert (Eg : guard (negb (Nat.ltb (length (@cons rel (c, tg0) rrest)) (a_numrel a))) ERelUnspec s = Ok tt s) by (rewrite V2, Nat.ltb_irrefl; reflexivity).
  rewrite (sa_bind_ok Eg).
  assert (Eg2 : guard (rels_distinct (@cons rel (c, tg0) rrest)) ERelUnspec s = Ok tt s) by (rewrite (r2_rels_distinct_nodup _ Hnd); reflexivity).
  rewrite (sa_bind_ok Eg2). rewrite Hidx. cbn [of_opt].
  rewrite (sa_bind_ok (m := ret idx) (s := s) eq_refl). rewrite Em. cbn [of_opt].
  rewrite (sa_bind_ok (m := ret m) (s := s) eq_refl). cbn [fst]. destruct (afind (fst tg0) m); reflexivity.
Qed.

(** GetTable-or-create: either the unique active table with these relations is found (nothing
    changes), or it is created (and its targets are registered). Never fails for a valid relation
    list; no registration is pending afterwards. *)
Theorem r2_get_or_create_table_spec : forall D P X s aid a rels,
  St2G D P X s -> nth_error (w_archs s) aid = Some a ->
  r2_rels_valid s a rels -> r2_nostale a -> (forall x, In x (a_free a) -> ~ X x) ->
  exists tid s' t', get_or_create_table aid rels s = Ok tid s' /\
    St2G D P X s' /\ r2_relabel s s' /\
    nth_error (w_tables s') tid = Some t' /\ t_arch t' = aid /\ t_free t' = false /\
    (forall r, In r rels -> tbl_target t' (fst r) = Some (snd r)) /\
    ((s' = s) \/
     (nth_error (w_tables s) tid = None \/ (exists t0, nth_error (w_tables s) tid = Some t0 /\ t_free t0 = true)) /\
      t_len t' = 0 /\ t_rels t' = rels /\
      (forall x, x <> tid -> nth_error (w_tables s') x = nth_error (w_tables s) x) /\
      (forall i, i <> aid -> nth_error (w_archs s') i = nth_error (w_archs s) i)) /\
    r2_flags_mono s s' rels /\ w_index s' = w_index s /\ w_pool s' = w_pool s /\ side_same s s' /\ frame_user s s'.
Proof.
  intros D P X s aid a rels HS Ha HV Hstale HXf. pose proof HS as (HW & HR & HT & HC). pose proof HV as (V1 & V2 & V3 & V4).
  (* the two outcomes *)
  assert (Found : forall tid tb, nth_error (w_tables s) tid = Some tb -> t_arch tb = aid -> t_free tb = false ->
            (forall r, In r rels -> tbl_target tb (fst r) = Some (snd r)) ->
            exists tid0 s' t', Ok tid s = Ok tid0 s' /\
              St2G D P X s' /\ r2_relabel s s' /\
              nth_error (w_tables s') tid0 = Some t' /\ t_arch t' = aid /\ t_free t' = false /\
              (forall r, In r rels -> tbl_target t' (fst r) = Some (snd r)) /\
              ((s' = s) \/
               (nth_error (w_tables s) tid0 = None \/ (exists t0, nth_error (w_tables s) tid0 = Some t0 /\ t_free t0 = true)) /\
                t_len t' = 0 /\ t_rels t' = rels /\
                (forall x, x <> tid0 -> nth_error (w_tables s') x = nth_error (w_tables s) x) /\
                (forall i, i <> aid -> nth_error (w_archs s') i = nth_error (w_archs s) i)) /\
              r2_flags_mono s s' rels /\ w_index s' = w_index s /\ w_pool s' = w_pool s /\ side_same s s' /\ frame_user s s').
  { intros tid tb Ht Earch Hf Hm. exists tid, s, tb. split; [reflexivity|]. split.
    { exact HS. }
    split; [apply r2_relabel_flags; try reflexivity; exact HW|]. split; [exact Ht|]. split; [exact Earch|]. split; [exact Hf|]. split; [exact Hm|].
    split; [left; reflexivity|]. split; [apply r2_flags_mono_refl|]. split; [reflexivity|]. split; [reflexivity|].
    split; [apply sa_side_same_refl|apply sa_frame_user_refl]. }
  assert (Create : (forall x tx tg, nth_error (w_tables s) x = Some tx -> t_arch tx = aid -> t_free tx = false ->
                      place_targets a rels (repeat zero_ent (length (a_comps a))) = Some tg -> t_targets tx <> tg) ->
            (a_numrel a = 0 -> a_tables a = []) ->
            exists tid0 s' t', create_table aid rels s = Ok tid0 s' /\
              St2G D P X s' /\ r2_relabel s s' /\
              nth_error (w_tables s') tid0 = Some t' /\ t_arch t' = aid /\ t_free t' = false /\
              (forall r, In r rels -> tbl_target t' (fst r) = Some (snd r)) /\
              ((s' = s) \/
               (nth_error (w_tables s) tid0 = None \/ (exists t0, nth_error (w_tables s) tid0 = Some t0 /\ t_free t0 = true)) /\
                t_len t' = 0 /\ t_rels t' = rels /\
                (forall x, x <> tid0 -> nth_error (w_tables s') x = nth_error (w_tables s) x) /\
                (forall i, i <> aid -> nth_error (w_archs s') i = nth_error (w_archs s) i)) /\
              r2_flags_mono s s' rels /\ w_index s' = w_index s /\ w_pool s' = w_pool s /\ side_same s s' /\ frame_user s s').
  { intros Huniq Hnorel.
    destruct (r2_create_table_spec D P X s aid a rels HS Ha HV Huniq Hnorel Hstale HXf)
      as (tid & s' & t' & E & HS' & R & Ht' & Earch & Erels & Hf & Hlen & Hp & Hoth & Haoth & Hcase & I1 & I2 & I3 & I4 & I5).
    exists tid, s', t'. split; [exact E|]. split; [exact HS'|]. split; [exact R|]. split; [exact Ht'|]. split; [exact Earch|]. split; [exact Hf|].
    destruct HS' as (HW' & _).
    destruct (rl_archs _ _ R aid a Ha) as (a' & Ha' & M1 & M2 & M3 & M4 & _).
    split.
    { intros r Hr. assert (HV' : r2_rels_valid s' a' rels).
      { split; [exact V1|]. split; [rewrite M4; exact V2|]. split.
        - intros c. rewrite (V3 c). unfold r2_relcol. rewrite M2, M3. tauto.
        - intros r0 Hr0. destruct (V4 r0 Hr0) as [Hz|Hl]; [left; exact Hz|right; apply (r2_live_relabel s s' R); exact Hl]. }
      apply (r2_placed_matches s' aid a' rels (t_targets t') tid t' HW' Ha' HV'); try assumption; [|reflexivity].
      rewrite M2, (r2_place_targets_comps a a' rels _ M2). exact Hp. }
    split.
    { right. split.
      - destruct Hcase as [(-> & _)|(fr & Efr)]; [left; apply nth_error_None; lia|right].
        assert (Hin : In tid (a_free a)) by (rewrite Efr; apply in_app_iff; right; left; reflexivity).
        destruct (wf_arch_tables _ HW aid a tid Ha (or_intror (or_introl Hin))) as (t0 & Ht0 & _).
        exists t0. split; [exact Ht0|]. apply (ri_freed _ _ HR aid a tid t0 Ha Hin Ht0).
      - split; [exact Hlen|]. split; [exact Erels|]. split; [exact Hoth|exact Haoth]. }
    split; [apply r2_flags_reg_mono; exact I1|]. split; [exact I2|]. split; [exact I3|]. split; [exact I4|exact I5]. }
  unfold get_or_create_table. rewrite (sa_bind_ok (sa_getA_eq _ _ _ Ha)).
  destruct (a_tables a) as [|t0 trest] eqn:Etabs.
  - (* no active table at all *)
    assert (AGT : arch_get_table a rels s = Ok None s) by (unfold arch_get_table; rewrite Etabs; reflexivity).
    rewrite (sa_bind_ok AGT). apply Create; [|intros _; reflexivity].
    intros x tx tg Hx Earch Hf _ _. destruct (ri_listed _ _ HR x tx Hx) as (a0 & Ha0 & Hl). rewrite Earch, Ha in Ha0. injection Ha0 as <-.
    rewrite Hf, Etabs in Hl. destruct Hl.
  - destruct (Nat.eqb_spec (a_numrel a) 0) as [Hz|Hnz].
    + (* no relation components: the one table *)
      assert (AGT : arch_get_table a rels s = Ok (Some t0) s).
      { unfold arch_get_table, arch_has_rels. rewrite Etabs, Hz. reflexivity. }
      rewrite (sa_bind_ok AGT).
      assert (Hin : In t0 (a_tables a)) by (rewrite Etabs; left; reflexivity).
      destruct (wf_arch_tables _ HW aid a t0 Ha (or_introl Hin)) as (tb & Htb & Earch).
      apply (Found t0 tb Htb Earch (ri_active _ _ HR aid a t0 tb Ha Hin Htb)).
      rewrite Hz in V2. apply length_zero_iff_nil in V2. subst rels. intros r [].
    + destruct rels as [|[c tg0] rrest]; [cbn in V2; lia|].
      assert (Hc : exists idx, nth_error (a_comps a) idx = Some c /\ r2_relcol a idx).
      { apply V3. left. reflexivity. }
      remember (@cons rel (c, tg0) rrest) as R eqn:ER.
      destruct Hc as (idx & Hidx & Hrc). pose proof (r2_comps_nodup s aid a HW Ha) as NDc.
      destruct (r2_isrel_len s aid a HW Ha) as (LI & LRl).
      destruct (nth_error (a_reltabs a) idx) as [m|] eqn:Em; [|apply nth_error_None in Em; apply sa_nth_error_lt in Hidx; lia].
      assert (AGT : arch_get_table a R s =
                    match afind (fst tg0) m with None => Ok None s | Some tabs => find_exact s tabs R end).
      { rewrite ER in V1, V2 |- *. apply (r2_arch_get_table_eval a s c tg0 rrest t0 trest idx m Etabs Hnz V2 V1 (r2_index_of_nth _ _ _ NDc Hidx) Em). }
      (* an active table with the placed targets is listed under the first relation's key *)
      assert (Listed : forall x tx tg, nth_error (w_tables s) x = Some tx -> t_arch tx = aid -> t_free tx = false ->
                place_targets a R (repeat zero_ent (length (a_comps a))) = Some tg -> t_targets tx = tg ->
                exists l, afind (fst tg0) m = Some l /\ In x l /\ forall r, In r R -> tbl_target tx (fst r) = Some (snd r)).
      { intros x tx tg Hx Earch Hf Hp Etg.
        pose proof (r2_placed_matches s aid a R tg x tx HW Ha HV Hp Hx Earch Etg) as Hm.
        destruct (r2_valid_shape s aid a R tg HW Ha HV Hp) as (_ & SH1 & _).
        assert (Hin0 : In (c, tg0) R) by (rewrite ER; left; reflexivity).
        destruct (proj1 (SH1 c tg0) Hin0) as (i & Hi & _ & Hxi).
        assert (Ei : i = idx) by (apply (proj1 (NoDup_nth_error _) NDc); [eapply sa_nth_error_lt; exact Hi|congruence]). subst i.
        rewrite <- Earch in Ha. rewrite <- Etg in Hxi.
        destruct (ri_reltabs_complete _ _ HR x tx a idx tg0 Hx Hf Ha Hrc Hxi) as (m0 & l & Hm0 & Hl & Hin).
        rewrite Em in Hm0. injection Hm0 as <-. exists l. repeat split; assumption. }
      destruct (afind (fst tg0) m) as [tabs|] eqn:Etabs0.
      * (* candidates: search for the exact match *)
        assert (Hcand : forall t, In t tabs -> exists tb, nth_error (w_tables s) t = Some tb /\ t_arch tb = aid /\ t_free tb = false).
        { intros t Hin. destruct (wf_arch_tables _ HW aid a t Ha) as (tb & Htb & Earch); [right; right; left; exists idx, m, (fst tg0), tabs; repeat split; assumption|].
          exists tb. split; [exact Htb|]. split; [exact Earch|]. destruct (t_free tb) eqn:Ef; [|reflexivity]. exfalso.
          destruct (ri_listed _ _ HR t tb Htb) as (a0 & Ha0 & Hl). rewrite Earch, Ha in Ha0. injection Ha0 as <-. rewrite Ef in Hl.
          destruct (Hstale t Hl) as (_ & Hs2). apply (Hs2 idx m (fst tg0) tabs Em Etabs0 Hin). }
        destruct (r2_find_exact_cases s R tabs) as [(t & tb & E & Hin & Htb & Hm)|(E & Hall)].
        { intros t Hin. destruct (Hcand t Hin) as (tb & Htb & Earch & _). exists tb. split; [exact Htb|].
          rewrite <- Earch in Ha. destruct (r2_matches_exact_cases D s t tb a R HW HR Htb Ha HV) as [(E & _)|(E & _)]; [left|right]; exact E. }
        -- rewrite E in AGT. rewrite (sa_bind_ok AGT). destruct (Hcand t Hin) as (tb' & Htb' & Earch & Hf). rewrite Htb in Htb'. injection Htb' as <-.
           apply (Found t tb Htb Earch Hf). pose proof Ha as Ha2. rewrite <- Earch in Ha2.
           destruct (r2_matches_exact_cases D s t tb a R HW HR Htb Ha2 HV) as [(_ & Hm1)|(Hc & _)]; [exact Hm1|congruence].
        -- rewrite E in AGT. rewrite (sa_bind_ok AGT). apply Create; [|intros Hc; contradiction].
           intros x tx tg Hx Earch Hf Hp Etg. destruct (Listed x tx tg Hx Earch Hf Hp Etg) as (l & Hl & Hin & Hm). injection Hl as <-.
           pose proof (Hall x tx Hin Hx) as Hfalse. pose proof Ha as Ha2. rewrite <- Earch in Ha2.
           destruct (r2_matches_exact_cases D s x tx a R HW HR Hx Ha2 HV) as [(Hc & _)|(_ & r & Hr & Hne)]; [congruence|].
           apply Hne. apply Hm. exact Hr.
      * rewrite (sa_bind_ok AGT). apply Create; [|intros Hc; contradiction].
        intros x tx tg Hx Earch Hf Hp Etg. destruct (Listed x tx tg Hx Earch Hf Hp Etg) as (l & Hl & _). discriminate.
Qed.

(** ** Shrinking the set of dying ids *)

(** An id under which no lookup key is left can leave [D]: by completeness of the lookups no
    active table names it any more, and no freed table is listed under it. *)
Theorem r2_RelInvG_drop : forall s (D D' : nat -> Prop), RelInvG D s ->
  (forall k, D k -> D' k \/ forall aid a, nth_error (w_archs s) aid = Some a -> afind k (a_tgttabs a) = None) ->
  RelInvG D' s.
Proof.
  intros s D D' H HD. pose proof H as H0. destruct H. constructor; try assumption.
  - intros aid a i m k l Ha Hm Hk. destruct (ri_reltabs aid a i m k l Ha Hm Hk) as (N & Rc & Hall).
    split; [exact N|]. split; [exact Rc|]. intros tid Hin. destruct (Hall tid Hin) as (t & Ht & Hg & Hfree).
    exists t. split; [exact Ht|]. split; [exact Hg|]. intros Hf. destruct (Hfree Hf) as [H1 H2]. split; [|exact H2].
    destruct (HD k H1) as [Hd|Hno]; [exact Hd|]. destruct (ri_keys aid a i m k l Ha Hm Hk) as (l' & Hl'). rewrite (Hno aid a Ha) in Hl'. discriminate.
  - intros aid a k l Ha Hk. destruct (ri_tgttabs aid a k l Ha Hk) as (N & Hall).
    split; [exact N|]. intros tid Hin. destruct (Hall tid Hin) as (t & Ht & Hg & Hfree).
    exists t. split; [exact Ht|]. split; [exact Hg|]. intros Hf. destruct (Hfree Hf) as [H1 H2]. split; [|exact H2].
    destruct (HD k H1) as [Hd|Hno]; [exact Hd|]. rewrite (Hno aid a Ha) in Hk. discriminate.
  - intros tid t r Ht Hf Hin. destruct (ri_targets_ok tid t r Ht Hf Hin) as [Hz|[Hl|Hd]]; [left; exact Hz|right; left; exact Hl|].
    destruct (HD _ Hd) as [Hd'|Hno]; [right; right; exact Hd'|]. exfalso.
    destruct (ri_listed tid t Ht) as (a & Ha & _). destruct (ri_shape tid t a Ht Ha) as (_ & S2 & _).
    destruct r as [c x]. destruct (proj1 (S2 c x) Hin) as (i & _ & Rc & Hx).
    destruct (ri_tgttabs_complete tid t a i x Ht Hf Ha Rc Hx) as (l & Hl & _). cbn [snd] in Hno. rewrite (Hno _ a Ha) in Hl. discriminate.
Qed.

(** ** cache_remove_table *)

Lemma r2_cache_remove_loop : forall tid L s, NoDup L ->
  exists l', forM_ L (fun addr => modify (fun s0 => s0 <| w_cheap ::= updf addr (fun e => e <| ce_tables ::= tids_remove tid |>) |>)) s
             = Ok tt (s <| w_cheap := l' |>) /\
    length l' = length (w_cheap s) /\
    forall addr e, nth_error (w_cheap s) addr = Some e -> exists e', nth_error l' addr = Some e' /\
      ce_id e' = ce_id e /\ ce_filter e' = ce_filter e /\ ce_rels e' = ce_rels e /\
      ce_tables e' = if memb addr L then tids_remove tid (ce_tables e) else ce_tables e.
Proof.
  intros tid L. induction L as [|a0 L IH]; intros s ND.
  - exists (w_cheap s). cbn [forM_]. unfold ret. rewrite sa_set_cheap_id. split; [reflexivity|]. split; [reflexivity|].
    intros addr e He. exists e. repeat split. exact He.
  - cbn [forM_]. inversion ND as [|x y Hnin ND']; subst x y.
    set (s1 := s <| w_cheap ::= updf a0 (fun e => e <| ce_tables ::= tids_remove tid |>) |>).
    assert (E : modify (fun s0 : wstate => s0 <| w_cheap ::= updf a0 (fun e => e <| ce_tables ::= tids_remove tid |>) |>) s = Ok tt s1) by reflexivity.
    rewrite (sa_bind_ok E). destruct (IH s1 ND') as (l' & E' & LL & Pp).
    exists l'. split; [rewrite E'; reflexivity|]. split; [rewrite LL; unfold s1; cbn; apply updf_length|].
    intros addr e He.
    assert (C1 : nth_error (w_cheap s1) addr =
                 if Nat.eqb a0 addr then Some (e <| ce_tables ::= tids_remove tid |>) else Some e).
    { unfold s1. cbn. rewrite nth_error_updf, He. destruct (Nat.eqb a0 addr); reflexivity. }
    rewrite sa_memb_cons. destruct (Nat.eqb_spec a0 addr) as [<-|Hne].
    + destruct (Pp _ _ C1) as (e' & He' & U1 & U2 & U3 & U4). exists e'. split; [exact He'|]. cbn [orb].
      assert (Hm : memb a0 L = false) by (destruct (memb a0 L) eqn:Em; [apply sa_memb_in in Em; contradiction|reflexivity]).
      rewrite Hm in U4. repeat split; assumption.
    + destruct (Pp _ _ C1) as (e' & He' & U1 & U2 & U3 & U4). exists e'. split; [exact He'|]. cbn [orb]. repeat split; assumption.
Qed.

(** Dropping a freed table from the cache entries closes the window opened by [free_table]. *)
Theorem r2_cache_remove_table_spec : forall D P X s tid t, St2G D P (r2_add1 X tid) s ->
  nth_error (w_tables s) tid = Some t -> t_free t = true ->
  exists l', cache_remove_table tid s = Ok tt (s <| w_cheap := l' |>) /\ St2G D P X (s <| w_cheap := l' |>).
Proof.
  intros D P X s tid t (HW & HR & HT & HC) Ht Hf. destruct HC as [CN CE].
  destruct (r2_cache_remove_loop tid (w_centries s) s CN) as (l' & E & LL & Pp).
  exists l'. split; [unfold cache_remove_table, bind, get; exact E|].
  set (s' := s <| w_cheap := l' |>).
  assert (Hrel : sa_cheap_rel (w_cheap s) (w_cheap s')).
  { intros addr e He. destruct (Pp addr e He) as (e' & He' & _ & U2 & _). exists e'. split; assumption. }
  split; [|split; [apply (r2_RelInvG_ext s s' D); try reflexivity; exact HR|split; [exact HT|]]].
  - apply (r2_WF_relabel s s' HW).
    + constructor; try reflexivity; try assumption.
      * intros x tx Hx. exists tx. split; [exact Hx|]. split; [apply r2_same_data_refl|].
        destruct (wf_layout _ HW x tx Hx) as (a0 & _ & _ & _ & L). exact L.
      * intros x tx' Hx Hn. change (w_tables s') with (w_tables s) in Hx. rewrite Hn in Hx. discriminate.
      * intros aid a Ha. exists a. repeat split; exact Ha.
    + apply (wf_arch_tables _ HW).
    + apply (wf_arch_norel_table _ HW).
  - constructor; [exact CN|]. intros addr e' f Hin He' Hfl.
    assert (He : exists e, nth_error (w_cheap s) addr = Some e).
    { destruct (nth_error (w_cheap s) addr) as [e|] eqn:Ee; [exists e; reflexivity|].
      apply nth_error_None in Ee. change (w_cheap s') with l' in He'. pose proof (sa_nth_error_lt _ _ _ _ He'). lia. }
    destruct He as (e & He). destruct (Pp addr e He) as (e'' & He'' & U1 & U2 & U3 & U4).
    change (w_cheap s') with l' in He'. rewrite He' in He''. injection He'' as <-.
    change (w_filters s') with (w_filters s) in Hfl. rewrite U2 in Hfl.
    destruct (CE addr e f Hin He Hfl) as (N & M & Bd & I).
    assert (Hm : memb addr (w_centries s) = true) by (apply sa_memb_in; exact Hin). rewrite Hm in U4.
    destruct (tids_remove_spec tid (ce_tables e) N) as (N1 & N2). rewrite U3, U4.
    split; [exact N1|]. split; [exact M|]. split.
    + intros x Hx. apply N2 in Hx. apply (Bd x). apply Hx.
    + intros x HXx. rewrite (N2 x). destruct (Nat.eq_dec x tid) as [->|Hne].
      * split; [intros (_ & Hc); contradiction|]. intros (t1 & a1 & Ht1 & Hf1 & _).
        change (w_tables s') with (w_tables s) in Ht1. rewrite Ht in Ht1. injection Ht1 as <-. congruence.
      * assert (HX' : ~ r2_add1 X tid x) by (intros [Hc|Hc]; [contradiction|contradiction]).
        rewrite (I x HX'). unfold r2_cache_member. change (w_tables s') with (w_tables s). change (w_archs s') with (w_archs s). tauto.
Qed.

Definition r2_struct_all :=
  (r2_register_targets_spec, r2_arch_remove_target_spec, r2_free_table_spec, r2_arch_add_table_spec,
   r2_create_tail_spec, r2_create_table_spec, r2_get_or_create_table_spec, r2_St2_targets,
   r2_RelInvG_drop, r2_cache_remove_table_spec).
Print Assumptions r2_struct_all.
